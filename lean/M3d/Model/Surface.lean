/-!
# Combinatorial surfaces over vertex ids (shared by C01 C10 C11 C14 C18)

Core Lean only, self-contained.  A 3-D mesh is a *triangle soup* `List (Nat × Nat × Nat)`
over vertex ids, a 2-D mesh a *segment soup* `List (Nat × Nat)`.  Vertex ids stand for
distinct coordinates (Go compares coordinates with `==`).

Every predicate comes as a `Prop` (what theorems talk about) and as an executable `Bool`
decider; `M3d/Lemmas/Surface.lean` proves `decider = true ↔ Prop`, so running a decider on
the soup of a real output mesh is a proved judgement about that output.
-/
namespace M3d.Surface

abbrev Tri := Nat × Nat × Nat
abbrev Edge := Nat × Nat
abbrev Seg := Nat × Nat

/-- The directed edge traversed the other way. -/
def swap (e : Edge) : Edge := (e.2, e.1)

/-- The three directed edges of a triangle, in traversal order. -/
def triEdges (t : Tri) : List Edge := [(t.1, t.2.1), (t.2.1, t.2.2), (t.2.2, t.1)]

def triVerts (t : Tri) : List Nat := [t.1, t.2.1, t.2.2]

/-- All directed edges of the soup (with multiplicity). -/
def dirEdges (ts : List Tri) : List Edge := ts.flatMap triEdges

/-- All vertex occurrences (with multiplicity). -/
def vertsAll (ts : List Tri) : List Nat := ts.flatMap triVerts

/-- The vertices of the soup, each once. -/
def verts (ts : List Tri) : List Nat := (vertsAll ts).eraseDups

/-! ## Edge balance: closed + consistently oriented + edge-manifold -/

/-- Every directed edge occurs exactly once and its reverse occurs exactly once: every
undirected edge is shared by exactly two triangles which traverse it in opposite directions. -/
def EdgeBalanced (ts : List Tri) : Prop :=
  ∀ e ∈ dirEdges ts, (dirEdges ts).count e = 1 ∧ (dirEdges ts).count (swap e) = 1

def edgeBalanced (ts : List Tri) : Bool :=
  let es := dirEdges ts
  es.all fun e => es.count e == 1 && es.count (swap e) == 1

/-! ## No degenerate faces -/

def TriNondeg (t : Tri) : Prop := t.1 ≠ t.2.1 ∧ t.2.1 ≠ t.2.2 ∧ t.2.2 ≠ t.1

def NoDegenerate (ts : List Tri) : Prop := ∀ t ∈ ts, TriNondeg t

def triNondeg (t : Tri) : Bool := t.1 != t.2.1 && t.2.1 != t.2.2 && t.2.2 != t.1

def noDegenerate (ts : List Tri) : Bool := ts.all triNondeg

/-! ## Vertex fans -/

/-- The edge of `t` opposite to `v`, oriented as in `t` (none if `v` is not a corner). -/
def rot (v : Nat) (t : Tri) : Option Edge :=
  if t.1 = v then some (t.2.1, t.2.2)
  else if t.2.1 = v then some (t.2.2, t.1)
  else if t.2.2 = v then some (t.1, t.2.1)
  else none

/-- The link of `v`: one directed edge per incident triangle. -/
def link (v : Nat) (ts : List Tri) : List Edge := ts.filterMap (rot v)

/-- The directed edges of the closed cycle `l₀ → l₁ → … → lₙ₋₁ → l₀`. -/
def cycleEdges : List Nat → List Edge
  | [] => []
  | a :: t => List.zip (a :: t) (t ++ [a])

/-- `es` is (a rearrangement of) the edges of ONE simple closed cycle. -/
def FanCycle (es : List Edge) : Prop := ∃ l : List Nat, l.Nodup ∧ es.Perm (cycleEdges l)

/-- At every vertex the incident triangles form a single cycle (no pinched vertex). -/
def FanConnected (ts : List Tri) : Prop := ∀ v ∈ verts ts, FanCycle (link v ts)

/-- Successor of `a` along the edges `es` (first match). -/
def nextOf (es : List Edge) (a : Nat) : Nat :=
  match es.find? (fun e => e.1 == a) with
  | some e => e.2
  | none => a

/-- `n` vertices met when following `es` from `a`. -/
def walk (es : List Edge) : Nat → Nat → List Nat
  | 0, _ => []
  | n + 1, a => a :: walk es n (nextOf es a)

/-- Decider for `FanCycle`: follow the edges from the first one for `|es|` steps and compare. -/
def fanCycle (es : List Edge) : Bool :=
  match es with
  | [] => true
  | e :: _ =>
    let l := walk es es.length e.1
    decide l.Nodup && es.isPerm (cycleEdges l)

def fanConnected (ts : List Tri) : Bool := (verts ts).all fun v => fanCycle (link v ts)

/-! ## Closed oriented manifold -/

def ClosedManifold (ts : List Tri) : Prop := EdgeBalanced ts ∧ FanConnected ts ∧ NoDegenerate ts

def closedManifold (ts : List Tri) : Bool := edgeBalanced ts && fanConnected ts && noDegenerate ts

/-- No two faces on the same three vertices (excludes the two-triangle "pillow", which the Go
code treats as a flattened, invalid result: `attemptRemoveVertex` rolls such a result back). -/
def sameVerts (s t : Tri) : Bool := (triVerts s).all (triVerts t).contains && (triVerts t).all (triVerts s).contains

def NoDupFace : List Tri → Prop
  | [] => True
  | t :: ts => (∀ s ∈ ts, sameVerts t s = false) ∧ NoDupFace ts

def noDupFace : List Tri → Bool
  | [] => true
  | t :: ts => ts.all (fun s => !sameVerts t s) && noDupFace ts

/-! ## Euler characteristic -/

/-- Canonical representative of an undirected edge. -/
def undirected (e : Edge) : Edge := if e.1 ≤ e.2 then e else swap e

def numV (ts : List Tri) : Nat := (verts ts).length
def numE (ts : List Tri) : Nat := ((dirEdges ts).map undirected).eraseDups.length
def numF (ts : List Tri) : Nat := ts.length

/-- `V − E + F`. -/
def euler (ts : List Tri) : Int := (numV ts : Int) - (numE ts : Int) + (numF ts : Int)

/-! ## Relabelling and reversal -/

def mapEdge (f : Nat → Nat) (e : Edge) : Edge := (f e.1, f e.2)
def mapTri (f : Nat → Nat) (t : Tri) : Tri := (f t.1, f t.2.1, f t.2.2)

/-- Move every vertex: `v ↦ f v`. -/
def relabel (f : Nat → Nat) (ts : List Tri) : List Tri := ts.map (mapTri f)

def reverseTri (t : Tri) : Tri := (t.1, t.2.2, t.2.1)

/-- Flip every face. -/
def reverse (ts : List Tri) : List Tri := ts.map reverseTri

/-! ## 2-D: segment soups -/

def segVertsAll (ss : List Seg) : List Nat := ss.flatMap fun s => [s.1, s.2]
def segVerts (ss : List Seg) : List Nat := (segVertsAll ss).eraseDups

def starts (ss : List Seg) : List Nat := ss.map (·.1)
def ends (ss : List Seg) : List Nat := ss.map (·.2)

/-- Every vertex has exactly one outgoing and exactly one incoming segment: a disjoint union
of consistently oriented closed polygons. -/
def InOutOne (ss : List Seg) : Prop :=
  ∀ v ∈ segVertsAll ss, (starts ss).count v = 1 ∧ (ends ss).count v = 1

def inOutOne (ss : List Seg) : Bool :=
  (segVertsAll ss).all fun v => (starts ss).count v == 1 && (ends ss).count v == 1

def NoLoopSeg (ss : List Seg) : Prop := ∀ s ∈ ss, s.1 ≠ s.2
def noLoopSeg (ss : List Seg) : Bool := ss.all fun s => s.1 != s.2

/-- Closed oriented 1-manifold. -/
def ClosedCurves (ss : List Seg) : Prop := InOutOne ss ∧ NoLoopSeg ss
def closedCurves (ss : List Seg) : Bool := inOutOne ss && noLoopSeg ss

def relabelSegs (f : Nat → Nat) (ss : List Seg) : List Seg := ss.map (mapEdge f)
def reverseSegs (ss : List Seg) : List Seg := ss.map swap

/-- Number of connected components of a closed curve soup is not needed: `V − E` is the
Euler characteristic of a 1-complex (0 for closed curves). -/
def euler2 (ss : List Seg) : Int := ((segVerts ss).length : Int) - (ss.length : Int)

end M3d.Surface
