import M3d.Model.Collide
/-!
# C07 — `Cylinder`: rays along the axis, `Cylinder.Contains`

Core Lean only.

* `cylAxisSpec`: what a ray `(o, v·k)` running exactly along the unit axis `v` of a cylinder must report: the quadratic of
  the lateral surface degenerates (`a = b = 0`), the ray stays at its distance from the axis, and it crosses the two cap
  planes at `(0 - z)/k` and `(len - z)/k` (`z` = axial coordinate of the origin).  `M3d.C07.cylinder_axis_rays` proves that
  `cylHits` — the transcription of `Cylinder.RayCollisions` — reports exactly this list, in this order.
* `cylContains`: `Cylinder.Contains`, operation by operation (`M3d.C07.cylinder_contains_iff`: the closed cylinder; the
  "inside" of `cylinder_axis_rays` and `parity_inside_cylinder`; tied to the regenerated `model3d.Cylinder_Contains` in
  `Lemmas/KernelsTieCollideShapes.lean`).
-/
namespace M3d.Col

section Numeric
variable {α : Type} [Add α] [Sub α] [Mul α] [Div α] [Neg α] [LT α] [LE α] [DecidableLT α] [DecidableLE α]
  [OfNat α 0] [OfNat α 1]

/-- The collisions a ray `(o, v·k)`, `k ≠ 0`, along the unit axis `v` of the cylinder `P1`, `P2 = P1 + v·len`, `radius`
has with the surface, in the order `Cylinder.RayCollisions` reports them (base disc, top disc): nothing when the ray runs
outside the radius; otherwise the crossings of the planes `z = 0` (normal `-v`) and `z = len` (normal `v`) that are not
behind the origin. -/
def cylAxisSpec (p1 v : V3 α) (len radius : α) (o : V3 α) (k : α) : List (Hit α) :=
  let w := o.sub p1
  let z := w.dot v
  let rad := w.sub (v.scale z)
  if radius * radius < rad.dot rad then []
  else
    (if (0 - z) / k < 0 then [] else [⟨(0 - z) / k, v.scale (-1)⟩]) ++
    (if (len - z) / k < 0 then [] else [⟨(len - z) / k, v⟩])

/-- `Cylinder.Contains`: `frac := (p - P2)·direction` with `direction = (P1 - P2).Normalize()`; outside if
`frac < 0 || frac > |P1 - P2|`; else `projection.Dist(p) <= Radius`. -/
def cylContains (sqrtF : α → α) (p1 p2 : V3 α) (radius : α) (p : V3 α) : Bool :=
  let diff := p1.sub p2
  let direction := diff.normalize sqrtF
  let frac := (p.sub p2).dot direction
  if frac < 0 ∨ diff.norm sqrtF < frac then false
  else
    let projection := p2.add (direction.scale frac)
    decide (projection.dist sqrtF p ≤ radius)

end Numeric

end M3d.Col
