import M3d.Model.MeshOps
/-!
# `Mesh.Blur` / `Mesh.BlurFiltered` with several rates (C10)

Core Lean only.  `BlurFiltered(f, rates...)` indexes the vertices, builds one neighbour list per
vertex (from the ORIGINAL mesh, filtered by `f` on the original coordinates) and then runs one
iteration per rate:

    newCoords := make([]Coord3D, len(coords))
    for _, rate := range rates {
        for i, c := range coords { newCoords[i] = rule(rate, c, coords[n] for n in neighbors[i]) }
        copy(coords, newCoords)
    }

Every iteration reads ONLY the previous iterate (`coords` and `newCoords` are distinct buffers):
`blurStep`.  `blurRates` is the loop over the rates.  `blurRatesAliased` is the loop with
`coords = newCoords` instead of `copy(coords, newCoords)` (seeded change C10-5): from the second
rate on both names denote the same buffer and a vertex reads the already updated positions of
the vertices before it.
-/
namespace M3d.MeshOps

section BlurIter
variable {α : Type} [Add α] [Sub α] [Mul α] [Div α] [Neg α] [NatCast α] [OfNat α 0] [OfNat α 1]
  [DecidableEq α]

/-- The rule for one vertex in one iteration, both branches of the Go code
(`rate == -1`: mean of the vertex and its neighbours; otherwise `avg·rate + c·(1-rate)`;
no neighbours: the vertex stays — both `blurPoint` and `blurPointMean` return `c` then). -/
def blurRule (rate : α) (c : V3 α) (nbrs : List (V3 α)) : V3 α :=
  if rate = -1 then blurPointMean c nbrs else blurPoint rate c nbrs

/-- One iteration: vertex `i` (position `cs[i]`, neighbours `nbrs i`, fixed for the whole call)
gets the rule applied to the PREVIOUS positions of itself and of its neighbours. -/
def blurStep (nbrs : Nat → List Nat) (d : V3 α) (rate : α) (cs : List (V3 α)) : List (V3 α) :=
  (List.range cs.length).map fun i => blurRule rate (cs.getD i d) ((nbrs i).map (cs.getD · d))

/-- `BlurFiltered(f, rates...)` on the indexed coordinates: one `blurStep` per rate, in order. -/
def blurRates (nbrs : Nat → List Nat) (d : V3 α) (rates : List α) (cs : List (V3 α)) : List (V3 α) :=
  rates.foldl (fun cs r => blurStep nbrs d r cs) cs

/-- One iteration that writes into the buffer it reads from (index order `0, 1, …`). -/
def blurStepInPlace (nbrs : Nat → List Nat) (d : V3 α) (rate : α) (cs : List (V3 α)) : List (V3 α) :=
  (List.range cs.length).foldl
    (fun cur i => cur.set i (blurRule rate (cur.getD i d) ((nbrs i).map (cur.getD · d)))) cs

/-- The loop with `coords = newCoords` in place of `copy(coords, newCoords)` (seeded change
C10-5): the first iteration still has two buffers, every later one is in place.  Only used to
show that `blur_rates_are_successive_iterations` separates it from the code as it is. -/
def blurRatesAliased (nbrs : Nat → List Nat) (d : V3 α) (rates : List α) (cs : List (V3 α)) : List (V3 α) :=
  match rates with
  | [] => cs
  | r :: rs => rs.foldl (fun cs r => blurStepInPlace nbrs d r cs) (blurStep nbrs d r cs)

end BlurIter

end M3d.MeshOps
