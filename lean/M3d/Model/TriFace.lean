import M3d.Model.Triangulate
/-!
# C14 — the chart of `model3d.TriangulateFace` (which vertex supplies the second basis vector)

Core Lean only.  `TriangulateFace` projects the face to 2-D with

```go
basis1 := polygon[1].Sub(polygon[0]).Normalize()
minDot := math.Inf(1)
basis2, _ := basis1.OrthoBasis()
for _, p := range polygon[2:] {
    v := p.Sub(polygon[0]).ProjectOut(basis1).Normalize()
    dot := math.Abs(v.Dot(basis1))
    if !math.IsNaN(dot) && !math.IsInf(dot, 0) && dot < minDot { minDot = dot; basis2 = v }
}
coords2D[i] = Coord2D{X: basis1.Dot(p.Sub(polygon[0])), Y: basis2.Dot(p.Sub(polygon[0]))}
```

On the exact side `p.Sub(p0).ProjectOut(basis1)` is the residual `w − u·(u·w)/(u·u)` (`u = p1 − p0`,
`w = p − p0`), which is the zero vector exactly when `p` is colinear with `p0, p1`; `Normalize` of the
zero vector is `NaN` (skipped), and for every other vertex `v·basis1 = 0`, so with the strict `dot < minDot`
the FIRST vertex of `polygon[2:]` that is not colinear with `p0, p1` supplies `basis2`.  In float64 the
residual of a colinear vertex is rounding noise (length ≈ 1e-16·|w|, arbitrary direction) whose
normalisation is a perfectly finite unit vector with `|v·basis1|` of order 1; the `dot < minDot` selection
is what rejects it in favour of a genuine candidate (`|v·basis1|` ≈ 1e-16).

The model avoids `sqrt`: `basis1` is represented by `u` itself and the residual by `(u·u)·w − (u·w)·u`
(`residual3`), positive multiples of the Go vectors; `M3d.C14.face_chart_orient` shows that the choice of
positive factors is irrelevant for every orientation decision taken in the chart.
-/
namespace M3d.Tri

section FaceBasis
variable {α : Type} [Mul α] [Sub α] [Add α] [OfNat α 0] [DecidableEq α]

def scale3 (k : α) (a : P3 α) : P3 α := ⟨k * a.x, k * a.y, k * a.z⟩

/-- `(u·u)` times `w.ProjectOut(u)`: `(u·u)·w − (u·w)·u`. -/
def residual3 (u w : P3 α) : P3 α := sub3 (scale3 (dot3 u u) w) (scale3 (dot3 u w) u)

def isZero3 (a : P3 α) : Bool := decide (a.x = 0) && decide (a.y = 0) && decide (a.z = 0)

/-- Is `p` a usable candidate for `basis2` (exact side: its residual is not the zero vector)? -/
def faceCandidate (p0 p1 p : P3 α) : Bool := !isZero3 (residual3 (sub3 p1 p0) (sub3 p p0))

/-- Index (into `polygon`) of the vertex whose residual becomes `basis2`: the first vertex of
`polygon[2:]` not colinear with `polygon[0], polygon[1]`; `none` = no such vertex (the Go code then
keeps `OrthoBasis` and `Triangulate` panics "polygon does not span a 2-D space"). -/
def faceBasisIdx : List (P3 α) → Option Nat
  | p0 :: p1 :: rest =>
    let j := rest.findIdx (faceCandidate p0 p1)
    if j < rest.length then some (j + 2) else none
  | _ => none

/-- The chart with `basis1 ∝ p1 − p0` and `basis2 ∝` the residual of `polygon[j]`. -/
def faceChartAt (poly : List (P3 α)) (j : Nat) : List (P2 α) :=
  match poly with
  | p0 :: p1 :: _ =>
    projectFace (sub3 p1 p0) (residual3 (sub3 p1 p0) (sub3 (poly.getD j p0) p0)) poly
  | _ => []

/-- The 2-D polygon `TriangulateFace` hands to `Triangulate` (up to positive factors per axis). -/
def faceChart (poly : List (P3 α)) : Option (List (P2 α)) :=
  (faceBasisIdx poly).map (faceChartAt poly)

end FaceBasis

end M3d.Tri
