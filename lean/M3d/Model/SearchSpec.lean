import M3d.Model.Bisect
/-!
# What "within spacing/2^iterations of a real transition on its edge" means, as a decision procedure
  (core-only, generic over the scalar), and the edge lookup on a STORED lattice

Property C02 demands of every search-refined vertex that it is within `δ / 2^iters` of a real
inside/outside transition on its lattice edge.  For the solids of the `mcl` / `msl` kinds (unions and
differences of axis-aligned boxes and half-spaces) the classification along a lattice edge is constant
between consecutive *breakpoints* (the face coordinates of the solid on that axis), so the transitions of
the edge can be listed exactly:

* `changes P ts` — `ts` the increasing list `lo = t₀ < t₁ < … < tₘ = hi` of the lattice ends and the
  breakpoints between them; a breakpoint is a transition iff its class differs from the class of the
  open interval before or after it (sampled at the interval's midpoint);
* `nearTransition P ts v w` — some transition is within `w` of `v`.

`M3d/Lemmas/SearchSpec.lean` proves that `changes` lists exactly the transition points
(`changes_sound`, `changes_complete`), for every linear ordered field.

`lookupEdgeArr` is `squareSpacer.LookupEdgePoint` on the arrays the spacer stores (not on an ideal
lattice `origin + i·δ`): it returns `values[idx]`, `values[idx+1]` — the very numbers the marching pass
sampled.  `lookupEdgeFar` is the variant "near end + first step of the lattice" (what a shortcut
"the lattice is evenly spaced" computes), kept to state that it is NOT equivalent.
-/
namespace M3d.SearchSpec

section
variable {α : Type} [Add α] [Div α] [OfNat α 2]

/-- the breakpoints of `ts` at which the classification `P` changes -/
def changes (P : α → Bool) : List α → List α
  | a :: b :: r =>
    (if P a != P ((a + b) / 2) then [a] else []) ++
      ((if P ((a + b) / 2) != P b then [b] else []) ++ changes P (b :: r))
  | _ => []

end

section
variable {α : Type} [Add α] [Sub α] [Div α] [OfNat α 2] [LE α] [DecidableLE α]

/-- `|x - y| ≤ w` -/
def absLe (x y w : α) : Bool := decide (x - y ≤ w) && decide (y - x ≤ w)

/-- some point of the edge at which the classification changes is within `w` of `v` -/
def nearTransition (P : α → Bool) (ts : List α) (v w : α) : Bool :=
  (changes P ts).any fun c => absLe v c w

end

open M3d.Bisect in
/-- `squareSpacer.LookupEdgePoint` on the stored lattice arrays `vals` (one list per axis):
`origin[i] = vals[i][0]`, `delta = Xs[1] - Xs[0]`, the first axis whose coordinate is in the middle half
of a step, `idx = int((c[i] - origin[i]) / delta)`, result `(i, vals[i][idx], vals[i][idx+1])`.
`none` = the Go code panics (no axis in the window, or an index out of range). -/
def lookupEdgeArr (vals : List (List Rat)) (c : List Rat) : Option (Nat × Rat × Rat) :=
  let d := (vals.getD 0 []).getD 1 0 - (vals.getD 0 []).getD 0 0
  let rec go (i : Nat) : List (List Rat) → List Rat → Option (Nat × Rat × Rat)
    | xs :: rest, v :: vs =>
      let o := xs.getD 0 0
      if inWindow (rabs (fmod (v - o) d)) d then
        let idx := (truncDiv (v - o) d).toNat
        match xs[idx]?, xs[idx + 1]? with
        | some a, some b => some (i, a, b)
        | _, _ => none
      else go (i + 1) rest vs
    | _, _ => none
  go 0 vals c

open M3d.Bisect in
/-- The far end as "near end + first step of the lattice" instead of the stored `values[idx+1]`. -/
def lookupEdgeFar (vals : List (List Rat)) (c : List Rat) : Option (Nat × Rat × Rat) :=
  (lookupEdgeArr vals c).map fun r =>
    let xs := vals.getD r.1 []
    (r.1, r.2.1, r.2.1 + (xs.getD 1 0 - xs.getD 0 0))

end M3d.SearchSpec
