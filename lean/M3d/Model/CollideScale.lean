import M3d.Model.Collide
/-!
# C07 — callbacks that query the collider again, and rays with a scaled direction

Core Lean only.

* **Re-entrant callbacks.**  A Go `c.RayCollisions(r, f)` whose callback `f` has side effects is
  `runCallbacks c r f s₀`: the calls are folded over the user's state.  The callback is *any* function — in
  particular one that was built from the collider `c` itself and makes further queries against it before it
  returns (secondary / shadow rays from the hit point, `FirstRayCollision`, ball queries).  `recordActive` is the
  callback the harness installs: it records the collision it was called with and the answers of the nested queries
  `q c h` it makes.  `reentOk` / `reentVerdict` is the comparison of such an observation with the observation made
  with a passive callback and with the same nested queries repeated outside of any enumeration
  (`M3d.C07.callbacks_cannot_influence`, `M3d.C07.reent_obs`: for a collider that is a function of the ray alone —
  every model of this project — the comparison succeeds whatever the callback does).

* **Scaled directions.**  `RayCollisions(c, (o, k·d))`, `k > 0`, must report the same points as
  `RayCollisions(c, (o, d))`: the same callbacks with every parameter divided by `k` (`Hit.scaleT`, `scaledRun`),
  `ScaleCov` (`M3d.C07.ray_scale_invariant_*`).
-/
namespace M3d.Col

section Reent
variable {R H σ T : Type}

/-- `c.RayCollisions(r, f)` with a callback that changes the user's state `σ` (a closure over local variables):
the returned count and the state after the calls. -/
def runCallbacks (c : Collider R H) (r : R) (f : H → σ → σ) (s : σ) : Nat × σ :=
  ((c.ray r true).1, (c.ray r true).2.foldl (fun s h => f h s) s)

/-- The recording callback of the harness: append the collision, make the nested queries `q c h` against the same
collider (any function of the collider and of the collision just reported) and append their answers. -/
def recordActive (c : Collider R H) (q : Collider R H → H → List T) (h : H) (s : List H × List T) :
    List H × List T :=
  (s.1 ++ [h], s.2 ++ q c h)

/-- The comparison evaluated on an observation of the real code: `nP`, `p` = count and callbacks with a passive
callback; `nA`, `a` = count and callbacks with the active (re-entrant) callback; `ni` = the answers the nested
queries got inside the callbacks, `no` = the answers of the same queries made afterwards outside of any
enumeration. -/
def reentOk [BEq H] [BEq T] (nP : Nat) (p : List H) (nA : Nat) (a : List H) (ni no : List T) : Bool :=
  (nA == a.length) && (nA == nP) && (a == p) && (ni == no)

/-- Which clause fails (for the replay file). -/
def reentVerdict [BEq H] [BEq T] (nP : Nat) (p : List H) (nA : Nat) (a : List H) (ni no : List T) : String :=
  if !(nA == a.length) then "count-vs-callbacks"
  else if !(nA == nP) then "count-differs-with-active-callback"
  else if !(a == p) then "enumeration-differs-with-active-callback"
  else if !(ni == no) then "nested-query-differs"
  else "ok"

end Reent

section Scale
variable {α : Type}

/-- the parameter of the same point on the ray `(o, k·d)` -/
def scaleParam [Div α] (k t : α) : α := t / k

/-- the collision of the ray `(o, k·d)` at the same point: parameter divided by `k`, same normal -/
def Hit.scaleT [Div α] (k : α) (h : Hit α) : Hit α := ⟨scaleParam k h.t, h.n⟩
def Hit2.scaleT [Div α] (k : α) (h : Hit2 α) : Hit2 α := ⟨scaleParam k h.t, h.n⟩

/-- what `RayCollisions(c, (o, k·d))` has to return, from the result for `(o, d)` -/
def scaledRun {H : Type} (sc : H → H) (run : Nat × List H) : Nat × List H := (run.1, run.2.map sc)

/-- **Scale covariance** of a collider over rays `(origin, direction)`: multiplying the direction by `k > 0`
(`scaleDir`) leaves the count, maps every callback with `sc k` (parameter divided by `k`) and likewise the first
collision. -/
def ScaleCov {V H : Type} [LT α] [OfNat α 0] (scaleDir : V → α → V) (sc : α → H → H)
    (c : Collider (V × V) H) : Prop :=
  ∀ (o d : V) (k : α), 0 < k →
    (∀ cb, c.ray (o, scaleDir d k) cb = scaledRun (sc k) (c.ray (o, d) cb)) ∧
    c.first (o, scaleDir d k) = (c.first (o, d)).map (sc k)

end Scale

end M3d.Col
