import M3d.Model.SolidAlg
/-!
# `SmoothJoinV2` when the fillet radius is not a number (C04)

Source: `/repo/templates/solid.template`, the end of the `SmoothJoinV2` closure:

    cosTheta := math.Abs(closestNormals[0].Dot(closestNormals[1]))
    r := radius * math.Sqrt(1 - cosTheta*cosTheta)
    d1 := math.Max(0, closestDists[0] + r)
    d2 := math.Max(0, closestDists[1] + r)
    return d1*d1+d2*d2 > r*r

When the two nearest operands report the SAME unit normal (concentric spheres, the same operand
listed twice, parallel faces), `n.Dot(n)` computed in IEEE doubles is frequently
`1.0000000000000002`, `1 - cosTheta*cosTheta` is a tiny negative number and `r` is NaN.  Every
comparison with a NaN is false, so the closure answers `false` there: no point is added, the join
is the plain union — what exact arithmetic gives as well (`cosTheta = 1`, `r = 0`).

Core Lean only.  This file names the two intermediate values of `smoothJoinV2` (the slots the loop
ends with, the fillet radius computed from them), says what "`r` is unordered" means for an
arbitrary scalar structure, and defines a small scalar with a NaN (`NF K`) on which the closure
model can be executed exactly.
-/
namespace M3d.SolidAlg

section
variable {α : Type} [LE α] [DecidableLE α] [LT α] [DecidableLT α] [OfNat α 0] [OfNat α 1]
  [Add α] [Sub α] [Mul α]

/-- What the `for i, s := range sdfs` loop of `SmoothJoinV2` ends with: `none` = an operand
reported `d > 0` (early `return true`), otherwise the two slots (distance or `-Inf`, normal). -/
def smoothV2Slots (es : List (α × Pt α)) : Option (DN α × DN α) :=
  let zero : Pt α := fun _ => 0
  smoothLoop (E := DN α) Prod.fst 0 ((none, zero), (none, zero)) (es.map fun e => (some e.1, e.2))

/-- `r := radius * math.Sqrt(1 - cosTheta*cosTheta)` for the two slots. -/
def smoothV2Radius (n : Nat) (sqrt abs : α → α) (radius : α) (c0 c1 : DN α) : α :=
  let cosTheta := abs (dotN n c0.2 c1.2)
  radius * sqrt (1 - cosTheta * cosTheta)

/-- `r*r` compares false with everything on its right (what a NaN does). -/
def Unordered (r : α) : Prop := ∀ y : α, ¬ (r * r < y)

/-- The last statement of the closure as a seeded change rewrote it:
`if d1*d1+d2*d2 <= r*r { return false }; return true`. -/
def smoothTestNegated (c0 c1 : Option α) (r : α) : Bool :=
  let d1 := clampAdd c0 r
  let d2 := clampAdd c1 r
  !(decide (d1 * d1 + d2 * d2 ≤ r * r))

end

/-! ## A scalar with a NaN -/

/-- `K` with one extra value `nan` (`v = none`) that every operation propagates and every
comparison answers `false` on — the part of IEEE arithmetic that matters here. -/
structure NF (K : Type) where
  v : Option K
deriving DecidableEq

namespace NF
variable {K : Type}

def nan : NF K := ⟨none⟩
def of (x : K) : NF K := ⟨some x⟩

def map2 (f : K → K → K) (a b : NF K) : NF K :=
  match a.v, b.v with
  | some x, some y => ⟨some (f x y)⟩
  | _, _ => ⟨none⟩

instance [Add K] : Add (NF K) := ⟨map2 (· + ·)⟩
instance [Sub K] : Sub (NF K) := ⟨map2 (· - ·)⟩
instance [Mul K] : Mul (NF K) := ⟨map2 (· * ·)⟩
instance [OfNat K 0] : OfNat (NF K) 0 := ⟨of 0⟩
instance [OfNat K 1] : OfNat (NF K) 1 := ⟨of 1⟩

/-- `a < b`, false when an operand is NaN. -/
def ltB [LT K] [DecidableLT K] (a b : NF K) : Bool :=
  match a.v, b.v with
  | some x, some y => decide (x < y)
  | _, _ => false

def leB [LE K] [DecidableLE K] (a b : NF K) : Bool :=
  match a.v, b.v with
  | some x, some y => decide (x ≤ y)
  | _, _ => false

instance [LT K] [DecidableLT K] : LT (NF K) := ⟨fun a b => ltB a b = true⟩
instance [LE K] [DecidableLE K] : LE (NF K) := ⟨fun a b => leB a b = true⟩
instance [LT K] [DecidableLT K] : DecidableLT (NF K) := fun a b => inferInstanceAs (Decidable (ltB a b = true))
instance [LE K] [DecidableLE K] : DecidableLE (NF K) := fun a b => inferInstanceAs (Decidable (leB a b = true))

/-- `math.Sqrt`: NaN for NaN and for negative arguments, `f` otherwise. -/
def sqrtWith [LT K] [DecidableLT K] [OfNat K 0] (f : K → K) (a : NF K) : NF K :=
  match a.v with
  | none => nan
  | some x => if x < 0 then nan else of (f x)

/-- `math.Abs`. -/
def abs [LT K] [DecidableLT K] [OfNat K 0] [Neg K] (a : NF K) : NF K :=
  match a.v with
  | none => nan
  | some x => if x < 0 then of (-x) else of x

end NF
end M3d.SolidAlg
