import M3d.Model.FastMap
/-!
Model of `model3d.Mesh` / `model2d.Mesh` bookkeeping (templates/mesh.template).

A face is a pointer in Go; here it is a `Nat` id, and `tri : Nat → Nat × Nat × Nat`
gives its three vertex keys (keys = coordinates up to Go's `==`).
`faces` is Go's `map[*Triangle]bool` (a set), `index` the lazily built
vertex→faces map (`vertexToFace`, a `CoordToSlice`).  Core-only.
-/
namespace M3d.Mesh
open M3d.FastMap

abbrev Tri := Nat × Nat × Nat

structure Mesh where
  faces : List Nat
  index : Option (FM Nat (List Nat))
deriving Repr

def Mesh.new : Mesh := { faces := [], index := none }

/-- `uniqueVertices`: the corners of a face, repeated corners of degenerate faces once. -/
def uniqueVerts (t : Tri) : List Nat :=
  let (a, b, c) := t
  [a] ++ (if b ≠ a then [b] else []) ++ (if c ≠ a ∧ c ≠ b then [c] else [])

def triVerts (t : Tri) : List Nat := [t.1, t.2.1, t.2.2]

/-- Index one face under each of its distinct corners. -/
def indexFace (h : Nat → UInt64) (tri : Nat → Tri) (ix : FM Nat (List Nat)) (f : Nat) :
    FM Nat (List Nat) :=
  (uniqueVerts (tri f)).foldl (fun ix p => append h ix p f) ix

/-- `getVertexToFace` when the index does not exist yet. -/
def buildIndex (h : Nat → UInt64) (tri : Nat → Tri) (faces : List Nat) : FM Nat (List Nat) :=
  faces.foldl (indexFace h tri) empty

def Mesh.withIndex (h : Nat → UInt64) (tri : Nat → Tri) (m : Mesh) : Mesh × FM Nat (List Nat) :=
  match m.index with
  | some ix => (m, ix)
  | none => let ix := buildIndex h tri m.faces; ({ m with index := some ix }, ix)

/-- `Mesh.Add`. -/
def Mesh.add (h : Nat → UInt64) (tri : Nat → Tri) (m : Mesh) (f : Nat) : Mesh :=
  match m.index with
  | none => if f ∈ m.faces then m else { m with faces := m.faces ++ [f] }
  | some ix =>
    if f ∈ m.faces then m
    else { faces := m.faces ++ [f], index := some (indexFace h tri ix f) }

/-- `essentials.UnorderedDelete`: overwrite position `i` with the last element, drop the last. -/
def unorderedDelete (s : List Nat) (i : Nat) : List Nat :=
  match s.getLast? with
  | none => s
  | some l => (s.set i l).dropLast

/-- `removeFaceFromVertex`. -/
def removeFaceFromVertex (h : Nat → UInt64) (ix : FM Nat (List Nat)) (f p : Nat) :
    FM Nat (List Nat) :=
  let s := (load h ix p).getD []
  let s' := match s.findIdx? (· = f) with
    | some i => unorderedDelete s i
    | none => s
  if s'.isEmpty then delete h ix p else store h ix p s'

/-- `Mesh.Remove`. -/
def Mesh.remove (h : Nat → UInt64) (tri : Nat → Tri) (m : Mesh) (f : Nat) : Mesh :=
  if f ∈ m.faces then
    { faces := m.faces.filter (· ≠ f),
      index := m.index.map fun ix =>
        (uniqueVerts (tri f)).foldl (fun ix p => removeFaceFromVertex h ix f p) ix }
  else m

def Mesh.contains (m : Mesh) (f : Nat) : Bool := decide (f ∈ m.faces)
def Mesh.num (m : Mesh) : Nat := m.faces.length

/-- `Mesh.Find(ps...)` (requires at least one point); forces the index. -/
def Mesh.find (h : Nat → UInt64) (tri : Nat → Tri) (m : Mesh) (ps : List Nat) : Mesh × List Nat :=
  let (m', ix) := m.withIndex h tri
  match ps with
  | [] => (m', [])
  | p :: rest =>
    let fs := (load h ix p).getD []
    (m', fs.filter fun f => rest.all fun q => decide (q ∈ triVerts (tri f)))

/-- `Mesh.Neighbors(f)`: faces other than `f` sharing at least two corner slots with it. -/
def Mesh.neighbors (h : Nat → UInt64) (tri : Nat → Tri) (m : Mesh) (f : Nat) : Mesh × List Nat :=
  let (m', ix) := m.withIndex h tri
  let hits := (triVerts (tri f)).flatMap fun p => ((load h ix p).getD []).filter (· ≠ f)
  (m', (hits.eraseDups).filter fun g => decide (hits.count g > 1))

/-- model2d `Mesh.Neighbors(f)` (a face is a segment `(a,b)`, stored here as the triple `(a,b,b)`):
every other segment sharing an end point with `f`. -/
def Mesh.neighbors2 (h : Nat → UInt64) (tri : Nat → Tri) (m : Mesh) (f : Nat) : Mesh × List Nat :=
  let (m', ix) := m.withIndex h tri
  let hits := [(tri f).1, (tri f).2.1].flatMap fun p => ((load h ix p).getD []).filter (· ≠ f)
  (m', hits.eraseDups)

/-- `Mesh.VertexSlice()`. -/
def Mesh.vertexSlice (h : Nat → UInt64) (tri : Nat → Tri) (m : Mesh) : Mesh × List Nat :=
  let (m', ix) := m.withIndex h tri
  (m', keys ix)

/-! ### The specification: the same queries answered from the bare set of faces -/

def specFind (tri : Nat → Tri) (faces : List Nat) (ps : List Nat) : List Nat :=
  faces.filter fun f => ps.all fun q => decide (q ∈ triVerts (tri f))

def specNeighbors (tri : Nat → Tri) (faces : List Nat) (f : Nat) : List Nat :=
  faces.filter fun g => g ≠ f ∧
    ((triVerts (tri f)).map fun p => if p ∈ uniqueVerts (tri g) then 1 else 0).sum > 1

def specVertices (tri : Nat → Tri) (faces : List Nat) : List Nat :=
  (faces.flatMap fun f => triVerts (tri f)).eraseDups

/-- `InvertNormals` as documented: every face with its first two corners swapped. -/
def specInvert (ts : List Tri) : List Tri := ts.map fun (a, b, c) => (b, a, c)

end M3d.Mesh
