/-!
# An interleaving semantics with happens-before, for C13 (core Lean only)

A *program* assigns to every thread id a finite list of atomic steps; a *schedule* is a list
of thread ids; running a schedule executes, for every entry, the next step of that thread
(an entry naming a finished thread, a thread blocked on a held mutex or on an empty channel
is a stutter: nothing happens — so every list of thread ids is a schedule and "for all
schedules" really is "for all interleavings that respect lock / channel availability").

Happens-before is tracked the way a vector-clock race detector does it, with *sets of event
ids* instead of clocks.  Every executed step is an event with a fresh id.  Each thread carries
`seen`: the ids of all events that happen before its next step.  Edges:

* program order: a thread's own event is added to its `seen`;
* mutex: `unlock m` publishes the thread's `seen` in `mclk m`, the next `lock m` joins it;
* atomic publication: `atomicStore l` publishes `seen` in `clk l` (replacing it), an
  `atomicLoad l` joins `clk l` (atomics are sequentially consistent: the load observes the
  latest store in the interleaving and is synchronised after it);
* channels: a message carries the sender's `seen`, the receiver joins it;
* fork: all threads start after the initial configuration was set up (initial memory is not
  an access); join: the observer looks at the final configuration only.

A *data race* is a plain access to a location for which an earlier conflicting plain access
(same location, at least one of the two a write, different thread) is not in the accessing
thread's `seen`.  Every such pair is recorded in `races`, so `raceFree` decides
"no two conflicting plain accesses of this execution are unordered by happens-before".

What is *not* modelled: weak-memory effects (a racy plain read returns the latest value in the
interleaving), compiler reordering, the Go scheduler, goroutine creation cost, panics.
-/
namespace M3d.Conc

abbrev Tid := Nat
abbrev Loc := Nat
abbrev Val := Nat

/-- Point update of a function on `Nat`. -/
def upd {α : Type} (f : Nat → α) (i : Nat) (v : α) : Nat → α := fun j => if j = i then v else f j

@[simp] theorem upd_same {α : Type} (f : Nat → α) (i : Nat) (v : α) : upd f i v i = v := by
  simp [upd]

theorem upd_other {α : Type} (f : Nat → α) {i j : Nat} (v : α) (h : j ≠ i) : upd f i v j = f j := by
  simp [upd, h]

/-- Atomic steps of a thread.  `reg` is the thread's pointer register (what `v2f` is in
`getVertexToFace`), `out` the result of its last plain read. -/
inductive Step where
  /-- local computation -/
  | tau
  /-- `reg := v` (allocation of a fresh object with identity `v`) -/
  | setReg (v : Val)
  /-- if `reg ≠ 0` skip the next `k` steps -/
  | jmpIfSet (k : Nat)
  /-- `reg := atomic.Load(l)` -/
  | atomicLoad (l : Loc)
  /-- `atomic.Store(l, reg)` -/
  | atomicStore (l : Loc)
  | lock (m : Nat)
  | unlock (m : Nat)
  /-- plain read `out := mem[l]` -/
  | read (l : Loc)
  /-- plain read through the pointer register: `out := mem[base + reg]` -/
  | readAt (base : Loc)
  /-- plain write `mem[l] := v` -/
  | write (l : Loc) (v : Val)
  /-- plain write through the pointer register: `mem[base + reg] := v` -/
  | writeAt (base : Loc) (v : Val)
  /-- plain write of a function of the last read value: `mem[l] := g out` -/
  | writeF (l : Loc) (g : Val → Val)
  /-- `if out < h { mem[l] = h; flag = true }` — the compare-and-write half of `updateAt` -/
  | writeIfLess (l : Loc) (h : Val)
  /-- plain read-modify-write `mem[l] := g mem[l] out` (`*acc = append(*acc, x…)` with `x` the value
  last read); recorded as a write access, which conflicts with every other access of `l` -/
  | rmw (l : Loc) (g : Val → Val → Val)
  /-- buffered channel send of `v` -/
  | send (ch : Nat) (v : Val)
  /-- channel receive into `reg` (blocks while the channel is empty) -/
  | recv (ch : Nat)
  /-- `for v := range ch { mem[base+v] = g v }` on a pre-filled, closed channel: while the
  channel is non-empty receive one index, log the delivery and write the worker's own slot;
  when it is empty leave the loop. -/
  | recvLoop (ch : Nat) (base : Loc) (g : Val → Val)

structure Access where
  eid : Nat
  tid : Tid
  loc : Loc
  isWrite : Bool

structure TState where
  pc : Nat
  reg : Val
  out : Val
  flag : Bool
  seen : List Nat

structure Config where
  thr : Tid → TState
  mem : Loc → Val
  /-- release set of an atomic location -/
  clk : Loc → List Nat
  mtx : Nat → Option Tid
  /-- release set of a mutex -/
  mclk : Nat → List Nat
  /-- buffered messages with the sender's release set -/
  chan : Nat → List (Val × List Nat)
  /-- next event id -/
  next : Nat
  /-- plain accesses so far, newest first -/
  hist : List Access
  /-- detected races (earlier event id, later event id) -/
  races : List (Nat × Nat)
  /-- channel deliveries (receiver, value), oldest first -/
  log : List (Tid × Val)

def TState.init : TState := ⟨0, 0, 0, false, []⟩

def Config.init : Config :=
  { thr := fun _ => TState.init, mem := fun _ => 0, clk := fun _ => [], mtx := fun _ => none,
    mclk := fun _ => [], chan := fun _ => [], next := 0, hist := [], races := [], log := [] }

/-- Earlier conflicting accesses of `l` that do not happen before thread `t`'s next step. -/
def unordered (c : Config) (t : Tid) (l : Loc) (w : Bool) : List Access :=
  c.hist.filter fun a => a.loc == l && (a.isWrite || w) && (a.tid != t) && !((c.thr t).seen.contains a.eid)

/-- Record a plain access of `l` by `t` (event id `c.next`) and the races it closes. -/
def access (c : Config) (t : Tid) (l : Loc) (w : Bool) : Config :=
  { c with hist := ⟨c.next, t, l, w⟩ :: c.hist,
           races := c.races ++ (unordered c t l w).map fun a => (a.eid, c.next) }

/-- Complete an event of thread `t`: its new local state is `ts`, program order adds the
event to `seen`, the program counter moves by `k`. -/
def advance (c : Config) (t : Tid) (ts : TState) (k : Nat := 1) : Config :=
  { c with thr := upd c.thr t { ts with pc := (c.thr t).pc + k, seen := c.next :: ts.seen },
           next := c.next + 1 }

def exec (s : Step) (c : Config) (t : Tid) : Config :=
  let ts := c.thr t
  match s with
  | .tau => advance c t ts
  | .setReg v => advance c t { ts with reg := v }
  | .jmpIfSet k => advance c t ts (if ts.reg = 0 then 1 else k + 1)
  | .atomicLoad l => advance c t { ts with reg := c.mem l, seen := c.clk l ++ ts.seen }
  | .atomicStore l =>
      advance { c with mem := upd c.mem l ts.reg, clk := upd c.clk l (c.next :: ts.seen) } t ts
  | .lock m =>
      match c.mtx m with
      | some _ => c
      | none => advance { c with mtx := upd c.mtx m (some t) } t { ts with seen := c.mclk m ++ ts.seen }
  | .unlock m =>
      advance { c with mtx := upd c.mtx m none, mclk := upd c.mclk m (c.next :: ts.seen) } t ts
  | .read l => advance (access c t l false) t { ts with out := c.mem l }
  | .readAt b => advance (access c t (b + ts.reg) false) t { ts with out := c.mem (b + ts.reg) }
  | .write l v => advance { access c t l true with mem := upd c.mem l v } t ts
  | .writeAt b v => advance { access c t (b + ts.reg) true with mem := upd c.mem (b + ts.reg) v } t ts
  | .writeF l g => advance { access c t l true with mem := upd c.mem l (g ts.out) } t ts
  | .writeIfLess l h =>
      if ts.out < h then advance { access c t l true with mem := upd c.mem l h } t { ts with flag := true }
      else advance c t ts
  | .rmw l g => advance { access c t l true with mem := upd c.mem l (g (c.mem l) ts.out) } t ts
  | .send ch v =>
      advance { c with chan := upd c.chan ch (c.chan ch ++ [(v, c.next :: ts.seen)]) } t ts
  | .recv ch =>
      match c.chan ch with
      | [] => c
      | (v, s) :: rest =>
          advance { c with chan := upd c.chan ch rest } t { ts with reg := v, seen := s ++ ts.seen }
  | .recvLoop ch b g =>
      match c.chan ch with
      | [] => advance c t ts
      | (v, s) :: rest =>
          let c1 : Config := { c with chan := upd c.chan ch rest, log := c.log ++ [(t, v)],
                                      thr := upd c.thr t { ts with seen := s ++ ts.seen } }
          advance { access c1 t (b + v) true with mem := upd c.mem (b + v) (g v) } t (c1.thr t) 0

abbrev Program := Tid → List Step

/-- One scheduling decision: thread `t` takes its next step (stutter if it has none or is blocked). -/
def step (p : Program) (c : Config) (t : Tid) : Config :=
  match (p t)[(c.thr t).pc]? with
  | none => c
  | some s => exec s c t

abbrev Schedule := List Tid

def run (p : Program) (c : Config) (sched : Schedule) : Config := sched.foldl (step p) c

@[simp] theorem run_nil (p : Program) (c : Config) : run p c [] = c := rfl
@[simp] theorem run_cons (p : Program) (c : Config) (t : Tid) (s : Schedule) :
    run p c (t :: s) = run p (step p c t) s := rfl

theorem run_append (p : Program) (c : Config) (s₁ s₂ : Schedule) :
    run p c (s₁ ++ s₂) = run p (run p c s₁) s₂ := by
  simp [run, List.foldl_append]

/-- The decider: no data race in the execution of `sched` from `c`. -/
def raceFreeFrom (p : Program) (c : Config) (sched : Schedule) : Bool := (run p c sched).races.isEmpty

def raceFree (p : Program) (sched : Schedule) : Bool := raceFreeFrom p Config.init sched

/-- Thread `t` has run to completion. -/
def done (p : Program) (c : Config) (t : Tid) : Bool := (p t).length ≤ (c.thr t).pc

/-- Thread `t` can take a step now (not finished, not blocked). -/
def enabled (p : Program) (c : Config) (t : Tid) : Bool :=
  match (p t)[(c.thr t).pc]? with
  | none => false
  | some (.lock m) => (c.mtx m).isNone
  | some (.recv ch) => !(c.chan ch).isEmpty
  | some _ => true

/-- All complete, stutter-free schedules of threads `0 … n-1` from `c` (used only for
witness search on small programs; `fuel` bounds the total number of steps). -/
def allSchedules (p : Program) (n : Nat) : Nat → Config → List Schedule
  | 0, _ => [[]]
  | fuel + 1, c =>
      let en := (List.range n).filter (enabled p c)
      if en.isEmpty then [[]]
      else en.flatMap fun t => (allSchedules p n fuel (step p c t)).map (t :: ·)

/-- First complete schedule (depth-first) whose final configuration satisfies `bad`. -/
def findSchedule (p : Program) (n : Nat) (bad : Config → Bool) : Nat → Config → Option Schedule
  | 0, c => if bad c then some [] else none
  | fuel + 1, c =>
      let en := (List.range n).filter (enabled p c)
      if en.isEmpty then (if bad c then some [] else none)
      else en.firstM fun t => (findSchedule p n bad fuel (step p c t)).map (t :: ·)

/-- Number of complete schedules (for evidence). -/
def countSchedules (p : Program) (n : Nat) : Nat → Config → Nat
  | 0, _ => 1
  | fuel + 1, c =>
      let en := (List.range n).filter (enabled p c)
      if en.isEmpty then 1 else (en.map fun t => countSchedules p n fuel (step p c t)).sum

/-! ## The modelled routines -/

/-- Locations of the lazy vertex index: the `atomic.Value`, the creation mutex, and the base
of the heap region where index objects live (the object with identity `r` is the cell `D + r`;
`r = t + 1` is "the object allocated by thread `t`", `0` is nil). -/
def V : Loc := 0
def M : Nat := 0
def D : Loc := 1

/-- `getVertexToFace` followed by one query that reads the index, as run by goroutine `t`. -/
def dclThread (t : Tid) : List Step :=
  [ .atomicLoad V,      -- 0  v2f := m.getVertexToFaceOrNil()
    .jmpIfSet 7,        -- 1  if v2f != nil { return v2f }
    .lock M,            -- 2  m.v2fCreateLock.Lock(); defer Unlock
    .atomicLoad V,      -- 3  v2f = m.getVertexToFaceOrNil()
    .jmpIfSet 3,        -- 4  if v2f != nil { return v2f }   (runs the deferred unlock)
    .setReg (t + 1),    -- 5  v2f = NewCoordToSlice()
    .writeAt D 1,       -- 6  for f := range m.faces { v2f.Append(...) }
    .atomicStore V,     -- 7  m.vertexToFace.Store(v2f)
    .unlock M,          -- 8  deferred
    .readAt D ]         -- 9  the query: v2f.Value(p) / KeyRange / Load

def dclProg : Program := dclThread

/-- Tokens of the shape of `getVertexToFace` as read off the source by the extractor. -/
inductive DclTok where
  | atomicLoad | retIfSet | lock | deferUnlock | alloc | build | atomicStore | ret | other
  deriving DecidableEq, Repr

/-- The thread program denoted by a token list (jump targets: a `return` before the `defer`
leaves the getter directly, one after it runs the deferred unlock first). -/
def dclOfShape (toks : List DclTok) (t : Tid) : List Step :=
  let body := toks.filter (· ≠ .deferUnlock)
  let r := body.length - 1     -- position of the final `ret`
  let deferAt := (toks.takeWhile (· ≠ .deferUnlock)).length
  let hasDefer := toks.contains .deferUnlock
  let stepOf (i : Nat) (k : DclTok) : Step :=
    match k with
    | .atomicLoad => .atomicLoad V
    | .retIfSet => if hasDefer && deferAt ≤ i then .jmpIfSet (r - i - 1) else .jmpIfSet (r - i)
    | .lock => .lock M
    | .alloc => .setReg (t + 1)
    | .build => .writeAt D 1
    | .atomicStore => .atomicStore V
    | .ret => if hasDefer then .unlock M else .tau
    | _ => .tau
  (body.zipIdx.map fun (k, i) => stepOf i k) ++ [.readAt D]

def dclShape : List DclTok :=
  [.atomicLoad, .retIfSet, .lock, .deferUnlock, .atomicLoad, .retIfSet, .alloc, .build, .atomicStore, .ret]

/-- Number of index builds (plain writes) in an execution. -/
def builds (c : Config) : Nat := (c.hist.filter (·.isWrite)).length

/-- `essentials.ConcurrentMap`-style workers: thread `t` writes `out[i] = f i` for the indices
`idxs t` it was handed. -/
def OUT : Loc := 0
def partitionThread (f : Nat → Val) (idxs : List Nat) : List Step := idxs.map fun i => .write (OUT + i) (f i)
def partitionProg (f : Nat → Val) (idxs : Tid → List Nat) : Program := fun t => partitionThread f (idxs t)

/-- The indices goroutine `start` of `ConcurrentMap(maxGos, n, f)` visits:
`for i := start; i < n; i += maxGos`. -/
def strided (maxGos n start : Nat) : List Nat := (List.range n).filter fun i => i % maxGos = start % maxGos ∧ start ≤ i

/-- `KMeans.Iterate`-style reduction: worker `t` computed `loc t` privately and merges it into
the shared accumulator under the mutex. -/
def ACC : Loc := 0
def reduceThread (merge : Val → Val → Val) (x : Val) : List Step :=
  [.tau, .lock M, .read ACC, .writeF ACC (fun a => merge a x), .unlock M]
def reduceProg (merge : Val → Val → Val) (loc : Tid → Val) : Program := fun t => reduceThread merge (loc t)

/-- The same reduction without the mutex (what dropping `resultLock.Lock()` leaves). -/
def reduceThreadNoLock (merge : Val → Val → Val) (x : Val) : List Step :=
  [.tau, .read ACC, .writeF ACC (fun a => merge a x)]

/-- `mapCoordinates`: a channel pre-filled with all pixel indices and closed; every worker
ranges over it and writes its own pixel. -/
def CH : Nat := 0
def chanWorker (g : Val → Val) : List Step := [.recvLoop CH OUT g]
def chanProg (g : Val → Val) : Program := fun _ => chanWorker g
def chanInit (n : Nat) : Config :=
  { Config.init with chan := upd Config.init.chan CH ((List.range n).map fun i => (i, [])) }

/-- `HeightMap.updateAt` on one cell.  Faithful to the unsynchronised code: read, compare, write. -/
def CELL : Loc := 0
def updateAtRacy (h : Val) : List Step := [.read CELL, .writeIfLess CELL h]
/-- … and with the caller holding a mutex around it. -/
def updateAtLocked (h : Val) : List Step := [.lock M, .read CELL, .writeIfLess CELL h, .unlock M]

/-- `asyncSolidCache.FetchZ`: a producer goroutine fills a buffer (plain write) and then
signals on a channel; the consumer uses the buffer only after receiving the signal. -/
def BUF : Loc := 0
def handoffProg (v : Val) : Program := fun t =>
  if t = 0 then [.write BUF v, .send CH 0] else if t = 1 then [.recv CH, .read BUF] else []

/-- `ReduceConcurrentMap` with a per-goroutine buffer (`DualContouring.populateEdges`: the
interior points a worker found): the factory binds the worker's buffer (`reg` := identity of its
backing array; array `r` is the cell `CBUF + r`), the worker stores what it collected in it (`v` =
the worker's partial list), and the reduce function, which runs under `ReduceConcurrentMap`'s
mutex, reads the buffer and appends it to the shared result. -/
def CACC : Loc := 0
def CBUF : Loc := 1
def collectThread (merge : Val → Val → Val) (base v : Val) : List Step :=
  [ .setReg base,       -- 0  localInterior := <the worker's backing array>
    .writeAt CBUF v,    -- 1  localInterior = append(localInterior, edge.Coord)     (iter)
    .lock M,            -- 2  reduce runs under the launcher's mutex
    .readAt CBUF,       -- 3  for _, x := range localInterior
    .rmw CACC merge,    -- 4      *interior = append(*interior, x)
    .unlock M ]         -- 5

/-- `N` workers; worker `t` found `v t` and uses the backing array `base t`. -/
def collectProgN (merge : Val → Val → Val) (base v : Tid → Val) (N : Nat) : Program :=
  fun t => if t < N then collectThread merge (base t) (v t) else []

/-! ## Facts about the source (filled in by the extractor, `M3d/Gen/ConcFacts.lean`) -/

/-- How a worker closure (`go func`, the function passed to `essentials.ConcurrentMap` /
`StatefulConcurrentMap` / `ReduceConcurrentMap`, a `mapCoordinates` callback) touches state it
captured from outside, as classified syntactically by the extractor. -/
inductive EffKind where
  /-- `x[i] = …` / `&x[i]` with `i` the worker's own index (or derived from it) -/
  | ownIndex
  /-- write through a pointer obtained from an accessor applied to the own index -/
  | ownElem
  /-- indexed setter call with own-index arguments (`img.Set(x, y, …)`) -/
  | ownCall
  /-- write or mutating call between `Lock` and `Unlock` of a mutex shared by all workers
  (or inside the reduce function of `ReduceConcurrentMap`, which runs under its lock) -/
  | locked
  | chanSend | chanRecv | chanClose
  /-- method call on a `sync.Map` / `atomic.Value` -/
  | syncCall
  /-- mutating call on captured state followed by a channel send that hands it over -/
  | handoff
  /-- unguarded write to captured state -/
  | plainWrite
  /-- unguarded call of a method that mutates captured state -/
  | sharedMutCall
  deriving DecidableEq, Repr

/-- The classes for which `Props/C13.lean` has a race-freedom theorem. -/
def EffKind.safe : EffKind → Bool
  | .plainWrite => false
  | .sharedMutCall => false
  | _ => true

structure Effect where
  kind : EffKind
  target : String
  deriving DecidableEq, Repr

structure Worker where
  file : String
  func : String
  launcher : String
  effects : List Effect
  deriving Repr

def Worker.safe (w : Worker) : Bool := w.effects.all (·.kind.safe)

end M3d.Conc
