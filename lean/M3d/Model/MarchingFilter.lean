import M3d.Model.Partition
/-!
# The region filter of `MarchingSquaresFilter` / `MarchingCubesFilter` (core-only, property C02)

The block machinery itself (`msBlock`/`mcBlock`, `Split`, `Pieces`, the worker pool) is
`M3d/Model/Partition.lean`.  Here:

* `blockBounds2` / `blockBounds3` — `msBlock.Bounds(epsilon)` / `mcBlock.Bounds(epsilon)`: the
  rectangle handed to the user's filter for a block, generic over the scalar.  A block's `max` index is
  exclusive as a CELL index, but its cells `[min, max)` have the lattice POINTS `min .. max`
  (inclusive) as corners, so the rectangle must reach `Xs[max]`.
* `tightFilter2` / `tightFilter3` — the least permissive filter that is still sound for a labelling:
  it rejects a block exactly when all lattice points `min .. max` of the block carry one label.  The
  driver runs the filtered mesh model with it.
-/
namespace M3d.MarchingFilter
open M3d.Marching M3d.Partition

/-- `model2d.Rect` as four scalars -/
structure Rect2 (α : Type) where
  minX : α
  minY : α
  maxX : α
  maxY : α

/-- `model3d.Rect` as six scalars -/
structure Rect3 (α : Type) where
  minX : α
  minY : α
  minZ : α
  maxX : α
  maxY : α
  maxZ : α

section
variable {α : Type} [Add α] [Neg α]

/-- `msBlock.Bounds(epsilon)`:
`NewRect(XY(Xs[min[0]], Ys[min[1]]).AddScalar(-epsilon), XY(Xs[max[0]], Ys[max[1]]).AddScalar(epsilon))`. -/
def blockBounds2 (X Y : Nat → α) (eps : α) (b : Block2) : Rect2 α :=
  ⟨X b.x0 + -eps, Y b.y0 + -eps, X b.x1 + eps, Y b.y1 + eps⟩

/-- `mcBlock.Bounds(epsilon)`. -/
def blockBounds3 (X Y Z : Nat → α) (eps : α) (b : Block) : Rect3 α :=
  ⟨X b.x0 + -eps, Y b.y0 + -eps, Z b.z0 + -eps, X b.x1 + eps, Y b.y1 + eps, Z b.z1 + eps⟩
end

/-- all lattice points `x0..x1 × y0..y1` (inclusive) of the block carry the label of its first corner -/
def pointsConst2 (lab : Nat → Nat → Bool) (b : Block2) : Bool :=
  (List.range' b.y0 (b.lenY + 1)).all fun y =>
    (List.range' b.x0 (b.lenX + 1)).all fun x => lab x y == lab b.x0 b.y0

def pointsConst3 (lab : Nat → Nat → Nat → Bool) (b : Block) : Bool :=
  (List.range' b.z0 (b.lenZ + 1)).all fun z =>
    (List.range' b.y0 (b.lenY + 1)).all fun y =>
      (List.range' b.x0 (b.lenX + 1)).all fun x => lab x y z == lab b.x0 b.y0 b.z0

/-- keep the block iff two of its lattice points are labelled differently -/
def tightFilter2 (lab : Nat → Nat → Bool) (b : Block2) : Bool := !pointsConst2 lab b
def tightFilter3 (lab : Nat → Nat → Nat → Bool) (b : Block) : Bool := !pointsConst3 lab b

/-- `MarchingSquaresFilter` with one worker that receives the whole queue. -/
def msFilterMesh1 (table : List (List (List Nat))) (nx ny : Nat) (lab : Nat → Nat → Bool)
    (g : Block2 → Bool) : List Seg2 :=
  msFilterMesh table lab g [blockQueue2 g (rootBlock2 nx ny)]

def mcFilterMesh1 (table : List (List (List Nat))) (nx ny nz : Nat) (lab : Nat → Nat → Nat → Bool)
    (g : Block → Bool) : List Tri3 :=
  mcFilterMesh table lab g [blockQueue g (rootBlock nx ny nz)]

end M3d.MarchingFilter
