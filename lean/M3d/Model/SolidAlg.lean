/-!
# Executable models of the solid combinators (C04)

Source: `/repo/templates/solid.template` (generates `model2d/solid.go` and `model3d/solid.go`).
Core Lean only.  Conventions:

* a point / coordinate vector is a function `Nat → α` of which only the first `n` entries are
  used (`n = 2` for model2d, `n = 3` for model3d; `Coord.X,Y,Z` are entries `0,1,2`);
* an operand's `Contains` is a function parameter `(Nat → α) → Bool`, an SDF value at the
  query point is just the scalar it returned (the closures only ever look at that);
* `-Inf` (used by the smooth joins for "no distance seen yet") is `none : Option α`;
  NaN is excluded throughout (assumption recorded in notes/C04.md).
-/
namespace M3d.SolidAlg

/-! ## Scalars -/

/-- `math.Min` on non-NaN values. -/
def minOf {α} [LE α] [DecidableLE α] (a b : α) : α := if a ≤ b then a else b
/-- `math.Max` on non-NaN values. -/
def maxOf {α} [LE α] [DecidableLE α] (a b : α) : α := if a ≤ b then b else a

/-! ## Plain combinators: `JoinedSolid`, `IntersectedSolid`, `SubtractedSolid` -/

/-- `JoinedSolid.Contains`: first operand that contains the point returns `true`. -/
def joined {P : Type} : List (P → Bool) → P → Bool
  | [], _ => false
  | s :: rest, p => if s p then true else joined rest p

/-- `IntersectedSolid.Contains`: first operand that does not contain the point returns `false`. -/
def intersected {P : Type} : List (P → Bool) → P → Bool
  | [], _ => true
  | s :: rest, p => if !(s p) then false else intersected rest p

/-- `SubtractedSolid.Contains`. -/
def subtracted {P : Type} (pos neg : P → Bool) (p : P) : Bool := pos p && !(neg p)

/-! ## Boxes and bounded solids -/

abbrev Pt (α : Type) := Nat → α

structure Box (α : Type) where
  lo : Pt α
  hi : Pt α

/-- `InBounds` / `Rect.Contains` / the test of `CheckedFuncSolid`:
`c.Min(min) == min && c.Max(max) == max`, i.e. `min ≤ c ≤ max` on every axis. -/
def Box.contains {α} [LE α] [DecidableLE α] (n : Nat) (b : Box α) (p : Pt α) : Bool :=
  (List.range n).all fun i => decide (b.lo i ≤ p i) && decide (p i ≤ b.hi i)

/-- One step of `JoinedSolid.Min/Max`: `min.Min(s.Min())`, `max.Max(s.Max())`. -/
def Box.join {α} [LE α] [DecidableLE α] (a b : Box α) : Box α :=
  ⟨fun i => minOf (a.lo i) (b.lo i), fun i => maxOf (a.hi i) (b.hi i)⟩

/-- A `Solid` value: its reported bounds and its `Contains`. -/
structure Solid (α : Type) where
  box : Box α
  f : Pt α → Bool

/-- `CacheSolidBounds` = `ForceSolidBounds(s, s.Min(), s.Max())` = `CheckedFuncSolid(min, max, s.Contains)`. -/
def cacheBounds {α} [LE α] [DecidableLE α] (n : Nat) (s : Solid α) : Solid α :=
  ⟨s.box, fun p => s.box.contains n p && s.f p⟩

/-- `JoinedSolid.Min()/Max()` of a non-empty list (`j[0]` then fold over `j[1:]`). -/
def joinedBox {α} [LE α] [DecidableLE α] (first : Solid α) (rest : List (Solid α)) : Box α :=
  rest.foldl (fun b s => b.join s.box) first.box

/-- A two-element `JoinedSolid{a, b}` as a `Solid`. -/
def join2 {α} [LE α] [DecidableLE α] (a b : Solid α) : Solid α :=
  ⟨joinedBox a [b], joined [a.f, b.f]⟩

/-! ## `JoinedSolid.Optimize` -/

/-- `groupedSolidsToSolid`: recursive halving.  `fuel` only makes the recursion structural
(depth ≤ length); `none` = the Go recursion would not terminate (empty slice). -/
def grouped {α} [LE α] [DecidableLE α] (n : Nat) : Nat → List (Solid α) → Option (Solid α)
  | 0, _ => none
  | _ + 1, [] => none
  | _ + 1, [a] => some (cacheBounds n a)
  | fuel + 1, s =>
    match grouped n fuel (s.take (s.length / 2)), grouped n fuel (s.drop (s.length / 2)) with
    | some l, some r => some (cacheBounds n (join2 l r))
    | _, _ => none

/-- `JoinedSolid.Optimize`; `g` is `GroupBounders` (only ever used as "some reordering"). -/
def optimize {α} [LE α] [DecidableLE α] (n : Nat) (g : List (Solid α) → List (Solid α))
    (j : List (Solid α)) : Option (Solid α) :=
  grouped n (g j).length (g j)

/-! ## `SolidMux` -/

inductive Mux (α : Type) where
  | empty : Mux α
  | leaf (box : Box α) (s : Solid α) (idx : Nat) : Mux α
  | node (box : Box α) (total : Nat) (l r : Mux α) : Mux α

/-- `groupedSolidsToSolidMux` (solids paired with their original indices). -/
def groupedMux {α} [LE α] [DecidableLE α] : Nat → List (Nat × Solid α) → Option (Mux α)
  | 0, _ => none
  | _ + 1, [] => none
  | _ + 1, [(i, a)] => some (.leaf a.box a i)
  | fuel + 1, (ia :: rest) =>
    let s := ia :: rest
    match groupedMux fuel (s.take (s.length / 2)), groupedMux fuel (s.drop (s.length / 2)) with
    | some l, some r => some (.node (joinedBox ia.2 (rest.map (·.2))) s.length l r)
    | _, _ => none

/-- `NewSolidMux`; `g` is the reordering `GroupBounders` produces on the bounding rects. -/
def newMux {α} [LE α] [DecidableLE α] (g : List (Nat × Solid α) → List (Nat × Solid α))
    (solids : List (Solid α)) : Option (Mux α) :=
  if solids.isEmpty then some .empty
  else
    let s := g ((List.range solids.length).zip solids)
    groupedMux s.length s

/-- `SolidMux.Contains`. -/
def Mux.contains {α} [LE α] [DecidableLE α] (n : Nat) : Mux α → Pt α → Bool
  | .empty, _ => false
  | .leaf box s _, p => box.contains n p && s.f p
  | .node box _ l r, p => box.contains n p && (if l.contains n p then true else r.contains n p)

/-- `SolidMux.IterContains`: the indices `f` is called with, in call order
(the returned count is the length of this list). -/
def Mux.iter {α} [LE α] [DecidableLE α] (n : Nat) : Mux α → Pt α → List Nat
  | .empty, _ => []
  | .leaf box s i, p => if box.contains n p && s.f p then [i] else []
  | .node box _ l r, p => if box.contains n p then l.iter n p ++ r.iter n p else []

def Mux.total {α} : Mux α → Nat
  | .empty => 0
  | .leaf _ _ _ => 1
  | .node _ t _ _ => t

/-- `SolidMux.AllContains`: `make([]bool, totalSolids)` then `res[i] = true` per callback. -/
def Mux.allContains {α} [LE α] [DecidableLE α] (n : Nat) (m : Mux α) (p : Pt α) : List Bool :=
  (m.iter n p).foldl (fun res i => res.set i true) (List.replicate m.total false)

/-! ## `StackSolids` / `StackedSolid` (3-D only; the stacking axis is entry 2) -/

/-- `c.Sub(Z(delta))` -/
def subZ {α} [Sub α] (p : Pt α) (delta : α) : Pt α := fun i => if i = 2 then p i - delta else p i
/-- `b.Add(Z(delta))` on both corners (`Translate.ApplyBounds`). -/
def Box.addZ {α} [Add α] (b : Box α) (delta : α) : Box α :=
  ⟨fun i => if i = 2 then b.lo i + delta else b.lo i, fun i => if i = 2 then b.hi i + delta else b.hi i⟩

/-- `TransformSolid(&Translate{Offset: Z(delta)}, s)`:
`CheckedFuncSolid(min+off, max+off, c ↦ s.Contains(c + (-1)·off))`. -/
def translateZ {α} [LE α] [DecidableLE α] [Add α] [Sub α] (s : Solid α) (delta : α) : Solid α :=
  ⟨s.box.addZ delta, fun p => (s.box.addZ delta).contains 3 p && s.f (subZ p delta)⟩

/-- The loop of `StackSolids` after the first operand: `lastMax` is threaded through. -/
def stackRest {α} [LE α] [DecidableLE α] [Add α] [Sub α] : α → List (Solid α) → List (Solid α)
  | _, [] => []
  | lastMax, s :: rest =>
    let delta := lastMax - s.box.lo 2
    let t := translateZ s delta
    t :: stackRest (t.box.hi 2) rest

/-- `StackSolids(s...)` — the resulting `JoinedSolid` as a list. -/
def stackSolids {α} [LE α] [DecidableLE α] [Add α] [Sub α] : List (Solid α) → List (Solid α)
  | [] => []
  | s0 :: rest => s0 :: stackRest (s0.box.hi 2) rest

/-- `StackedSolid.Max()`: running maximum with the z entry shifted. -/
def stackedMax {α} [LE α] [DecidableLE α] [Add α] [Sub α] (first : Solid α) (rest : List (Solid α)) : Pt α :=
  rest.foldl (fun lastMax s =>
    let newMax : Pt α := fun i => if i = 2 then s.box.hi 2 + (lastMax 2 - s.box.lo 2) else s.box.hi i
    fun i => maxOf (lastMax i) (newMax i)) first.box.hi

/-- The loop of `StackedSolid.Contains`. -/
def stackedLoop {α} [Add α] [Sub α] : α → List (Solid α) → Pt α → Bool
  | _, [], _ => false
  | currentZ, s :: rest, p =>
    let delta := currentZ - s.box.lo 2
    if s.f (subZ p delta) then true else stackedLoop (s.box.hi 2 + delta) rest p

/-- `StackedSolid.Contains`. -/
def stackedContains {α} [LE α] [DecidableLE α] [Add α] [Sub α] (ss : List (Solid α)) (p : Pt α) : Bool :=
  match ss with
  | [] => false
  | s0 :: rest =>
    let box : Box α := ⟨(joinedBox s0 rest).lo, stackedMax s0 rest⟩
    if !(box.contains 3 p) then false else stackedLoop (s0.box.lo 2) ss p

/-! ## `SmoothJoin` / `SmoothJoinV2`

One evaluation of the closure at a point `c`: operand `i` has returned the value `e`
(`SDF(c)`, or `(normal, SDF(c))` for V2).  `key e : Option α` is that distance (`some d`);
`none` is `-Inf`, the value both `closestDists` slots are initialised with. -/

/-- `a ≤ b` on `α ∪ {-Inf}`. -/
def leE {α} [LE α] [DecidableLE α] : Option α → Option α → Bool
  | none, _ => true
  | some _, none => false
  | some a, some b => decide (a ≤ b)

/-- `d > 0` for a distance; `-Inf > 0` is false. -/
def posE {α} [LT α] [DecidableLT α] [OfNat α 0] : Option α → Bool
  | none => false
  | some d => decide (0 < d)

/-- The insertion branch (`i ≥ 2`):
`if d >= closest[0] { closest[1] = closest[0]; closest[0] = d } else if d > closest[1] { closest[1] = d }`. -/
def ins {α E} [LE α] [DecidableLE α] (key : E → Option α) (st : E × E) (e : E) : E × E :=
  if leE (key st.1) (key e) then (e, st.1)
  else if !(leE (key e) (key st.2)) then (st.1, e)
  else st

/-- Loop body for operand index `i` (after the early `return true`):
`if i < 2 { closest[i] = d; if i == 1 { order the two slots } } else { insertion }`. -/
def step {α E} [LE α] [DecidableLE α] (key : E → Option α) (i : Nat) (st : E × E) (e : E) : E × E :=
  if i < 2 then
    let st' : E × E := if i = 0 then (e, st.2) else (st.1, e)
    if i = 1 then
      (if !(leE (key st'.2) (key st'.1)) then (st'.2, st'.1) else st')
    else st'
  else ins key st e

/-- The whole `for i, s := range sdfs` loop; `none` = an operand reported `d > 0`
(`return true`), `some st` = the final `closestDists` (and normals). -/
def smoothLoop {α E} [LE α] [DecidableLE α] [LT α] [DecidableLT α] [OfNat α 0]
    (key : E → Option α) : Nat → E × E → List E → Option (E × E)
  | _, st, [] => some st
  | i, st, e :: es => if posE (key e) then none else smoothLoop key (i + 1) (step key i st e) es

/-- `math.Max(0, closestDists[k] + r)`; `-Inf + r = -Inf`, `max(0, -Inf) = 0`. -/
def clampAdd {α} [Add α] [LT α] [DecidableLT α] [OfNat α 0] (c : Option α) (r : α) : α :=
  match c with
  | none => 0
  | some d => if 0 < d + r then d + r else 0

/-- `d1*d1 + d2*d2 > r*r`. -/
def smoothTest {α} [Add α] [Mul α] [LT α] [DecidableLT α] [OfNat α 0] (c0 c1 : Option α) (r : α) : Bool :=
  let d1 := clampAdd c0 r
  let d2 := clampAdd c1 r
  decide (r * r < d1 * d1 + d2 * d2)

/-- The closure of `SmoothJoin(radius, sdfs...)` on the list of values the operands return
(the bounds test of the surrounding `CheckedFuncSolid` is applied separately). -/
def smoothJoin {α} [LE α] [DecidableLE α] [LT α] [DecidableLT α] [OfNat α 0] [Add α] [Mul α]
    (r : α) (ds : List α) : Bool :=
  match smoothLoop (E := Option α) id 0 (none, none) (ds.map some) with
  | none => true
  | some (c0, c1) => smoothTest c0 c1 r

/-- `Coord.Dot` on the first `n` entries (`a.X*b.X + a.Y*b.Y (+ a.Z*b.Z)`, left to right). -/
def dotN {α} [Add α] [Mul α] [OfNat α 0] (n : Nat) (a b : Pt α) : α :=
  match n with
  | 0 => 0
  | k + 1 => (List.range k).foldl (fun acc i => acc + a (i + 1) * b (i + 1)) (a 0 * b 0)

/-- An operand's answer in V2: distance and normal. -/
abbrev DN (α : Type) := Option α × Pt α

/-- The closure of `SmoothJoinV2(radius, sdfs...)`; `sqrt` and `abs` are `math.Sqrt`, `math.Abs`. -/
def smoothJoinV2 {α} [LE α] [DecidableLE α] [LT α] [DecidableLT α] [OfNat α 0] [OfNat α 1]
    [Add α] [Sub α] [Mul α] (n : Nat) (sqrt abs : α → α) (radius : α) (es : List (α × Pt α)) : Bool :=
  let zero : Pt α := fun _ => 0
  match smoothLoop (E := DN α) Prod.fst 0 ((none, zero), (none, zero)) (es.map fun e => (some e.1, e.2)) with
  | none => true
  | some (c0, c1) =>
    let cosTheta := abs (dotN n c0.2 c1.2)
    let r := radius * sqrt (1 - cosTheta * cosTheta)
    smoothTest c0.1 c1.1 r

/-! ### The closures as they were before the repair (kept for the record, see notes/C04.md)

`var closestDists [2]float64` (both slots `0`) and the ordering step guarded by `i == 2`
inside `if i < 2` (never executed). -/

def legacyStep {α} [LE α] [DecidableLE α] [LT α] [DecidableLT α] (i : Nat) (st : α × α) (d : α) : α × α :=
  if i < 2 then
    (if i = 0 then (d, st.2) else (st.1, d))   -- the inner `if i == 2 {…}` is unreachable
  else if st.1 ≤ d then (d, st.1)
  else if st.2 < d then (st.1, d)
  else st

def legacyLoop {α} [LE α] [DecidableLE α] [LT α] [DecidableLT α] [OfNat α 0] :
    Nat → α × α → List α → Option (α × α)
  | _, st, [] => some st
  | i, st, d :: ds => if 0 < d then none else legacyLoop (i + 1) (legacyStep i st d) ds

/-- `SmoothJoin` before the repair. -/
def legacySmoothJoin {α} [LE α] [DecidableLE α] [LT α] [DecidableLT α] [OfNat α 0] [Add α] [Mul α]
    (r : α) (ds : List α) : Bool :=
  match legacyLoop 0 (0, 0) ds with
  | none => true
  | some (c0, c1) => smoothTest (some c0) (some c1) r

end M3d.SolidAlg

namespace M3d.SolidAlg

/-! ## Specifications the correspondence compares against -/

/-- The two largest entries of a list (`none` = there is no such entry), by sorting. -/
def top2Spec {α} [LE α] [DecidableLE α] (ds : List α) : Option α × Option α :=
  let s := ds.mergeSort (fun a b => decide (b ≤ a))
  (s[0]?, s[1]?)

/-- What a smooth join has to compute: inside if some operand is positive, otherwise the
quarter-circle test on the two largest distances. -/
def smoothSpec {α} [LE α] [DecidableLE α] [LT α] [DecidableLT α] [OfNat α 0] [Add α] [Mul α]
    (r : α) (ds : List α) : Bool :=
  ds.any (fun d => decide (0 < d)) || smoothTest (top2Spec ds).1 (top2Spec ds).2 r

/-- Same for V2: the two operands with the largest distances (with their normals). -/
def smoothSpecV2 {α} [LE α] [DecidableLE α] [LT α] [DecidableLT α] [OfNat α 0] [OfNat α 1]
    [Add α] [Sub α] [Mul α] (n : Nat) (sqrt abs : α → α) (radius : α) (es : List (α × Pt α)) : Bool :=
  let s := es.mergeSort (fun a b => decide (b.1 ≤ a.1))
  let zero : Pt α := fun _ => 0
  let n0 := (s[0]?.map (·.2)).getD zero
  let n1 := (s[1]?.map (·.2)).getD zero
  let cosTheta := abs (dotN n n0 n1)
  let r := radius * sqrt (1 - cosTheta * cosTheta)
  es.any (fun e => decide (0 < e.1)) || smoothTest (s[0]?.map (·.1)) (s[1]?.map (·.1)) r

end M3d.SolidAlg

namespace M3d.SolidAlg

/-- The z-offsets `StackSolids` gives to the operands that follow a stack whose top is at `top`:
each operand is moved so that its lowest z meets the top of what is below it. -/
def stackOffsets {α} [Add α] [Sub α] : α → List (Solid α) → List α
  | _, [] => []
  | top, s :: rest => (top - s.box.lo 2) :: stackOffsets (s.box.hi 2 + (top - s.box.lo 2)) rest

/-- Union of the operands, operand `k` translated along z by `offs[k]`. -/
def translatedUnion {α} [Sub α] (ss : List (Solid α)) (offs : List α) (p : Pt α) : Bool :=
  (ss.zip offs).any fun x => x.1.f (subZ p x.2)

end M3d.SolidAlg
