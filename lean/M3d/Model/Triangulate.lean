import M3d.Model.Surface
/-!
# C14 — executable models of `model2d/triangulate.go`, `model3d/triangulate.go`, `ProfileMesh`

Core Lean only.  Generic over the scalar `α` (proved about for every linear ordered field in
`M3d/Props/C14.lean`, executed at `Rat` by `M3d/Drv/C14.lean` against the real Go code on dyadic
inputs).  Angles never appear: every decision the Go code takes through `clockwiseAngle`
(`acos`/`sin`/`cos`) is a sign of the exact orientation determinant `orient`, which is what the
model evaluates (the derivations are next to each definition).

* `cross`, `orient`, `pathSum`, `shoelace2`      – shoelace terms (twice the signed area, ccw > 0)
* `removeColinear`, `isVertexEar`, `triangulate` – `removeColinearPoints`, `isVertexEar`, `Triangulate`
* `clipSeq`                                      – ear clipping with an ARBITRARY choice of ears
* `vertexType`, `sweepOrder`                     – `triangulateSweepState.VertexType`, sorted `Coords`
* `monoTris`                                     – `triangulateMonotoneMesh` (stack algorithm)
* `sweepSplits`                                  – `triangulateMonotoneSplits` (helpers, edge list, `fixUp`)
* `certOk`                                       – the verified certificate checker (with T-junction refinement)
* `profileSoup`, `vol6`                          – `ProfileMesh`, six times the signed volume
* `triangulateFaceIdx`                           – `TriangulateFace`: project, triangulate, map back
-/
namespace M3d.Tri
open M3d.Surface (Tri Edge swap triEdges dirEdges)

structure P2 (α : Type) where
  x : α
  y : α
deriving DecidableEq, Repr

section Scalar
variable {α : Type}

/-- One shoelace term `a.x*b.y − a.y*b.x` (twice the signed area of `0,a,b`). -/
def cross [Mul α] [Sub α] (a b : P2 α) : α := a.x * b.y - a.y * b.x

/-- Twice the signed area of the triangle `a,b,c`; positive = counter-clockwise (y up),
negative = clockwise. -/
def orient [Mul α] [Sub α] (a b c : P2 α) : α := (b.x - a.x) * (c.y - a.y) - (b.y - a.y) * (c.x - a.x)

/-- The similarity `p ↦ (a·x − b·y + e, b·x + a·y + f)`: rotation by the angle of `(a,b)`,
scaling by `|(a,b)|`, translation by `(e,f)` — every orientation-preserving rigid placement and
every change of the unit of length is of this form. -/
def simMap [Mul α] [Sub α] [Add α] (a b e f : α) (p : P2 α) : P2 α :=
  ⟨a * p.x - b * p.y + e, b * p.x + a * p.y + f⟩

/-- Change of the unit of length: multiply both coordinates by `k`. -/
def scaleP [Mul α] (k : α) (p : P2 α) : P2 α := ⟨k * p.x, k * p.y⟩

/-- Translation by the vector `(e, f)`. -/
def translate [Add α] (e f : α) (p : P2 α) : P2 α := ⟨p.x + e, p.y + f⟩

/-- A placement as the harness applies it: translate by `(e, f)`, then change the unit of length by
the factor `k` (`k·(p + (e,f))`; the op-line headers `O e f` and `S log₂k`). -/
def placeP [Add α] [Mul α] (k e f : α) (p : P2 α) : P2 α := scaleP k (translate e f p)

/-- Σ of shoelace terms along an open path. -/
def pathSum [Mul α] [Sub α] [Add α] [OfNat α 0] : List (P2 α) → α
  | a :: b :: t => cross a b + pathSum (b :: t)
  | _ => 0

/-- Twice the signed (shoelace) area of the closed polygon `l` (the first point is re-used as
the end point, as in the Go API). -/
def shoelace2 [Mul α] [Sub α] [Add α] [OfNat α 0] : List (P2 α) → α
  | [] => 0
  | a :: t => pathSum (a :: t ++ [a])

variable [Mul α] [Sub α] [Add α] [OfNat α 0]

/-- Coordinates of a triangle given as three points. -/
abbrev PTri (α : Type) := P2 α × P2 α × P2 α

def triArea2 (t : PTri α) : α := orient t.1 t.2.1 t.2.2

def sumArea2 (ts : List (PTri α)) : α := (ts.map triArea2).foldr (· + ·) 0

/-! ## cyclic neighbours, exactly as the Go code indexes them -/

def zeroP : P2 α := ⟨0, 0⟩

/-- `polygon[(i+len-1)%len]` -/
def prevAt (l : List (P2 α)) (i : Nat) : P2 α := l.getD ((i + l.length - 1) % l.length) zeroP
/-- `polygon[i]` -/
def curAt (l : List (P2 α)) (i : Nat) : P2 α := l.getD i zeroP
/-- `polygon[(i+1)%len]` -/
def nextAt (l : List (P2 α)) (i : Nat) : P2 α := l.getD ((i + 1) % l.length) zeroP

/-- The triangle `{p1, polygon[i], p3}` that `Triangulate` emits for an ear at `i`. -/
def earTri (l : List (P2 α)) (i : Nat) : PTri α := (prevAt l i, curAt l i, nextAt l i)

/-- Ear clipping with an arbitrary sequence of ear indices (no ear test at all): what
`Triangulate` computes for *whatever* choice `isVertexEar` makes. -/
def clipSeq : List (P2 α) → List Nat → List (PTri α)
  | _, [] => []
  | l, i :: is => earTri l i :: clipSeq (l.eraseIdx i) is

/-- The polygon left after the removals. -/
def clipRest : List (P2 α) → List Nat → List (P2 α)
  | l, [] => l
  | l, i :: is => clipRest (l.eraseIdx i) is

variable [LT α] [DecidableLT α] [LE α] [DecidableLE α] [DecidableEq α]

/-- `isPolygonClockwise`: Go sums the exterior angles `π − clockwiseAngle` and tests `> 0`; for a
simple polygon that sum is `+2π` exactly when the vertices run clockwise (y up), i.e. when the
shoelace area is negative. -/
def isClockwise (l : List (P2 α)) : Bool := decide (shoelace2 l < 0)

/-- `removeColinearPoints`: a vertex is kept iff `|sin θ| > 1e-8`, θ the angle at the vertex; on
the exact side `sin θ = 0` iff the three points are colinear iff `orient = 0`. -/
def removeColinear (l : List (P2 α)) : List (P2 α) :=
  (List.range l.length).filterMap fun i =>
    if orient (prevAt l i) (curAt l i) (nextAt l i) = 0 then none else some (curAt l i)

variable [Div α] [OfNat α 1]

/-- Does `p` block the ear `p1,p2,p3`?  Go: `coords := inverseMat.MulColumn(p.Sub(p2))` with the
matrix of columns `p1−p2`, `p3−p2`, i.e. `p − p2 = X·(p1−p2) + Y·(p3−p2)`, then
`coords.X > 0 && coords.Y > 0 && coords.X+coords.Y < 1+earDiagonalEpsilon` (after the `fix:`
commit; the tolerance `1e-8` is the float stand-in for the closed condition `X+Y ≤ 1`: a vertex ON
the diagonal `p1p3` blocks the ear).  `strictDiag = true` models the original code
(`coords.X+coords.Y < 1`), kept for the regression example in Props. -/
def blocks (strictDiag : Bool) (p1 p2 p3 p : P2 α) : Bool :=
  let det := (p1.x - p2.x) * (p3.y - p2.y) - (p3.x - p2.x) * (p1.y - p2.y)
  let inv := (1 : α) / det
  -- Matrix2.Inverse: {m3, -m1, -m2, m0} scaled by 1/det  (column-major m0 m1 | m2 m3)
  let i0 := (p3.y - p2.y) * inv
  let i1 := (0 - (p1.y - p2.y)) * inv
  let i2 := (0 - (p3.x - p2.x)) * inv
  let i3 := (p1.x - p2.x) * inv
  let dx := p.x - p2.x
  let dy := p.y - p2.y
  let X := i0 * dx + i2 * dy
  let Y := i1 * dx + i3 * dy
  if strictDiag then decide (0 < X) && decide (0 < Y) && decide (X + Y < 1)
  else decide (0 < X) && decide (0 < Y) && decide (X + Y ≤ 1)

/-- `isVertexEar`.  `theta <= math.Pi` for `theta = clockwiseAngle(p1,p2,p3)` holds iff `p3−p2` is
at most a half turn counter-clockwise from `p1−p2`, i.e. `(p1−p2)×(p3−p2) ≥ 0`, i.e.
`orient p1 p2 p3 ≤ 0`. -/
def isVertexEar (strictDiag : Bool) (l : List (P2 α)) (v : Nat) : Bool :=
  let n := l.length
  let idx1 := (v + n - 1) % n
  let idx3 := (v + 1) % n
  let p1 := prevAt l v
  let p2 := curAt l v
  let p3 := nextAt l v
  if isClockwise l != decide (orient p1 p2 p3 ≤ 0) then false
  else (List.range n).all fun i =>
    i == idx1 || i == v || i == idx3 || !blocks strictDiag p1 p2 p3 (curAt l i)

/-- `Triangulate` (`none` = one of its two panics).  `fuel` ≥ number of vertices suffices. -/
def triangulate (strictDiag : Bool) : Nat → List (P2 α) → Option (List (PTri α))
  | 0, _ => none
  | fuel + 1, poly =>
    let p := removeColinear poly
    if p.length = 3 then some [(curAt p 0, curAt p 1, curAt p 2)]
    else if p.length < 3 then none
    else match (List.range p.length).find? (isVertexEar strictDiag p) with
      | none => none
      | some i => (triangulate strictDiag fuel (p.eraseIdx i)).map (· ++ [earTri p i])

/-! ## the sweep: vertex classification -/

/-- `triangulateVertexType` in the order of the Go `iota`. -/
inductive VType | split | merge | start | «end» | upper | lower
deriving DecidableEq, Repr

def VType.code : VType → Nat
  | .split => 0 | .merge => 1 | .start => 2 | .end => 3 | .upper => 4 | .lower => 5

/-- `sortedEdge.slope` of the segment between `a` and `b` (`newSortedEdge` orders the end points by
x first; the quotient is symmetric). -/
def slope (a b : P2 α) : α :=
  if b.x < a.x then (a.y - b.y) / (a.x - b.x) else (b.y - a.y) / (b.x - a.x)

/-- `triangulateHigherSegment(s1, s2) == s2` for `s1 = (p,v)`, `s2 = (v,n)` when `v` is the common
LEFT end point (`minX` equal: `Compare` returns 1 iff `s1.slope > s2.slope`). -/
def higherIsS2Left (p v n : P2 α) : Bool := !decide (slope p v > slope v n)
/-- … and when `v` is the common RIGHT end point (`maxX` equal: 1 iff `s1.slope < s2.slope`). -/
def higherIsS2Right (p v n : P2 α) : Bool := !decide (slope p v < slope v n)

/-- `triangulateSweepState.VertexType` for a vertex `v` with predecessor `p` (`s1[0]`) and
successor `n` (`s2[1]`).  `none` = a panic: "no x values should be exactly equal", or "segments
overlap with same slope" from `sortedEdge.Compare` when both edges leave `v` to the same side with
equal slopes. -/
def vertexType (p v n : P2 α) : Option VType :=
  if p.x = n.x ∨ p.x = v.x ∨ n.x = v.x then none
  else if v.x < p.x ∧ v.x < n.x then
    if slope p v = slope v n then none
    else some (if higherIsS2Left p v n then .start else .split)
  else if p.x < v.x ∧ n.x < v.x then
    if slope p v = slope v n then none
    else some (if higherIsS2Right p v n then .merge else .end)
  else if n.x < p.x then some .lower else some .upper

end Scalar

/-! ## id-based models (vertex ids index a coordinate table) -/

section Ids
variable {α : Type} [Mul α] [Sub α] [Add α] [OfNat α 0] [LT α] [DecidableLT α] [LE α] [DecidableLE α]
  [DecidableEq α] [Div α] [OfNat α 1]

/-- Insertion sort of ids by a key (the sweep sorts by x; keys are distinct in every use). -/
def insertBy (key : Nat → α) (v : Nat) : List Nat → List Nat
  | [] => [v]
  | w :: ws => if key v < key w then v :: w :: ws else w :: insertBy key v ws

def sortByKey (key : Nat → α) (vs : List Nat) : List Nat := vs.foldr (insertBy key) []

/-- A mesh as successor/predecessor tables over ids (`ptrMesh.Outgoing/Incoming`, which the sweep
requires to be singletons: `firstOfExactlyOne`). -/
structure Loops where
  nv : Nat
  next : Nat → Nat
  prev : Nat → Nat

def loopsOfLens (lens : List Nat) : Loops :=
  let starts : List (Nat × Nat) := (lens.foldl (fun (acc : Nat × List (Nat × Nat)) n => (acc.1 + n, acc.2 ++ [(acc.1, n)])) (0, [])).2
  let find := fun (v : Nat) => (starts.find? fun s => decide (s.1 ≤ v) && decide (v < s.1 + s.2)).getD (0, 1)
  { nv := lens.foldl (· + ·) 0
    next := fun v => let s := find v; s.1 + (v - s.1 + 1) % s.2
    prev := fun v => let s := find v; s.1 + (v - s.1 + s.2 - 1) % s.2 }

/-- `state.Coords`: the vertices sorted by x. -/
def sweepOrder (c : Nat → P2 α) (m : Loops) : List Nat := sortByKey (fun v => (c v).x) (List.range m.nv)

def vtypeOf (c : Nat → P2 α) (m : Loops) (v : Nat) : Option VType :=
  vertexType (c (m.prev v)) (c v) (c (m.next v))

/-! ### `triangulateMonotoneMesh` -/

/-- `if !isPolygonClockwise(tri[:]) { swap 0,1 }`. -/
def fixCW (c : Nat → P2 α) (t : Tri) : Tri :=
  if orient (c t.1) (c t.2.1) (c t.2.2) ≤ 0 then t else (t.2.1, t.1, t.2.2)

/-- Triangles across the whole stack towards `v`: `{stack[i], stack[i+1], v}` for all `i`. -/
def fanTris : List Nat → Nat → List Tri
  | a :: b :: t, v => (a, b, v) :: fanTris (b :: t) v
  | _, _ => []

/-- The inner `for len(stack) > 1` loop of the same-chain case.  The stack is kept REVERSED (top
first).  `interiorAngle >= π` (break) iff `orient ≥ 0` on the upper chain, `orient ≤ 0` on the lower
chain (`interiorAngle = 2π − θ` there), θ = `clockwiseAngle(stack[i], stack[i+1], c)`. -/
def popLoop (c : Nat → P2 α) (upper : Bool) (v : Nat) : List Nat → List Tri → List Nat × List Tri
  | top :: below :: rest, acc =>
    let o := orient (c below) (c top) (c v)
    if (if upper then decide (0 ≤ o) else decide (o ≤ 0)) then (top :: below :: rest, acc)
    else popLoop c upper v (below :: rest)
      (acc ++ [if upper then (below, top, v) else (top, below, v)])
  | st, acc => (st, acc)

structure MonoState where
  stack : List Nat        -- reversed: top first
  stackType : VType
  tris : List Tri
  ok : Bool               -- false = "polygon was not monotone" panic

def flipTri (t : Tri) : Tri := (t.2.1, t.1, t.2.2)

/-- The orientation the chain geometry dictates for a fan triangle `{stack[i], stack[i+1], v}`:
as listed when the stack lies on the upper chain, first two corners swapped on the lower chain
(the same rule the same-chain branch of the Go code applies explicitly). -/
def rawFan (ty : VType) (t : Tri) : Tri := if ty = .upper then t else flipTri t

/-- One iteration of the main loop for vertex `v` of type `ty`, `i` = loop index, `last` = whether
`i == len(state.Coords)-2`.  `fan stackType t` is how a fan triangle is oriented: the Go code uses
`fixCW` (`if !isPolygonClockwise(tri) {swap}`), the area theorem is about `rawFan`; the two agree
whenever the `rawFan` triangle is clockwise (`fixCW_eq_rawFan`). -/
def monoStepG (fan : VType → Tri → Tri) (c : Nat → P2 α) (s : MonoState) (i : Nat) (last : Bool) (v : Nat)
    (ty : VType) : MonoState :=
  if i = 0 then { s with stackType := ty, stack := v :: s.stack }
  else if ty = .end then
    { s with tris := s.tris ++ (fanTris s.stack.reverse v).map (fan s.stackType), stack := [], ok := s.ok && last }
  else if ty ≠ s.stackType then
    { s with tris := s.tris ++ (fanTris s.stack.reverse v).map (fan s.stackType),
             stack := [v, s.stack.headD 0], stackType := ty }
  else if s.stackType = .upper ∨ s.stackType = .lower then
    let r := popLoop c (s.stackType = .upper) v s.stack []
    { s with tris := s.tris ++ r.2, stack := v :: r.1 }
  else { s with stack := v :: s.stack }

def monoLoopG (fan : VType → Tri → Tri) (c : Nat → P2 α) (ty : Nat → VType) (n : Nat) :
    MonoState → Nat → List Nat → MonoState
  | s, _, [] => s
  | s, i, v :: vs => monoLoopG fan c ty n (monoStepG fan c s i (i + 2 == n) v (ty v)) (i + 1) vs

/-- The Go loop. -/
def monoLoop (c : Nat → P2 α) (ty : Nat → VType) (n : Nat) : MonoState → Nat → List Nat → MonoState :=
  monoLoopG (fun _ => fixCW c) c ty n

/-- `triangulateMonotoneMesh` (`none` = a panic). -/
def monoTris (c : Nat → P2 α) (m : Loops) : Option (List Tri) :=
  let order := sweepOrder c m
  match order with
  | [] => none
  | v0 :: rest =>
    if vtypeOf c m v0 ≠ some .start then none
    else if rest.any (fun v => (vtypeOf c m v).isNone) then none
    else
      let ty := fun v => (vtypeOf c m v).getD .start
      let s := monoLoop c ty order.length ⟨[v0], .start, [], true⟩ 0 rest
      if s.ok && s.stack.isEmpty then some s.tris else none

/-! ### `triangulateMonotoneSplits`: the sweep with helpers -/

/-- `sortedEdge.yAtX` for the edge `(a,b)` at abscissa `x`. -/
def yAtX (c : Nat → P2 α) (e : Edge) (x : α) : α :=
  let a := c e.1; let b := c e.2
  let lo := if b.x < a.x then b else a
  let hi := if b.x < a.x then a else b
  if x = lo.x then lo.y else if x = hi.x then hi.y
  else
    let f := (x - lo.x) / (hi.x - lo.x)
    f * hi.y + (1 - f) * lo.y

/-- `EdgeTree.FindAbove(p)`: the lowest edge in the tree that lies above the point (the tree is
ordered by height; the model keeps the edges in a list and takes the minimum). -/
def findAbove (c : Nat → P2 α) (tree : List Edge) (p : P2 α) : Option Edge :=
  (tree.filter fun e => decide (p.y < yAtX c e p.x)).foldl
    (fun best e => match best with
      | none => some e
      | some b => if yAtX c e p.x < yAtX c b p.x then some e else some b) none

structure SweepState where
  tree : List Edge
  helpers : List (Nat × Nat)    -- first vertex of the upper edge ↦ helper
  gen : List Edge               -- `Generated`
  ok : Bool

def helperOf (hs : List (Nat × Nat)) (k : Nat) : Option Nat := (hs.find? fun h => h.1 == k).map (·.2)
def setHelper (hs : List (Nat × Nat)) (k v : Nat) : List (Nat × Nat) := (k, v) :: hs.filter fun h => h.1 != k
def delHelper (hs : List (Nat × Nat)) (k : Nat) : List (Nat × Nat) := hs.filter fun h => h.1 != k

/-- `fixUp(c, s)`: panic without helper; a diagonal when the helper is a merge vertex. -/
def fixUp (c : Nat → P2 α) (m : Loops) (s : SweepState) (v : Nat) (e : Edge) : SweepState :=
  match helperOf s.helpers e.1 with
  | none => { s with ok := false }
  | some h => if vtypeOf c m h = some .merge then { s with gen := s.gen ++ [(v, h)] } else s

def removeEdges (s : SweepState) (es : List Edge) : SweepState :=
  es.foldl (fun s e => { s with tree := s.tree.filter (· != e), helpers := delHelper s.helpers e.1 }) s

/-- `triangulateSweepState.Next` for vertex `v`. -/
def sweepNext (c : Nat → P2 α) (m : Loops) (s : SweepState) (v : Nat) : SweepState :=
  let s1 : Edge := (m.prev v, v)
  let s2 : Edge := (v, m.next v)
  let p := c (m.prev v); let q := c v; let n := c (m.next v)
  match vtypeOf c m v with
  | none => { s with ok := false }
  | some .start =>
    -- higher segment is s2 by the classification
    { s with tree := s2 :: s1 :: s.tree, helpers := setHelper s.helpers s2.1 v }
  | some .end =>
    -- higher segment is s1
    removeEdges (fixUp c m s v s1) [s1, s2]
  | some .upper =>
    let s' := removeEdges (fixUp c m s v s1) [s1]
    { s' with tree := s2 :: s'.tree, helpers := setHelper s'.helpers s2.1 v }
  | some .lower =>
    -- findEdges returns (incoming, outgoing): newEdge = s1 = (prev,v), oldEdge = s2 = (v,next)
    let s' := removeEdges s [s2]
    match findAbove c s'.tree q with
    | none => { s' with ok := false }
    | some ab =>
      let s'' := fixUp c m s' v ab
      { s'' with tree := s1 :: s''.tree, helpers := setHelper s''.helpers ab.1 v }
  | some .split =>
    match findAbove c s.tree q with
    | none => { s with ok := false }
    | some ab =>
      match helperOf s.helpers ab.1 with
      | none => { s with ok := false }    -- Go: nil helper, crashes later
      | some h =>
        -- lower segment: s1 is the higher one for a split vertex, so lower = s2
        let lowerFirst := if higherIsS2Left p q n then s1.1 else s2.1
        { s with gen := s.gen ++ [(h, v)], tree := s2 :: s1 :: s.tree,
                 helpers := setHelper (setHelper s.helpers lowerFirst v) ab.1 v }
  | some .merge =>
    -- lower edge: higher is s2 for a merge vertex, so lower = s1
    let lowerE := if higherIsS2Right p q n then s1 else s2
    let s' := removeEdges (fixUp c m s v lowerE) [s1, s2]
    match findAbove c s'.tree q with
    | none => { s' with ok := false }
    | some ab =>
      let s'' := fixUp c m s' v ab
      { s'' with helpers := setHelper s''.helpers ab.1 v }

/-- `triangulateMonotoneSplits`: the generated diagonals in order (`none` = panic). -/
def sweepSplits (c : Nat → P2 α) (m : Loops) : Option (List Edge) :=
  let s := (sweepOrder c m).foldl (sweepNext c m) ⟨[], [], [], true⟩
  if s.ok then some s.gen else none

end Ids

/-! ## The certificate checker -/

section Cert
variable {α : Type} [Mul α] [Sub α] [Add α] [OfNat α 0] [LT α] [DecidableLT α] [DecidableEq α]

def dotD (a b p : P2 α) : α := (p.x - a.x) * (b.x - a.x) + (p.y - a.y) * (b.y - a.y)

/-- `p` lies strictly inside the segment `ab`. -/
def between (a b p : P2 α) : Bool :=
  decide (orient a b p = 0) && decide (0 < dotD a b p) && decide (dotD a b p < dotD a b b)

/-- Every step of the chain `a → m₁ → m₂ → … → b` stays strictly inside what is left of the
segment (so the chain subdivides the segment `ab` in order). -/
def chainOnSeg (c : Nat → P2 α) (b : Nat) : Nat → List Nat → Bool
  | _, [] => true
  | a, m :: ms => between (c a) (c b) (c m) && chainOnSeg c b m ms

/-- The directed edges of the path `a → m₁ → … → b`. -/
def chainEdges (b : Nat) : Nat → List Nat → List Edge
  | a, [] => [(a, b)]
  | a, m :: ms => (a, m) :: chainEdges b m ms

/-- insertion by a key -/
def insKey (key : Nat → α) (v : Nat) : List Nat → List Nat
  | [] => [v]
  | w :: ws => if key v < key w then v :: w :: ws else w :: insKey key v ws

/-- Input vertices strictly inside the edge, in order along it (untrusted: re-checked by `chainOnSeg`). -/
def midsOf (c : Nat → P2 α) (nv : Nat) (e : Edge) : List Nat :=
  let ms := (List.range nv).filter fun v => between (c e.1) (c e.2) (c v)
  ms.foldr (insKey fun v => dotD (c e.1) (c e.2) (c v)) []

/-- Split the edge at the input vertices lying on it (T-junctions).  `none` if the chain does not
verify. -/
def refineEdge (c : Nat → P2 α) (nv : Nat) (e : Edge) : Option (List Edge) :=
  let ms := midsOf c nv e
  if chainOnSeg c e.2 e.1 ms then some (chainEdges e.2 e.1 ms) else none

def refineAll (c : Nat → P2 α) (nv : Nat) : List Edge → Option (List Edge)
  | [] => some []
  | e :: es => match refineEdge c nv e, refineAll c nv es with
    | some r, some rs => some (r ++ rs)
    | _, _ => none

/-- The combinatorial gluing conditions on (refined) directed edge lists: `E` the triangle edges,
`B` the boundary edges in the direction the triangles must traverse them.
Every directed edge at most once; every boundary edge is used, its reverse is not; every other
edge is matched by its reverse. -/
def gluedOk (B E : List Edge) : Bool :=
  decide E.Nodup && decide B.Nodup &&
  B.all (fun e => E.contains e && !E.contains (swap e)) &&
  E.all (fun e => B.contains e || E.contains (swap e))

def triOrient (c : Nat → P2 α) (t : Tri) : α := orient (c t.1) (c t.2.1) (c t.2.2)

def sumF {β : Type} (f : β → α) (l : List β) : α := (l.map f).foldr (· + ·) 0

/-- Refinement is only applied in strict mode (a zero-area triangle has colinear overlapping edges,
which subdivision would turn into repeated edges). -/
def refineG (strict : Bool) (c : Nat → P2 α) (nv : Nat) (es : List Edge) : Option (List Edge) :=
  if strict then refineAll c nv es else some es

/-- Vertices are input vertices, triangles have the required orientation (`cw = true`: clockwise,
`orient < 0`; with `strict = false` zero-area triangles are tolerated: `orient ≤ 0`, and edges are
not subdivided), the (refined) edges glue. -/
def edgesOkG (strict : Bool) (c : Nat → P2 α) (nv : Nat) (cw : Bool) (bnd : List Edge) (tris : List Tri) : Bool :=
  tris.all (fun t => decide (t.1 < nv) && decide (t.2.1 < nv) && decide (t.2.2 < nv)) &&
  tris.all (fun t =>
    if strict then (if cw then decide (triOrient c t < 0) else decide (0 < triOrient c t))
    else (if cw then !decide (0 < triOrient c t) else !decide (triOrient c t < 0))) &&
  match refineG strict c nv bnd, refineG strict c nv (dirEdges tris) with
  | some B, some E => gluedOk B E
  | _, _ => false

/-- Vertices are input vertices, triangles are non-degenerate with the required orientation
(`cw = true`: clockwise, `orient < 0`), the refined edges glue. -/
def edgesOk (c : Nat → P2 α) (nv : Nat) (cw : Bool) (bnd : List Edge) (tris : List Tri) : Bool :=
  edgesOkG true c nv cw bnd tris

/-- The full checker of the task statement: `edgesOk` plus the (provably redundant) area equation
Σ triangle areas = region area by the shoelace formula over the boundary edges. -/
def certOk (c : Nat → P2 α) (nv : Nat) (cw : Bool) (bnd : List Edge) (tris : List Tri) : Bool :=
  edgesOk c nv cw bnd tris &&
  decide (sumF (triOrient c) tris = sumF (fun e : Edge => cross (c e.1) (c e.2)) bnd)

/-- Boundary edges of loops given by their lengths (ids consecutive), in list direction. -/
def loopEdges (lens : List Nat) : List Edge :=
  (lens.foldl (fun (acc : Nat × List Edge) n =>
    (acc.1 + n, acc.2 ++ (List.range n).map fun i => (acc.1 + i, acc.1 + (i + 1) % n))) (0, [])).2

end Cert

/-! ## `ProfileMesh` -/

section Profile
variable {α : Type} [Mul α] [Sub α] [Add α] [OfNat α 0]

/-- id of the copy of 2-D vertex `v` at `minZ` / `maxZ`. -/
def bot (v : Nat) : Nat := 2 * v
def top (v : Nat) : Nat := 2 * v + 1

/-- The two side triangles `AddQuad(seg0, seg1, p3, p4)` for the cap edge `(a,b)` of a bottom
triangle: `seg = (b,a)`, `p3 = a↑`, `p4 = b↑`; `AddQuad p1 p2 p3 p4 = {p1,p2,p4},{p2,p3,p4}`. -/
def sideTris (e : Edge) : List Tri :=
  [(bot e.2, bot e.1, top e.2), (bot e.1, top e.1, top e.2)]

/-- `len(m.Find(seg0, seg1)) == 1` while only the caps are in the mesh: the undirected edge belongs
to exactly one bottom triangle. -/
def unsharedEdges (tris : List Tri) : List Edge :=
  let es := dirEdges tris
  es.filter fun e => es.count e + es.count (swap e) == 1

/-- `ProfileMesh`: bottom caps as given, top caps with the first two vertices swapped, sides on the
unshared cap edges. -/
def profileSoup (tris : List Tri) : List Tri :=
  tris.flatMap (fun t => [(bot t.1, bot t.2.1, bot t.2.2), (top t.2.1, top t.1, top t.2.2)]) ++
  (unsharedEdges tris).flatMap sideTris

/-- … with the side edges given explicitly (used by the volume identity). -/
def profileSoupOn (tris : List Tri) (sides : List Edge) : List Tri :=
  tris.flatMap (fun t => [(bot t.1, bot t.2.1, bot t.2.2), (top t.2.1, top t.1, top t.2.2)]) ++
  sides.flatMap sideTris

structure P3 (α : Type) where
  x : α
  y : α
  z : α

def det3 (a b c : P3 α) : α :=
  a.x * (b.y * c.z - b.z * c.y) - a.y * (b.x * c.z - b.z * c.x) + a.z * (b.x * c.y - b.y * c.x)

/-- coordinates of profile vertex ids -/
def lift (c : Nat → P2 α) (z0 z1 : α) (i : Nat) : P3 α :=
  ⟨(c (i / 2)).x, (c (i / 2)).y, if i % 2 = 0 then z0 else z1⟩

/-- Six times the signed volume enclosed by a soup (divergence theorem: Σ det(a,b,c)). -/
def vol6 (c3 : Nat → P3 α) (ts : List Tri) : α :=
  (ts.map fun t => det3 (c3 t.1) (c3 t.2.1) (c3 t.2.2)).foldr (· + ·) 0

end Profile

/-! ## `TriangulateFace` -/

section Face
variable {α : Type} [Mul α] [Sub α] [Add α] [OfNat α 0]

def dot3 (a b : P3 α) : α := a.x * b.x + a.y * b.y + a.z * b.z
def sub3 (a b : P3 α) : P3 α := ⟨a.x - b.x, a.y - b.y, a.z - b.z⟩

/-- `coords2D[i] = (basis1·(p−p0), basis2·(p−p0))`. -/
def projectFace (b1 b2 : P3 α) (poly : List (P3 α)) : List (P2 α) :=
  match poly with
  | [] => []
  | p0 :: _ => poly.map fun p => ⟨dot3 b1 (sub3 p p0), dot3 b2 (sub3 p p0)⟩

variable [DecidableEq α]

/-- Index of a 2-D point among the projected input points (first match), the map back to the
input vertex that the repaired `TriangulateFace` performs. -/
def indexOfP (ps : List (P2 α)) (p : P2 α) : Option Nat :=
  let i := ps.findIdx (· == p)
  if i < ps.length then some i else none

/-- `TriangulateFace` with the 2-D triangulation as a parameter: the output triangles as indices
into the input polygon (`none` if the 2-D routine returned a point that is not a projected input
point — it never does, `triangulate_uses_input_vertices`). -/
def triangulateFaceIdx (tri2d : List (P2 α) → Option (List (PTri α))) (b1 b2 : P3 α)
    (poly : List (P3 α)) : Option (List Tri) :=
  let ps := projectFace b1 b2 poly
  (tri2d ps).bind fun ts => ts.mapM fun t => do
    let a ← indexOfP ps t.1
    let b ← indexOfP ps t.2.1
    let c ← indexOfP ps t.2.2
    pure (a, b, c)

end Face

end M3d.Tri
