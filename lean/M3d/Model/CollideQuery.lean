import M3d.Model.Collide
import M3d.Model.CollideXf
/-!
# C07 — box and triangle queries of segments, triangles and mesh colliders

Core Lean only, generic scalar (same conventions as `M3d/Model/Collide.lean`: `math.Sqrt` is `sqrtF`, the `1e-8`
of the tolerance tests is `eps`, Go `==` on non-NaN floats is `eqB` / `isZero`).

Transcribed:
* `model2d.Rect.Contains`, `model2d.Segment.Min/Max`, `model2d.Segment.SegmentCollision`,
  `model2d.Segment.RectCollision` (primitives.go),
* `joinedMultiCollider.RectCollision` (model2d/collisions.go and its 3-D twin: overlap of the query box with the
  node's bounds, then the children in order) over the binary trees `GroupedSegmentsToCollider` /
  `GroupedTrianglesToCollider` / `BVHToCollider` build, with the bounds `NewJoinedCollider` computes,
* `Triangle.inCommon`, `Triangle.TriangleCollisions` (model3d/primitives.go) with its closure
  `findContainedRange` (`±Inf` is `none`), `joinedMultiCollider.TriangleCollisions` (model3d/collisions.go).
-/
namespace M3d.Col

/-- The binary hierarchies of `GroupedSegmentsToCollider`, `GroupedTrianglesToCollider`, `BVHToCollider`: a leaf is
the primitive itself (`*Segment` / `*Triangle` are colliders), a node is a `joinedMultiCollider` of two sub-trees. -/
inductive BTree (L : Type) where
  | leaf : L → BTree L
  | node : BTree L → BTree L → BTree L

/-- the primitives of a hierarchy, left to right -/
def BTree.leaves {L : Type} : BTree L → List L
  | .leaf l => [l]
  | .node a b => a.leaves ++ b.leaves

section Scalars2
variable {α : Type} [LT α] [DecidableLT α]

/-- `math.Min` on non-NaN values -/
def minS (a b : α) : α := if b < a then b else a
/-- `math.Max` on non-NaN values -/
def maxS (a b : α) : α := if a < b then b else a

/-- `Coord.Min` -/
def V2.min (a b : V2 α) : V2 α := ⟨minS a.x b.x, minS a.y b.y⟩
/-- `Coord.Max` -/
def V2.max (a b : V2 α) : V2 α := ⟨maxS a.x b.x, maxS a.y b.y⟩
/-- `Coord3D.Min` -/
def V3.min (a b : V3 α) : V3 α := ⟨minS a.x b.x, minS a.y b.y, minS a.z b.z⟩
/-- `Coord3D.Max` -/
def V3.max (a b : V3 α) : V3 α := ⟨maxS a.x b.x, maxS a.y b.y, maxS a.z b.z⟩

/-- Go `==` on `Coord3D` -/
def V3.eqB (a b : V3 α) : Bool := Col.eqB a.x b.x && Col.eqB a.y b.y && Col.eqB a.z b.z

end Scalars2

/-! ## 2-D: `Segment.RectCollision` and the mesh collider's `RectCollision` -/

section Rect2
variable {α : Type} [Add α] [Sub α] [Mul α] [Div α] [Neg α] [LT α] [LE α] [DecidableLT α] [DecidableLE α]
  [OfNat α 0] [OfNat α 1]

/-- `model2d.Rect.Contains`: `c.Min(MinVal) == MinVal && c.Max(MaxVal) == MaxVal`, i.e. `lo ≤ c ≤ hi`. -/
def rect2Contains (lo hi c : V2 α) : Bool :=
  !decide (c.x < lo.x) && !decide (c.y < lo.y) && !decide (hi.x < c.x) && !decide (hi.y < c.y)

/-- `model2d.Segment.SegmentCollision(s1)`: `s.rayCollision(Ray{s1[0], s1[1]-s1[0]})`, `collides && 0 ≤ t ≤ 1`. -/
def seg2Segment (sqrtF : α → α) (eps : α) (s0 s1 q0 q1 : V2 α) : Bool :=
  match seg2Ray sqrtF eps s0 s1 q0 (q1.sub q0) with
  | some (true, t) => decide (0 ≤ t) && decide (t ≤ 1)
  | _ => false

/-- `model2d.Segment.RectCollision`: bounding-box rejection, an end point inside, or a crossing with one of the
four sides of the rectangle (in the order of the Go array literal). -/
def seg2Rect (sqrtF : α → α) (eps : α) (s0 s1 lo hi : V2 α) : Bool :=
  let mn := s0.min s1
  let mx := s0.max s1
  if hi.x < mn.x ∨ hi.y < mn.y then false
  else if mx.x < lo.x ∨ mx.y < lo.y then false
  else if rect2Contains lo hi s0 || rect2Contains lo hi s1 then true
  else
    seg2Segment sqrtF eps s0 s1 lo ⟨hi.x, lo.y⟩ || seg2Segment sqrtF eps s0 s1 lo ⟨lo.x, hi.y⟩ ||
    seg2Segment sqrtF eps s0 s1 hi ⟨hi.x, lo.y⟩ || seg2Segment sqrtF eps s0 s1 hi ⟨lo.x, hi.y⟩

/-- "the closed box contains the point" -/
def inBox2 (lo hi p : V2 α) : Bool :=
  decide (lo.x ≤ p.x) && decide (p.x ≤ hi.x) && decide (lo.y ≤ p.y) && decide (p.y ≤ hi.y)

/-- **What the property demands of a box query against a segment**, decided without the square root and without a
tolerance: some point `s0 + λ(s1 - s0)`, `0 ≤ λ ≤ 1`, lies in the closed box.  It suffices to look at `λ = 0` and
at the parameters where the segment's line meets the four lines bounding the box (the segment enters the box
through one of them); a division by zero yields the harmless candidate `0`. -/
def seg2RectSpec (s0 s1 lo hi : V2 α) : Bool :=
  let dx := s1.x - s0.x
  let dy := s1.y - s0.y
  [0, (lo.x - s0.x) / dx, (hi.x - s0.x) / dx, (lo.y - s0.y) / dy, (hi.y - s0.y) / dy].any fun lam =>
    decide (0 ≤ lam) && decide (lam ≤ 1) && inBox2 lo hi (s0.add ((s1.sub s0).scale lam))

/-- the bounds test of `joinedMultiCollider.RectCollision` (2-D):
`min := r.MinVal.Max(j.min); max := r.MaxVal.Min(j.max); min.Min(max) != min → false`, i.e. the node is visited
iff `max(lo, jlo) ≤ min(hi, jhi)` in both coordinates (a degenerate overlap is an overlap). -/
def rectOverlap2 (lo hi jlo jhi : V2 α) : Bool :=
  let mn := lo.max jlo
  let mx := hi.min jhi
  let m := mn.min mx
  eqB m.x mn.x && eqB m.y mn.y

variable {L : Type}

/-- `JoinedCollider.min` as `NewJoinedCollider` computes it (2-D) -/
def btMin2 (leafMin : L → V2 α) : BTree L → V2 α
  | .leaf l => leafMin l
  | .node a b => (btMin2 leafMin a).min (btMin2 leafMin b)

/-- `JoinedCollider.max` (2-D) -/
def btMax2 (leafMax : L → V2 α) : BTree L → V2 α
  | .leaf l => leafMax l
  | .node a b => (btMax2 leafMax a).max (btMax2 leafMax b)

/-- `joinedMultiCollider.RectCollision` (2-D) over a hierarchy: bounds test, then the children in order. -/
def treeRect2 (leafMin leafMax : L → V2 α) (leafRect : L → V2 α → V2 α → Bool) : BTree L → V2 α → V2 α → Bool
  | .leaf l, lo, hi => leafRect l lo hi
  | .node a b, lo, hi =>
      rectOverlap2 lo hi (btMin2 leafMin (.node a b)) (btMax2 leafMax (.node a b)) &&
        (treeRect2 leafMin leafMax leafRect a lo hi || treeRect2 leafMin leafMax leafRect b lo hi)

/-- the mesh collider of 2-D segments (`MeshToCollider` / `GroupedSegmentsToCollider` / `BVHToCollider`) -/
def meshRect2 (sqrtF : α → α) (eps : α) (t : BTree (V2 α × V2 α)) (lo hi : V2 α) : Bool :=
  treeRect2 (fun s => s.1.min s.2) (fun s => s.1.max s.2) (fun s => seg2Rect sqrtF eps s.1 s.2) t lo hi

end Rect2

/-! ## 3-D: `Triangle.TriangleCollisions` and the mesh collider's `TriangleCollisions` -/

section TriTri
variable {α : Type} [Add α] [Sub α] [Mul α] [Div α] [Neg α] [LT α] [LE α] [DecidableLT α] [DecidableLE α]
  [OfNat α 0] [OfNat α 1]

abbrev Tri3 (α : Type) := V3 α × V3 α × V3 α

/-- `Triangle.inCommon` -/
def triInCommon (t t1 : Tri3 α) : Nat :=
  (if t.1.eqB t1.1 || t.1.eqB t1.2.1 || t.1.eqB t1.2.2 then 1 else 0) +
  (if t.2.1.eqB t1.1 || t.2.1.eqB t1.2.1 || t.2.1.eqB t1.2.2 then 1 else 0) +
  (if t.2.2.eqB t1.1 || t.2.2.eqB t1.2.1 || t.2.2.eqB t1.2.2 then 1 else 0)

/-- `math.Max(tMin, bound)` where `tMin` may be `-Inf` (`none`) -/
def maxLo (lo : Option α) (b : α) : α :=
  match lo with
  | none => b
  | some x => maxS x b

/-- `math.Min(tMax, bound)` where `tMax` may be `+Inf` (`none`) -/
def minHi (hi : Option α) (b : α) : α :=
  match hi with
  | none => b
  | some x => minS x b

/-- `updateFirstConstraint(o, d)` of `findContainedRange` on the pair `(tMin, tMax)`. -/
def updFirst (o d : α) (r : Option α × Option α) : Option α × Option α :=
  if isZero d then (if o < 0 then (some 0, some 0) else r)
  else
    let bound := -o / d
    if d < 0 then (r.1, some (minHi r.2 bound)) else (some (maxLo r.1 bound), r.2)

/-- the closure `findContainedRange(o1, o2, d1, d2)`: the `t` with `o1 + t·d1 ≥ 0`, `o2 + t·d2 ≥ 0`,
`(o1 + o2) + t·(d1 + d2) ≤ 1` as `(tMin, tMax)`; `(0, 0)` when a constant constraint fails. -/
def findRange (o1 o2 d1 d2 : α) : Option α × Option α :=
  let sumO := o1 + o2
  let sumD := d1 + d2
  if isZero sumD then
    if 1 < sumO then (some 0, some 0)
    else updFirst o2 d2 (updFirst o1 d1 (none, none))
  else
    let bound := (1 - sumO) / sumD
    let r0 : Option α × Option α := if 0 < sumD then (none, some bound) else (some bound, none)
    updFirst o2 d2 (updFirst o1 d1 r0)

/-- Go `min >= max` on possibly infinite values (`-Inf >= x` and `x >= +Inf` are false) -/
def rangeEmpty (r : Option α × Option α) : Bool :=
  match r.1, r.2 with
  | some a, some b => decide (b ≤ a)
  | _, _ => false

/-- `math.Max(min1, min2)` / `math.Min(max1, max2)` on possibly infinite values -/
def rangeInter (r1 r2 : Option α × Option α) : Option α × Option α :=
  (match r1.1, r2.1 with
   | none, x => x
   | x, none => x
   | some a, some b => some (maxS a b),
   match r1.2, r2.2 with
   | none, x => x
   | x, none => x
   | some a, some b => some (minS a b))

/-- The line of `TriangleCollisions`: with `A = [v1 v2 -w3]` (`w3, w4` = `v3, v4`, swapped when the determinant
with `v4` is larger in absolute value), `o = A⁻¹(t1[0] - t[0])` and `d = A⁻¹ w4`. -/
def triTriLine (a b c a' b' c' : V3 α) : V3 α × V3 α :=
  let v1 := b.sub a
  let v2 := c.sub a
  let v3 := b'.sub a'
  let v4 := c'.sub a'
  let m1 := Tf.M3.ofColumns v1.toTf v2.toTf (v3.scale (-1)).toTf
  let m2 := Tf.M3.ofColumns v1.toTf v2.toTf (v4.scale (-1)).toTf
  let swap := decide (absS m1.det < absS m2.det)
  let matA := if swap then m2 else m1
  let w4 := if swap then v3 else v4
  let invA := matA.inverse
  (V3.ofTf (invA.mulColumn (a'.sub a).toTf), V3.ofTf (invA.mulColumn w4.toTf))

/-- `collisionPoint(time)` -/
def triTriPoint (a b c : V3 α) (o d : V3 α) (time : α) : V3 α :=
  (a.add ((b.sub a).scale (o.x + d.x * time))).add ((c.sub a).scale (o.y + d.y * time))

/-- the body of `TriangleCollisions` between the co-planarity test and the vertex filter: the two parameter
ranges, their intersection, and the two end points `collisionPoint(min)`, `collisionPoint(max)` -/
def triTriCore (a b c a' b' c' : V3 α) : Option (V3 α × V3 α) :=
  let od := triTriLine a b c a' b' c'
  let o := od.1
  let d := od.2
  let r1 := findRange o.x o.y d.x d.y
  if rangeEmpty r1 then none
  else
    let r2 := findRange o.z 0 d.z 1
    if rangeEmpty r2 then none
    else
      let r := rangeInter r1 r2
      if rangeEmpty r then none
      else
        match r.1, r.2 with
        | some mn, some mx => some (triTriPoint a b c o d mn, triTriPoint a b c o d mx)
        | _, _ => none  -- unreachable: the second range is always finite (`findRange_z_finite`)

/-- `Triangle.TriangleCollisions(t1)`: `none` = the empty slice, `some s` = the one segment.
* two or three common vertices: nothing;
* the co-planarity test `|n1·n2| > 1 - 1e-8 || NaN` (NaN = a triangle without area: its normal is `0/0`);
* the line / interval computation `triTriCore`;
* collisions shorter than `1e-8` times both `|v1|` and `|v2|` are dropped ("at a vertex");
* `NewSegment` orders the end points. -/
def triTri (sqrtF : α → α) (eps : α) (t t1 : Tri3 α) : Option (V3 α × V3 α) :=
  if 1 < triInCommon t t1 then none
  else
    let c1 := (t.2.1.sub t.1).cross (t.2.2.sub t.1)
    let c2 := (t1.2.1.sub t1.1).cross (t1.2.2.sub t1.1)
    if isZero (c1.dot c1) || isZero (c2.dot c2) then none
    else
      let dd := absS ((triNormal sqrtF t.1 t.2.1 t.2.2).dot (triNormal sqrtF t1.1 t1.2.1 t1.2.2))
      if 1 - eps < dd then none
      else
        match triTriCore t.1 t.2.1 t.2.2 t1.1 t1.2.1 t1.2.2 with
        | none => none
        | some (p1, p2) =>
          let dist := p1.dist sqrtF p2
          if dist < (t.2.1.sub t.1).norm sqrtF * eps ∧ dist < (t.2.2.sub t.1).norm sqrtF * eps then none
          else some (newSegment p1 p2)

/-- the bounds test of `joinedMultiCollider.TriangleCollisions`:
`min := t.Min().Max(j.min); max := t.Max().Min(j.max); min.X > max.X || … → nil` -/
def boxOverlap3 (lo hi jlo jhi : V3 α) : Bool :=
  let mn := lo.max jlo
  let mx := hi.min jhi
  !(decide (mx.x < mn.x) || decide (mx.y < mn.y) || decide (mx.z < mn.z))

variable {L S : Type}

/-- `JoinedCollider.min` (3-D) -/
def btMin3 (leafMin : L → V3 α) : BTree L → V3 α
  | .leaf l => leafMin l
  | .node a b => (btMin3 leafMin a).min (btMin3 leafMin b)

/-- `JoinedCollider.max` (3-D) -/
def btMax3 (leafMax : L → V3 α) : BTree L → V3 α
  | .leaf l => leafMax l
  | .node a b => (btMax3 leafMax a).max (btMax3 leafMax b)

/-- `joinedMultiCollider.TriangleCollisions(t)` over a hierarchy: bounds test against the query's bounding box
`(qlo, qhi)`, then the concatenation of the children's answers. -/
def treeTriTri (leafMin leafMax : L → V3 α) (leafQ : L → List S) (qlo qhi : V3 α) : BTree L → List S
  | .leaf l => leafQ l
  | .node a b =>
      if boxOverlap3 qlo qhi (btMin3 leafMin (.node a b)) (btMax3 leafMax (.node a b)) then
        treeTriTri leafMin leafMax leafQ qlo qhi a ++ treeTriTri leafMin leafMax leafQ qlo qhi b
      else []

/-- `Triangle.Min()` -/
def triMin (t : Tri3 α) : V3 α := (t.1.min t.2.1).min t.2.2
/-- `Triangle.Max()` -/
def triMax (t : Tri3 α) : V3 α := (t.1.max t.2.1).max t.2.2

/-- the mesh collider of triangles, asked for its collisions with the triangle `q`
(`leaf.TriangleCollisions(q)`: the mesh triangle is the receiver) -/
def meshTriTri (sqrtF : α → α) (eps : α) (t : BTree (Tri3 α)) (q : Tri3 α) : List (V3 α × V3 α) :=
  treeTriTri triMin triMax (fun l => (triTri sqrtF eps l q).toList) (triMin q) (triMax q) t

end TriTri



/-! ## `profileCollider.SphereCollision` -/

section ProfBall
variable {α : Type} [Add α] [Sub α] [Mul α] [Div α] [Neg α] [LT α] [LE α] [DecidableLT α] [DecidableLE α]
  [OfNat α 0] [OfNat α 1]

/-- `faceDistance` of `profileCollider.SphereCollision`: how far `c.Z` is outside `[MinVal.Z, MaxVal.Z]` -/
def profFaceDist (minZ maxZ cz : α) : α :=
  if cz < minZ then minZ - cz else if maxZ < cz then cz - maxZ else 0

/-- `profileCollider.SphereCollision(c, r)` (model3d/collisions.go): `circ` = `Collider2D.CircleCollision`,
`solid2` = `Solid2D.Contains`. -/
def profSphere (sqrtF : α → α) (circ : V2 α → α → Bool) (solid2 : V2 α → Bool) (minZ maxZ : α) (c : V3 α) (r : α) :
    Bool :=
  let fd := profFaceDist minZ maxZ c.z
  if r ≤ fd then false
  else
    let largestR := sqrtF (r * r - fd * fd)
    if circ c.xy largestR then true
    else
      let absFaceDist := minS (absS (c.z - minZ)) (absS (c.z - maxZ))
      decide (absFaceDist < r) && solid2 c.xy

/-- the same without the square root: `circSq q Q` = "the outline has a point at squared distance `< Q` from `q`" -/
def profBallSpec (circSq : V2 α → α → Bool) (solid2 : V2 α → Bool) (minZ maxZ : α) (c : V3 α) (r : α) : Bool :=
  let fd := profFaceDist minZ maxZ c.z
  if r ≤ fd then false
  else
    circSq c.xy (r * r - fd * fd) ||
      (decide (minS (absS (c.z - minZ)) (absS (c.z - maxZ)) < r) && solid2 c.xy)

end ProfBall

/-! ## segment queries of the mesh colliders -/

section SegQuery
variable {α : Type} [Add α] [Sub α] [Mul α] [Div α] [Neg α] [LT α] [LE α] [DecidableLT α] [DecidableLE α]
  [OfNat α 0] [OfNat α 1]

/-- the two axes of the 2-D `rayCollisionWithBounds` -/
def axes2 (o d lo hi : V2 α) : List (Ax α) := [⟨o.x, d.x, lo.x, hi.x⟩, ⟨o.y, d.y, lo.y, hi.y⟩]

/-- the bounds test of `joinedMultiCollider.SegmentCollision` (2-D and 3-D):
`minFrac, maxFrac := rayCollisionWithBounds(Ray{s[0], s[1]-s[0]}, j.min, j.max)`;
`maxFrac < minFrac || maxFrac < 0 || minFrac > 1 → false` (`none` = `∓Inf`). -/
def segAdmits (axes : List (Ax α)) : Bool :=
  let r := slabLoop axes none none
  let c1 := match r.1, r.2 with
    | some mn, some mx => decide (mx < mn)
    | _, _ => false
  let c2 := match r.2 with
    | some mx => decide (mx < 0)
    | none => false
  let c3 := match r.1 with
    | some mn => decide (1 < mn)
    | none => false
  !(c1 || c2 || c3)

/-- the bounds test of the 3-D `joinedMultiCollider.RectCollision`: `min.Min(max) != min → false` with
`min := r.MinVal.Max(j.min)`, `max := r.MaxVal.Min(j.max)` -/
def rectOverlap3 (lo hi jlo jhi : V3 α) : Bool :=
  let mn := lo.max jlo
  let mx := hi.min jhi
  let m := mn.min mx
  eqB m.x mn.x && eqB m.y mn.y && eqB m.z mn.z

variable {L : Type}

/-- a Boolean query over a hierarchy: the node's bounds test (a function of the sub-tree), then the children in
order (`joinedMultiCollider.SegmentCollision`, `.RectCollision`) -/
def treeAny (gate : BTree L → Bool) (leafQ : L → Bool) : BTree L → Bool
  | .leaf l => leafQ l
  | .node a b => gate (.node a b) && (treeAny gate leafQ a || treeAny gate leafQ b)

/-- 3-D mesh collider `.SegmentCollision(s0, s1)` -/
def meshSegment3 (sqrtF : α → α) (eps : α) (t : BTree (Tri3 α)) (s0 s1 : V3 α) : Bool :=
  treeAny (fun n => segAdmits (axes3 s0 (s1.sub s0) (btMin3 triMin n) (btMax3 triMax n)))
    (fun l => triSegment sqrtF eps l.1 l.2.1 l.2.2 s0 s1) t

/-- 2-D mesh collider `.SegmentCollision(q)`: the leaf is `seg.SegmentCollision(q)` -/
def meshSegment2 (sqrtF : α → α) (eps : α) (t : BTree (V2 α × V2 α)) (q0 q1 : V2 α) : Bool :=
  treeAny (fun n => segAdmits (axes2 q0 (q1.sub q0) (btMin2 (fun s => s.1.min s.2) n) (btMax2 (fun s => s.1.max s.2) n)))
    (fun l => seg2Segment sqrtF eps l.1 l.2 q0 q1) t

end SegQuery

/-- `GroupedSegmentsToCollider` / `GroupedTrianglesToCollider` on a non-empty slice: split at `len/2`.
(`fuel ≥ length` suffices.) -/
def groupedTree {L : Type} : Nat → List L → Option (BTree L)
  | 0, _ => none
  | _ + 1, [] => none
  | _ + 1, [x] => some (.leaf x)
  | fuel + 1, xs =>
      let mid := xs.length / 2
      match groupedTree fuel (xs.take mid), groupedTree fuel (xs.drop mid) with
      | some a, some b => some (.node a b)
      | _, _ => none

end M3d.Col
