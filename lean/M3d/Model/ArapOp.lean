/-!
# The constraint bookkeeping of `ARAP` (`arapOperator`, `SeqDeformer`) (C10)

Core Lean only, self-contained.  `deformation.go` eliminates the constrained vertices from the
Laplacian system: `newARAPOperator` builds the index maps `squeezedToFull` / `fullToSqueezed`
(`-1` at constrained vertices), `Squeeze` drops the constrained entries, `Unsqueeze` puts the
solved free entries back and fills in `constraints[i]` at the constrained ones.  `SeqDeformer`
keeps one operator across calls and `Update`s it: the index maps (and the Cholesky factor, which
depends only on them) are REUSED when the new constraint set has the same keys.

Everything numerical (Laplacian solve, rotations, iteration count, initial guess) is the oracle
parameter `solve`; a Go `map[int]Coord3D` is an association list with distinct keys.
-/
namespace M3d.ArapOp

variable {P : Type}

/-- `_, ok := constraints[i]`. -/
def hasKey (cons : List (Nat × P)) (i : Nat) : Bool := cons.any (fun kv => kv.1 == i)

/-- `constraints[i]` (`none` = the zero value Go returns for a missing key). -/
def lookup (cons : List (Nat × P)) (i : Nat) : Option P := (cons.find? (fun kv => kv.1 == i)).map (·.2)

/-- The loop of `newARAPOperator` over the vertex indices `is`, with the two slices built so far:
a constrained vertex gets `-1` (`none`), a free one its position in `squeezedToFull`. -/
def build (cst : Nat → Bool) : List Nat → List Nat → List (Option Nat) → List Nat × List (Option Nat)
  | [], s2f, f2s => (s2f, f2s)
  | i :: is, s2f, f2s =>
    if cst i then build cst is s2f (f2s ++ [none])
    else build cst is (s2f ++ [i]) (f2s ++ [some s2f.length])

/-- `arapOperator` without the numerical parts: `n = len(arap.coords)`. -/
structure Op (P : Type) where
  n : Nat
  cons : List (Nat × P)
  s2f : List Nat
  f2s : List (Option Nat)

/-- `newARAPOperator(a, constraints)`. -/
def newOp (n : Nat) (cons : List (Nat × P)) : Op P :=
  let r := build (hasKey cons) (List.range n) [] []
  { n := n, cons := cons, s2f := r.1, f2s := r.2 }

/-- `arapOperator.Update`: a new operator when the number of constraints differs or some NEW key
is not an old key; otherwise only the constraint values are replaced (index maps and
factorisation kept). -/
def update (op : Op P) (cons : List (Nat × P)) : Op P :=
  if cons.length ≠ op.cons.length then newOp op.n cons
  else if cons.any (fun kv => !hasKey op.cons kv.1) then newOp op.n cons
  else { op with cons := cons }

/-- `Update` with `for k := range a.constraints` instead of `for k := range constraints` (seeded
change C10-6): the membership test is a tautology, only the NUMBER of constraints is compared.
Only used to show that `arap_seq_deformer_meets_constraints` separates it from the code as it is. -/
def updateStale (op : Op P) (cons : List (Nat × P)) : Op P :=
  if cons.length ≠ op.cons.length then newOp op.n cons
  else if op.cons.any (fun kv => !hasKey op.cons kv.1) then newOp op.n cons
  else { op with cons := cons }

/-- `Squeeze(full)`. -/
def squeeze (op : Op P) (z : P) (full : List P) : List P := op.s2f.map (full.getD · z)

/-- `Unsqueeze(squeezed)`: `res[i] = squeezed[s]` if `s = fullToSqueezed[i] ≠ -1`, else
`constraints[i]` (`z` = Go's zero value for a missing key / an index out of the model's range). -/
def unsqueezeAt (op : Op P) (z : P) (sq : List P) (i : Nat) : P :=
  match op.f2s.getD i none with
  | some s => sq.getD s z
  | none => (lookup op.cons i).getD z

def unsqueeze (op : Op P) (z : P) (sq : List P) : List P :=
  (List.range op.f2s.length).map (unsqueezeAt op z sq)

/-- One call of the function returned by `SeqDeformer`: the operator is created on the first
call and `Update`d afterwards; the result of `deformMap` is, on every path, `Unsqueeze` of some
squeezed vector (`LinSolve` ends in `Unsqueeze`; with zero iterations it is
`Unsqueeze(Squeeze(initialGuess))`) — `solve` stands for all the numerics, it may depend on the
operator and on the previous result (`coldStart = false`). -/
def seqOp (upd : Op P → List (Nat × P) → Op P) (n : Nat) (prev : Option (Op P)) (cons : List (Nat × P)) : Op P :=
  match prev with
  | none => newOp n cons
  | some op => upd op cons

def seqCall (upd : Op P → List (Nat × P) → Op P) (n : Nat) (z : P) (solve : Op P → List P → List P)
    (st : Option (Op P) × List P) (cons : List (Nat × P)) : Option (Op P) × List P :=
  (some (seqOp upd n st.1 cons), unsqueeze (seqOp upd n st.1 cons) z (solve (seqOp upd n st.1 cons) st.2))

/-- All frames of a sequential deformer: the list of `(constraints, deformed coordinates)`. -/
def seqFrames (upd : Op P → List (Nat × P) → Op P) (n : Nat) (z : P) (solve : Op P → List P → List P) :
    Option (Op P) × List P → List (List (Nat × P)) → List (List (Nat × P) × List P)
  | _, [] => []
  | st, cons :: rest =>
    let st' := seqCall upd n z solve st cons
    (cons, st'.2) :: seqFrames upd n z solve st' rest

end M3d.ArapOp
