/-!
# Byte-level building blocks shared by the codec models (C15, C16)

Core-only, total, executable.  Bytes are `List UInt8`; a multi-byte integer is the `Nat` value of its
bit pattern (so `int32(-1)` is `4294967295`, a float is its IEEE bit pattern) together with the width
it is written at.  `encoding/binary`'s `LittleEndian/BigEndian.PutUintNN / UintNN` are `leBytes/unle`
and `beBytes/unbe` at widths 2, 4, 8.
-/
namespace M3d.Codec

abbrev Bytes := List UInt8

/-- `k` little-endian bytes of `n` (`binary.LittleEndian.PutUint{16,32,64}` for k = 2,4,8). -/
def leBytes : Nat → Nat → Bytes
  | 0, _ => []
  | k+1, n => UInt8.ofNat (n % 256) :: leBytes k (n / 256)

/-- `binary.LittleEndian.Uint{16,32,64}`: value of a little-endian byte string. -/
def unle : Bytes → Nat
  | [] => 0
  | b :: bs => b.toNat + 256 * unle bs

/-- `binary.BigEndian.PutUintNN`. -/
def beBytes (k n : Nat) : Bytes := (leBytes k n).reverse

/-- `binary.BigEndian.UintNN`. -/
def unbe (bs : Bytes) : Nat := unle bs.reverse

/-- byte order of a binary file -/
inductive Endian | little | big
  deriving DecidableEq, Repr

def putUint (e : Endian) (k n : Nat) : Bytes :=
  match e with
  | .little => leBytes k n
  | .big => beBytes k n

def getUint (e : Endian) (bs : Bytes) : Nat :=
  match e with
  | .little => unle bs
  | .big => unbe bs

/-- Typed views used by the STL model. -/
def le32 (x : UInt32) : Bytes := leBytes 4 x.toNat
def unle32 (bs : Bytes) : UInt32 := UInt32.ofNat (unle bs)
def be32 (x : UInt32) : Bytes := beBytes 4 x.toNat
def unbe32 (bs : Bytes) : UInt32 := UInt32.ofNat (unbe bs)
def le16 (x : UInt16) : Bytes := leBytes 2 x.toNat
def unle16 (bs : Bytes) : UInt16 := UInt16.ofNat (unle bs)
def be16 (x : UInt16) : Bytes := beBytes 2 x.toNat
def unbe16 (bs : Bytes) : UInt16 := UInt16.ofNat (unbe bs)
def le64 (x : UInt64) : Bytes := leBytes 8 x.toNat
def unle64 (bs : Bytes) : UInt64 := UInt64.ofNat (unle bs)
def be64 (x : UInt64) : Bytes := beBytes 8 x.toNat
def unbe64 (bs : Bytes) : UInt64 := UInt64.ofNat (unbe bs)

/-- Split a byte string into consecutive little-endian 32-bit words (a trailing partial word is dropped). -/
def words32 : Bytes → List UInt32
  | a :: b :: c :: d :: rest => unle32 [a, b, c, d] :: words32 rest
  | _ => []

/-- Bytes of an ASCII string literal (all literals used by the models are 7-bit). -/
def ascii (s : String) : Bytes := s.toList.map fun c => UInt8.ofNat c.toNat

/-! ## Text: lines, white space, fields (`bufio.Reader.ReadString('\n')`, `strings.Fields`, `strings.TrimSpace`) -/

def NL : UInt8 := 10
def SP : UInt8 := 32

/-- `bufio.Reader.ReadString('\n')` on the remaining input: the line **including** the newline, the
rest, and whether a newline was found (`false` = the reader returned `io.EOF` with the partial data). -/
def readLine : Bytes → Bytes × Bytes × Bool
  | [] => ([], [], false)
  | b :: bs =>
    if b = NL then ([b], bs, true)
    else
      let (l, r, f) := readLine bs
      (b :: l, r, f)

/-- `ReadString` splits its input: line ++ rest = input. -/
theorem readLine_append (bs : Bytes) : (readLine bs).1 ++ (readLine bs).2.1 = bs := by
  induction bs with
  | nil => rfl
  | cons b bs ih =>
    unfold readLine
    by_cases hb : b = NL
    · simp [hb]
    · simp only [hb, if_false]
      simpa using ih

/-- `ReadString` that found a newline consumed at least that byte: **progress** of every line loop. -/
theorem readLine_rest_lt (bs line rest : Bytes) (f : Bool) (h : readLine bs = (line, rest, f))
    (hne : bs ≠ []) : rest.length < bs.length := by
  have h1 := readLine_append bs
  rw [h] at h1
  simp only at h1
  have h2 : line ≠ [] := by
    cases bs with
    | nil => exact absurd rfl hne
    | cons b bs =>
      unfold readLine at h
      by_cases hb : b = NL
      · simp [hb] at h; simp [← h.1]
      · simp only [hb, if_false] at h
        have := congrArg Prod.fst h
        simp at this
        simp [← this]
  have : line.length + rest.length = bs.length := by rw [← h1]; simp
  have : 0 < line.length := List.length_pos_iff.mpr h2
  omega

/-- `ReadString` on empty input finds nothing. -/
theorem readLine_found_ne_nil (bs line rest : Bytes) (h : readLine bs = (line, rest, true)) : bs ≠ [] := by
  intro hb; subst hb; simp [readLine] at h

/-- ASCII white space as `unicode.IsSpace` sees it below U+0080. -/
def isAsciiSpace (b : UInt8) : Bool :=
  b = 32 || b = 9 || b = 10 || b = 11 || b = 12 || b = 13

/-- Width in bytes of a *Unicode white-space rune* at the head of the input, 0 if the head is not one.
Go's `strings.Fields/TrimSpace` decode UTF-8; the white-space runes are the six ASCII ones,
U+0085, U+00A0, U+1680, U+2000–U+200A, U+2028, U+2029, U+202F, U+205F, U+3000.  A lead byte
(≥ 0xC0) can never be consumed as a continuation byte of an earlier rune, so matching the encoded
sequences position by position is exact. -/
def spaceWidth : Bytes → Nat
  | [] => 0
  | b :: rest =>
    if isAsciiSpace b then 1
    else if b = 0xC2 then
      match rest with
      | c :: _ => if c = 0x85 || c = 0xA0 then 2 else 0
      | _ => 0
    else if b = 0xE1 then
      match rest with
      | c :: d :: _ => if c = 0x9A && d = 0x80 then 3 else 0
      | _ => 0
    else if b = 0xE2 then
      match rest with
      | c :: d :: _ =>
        if c = 0x80 && ((0x80 ≤ d && d ≤ 0x8A) || d = 0xA8 || d = 0xA9 || d = 0xAF) then 3
        else if c = 0x81 && d = 0x9F then 3 else 0
      | _ => 0
    else if b = 0xE3 then
      match rest with
      | c :: d :: _ => if c = 0x80 && d = 0x80 then 3 else 0
      | _ => 0
    else 0

/-- `strings.Fields`: maximal runs of non-white-space, with fuel = length (each step consumes ≥ 1 byte). -/
def fieldsAux : Nat → Bytes → Bytes → List Bytes
  | 0, _, cur => if cur.isEmpty then [] else [cur.reverse]
  | _+1, [], cur => if cur.isEmpty then [] else [cur.reverse]
  | fuel+1, b :: bs, cur =>
    let w := spaceWidth (b :: bs)
    if w = 0 then fieldsAux fuel bs (b :: cur)
    else
      let rest := fieldsAux fuel ((b :: bs).drop w) []
      if cur.isEmpty then rest else cur.reverse :: rest

def fields (bs : Bytes) : List Bytes := fieldsAux bs.length bs []

/-- Drop leading white space (left half of `strings.TrimSpace`). -/
def trimLeftAux : Nat → Bytes → Bytes
  | 0, bs => bs
  | fuel+1, bs =>
    let w := spaceWidth bs
    if w = 0 then bs else trimLeftAux fuel (bs.drop w)

/-- Does the input consist of white space only? (`strings.TrimSpace(s) == ""`) -/
def allSpace (bs : Bytes) : Bool := (trimLeftAux bs.length bs).isEmpty

/-! ## Decimal integers (`strconv.FormatInt/FormatUint/Itoa`, `ParseInt/ParseUint(s, 10, bits)`, `Atoi`) -/

def digitByte (d : Nat) : UInt8 := UInt8.ofNat (48 + d)

def natDigitsAux : Nat → Nat → Bytes → Bytes
  | 0, _, acc => acc
  | fuel+1, n, acc =>
    if n < 10 then digitByte n :: acc else natDigitsAux fuel (n / 10) (digitByte (n % 10) :: acc)

/-- `strconv.FormatUint(n, 10)` -/
def fmtNat (n : Nat) : Bytes := natDigitsAux (n + 1) n []

/-- `strconv.FormatInt(i, 10)` -/
def fmtInt (i : Int) : Bytes :=
  if i < 0 then 45 :: fmtNat i.natAbs else fmtNat i.natAbs

/-- digits only, non-empty → value -/
def parseDigits : Bytes → Option Nat
  | [] => none
  | bs => bs.foldl (fun acc b => acc.bind fun a =>
      if 48 ≤ b ∧ b ≤ 57 then some (a * 10 + (b.toNat - 48)) else none) (some 0)

/-- `strconv.ParseUint(s, 10, bits)`: no sign allowed, digits only, range `[0, 2^bits)`. -/
def parseUintN (bits : Nat) (s : Bytes) : Option Nat :=
  match parseDigits s with
  | some n => if n < 2 ^ bits then some n else none
  | none => none

/-- `strconv.ParseInt(s, 10, bits)` / `strconv.Atoi` (bits = 64): optional `+`/`-`, digits only,
range `[-2^(bits-1), 2^(bits-1))`. -/
def parseIntN (bits : Nat) (s : Bytes) : Option Int :=
  match s with
  | [] => none
  | c :: rest =>
    let (neg, ds) := if c = 45 then (true, rest) else if c = 43 then (false, rest) else (false, s)
    match parseDigits ds with
    | none => none
    | some n =>
      if neg then (if n ≤ 2 ^ (bits - 1) then some (-(n : Int)) else none)
      else (if n < 2 ^ (bits - 1) then some (n : Int) else none)

/-- Two's-complement bit pattern of a signed value at `8*size` bits. -/
def toBitsSigned (size : Nat) (i : Int) : Nat := (i % (256 ^ size : Nat)).toNat

/-- Signed reading of a bit pattern at `8*size` bits. -/
def ofBitsSigned (size : Nat) (n : Nat) : Int :=
  if n < 256 ^ size / 2 then (n : Int) else (n : Int) - (256 ^ size : Nat)

/-! ## Hex transport (driver side) -/

def hexNib (n : Nat) : Char :=
  if n < 10 then Char.ofNat (48 + n) else Char.ofNat (87 + n)

def hexOfBytes (bs : Bytes) : String :=
  String.ofList (bs.flatMap fun b => [hexNib (b.toNat / 16), hexNib (b.toNat % 16)])

def nibOf (c : Char) : Option Nat :=
  if '0' ≤ c ∧ c ≤ '9' then some (c.toNat - 48)
  else if 'a' ≤ c ∧ c ≤ 'f' then some (c.toNat - 87) else none

def bytesOfHexAux : List Char → Bytes → Option Bytes
  | [], acc => some acc.reverse
  | a :: b :: rest, acc => do
    let x ← nibOf a
    let y ← nibOf b
    bytesOfHexAux rest (UInt8.ofNat (x * 16 + y) :: acc)
  | _, _ => none

/-- `-` denotes the empty byte string. -/
def bytesOfHex (s : String) : Option Bytes :=
  if s = "-" then some [] else bytesOfHexAux s.toList []

def showHex (bs : Bytes) : String := if bs.isEmpty then "-" else hexOfBytes bs

end M3d.Codec
