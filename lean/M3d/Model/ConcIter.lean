import M3d.Model.ConcQuery
/-!
# Enumerating a shared mesh, and calls on one shared renderer (C13; core Lean only)

Two more instances of the mechanism "read-only use stages everything in state of the call":

* `Mesh.Iterate` / `Mesh.IterateSorted(f, cmp)` (model3d, model2d): the reader takes a list of
  the faces that belongs to the call (`m.TriangleSlice()` / `m.SegmentSlice()` allocate a fresh
  slice), sorts *that* list with the caller's comparison function, and hands the faces to the
  caller's callback one after the other.  The callback is user code: the reader can stay in it
  for any time while other goroutines enumerate the same mesh with other comparison functions.
  A face list is abstracted to one cell (as a worker's buffer is in `collectProgN`): `s` is the
  face set, `srt s` the list in the reader's order, `nth l j` its `j`-th face, `snoc lg x` the
  callback's record `lg` extended by the face `x` — all four are parameters of the theorems.
  `iterLocalProg` is the library's shape (private list), `iterSharedProg` the shape in which the
  list is cached in the mesh and sorted in place.

* the entry points of a renderer (`RecursiveRayTracer` / `BidirPathTracer`: `Render`,
  `RenderVariance`, `RayVariance`): each call snapshots the renderer's fields into a
  `rayRenderer` of its own (`r.rayRenderer()`), `RayVariance` switches antialiasing off in a
  further private copy (`r1 := *r; r1.Antialias = 0`), and the pixel workers read the call's
  copy while they cast rays into the user's scene.  That is the staged query `queryThread` with
  `f = effCfg` (`renderCallProg`).  `rendererFieldProg` is the shape in which `RayVariance`
  zeroes the renderer's own field for the duration of the call and restores it afterwards.
-/
namespace M3d.Conc

/-! ## `Mesh.Iterate` / `Mesh.IterateSorted` -/

/-- The face set of the mesh (shared; not written by read-only use). -/
def FACES : Loc := STRUCT
/-- The list of faces that belongs to the enumeration run by goroutine `t`. -/
def ILIST (t : Tid) : Loc := 1 + 2 * t
/-- What the callback of goroutine `t` has been given so far. -/
def ILOG (t : Tid) : Loc := 2 + 2 * t

/-- `for _, face := range all { f(face) }`: for every position `j` read the list, give its
`j`-th face to the callback (which records it), run the rest of the callback (user code). -/
def iterVisits (nth : Val → Nat → Val) (snoc : Val → Val → Val) (list log : Loc) : List Nat → List Step
  | [] => []
  | j :: js =>
      .read list :: .rmw log (fun lg l => snoc lg (nth l j)) :: .tau :: iterVisits nth snoc list log js

/-- `IterateSorted(f, cmp)` as the library has it: `all := m.TriangleSlice()` (a fresh slice),
`sort.Slice(all, cmp)` (`srt`; the identity for `Iterate`), then the visits of `all`. -/
def iterThread (srt : Val → Val) (nth : Val → Nat → Val) (snoc : Val → Val → Val) (n : Nat)
    (list log : Loc) : List Step :=
  .read FACES :: .writeF list srt :: iterVisits nth snoc list log (List.range n)

/-- Any number of readers of one mesh with `n` faces; reader `t` sorts with `srt t`. -/
def iterLocalProg (srt : Tid → Val → Val) (nth : Val → Nat → Val) (snoc : Val → Val → Val) (n : Nat) : Program :=
  fun t => iterThread (srt t) nth snoc n (ILIST t) (ILOG t)

def iterOwn : Tid → Loc → Bool := fun t l => l == ILIST t || l == ILOG t
def iterShared : Loc → Bool := fun l => l == FACES

/-- The list is cached in the mesh (here: the cell `FACES` itself) and shared by all readers; a
reader with a comparison function sorts it in place (`some srt`), one without (`none`) only
ranges over it. -/
def iterSharedThread (srt : Option (Val → Val)) (nth : Val → Nat → Val) (snoc : Val → Val → Val) (n : Nat)
    (log : Loc) : List Step :=
  (match srt with
   | none => []
   | some g => [.read FACES, .writeF FACES g]) ++ iterVisits nth snoc FACES log (List.range n)

def iterSharedProg (srt : Tid → Option (Val → Val)) (nth : Val → Nat → Val) (snoc : Val → Val → Val) (n : Nat) : Program :=
  fun t => iterSharedThread (srt t) nth snoc n (ILOG t)

/-- Pure interpretation of one plain step of a thread that runs alone: (memory, `out`). -/
def interp1 (st : Step) (s : (Loc → Val) × Val) : (Loc → Val) × Val :=
  match st with
  | .read l => (s.1, s.1 l)
  | .write l v => (upd s.1 l v, s.2)
  | .writeF l g => (upd s.1 l (g s.2), s.2)
  | .rmw l g => (upd s.1 l (g (s.1 l) s.2), s.2)
  | _ => s

def interp (ss : List Step) (s : (Loc → Val) × Val) : (Loc → Val) × Val := ss.foldl (fun s st => interp1 st s) s

/-- The straight-line plain steps (what `stepRO` admits, without the ownership condition). -/
def isPlain : Step → Bool
  | .tau => true
  | .setReg _ => true
  | .read _ => true
  | .write _ _ => true
  | .writeF _ _ => true
  | .rmw _ _ => true
  | _ => false

/-! Concrete three-face instance for the witnesses: a list of three faces with ids 1 … 9 is the
decimal number with these digits. -/
def nth3 (l : Val) (j : Nat) : Val := (l / 10 ^ (2 - j)) % 10
def snoc10 (lg x : Val) : Val := lg * 10 + x
def rev3 (l : Val) : Val := (l % 10) * 100 + (l / 10 % 10) * 10 + l / 100

/-! ## One renderer, several calls -/

/-- The renderer's `Antialias` field (shared; not written by read-only use). -/
def CFG : Loc := STRUCT

/-- The antialiasing a call samples with: kind `0` = `Render` / `RenderVariance` (the renderer's
value), any other kind = `RayVariance` ("Antialiasing is not used"). -/
def effCfg (cfg kind : Val) : Val := if kind = 0 then cfg else 0

/-- Calls as the library has them: the call's `rayRenderer` (and `RayVariance`'s `r1`) is the
staging area, the pixel workers read it after the callbacks into the user's scene began. -/
def renderCallProg (kinds : Tid → Val) : Program := queryLocalProg effCfg kinds

/-- `RayVariance` that zeroes the renderer's own field for the duration of the call:
save, zero, render (callbacks into the user's scene), restore the saved value. -/
def rayVarianceFieldThread : List Step :=
  [ .read CFG,          -- 0  saved := r.Antialias        (argument of the deferred restore)
    .write CFG 0,       -- 1  r.Antialias = 0
    .tau,               -- 2  r.rayRenderer().RayVariance(…): the workers cast into the user's scene
    .writeF CFG id ]    -- 3  deferred: r.Antialias = saved

/-- Goroutines with kind `0` call `Render` (snapshot of the field into the call's `rayRenderer`,
as in the library), the others the field-zeroing `RayVariance`. -/
def rendererFieldProg (kinds : Tid → Val) : Program :=
  fun t => if kinds t = 0 then queryThread (PRIV + t) effCfg 0 else rayVarianceFieldThread

/-! ## Progress reports of `rayRenderer.Render` (`LogFunc`) -/

/-- The progress channel and the counter `pixelsComplete` (a local of the goroutine that called
`Render`). -/
def PCH : Nat := 0
def CNT : Loc := 0

/-- The caller of `Render`: `for n := range progressCh { pixelsComplete++; …; r.LogFunc(…) }`,
one receive and one update-and-report per pixel. -/
def progressConsumer : Nat → List Step
  | 0 => []
  | k + 1 => .recv PCH :: .rmw CNT (fun c _ => c + 1) :: progressConsumer k

/-- `n` pixel tasks (threads `0 … n-1`: color the pixel, send the number of samples over the
channel) and the caller of `Render` (thread `n`). -/
def progressProg (n : Nat) : Program :=
  fun t => if t < n then [.tau, .send PCH 1] else if t = n then progressConsumer n else []

/-- The counters updated by the pixel workers themselves (no channel): read-modify-write of the
shared counter by every worker. -/
def progressRacyProg (n : Nat) : Program :=
  fun t => if t < n then [.tau, .read CNT, .writeF CNT (· + 1)] else []

end M3d.Conc
