import M3d.Model.Partition
/-!
# Geometry of `Rasterizer.RasterizeSolidFilter` tiles and of `RasterizeCollider`'s filter (core-only)

`model2d/rasterize.go`:

* the image is `outWidth × outHeight` pixels over `[min, max]`, `pixelWidth = (max.X-min.X)/outWidth`;
  pixel `(x, y)` is the rectangle `corner x y … corner (x+1) (y+1)` with
  `corner x y = XY(float64(x)*pixelWidth+min.X, float64(y)*pixelHeight+min.Y)`;
* `rasterizePixel` samples `min + division·(sx, sy)`, `0 ≤ sx, sy < subsamples`,
  `division = (max-min)·(1/(subsamples+1))` (`samplePt`, `samples`);
* a tile `t` (`M3d.Partition.Tile`) is handed to the filter as the `Rect` `corner t.x t.y … corner
  t.nextX t.nextY` (`tileLo`, `tileHi`); a skipped tile is filled with the colour of
  `bounds.MinVal.Mid(bounds.MaxVal)` (`tileMid`);
* `RasterizeCollider` renders `NewColliderSolidHollow(c, e)` — `Contains p = InBounds p &&
  c.CircleCollision(p, e)` (`hollowContains`) — and keeps a tile iff
  `c.CircleCollision(center, MinVal.Dist(center) + margin)` (`colliderKeep`).

The collider enters as its circle test `hits : P2 α → α → Bool`; the scalar is generic (theorems:
every linear ordered field; `math.Sqrt` inside `Coord.Dist` is the parameter `sq`).
-/
namespace M3d.RastCollider
open M3d.Partition

structure P2 (α : Type) where
  x : α
  y : α

section
variable {α : Type} [Add α] [Sub α] [Mul α] [Div α] [NatCast α] [OfNat α 1] [OfNat α 2]

/-- squared Euclidean distance (`Coord.Dist` is its square root) -/
def sqDist (p q : P2 α) : α := (p.x - q.x) * (p.x - q.x) + (p.y - q.y) * (p.y - q.y)

/-- `Coord.Mid` -/
def mid (a b : P2 α) : P2 α := ⟨(a.x + b.x) / 2, (a.y + b.y) / 2⟩

/-- `XY(float64(x)*pixelWidth+min.X, float64(y)*pixelHeight+min.Y)` -/
def corner (mn : P2 α) (pw ph : α) (x y : Nat) : P2 α := ⟨(x : α) * pw + mn.x, (y : α) * ph + mn.y⟩

def tileLo (mn : P2 α) (pw ph : α) (t : Tile) : P2 α := corner mn pw ph t.x t.y
def tileHi (mn : P2 α) (pw ph : α) (t : Tile) : P2 α := corner mn pw ph t.nextX t.nextY
def tileMid (mn : P2 α) (pw ph : α) (t : Tile) : P2 α := mid (tileLo mn pw ph t) (tileHi mn pw ph t)

/-- sub-sample `(sx, sy)` of pixel `p` in `rasterizePixel` -/
def samplePt (mn : P2 α) (pw ph : α) (ss : Nat) (p : Nat × Nat) (sx sy : Nat) : P2 α :=
  let lo := corner mn pw ph p.1 p.2
  let hi := corner mn pw ph (p.1 + 1) (p.2 + 1)
  ⟨lo.x + (hi.x - lo.x) * (1 / ((ss + 1 : Nat) : α)) * (sx : α),
   lo.y + (hi.y - lo.y) * (1 / ((ss + 1 : Nat) : α)) * (sy : α)⟩

/-- all sub-samples of a pixel, in the loop order of `rasterizePixel` -/
def samples (mn : P2 α) (pw ph : α) (ss : Nat) (p : Nat × Nat) : List (P2 α) :=
  (List.range ss).flatMap fun sx => (List.range ss).map fun sy => samplePt mn pw ph ss p sx sy

/-- `ColliderSolid.Contains` of `NewColliderSolidHollow(c, e)`: in bounds and within `e` of the
collider. -/
def hollowContains (inBounds : P2 α → Bool) (hits : P2 α → α → Bool) (e : α) (p : P2 α) : Bool :=
  inBounds p && hits p e

/-- the filter closure of `RasterizeCollider` for the tile `t`: `center := MinVal.Mid(MaxVal)`,
`radius := MinVal.Dist(center) + margin`, `c.CircleCollision(center, radius)`. -/
def colliderKeep (sq : α → α) (hits : P2 α → α → Bool) (margin : α) (mn : P2 α) (pw ph : α) (t : Tile) : Bool :=
  hits (tileMid mn pw ph t) (sq (sqDist (tileLo mn pw ph t) (tileMid mn pw ph t)) + margin)

end

end M3d.RastCollider
