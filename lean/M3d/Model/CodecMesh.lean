import M3d.Model.CodecPly
/-!
# Mesh-level codecs: vertex de-duplication, `WritePLY` / `readColorPLY`, OFF, segment CSV, OBJ/3MF index construction

(model3d/export.go, model3d/import.go, model2d/export.go, model2d/import.go, fileformats/off.go,
fileformats/segment_csv.go).  A coordinate is the triple of its float64 bit patterns; Go's `==`
on coordinates is equality of `key p` (−0 normalised to +0; NaN is excluded by assumption).
-/
namespace M3d.Codec

/-! ## Vertex de-duplication (`CoordMap`/`CoordToNumber` keyed by the coordinate) -/

/-- one `if _, ok := coordToIdx.Load(p); !ok { Store(p, len(coords)); coords = append(coords, p) }` -/
def dedupStep {α κ} [DecidableEq κ] (key : α → κ) (st : List α) (p : α) : List α :=
  if st.any (fun q => key q = key p) then st else st ++ [p]

/-- the `coords` slice after all corners have been visited in order -/
def dedupCoords {α κ} [DecidableEq κ] (key : α → κ) (ps : List α) : List α :=
  ps.foldl (dedupStep key) []

/-- `coordToIdx.Value(p)` (0 for a missing key, like Go's zero value) -/
def indexOfKey {α κ} [DecidableEq κ] (key : α → κ) (coords : List α) (p : α) : Nat :=
  match coords.findIdx? (fun q => key q = key p) with
  | some i => i
  | none => 0

abbrev C3 := UInt64 × UInt64 × UInt64

def negZero64 : UInt64 := 0x8000000000000000

/-- Go `==` on float64 for non-NaN values: −0 and +0 are the same key. -/
def normZero (x : UInt64) : UInt64 := if x = negZero64 then 0 else x

def key3 (p : C3) : C3 := (normZero p.1, normZero p.2.1, normZero p.2.2)

abbrev Tri3 := C3 × C3 × C3

def Tri3.corners (t : Tri3) : List C3 := [t.1, t.2.1, t.2.2]

/-! ## `WritePLY` -/

def vertexElement (n : Int) : Element :=
  ⟨ascii "vertex", n,
    [⟨none, ⟨.f32, false⟩, ascii "x"⟩, ⟨none, ⟨.f32, false⟩, ascii "y"⟩, ⟨none, ⟨.f32, false⟩, ascii "z"⟩,
     ⟨none, ⟨.u8, false⟩, ascii "red"⟩, ⟨none, ⟨.u8, false⟩, ascii "green"⟩, ⟨none, ⟨.u8, false⟩, ascii "blue"⟩]⟩

def faceElement (n : Int) : Element :=
  ⟨ascii "face", n, [⟨some ⟨.u8, false⟩, ⟨.i32, false⟩, ascii "vertex_index"⟩]⟩

def meshHeader (nv nf : Nat) : Header := ⟨.text, [vertexElement nv, faceElement nf]⟩

abbrev RGB := Nat × Nat × Nat

/-- `PLYMeshWriter.WriteCoord` -/
def coordRow (round32 : UInt64 → UInt32) (p : C3) (c : RGB) : List PVal :=
  [.one ⟨.f32, (round32 p.1).toNat⟩, .one ⟨.f32, (round32 p.2.1).toNat⟩, .one ⟨.f32, (round32 p.2.2).toNat⟩,
   .one ⟨.u8, c.1⟩, .one ⟨.u8, c.2.1⟩, .one ⟨.u8, c.2.2⟩]

/-- `PLYMeshWriter.WriteTriangle` (`int32(idx)` keeps the low 32 bits) -/
def faceRow (idx : List Nat) : List PVal :=
  [.list ⟨.u8, 3⟩ (idx.map fun i => ⟨.i32, i % 2 ^ 32⟩)]

/-- de-duplicated vertex table and per-triangle index triples of `WritePLY` -/
def meshIndex (ts : List Tri3) : List C3 × List (List Nat) :=
  let coords := dedupCoords key3 (ts.flatMap Tri3.corners)
  (coords, ts.map fun t => t.corners.map (indexOfKey key3 coords))

/-- `model3d.WritePLY` / `EncodePLY`: the rows handed to the PLY writer. -/
def meshRows (round32 : UInt64 → UInt32) (color : C3 → RGB) (ts : List Tri3) : Header × List (List PVal) :=
  let (coords, faces) := meshIndex ts
  (meshHeader coords.length ts.length,
   coords.map (fun p => coordRow round32 p (color p)) ++ faces.map faceRow)

def encodePLY (ft : FloatText) (round32 : UInt64 → UInt32) (color : C3 → RGB) (ts : List Tri3) : Option (Bytes × Bool) :=
  let (h, rows) := meshRows round32 color ts
  plyWrite ft h rows

/-! ## `readColorPLY` (repaired) -/

def propIsFloat (p : PProp) : Bool := p.lenType.isNone && p.elemType.kind = .f32
def propIsUchar (p : PProp) : Bool := p.lenType.isNone && p.elemType.kind = .u8

/-- `PLYElement.IsStandardVertex` (repaired: `||`) -/
def isStandardVertex (el : Element) : Bool :=
  el.name = ascii "vertex" && el.props.length = 6 &&
  el.props.all fun p =>
    if p.name = ascii "x" || p.name = ascii "y" || p.name = ascii "z" then propIsFloat p
    else if p.name = ascii "red" || p.name = ascii "green" || p.name = ascii "blue" then propIsUchar p
    else false

/-- `PLYElement.IsStandardFace` (repaired: `||`, and the length type is the one the importer asserts) -/
def isStandardFace (el : Element) : Bool :=
  el.name = ascii "face" &&
  match el.props with
  | [p] => p.name = ascii "vertex_index" &&
      (match p.lenType with | some lt => lt.kind = .u8 | none => false) && p.elemType.kind = .i32
  | _ => false

/-- header validation of `readColorPLY`; elements are checked in order, the first offender fails. -/
def colorHeaderOK (h : Header) : Bool :=
  h.elements.all (fun el => !el.props.isEmpty) &&   -- repaired: rows without properties occupy no bytes
  h.elements.all (fun el =>
    if el.name = ascii "vertex" then isStandardVertex el
    else if el.name = ascii "face" then isStandardFace el else true) &&
  h.elements.any (fun el => el.name = ascii "face") &&
  h.elements.any (fun el => el.name = ascii "vertex")

/-- value of the last property called `n` in a vertex row (later same-named properties overwrite) -/
def lastNamed (props : List PProp) (vals : List PVal) (n : Bytes) : Nat :=
  (props.zip vals).foldl (fun acc (p, v) =>
    if p.name = n then (match v with | .one s => s.bits | .list _ _ => acc) else acc) 0

structure ColorMesh where
  tris : List (List Int)        -- index triples as read (signed)
  verts : List (UInt32 × UInt32 × UInt32)
  colors : List RGB             -- aligned with verts
  deriving Repr

/-- the row loop of `readColorPLY`: faces must be triangles; rows of elements other than
`vertex`/`face` are skipped (repaired). `none` = "expected triangles" error. -/
def collectRows (els : List Element) : List (Nat × List PVal) → ColorMesh → Option ColorMesh
  | [], m => some m
  | (i, vals) :: rows, m =>
    match els[i]? with
    | none => none
    | some el =>
      if el.name = ascii "face" then
        match vals with
        | [.list l xs] =>
          if l.bits ≠ 3 then none
          else collectRows els rows { m with tris := m.tris ++ [xs.map fun s => ofBitsSigned 4 s.bits] }
        | _ => none
      else if el.name = ascii "vertex" then
        let g := lastNamed el.props vals
        collectRows els rows { m with
          verts := m.verts ++ [(UInt32.ofNat (g (ascii "x")), UInt32.ofNat (g (ascii "y")), UInt32.ofNat (g (ascii "z")))],
          colors := m.colors ++ [(g (ascii "red"), g (ascii "green"), g (ascii "blue"))] }
      else collectRows els rows m

/-- the final index check of `readColorPLY` (repaired: also `v < 0`) -/
def indicesOK (nverts : Nat) (tris : List (List Int)) : Bool :=
  tris.all fun t => t.all fun v => decide (0 ≤ v) && decide (v < (nverts : Int))

structure ColorResult where
  tris : List (List (UInt32 × UInt32 × UInt32))
  verts : List (UInt32 × UInt32 × UInt32)
  colors : List RGB
  deriving Repr

/-- `model3d.ReadColorPLY` (repaired).  `error_not_data`: a non-EOF reader error is returned. -/
def readColorPLY (ft : FloatText) (bs : Bytes) : Except PErr ColorResult :=
  match plyOpen bs with
  | .error e => .error e
  | .ok (h, rest) =>
    if !colorHeaderOK h then .error .bad
    else
      let r := readElems ft h.format 0 h.elements rest
      match collectRows h.elements r.rows ⟨[], [], []⟩ with
      | none => .error .bad      -- a non-triangle face precedes any later reader error in file order
      | some m =>
        match r.err with
        | some e => .error e
        | none =>
          if !indicesOK m.verts.length m.tris then .error .bad
          else .ok ⟨m.tris.map (fun t => t.map fun v => m.verts.getD v.toNat (0, 0, 0)), m.verts, m.colors⟩

/-! ## OFF (`fileformats.OFFReader`, `model3d.ReadOFF`) -/

abbrev V3 := UInt64 × UInt64 × UInt64

/-- `readVertices`: `n` lines, each newline-terminated, three floats. -/
def offReadVerts (pf64 : Bytes → Option UInt64) : Nat → Bytes → Option (List V3 × Bytes)
  | 0, bs => some ([], bs)
  | n+1, bs =>
    match readLine bs with
    | (_, _, false) => none
    | (ln, rest, true) =>
      match (fields ln).mapM pf64 with
      | some [x, y, z] =>
        match offReadVerts pf64 n rest with
        | some (vs, r) => some ((x, y, z) :: vs, r)
        | none => none
      | _ => none

/-- `ReadFace` ×n -/
def offReadFaces (verts : List V3) : Nat → Bytes → Option (List (List V3))
  | 0, _ => some []
  | n+1, bs =>
    match readLine bs with
    | (_, _, false) => none
    | (ln, rest, true) =>
      match fields ln with
      | [] => none
      | c :: idxs =>
        match parseIntN 64 c with
        | none => none
        | some k =>
          if k ≠ (idxs.length : Int) then none
          else
            match idxs.mapM (fun t => (parseIntN 64 t).bind fun i =>
                if 0 ≤ i ∧ i < (verts.length : Int) then verts[i.toNat]? else none) with
            | none => none
            | some poly =>
              match offReadFaces verts n rest with
              | some fs => some (poly :: fs)
              | none => none

/-- `NewOFFReader` (repaired: negative counts are rejected): (numVerts, numFaces, rest). -/
def offHeader (bs : Bytes) : Option (Nat × Nat × Bytes) :=
  match readLine bs with
  | (_, _, false) => none
  | (l1, rest, true) =>
    if !(ascii "OFF").isPrefixOf l1 then none
    else
      let second : Option (Bytes × Bytes) :=
        if l1.length > 4 then some (l1.drop 3, rest)
        else match readLine rest with
          | (_, _, false) => none
          | (l2, rest2, true) => some (l2, rest2)
      match second with
      | none => none
      | some (l2, rest2) =>
        match fields l2 with
        | [a, b, _] =>
          match parseIntN 64 a, parseIntN 64 b with
          | some nv, some nf => if nv < 0 ∨ nf < 0 then none else some (nv.toNat, nf.toNat, rest2)
          | _, _ => none
        | _ => none

/-- all polygons of an OFF file (`NewOFFReader` + `ReadFace` × NumFaces); vertices are only read
when there is at least one face. -/
def offDecode (pf64 : Bytes → Option UInt64) (bs : Bytes) : Option (List (List V3)) :=
  match offHeader bs with
  | none => none
  | some (nv, nf, rest) =>
    if nf = 0 then some []
    else match offReadVerts pf64 nv rest with
      | none => none
      | some (vs, rest') => offReadFaces vs nf rest'

/-- `model3d.ReadOFF` (repaired): a polygon with fewer than three corners is an error. -/
def offDecodeMesh (pf64 : Bytes → Option UInt64) (bs : Bytes) : Option (List (List V3)) :=
  match offDecode pf64 bs with
  | none => none
  | some polys => if polys.all (fun p => decide (3 ≤ p.length)) then some polys else none

/-- pre-allocations of the OFF path (repaired): vertex table 24·min(nv,cap), triangle slice 8·min(nf,cap). -/
def offMaxPrealloc : Nat := 4096

def offLedger (bs : Bytes) : Nat :=
  match offHeader bs with
  | none => 4096
  | some (nv, nf, _) => 4096 + 24 * min nv offMaxPrealloc + 8 * min nf offMaxPrealloc

/-! ## Segment CSV -/

def COMMA : UInt8 := 44
def QUOTE : UInt8 := 34
def CR : UInt8 := 13

/-- split on a separator byte (`bytes.IndexRune` loop of the csv reader) -/
def splitOnByte (sep : UInt8) : Bytes → List Bytes
  | [] => [[]]
  | b :: bs =>
    match splitOnByte sep bs with
    | [] => [[b]]
    | f :: fs => if b = sep then [] :: f :: fs else (b :: f) :: fs

def dropLastIf (c : UInt8) (bs : Bytes) : Bytes :=
  if bs.getLast? = some c then bs.dropLast else bs

inductive CsvRes
  | ok (rows : List (List UInt64))
  | error
  | unsupported      -- a quoted field: outside the modelled subset of encoding/csv
  deriving Repr

/-- `SegmentCSVWriter.Write` -/
def csvEncodeRow (fmtG : UInt64 → Bytes) (seg : List UInt64) : Bytes :=
  joinWith [COMMA] (seg.map fmtG) ++ [NL]

def csvEncode (fmtG : UInt64 → Bytes) (segs : List (List UInt64)) : Bytes := segs.flatMap (csvEncodeRow fmtG)

/-- `DecodeCSV`: records until EOF (unquoted subset of `encoding/csv`, FieldsPerRecord = 4). -/
def csvDecodeAux (pf64 : Bytes → Option UInt64) (bs : Bytes) (acc : List (List UInt64)) : CsvRes :=
  if hb : bs = [] then .ok acc.reverse
  else
    match h : readLine bs with
    | (ln, rest, found) =>
      have : rest.length < bs.length := readLine_rest_lt bs ln rest found h hb
      let content := dropLastIf CR (if found then ln.dropLast else ln)
      if content.isEmpty then csvDecodeAux pf64 rest acc
      else
        let fs := splitOnByte COMMA content
        if fs.any (fun f => f.head? = some QUOTE) then .unsupported
        else if fs.any (fun f => f.contains QUOTE) then .error
        else if fs.length ≠ 4 then .error
        else match fs.mapM pf64 with
          | none => .error
          | some row => csvDecodeAux pf64 rest (row :: acc)
termination_by bs.length

def csvDecode (pf64 : Bytes → Option UInt64) (bs : Bytes) : CsvRes := csvDecodeAux pf64 bs []

/-! ## OBJ / 3MF index construction -/

/-- `BuildVertexColorOBJ`: vertices and 1-based face indices (one group). -/
def objVertexColor (ts : List Tri3) : List C3 × List (List Nat) :=
  let (coords, faces) := meshIndex ts
  (coords, faces.map fun f => f.map (· + 1))

/-- group assignment of `BuildMaterialOBJ`: materials in order of first appearance of their colour. -/
def objMaterial {μ} [DecidableEq μ] (mat : Nat → μ) (ts : List Tri3) :
    List C3 × List μ × List (Nat × List Nat) :=
  let (coords, faces) := objVertexColor ts
  let mats := dedupCoords id ((List.range ts.length).map mat)
  (coords, mats, (List.range ts.length).zip faces |>.map fun (i, f) => (indexOfKey id mats (mat i), f))

/-- the faces of group `g`, in order -/
def groupFaces (assign : List (Nat × List Nat)) (g : Nat) : List (List Nat) :=
  (assign.filter fun x => x.1 = g).map (·.2)

end M3d.Codec
