import M3d.Model.CodecStl
/-!
# PLY codec (fileformats/ply.go, fileformats/ply_value.go)

The generic header-driven writer/reader pair.  Scalars are `(kind, bit pattern)`; decimal text of
integers is modelled exactly, decimal text of floats is the parameter `FloatText` (Go's `strconv`),
whose law `parse (fmt x) = x` is a hypothesis of the round-trip theorems and is checked by the
harness on every number that crosses.
-/
namespace M3d.Codec

/-- the eight scalar kinds of `PLYPropertyType` -/
inductive Kind | i8 | u8 | i16 | u16 | i32 | u32 | f32 | f64
  deriving DecidableEq, Repr

/-- `PLYPropertyType.Size` -/
def Kind.size : Kind → Nat
  | .i8 | .u8 => 1
  | .i16 | .u16 => 2
  | .i32 | .u32 | .f32 => 4
  | .f64 => 8

def Kind.signed : Kind → Bool
  | .i8 | .i16 | .i32 => true
  | _ => false

def Kind.isFloat : Kind → Bool
  | .f32 | .f64 => true
  | _ => false

/-- A type *name*: each kind has two spellings (`char`/`int8`, …); the header keeps the spelling. -/
structure PType where
  kind : Kind
  alt : Bool
  deriving DecidableEq, Repr

def PType.name (t : PType) : Bytes :=
  ascii (match t.kind, t.alt with
    | .i8, false => "char" | .i8, true => "int8"
    | .u8, false => "uchar" | .u8, true => "uint8"
    | .i16, false => "short" | .i16, true => "int16"
    | .u16, false => "ushort" | .u16, true => "uint16"
    | .i32, false => "int" | .i32, true => "int32"
    | .u32, false => "uint" | .u32, true => "uint32"
    | .f32, false => "float" | .f32, true => "float32"
    | .f64, false => "double" | .f64, true => "float64")

def allPTypes : List PType :=
  [.i8, .u8, .i16, .u16, .i32, .u32, .f32, .f64].flatMap fun k => [⟨k, false⟩, ⟨k, true⟩]

/-- `PLYPropertyType.Validate` + identification of the name -/
def ptypeOfName (s : Bytes) : Option PType := allPTypes.find? fun t => t.name == s

structure Scalar where
  kind : Kind
  bits : Nat
  deriving DecidableEq, Repr

/-- `PLYValue`: a scalar or a `PLYValueList` -/
inductive PVal
  | one (s : Scalar)
  | list (len : Scalar) (vals : List Scalar)
  deriving DecidableEq, Repr

structure PProp where
  lenType : Option PType
  elemType : PType
  name : Bytes
  deriving DecidableEq, Repr

structure Element where
  name : Bytes
  count : Int
  props : List PProp
  deriving DecidableEq, Repr

inductive Format | text | bin (e : Endian)
  deriving DecidableEq, Repr

structure Header where
  format : Format
  elements : List Element
  deriving DecidableEq, Repr

/-- Go's `strconv` on floats (`FormatFloat(x,'f',-1,32|64)`, `ParseFloat(s,32|64)`), on bit patterns. -/
structure FloatText where
  fmt32 : Nat → Bytes
  fmt64 : Nat → Bytes
  parse32 : Bytes → Option Nat
  parse64 : Bytes → Option Nat

/-! ## Values -/

/-- `PLYValue*.EncodeString` -/
def scalarText (ft : FloatText) (s : Scalar) : Bytes :=
  match s.kind with
  | .f32 => ft.fmt32 s.bits
  | .f64 => ft.fmt64 s.bits
  | k => if k.signed then fmtInt (ofBitsSigned k.size s.bits) else fmtNat s.bits

/-- `PLYPropertyType.Parse` -/
def parseScalar (ft : FloatText) (k : Kind) (tok : Bytes) : Option Scalar :=
  match k with
  | .f32 => (ft.parse32 tok).map fun b => ⟨.f32, b⟩
  | .f64 => (ft.parse64 tok).map fun b => ⟨.f64, b⟩
  | k =>
    if k.signed then (parseIntN (8 * k.size) tok).map fun i => ⟨k, toBitsSigned k.size i⟩
    else (parseUintN (8 * k.size) tok).map fun n => ⟨k, n⟩

/-- `PLYValue*.EncodeBinary` -/
def scalarBytes (e : Endian) (s : Scalar) : Bytes := putUint e s.kind.size s.bits

/-- `PLYValue.LengthValue`: floats cannot be lengths; signed kinds are sign-extended. -/
def lengthValue (s : Scalar) : Option Int :=
  if s.kind.isFloat then none
  else if s.kind.signed then some (ofBitsSigned s.kind.size s.bits) else some (s.bits : Int)

/-! ## Header text -/

def joinWith (sep : Bytes) : List Bytes → Bytes
  | [] => []
  | [x] => x
  | x :: xs => x ++ sep ++ joinWith sep xs

def line (toks : List Bytes) : Bytes := joinWith [SP] toks ++ [NL]

/-- one `property …` line -/
def PProp.encode (p : PProp) : Bytes :=
  match p.lenType with
  | none => line [ascii "property", p.elemType.name, p.name]
  | some lt => line [ascii "property", ascii "list", lt.name, p.elemType.name, p.name]

/-- `PLYElement.Encode` -/
def Element.encode (el : Element) : Bytes :=
  line [ascii "element", el.name, fmtInt el.count] ++ el.props.flatMap PProp.encode

def Format.name : Format → Bytes
  | .text => ascii "ascii"
  | .bin .little => ascii "binary_little_endian"
  | .bin .big => ascii "binary_big_endian"

/-- `PLYHeader.Encode` -/
def Header.encode (h : Header) : Bytes :=
  line [ascii "ply"] ++ line [ascii "format", h.format.name, ascii "1.0"] ++
    h.elements.flatMap Element.encode ++ line [ascii "end_header"]

/-! ## Writer (`PLYWriter`) -/

/-- tokens of one row (`PLYValueList.EncodeString` joins with the same separator as the row) -/
def rowTokens (ft : FloatText) (row : List PVal) : List Bytes :=
  row.flatMap fun
    | .one s => [scalarText ft s]
    | .list l vs => scalarText ft l :: vs.map (scalarText ft)

def rowBinary (e : Endian) (row : List PVal) : Bytes :=
  row.flatMap fun
    | .one s => scalarBytes e s
    | .list l vs => scalarBytes e l ++ vs.flatMap (scalarBytes e)

/-- bytes of one `PLYWriter.Write(fields)` -/
def encodeRow (ft : FloatText) (f : Format) (row : List PVal) : Bytes :=
  match f with
  | .text => line (rowTokens ft row)
  | .bin e => rowBinary e row

/-- `PLYWriter.nextElement`: skip exhausted elements (count ≤ rows written, so also zero and negative
counts), then account for one more row.  State: the elements not yet finished (current at the head)
and the rows written of the current one. -/
def nextElement : List Element → Int → Option (Element × List Element × Int)
  | [], _ => none
  | el :: rest, w => if w ≥ el.count then nextElement rest 0 else some (el, el :: rest, w + 1)

/-- `PLYWriter.isDone` (repaired): every remaining element is exhausted. -/
def isDone : List Element → Int → Bool
  | [], _ => true
  | el :: rest, w => decide (w ≥ el.count) && isDone rest 0

/-- `PLYWriter.isDone` as it was: only looks at the last element, so a file whose trailing elements
have count 0 was never flushed. -/
def isDoneUnrepaired : List Element → Int → Bool
  | [], _ => true
  | [el], w => decide (w ≥ el.count)
  | _, _ => false

/-- The sequence of `Write` calls.  Result: the row bytes and whether the writer ended in the
*done* (flushed) state; `none` = a `Write` returned an error (too many rows / wrong field count). -/
def writeRows (ft : FloatText) (f : Format) : List Element → Int → List (List PVal) → Option (Bytes × Bool)
  | els, w, [] => some ([], isDone els w)
  | els, w, row :: rows =>
    match nextElement els w with
    | none => none
    | some (el, els', w') =>
      if row.length ≠ el.props.length then none
      else match writeRows ft f els' w' rows with
        | none => none
        | some (bs, d) => some (encodeRow ft f row ++ bs, d)

/-- `NewPLYWriter` + `Write`×n: the whole file. -/
def plyWrite (ft : FloatText) (h : Header) (rows : List (List PVal)) : Option (Bytes × Bool) :=
  match writeRows ft h.format h.elements 0 rows with
  | none => none
  | some (bs, d) => some (h.encode ++ bs, d)

/-! ## Reader (`PLYReader`) -/

/-- PLY reader errors: `eof` is an error for which `errors.Is(err, io.EOF)` holds (binary short read
at a value boundary, wrapped), the others are not. -/
inductive PErr | eof | unexpectedEOF | bad
  deriving DecidableEq, Repr

/-- the allocation a list property requests before its elements are read: `make([]PLYValue, n)` is
16 bytes per entry.  Repaired: at most `plyMaxPrealloc` entries are requested up front. -/
def plyMaxPrealloc : Nat := 4096

/-- `decodeInstance` over a token list (`DecodeInstanceString`): returns values, leftover tokens and
the list pre-allocations made. -/
def decodeTokens (ft : FloatText) : List PProp → List Bytes → Except PErr (List PVal × List Bytes × Nat)
  | [], toks => .ok ([], toks, 0)
  | p :: ps, toks =>
    match p.lenType with
    | none =>
      match toks with
      | [] => .error .bad
      | t :: toks' =>
        match parseScalar ft p.elemType.kind t with
        | none => .error .bad
        | some v =>
          match decodeTokens ft ps toks' with
          | .ok (vs, r, a) => .ok (.one v :: vs, r, a)
          | .error e => .error e
    | some lt =>
      match toks with
      | [] => .error .bad
      | t :: toks' =>
        match parseScalar ft lt.kind t with
        | none => .error .bad
        | some lv =>
          match lengthValue lv with
          | none => .error .bad
          | some n =>
            if n < 0 then .error .bad
            else
              let k := n.toNat
              if toks'.length < k then .error .bad
              else
                match (toks'.take k).mapM (parseScalar ft p.elemType.kind) with
                | none => .error .bad
                | some xs =>
                  match decodeTokens ft ps (toks'.drop k) with
                  | .ok (vs, r, a) => .ok (.list lv xs :: vs, r, a + 16 * min k plyMaxPrealloc)
                  | .error e => .error e

/-- read one binary scalar (`io.ReadFull` of `Size()` bytes + `DecodeBinary`) -/
def readScalarBin (e : Endian) (k : Kind) (bs : Bytes) : Except PErr (Scalar × Bytes) :=
  if bs.isEmpty then .error .eof
  else if bs.length < k.size then .error .unexpectedEOF
  else .ok (⟨k, getUint e (bs.take k.size)⟩, bs.drop k.size)

/-- The same function without measuring the whole remaining input (`bs.length` walks the list, which
made long list properties quadratic in the native driver).  Proved equal; compiled code uses this one,
theorems are stated about `readScalarBin`. -/
def readScalarBinFast (e : Endian) (k : Kind) (bs : Bytes) : Except PErr (Scalar × Bytes) :=
  if bs.isEmpty then .error .eof
  else if (bs.take k.size).length < k.size then .error .unexpectedEOF
  else .ok (⟨k, getUint e (bs.take k.size)⟩, bs.drop k.size)

@[csimp] theorem readScalarBin_eq_fast : @readScalarBin = @readScalarBinFast := by
  funext e k bs
  unfold readScalarBin readScalarBinFast
  have h : ((bs.take k.size).length < k.size) = (bs.length < k.size) := by
    rw [List.length_take]
    apply propext
    omega
  simp only [h]

/-- `n` binary scalars of one kind (the element loop of a list property) -/
def readScalarsBin (e : Endian) (k : Kind) : Nat → Bytes → Except PErr (List Scalar × Bytes)
  | 0, bs => .ok ([], bs)
  | n+1, bs =>
    match readScalarBin e k bs with
    | .error er => .error er
    | .ok (s, bs') =>
      match readScalarsBin e k n bs' with
      | .error er => .error er
      | .ok (ss, bs'') => .ok (s :: ss, bs'')

/-- `decodeInstance` over a byte stream (`DecodeInstanceBinary`). -/
def decodeBinary (e : Endian) : List PProp → Bytes → Except PErr (List PVal × Bytes × Nat)
  | [], bs => .ok ([], bs, 0)
  | p :: ps, bs =>
    match p.lenType with
    | none =>
      match readScalarBin e p.elemType.kind bs with
      | .error er => .error er
      | .ok (v, bs') =>
        match decodeBinary e ps bs' with
        | .ok (vs, r, a) => .ok (.one v :: vs, r, a)
        | .error er => .error er
    | some lt =>
      match readScalarBin e lt.kind bs with
      | .error er => .error er
      | .ok (lv, bs') =>
        match lengthValue lv with
        | none => .error .bad
        | some n =>
          if n < 0 then .error .bad
          else
            match readScalarsBin e p.elemType.kind n.toNat bs' with
            | .error er => .error er
            | .ok (xs, bs'') =>
              match decodeBinary e ps bs'' with
              | .ok (vs, r, a) => .ok (.list lv xs :: vs, r, a + 16 * min n.toNat plyMaxPrealloc)
              | .error er => .error er

def tokComment : Bytes := ascii "comment"

/-- One `PLYReader.Read` of a row of element `el` in ASCII mode, *including* the skipping of comment
lines (`return p.Read()`), which recurses on strictly shorter input. -/
def readRowAscii (ft : FloatText) (el : Element) (bs : Bytes) : Except PErr (List PVal × Bytes × Nat) :=
  match h : readLine bs with
  | (ln, rest, found) =>
    if !found && allSpace ln then .error .unexpectedEOF
    else
      let toks := fields ln
      if hc : toks.head? = some tokComment then
        if hf : found then
          have : rest.length < bs.length := by
            subst hf
            exact readLine_rest_lt bs ln rest true h (readLine_found_ne_nil bs ln rest h)
          readRowAscii ft el rest
        else .error .unexpectedEOF   -- the recursive Read finds no more input
      else
        match decodeTokens ft el.props toks with
        | .error e => .error e
        | .ok (vs, [], a) => .ok (vs, rest, a)
        | .ok (_, _ :: _, _) => .error .bad
termination_by bs.length

/-- one row in the file's format -/
def readRow (ft : FloatText) (f : Format) (el : Element) (bs : Bytes) : Except PErr (List PVal × Bytes × Nat) :=
  match f with
  | .text => readRowAscii ft el bs
  | .bin e => decodeBinary e el.props bs

/-- result of reading a whole stream with the usual caller loop *until `errors.Is(err, io.EOF)`* -/
structure ReadAll where
  rows : List (Nat × List PVal)   -- (index of the element, values), in file order
  err : Option PErr               -- `none`: ended by io.EOF; `some e`: a non-EOF error reached the caller
  alloc : Nat                     -- list pre-allocations made
  deriving Repr

def ReadAll.cons (r : Nat × List PVal) (a : Nat) (x : ReadAll) : ReadAll :=
  { x with rows := r :: x.rows, alloc := a + x.alloc }

/-- the `k` remaining rows of element number `idx` -/
def readElemRows (ft : FloatText) (f : Format) (idx : Nat) (el : Element) :
    Nat → Bytes → (ReadAll × Bytes)
  | 0, bs => (⟨[], none, 0⟩, bs)
  | k+1, bs =>
    match readRow ft f el bs with
    | .error .eof => (⟨[], none, 0⟩, [])      -- caller: `errors.Is(err, io.EOF)` → stop
    | .error e => (⟨[], some e, 0⟩, [])
    | .ok (vs, bs', a) =>
      let (r, out) := readElemRows ft f idx el k bs'
      (r.cons (idx, vs) a, out)

/-- `PLYReader.Read` called until `io.EOF` (repaired reader: exhausted elements — count ≤ 0 — are
skipped *before* a row is read).  Structural in the element list, then in the declared count:
every step consumes a declared row, which is the progress measure of this loop. -/
def readElems (ft : FloatText) (f : Format) : Nat → List Element → Bytes → ReadAll
  | _, [], _ => ⟨[], none, 0⟩
  | idx, el :: rest, bs =>
    let (r, bs') := readElemRows ft f idx el el.count.toNat bs
    match r.err with
    | some _ => r
    | none =>
      if r.rows.length < el.count.toNat then r   -- stopped by EOF inside this element
      else
        let r2 := readElems ft f (idx + 1) rest bs'
        { rows := r.rows ++ r2.rows, err := r2.err, alloc := r.alloc + r2.alloc }

/-- The reader **before** the repair: the element is advanced only after a row has been read and only
when the running count *equals* the declared count, so an element declared with count 0 swallows
rows until the input fails to decode.  Fuel = input length + 1 bounds the rows it can read
(used only to exhibit the failing input; no theorem is stated about it). -/
def readElemsUnrepaired (ft : FloatText) (f : Format) :
    Nat → Nat → List Element → Int → Bytes → ReadAll
  | 0, _, _, _, _ => ⟨[], some .bad, 0⟩
  | _+1, _, [], _, _ => ⟨[], none, 0⟩
  | fuel+1, idx, el :: rest, nread, bs =>
    match readRow ft f el bs with
    | .error .eof => ⟨[], none, 0⟩
    | .error e => ⟨[], some e, 0⟩
    | .ok (vs, bs', a) =>
      let r :=
        if nread + 1 = el.count then readElemsUnrepaired ft f fuel (idx + 1) rest 0 bs'
        else readElemsUnrepaired ft f fuel idx (el :: rest) (nread + 1) bs'
      r.cons (idx, vs) a

/-! ## Header decoding (`NewPLYHeaderRead`, `NewPLYHeaderDecode`) -/

def endHeaderNL : Bytes := ascii "end_header\n"

/-- `NewPLYHeaderRead`: bytes up to and including the first `end_header\n`; `none` = input ended first. -/
def splitHeaderAux : Bytes → Bytes → Option (Bytes × Bytes)
  | [], _ => none
  | b :: bs, acc =>
    if endHeaderNL.isPrefixOf (b :: bs) then some (acc.reverse ++ endHeaderNL, (b :: bs).drop endHeaderNL.length)
    else splitHeaderAux bs (b :: acc)

def splitHeader (bs : Bytes) : Option (Bytes × Bytes) := splitHeaderAux bs []

/-- `strings.Split(s, "\n")` -/
def splitLines : Bytes → List Bytes
  | [] => [[]]
  | b :: bs =>
    match splitLines bs with
    | [] => [[b]]   -- unreachable
    | l :: ls => if b = NL then [] :: l :: ls else (b :: l) :: ls

/-- `NewPLYPropertyString` on the fields of a line -/
def decodeProperty (parts : List Bytes) : Option PProp :=
  match parts with
  | [_, t, n] =>
    if t = ascii "list" then none
    else (ptypeOfName t).map fun et => ⟨none, et, n⟩
  | [_, l, lt, et, n] =>
    if l = ascii "list" then
      match ptypeOfName lt, ptypeOfName et with
      | some a, some b => some ⟨some a, b, n⟩
      | _, _ => none
    else none
  | _ => none

/-- the element/property/comment lines between the format line and `end_header` -/
def decodeHeaderBody : List Bytes → Option Element → List Element → Option (List Element)
  | [], cur, acc => some (match cur with | some c => (c :: acc).reverse | none => acc.reverse)
  | ln :: lns, cur, acc =>
    match fields ln with
    | [] => decodeHeaderBody lns cur acc
    | p0 :: ps =>
      if p0 = ascii "comment" then decodeHeaderBody lns cur acc
      else if p0 = ascii "element" then
        match ps with
        | [name, cnt] =>
          match parseIntN 64 cnt with
          | none => none
          | some c =>
            decodeHeaderBody lns (some ⟨name, c, []⟩)
              (match cur with | some e => e :: acc | none => acc)
        | _ => none
      else if p0 = ascii "property" then
        match cur with
        | none => none
        | some e =>
          match decodeProperty (p0 :: ps) with
          | none => none
          | some pr => decodeHeaderBody lns (some { e with props := e.props ++ [pr] }) acc
      else none

def formatOfName (s : Bytes) : Option Format :=
  if s = ascii "ascii" then some .text
  else if s = ascii "binary_little_endian" then some (.bin .little)
  else if s = ascii "binary_big_endian" then some (.bin .big)
  else none

/-- `NewPLYHeaderDecode` -/
def decodeHeader (data : Bytes) : Option Header :=
  let lines := splitLines data
  if lines.length < 4 then none
  else if lines.getLast? ≠ some [] then none
  else if lines[lines.length - 2]? ≠ some (ascii "end_header") then none
  else
    match fields (lines.getD 1 []) with
    | [a, f, v] =>
      if a ≠ ascii "format" || v ≠ ascii "1.0" then none
      else match formatOfName f with
        | none => none
        | some fmt =>
          match decodeHeaderBody ((lines.drop 2).take (lines.length - 4)) none [] with
          | none => none
          | some els => some ⟨fmt, els⟩
    | _ => none

/-- `NewPLYReader`: header, then the remaining input. -/
def plyOpen (bs : Bytes) : Except PErr (Header × Bytes) :=
  match splitHeader bs with
  | none => .error .unexpectedEOF
  | some (hd, rest) =>
    match decodeHeader hd with
    | none => .error .bad
    | some h => .ok (h, rest)

/-- `NewPLYReader` + `Read` until EOF. -/
def plyReadAll (ft : FloatText) (bs : Bytes) : Except PErr (Header × ReadAll) :=
  match plyOpen bs with
  | .error e => .error e
  | .ok (h, rest) => .ok (h, readElems ft h.format 0 h.elements rest)

/-- Allocation ledger of `NewPLYReader` + `Read` until EOF (repaired code): two `bufio` buffers, the
header bytes (accumulated byte by byte, amortised 2×), the list pre-allocations of the rows that
decoded, and at most one bounded pre-allocation inside a row that then failed. -/
def plyLedger (ft : FloatText) (bs : Bytes) : Nat :=
  8192 + 2 * bs.length + 16 * plyMaxPrealloc +
    (match plyOpen bs with
     | .ok (h, rest) => (readElems ft h.format 0 h.elements rest).alloc
     | .error _ => 0)

/-- the list pre-allocation **before** the repair: `make([]PLYValue, n)` for the declared `n` -/
def listAllocUnrepaired (declared : Nat) : Nat := 16 * declared

end M3d.Codec
