/-!
# C05 — executable model of `model3d/transform.go`, `model3d/matrix.go`, `toolbox3d/squeeze.go`

Core Lean only.  Every definition is generic over the scalar `α` and only asks for the operation
classes it uses, so the same function is
* proved about for every linear ordered field (`M3d/Props/C05.lean`), and
* executed at `Rat` by the driver (`M3d/Drv/C05.lean`) against the real Go code in exact mode.

Go `Coord3D` ↦ `V3`, `*Matrix3` (row-major `[9]float64`) ↦ `M3`, the `Transform` interface with its
implementations ↦ the inductive `Xf` (a `JoinedTransform{t₁,…,tₙ}` is `jcons t₁ (… (jcons tₙ jnil))`),
`Solid`/`SDF`/`Collider`/`Metaball` arguments ↦ structures of functions (external calls are parameters).
Each definition names the Go function it transcribes; operand order is the Go order.
-/
namespace M3d.Tf

/-! ## scalars -/
section Scalar
variable {α : Type}

/-- `math.Min` on finite non-NaN values. -/
def mn [LE α] [DecidableLE α] (a b : α) : α := if a ≤ b then a else b
/-- `math.Max` on finite non-NaN values. -/
def mx [LE α] [DecidableLE α] (a b : α) : α := if a ≤ b then b else a
/-- `math.Abs`. -/
def absS [LE α] [DecidableLE α] [Neg α] [OfNat α 0] (a : α) : α := if (0 : α) ≤ a then a else -a

end Scalar

/-! ## `Coord3D` -/

@[ext] structure V3 (α : Type) where
  x : α
  y : α
  z : α
deriving DecidableEq, Repr

namespace V3
variable {α : Type}

/-- `Coord3D.Add` -/
def add [Add α] (a b : V3 α) : V3 α := ⟨a.x + b.x, a.y + b.y, a.z + b.z⟩
/-- `Coord3D.Sub` -/
def sub [Sub α] (a b : V3 α) : V3 α := ⟨a.x - b.x, a.y - b.y, a.z - b.z⟩
/-- `Coord3D.Scale` -/
def scale [Mul α] (a : V3 α) (s : α) : V3 α := ⟨a.x * s, a.y * s, a.z * s⟩
/-- `Coord3D.Mul` (element-wise) -/
def mul [Mul α] (a b : V3 α) : V3 α := ⟨a.x * b.x, a.y * b.y, a.z * b.z⟩
/-- `Coord3D.Recip` -/
def recip [Div α] [OfNat α 1] (a : V3 α) : V3 α := ⟨1 / a.x, 1 / a.y, 1 / a.z⟩
/-- `Coord3D.Min` -/
def min [LE α] [DecidableLE α] (a b : V3 α) : V3 α := ⟨mn a.x b.x, mn a.y b.y, mn a.z b.z⟩
/-- `Coord3D.Max` -/
def max [LE α] [DecidableLE α] (a b : V3 α) : V3 α := ⟨mx a.x b.x, mx a.y b.y, mx a.z b.z⟩
/-- `Coord3D.Abs` -/
def abs [LE α] [DecidableLE α] [Neg α] [OfNat α 0] (a : V3 α) : V3 α := ⟨absS a.x, absS a.y, absS a.z⟩
/-- `Coord3D.Dot` -/
def dot [Add α] [Mul α] (a b : V3 α) : α := a.x * b.x + a.y * b.y + a.z * b.z
/-- `Coord3D.NormSquared` (= the argument of the `math.Sqrt` in `Norm`) -/
def normSq [Add α] [Mul α] (a : V3 α) : α := a.x * a.x + a.y * a.y + a.z * a.z
/-- `Coord3D.Normalize`: `c.Scale(1 / c.Norm())`, `sqrtF` standing for `math.Sqrt`. -/
def normalize [Add α] [Mul α] [Div α] [OfNat α 1] (sqrtF : α → α) (a : V3 α) : V3 α :=
  a.scale (1 / sqrtF a.normSq)
/-- `Coord3D.MaxCoord` -/
def maxCoord [LT α] [DecidableLT α] (c : V3 α) : α :=
  if c.y < c.x then (if c.z < c.x then c.x else c.z) else (if c.z < c.y then c.y else c.z)
/-- `c.Array()[axis]` (axis 0,1,2) -/
def get (c : V3 α) (axis : Nat) : α := match axis with | 0 => c.x | 1 => c.y | _ => c.z
/-- `arr[axis] = v; NewCoord3DArray(arr)` -/
def set (c : V3 α) (axis : Nat) (v : α) : V3 α :=
  match axis with | 0 => ⟨v, c.y, c.z⟩ | 1 => ⟨c.x, v, c.z⟩ | _ => ⟨c.x, c.y, v⟩
def zero [OfNat α 0] : V3 α := ⟨0, 0, 0⟩

end V3

/-- Go's `==` on `Coord3D` values (field by field). -/
def V3.beq {α : Type} [BEq α] (a b : V3 α) : Bool := a.x == b.x && a.y == b.y && a.z == b.z

/-- `c.Min(min) == min && c.Max(max) == max` (`InBounds`, `CheckedFuncSolid`). -/
def inBounds {α : Type} [LE α] [DecidableLE α] [BEq α] (c lo hi : V3 α) : Bool :=
  (c.min lo).beq lo && (c.max hi).beq hi

/-! ## `Matrix3` (row-major) -/

@[ext] structure M3 (α : Type) where
  a0 : α
  a1 : α
  a2 : α
  a3 : α
  a4 : α
  a5 : α
  a6 : α
  a7 : α
  a8 : α
deriving DecidableEq, Repr

namespace M3
variable {α : Type}

/-- `Matrix3.Det` -/
def det [Add α] [Sub α] [Mul α] (m : M3 α) : α :=
  m.a0 * (m.a4 * m.a8 - m.a5 * m.a7) - m.a1 * (m.a3 * m.a8 - m.a5 * m.a6) + m.a2 * (m.a3 * m.a7 - m.a4 * m.a6)

/-- `Matrix3.Scale` (in place in Go) -/
def scale [Mul α] (m : M3 α) (s : α) : M3 α :=
  ⟨m.a0 * s, m.a1 * s, m.a2 * s, m.a3 * s, m.a4 * s, m.a5 * s, m.a6 * s, m.a7 * s, m.a8 * s⟩

/-- the adjugate literal of `InvertInPlaceDet` -/
def adj [Sub α] [Mul α] (m : M3 α) : M3 α :=
  ⟨m.a4 * m.a8 - m.a5 * m.a7, m.a2 * m.a7 - m.a1 * m.a8, m.a1 * m.a5 - m.a2 * m.a4,
   m.a5 * m.a6 - m.a3 * m.a8, m.a0 * m.a8 - m.a2 * m.a6, m.a2 * m.a3 - m.a0 * m.a5,
   m.a3 * m.a7 - m.a4 * m.a6, m.a1 * m.a6 - m.a0 * m.a7, m.a0 * m.a4 - m.a1 * m.a3⟩

/-- `Matrix3.Inverse` = `InvertInPlaceDet(m.Det())`: adjugate, then `Scale(1 / det)`. -/
def inverse [Add α] [Sub α] [Mul α] [Div α] [OfNat α 1] (m : M3 α) : M3 α :=
  m.adj.scale (1 / m.det)

/-- `Matrix3.MulColumn` -/
def mulColumn [Add α] [Mul α] (m : M3 α) (c : V3 α) : V3 α :=
  ⟨m.a0 * c.x + m.a1 * c.y + m.a2 * c.z,
   m.a3 * c.x + m.a4 * c.y + m.a5 * c.z,
   m.a6 * c.x + m.a7 * c.y + m.a8 * c.z⟩

/-- `Matrix3.MulColumnInv` -/
def mulColumnInv [Add α] [Sub α] [Mul α] [Div α] [OfNat α 1] (m : M3 α) (c : V3 α) (det : α) : V3 α :=
  m.adj.mulColumn (c.scale (1 / det))

/-- `Matrix3.Mul` -/
def mul [Add α] [Mul α] (m n : M3 α) : M3 α :=
  ⟨m.a0 * n.a0 + m.a1 * n.a3 + m.a2 * n.a6, m.a0 * n.a1 + m.a1 * n.a4 + m.a2 * n.a7, m.a0 * n.a2 + m.a1 * n.a5 + m.a2 * n.a8,
   m.a3 * n.a0 + m.a4 * n.a3 + m.a5 * n.a6, m.a3 * n.a1 + m.a4 * n.a4 + m.a5 * n.a7, m.a3 * n.a2 + m.a4 * n.a5 + m.a5 * n.a8,
   m.a6 * n.a0 + m.a7 * n.a3 + m.a8 * n.a6, m.a6 * n.a1 + m.a7 * n.a4 + m.a8 * n.a7, m.a6 * n.a2 + m.a7 * n.a5 + m.a8 * n.a8⟩

/-- `Matrix3.Transpose` -/
def transpose (m : M3 α) : M3 α := ⟨m.a0, m.a3, m.a6, m.a1, m.a4, m.a7, m.a2, m.a5, m.a8⟩

def one [OfNat α 0] [OfNat α 1] : M3 α := ⟨1, 0, 0, 0, 1, 0, 0, 0, 1⟩

end M3

/-! ## Rotations (`NewMatrix3Rotation`, `Coord3D.OrthoBasis`) with `(c, s) = (math.Cos θ, math.Sin θ)` as inputs -/

/-- `Coord3D.OrthoBasis` (`sqrtF` = `math.Sqrt`). -/
def orthoBasis {α : Type} [Add α] [Sub α] [Mul α] [Div α] [Neg α] [OfNat α 0] [OfNat α 1]
    [LE α] [DecidableLE α] [LT α] [DecidableLT α] (sqrtF : α → α) (c : V3 α) : V3 α × V3 α :=
  let ax := absS c.x
  let ay := absS c.y
  let az := absS c.z
  let b1 : V3 α :=
    if ay < ax ∧ az < ax then ⟨c.y / ax, (-c.x) / ax, 0⟩
    else
      let k := if az < ay then ay else az
      ⟨0, c.z / k, (-c.y) / k⟩
  let b2 : V3 α := ⟨b1.y * c.z - b1.z * c.y, b1.z * c.x - b1.x * c.z, b1.x * c.y - b1.y * c.x⟩
  (b1.normalize sqrtF, b2.normalize sqrtF)

/-- `NewMatrix3Columns` -/
def M3.ofColumns {α : Type} (c1 c2 c3 : V3 α) : M3 α :=
  ⟨c1.x, c2.x, c3.x, c1.y, c2.y, c3.y, c1.z, c2.z, c3.z⟩

/-- the middle factor of `NewMatrix3Rotation` -/
def rotX {α : Type} [Neg α] [OfNat α 0] [OfNat α 1] (c s : α) : M3 α := ⟨1, 0, 0, 0, c, s, 0, -s, c⟩

/-- `basis.Mul(rotation).Mul(basis.Transpose())` for an arbitrary basis -/
def rotationIn {α : Type} [Add α] [Mul α] [Neg α] [OfNat α 0] [OfNat α 1] (a b1 b2 : V3 α) (c s : α) : M3 α :=
  ((M3.ofColumns a b1 b2).mul (rotX c s)).mul (M3.ofColumns a b1 b2).transpose

/-- `NewMatrix3Rotation(axis, θ)` with `c = math.Cos θ`, `s = math.Sin θ`. -/
def rotation3 {α : Type} [Add α] [Sub α] [Mul α] [Div α] [Neg α] [OfNat α 0] [OfNat α 1]
    [LE α] [DecidableLE α] [LT α] [DecidableLT α] (sqrtF : α → α) (axis : V3 α) (c s : α) : M3 α :=
  let b := orthoBasis sqrtF axis
  rotationIn axis b.1 b.2 c s

/-! ## `model2d.Coord`, `Matrix2` (row-major) -/

@[ext] structure V2 (α : Type) where
  x : α
  y : α
deriving DecidableEq, Repr

@[ext] structure M2 (α : Type) where
  a0 : α
  a1 : α
  a2 : α
  a3 : α
deriving DecidableEq, Repr

namespace M2
variable {α : Type}

/-- `Matrix2.Det` -/
def det [Sub α] [Mul α] (m : M2 α) : α := m.a0 * m.a3 - m.a1 * m.a2
/-- `Matrix2.Scale` -/
def scale [Mul α] (m : M2 α) (s : α) : M2 α := ⟨m.a0 * s, m.a1 * s, m.a2 * s, m.a3 * s⟩
/-- the literal of `InvertInPlaceDet` -/
def adj [Neg α] (m : M2 α) : M2 α := ⟨m.a3, -m.a1, -m.a2, m.a0⟩
/-- `Matrix2.Inverse` -/
def inverse [Sub α] [Mul α] [Div α] [Neg α] [OfNat α 1] (m : M2 α) : M2 α := m.adj.scale (1 / m.det)
/-- `Matrix2.MulColumn` -/
def mulColumn [Add α] [Mul α] (m : M2 α) (c : V2 α) : V2 α := ⟨m.a0 * c.x + m.a1 * c.y, m.a2 * c.x + m.a3 * c.y⟩
/-- `Matrix2.MulColumnInv` -/
def mulColumnInv [Add α] [Mul α] [Div α] [Neg α] [OfNat α 1] (m : M2 α) (c : V2 α) (det : α) : V2 α :=
  m.adj.mulColumn ⟨c.x * (1 / det), c.y * (1 / det)⟩
/-- `Matrix2.Mul` -/
def mul [Add α] [Mul α] (m n : M2 α) : M2 α :=
  ⟨m.a0 * n.a0 + m.a1 * n.a2, m.a0 * n.a1 + m.a1 * n.a3, m.a2 * n.a0 + m.a3 * n.a2, m.a2 * n.a1 + m.a3 * n.a3⟩
/-- `Matrix2.Transpose` -/
def transpose (m : M2 α) : M2 α := ⟨m.a0, m.a2, m.a1, m.a3⟩
def one [OfNat α 0] [OfNat α 1] : M2 α := ⟨1, 0, 0, 1⟩
/-- `NewMatrix2Rotation(θ)` with `c = math.Cos θ`, `s = math.Sin θ`. -/
def rotation [Neg α] (c s : α) : M2 α := ⟨c, -s, s, c⟩
/-- The 3×3 matrix acting as `m` on the first two coordinates and fixing the third: the 2-D instance of
the transform template is the 3-D one on the plane `z = 0`. -/
def embed [OfNat α 0] [OfNat α 1] (m : M2 α) : M3 α := ⟨m.a0, m.a1, 0, m.a2, m.a3, 0, 0, 0, 1⟩

end M2

/-! ## The `Transform` implementations -/

/-- `Translate | Scale | VecScale | Matrix3Transform | orthoMatrix3Transform | toolbox3d.AxisSqueeze |
JoinedTransform` (`jnil`/`jcons`: the slice, left to right). -/
inductive Xf (α : Type) where
  | translate (off : V3 α)
  | scale (s : α)
  | vecScale (v : V3 α)
  | matrix (m : M3 α)
  | ortho (m : M3 α)
  | squeeze (axis : Nat) (lo hi ratio : α)
  | jnil
  | jcons (t rest : Xf α)
deriving Repr

namespace Xf
variable {α : Type}

/-- `AxisSqueeze.Apply` -/
def squeezeApply [Sub α] [Mul α] [OfNat α 1] [LT α] [DecidableLT α]
    (axis : Nat) (lo hi ratio : α) (c : V3 α) : V3 α :=
  let v := c.get axis
  if v < lo then c
  else if hi < v then c.set axis (v - (hi - lo) * (1 - ratio))
  else c.set axis (v - (v - lo) * (1 - ratio))

/-- `Apply` of each implementation. -/
def apply [Add α] [Sub α] [Mul α] [OfNat α 1] [LT α] [DecidableLT α] : Xf α → V3 α → V3 α
  | translate o, c => c.add o
  | scale s, c => c.scale s
  | vecScale v, c => c.mul v
  | matrix m, c => m.mulColumn c
  | ortho m, c => m.mulColumn c
  | squeeze ax lo hi r, c => squeezeApply ax lo hi r c
  | jnil, c => c
  | jcons t rest, c => rest.apply (t.apply c)

/-- The 8 corner images of `Matrix3Transform.ApplyBounds`, in loop order (x outer, z inner). -/
def cornerImages [Add α] [Mul α] (m : M3 α) (lo hi : V3 α) : V3 α × List (V3 α) :=
  (m.mulColumn ⟨lo.x, lo.y, lo.z⟩,
   [m.mulColumn ⟨lo.x, lo.y, hi.z⟩, m.mulColumn ⟨lo.x, hi.y, lo.z⟩, m.mulColumn ⟨lo.x, hi.y, hi.z⟩,
    m.mulColumn ⟨hi.x, lo.y, lo.z⟩, m.mulColumn ⟨hi.x, lo.y, hi.z⟩, m.mulColumn ⟨hi.x, hi.y, lo.z⟩,
    m.mulColumn ⟨hi.x, hi.y, hi.z⟩])

/-- `Matrix3Transform.ApplyBounds`: running min / max over the corner images. -/
def matrixBounds [Add α] [Mul α] [LE α] [DecidableLE α] (m : M3 α) (lo hi : V3 α) : V3 α × V3 α :=
  let cs := cornerImages m lo hi
  cs.2.foldl (fun acc c => (acc.1.min c, acc.2.max c)) (cs.1, cs.1)

/-- `ApplyBounds` of each implementation. -/
def applyBounds [Add α] [Sub α] [Mul α] [OfNat α 1] [LT α] [DecidableLT α] [LE α] [DecidableLE α] :
    Xf α → V3 α → V3 α → V3 α × V3 α
  | translate o, lo, hi => (lo.add o, hi.add o)
  | scale s, lo, hi =>
      let a := lo.scale s
      let b := hi.scale s
      (a.min b, b.max a)
  | vecScale v, lo, hi =>
      let a := lo.mul v
      let b := hi.mul v
      (a.min b, b.max a)
  | matrix m, lo, hi => matrixBounds m lo hi
  | ortho m, lo, hi => matrixBounds m lo hi
  | squeeze ax l h r, lo, hi => (squeezeApply ax l h r lo, squeezeApply ax l h r hi)
  | jnil, lo, hi => (lo, hi)
  | jcons t rest, lo, hi =>
      let b := t.applyBounds lo hi
      rest.applyBounds b.1 b.2

/-- `append(res, t)` on a `JoinedTransform` value (a non-slice `r` is wrapped first). -/
def snoc : Xf α → Xf α → Xf α
  | jnil, t => jcons t jnil
  | jcons a r, t => jcons a (snoc r t)
  | r, t => jcons r (jcons t jnil)

/-- `Inverse` of each implementation (`JoinedTransform`: the inverses in reverse order). -/
def inverse [Add α] [Sub α] [Mul α] [Div α] [Neg α] [OfNat α 1] : Xf α → Xf α
  | translate o => translate (o.scale (-(1 : α)))
  | scale s => scale (1 / s)
  | vecScale v => vecScale v.recip
  | matrix m => matrix m.inverse
  | ortho m => ortho m.inverse
  | squeeze ax lo hi r => squeeze ax lo (lo + (hi - lo) * r) (1 / r)
  | jnil => jnil
  | jcons t rest => snoc rest.inverse t.inverse

/-- Does the Go value implement `DistTransform` all the way down (`ApplyDistance` does not panic)? -/
def isDist : Xf α → Bool
  | translate _ => true
  | scale _ => true
  | ortho _ => true
  | jnil => true
  | jcons t rest => t.isDist && rest.isDist
  | _ => false

/-- `ApplyDistance` (meaningful when `isDist`; the other kinds have no such method). -/
def applyDistance [Mul α] [LE α] [DecidableLE α] [Neg α] [OfNat α 0] : Xf α → α → α
  | translate _, d => d
  | scale s, d => d * absS s
  | ortho _, d => d
  | jcons t rest, d => rest.applyDistance (t.applyDistance d)
  | _, d => d

end Xf

/-! ## `toolbox3d.AxisPinch` (power law; `powF` stands for `math.Pow(·, Power)`) -/

structure Pinch (α : Type) where
  axis : Nat
  lo : α
  hi : α

namespace Pinch
variable {α : Type}

/-- `AxisPinch.Apply` with `powF t = math.Pow(t, a.Power)`; `two` is the literal `2`. -/
def apply [Add α] [Sub α] [Mul α] [Div α] [Neg α] [OfNat α 0] [OfNat α 2] [LT α] [DecidableLT α]
    (powF : α → α) (a : Pinch α) (c : V3 α) : V3 α :=
  let v := c.get a.axis
  if v < a.lo ∨ a.hi < v then c
  else
    let center := (a.lo + a.hi) / 2
    let scale := (a.hi - a.lo) / 2
    let t := (v - center) / scale
    let negative : Bool := decide (t < 0)
    let t1 := if negative then -t else t
    let t2 := powF t1
    let t3 := if negative then -t2 else t2
    c.set a.axis (t3 * scale + center)

/-- `AxisPinch.ApplyBounds` -/
def applyBounds [Add α] [Sub α] [Mul α] [Div α] [Neg α] [OfNat α 0] [OfNat α 2] [LT α] [DecidableLT α]
    (powF : α → α) (a : Pinch α) (lo hi : V3 α) : V3 α × V3 α :=
  (a.apply powF lo, a.apply powF hi)

end Pinch

/-! ## Wrapped objects (`TransformSolid`, `TransformSDF`, `TransformCollider`, `TransformMetaball`) -/

/-- A `Solid`: bounds and `Contains`. -/
structure Solid (α : Type) where
  lo : V3 α
  hi : V3 α
  contains : V3 α → Bool

/-- An `SDF`: bounds and `SDF`. -/
structure SDF (α : Type) where
  lo : V3 α
  hi : V3 α
  sdf : V3 α → α

structure Ray (α : Type) where
  origin : V3 α
  dir : V3 α
deriving DecidableEq, Repr

/-- `RayCollision` (`extra` stands for the opaque `Extra` value). -/
structure Hit (α : Type) where
  scale : α
  normal : V3 α
  extra : Nat
deriving DecidableEq, Repr

/-- A `Collider`: `hits r` is the sequence of collisions `RayCollisions(r, f)` reports to a non-nil `f`,
`count r` its return value, `first r` the pair returned by `FirstRayCollision`. -/
structure Collider (α : Type) where
  lo : V3 α
  hi : V3 α
  hits : Ray α → List (Hit α)
  count : Ray α → Nat
  first : Ray α → Hit α × Bool
  sphere : V3 α → α → Bool

/-- A `Metaball`. -/
structure Metaball (α : Type) where
  lo : V3 α
  hi : V3 α
  field : V3 α → α
  distBound : α → α

section Wrapped
variable {α : Type} [Add α] [Sub α] [Mul α] [Div α] [Neg α] [OfNat α 0] [OfNat α 1]
  [LT α] [DecidableLT α] [LE α] [DecidableLE α]

/-- `TransformSolid` (through `CheckedFuncSolid`). -/
def transformSolid [BEq α] (t : Xf α) (s : Solid α) : Solid α :=
  let inv := t.inverse
  let b := t.applyBounds s.lo s.hi
  { lo := b.1, hi := b.2, contains := fun c => inBounds c b.1 b.2 && s.contains (inv.apply c) }

/-- `TransformSDF`. -/
def transformSDF (t : Xf α) (s : SDF α) : SDF α :=
  let inv := t.inverse
  let b := t.applyBounds s.lo s.hi
  { lo := b.1, hi := b.2, sdf := fun c => t.applyDistance (s.sdf (inv.apply c)) }

/-- `transformedCollider.innerRay`: the origin through the inverse, the direction through its linear part
(`inv.Apply(d).Sub(inv.Apply(zero))`). -/
def innerRay (inv : Xf α) (r : Ray α) : Ray α :=
  { origin := inv.apply r.origin, dir := (inv.apply r.dir).sub (inv.apply V3.zero) }

/-- `transformedCollider.outerCollision`: the parameter unchanged, the normal through the linear part of
`t`, re-normalised (`sqrtF` = `math.Sqrt`). -/
def outerCollision (sqrtF : α → α) (t : Xf α) (rc : Hit α) : Hit α :=
  { scale := rc.scale, normal := ((t.apply rc.normal).sub (t.apply V3.zero)).normalize sqrtF, extra := rc.extra }

/-- Result of `RayCollisions(r, f)`: return value and the collisions passed to `f`, or a panic. -/
inductive RCResult (α : Type) where
  | ok (count : Nat) (calls : List (Hit α))
  | panic
deriving Repr

/-- `transformedCollider.RayCollisions`; `withCb = false` is `f == nil` (passed through as nil). -/
def tcRayCollisions (sqrtF : α → α) (t : Xf α) (c : Collider α) (r : Ray α) (withCb : Bool) : RCResult α :=
  let ir := innerRay t.inverse r
  if withCb then .ok (c.count ir) ((c.hits ir).map (outerCollision sqrtF t))
  else .ok (c.count ir) []

/-- `transformedCollider.FirstRayCollision` (`RayCollision{}` on a miss). -/
def tcFirst (sqrtF : α → α) (t : Xf α) (c : Collider α) (r : Ray α) : Hit α × Bool :=
  let res := c.first (innerRay t.inverse r)
  if res.2 then (outerCollision sqrtF t res.1, true) else (⟨0, V3.zero, 0⟩, false)

/-- `transformedCollider.SphereCollision` -/
def tcSphere (t : Xf α) (c : Collider α) (p : V3 α) (rad : α) : Bool :=
  c.sphere (t.inverse.apply p) (t.inverse.applyDistance rad)

/-- `TransformCollider`: bounds. -/
def tcBounds (t : Xf α) (c : Collider α) : V3 α × V3 α := t.applyBounds c.lo c.hi

/-- `TransformMetaball` -/
def transformMetaball (t : Xf α) (m : Metaball α) : Metaball α :=
  let inv := t.inverse
  let b := t.applyBounds m.lo m.hi
  { lo := b.1, hi := b.2, field := fun c => m.field (inv.apply c),
    distBound := fun d => m.distBound (inv.applyDistance d) }

/-- `VecScaleMetaball` -/
def vecScaleMetaball (m : Metaball α) (scale : V3 α) : Metaball α :=
  let a := m.lo.mul scale
  let b := m.hi.mul scale
  let invScale := scale.recip
  let invMaxScale := 1 / scale.abs.maxCoord
  { lo := a.min b, hi := b.max a, field := fun c => m.field (c.mul invScale),
    distBound := fun d => m.distBound (d * invMaxScale) }

/-- `MarchingCubesConj`'s solid: `TransformSolid(JoinedTransform(xforms), s)`; the mesh is mapped back
vertex by vertex through `joined.Inverse()` (`Mesh.Transform` = `MapCoords(Apply)`). -/
def conjSolid [BEq α] (t : Xf α) (s : Solid α) : Solid α := transformSolid t s
def conjBack (t : Xf α) (v : V3 α) : V3 α := t.inverse.apply v

end Wrapped

end M3d.Tf
