/-
Marching cubes / marching squares at the level the algorithms see a solid: a Boolean labelling of
lattice points.  The lookup tables themselves are NOT written here — they are regenerated from
/repo into `M3d/Gen/McTable.lean`; everything below is parametric in a table.

Conventions (model3d/mc.go): cube corner `c = x + 2y + 4z`; configuration bit `c` set ⇔ corner
inside; a table triangle is three cube edges (pairs of corners), the mesh vertex is the midpoint
of the edge; triangles are counter-clockwise seen from outside.  Core-only.
-/
namespace M3d.Marching

/-- A cube (or square) edge named by its two corners, smaller corner first: the id of the mesh
vertex that sits on it. -/
abbrev Vtx := Nat × Nat

def mkVtx (a b : Nat) : Vtx := if a ≤ b then (a, b) else (b, a)

def inside (cfg c : Nat) : Bool := cfg.testBit c

def bit (c k : Nat) : Nat := (c >>> k) % 2

/-- `a b` are the ends of a cube edge: they differ in exactly one coordinate bit. -/
def isCubeEdge (a b : Nat) : Bool :=
  a < 8 && b < 8 && ((a ^^^ b) == 1 || (a ^^^ b) == 2 || (a ^^^ b) == 4)

def signChange (cfg : Nat) (v : Vtx) : Bool := inside cfg v.1 != inside cfg v.2

/-- The 12 cube edges. -/
def cubeEdges : List Vtx :=
  [(0,1),(2,3),(4,5),(6,7),(0,2),(1,3),(4,6),(5,7),(0,4),(1,5),(2,6),(3,7)]

/-- A table triangle `[a0,a1,b0,b1,c0,c1]` as three mesh-vertex ids. -/
def triVerts : List Nat → Option (Vtx × Vtx × Vtx)
  | [a0, a1, b0, b1, c0, c1] => some (mkVtx a0 a1, mkVtx b0 b1, mkVtx c0 c1)
  | _ => none

abbrev Tri := Vtx × Vtx × Vtx
abbrev DEdge := Vtx × Vtx

def rowTris (row : List (List Nat)) : List Tri := row.filterMap triVerts

def triEdges (t : Tri) : List DEdge := [(t.1, t.2.1), (t.2.1, t.2.2), (t.2.2, t.1)]

def rev (d : DEdge) : DEdge := (d.2, d.1)

/-! ### 1. rows are well formed -/

/-- Every triangle of the row is made of three distinct cube edges whose ends are labelled
differently, and every sign-changing cube edge carries a vertex of some triangle. -/
def rowWellFormed (cfg : Nat) (row : List (List Nat)) : Bool :=
  row.all (fun r => match r with
    | [a0, a1, b0, b1, c0, c1] =>
      isCubeEdge a0 a1 && isCubeEdge b0 b1 && isCubeEdge c0 c1 &&
      signChange cfg (a0, a1) && signChange cfg (b0, b1) && signChange cfg (c0, c1) &&
      mkVtx a0 a1 != mkVtx b0 b1 && mkVtx b0 b1 != mkVtx c0 c1 && mkVtx a0 a1 != mkVtx c0 c1
    | _ => false) &&
  cubeEdges.all (fun e => signChange cfg e ==
    (rowTris row).any (fun t => t.1 == e || t.2.1 == e || t.2.2 == e))

/-! ### 2. faces of the cube and which mesh edges lie in them -/

/-- A cube face: axis `k ∈ {0,1,2}` and side `s ∈ {0,1}`. -/
abbrev Face := Nat × Nat

def faces : List Face := [(0,0),(0,1),(1,0),(1,1),(2,0),(2,1)]

def vtxOnFace (f : Face) (v : Vtx) : Bool := bit v.1 f.1 == f.2 && bit v.2 f.1 == f.2

def edgeOnFace (f : Face) (d : DEdge) : Bool := vtxOnFace f d.1 && vtxOnFace f d.2

def isInterior (d : DEdge) : Bool := !(faces.any fun f => edgeOnFace f d)

def rowEdges (row : List (List Nat)) : List DEdge := (rowTris row).flatMap triEdges

/-- Directed mesh edges of the row not lying in any cube face cancel in pairs inside the cell:
each occurs once and its reverse occurs once. -/
def interiorBalanced (row : List (List Nat)) : Bool :=
  let es := (rowEdges row).filter isInterior
  es.all fun d => es.count d == 1 && es.count (rev d) == 1

/-- Drop coordinate bit `k` of a corner: its position within a face orthogonal to axis `k`. -/
def dropBit (c k : Nat) : Nat :=
  match k with
  | 0 => c >>> 1
  | 1 => (c % 2) + 2 * (c >>> 2)
  | _ => c % 4

def projVtx (k : Nat) (v : Vtx) : Vtx := mkVtx (dropBit v.1 k) (dropBit v.2 k)

def dedgeLt (a b : DEdge) : Bool :=
  let ka := ((a.1.1 * 8 + a.1.2) * 8 + a.2.1) * 8 + a.2.2
  let kb := ((b.1.1 * 8 + b.1.2) * 8 + b.2.1) * 8 + b.2.2
  ka < kb

def insertD (x : DEdge) : List DEdge → List DEdge
  | [] => [x]
  | y :: ys => if dedgeLt y x then y :: insertD x ys else x :: y :: ys

def sortD (xs : List DEdge) : List DEdge := xs.foldl (fun acc x => insertD x acc) []

/-- The directed mesh edges a row puts on face `f`, in face-local coordinates, sorted. -/
def facePattern (f : Face) (row : List (List Nat)) : List DEdge :=
  sortD (((rowEdges row).filter (edgeOnFace f)).map fun d => (projVtx f.1 d.1, projVtx f.1 d.2))

/-- The four corner bits of face `f` in configuration `cfg` (bit `j` = face-local corner `j`). -/
def faceBits (f : Face) (cfg : Nat) : Nat :=
  ((List.range 8).filter fun c => bit c f.1 == f.2 && inside cfg c).foldl
    (fun acc c => acc + 2 ^ dropBit c f.1) 0

/-- The configuration whose face `f` shows pattern `fb` and whose other four corners are outside. -/
def cfgOfFace (f : Face) (fb : Nat) : Nat :=
  ((List.range 8).filter fun c => bit c f.1 == f.2 && fb.testBit (dropBit c f.1)).foldl
    (fun acc c => acc + 2 ^ c) 0

def getRow (table : List (List (List Nat))) (cfg : Nat) : List (List Nat) := table.getD cfg []

/-- What a cell draws on a face depends only on that face's four corner labels. -/
def faceDetermined (table : List (List (List Nat))) (cfg : Nat) : Bool :=
  faces.all fun f =>
    facePattern f (getRow table cfg) == facePattern f (getRow table (cfgOfFace f (faceBits f cfg)))

/-- Across a shared lattice face the two cells draw exactly each other's reversed edges, no edge
twice and no edge together with its own reverse; nothing is drawn on an all-outside or all-inside
face. -/
def faceOpposite (table : List (List (List Nat))) (k fb : Nat) : Bool :=
  let hi := facePattern (k, 1) (getRow table (cfgOfFace (k, 1) fb))   -- this cell's far face
  let lo := facePattern (k, 0) (getRow table (cfgOfFace (k, 0) fb))   -- the neighbour's near face
  lo == sortD (hi.map rev) &&
  hi.all (fun d => hi.count d == 1 && !hi.contains (rev d)) &&
  ((fb == 0 || fb == 15) → hi.isEmpty)

/-! ### 3. the fan of triangles around a mesh vertex -/

/-- Triangles of the row containing `v`, each rotated so that `v` comes first, as arcs `p → q`
between the other two vertices. -/
def fanArcs (row : List (List Nat)) (v : Vtx) : List DEdge :=
  (rowTris row).filterMap fun t =>
    if t.1 == v then some (t.2.1, t.2.2)
    else if t.2.1 == v then some (t.2.2, t.1)
    else if t.2.2 == v then some (t.1, t.2.1)
    else none

/-- Follow arcs from `p` for at most `fuel` steps, consuming each arc once. -/
def walk : Nat → List DEdge → Vtx → Vtx × List DEdge
  | 0, arcs, p => (p, arcs)
  | fuel + 1, arcs, p =>
    match arcs.find? (fun a => a.1 == p) with
    | some a => walk fuel (arcs.erase a) a.2
    | none => (p, arcs)

/-- The two faces of the cube that contain cube edge `v`. -/
def facesOfEdge (v : Vtx) : List Face := faces.filter fun f => vtxOnFace f v

/-- Levi-Civita sign of `(i,j,k)` as a Bool: `true` for even permutations of (0,1,2). -/
def evenPerm (i j k : Nat) : Bool :=
  (i, j, k) == (0,1,2) || (i, j, k) == (1,2,0) || (i, j, k) == (2,0,1)

/-- The fan around the vertex on sign-changing cube edge `v` is ONE simple path of arcs; its
first vertex lies on one of the two faces through `v`, its last vertex on the other one, and the
sweep from the first to the second face is counter-clockwise about the direction from the
inside end of `v` to its outside end (⇒ normals point from the contained to the excluded side,
and the four cells around a lattice edge chain into one cycle). -/
def fanIsOutwardPath (cfg : Nat) (row : List (List Nat)) (v : Vtx) : Bool :=
  let arcs := fanArcs row v
  match arcs.find? (fun a => !(arcs.any fun b => b.2 == a.1)) with
  | none => false      -- no start: empty or a closed cycle inside one cell
  | some a0 =>
    let (pEnd, rest) := walk arcs.length arcs a0.1
    let f1s := (facesOfEdge v).filter fun f => vtxOnFace f a0.1
    let f2s := (facesOfEdge v).filter fun f => vtxOnFace f pEnd
    rest.isEmpty &&
    (match f1s, f2s with
     | [f1], [f2] =>
       f1 != f2 &&
       -- orientation: u1 = away-from-edge direction inside f1 (along axis f2.1), u2 likewise;
       -- (u1 × u2) · d > 0 with d from the inside end to the outside end of v along axis k
       (let k := if (v.1 ^^^ v.2) == 1 then 0 else if (v.1 ^^^ v.2) == 2 then 1 else 2
        let a := if inside cfg v.1 then v.1 else v.2      -- inside end
        let dPos := bit a k == 0                            -- direction is +k iff inside end has bit 0
        let s := (f1.2 == 0) == (f2.2 == 0)                 -- (1-2 s1)(1-2 s2) > 0
        let ev := evenPerm f2.1 f1.1 k
        ((s == ev) == dPos))
     | _, _ => false)

def fansOk (cfg : Nat) (row : List (List Nat)) : Bool :=
  cubeEdges.all fun e => !signChange cfg e || fanIsOutwardPath cfg row e

/-! ### 4. marching squares (square corner `c = x + 2y`; a segment is two square edges;
clockwise around the outside, i.e. the inside is on the right of start→end … checked below by
role consistency) -/

def isSquareEdge (a b : Nat) : Bool :=
  a < 4 && b < 4 && ((a ^^^ b) == 1 || (a ^^^ b) == 2)

def squareEdges : List Vtx := [(0,1),(2,3),(0,2),(1,3)]

def segEnds : List Nat → Option (Vtx × Vtx)
  | [a0, a1, b0, b1] => some (mkVtx a0 a1, mkVtx b0 b1)
  | _ => none

def rowSegs (row : List (List Nat)) : List (Vtx × Vtx) := row.filterMap segEnds

/-- Each segment joins two distinct sign-changing square edges; every sign-changing square edge is
the start of exactly one segment or the end of exactly one segment (never both, never twice). -/
def msRowWellFormed (cfg : Nat) (row : List (List Nat)) : Bool :=
  row.all (fun r => match r with
    | [a0, a1, b0, b1] =>
      isSquareEdge a0 a1 && isSquareEdge b0 b1 && signChange cfg (a0, a1) && signChange cfg (b0, b1) &&
      mkVtx a0 a1 != mkVtx b0 b1
    | _ => false) &&
  squareEdges.all (fun e =>
    let starts := ((rowSegs row).filter fun s => s.1 == e).length
    let ends := ((rowSegs row).filter fun s => s.2 == e).length
    if signChange cfg e then starts + ends == 1 else starts + ends == 0)

/-- `true` if square edge `e` is used as a segment START in the row. -/
def msIsStart (row : List (List Nat)) (e : Vtx) : Bool := (rowSegs row).any fun s => s.1 == e

/-- Orientation rule of marching squares.  For the vertex on a sign-changing square edge with
inside end `a` and outside end `b`, let `d = b − a` and let `n` be the unit vector from that side
of the cell into the cell; the vertex is a segment START iff `d × n < 0`.  Consequences: the
cell across that lattice edge (same `d`, opposite `n`) uses the vertex in the opposite role, so
every vertex has exactly one incoming and one outgoing segment; and the contained side is on the
right of every segment, i.e. `Segment.Normal = (−Δy, Δx)` points to the excluded side. -/
def msRoleRule (cfg : Nat) (row : List (List Nat)) : Bool :=
  squareEdges.all fun e =>
    !signChange cfg e ||
    (let a := if inside cfg e.1 then e.1 else e.2
     let b := if inside cfg e.1 then e.2 else e.1
     let dx : Int := (b % 2 : Nat) - (a % 2 : Nat)
     let dy : Int := (b / 2 : Nat) - (a / 2 : Nat)
     let k := if (a ^^^ b) == 1 then 1 else 0          -- axis orthogonal to the edge
     let side : Int := (bit a k : Nat)
     let nx : Int := if k == 0 then 1 - 2 * side else 0
     let ny : Int := if k == 1 then 1 - 2 * side else 0
     msIsStart row e == decide (dx * ny - dy * nx < 0))

/-! ### 5. `Bitmap.Mesh` (model2d/bitmap.go): boxes around true pixels, shared sides dropped,
diagonal contacts separated by pulling the corner to the pixel centre.

Points are in quarter pixels and packed as `x * 2^16 + y`; a segment is packed as
`start * 2^32 + end`.  The bitmap is a function on `Nat × Nat` that has been shifted by one pixel
so that the code's reads at `x-1`, `y-1` stay in `Nat` (pixel `(0,0)` of this function is outside
the image and false). -/

def qpt (x y : Nat) : Nat := x * 65536 + y
def qseg (a b : Nat) : Nat := a * 4294967296 + b
def segStart (s : Nat) : Nat := s / 4294967296
def segEnd (s : Nat) : Nat := s % 4294967296

/-- The segments pixel `(i,j)` (`i,j ≥ 1`) contributes — the body of the double loop in
`Bitmap.Mesh`, line by line. -/
def pixelSegs (g : Nat → Nat → Bool) (i j : Nat) : List Nat :=
  if !g i j then [] else
  let left := g (i-1) j; let right := g (i+1) j; let top := g i (j+1); let bottom := g i (j-1)
  let p1 := if !left && !bottom && g (i-1) (j-1) then qpt (4*i+1) (4*j+1) else qpt (4*i) (4*j)
  let p2 := if !right && !bottom && g (i+1) (j-1) then qpt (4*i+3) (4*j+1) else qpt (4*i+4) (4*j)
  let p3 := if !right && !top && g (i+1) (j+1) then qpt (4*i+3) (4*j+3) else qpt (4*i+4) (4*j+4)
  let p4 := if !left && !top && g (i-1) (j+1) then qpt (4*i+1) (4*j+3) else qpt (4*i) (4*j+4)
  (if !left then [qseg p1 p4] else []) ++ (if !right then [qseg p3 p2] else []) ++
  (if !top then [qseg p4 p3] else []) ++ (if !bottom then [qseg p2 p1] else [])

/-- The whole mesh of a `w × h` bitmap (`g` already shifted by one pixel). -/
def bitmapMesh (g : Nat → Nat → Bool) (w h : Nat) : List Nat :=
  (List.range h).flatMap fun j => (List.range w).flatMap fun i => pixelSegs g (i+1) (j+1)

/-- A 4×4 window of pixels as 16 bits (bit `i + 4j` = pixel `(i,j)`). -/
def windowFn (w : Nat) : Nat → Nat → Bool := fun i j => Nat.testBit w (i + 4 * j)

/-- Is `p` one of the (up to five) mesh vertices that can sit at the window's central lattice
corner, quarter-pixel position `(8,8)`? -/
def nearCentre (p : Nat) : Bool :=
  let x := p / 65536; let y := p % 65536
  Nat.ble 7 x && Nat.ble x 9 && Nat.ble 7 y && Nat.ble y 9

def countStart (segs : List Nat) (v : Nat) : Nat :=
  segs.foldl (fun n t => if Nat.beq (segStart t) v then n + 1 else n) 0
def countEnd (segs : List Nat) (v : Nat) : Nat :=
  segs.foldl (fun n t => if Nat.beq (segEnd t) v then n + 1 else n) 0

def inOutOneAt (segs : List Nat) (v : Nat) : Bool :=
  Nat.beq (countStart segs v) 1 && Nat.beq (countEnd segs v) 1

/-- Around the central lattice corner of the window every mesh vertex has exactly one incoming
and one outgoing segment.  Only the four pixels touching that corner can put a vertex there, and
each of them reads nothing outside the window. -/
def windowOk (w : Nat) : Bool :=
  let g := windowFn w
  let segs := pixelSegs g 1 1 ++ pixelSegs g 2 1 ++ pixelSegs g 1 2 ++ pixelSegs g 2 2
  segs.all fun s =>
    (!nearCentre (segStart s) || inOutOneAt segs (segStart s)) &&
    (!nearCentre (segEnd s) || inOutOneAt segs (segEnd s))

/-- `windowOk` for every window in `[lo, lo+n)`. -/
def windowsOk (lo : Nat) : Nat → Bool
  | 0 => true
  | n + 1 => windowOk (lo + n) && windowsOk lo n

/-- 2-D watertightness decider for a packed segment soup: every vertex has exactly one incoming
and one outgoing segment. -/
def inOutOne (segs : List Nat) : Bool :=
  segs.all fun s => inOutOneAt segs (segStart s) && inOutOneAt segs (segEnd s)

end M3d.Marching
