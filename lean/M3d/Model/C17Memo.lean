/-!
# `CacheScalarFunc` (`model2d/curves.go`) — memo-table model (core Lean only)

`CacheScalarFunc(f)` returns a closure over a `sync.Map`: a query `x` that is found in the map returns the stored
value, otherwise `f x` is computed, stored under the key `x` and returned.  The map is modelled as an association
list (newest first; a key is stored at most once, so the order is irrelevant), the closure's mutation as a returned
new table, and a sequence of calls on ONE cached function as `run`.
`BezierCurve.CachedEvalX` is `CacheScalarFunc(b.EvalX)`.
-/
namespace M3d.Memo

variable {α β : Type} [BEq α]

/-- `cache.Load(x)`. -/
def lookup : List (α × β) → α → Option β
  | [], _ => none
  | (k, v) :: r, x => if k == x then some v else lookup r x

/-- One call of the closure returned by `CacheScalarFunc(f)`: result and the table afterwards. -/
def call (f : α → β) (c : List (α × β)) (x : α) : β × List (α × β) :=
  match lookup c x with
  | some v => (v, c)
  | none => (f x, (x, f x) :: c)

/-- A history of calls on one cached function, starting from table `c`: the list of results. -/
def run (f : α → β) : List (α × β) → List α → List β
  | _, [] => []
  | c, x :: xs => (call f c x).1 :: run f (call f c x).2 xs

end M3d.Memo
