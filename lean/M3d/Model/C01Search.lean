import M3d.Model.Bisect
import M3d.Model.MarchingMesh
/-!
# The search step of the marching families on a whole-lattice mesh (property C01; core-only)

`mcSearch` (model3d/mc.go) — shared by `MarchingCubesSearch`, `MarchingCubesSearchFilter`, `MarchingCubesC2F`,
`MarchingCubesConj` and `MarchingCubesInterior` — replaces every vertex of the lattice mesh (the midpoint of a
lattice edge) by `mcSearchPoint` of that vertex: the coordinate ALONG the edge becomes the midpoint of the
bracketing interval after `iters` bisections (`M3d.Bisect.mcSearchPoint … .1`), the other two coordinates stay the
lattice values.  `msSearch` (model2d/marching.go) does the same in 2-D (`M3d.Bisect.msSearchPoint`).

A mesh vertex is a position in doubled lattice coordinates (`GV`: even = on the lattice plane `n/2`, odd = between
the planes `n/2` and `n/2 + 1`); lattice plane `k` of an axis has coordinate `o + k·δ` (`squareSpacer`).  The solid is
an arbitrary function of the point.  The vertex map below is total (every odd coordinate is searched); mesh vertices
have exactly one odd coordinate, and then the two `latCoord` values handed to the solid are the vertex's own
coordinates on the other two axes, as in the code.

`interiorPos` is the OTHER value `mcSearchPoint` computes — the last probe known to be inside, stored in the
`interior` map of `MarchingCubesInterior` — kept here to state that it must NOT be used as the vertex (it is not
injective: it stays on the lattice corner when no probe is inside).
-/
namespace M3d.C01Search
open M3d.Marching

section
variable {α : Type} [Add α] [Mul α] [Div α] [OfNat α 2] [NatCast α]

/-- coordinate of lattice plane `k`: `o + k·δ` -/
def latCoord (o δ : α) (k : Nat) : α := o + (k : α) * δ

/-- one coordinate of the searched vertex: doubled coordinate `n`, containment `P` along the axis -/
def searchCoord (o δ : α) (P : α → Bool) (iters : Nat) (n : Nat) : α :=
  if n % 2 = 0 then latCoord o δ (n / 2)
  else (Bisect.mcSearchPoint P (latCoord o δ (n / 2)) (latCoord o δ (n / 2 + 1)) iters).1

/-- the interior probe `mcSearchPoint` reports next to the vertex (`truePoint` after the loop) -/
def interiorCoord (o δ : α) (P : α → Bool) (iters : Nat) (n : Nat) : α :=
  if n % 2 = 0 then latCoord o δ (n / 2)
  else (Bisect.mcSearchPoint P (latCoord o δ (n / 2)) (latCoord o δ (n / 2 + 1)) iters).2

/-- `mcSearchPoint` as a map of mesh vertices -/
def searchPos (o : α × α × α) (δ : α) (solid : α × α × α → Bool) (iters : Nat) (V : GV) : α × α × α :=
  let x0 := latCoord o.1 δ (V.1 / 2)
  let y0 := latCoord o.2.1 δ (V.2.1 / 2)
  let z0 := latCoord o.2.2 δ (V.2.2 / 2)
  (searchCoord o.1 δ (fun t => solid (t, y0, z0)) iters V.1,
   searchCoord o.2.1 δ (fun t => solid (x0, t, z0)) iters V.2.1,
   searchCoord o.2.2 δ (fun t => solid (x0, y0, t)) iters V.2.2)

/-- the interior point `MarchingCubesInterior` stores for the vertex -/
def interiorPos (o : α × α × α) (δ : α) (solid : α × α × α → Bool) (iters : Nat) (V : GV) : α × α × α :=
  let x0 := latCoord o.1 δ (V.1 / 2)
  let y0 := latCoord o.2.1 δ (V.2.1 / 2)
  let z0 := latCoord o.2.2 δ (V.2.2 / 2)
  (interiorCoord o.1 δ (fun t => solid (t, y0, z0)) iters V.1,
   interiorCoord o.2.1 δ (fun t => solid (x0, t, z0)) iters V.2.1,
   interiorCoord o.2.2 δ (fun t => solid (x0, y0, t)) iters V.2.2)

def map3 {A B : Type} (f : A → B) (t : A × A × A) : B × B × B := (f t.1, f t.2.1, f t.2.2)
def map2 {A B : Type} (f : A → B) (s : A × A) : B × B := (f s.1, f s.2)

/-- `mcSearch`: every vertex of the lattice mesh replaced by its searched position -/
def searchMesh (o : α × α × α) (δ : α) (solid : α × α × α → Bool) (iters : Nat)
    (m : List (GV × GV × GV)) : List ((α × α × α) × (α × α × α) × (α × α × α)) :=
  m.map (map3 (searchPos o δ solid iters))

/-- one coordinate of `msSearch`'s vertex; `np` = "the normal of the first segment at the vertex has a positive
component along the edge" (the swap of the two ends) -/
def searchCoord2 (o δ : α) (P : α → Bool) (np : Bool) (iters : Nat) (n : Nat) : α :=
  if n % 2 = 0 then latCoord o δ (n / 2)
  else Bisect.msSearchPoint P (latCoord o δ (n / 2)) (latCoord o δ (n / 2 + 1)) np iters

def searchPos2 (o : α × α) (δ : α) (solid : α × α → Bool) (np : GV2 → Bool) (iters : Nat) (V : GV2) : α × α :=
  let x0 := latCoord o.1 δ (V.1 / 2)
  let y0 := latCoord o.2 δ (V.2 / 2)
  (searchCoord2 o.1 δ (fun t => solid (t, y0)) (np V) iters V.1,
   searchCoord2 o.2 δ (fun t => solid (x0, t)) (np V) iters V.2)

/-- `msSearch` on a lattice mesh -/
def searchMesh2 (o : α × α) (δ : α) (solid : α × α → Bool) (np : GV2 → Bool) (iters : Nat)
    (m : List (GV2 × GV2)) : List ((α × α) × (α × α)) :=
  m.map (map2 (searchPos2 o δ solid np iters))

end

/-! ### The Conj members: map back, then restore the orientation

`MarchingCubesConj` (model3d/mc.go) / `MarchingSquaresConj` (model2d/marching.go): the searched mesh of the transformed
solid is mapped back vertex by vertex through the inverse of the joined transform (`mesh.Transform(joined.Inverse())`,
`map3 g` / `map2 g` below) and then, if the map back turned it inside out — the signed volume (`mcSignedVolume`) /
signed area (`msSignedArea`) of the mapped mesh, measured from a point `o` of the mesh, is negative —, every face is
reversed (`Mesh.InvertNormals`: `f1[0], f1[1] = f1[1], f1[0]`). -/

/-- `Mesh.InvertNormals` on one triangle (model3d/mesh.go) -/
def flip3 {A : Type} (t : A × A × A) : A × A × A := (t.2.1, t.1, t.2.2)
/-- `Mesh.InvertNormals` on one segment (model2d/mesh.go) -/
def flip2 {A : Type} (s : A × A) : A × A := (s.2, s.1)

section conj
variable {α : Type} [Add α] [Sub α] [Mul α] [OfNat α 0] [LT α] [DecidableLT α]

def sub3 (a o : α × α × α) : α × α × α := (a.1 - o.1, a.2.1 - o.2.1, a.2.2 - o.2.2)
def sub2 (a o : α × α) : α × α := (a.1 - o.1, a.2 - o.2)

/-- the triple product `a · (b × c)` -/
def det3 (a b c : α × α × α) : α :=
  a.1 * (b.2.1 * c.2.2 - b.2.2 * c.2.1) - a.2.1 * (b.1 * c.2.2 - b.2.2 * c.1) + a.2.2 * (b.1 * c.2.1 - b.2.1 * c.1)

def det2 (a b : α × α) : α := a.1 * b.2 - a.2 * b.1

/-- 6 × the signed volume of a triangle soup, measured from `o` (`mcSignedVolume`; positive = normals outward) -/
def vol6At (o : α × α × α) : List ((α × α × α) × (α × α × α) × (α × α × α)) → α
  | [] => 0
  | t :: ts => det3 (sub3 t.1 o) (sub3 t.2.1 o) (sub3 t.2.2 o) + vol6At o ts

/-- 2 × the shoelace sum of a segment soup, measured from `o`; NEGATIVE = the contained side is on the right of every
segment = normals outward (`msSignedArea` is minus one half of it) -/
def shoe2At (o : α × α) : List ((α × α) × (α × α)) → α
  | [] => 0
  | s :: ss => det2 (sub2 s.1 o) (sub2 s.2 o) + shoe2At o ss

/-- `MarchingCubesConj` after the search: map back through `g`, reverse every triangle if the result is inside out -/
def conjMesh (g : α × α × α → α × α × α) (o : α × α × α)
    (ts : List ((α × α × α) × (α × α × α) × (α × α × α))) : List ((α × α × α) × (α × α × α) × (α × α × α)) :=
  let back := ts.map (map3 g)
  if vol6At o back < 0 then back.map flip3 else back

/-- `MarchingSquaresConj` after the search -/
def conjMesh2 (g : α × α → α × α) (o : α × α) (ss : List ((α × α) × (α × α))) : List ((α × α) × (α × α)) :=
  let back := ss.map (map2 g)
  if 0 < shoe2At o back then back.map flip2 else back

end conj

end M3d.C01Search
