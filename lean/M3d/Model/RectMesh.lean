import M3d.Model.RectSet
/-!
# `RectSet.ExactMesh` — face cancellation between the stored boxes (property C01; core-only)

Source: `/repo/toolbox3d/rect_set.go`, `ExactMesh`.  The state of a `RectSet` (stored boxes + split lists) and the
operations that produce it (`Add`, `Remove`, `AddRectSet`, `RemoveRectSet`) are C04's model `M3d.RectSet.RS` /
`Hist.eval`; this file adds what C01 needs on top of it:

* `boxQuads r` — the six quads `ExactMesh` lists for a stored box, in the code's order and with the code's vertex
  order (counter-clockwise seen from outside the box);
* `quadKey q` — `quadMinMax`: the component-wise minimum and maximum of the four corners, the key of the map
  `uniqueQuads`;
* `toggle` / `exactQuads` — the loop `if _, ok := uniqueQuads[key]; ok { delete } else { uniqueQuads[key] = q }` over all
  boxes (the Go map is an association list with distinct keys; its iteration order is not observable: the result
  is a mesh, i.e. a set of triangles);
* `quadTris q` — `Mesh.AddQuad(p1, p2, p3, p4)`: the triangles `(p1, p2, p4)`, `(p2, p3, p4)`.

Only comparisons of coordinates occur (no arithmetic); generic over the scalar, proved over every linear order
(`Lemmas/RectMesh.lean`), executed at `Rat` on the exact values of the floats.
-/
namespace M3d.RectMesh
open M3d.RectSet

abbrev Quad (α : Type) := V3 α × V3 α × V3 α × V3 α

section
variable {α : Type} [LT α] [DecidableLT α] [DecidableEq α]

/-- `point(x, y, z)` of `ExactMesh`: the corner with the box's max on the chosen axes -/
def corner (r : Rect α) (x y z : Bool) : V3 α :=
  ⟨if x then r.hi.x else r.lo.x, if y then r.hi.y else r.lo.y, if z then r.hi.z else r.lo.z⟩

/-- the six quads of a box, as listed in `ExactMesh` (`min = point(0,0,0)`, `max = point(1,1,1)`) -/
def boxQuads (r : Rect α) : List (Quad α) :=
  let p := corner r
  [ (p false false false, p true false false, p true false true, p false false true),   -- y = min
    (p true true true, p true true false, p false true false, p false true true),       -- y = max
    (p false false false, p false false true, p false true true, p false true false),   -- x = min
    (p true true true, p true false true, p true false false, p true true false),       -- x = max
    (p false false false, p false true false, p true true false, p true false false),   -- z = min
    (p true true true, p false true true, p false false true, p true false true) ]      -- z = max

def smin (a b : α) : α := if b < a then b else a
def smax (a b : α) : α := if a < b then b else a
def vmin (a b : V3 α) : V3 α := ⟨smin a.x b.x, smin a.y b.y, smin a.z b.z⟩
def vmax (a b : V3 α) : V3 α := ⟨smax a.x b.x, smax a.y b.y, smax a.z b.z⟩

/-- `quadMinMax` -/
def quadKey (q : Quad α) : V3 α × V3 α :=
  (vmin q.1 (vmin q.2.1 (vmin q.2.2.1 q.2.2.2)), vmax q.1 (vmax q.2.1 (vmax q.2.2.1 q.2.2.2)))

/-- one step of the `uniqueQuads` loop -/
def toggle (m : List ((V3 α × V3 α) × Quad α)) (q : Quad α) : List ((V3 α × V3 α) × Quad α) :=
  if m.any (fun e => decide (e.1 = quadKey q)) then m.filter (fun e => !decide (e.1 = quadKey q))
  else m ++ [(quadKey q, q)]

/-- the quads left in `uniqueQuads` after all stored boxes -/
def exactQuads (rects : List (Rect α)) : List (Quad α) :=
  ((rects.flatMap boxQuads).foldl toggle []).map (·.2)

/-- `Mesh.AddQuad` -/
def quadTris (q : Quad α) : List (V3 α × V3 α × V3 α) := [(q.1, q.2.1, q.2.2.2), (q.2.1, q.2.2.1, q.2.2.2)]

/-- `RectSet.ExactMesh()` as a triangle list -/
def exactMesh (rects : List (Rect α)) : List (V3 α × V3 α × V3 α) := (exactQuads rects).flatMap quadTris

/-- `model3d.NewMeshRect(r.lo, r.hi)`: the same six quads (same `point` function, same vertex order), each added
with `AddQuad` -/
def meshRect (r : Rect α) : List (V3 α × V3 α × V3 α) := (boxQuads r).flatMap quadTris

/-- `model2d.NewMeshRect(min, max)`: `p1 = (min.X, max.Y)`, `p2 = (max.X, min.Y)`; segments `min→p1→max→p2→min` -/
def meshRect2 (lo hi : α × α) : List ((α × α) × (α × α)) :=
  let p1 := (lo.1, hi.2)
  let p2 := (hi.1, lo.2)
  [(lo, p1), (p1, hi), (hi, p2), (p2, lo)]

end
end M3d.RectMesh
