/-!
# C06 — executable model of the signed-distance code

Transcribes (operand order is the Go order, so that the `Float` run is bit-for-bit the Go run)

* `templates/shapes.template` ⇒ `model3d/shapes.go`, `model2d/shapes.go`:
  `Sphere/Circle.{SDF,PointSDF,NormalSDF}`, `Rect.{Contains,normalAt,genericSDF}` (2-D and 3-D),
  `Capsule.genericSDF` (2-D and 3-D), `Cylinder.genericSDF`, `filledCircleDist`, `Cone.{Contains,genericSDF}`,
  `Torus.genericSDF`, `safeNormal` (2-D and 3-D), 2-D `Triangle.{Contains,genericSDF}`;
* `model3d/primitives.go`, `model2d/primitives.go`: `NewSegment`, `Segment.Closest/Dist`,
  `Triangle.Closest/Dist` (3-D);
* `model3d/coords.go`: `Coord3D.{Add,Sub,Scale,Dot,Cross,Norm,Dist,Normalize,Min,Max,ProjectOut,OrthoBasis}`;
  `Matrix3.{Det,InvertInPlace,MulColumn}`, `Matrix2.{Det,InvertInPlaceDet,MulColumn}`;
* `templates/sdf.template` ⇒ `sdf.go`: `meshSDF` (sign from `ColliderSolid.Contains` = bounds test and
  ray-collision parity, magnitude from `meshDistFunc.Dist` — here the linear scan it is proved equal to in
  C08), `profileSDF.SDF`, `profilePointSDF.PointSDF`, `colliderSDF.SDF`;
* `templates/transform.template` ⇒ `transform.go`: `Translate`, `Scale`, `orthoMatrix{3,2}Transform`, `JoinedTransform`
  (`Apply`, `ApplyDistance`, `Inverse`), `TransformSDF`, `transformedCollider.SphereCollision/CircleCollision`.

Core Lean only.  Generic over the scalar `α`; `math.Sqrt` and the float literals `1e-5`, `0.5` come in
through `Env`.  `math.Inf(1)` as the initial value of a running minimum is `none`.  A Go `x == 0` on a value
that is a `Norm()` is `isZero` (`¬ 0 < x ∧ ¬ x < 0`, the same on every non-NaN float).  Pointers to optional
outputs (`normalOut`, `pointOut`) are modelled by always computing both; the Go code computes each of them
independently of which pointers are non-nil.
-/
namespace M3d.Sdf

/-- `math.Sqrt` and the float constants the code uses. -/
structure Env (α : Type) where
  sqrt : α → α
  /-- the literal `1e-5` of `safeNormal` -/
  eps5 : α
  /-- the literal `0.5` of `Coord.Mid` -/
  half : α

section
variable {α : Type} [Add α] [Sub α] [Mul α] [Div α] [Neg α] [LT α] [DecidableLT α] [LE α] [DecidableLE α]
  [OfNat α 0] [OfNat α 1]

/-! ## scalars -/

/-- `math.Abs` (bit-exact on non-NaN floats, `-0 ↦ +0` included). -/
def absS (x : α) : α := if (0 : α) < x then x else 0 - x
/-- `math.Min` on non-NaN values. -/
def mn (a b : α) : α := if b < a then b else a
/-- `math.Max` on non-NaN values. -/
def mx (a b : α) : α := if a < b then b else a
/-- Go `x == 0`. -/
def isZero (x : α) : Bool := !(decide ((0 : α) < x) || decide (x < 0))
/-- `x <= *curDist` where `*curDist` may still be `math.Inf(1)` (`none`). -/
def leCur (x : α) : Option α → Bool
  | none => true
  | some c => decide (x ≤ c)
/-- `x < *curDist` where `*curDist` may still be `math.Inf(1)`. -/
def ltCur (x : α) : Option α → Bool
  | none => true
  | some c => decide (x < c)

/-- First strict minimum of a non-empty candidate list: the Go idiom
`best := Inf; for … { if d < best { best = d; … } }` (the first candidate always wins against `Inf`). -/
def pickMin {β : Type} : (α × β) → List (α × β) → (α × β)
  | best, [] => best
  | best, x :: xs => pickMin (if x.1 < best.1 then x else best) xs

/-! ## `Coord3D` -/

structure V3 (α : Type) where
  x : α
  y : α
  z : α
deriving Repr

structure V2 (α : Type) where
  x : α
  y : α
deriving Repr

namespace V3
def zero : V3 α := ⟨0, 0, 0⟩
def add (a b : V3 α) : V3 α := ⟨a.x + b.x, a.y + b.y, a.z + b.z⟩
/-- `Coord3D.Sub` (`c.Add(c1.Scale(-1))`; `a + b·(-1)` and `a - b` are the same float). -/
def sub (a b : V3 α) : V3 α := ⟨a.x - b.x, a.y - b.y, a.z - b.z⟩
def scale (a : V3 α) (s : α) : V3 α := ⟨a.x * s, a.y * s, a.z * s⟩
def dot (a b : V3 α) : α := a.x * b.x + a.y * b.y + a.z * b.z
def cross (c c1 : V3 α) : V3 α :=
  ⟨c.y * c1.z - c.z * c1.y, c.z * c1.x - c.x * c1.z, c.x * c1.y - c.y * c1.x⟩
def normSq (a : V3 α) : α := a.x * a.x + a.y * a.y + a.z * a.z
def norm (E : Env α) (a : V3 α) : α := E.sqrt (a.x * a.x + a.y * a.y + a.z * a.z)
/-- `c.SquaredDist(c1)` -/
def sqDist (c c1 : V3 α) : α :=
  (c.x - c1.x) * (c.x - c1.x) + (c.y - c1.y) * (c.y - c1.y) + (c.z - c1.z) * (c.z - c1.z)
/-- `c.Dist(c1)` -/
def dist (E : Env α) (c c1 : V3 α) : α := E.sqrt (sqDist c c1)
def normalize (E : Env α) (a : V3 α) : V3 α := a.scale (1 / a.norm E)
def vmin (a b : V3 α) : V3 α := ⟨mn a.x b.x, mn a.y b.y, mn a.z b.z⟩
def vmax (a b : V3 α) : V3 α := ⟨mx a.x b.x, mx a.y b.y, mx a.z b.z⟩
/-- `c.ProjectOut(c1)` -/
def projectOut (E : Env α) (c c1 : V3 α) : V3 α :=
  let normed := c1.normalize E
  c.sub (normed.scale (normed.dot c))
def get (c : V3 α) : Nat → α
  | 0 => c.x
  | 1 => c.y
  | _ => c.z
def set (c : V3 α) (axis : Nat) (v : α) : V3 α :=
  match axis with
  | 0 => ⟨v, c.y, c.z⟩
  | 1 => ⟨c.x, v, c.z⟩
  | _ => ⟨c.x, c.y, v⟩
/-- `var arr [3]float64; arr[axis] = s; NewCoord3DArray(arr)` -/
def unit (axis : Nat) (s : α) : V3 α := (zero : V3 α).set axis s

/-- The un-normalised first vector of `OrthoBasis`. -/
def orthoRaw1 (c : V3 α) : V3 α :=
  let absX := absS c.x
  let absY := absS c.y
  let absZ := absS c.z
  if absY < absX ∧ absZ < absX then ⟨c.y / absX, (-c.x) / absX, 0⟩
  else if absZ < absY then ⟨0, c.z / absY, (-c.y) / absY⟩
  else ⟨0, c.z / absZ, (-c.y) / absZ⟩
/-- The un-normalised second vector of `OrthoBasis` (`basis1 × c`). -/
def orthoRaw2 (c : V3 α) : V3 α :=
  let b1 := orthoRaw1 c
  ⟨b1.y * c.z - b1.z * c.y, b1.z * c.x - b1.x * c.z, b1.x * c.y - b1.y * c.x⟩
/-- `c.OrthoBasis()` -/
def orthoBasis (E : Env α) (c : V3 α) : V3 α × V3 α :=
  ((orthoRaw1 c).normalize E, (orthoRaw2 c).normalize E)
end V3

namespace V2
def zero : V2 α := ⟨0, 0⟩
def add (a b : V2 α) : V2 α := ⟨a.x + b.x, a.y + b.y⟩
def sub (a b : V2 α) : V2 α := ⟨a.x - b.x, a.y - b.y⟩
def scale (a : V2 α) (s : α) : V2 α := ⟨a.x * s, a.y * s⟩
def dot (a b : V2 α) : α := a.x * b.x + a.y * b.y
def normSq (a : V2 α) : α := a.x * a.x + a.y * a.y
def norm (E : Env α) (a : V2 α) : α := E.sqrt (a.x * a.x + a.y * a.y)
def sqDist (c c1 : V2 α) : α := (c.x - c1.x) * (c.x - c1.x) + (c.y - c1.y) * (c.y - c1.y)
def dist (E : Env α) (c c1 : V2 α) : α := E.sqrt (sqDist c c1)
def normalize (E : Env α) (a : V2 α) : V2 α := a.scale (1 / a.norm E)
def vmin (a b : V2 α) : V2 α := ⟨mn a.x b.x, mn a.y b.y⟩
def vmax (a b : V2 α) : V2 α := ⟨mx a.x b.x, mx a.y b.y⟩
def projectOut (E : Env α) (c c1 : V2 α) : V2 α :=
  let normed := c1.normalize E
  c.sub (normed.scale (normed.dot c))
/-- `c.Mid(c1)` = `c.Add(c1).Scale(0.5)` -/
def mid (E : Env α) (c c1 : V2 α) : V2 α := (c.add c1).scale E.half
def get (c : V2 α) : Nat → α
  | 0 => c.x
  | _ => c.y
def set (c : V2 α) (axis : Nat) (v : α) : V2 α :=
  match axis with
  | 0 => ⟨v, c.y⟩
  | _ => ⟨c.x, v⟩
def unit (axis : Nat) (s : α) : V2 α := (zero : V2 α).set axis s
end V2

/-- What `genericSDF` produces: the value, the normal (`normalOut`) and the nearest point (`pointOut`). -/
structure Out3 (α : Type) where
  val : α
  n : V3 α
  p : V3 α

structure Out2 (α : Type) where
  val : α
  n : V2 α
  p : V2 α

/-! ## `safeNormal` -/

/-- 3-D `safeNormal(direction, fallbackDirection, invalidDirection)`. -/
def safeNormal3 (E : Env α) (direction fallback invalid : V3 α) : V3 α :=
  let norm := direction.norm E
  if isZero norm then fallback
  else
    let d1 := direction.scale (1 / norm)
    let d2 := d1.projectOut E invalid
    let norm2 := d2.norm E
    if norm2 < E.eps5 then fallback else d2.scale (1 / norm2)

/-- 2-D `safeNormal`. -/
def safeNormal2 (E : Env α) (direction fallback invalid : V2 α) : V2 α :=
  let norm := direction.norm E
  if isZero norm then fallback
  else
    let d1 := direction.scale (1 / norm)
    let d2 := d1.projectOut E invalid
    let norm2 := d2.norm E
    if norm2 < E.eps5 then fallback else d2.scale (1 / norm2)

/-! ## `Sphere` / `Circle` -/

/-- `Sphere.SDF` -/
def sphereSDF (E : Env α) (center : V3 α) (r : α) (c : V3 α) : α := r - c.dist E center

/-- `Sphere.PointSDF` and `Sphere.NormalSDF` together. -/
def sphereOut (E : Env α) (center : V3 α) (r : α) (c : V3 α) : Out3 α :=
  let direction := c.sub center
  let norm := direction.norm E
  if isZero norm then ⟨r, ⟨1, 0, 0⟩, center.add ⟨r, 0, 0⟩⟩
  else ⟨sphereSDF E center r c, direction.scale (1 / norm), center.add (direction.scale (r / norm))⟩

/-- `Circle.SDF` -/
def circleSDF (E : Env α) (center : V2 α) (r : α) (c : V2 α) : α := r - c.dist E center

/-- `Circle.PointSDF` and `Circle.NormalSDF` together. -/
def circleOut (E : Env α) (center : V2 α) (r : α) (c : V2 α) : Out2 α :=
  let direction := c.sub center
  let norm := direction.norm E
  if isZero norm then ⟨r, ⟨1, 0⟩, center.add ⟨r, 0⟩⟩
  else ⟨circleSDF E center r c, direction.scale (1 / norm), center.add (direction.scale (r / norm))⟩

/-! ## `Rect` -/

/-- `Rect.Contains`: `c.Min(r.MinVal) == r.MinVal && c.Max(r.MaxVal) == r.MaxVal`. -/
def rectContains3 (lo hi c : V3 α) : Bool :=
  !decide (c.x < lo.x) && !decide (c.y < lo.y) && !decide (c.z < lo.z) &&
  !decide (hi.x < c.x) && !decide (hi.y < c.y) && !decide (hi.z < c.z)

def rectContains2 (lo hi c : V2 α) : Bool :=
  !decide (c.x < lo.x) && !decide (c.y < lo.y) && !decide (hi.x < c.x) && !decide (hi.y < c.y)

/-- A face of a box: the axis and whether it is the `MaxVal` face. -/
abbrev Face := Nat × Bool

/-- candidates of `Rect.normalAt`, in loop order -/
def normalAtCands3 (lo hi c : V3 α) : List (α × Face) :=
  [(absS (c.x - lo.x), (0, false)), (absS (c.x - hi.x), (0, true)),
   (absS (c.y - lo.y), (1, false)), (absS (c.y - hi.y), (1, true)),
   (absS (c.z - lo.z), (2, false)), (absS (c.z - hi.z), (2, true))]

def normalAtCands2 (lo hi c : V2 α) : List (α × Face) :=
  [(absS (c.x - lo.x), (0, false)), (absS (c.x - hi.x), (0, true)),
   (absS (c.y - lo.y), (1, false)), (absS (c.y - hi.y), (1, true))]

/-- the face selected by `Rect.normalAt` -/
def normalAtFace3 (lo hi c : V3 α) : Face :=
  (pickMin (absS (c.x - lo.x), ((0, false) : Face)) ((normalAtCands3 lo hi c).drop 1)).2

def normalAtFace2 (lo hi c : V2 α) : Face :=
  (pickMin (absS (c.x - lo.x), ((0, false) : Face)) ((normalAtCands2 lo hi c).drop 1)).2

/-- `resArr[axis] = sign` -/
def faceNormal3 (f : Face) : V3 α := V3.unit f.1 (if f.2 then (1 : α) else -1)
def faceNormal2 (f : Face) : V2 α := V2.unit f.1 (if f.2 then (1 : α) else -1)

/-- per-axis candidate of the inside branch of `Rect.genericSDF`:
`axisD = math.Min(minD, maxD)` and the side `minD < maxD ? MinVal : MaxVal`. -/
def insideCand (i : Nat) (lo hi c : α) : α × Face :=
  (mn (c - lo) (hi - c), (i, !decide (c - lo < hi - c)))

/-- the (distance, face) selected by the inside loop -/
def rectInsidePick3 (lo hi c : V3 α) : α × Face :=
  pickMin (insideCand 0 lo.x hi.x c.x) [insideCand 1 lo.y hi.y c.y, insideCand 2 lo.z hi.z c.z]

def rectInsidePick2 (lo hi c : V2 α) : α × Face :=
  pickMin (insideCand 0 lo.x hi.x c.x) [insideCand 1 lo.y hi.y c.y]

/-- 3-D `Rect.genericSDF` (value, normal, nearest point). -/
def rectOut3 (E : Env α) (lo hi c : V3 α) : Out3 α :=
  if !rectContains3 lo hi c then
    let nearest := (c.vmin hi).vmax lo
    ⟨-(c.dist E nearest), faceNormal3 (normalAtFace3 lo hi nearest), nearest⟩
  else
    let pk := rectInsidePick3 lo hi c
    ⟨pk.1, faceNormal3 pk.2, c.set pk.2.1 (if pk.2.2 then hi.get pk.2.1 else lo.get pk.2.1)⟩

/-- 2-D `Rect.genericSDF`. -/
def rectOut2 (E : Env α) (lo hi c : V2 α) : Out2 α :=
  if !rectContains2 lo hi c then
    let nearest := (c.vmin hi).vmax lo
    ⟨-(c.dist E nearest), faceNormal2 (normalAtFace2 lo hi nearest), nearest⟩
  else
    let pk := rectInsidePick2 lo hi c
    ⟨pk.1, faceNormal2 pk.2, c.set pk.2.1 (if pk.2.2 then hi.get pk.2.1 else lo.get pk.2.1)⟩

/-! ## `Segment` -/

/-- 3-D `NewSegment` (canonical lexicographic ordering of the end points). -/
def newSegment3 (p1 p2 : V3 α) : V3 α × V3 α :=
  if p1.x < p2.x ∨ (isZero (p1.x - p2.x) ∧ p1.y < p2.y) ∨
      (isZero (p1.x - p2.x) ∧ isZero (p1.y - p2.y) ∧ p1.z < p2.z) then (p1, p2) else (p2, p1)

/-- 3-D `Segment.Closest` -/
def segClosest3 (E : Env α) (s0 s1 c : V3 α) : V3 α :=
  let v1 := s1.sub s0
  let norm := v1.norm E
  let v := v1.scale (1 / norm)
  let v2 := c.sub s0
  let mag := v.dot v2
  if norm < mag then s1 else if mag < 0 then s0 else (v.scale mag).add s0

/-- 3-D `Segment.Dist` -/
def segDist3 (E : Env α) (s0 s1 c : V3 α) : α := c.dist E (segClosest3 E s0 s1 c)

/-- 2-D `Segment.Closest` -/
def segClosest2 (E : Env α) (s0 s1 c : V2 α) : V2 α :=
  let v1 := s1.sub s0
  let norm := v1.norm E
  let v := v1.scale (1 / norm)
  let v2 := c.sub s0
  let mag := v.dot v2
  if norm < mag then s1 else if mag < 0 then s0 else (v.scale mag).add s0

def segDist2 (E : Env α) (s0 s1 c : V2 α) : α := c.dist E (segClosest2 E s0 s1 c)

/-- `Segment.Closest` without `sqrt` (the form executed at `Rat` in exact mode; equal to `segClosest3`
for an exact `sqrt`, `M3d.Sdf.segClosest3_eq_Q`): compare `B = v1·(c - s0)` with `0` and `A = v1·v1`. -/
def segClosestQ3 (s0 s1 c : V3 α) : V3 α :=
  let v1 := s1.sub s0
  let a := v1.dot v1
  let b := v1.dot (c.sub s0)
  if a < b then s1 else if b < 0 then s0 else (v1.scale (b / a)).add s0

def segClosestQ2 (s0 s1 c : V2 α) : V2 α :=
  let v1 := s1.sub s0
  let a := v1.dot v1
  let b := v1.dot (c.sub s0)
  if a < b then s1 else if b < 0 then s0 else (v1.scale (b / a)).add s0

/-! ## `Capsule` -/

/-- Go `coord == proxy.Center` on coordinates (component-wise float equality). -/
def vecEq3 (a b : V3 α) : Bool := isZero (a.x - b.x) && isZero (a.y - b.y) && isZero (a.z - b.z)
def vecEq2 (a b : V2 α) : Bool := isZero (a.x - b.x) && isZero (a.y - b.y)

/-- the rounded-side branch of `Capsule.genericSDF` / `Cylinder.genericSDF`: the normal
`safeNormal(coord - projPoint, b1, axis)` -/
def sideNormal3 (E : Env α) (p1 axis : V3 α) (dot : α) (c : V3 α) : V3 α :=
  let projPoint := p1.add (axis.scale dot)
  let delta := c.sub projPoint
  safeNormal3 E delta (axis.orthoBasis E).1 axis

/-- 3-D `Capsule.genericSDF` -/
def capsuleOut3 (E : Env α) (p1 p2 : V3 α) (r : α) (c : V3 α) : Out3 α :=
  let v := p2.sub p1
  let norm := v.norm E
  let axis := v.scale (1 / norm)
  let dot := (c.sub p1).dot axis
  if dot < 0 ∨ norm < dot then
    let center := if dot < 0 then p1 else p2
    if vecEq3 c center then
      let normal := if dot < 0 then axis.scale (-1) else axis
      ⟨r, normal, c.add (normal.scale r)⟩
    else sphereOut E center r c
  else
    let sdf := r - segDist3 E p1 p2 c
    let normal := sideNormal3 E p1 axis dot c
    ⟨sdf, normal, (p1.add (axis.scale dot)).add (normal.scale r)⟩

/-- 2-D `Capsule.genericSDF` (`b1 := XY(-axis.Y, axis.X)`) -/
def capsuleOut2 (E : Env α) (p1 p2 : V2 α) (r : α) (c : V2 α) : Out2 α :=
  let v := p2.sub p1
  let norm := v.norm E
  let axis := v.scale (1 / norm)
  let dot := (c.sub p1).dot axis
  if dot < 0 ∨ norm < dot then
    let center := if dot < 0 then p1 else p2
    if vecEq2 c center then
      let normal := if dot < 0 then axis.scale (-1) else axis
      ⟨r, normal, c.add (normal.scale r)⟩
    else circleOut E center r c
  else
    let sdf := r - segDist2 E p1 p2 c
    let projPoint := p1.add (axis.scale dot)
    let delta := c.sub projPoint
    let normal := safeNormal2 E delta ⟨-axis.y, axis.x⟩ axis
    ⟨sdf, normal, projPoint.add (normal.scale r)⟩

/-! ## `filledCircleDist`, `Cylinder` -/

/-- the running minimum threaded through `filledCircleDist` (`*curDist`, `*normalOut`, `*pointOut`) -/
structure St (α : Type) where
  dist : Option α
  n : V3 α
  p : V3 α

/-- `filledCircleDist(c, center, axis, radius, &dist, normalOut, pointOut)` -/
def filledCircleDist (E : Env α) (c center axis : V3 α) (radius : α) (st : St α) : St α :=
  let b := axis.orthoBasis E
  let d := c.sub center
  let px := b.1.dot d
  let py := b.2.dot d
  let pz := axis.dot d
  let norm2 := E.sqrt (px * px + py * py)
  if norm2 < radius then
    let dist := absS pz
    if leCur dist st.dist then
      ⟨some dist, axis, (center.add (b.1.scale px)).add (b.2.scale py)⟩
    else st
  else
    let n2 := norm2 - radius
    let dist := E.sqrt (n2 * n2 + pz * pz)
    if leCur dist st.dist then
      let dir2d : V2 α := ((⟨px, py⟩ : V2 α).normalize E).scale radius
      ⟨some dist, axis, (center.add (b.1.scale dir2d.x)).add (b.2.scale dir2d.y)⟩
    else st

/-- value of an `Option` running minimum that is known to be set -/
def getD0 (o : Option α) : α := match o with | some x => x | none => 0

/-- `Cylinder.genericSDF` -/
def cylinderOut (E : Env α) (p1 p2 : V3 α) (r : α) (c : V3 α) : Out3 α :=
  let axis0 := p2.sub p1
  let norm := axis0.norm E
  let axis := axis0.scale (1 / norm)
  let d := axis.dot (c.sub p1)
  let inSide : Bool := !decide (d < 0) && decide (d < norm)
  let sd := r - segDist3 E p1 p2 c
  let contained : Bool := inSide && decide (0 < sd)
  let st0 : St α :=
    if inSide then
      let normal := sideNormal3 E p1 axis d c
      ⟨some (if 0 < sd then sd else -sd), normal, (p1.add (axis.scale d)).add (normal.scale r)⟩
    else ⟨none, V3.zero, V3.zero⟩
  let st1 := filledCircleDist E c p1 (axis.scale (-1)) r st0
  let st2 := filledCircleDist E c p2 axis r st1
  let dist := getD0 st2.dist
  ⟨if contained then dist else -dist, st2.n, st2.p⟩

/-! ## `Cone` -/

/-- `Cone.Contains` -/
def coneContains (E : Env α) (tip base : V3 α) (r : α) (p : V3 α) : Bool :=
  let diff := tip.sub base
  let direction := diff.normalize E
  let frac := (p.sub base).dot direction
  let radiusFrac := 1 - frac / diff.norm E
  if radiusFrac < 0 ∨ 1 < radiusFrac then false
  else
    let projection := base.add (direction.scale frac)
    decide (projection.dist E p ≤ r * radiusFrac)

/-- the radial unit vector of `Cone.genericSDF`: `safeNormal(p - Base, fallback, Tip - Base)` -/
def coneRadial (E : Env α) (tip base p : V3 α) : V3 α :=
  let centerLine := tip.sub base
  safeNormal3 E (p.sub base) (centerLine.orthoBasis E).1 centerLine

/-- The normal `Cone.genericSDF` reports for the slanted side, as repaired by the `fix:` commit:
`height := centerLine.Norm(); axis.Scale(height).Add(centerLine.Scale(c.Radius / height)).Normalize()`. -/
def coneSideNormal (E : Env α) (tip base : V3 α) (r : α) (axis : V3 α) : V3 α :=
  let centerLine := tip.sub base
  let height := centerLine.norm E
  ((axis.scale height).add (centerLine.scale (r / height))).normalize E

/-- The slanted-side normal before the repair (defect F6, radius and height swapped):
`axis.Scale(c.Radius).Add(c.Tip.Sub(c.Base)).Normalize()`. Kept for the search theorem. -/
def coneSideNormalOld (E : Env α) (tip base : V3 α) (r : α) (axis : V3 α) : V3 α :=
  ((axis.scale r).add (tip.sub base)).normalize E

/-- `Cone.genericSDF`, parametrised by the slanted-side normal formula. -/
def coneOutWith (sideN : Env α → V3 α → V3 α → α → V3 α → V3 α)
    (E : Env α) (tip base : V3 α) (r : α) (p : V3 α) : Out3 α :=
  let st0 := filledCircleDist E p base ((base.sub tip).normalize E) r ⟨none, V3.zero, V3.zero⟩
  let axis := coneRadial E tip base p
  let seg := newSegment3 tip (base.add (axis.scale r))
  let edgeDist := segDist3 E seg.1 seg.2 p
  let st1 : St α :=
    if ltCur edgeDist st0.dist then ⟨some edgeDist, sideN E tip base r axis, segClosest3 E seg.1 seg.2 p⟩
    else st0
  let dist := getD0 st1.dist
  ⟨if coneContains E tip base r p then dist else -dist, st1.n, st1.p⟩

/-- `Cone.genericSDF` (current code). -/
def coneOut (E : Env α) (tip base : V3 α) (r : α) (p : V3 α) : Out3 α :=
  coneOutWith coneSideNormal E tip base r p

/-- `Cone.genericSDF` before the repair of F6. -/
def coneOutOld (E : Env α) (tip base : V3 α) (r : α) (p : V3 α) : Out3 α :=
  coneOutWith coneSideNormalOld E tip base r p

/-! ## `Torus` -/

/-- the point of the centre ring nearest to `centered` (`ringPoint` of `Torus.genericSDF`),
given the basis `b1, b2` of the ring plane -/
def torusRing (E : Env α) (b1 b2 : V3 α) (outerR : α) (centered : V3 α) : V3 α :=
  let x := b1.dot centered
  let y := b2.dot centered
  let outerNorm := E.sqrt (x * x + y * y)
  let deg := isZero outerNorm
  let x := if deg then 1 else x
  let y := if deg then 0 else y
  let outerNorm := if deg then 1 else outerNorm
  let scale := outerR / outerNorm
  (b1.scale (x * scale)).add (b2.scale (y * scale))

/-- the normal of `Torus.genericSDF` given the ring point -/
def torusNormal (E : Env α) (axis ringPoint centered : V3 α) : V3 α :=
  safeNormal3 E (centered.sub ringPoint) (axis.normalize E) (ringPoint.cross axis)

/-- `Torus.genericSDF` -/
def torusOut (E : Env α) (center axis : V3 α) (outerR innerR : α) (c : V3 α) : Out3 α :=
  let b := axis.orthoBasis E
  let centered := c.sub center
  let ringPoint := torusRing E b.1 b.2 outerR centered
  let direction := torusNormal E axis ringPoint centered
  ⟨innerR - ringPoint.dist E centered, direction, (ringPoint.add (direction.scale innerR)).add center⟩

/-! ## 3-D `Triangle.Closest` / `Dist` -/

/-- row-major `Matrix3` -/
structure M3 (α : Type) where
  m0 : α
  m1 : α
  m2 : α
  m3 : α
  m4 : α
  m5 : α
  m6 : α
  m7 : α
  m8 : α

namespace M3
def ofColumns (c1 c2 c3 : V3 α) : M3 α := ⟨c1.x, c2.x, c3.x, c1.y, c2.y, c3.y, c1.z, c2.z, c3.z⟩
def det (m : M3 α) : α :=
  m.m0 * (m.m4 * m.m8 - m.m5 * m.m7) - m.m1 * (m.m3 * m.m8 - m.m5 * m.m6) + m.m2 * (m.m3 * m.m7 - m.m4 * m.m6)
/-- `InvertInPlace` = `InvertInPlaceDet(m.Det())`: adjugate, then `Scale(1 / det)` -/
def inverse (m : M3 α) : M3 α :=
  let s := 1 / m.det
  ⟨(m.m4 * m.m8 - m.m5 * m.m7) * s, (m.m2 * m.m7 - m.m1 * m.m8) * s, (m.m1 * m.m5 - m.m2 * m.m4) * s,
   (m.m5 * m.m6 - m.m3 * m.m8) * s, (m.m0 * m.m8 - m.m2 * m.m6) * s, (m.m2 * m.m3 - m.m0 * m.m5) * s,
   (m.m3 * m.m7 - m.m4 * m.m6) * s, (m.m1 * m.m6 - m.m0 * m.m7) * s, (m.m0 * m.m4 - m.m1 * m.m3) * s⟩
def mulColumn (m : M3 α) (c : V3 α) : V3 α :=
  ⟨m.m0 * c.x + m.m1 * c.y + m.m2 * c.z, m.m3 * c.x + m.m4 * c.y + m.m5 * c.z, m.m6 * c.x + m.m7 * c.y + m.m8 * c.z⟩
end M3

/-- `t.Normal()` -/
def triNormal (E : Env α) (t0 t1 t2 : V3 α) : V3 α := ((t1.sub t0).cross (t2.sub t0)).normalize E

/-- the `components` of `Triangle.Closest/Dist`: `(v1 v2 n)⁻¹ (c - t[0])` -/
def triComponents (E : Env α) (t0 t1 t2 c : V3 α) : V3 α :=
  ((M3.ofColumns (t1.sub t0) (t2.sub t0) (triNormal E t0 t1 t2)).inverse).mulColumn (c.sub t0)

/-- the test `components.X >= 0 && components.Y >= 0 && components.X+components.Y <= 1` -/
def triInside (k : V3 α) : Bool := !decide (k.x < 0) && !decide (k.y < 0) && decide (k.x + k.y ≤ 1)

/-- the edge loop of `Triangle.Closest`: `t.Segments()` are `NewSegment(t[i], t[(i+1)%3])` -/
def triEdgeClosest (E : Env α) (t0 t1 t2 c : V3 α) : α × V3 α :=
  let s01 := newSegment3 t0 t1
  let s12 := newSegment3 t1 t2
  let s20 := newSegment3 t2 t0
  let c01 := segClosest3 E s01.1 s01.2 c
  let c12 := segClosest3 E s12.1 s12.2 c
  let c20 := segClosest3 E s20.1 s20.2 c
  pickMin (c01.dist E c, c01) [(c12.dist E c, c12), (c20.dist E c, c20)]

/-- `Triangle.Closest` -/
def triClosest (E : Env α) (t0 t1 t2 c : V3 α) : V3 α :=
  let k := triComponents E t0 t1 t2 c
  if triInside k then (t0.add ((t1.sub t0).scale k.x)).add ((t2.sub t0).scale k.y)
  else (triEdgeClosest E t0 t1 t2 c).2

/-- `Triangle.Dist` -/
def triDist (E : Env α) (t0 t1 t2 c : V3 α) : α :=
  let k := triComponents E t0 t1 t2 c
  if triInside k then absS k.z
  else
    let s01 := newSegment3 t0 t1
    let s12 := newSegment3 t1 t2
    let s20 := newSegment3 t2 t0
    (pickMin (segDist3 E s01.1 s01.2 c, ()) [(segDist3 E s12.1 s12.2 c, ()), (segDist3 E s20.1 s20.2 c, ())]).1

/-- `Triangle.Closest` without `sqrt` (executed at `Rat` in exact mode): the coefficients of the orthogonal
projection onto the plane from the Gram system of `v1, v2`, then the same region test and the same edge loop,
comparing squared distances. -/
def triClosestQ (t0 t1 t2 c : V3 α) : V3 α :=
  let v1 := t1.sub t0
  let v2 := t2.sub t0
  let w := c.sub t0
  let g11 := v1.dot v1
  let g12 := v1.dot v2
  let g22 := v2.dot v2
  let det := g11 * g22 - g12 * g12
  let kx := (g22 * v1.dot w - g12 * v2.dot w) / det
  let ky := (g11 * v2.dot w - g12 * v1.dot w) / det
  if !decide (kx < 0) && !decide (ky < 0) && decide (kx + ky ≤ 1) then (t0.add (v1.scale kx)).add (v2.scale ky)
  else
    let s01 := newSegment3 t0 t1
    let s12 := newSegment3 t1 t2
    let s20 := newSegment3 t2 t0
    let c01 := segClosestQ3 s01.1 s01.2 c
    let c12 := segClosestQ3 s12.1 s12.2 c
    let c20 := segClosestQ3 s20.1 s20.2 c
    (pickMin (c01.sqDist c, c01) [(c12.sqDist c, c12), (c20.sqDist c, c20)]).2

/-! ## `meshSDF` -/

structure Tri (α : Type) where
  a : V3 α
  b : V3 α
  c : V3 α

/-- running state of `meshDistFunc.Dist`: distance, point, face index -/
abbrev MeshBest (α : Type) := Option (α × V3 α × Nat)

/-- the leaf step of `meshDistFunc.Dist`: `cp := root.Closest(c); dist := cp.Dist(c); if dist < *curDist {…}` -/
def meshStep (E : Env α) (c : V3 α) (cur : MeshBest α) (f : Tri α × Nat) : MeshBest α :=
  let cp := triClosest E f.1.a f.1.b f.1.c c
  let d := cp.dist E c
  if ltCur d (cur.map (·.1)) then some (d, cp, f.2) else cur

/-- `meshDistFunc.Dist` as the linear scan over the faces (the branch-and-bound of the code is proved equal
to a linear scan in C08: `M3d.Spatial.MDF.dist_spec`). -/
def meshScan (E : Env α) (faces : List (Tri α × Nat)) (c : V3 α) : MeshBest α :=
  faces.foldl (meshStep E c) none

/-- `ColliderSolid.Contains` for `inset = 0, radius = 0`: `InBounds(c, coord) && RayCollisions(ray, nil) % 2 == 1`. -/
def parityInside (inBounds : Bool) (collisions : Nat) : Bool := inBounds && collisions % 2 == 1

/-- `meshSDF.SDF/PointSDF/FaceSDF`: `if m.Solid.Contains(c) { dist } else { -dist }`. -/
def meshSign (inside : Bool) (dist : α) : α := if inside then dist else -dist

/-! ## 2-D `meshSDF` (segments); leaves whose distance is NaN

`meshDistFunc.Dist`, leaf case: `cp := m.root.Closest(c); dist := cp.Dist(c); if dist < *curDist { *curDist = dist; … }`.
`*curDist` starts at `math.Inf(1)` and is only ever overwritten by a `dist` that passed the test, so it is never NaN;
a NaN `dist` (the `Closest` of a zero-length 2-D segment `{p, p}` is `0/0`) fails `dist < *curDist` and the leaf is
ignored.  `scanStep` is that leaf step for an abstract leaf evaluation (`none` = "the distance is NaN"); `notNaN` is
the float test `x == x` written with the order only, so that it is `true` in every ordered field and `false`
exactly on NaN at `Float`. -/

/-- Go `!math.IsNaN(x)` through the order: `x <= x`. -/
def notNaN (x : α) : Bool := decide (x ≤ x)

/-- leaf step of `meshDistFunc.Dist` over an abstract leaf evaluation (`none`: NaN distance, the test
`dist < *curDist` is false whatever `*curDist` is). -/
def scanStep {β γ : Type} (leaf : β → Option (α × γ)) (cur : Option (α × γ)) (f : β) : Option (α × γ) :=
  match leaf f with
  | none => cur
  | some x => if ltCur x.1 (cur.map (·.1)) then some x else cur

/-- `meshDistFunc.Dist` as the linear scan over the pieces, from `*curDist = +Inf` -/
def scanWith {β γ : Type} (leaf : β → Option (α × γ)) (fs : List β) : Option (α × γ) :=
  fs.foldl (scanStep leaf) none

/-- a 2-D `Segment` -/
structure Seg (α : Type) where
  a : V2 α
  b : V2 α

/-- leaf evaluation of the 2-D `meshDistFunc`: `Segment.Closest`, `Coord.Dist`, NaN test -/
def segLeaf2 (E : Env α) (c : V2 α) (f : Seg α × Nat) : Option (α × V2 α × Nat) :=
  let cp := segClosest2 E f.1.a f.1.b c
  let d := cp.dist E c
  if notNaN d then some (d, cp, f.2) else none

/-- 2-D `meshDistFunc.Dist` as the linear scan over the segments (distance, point, segment index) -/
def meshScan2 (E : Env α) (segs : List (Seg α × Nat)) (c : V2 α) : Option (α × V2 α × Nat) :=
  scanWith (segLeaf2 E c) segs

/-- 2-D `Segment.Normal`: `Coord{X: -delta.Y, Y: delta.X}.Normalize()` -/
def segNormal2 (E : Env α) (s0 s1 : V2 α) : V2 α :=
  let delta := s1.sub s0
  (⟨-delta.y, delta.x⟩ : V2 α).normalize E

/-! ## `profileSDF`, `profilePointSDF` -/

/-- `profileSDF.SDF` given the value `sdf2d` of the 2-D SDF at `c.XY()`. -/
def profileSDF (E : Env α) (minZ maxZ : α) (sdf2d : α) (cz : α) : α :=
  let zDist := mn (absS (cz - minZ)) (absS (cz - maxZ))
  let insideZ : Bool := !decide (cz < minZ) && !decide (maxZ < cz)
  if !insideZ then
    if 0 < sdf2d then -zDist else -(E.sqrt (zDist * zDist + sdf2d * sdf2d))
  else if 0 < sdf2d then mn sdf2d zDist else sdf2d

/-- `profilePointSDF.PointSDF` given `(point2d, sdf2d)` of the 2-D PointSDF at `c.XY()`. -/
def profilePointSDF (E : Env α) (minZ maxZ : α) (point2d : V2 α) (sdf2d : α) (c : V3 α) : V3 α × α :=
  let minDist := absS (c.z - minZ)
  let maxDist := absS (c.z - maxZ)
  let zDist := mn minDist maxDist
  let hitZ := if maxDist < minDist then maxZ else minZ
  let insideZ : Bool := !decide (c.z < minZ) && !decide (maxZ < c.z)
  if !insideZ then
    if 0 < sdf2d then (⟨c.x, c.y, hitZ⟩, -zDist)
    else (⟨point2d.x, point2d.y, hitZ⟩, -(E.sqrt (zDist * zDist + sdf2d * sdf2d)))
  else if 0 < sdf2d then
    if zDist < sdf2d then (⟨c.x, c.y, hitZ⟩, zDist) else (⟨point2d.x, point2d.y, c.z⟩, sdf2d)
  else (⟨point2d.x, point2d.y, c.z⟩, sdf2d)

/-! ## 2-D `Triangle` -/

/-- row-major `Matrix2` -/
structure M2 (α : Type) where
  m0 : α
  m1 : α
  m2 : α
  m3 : α

/-- `NewTriangle`'s `invMat` on the non-degenerate path: `NewMatrix2Columns(v1, v2)`, `InvertInPlaceDet(det)`. -/
def tri2InvMat (p1 p2 p3 : V2 α) : M2 α :=
  let v1 := p2.sub p1
  let v2 := p3.sub p1
  let det := v1.x * v2.y - v2.x * v1.y
  let s := 1 / det
  ⟨v2.y * s, (-v2.x) * s, (-v1.y) * s, v1.x * s⟩

/-- 2-D `Triangle.Contains` (`InBounds` then barycentric test) -/
def tri2Contains (p1 p2 p3 c : V2 α) : Bool :=
  let lo := (p1.vmin p2).vmin p3
  let hi := (p1.vmax p2).vmax p3
  if !rectContains2 lo hi c then false
  else
    let m := tri2InvMat p1 p2 p3
    let d := c.sub p1
    let sx := m.m0 * d.x + m.m1 * d.y
    let sy := m.m2 * d.x + m.m3 * d.y
    !(decide (sx < 0) || decide (sy < 0) || decide (1 < sx + sy))

/-- one iteration of the edge loop of 2-D `Triangle.genericSDF`:
(`distSq`, (`foundPoint`, `dot`, `foundVertex` (3 = none), edge index)) -/
def tri2EdgeCand (i : Nat) (p1 p2 c : V2 α) : α × (V2 α × α × Nat × Nat) :=
  let v := p2.sub p1
  let dot := v.dot (c.sub p1) / v.normSq
  let found : V2 α × Nat :=
    if dot ≤ 0 then (p1, i) else if 1 ≤ dot then (p2, (i + 1) % 3) else (p1.add (v.scale dot), 3)
  (found.1.sqDist c, (found.1, dot, found.2, i))

/-- vertex `i` of the triangle -/
def tri2Coord (p0 p1 p2 : V2 α) (i : Nat) : V2 α :=
  match i % 3 with
  | 0 => p0
  | 1 => p1
  | _ => p2

/-- 2-D `Triangle.genericSDF`: value, normal, point, barycentric coordinates of the point -/
def tri2Out (E : Env α) (p0 p1 p2 c : V2 α) : Out2 α × (α × α × α) :=
  let pk := pickMin (tri2EdgeCand 0 p0 p1 c) [tri2EdgeCand 1 p1 p2 c, tri2EdgeCand 2 p2 p0 c]
  let closest := pk.1
  let closestPoint := pk.2.1
  let closestDot := pk.2.2.1
  let closestVertex := pk.2.2.2.1
  let closestEdge := pk.2.2.2.2
  let co := tri2Coord p0 p1 p2
  let normal : V2 α :=
    if closestVertex < 3 then
      ((co closestVertex).sub ((co (closestVertex + 1)).mid E (co (closestVertex + 2)))).normalize E
    else
      let q0 := co closestEdge
      let q1 := co (closestEdge + 1)
      let q2 := co (closestEdge + 2)
      let v := q1.sub q0
      let nrm := (⟨v.y, -v.x⟩ : V2 α).normalize E
      if 0 < nrm.dot (q2.sub q0) then nrm.scale (-1) else nrm
  let bary : α × α × α :=
    if closestVertex < 3 then
      (if closestVertex = 0 then 1 else 0, if closestVertex = 1 then 1 else 0, if closestVertex = 2 then 1 else 0)
    else
      let a := 1 - closestDot
      let b := closestDot
      match closestEdge with
      | 0 => (a, b, 0)
      | 1 => (0, a, b)
      | _ => (b, 0, a)
  let dist := E.sqrt closest
  ((⟨if tri2Contains p0 p1 p2 c then dist else -dist, normal, closestPoint⟩ : Out2 α), bary)

/-! ## `colliderSDF` -/

/-- `colliderSDF.boundDistance` (loop with `break`, `fuel = Iterations`) -/
def boundLoop (two : α) (coll : α → Bool) (initial : Bool) : Nat → α → α → α × α
  | 0, lastDist, newDist => (lastDist, newDist)
  | fuel + 1, _, newDist =>
      let lastDist := newDist
      let newDist := if initial then lastDist / two else lastDist * two
      if coll newDist != initial then (lastDist, newDist) else boundLoop two coll initial fuel lastDist newDist

def boundDistance (two : α) (coll : α → Bool) (iters : Nat) : α × α :=
  let r := boundLoop two coll (coll 1) iters 1 1
  if r.1 < r.2 then (r.1, r.2) else (r.2, r.1)

/-- the bisection loop of `colliderSDF.SDF` -/
def bisectLoop (two : α) (coll : α → Bool) : Nat → α → α → α × α
  | 0, lo, hi => (lo, hi)
  | fuel + 1, lo, hi =>
      let mid := (lo + hi) / two
      if coll mid then bisectLoop two coll fuel lo mid else bisectLoop two coll fuel mid hi

/-- `colliderSDF.SDF` given `SphereCollision(coord, ·)` and `Solid.Contains(coord)` -/
def colliderSDF (two : α) (coll : α → Bool) (contains : Bool) (iters : Nat) : α :=
  let b := boundDistance two coll iters
  let r := bisectLoop two coll iters b.1 b.2
  let res := (r.1 + r.2) / two
  if contains then res else res * (-1)

/-! ## `Contains`, bounds and ball queries of the primitives -/

/-- `Coord3D.AddScalar` -/
def V3.addScalar (c : V3 α) (s : α) : V3 α := ⟨c.x + s, c.y + s, c.z + s⟩
def V2.addScalar (c : V2 α) (s : α) : V2 α := ⟨c.x + s, c.y + s⟩

/-- `Sphere.Contains` -/
def sphereContains (E : Env α) (center : V3 α) (r : α) (c : V3 α) : Bool := decide (c.dist E center ≤ r)
/-- `Circle.Contains` -/
def circleContains (E : Env α) (center : V2 α) (r : α) (c : V2 α) : Bool := decide (c.dist E center ≤ r)
/-- 3-D `Capsule.Contains` (`NewSegment(P1, P2).Dist(c) <= Radius`) -/
def capsuleContains3 (E : Env α) (p1 p2 : V3 α) (r : α) (c : V3 α) : Bool :=
  decide (segDist3 E (newSegment3 p1 p2).1 (newSegment3 p1 p2).2 c ≤ r)
/-- 2-D `Capsule.Contains` (`Segment{P1, P2}.Dist(c) <= Radius`) -/
def capsuleContains2 (E : Env α) (p1 p2 : V2 α) (r : α) (c : V2 α) : Bool := decide (segDist2 E p1 p2 c ≤ r)

/-- `Cylinder.Contains` -/
def cylinderContains (E : Env α) (p1 p2 : V3 α) (r : α) (p : V3 α) : Bool :=
  let diff := p1.sub p2
  let direction := diff.normalize E
  let frac := (p.sub p2).dot direction
  if frac < 0 ∨ diff.norm E < frac then false
  else decide ((p2.add (direction.scale frac)).dist E p ≤ r)

/-- `Sphere.SphereCollision(c, r)`: `math.Abs(s.SDF(c)) <= r` — the ball query `ColliderToSDF` bisects on -/
def sphereBall (E : Env α) (center : V3 α) (r0 : α) (c : V3 α) (r : α) : Bool :=
  decide (absS (sphereSDF E center r0 c) ≤ r)
/-- `Circle.CircleCollision(c, r)` -/
def circleBall (E : Env α) (center : V2 α) (r0 : α) (c : V2 α) (r : α) : Bool :=
  decide (absS (circleSDF E center r0 c) ≤ r)

/-- `Sphere.Min/Max`, `Circle.Min/Max`, `Capsule.Min/Max` (`Rect.Min/Max` are the fields) -/
def sphereMin (center : V3 α) (r : α) : V3 α := center.addScalar (-r)
def sphereMax (center : V3 α) (r : α) : V3 α := center.addScalar r
def circleMin (center : V2 α) (r : α) : V2 α := center.addScalar (-r)
def circleMax (center : V2 α) (r : α) : V2 α := center.addScalar r
def capsuleMin3 (p1 p2 : V3 α) (r : α) : V3 α := (p1.vmin p2).addScalar (-r)
def capsuleMax3 (p1 p2 : V3 α) (r : α) : V3 α := (p1.vmax p2).addScalar r
def capsuleMin2 (p1 p2 : V2 α) (r : α) : V2 α := (p1.vmin p2).addScalar (-r)
def capsuleMax2 (p1 p2 : V2 α) (r : α) : V2 α := (p1.vmax p2).addScalar r

/-! ## Transforms (`templates/transform.template`) and the fields derived through them

`Translate`, `Scale`, `orthoMatrix{3,2}Transform` (a `Rotation`; the matrix is data) and
`JoinedTransform` (a list, applied left to right), their `Inverse()` and `ApplyDistance`;
`TransformSDF` and `transformedCollider.SphereCollision/CircleCollision` followed by `ColliderToSDF`. -/

namespace M2
/-- `Matrix2.Inverse` = `InvertInPlaceDet(m.Det())`: adjugate, then `Scale(1 / det)` -/
def inverse (m : M2 α) : M2 α :=
  let s := 1 / (m.m0 * m.m3 - m.m1 * m.m2)
  ⟨m.m3 * s, (-m.m1) * s, (-m.m2) * s, m.m0 * s⟩
def mulColumn (m : M2 α) (c : V2 α) : V2 α := ⟨m.m0 * c.x + m.m1 * c.y, m.m2 * c.x + m.m3 * c.y⟩
end M2

/-- a member of a 3-D `JoinedTransform` that implements `DistTransform` -/
inductive Xf3 (α : Type) where
  | translate (o : V3 α)
  | scale (k : α)
  | rot (m : M3 α)

/-- the same for `model2d` -/
inductive Xf2 (α : Type) where
  | translate (o : V2 α)
  | scale (k : α)
  | rot (m : M2 α)

namespace Xf3
/-- `Apply` -/
def apply : Xf3 α → V3 α → V3 α
  | translate o, c => c.add o
  | scale k, c => c.scale k
  | rot m, c => m.mulColumn c
/-- `ApplyDistance` (`Scale`: `d * math.Abs(s.Scale)`) -/
def applyDistance : Xf3 α → α → α
  | translate _, d => d
  | scale k, d => d * absS k
  | rot _, d => d
/-- `Inverse()` -/
def inverse : Xf3 α → Xf3 α
  | translate o => translate (o.scale (-1))
  | scale k => scale (1 / k)
  | rot m => rot m.inverse
end Xf3

namespace Xf2
def apply : Xf2 α → V2 α → V2 α
  | translate o, c => c.add o
  | scale k, c => c.scale k
  | rot m, c => m.mulColumn c
def applyDistance : Xf2 α → α → α
  | translate _, d => d
  | scale k, d => d * absS k
  | rot _, d => d
def inverse : Xf2 α → Xf2 α
  | translate o => translate (o.scale (-1))
  | scale k => scale (1 / k)
  | rot m => rot m.inverse
end Xf2

/-- `JoinedTransform.Apply` (a bare transform is the one-element list) -/
def xfApply3 (ts : List (Xf3 α)) (c : V3 α) : V3 α := ts.foldl (fun c t => t.apply c) c
/-- `JoinedTransform.ApplyDistance` -/
def xfDist3 (ts : List (Xf3 α)) (d : α) : α := ts.foldl (fun d t => t.applyDistance d) d
/-- `JoinedTransform.Inverse`: the inverses in reverse order -/
def xfInverse3 (ts : List (Xf3 α)) : List (Xf3 α) := ts.reverse.map Xf3.inverse

def xfApply2 (ts : List (Xf2 α)) (c : V2 α) : V2 α := ts.foldl (fun c t => t.apply c) c
def xfDist2 (ts : List (Xf2 α)) (d : α) : α := ts.foldl (fun d t => t.applyDistance d) d
def xfInverse2 (ts : List (Xf2 α)) : List (Xf2 α) := ts.reverse.map Xf2.inverse

/-- `TransformSDF(t, s).SDF(c)` = `t.ApplyDistance(s.SDF(inv.Apply(c)))`, `inv := t.Inverse()` -/
def transformSDF3 (ts : List (Xf3 α)) (sdf : V3 α → α) (c : V3 α) : α :=
  xfDist3 ts (sdf (xfApply3 (xfInverse3 ts) c))
def transformSDF2 (ts : List (Xf2 α)) (sdf : V2 α → α) (c : V2 α) : α :=
  xfDist2 ts (sdf (xfApply2 (xfInverse2 ts) c))

/-- `transformedCollider.SphereCollision(c, r)` = `t.c.SphereCollision(t.inv.Apply(c), t.inv.ApplyDistance(r))`
over a wrapped collider whose `SphereCollision(c, r)` is `math.Abs(SDF(c)) <= r` (`Sphere`, `Rect`, `Capsule`,
…): `s` is the wrapped SDF at the inverse-mapped centre, `invDist` is `t.inv.ApplyDistance`. -/
def xfBallQuery (invDist : α → α) (s : α) (r : α) : Bool := decide (absS s ≤ invDist r)

/-- `ColliderToSDF(TransformCollider(t, shape), iters).SDF(c)`; `contains` is `ColliderSolid.Contains(c)` -/
def transformedColliderSDF3 (two : α) (ts : List (Xf3 α)) (sdf : V3 α → α) (contains : Bool) (iters : Nat)
    (c : V3 α) : α :=
  let inv := xfInverse3 ts
  colliderSDF two (xfBallQuery (xfDist3 inv) (sdf (xfApply3 inv c))) contains iters
def transformedColliderSDF2 (two : α) (ts : List (Xf2 α)) (sdf : V2 α → α) (contains : Bool) (iters : Nat)
    (c : V2 α) : α :=
  let inv := xfInverse2 ts
  colliderSDF two (xfBallQuery (xfDist2 inv) (sdf (xfApply2 inv c))) contains iters

/-- the shapes with an exactly known distance that the transformed kinds wrap -/
inductive Shape3 (α : Type) where
  | sphere (center : V3 α) (r : α)
  | rect (lo hi : V3 α)
  | capsule (p1 p2 : V3 α) (r : α)
inductive Shape2 (α : Type) where
  | circle (center : V2 α) (r : α)
  | rect (lo hi : V2 α)
  | capsule (p1 p2 : V2 α) (r : α)

/-- the shape's `SDF` -/
def Shape3.sdf (E : Env α) : Shape3 α → V3 α → α
  | .sphere ce r, c => sphereSDF E ce r c
  | .rect lo hi, c => (rectOut3 E lo hi c).val
  | .capsule p1 p2 r, c => (capsuleOut3 E p1 p2 r c).val
def Shape2.sdf (E : Env α) : Shape2 α → V2 α → α
  | .circle ce r, c => circleSDF E ce r c
  | .rect lo hi, c => (rectOut2 E lo hi c).val
  | .capsule p1 p2 r, c => (capsuleOut2 E p1 p2 r c).val

end
end M3d.Sdf
