/-!
# Bisection along a lattice edge (core-only, executable, generic over the scalar)

Models of

* the refinement loop of `mcSearchPoint` (model3d/mc.go) and `msSearch` (model2d/marching.go),
* `SolidSurfaceEstimator.BisectInterpRange / BisectInterp / Bisect / BisectInterior`
  (templates/surface_estimator.template ⇒ model3d/ and model2d/surface_estimator.go),
* `squareSpacer.LookupEdgePoint` and the `mod`-window of `msSearch` (at `Rat`).

The state of every one of these loops is a pair `(falsePoint, truePoint)` (called `(min, max)` in
`BisectInterpRange`): the loop evaluates containment at the midpoint `(f + t) / 2` and overwrites
the end with the *same* containment value.  `P` is containment as a function of the coordinate
along the edge (resp. of the interpolation parameter `alpha`).

The scalar only needs `+`, `/`, the literal `2` (and `-`, `*` for the interpolation); theorems in
`M3d/Lemmas/Bisect.lean` are for every linear ordered field, execution is at `Rat` and `Float`.
-/
namespace M3d.Bisect

section
variable {α : Type} [Add α] [Div α] [OfNat α 2]

/-- `(falsePoint + truePoint) / 2`. -/
def mid (s : α × α) : α := (s.1 + s.2) / 2

/-- One iteration:  `midPoint := (falsePoint + truePoint) / 2; if Contains(mid) { truePoint = mid }
else { falsePoint = mid }`. -/
def step (P : α → Bool) (s : α × α) : α × α :=
  if P (mid s) then (s.1, mid s) else (mid s, s.2)

/-- `for i := 0; i < iters; i++ { … }` -/
def bisect (P : α → Bool) (s : α × α) : Nat → α × α
  | 0 => s
  | n + 1 => bisect P (step P s) n

/-- `mcSearchPoint` on the coordinate along the vertex's lattice edge.  `lo hi` are the `min, max`
returned by `LookupEdgePoint` (`falsePoint, truePoint := min, max`); the ends are swapped when
`!s.Contains(truePoint end)`.  Returns (new vertex coordinate, interior-point coordinate). -/
def mcSearchPoint (P : α → Bool) (lo hi : α) (iters : Nat) : α × α :=
  let s0 := if P hi then (lo, hi) else (hi, lo)
  let s := bisect P s0 iters
  (mid s, s.2)

/-- The chosen `(falsePoint, truePoint)` of `mcSearchPoint` before the loop. -/
def mcEnds (P : α → Bool) (lo hi : α) : α × α := if P hi then (lo, hi) else (hi, lo)

/-- `msSearch` on the coordinate along the edge: `falsePoint = lo; truePoint = lo + delta`, swapped
when the normal of a segment at the vertex has a positive component along the edge axis. -/
def msEnds (lo hi : α) (normalPos : Bool) : α × α := if normalPos then (hi, lo) else (lo, hi)

def msSearchPoint (P : α → Bool) (lo hi : α) (normalPos : Bool) (iters : Nat) : α :=
  mid (bisect P (msEnds lo hi normalPos) iters)

end

/-! ### `SolidSurfaceEstimator` on points -/

structure V3 (α : Type) where
  x : α
  y : α
  z : α
deriving Repr

section
variable {α : Type} [Add α] [Sub α] [Mul α]
def V3.add (a b : V3 α) : V3 α := ⟨a.x + b.x, a.y + b.y, a.z + b.z⟩
def V3.sub (a b : V3 α) : V3 α := ⟨a.x - b.x, a.y - b.y, a.z - b.z⟩
def V3.scale (a : V3 α) (s : α) : V3 α := ⟨a.x * s, a.y * s, a.z * s⟩
/-- `p1.Add(p2.Sub(p1).Scale(f))` -/
def lerp (p1 p2 : V3 α) (f : α) : V3 α := p1.add ((p2.sub p1).scale f)
end

section
variable {α : Type} [Add α] [Sub α] [Mul α] [Div α] [OfNat α 0] [OfNat α 1] [OfNat α 2] [BEq α]

/-- `BisectInterpRange(p1, p2, min, max)` with `count` bisections. -/
def interpRange (C : V3 α → Bool) (p1 p2 : V3 α) (mn mx : α) (count : Nat) : α × α :=
  bisect (fun f => C (lerp p1 p2 f)) (mn, mx) count

/-- The swap at the start of `Bisect` / `BisectInterior`: `if Contains(p1) { p1, p2 = p2, p1 }`. -/
def orient (C : V3 α → Bool) (p1 p2 : V3 α) : V3 α × V3 α := if C p1 then (p2, p1) else (p1, p2)

/-- `Bisect(p1, p2)`. -/
def bisectPoint (C : V3 α → Bool) (p1 p2 : V3 α) (count : Nat) : V3 α :=
  let q := orient C p1 p2
  lerp q.1 q.2 (mid (interpRange C q.1 q.2 0 1 count))

/-- `BisectInterior(p1, p2)`: the point at the `max` (contained) end of the final range.  When no
bisection point was contained the range still ends at `alpha = 1` and the code returns `p2` itself
(`p1 + (p2 - p1) * 1` is not `p2` in floating point). -/
def bisectInterior (C : V3 α → Bool) (p1 p2 : V3 α) (count : Nat) : V3 α :=
  let q := orient C p1 p2
  let a := (interpRange C q.1 q.2 0 1 count).2
  if a == 1 then q.2 else lerp q.1 q.2 a

/-- `BisectInterior` as it was before the repair (kept for the self-test and the notes):
always `p1 + (p2 - p1) * alpha`. -/
def bisectInteriorOld (C : V3 α → Bool) (p1 p2 : V3 α) (count : Nat) : V3 α :=
  let q := orient C p1 p2
  lerp q.1 q.2 (interpRange C q.1 q.2 0 1 count).2

end

/-! ### `LookupEdgePoint` and the `msSearch` window, at `Rat`

`math.Mod(x, d)` is the truncated remainder (sign of `x`); `int(x / d)` truncates. -/

def truncDiv (x d : Rat) : Int :=
  let q := x / d
  if q < 0 then -((-q).floor) else q.floor

def fmod (x d : Rat) : Rat := x - d * (truncDiv x d : Rat)

def rabs (x : Rat) : Rat := if x < 0 then -x else x

/-- `modulus > delta/4 && modulus < 3*delta/4` -/
def inWindow (m d : Rat) : Bool := decide (d / 4 < m) && decide (m < 3 * d / 4)

/-- `squareSpacer.LookupEdgePoint`: the first axis whose coordinate is in the middle half of a
lattice step; returns `(axis, values[idx], values[idx+1])` where the lattice values are
`origin + idx * delta` (exact for dyadic lattices).  `none` = the Go code panics. -/
def lookupEdgePoint (origin : List Rat) (d : Rat) (c : List Rat) : Option (Nat × Rat × Rat) :=
  let rec go (i : Nat) : List Rat → List Rat → Option (Nat × Rat × Rat)
    | o :: os, v :: vs =>
      if inWindow (rabs (fmod (v - o) d)) d then
        let idx := truncDiv (v - o) d
        some (i, o + (idx : Rat) * d, o + ((idx + 1 : Int) : Rat) * d)
      else go (i + 1) os vs
    | _, _ => none
  go 0 origin c

/-- The edge recovery inside `msSearch`: `falsePoint = arr[i] - modulus; truePoint = falsePoint + delta`
with `modulus = |Mod(arr[i] - min[i], delta)|` (`min` is the solid's `Min()`, not the lattice
origin). -/
def msLookup (mn : List Rat) (d : Rat) (c : List Rat) : Option (Nat × Rat × Rat) :=
  let rec go (i : Nat) : List Rat → List Rat → Option (Nat × Rat × Rat)
    | o :: os, v :: vs =>
      let m := rabs (fmod (v - o) d)
      if inWindow m d then some (i, v - m, v - m + d) else go (i + 1) os vs
    | _, _ => none
  go 0 mn c

end M3d.Bisect
