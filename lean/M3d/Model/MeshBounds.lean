import M3d.Model.Mesh
/-!
# `Mesh.Min()` / `Mesh.Max()` (templates/mesh.template) — bounds of a mesh (C09)

```go
if len(m.faces) == 0 { return Coord3D{} }
var result Coord3D; var firstFlag bool
for t := range m.faces { for _, c := range t {
    if !firstFlag { result = c; firstFlag = true } else { result = result.Min(c) } } }
```
The faces come in Go's map order, so the loop is a fold over SOME enumeration of the corners of the
current faces.  Generic over the scalar (proved over every linear order in `Lemmas/MeshBounds.lean`,
executed at `Rat` by the driver).  Core only.
-/
namespace M3d.MeshBounds

structure P3 (α : Type) where
  x : α
  y : α
  z : α
deriving Repr, DecidableEq

variable {α : Type} [LT α] [DecidableLT α]

/-- `math.Min` on ordinary numbers. -/
def cmin (a b : α) : α := if b < a then b else a
/-- `math.Max` on ordinary numbers. -/
def cmax (a b : α) : α := if a < b then b else a

def pmin (a b : P3 α) : P3 α := ⟨cmin a.x b.x, cmin a.y b.y, cmin a.z b.z⟩
def pmax (a b : P3 α) : P3 α := ⟨cmax a.x b.x, cmax a.y b.y, cmax a.z b.z⟩

/-- `Mesh.Min()` over the corners in the order the loop meets them (`zero` = `Coord3D{}`). -/
def meshMin (zero : P3 α) : List (P3 α) → P3 α
  | [] => zero
  | c :: cs => cs.foldl pmin c

/-- `Mesh.Max()`. -/
def meshMax (zero : P3 α) : List (P3 α) → P3 α
  | [] => zero
  | c :: cs => cs.foldl pmax c

/-- The corners the loops of `Min` / `Max` meet when the faces come in the order `faces`
(`coord k` = the coordinates of vertex key `k`). -/
def cornerCoords (tri : Nat → M3d.Mesh.Tri) (coord : Nat → P3 α) (faces : List Nat) : List (P3 α) :=
  faces.flatMap fun f => (M3d.Mesh.triVerts (tri f)).map coord

end M3d.MeshBounds
