import M3d.Model.Triangulate
/-!
# C15 — polygon faces of an OFF file read through `model3d.ReadOFF`

`ReadOFF` returns triangles, so a face with more than three corners comes back as several
triangles (`triangulateFileFace` → `TriangulateFace`).  Which triangulation is returned is not
specified; what the property demands is that the triangles of a face, taken together, ARE the face:
corners of the face only, every triangle oriented like the face, glued along interior diagonals into
a region whose boundary is the face's boundary, the (vector) areas adding up to the face's — and that
the groups of triangles follow each other in the order of the faces.

This file is the executable checker of exactly that, generic over the scalar (run at `Rat` on the
exact values of the float64 coordinates by `drv_c15`, proved about for every linear ordered field in
`M3d/Lemmas/CodecFace.lean` / `M3d/Props/C15.lean`).  The 2-D gluing certificate is C14's verified
checker `M3d.Tri.certOk` (edges split at face corners lying on them, i.e. T-junctions left by the
removal of colinear corners, are handled there); the 3-D part — the face's vector area, exact
planarity, the choice of a coordinate chart in which the face does not degenerate, the grouping of
the flat triangle list by faces — is here.  Core Lean only.
-/
namespace M3d.Codec.Face
open M3d.Tri
open M3d.Surface (Tri Edge swap triEdges dirEdges)

deriving instance DecidableEq for M3d.Tri.P3

section
variable {α : Type} [Mul α] [Sub α] [Add α] [OfNat α 0]

/-- The three coordinate charts (projection along z, x, y), cyclically ordered so that the
orientation determinant in the chart is the matching component of the 3-D cross product. -/
def chartXY (p : P3 α) : P2 α := ⟨p.x, p.y⟩
def chartYZ (p : P3 α) : P2 α := ⟨p.y, p.z⟩
def chartZX (p : P3 α) : P2 α := ⟨p.z, p.x⟩

/-- `u × v`. -/
def cross3 (u v : P3 α) : P3 α :=
  ⟨u.y * v.z - u.z * v.y, u.z * v.x - u.x * v.z, u.x * v.y - u.y * v.x⟩

/-- A triangle given by its three corners. -/
abbrev T3 (α : Type) := P3 α × P3 α × P3 α

/-- `(b − a) × (c − a)`: twice the vector area of the triangle, pointing to the side from which
`a, b, c` is counter-clockwise. -/
def normal3 (t : T3 α) : P3 α := cross3 (sub3 t.2.1 t.1) (sub3 t.2.2 t.1)

/-- Corner `i` of a face (corner list). -/
def cornerFn (f : List (P3 α)) : Nat → P3 α := fun i => f.getD i ⟨0, 0, 0⟩

/-- Twice the signed area of the closed path `bnd` seen in the chart `ch` (shoelace sum). -/
def areaIn (ch : P3 α → P2 α) (c3 : Nat → P3 α) (bnd : List Edge) : α :=
  sumF (fun e : Edge => cross (ch (c3 e.1)) (ch (c3 e.2))) bnd

/-- Twice the vector area of the polygon `0 → 1 → … → n−1 → 0` (`Σ pᵢ × pᵢ₊₁`, Newell's normal):
normal to the face's plane, pointing to the side from which the corners run counter-clockwise. -/
def faceNormal (c3 : Nat → P3 α) (n : Nat) : P3 α :=
  let b := loopEdges [n]
  ⟨areaIn chartYZ c3 b, areaIn chartZX c3 b, areaIn chartXY c3 b⟩

/-- Sum of the `normal3` of a list of triangles, by component. -/
def sumNormal (ts : List (T3 α)) : P3 α :=
  ⟨sumF (fun t => (normal3 t).x) ts, sumF (fun t => (normal3 t).y) ts, sumF (fun t => (normal3 t).z) ts⟩

variable [LT α] [DecidableLT α] [DecidableEq α]

/-- Every corner lies in the plane through corner 0 with normal `N`, exactly. -/
def planar (c3 : Nat → P3 α) (n : Nat) (N : P3 α) : Bool :=
  (List.range n).all fun i => decide (dot3 N (sub3 (c3 i) (c3 0)) = 0)

/-- The chart used for a face: the first of z, x, y along which the normal does not vanish
(0 = XY, 1 = YZ, 2 = ZX; `none` for a face of zero vector area). -/
def chartOf (N : P3 α) : Option Nat :=
  if N.z ≠ 0 then some 0 else if N.x ≠ 0 then some 1 else if N.y ≠ 0 then some 2 else none

def chartFn : Nat → P3 α → P2 α
  | 0 => chartXY
  | 1 => chartYZ
  | _ => chartZX

/-- Component of a vector that the chart's orientation determinant computes. -/
def comp : Nat → P3 α → α
  | 0 => fun p => p.z
  | 1 => fun p => p.x
  | _ => fun p => p.y

/-- **The face certificate.**  `tris` (corner ids of the face) pass iff the face is exactly planar
with a non-zero vector area `N`, and in the chart `k` where `N` does not vanish C14's checker accepts
them for the boundary `0 → 1 → … → n−1 → 0`, oriented like the face in that chart (clockwise iff
`N_k < 0`). -/
def faceCertOk (c3 : Nat → P3 α) (n : Nat) (tris : List Tri) : Bool :=
  let N := faceNormal c3 n
  planar c3 n N &&
  match chartOf N with
  | none => false
  | some k => certOk (fun i => chartFn k (c3 i)) n (decide (comp k N < 0)) (loopEdges [n]) tris

/-- Id of a coordinate among the face's corners (the first equal one; `f.length` if there is none,
which `certOk` rejects as a foreign vertex). -/
def cornerId (f : List (P3 α)) (p : P3 α) : Nat := f.findIdx (· == p)

def idTri (f : List (P3 α)) (t : T3 α) : Tri := (cornerId f t.1, cornerId f t.2.1, cornerId f t.2.2)

/-- Take triangles from the front of the list until their weights add up to `target`
(`acc` = the sum so far).  `none` if the list ends first. -/
def takeGroup {T : Type} (w : T → α) (target : α) : α → List T → Option (List T × List T)
  | acc, [] => if acc = target then some ([], []) else none
  | acc, t :: ts =>
    if acc = target then some ([], t :: ts)
    else match takeGroup w target (acc + w t) ts with
      | some (g, r) => some (t :: g, r)
      | none => none

/-- The group of triangles that belongs to the face `f` at the front of `ts`: the shortest prefix
whose `normal3` components along the face's chart axis add up to the face's (`N_k ≠ 0`, so the group is not
empty).  Because every triangle of a valid group has a weight of the sign of `N_k`, no other prefix
can be a valid group (`takeGroup_complete`). -/
def faceGroup (f : List (P3 α)) (ts : List (T3 α)) : Option (List (T3 α) × List (T3 α)) :=
  let N := faceNormal (cornerFn f) f.length
  match chartOf N with
  | none => none
  | some k => takeGroup (fun t => comp k (normal3 t)) (comp k N) 0 ts

/-- **The file-level check of `ReadOFF`'s result**: the flat triangle list is, face after face in
the order of the file, a group of triangles that passes the face certificate of that face; nothing
is left over. -/
def checkFaces : List (List (P3 α)) → List (T3 α) → Bool
  | [], ts => ts.isEmpty
  | f :: fs, ts =>
    match faceGroup f ts with
    | none => false
    | some (g, rest) => faceCertOk (cornerFn f) f.length (g.map (idTri f)) && checkFaces fs rest

end

end M3d.Codec.Face
