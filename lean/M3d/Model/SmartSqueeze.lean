import M3d.Model.Transform
/-!
# C05 — executable model of `toolbox3d.SmartSqueeze.Transform` (`toolbox3d/squeeze.go`)

Core Lean only, generic over the scalar.  `+Inf` (the initial `next` of `checkSqueezed`) is `none`.
The `for value < max` loop is run with fuel; `M3d.C05.smart_squeeze_terminates` shows that
`2·(#ranges) + 2` iterations always suffice (the result does not change with more fuel).
-/
namespace M3d.Tf

/-- One member of the `JoinedTransform` that `SmartSqueeze.Transform` builds. -/
inductive Piece (α : Type) where
  | squeeze (lo hi : α)   -- `&AxisSqueeze{Axis, Min: lo, Max: hi, Ratio: SqueezeRatio}`
  | pinch (lo hi : α)     -- `&AxisPinch{Axis, Min: lo, Max: hi, Power: PinchPower}`
deriving Repr

section
variable {α : Type} [Add α] [Sub α] [LT α] [DecidableLT α] [LE α] [DecidableLE α]

/-- `us[0] < next` where `next` may still be `+Inf`. -/
def ltNext (a : α) : Option α → Bool
  | none => true
  | some n => decide (a < n)

/-- The two scanning loops of `checkSqueezed` over `[start, end)` ranges (`Unsqueezable`, then the pinch
ranges `[p − PinchRange, p + PinchRange)`), sharing `next`. Returns `(isSqueezable, next)`. -/
def scanRanges (v : α) : List (α × α) → Option α → Bool × Option α
  | [], next => (true, next)
  | (a, b) :: rest, next =>
      if a ≤ v ∧ v < b then (false, some b)
      else if v < a ∧ ltNext a next = true then scanRanges v rest (some a)
      else scanRanges v rest next

/-- `math.Min(next, max)` with `next` possibly `+Inf`. -/
def capNext (next : Option α) (max : α) : α :=
  match next with
  | none => max
  | some x => mn x max

/-- The `for value < max` loop of `SmartSqueeze.Transform`: the `(Min, Max)` of the squeezes appended, in order. -/
def squeezeLoop (ranges : List (α × α)) (max : α) : Nat → α → List (α × α) → List (α × α)
  | 0, _, acc => acc
  | n + 1, value, acc =>
      if value < max then
        let r := scanRanges value ranges none
        let next := capNext r.2 max
        squeezeLoop ranges max n next (if r.1 then acc ++ [(value, next)] else acc)
      else acc

/-- the ranges both scanning loops look at -/
def smartRanges (unsq : List (α × α)) (pinches : List α) (pinchRange : α) : List (α × α) :=
  unsq ++ pinches.map fun p => (p - pinchRange, p + pinchRange)

/-- `SmartSqueeze.Transform(b)` for `b`'s extent `[min, max]` along the axis: squeezes in loop order, then the
pinches, the whole list reversed. -/
def smartPieces (unsq : List (α × α)) (pinches : List α) (pinchRange : α) (min max : α) : List (Piece α) :=
  let ranges := smartRanges unsq pinches pinchRange
  let sq := squeezeLoop ranges max (2 * ranges.length + 2) min []
  ((sq.map fun r => Piece.squeeze r.1 r.2) ++ (pinches.map fun p => Piece.pinch (p - pinchRange) (p + pinchRange))).reverse

end

/-- The transform as an `Xf` when there are no pinches. -/
def smartXf {α : Type} (axis : Nat) (ratio : α) : List (α × α) → Xf α
  | [] => .jnil
  | (lo, hi) :: rest => .jcons (.squeeze axis lo hi ratio) (smartXf axis ratio rest)

end M3d.Tf
