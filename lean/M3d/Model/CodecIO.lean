import M3d.Basic
import M3d.Model.CodecMesh
/-!
Line-protocol parsing/rendering shared by the C15 and C16 drivers (core-only; nothing here is used
in a theorem statement).
-/
namespace M3d.Codec.IO
open M3d M3d.Codec

abbrev P := StateT (List String) Option

def tok : P String := fun s => match s with | [] => none | t :: r => some (t, r)
def pNat : P Nat := do let t ← tok; (t.toNat? : Option Nat)
def pInt : P Int := do let t ← tok; (t.toInt? : Option Int)
def pHex64 : P UInt64 := do let t ← tok; ((parseHex t).map (·.toUInt64) : Option UInt64)
def pHex32 : P UInt32 := do let t ← tok; ((parseHex t).map (·.toUInt32) : Option UInt32)
def pBytes : P Bytes := do let t ← tok; (bytesOfHex t : Option Bytes)

def pMany {α} (p : P α) : Nat → P (List α)
  | 0 => pure []
  | n+1 => do let a ← p; let r ← pMany p n; pure (a :: r)

def pCounted {α} (p : P α) : P (List α) := do let n ← pNat; pMany p n

def hex32 (n : UInt32) : String :=
  String.ofList ((List.range 8).map fun i => hexDigit ((n.toNat >>> (4 * (7 - i))) % 16))

/-! ### float oracle tables -/

structure Tables where
  a : List (Nat × Bytes) := []      -- float32 bits → 'f' -1 32 text
  b : List (Nat × Bytes) := []      -- float64 bits → 'f' -1 64 text
  g : List (Nat × Bytes) := []      -- float64 bits → 'G' -1 64 text
  p : List (Bytes × Nat) := []      -- text → float32 bits  (ParseFloat(·,32) succeeded)
  q : List (Bytes × Nat) := []      -- text → float64 bits  (ParseFloat(·,64) succeeded)

def lookupD {κ ν} [BEq κ] (t : List (κ × ν)) (k : κ) : Option ν := (t.find? fun e => e.1 == k).map (·.2)

/-- entry syntax: `a:<bitshex>:<texthex>` … `p:<texthex>:<bitshex>` -/
def parseEntry (t : Tables) (s : String) : Option Tables :=
  match s.splitOn ":" with
  | [k, x, y] =>
    if k = "a" ∨ k = "b" ∨ k = "g" then do
      let bits ← parseHex x
      let txt ← bytesOfHex y
      if k = "a" then some { t with a := (bits, txt) :: t.a }
      else if k = "b" then some { t with b := (bits, txt) :: t.b }
      else some { t with g := (bits, txt) :: t.g }
    else if k = "p" ∨ k = "q" then do
      let txt ← bytesOfHex x
      let bits ← parseHex y
      if k = "p" then some { t with p := (txt, bits) :: t.p } else some { t with q := (txt, bits) :: t.q }
    else none
  | _ => none

/-- `ft <n> <entry>…` -/
def pTables : P Tables := do
  let kw ← tok
  if kw ≠ "ft" then failure
  let es ← pCounted tok
  match es.foldlM parseEntry ({} : Tables) with
  | some t => pure t
  | none => failure

def missing : Bytes := ascii "<no-fmt-oracle>"

def Tables.floatText (t : Tables) : FloatText where
  fmt32 := fun b => (lookupD t.a b).getD missing
  fmt64 := fun b => (lookupD t.b b).getD missing
  parse32 := fun s => lookupD t.p s
  parse64 := fun s => lookupD t.q s

def Tables.fmtG (t : Tables) : UInt64 → Bytes := fun b => (lookupD t.g b.toNat).getD missing
def Tables.pf32 (t : Tables) : Bytes → Option UInt32 := fun s => (lookupD t.p s).map UInt32.ofNat
def Tables.pf64 (t : Tables) : Bytes → Option UInt64 := fun s => (lookupD t.q s).map UInt64.ofNat

/-! ### IEEE conversions executed natively (Go's `float32(x)` / `float64(f)`) -/

/-- NaNs are converted on the bit pattern the way the hardware conversion (`cvtsd2ss`/`cvtss2sd`) does:
sign kept, payload truncated/extended, quiet bit set (Lean's `Float` boxes NaNs canonically). -/
def round32 (x : UInt64) : UInt32 :=
  let e := (x >>> 52) &&& 0x7ff
  let m := x &&& 0xfffffffffffff
  if e = 0x7ff ∧ m ≠ 0 then
    ((x >>> 63) <<< 31).toUInt32 ||| (0x7fc00000 : UInt32) ||| (m >>> 29).toUInt32
  else (Float.ofBits x).toFloat32.toBits
def widen (y : UInt32) : UInt64 :=
  let e := (y >>> 23) &&& 0xff
  let m := y &&& 0x7fffff
  if e = 0xff ∧ m ≠ 0 then
    ((y >>> 31).toUInt64 <<< 63) ||| (0x7ff8000000000000 : UInt64) ||| (m.toUInt64 <<< 29)
  else (Float32.ofBits y).toFloat.toBits

/-! ### PLY headers and values -/

def kindOfNat : Nat → Option Kind
  | 0 => some .i8 | 1 => some .u8 | 2 => some .i16 | 3 => some .u16
  | 4 => some .i32 | 5 => some .u32 | 6 => some .f32 | 7 => some .f64 | _ => none

def Kind.toNat : Kind → Nat
  | .i8 => 0 | .u8 => 1 | .i16 => 2 | .u16 => 3 | .i32 => 4 | .u32 => 5 | .f32 => 6 | .f64 => 7

def ptypeOfNat (n : Nat) : Option PType := (kindOfNat (n / 2)).map fun k => ⟨k, n % 2 = 1⟩
def PType.toNat (t : PType) : Nat := 2 * Kind.toNat t.kind + (if t.alt then 1 else 0)

def pPType : P PType := do let n ← pNat; (ptypeOfNat n : Option PType)

/-- `-` or a type code -/
def pOptPType : P (Option PType) := do
  let t ← tok
  if t = "-" then pure none else
  match t.toNat? with
  | some n => match ptypeOfNat n with | some x => pure (some x) | none => failure
  | none => failure

def pProp : P PProp := do
  let lt ← pOptPType
  let et ← pPType
  let n ← pBytes
  pure ⟨lt, et, n⟩

def pElement : P Element := do
  let n ← pBytes
  let c ← pInt
  let ps ← pCounted pProp
  pure ⟨n, c, ps⟩

def pFormat : P Format := do
  let t ← tok
  if t = "ascii" then pure .text else if t = "le" then pure (.bin .little)
  else if t = "be" then pure (.bin .big) else failure

def pHeader : P Header := do
  let f ← pFormat
  let es ← pCounted pElement
  pure ⟨f, es⟩

def showFormat : Format → String
  | .text => "ascii" | .bin .little => "le" | .bin .big => "be"

def showProp (p : PProp) : String :=
  (match p.lenType with | none => "-" | some t => toString (PType.toNat t)) ++ " " ++
    toString (PType.toNat p.elemType) ++ " " ++ showHex p.name

def showElement (e : Element) : String :=
  showHex e.name ++ " " ++ toString e.count ++ " " ++ toString e.props.length ++
    String.join (e.props.map fun p => " " ++ showProp p)

def showHeader (h : Header) : String :=
  showFormat h.format ++ " " ++ toString h.elements.length ++
    String.join (h.elements.map fun e => " " ++ showElement e)

/-- scalar `<kind>:<bits>` ; list `L<kind>:<bits>:<elemkind>:<b1>,<b2>…` -/
def parseScalarTok (a b : String) : Option Scalar := do
  let k ← kindOfNat (← a.toNat?)
  let n ← b.toNat?
  some ⟨k, n⟩

def parseVal (s : String) : Option PVal :=
  if s.startsWith "L" then
    match (s.drop 1).toString.splitOn ":" with
    | [a, b, ek, xs] => do
      let l ← parseScalarTok a b
      if xs = "" then some (.list l []) else
      let k ← kindOfNat (← ek.toNat?)
      let vs ← (xs.splitOn ",").mapM fun x => x.toNat?.map fun n => (⟨k, n⟩ : Scalar)
      some (.list l vs)
    | _ => none
  else
    match s.splitOn ":" with
    | [a, b] => (parseScalarTok a b).map .one
    | _ => none

def pVal : P PVal := do let t ← tok; (parseVal t : Option PVal)
def pRow : P (List PVal) := pCounted pVal

def showScalar (s : Scalar) : String := toString (Kind.toNat s.kind) ++ ":" ++ toString s.bits

def showVal : PVal → String
  | .one s => showScalar s
  | .list l vs =>
    "L" ++ showScalar l ++ ":" ++ (match vs with | [] => "x" | v :: _ => toString (Kind.toNat v.kind)) ++ ":" ++
      ",".intercalate (vs.map fun v => toString v.bits)

def showRow (r : List PVal) : String :=
  toString r.length ++ String.join (r.map fun v => " " ++ showVal v)

def showPErr : Option PErr → String
  | none => "eof"
  | some _ => "err"

def showReadAll (r : ReadAll) : String :=
  toString r.rows.length ++ String.join (r.rows.map fun (i, vs) => " @" ++ toString i ++ " " ++ showRow vs) ++
    " " ++ showPErr r.err

def showC3 (p : C3) : String := hex64 p.1 ++ " " ++ hex64 p.2.1 ++ " " ++ hex64 p.2.2

def pC3 : P C3 := do
  let x ← pHex64; let y ← pHex64; let z ← pHex64
  pure (x, y, z)

def pTri3 : P Tri3 := do
  let a ← pC3; let b ← pC3; let c ← pC3
  pure (a, b, c)

end M3d.Codec.IO
