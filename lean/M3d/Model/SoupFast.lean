import M3d.Model.Surface
/-!
# Sort-based manifold deciders for large soups (property C01; core-only)

`M3d.Surface.edgeBalanced / inOutOne` count every edge against every edge (quadratic).  The real outputs
of the coarse-to-fine marching routines have 10⁴–10⁵ faces, so the driver uses the `n log n` versions
below; `M3d/Lemmas/SoupFast.lean` proves `edgeBalancedFast N ts = true → Surface.EdgeBalanced ts`
and `inOutOneFast N ss = true → Surface.InOutOne ss` (and the converses) for every soup whose ids are
below `N`, so running them is a proved judgement as well.
-/
namespace M3d.SoupFast
open M3d.Surface

/-- a directed edge over ids `< N` as one number -/
def encE (N : Nat) (e : Edge) : Nat := e.1 * N + e.2

/-- strictly increasing -/
def strictInc : List Nat → Bool
  | a :: b :: rest => decide (a < b) && strictInc (b :: rest)
  | _ => true

def sortNat (l : List Nat) : List Nat := l.mergeSort (fun a b => decide (a ≤ b))

/-- Every directed edge once and its reverse once: the sorted list of edge codes has no repetition and
equals the sorted list of the reversed edges' codes. -/
def edgeBalancedFast (N : Nat) (ts : List Tri) : Bool :=
  let es := dirEdges ts
  let s := sortNat (es.map (encE N))
  let r := sortNat (es.map fun e => encE N (swap e))
  strictInc s && s == r

/-- every id of the soup is below `N` (hypothesis of the soundness theorems, checked by the driver) -/
def idsBelow (N : Nat) (ts : List Tri) : Bool := ts.all fun t => decide (t.1 < N) && decide (t.2.1 < N) && decide (t.2.2 < N)

/-- 2-D: every vertex has exactly one outgoing and one incoming segment: the sorted start points have
no repetition, neither have the sorted end points, and the two lists are equal. -/
def inOutOneFast (ss : List Seg) : Bool :=
  let s := sortNat (starts ss)
  let e := sortNat (ends ss)
  strictInc s && s == e

/-- The link edges of every vertex, bucketed in one pass (`buckets[v]` = the edges opposite to `v`). -/
def linkBuckets (N : Nat) (ts : List Tri) : Array (List Edge) :=
  ts.foldl (fun (acc : Array (List Edge)) t =>
    let acc := acc.modify t.1 ((t.2.1, t.2.2) :: ·)
    let acc := acc.modify t.2.1 ((t.2.2, t.1) :: ·)
    acc.modify t.2.2 ((t.1, t.2.1) :: ·)) (Array.replicate N [])

/-- every vertex fan is one cycle (`Surface.fanCycle`, the proved decider, on each bucket) -/
def fanConnectedFast (N : Nat) (ts : List Tri) : Bool :=
  (linkBuckets N ts).all fun es => fanCycle es

def closedManifoldFast (N : Nat) (ts : List Tri) : Bool :=
  idsBelow N ts && edgeBalancedFast N ts && fanConnectedFast N ts && noDegenerate ts

end M3d.SoupFast
