import M3d.Model.Numeric
/-!
# C17 model: `Matrix2.Eigenvalues`, `symEigs`, `symEigDecomp`, `SVD` (core Lean only, executable)

`numerical/matrix2.go` and the twin `model2d/matrix.go` (identical up to `Vec2`/`Coord`).  Only
`+ - * /`, `math.Sqrt`, `math.Max(0, ·)` and comparisons occur, so the same generic definitions are
run at `Float` and compared bit for bit with the real code (`eig2.f`, `svd2.f`, `symeig2.f`), and
`Matrix2.Eigenvalues` also at `Rat` on matrices with a square discriminant (`eig2.q`).

`Eigenvalues` goes through `complex128`: `b·b − 4·a·c` has an imaginary part `±0`, so `cmplx.Sqrt`
takes its real-argument branch (`math.Sqrt(x)` for `x ≥ 0`, `i·math.Sqrt(−x)` for `x < 0`), and the
division by the real `2·a = 2` (Smith's algorithm with `ratio = 0`) divides both parts by `2`.  The
real parts and the modulus of the imaginary part below are therefore exactly what Go computes; the
SIGN of the imaginary parts (which member of a conjugate pair comes first) is not modelled.
-/
namespace M3d.Num
variable {α : Type}

section
variable [Add α] [Sub α] [Mul α] [Div α] [Neg α] [NatCast α] [LT α] [DecidableLT α]

/-- Go's `x == 0` on a non-NaN float. -/
def isZero (x : α) : Bool := !(decide (x < ((0 : Nat) : α)) || decide (((0 : Nat) : α) < x))

/-- `math.Max(0, x)` on a non-NaN float. -/
def max0 (x : α) : α := if ((0 : Nat) : α) < x then x else ((0 : Nat) : α)

namespace M2

/-- The discriminant `b·b − 4·a·c` of `Matrix2.Eigenvalues` (`a = 1`). -/
def eigDisc (m : M2 α) : α :=
  let bc := eigCoeffs m
  bc.1 * bc.1 - ((4 : Nat) : α) * ((1 : Nat) : α) * bc.2

/-- `Matrix2.Eigenvalues`: `(re λ₀, re λ₁, |im λ₀| = |im λ₁|)`.  For a non-negative discriminant the
two real roots `(-b ∓ sqrt disc) / 2` (ascending for a non-negative `sqrt`); for a negative one the
conjugate pair `-b/2 ∓ i·sqrt(-disc)/2`. -/
def eigenvalues (sqrt : α → α) (m : M2 α) : α × α × α :=
  let b := (eigCoeffs m).1
  let disc := eigDisc m
  let two := ((2 : Nat) : α) * ((1 : Nat) : α)
  let z := ((0 : Nat) : α)
  if disc < z then
    let sq := sqrt (-disc)
    ((-b - z) / two, (-b + z) / two, sq / two)
  else
    let sq := sqrt disc
    ((-b - sq) / two, (-b + sq) / two, z)

/-- `Matrix2.symEigs` given `real(vals[0])`. -/
def symEigs (sqrt : α → α) (m : M2 α) (val0 : α) : V2 α × V2 α :=
  let r1 : V2 α := ⟨m.m0 - val0, m.m1⟩
  let r2 : V2 α := ⟨m.m2, m.m3 - val0⟩
  let n1 := V2.norm sqrt r1
  let n2 := V2.norm sqrt r2
  if isZero n1 && isZero n2 then
    (⟨((1 : Nat) : α), ((0 : Nat) : α)⟩, ⟨((0 : Nat) : α), ((1 : Nat) : α)⟩)
  else
    let second := if n1 < n2 then r2.scale (((1 : Nat) : α) / n2) else r1.scale (((1 : Nat) : α) / n1)
    (⟨-second.y, second.x⟩, second)

/-- The eigenvalue pair after `if real(eigVals[0]) < real(eigVals[1]) { swap }`. -/
def sortedEig (sqrt : α → α) (m : M2 α) : α × α :=
  let e := eigenvalues sqrt m
  if e.1 < e.2.1 then (e.2.1, e.1) else (e.1, e.2.1)

/-- `Matrix2.symEigDecomp`: `(s, v)` with `m = v·s·vᵀ`. -/
def symEigDecomp (sqrt : α → α) (m : M2 α) : M2 α × M2 α :=
  let e := sortedEig sqrt m
  let vs := symEigs sqrt m e.1
  let z := ((0 : Nat) : α)
  (⟨e.1, z, z, e.2⟩, ⟨vs.1.x, vs.2.x, vs.1.y, vs.2.y⟩)

/-- The left singular vectors of `Matrix2.SVD` given the right ones `v1`, `v2`, `aat = m·mᵀ` and the larger
eigenvalue `val0`: `u1 = m·v1/|m·v1|`, `u2 = (-u1.y, u1.x)` (or `aat.symEigs` when `m·v1 = 0`), each negated when
`(m·vᵢ)·uᵢ < 0`. -/
def svdUs (sqrt : α → α) (m aat : M2 α) (v1 v2 : V2 α) (val0 : α) : V2 α × V2 α :=
  let mv1 := m.mulColumn v1
  let n := V2.norm sqrt mv1
  let us : V2 α × V2 α :=
    if isZero n then symEigs sqrt aat val0
    else
      let u1 := mv1.scale (((1 : Nat) : α) / n)
      (u1, ⟨-u1.y, u1.x⟩)
  let z := ((0 : Nat) : α)
  let u1 := if (m.mulColumn v1).dot us.1 < z then us.1.scale (-((1 : Nat) : α)) else us.1
  let u2 := if (m.mulColumn v2).dot us.2 < z then us.2.scale (-((1 : Nat) : α)) else us.2
  (u1, u2)

/-- `Matrix2.SVD`: `(u, s, v)`. -/
def svd (sqrt : α → α) (m : M2 α) : M2 α × M2 α × M2 α :=
  let ata := m.transpose.mul m
  let aat := m.mul m.transpose
  let e := sortedEig sqrt ata
  let vs := symEigs sqrt ata e.1
  let us := svdUs sqrt m aat vs.1 vs.2 e.1
  let z := ((0 : Nat) : α)
  (⟨us.1.x, us.2.x, us.1.y, us.2.y⟩, ⟨sqrt (max0 e.1), z, z, sqrt (max0 e.2)⟩,
   ⟨vs.1.x, vs.2.x, vs.1.y, vs.2.y⟩)

end M2
end

end M3d.Num
