/-!
# Order of the repair steps of `DualContouring.mesh` with `Repair = true` (core-only)

`repairSingularEdges` / `repairSingularVertices` (model3d/dc.go) collect the singular edges
(vertices) of the mesh into groups and then apply `group.Repair(m, epsilon)` to one group after the
other.  Every step edits the mesh (it replaces triangles, moves a vertex) and reads the triangles
as the previous steps left them (`RecomputeGroups`, `t.Normal()`), so the steps do not commute.
The groups are found by ranging over Go maps (`EdgeToSlice.Range`, `Mesh.Iterate`,
`ptrCoord.Clusters`): their ENUMERATION order differs from run to run.

* `repairEnumOrder` — the code before fix 09ce28e: steps in enumeration order;
* `repairSorted` — the code since 09ce28e: the groups are sorted by coordinates first
  (`sort.Slice` on `Edge` / `Vertex`; with distinct keys the sorted list is unique, `mergeSort`
  here).  The same shape covers the floating-point sum over the triangles of a vertex cluster
  (`singularVertexGroup.Repair`: `d = d.Add(…)`, triangles now sorted by coordinates) and the
  order of the triangles round a singular edge (`newSingularEdgeGroup`: sorted by angle, equal
  angles by the triangles' coordinates since 08bc264 — before, two triangles at the same angle
  were paired in the order the mesh listed them).

`G` = groups, `M` = meshes, `step` = one repair.
-/
namespace M3d.DcRepair

def repairEnumOrder {G M : Type} (step : M → G → M) (enum : List G) (m : M) : M :=
  enum.foldl step m

def repairSorted {G M : Type} (le : G → G → Bool) (step : M → G → M) (enum : List G) (m : M) : M :=
  (enum.mergeSort le).foldl step m

end M3d.DcRepair
