import M3d.Model.Transform
/-!
# C05 — executable model of `model2d/transform.go` (the 2-D instance of `templates/transform.template`)

Core Lean only, generic over the scalar; same conventions as `M3d/Model/Transform.lean`.
`model2d.Coord` ↦ `V2`, `*Matrix2` ↦ `M2` (both defined in `Transform.lean`), the 2-D `Transform`
implementations ↦ `Xf2`, `Matrix2Transform.ApplyBounds` ↦ running min / max over the **4** corner images.
-/
namespace M3d.Tf

namespace V2
variable {α : Type}

/-- `Coord.Add` -/
def add [Add α] (a b : V2 α) : V2 α := ⟨a.x + b.x, a.y + b.y⟩
/-- `Coord.Sub` -/
def sub [Sub α] (a b : V2 α) : V2 α := ⟨a.x - b.x, a.y - b.y⟩
/-- `Coord.Scale` -/
def scale [Mul α] (a : V2 α) (s : α) : V2 α := ⟨a.x * s, a.y * s⟩
/-- `Coord.Mul` -/
def mul [Mul α] (a b : V2 α) : V2 α := ⟨a.x * b.x, a.y * b.y⟩
/-- `Coord.Recip` -/
def recip [Div α] [OfNat α 1] (a : V2 α) : V2 α := ⟨1 / a.x, 1 / a.y⟩
/-- `Coord.Min` -/
def min [LE α] [DecidableLE α] (a b : V2 α) : V2 α := ⟨mn a.x b.x, mn a.y b.y⟩
/-- `Coord.Max` -/
def max [LE α] [DecidableLE α] (a b : V2 α) : V2 α := ⟨mx a.x b.x, mx a.y b.y⟩
/-- `Coord.Abs` -/
def abs [LE α] [DecidableLE α] [Neg α] [OfNat α 0] (a : V2 α) : V2 α := ⟨absS a.x, absS a.y⟩
/-- `Coord.Dot` -/
def dot [Add α] [Mul α] (a b : V2 α) : α := a.x * b.x + a.y * b.y
/-- the argument of `math.Sqrt` in `Coord.Norm` -/
def normSq [Add α] [Mul α] (a : V2 α) : α := a.x * a.x + a.y * a.y
/-- `Coord.Normalize` -/
def normalize [Add α] [Mul α] [Div α] [OfNat α 1] (sqrtF : α → α) (a : V2 α) : V2 α :=
  a.scale (1 / sqrtF a.normSq)
/-- `Coord.MaxCoord` = `math.Max(c.X, c.Y)` -/
def maxCoord [LE α] [DecidableLE α] (c : V2 α) : α := mx c.x c.y
def zero [OfNat α 0] : V2 α := ⟨0, 0⟩
/-- Go's `==` on `Coord` values -/
def beq [BEq α] (a b : V2 α) : Bool := a.x == b.x && a.y == b.y

end V2

/-- `c.Min(min) == min && c.Max(max) == max` (2-D `InBounds`, `CheckedFuncSolid`). -/
def inBounds2 {α : Type} [LE α] [DecidableLE α] [BEq α] (c lo hi : V2 α) : Bool :=
  (c.min lo).beq lo && (c.max hi).beq hi

/-- `Translate | Scale | VecScale | Matrix2Transform | orthoMatrix2Transform | JoinedTransform` of `model2d`. -/
inductive Xf2 (α : Type) where
  | translate (off : V2 α)
  | scale (s : α)
  | vecScale (v : V2 α)
  | matrix (m : M2 α)
  | ortho (m : M2 α)
  | jnil
  | jcons (t rest : Xf2 α)
deriving Repr

namespace Xf2
variable {α : Type}

/-- `Apply` -/
def apply [Add α] [Mul α] : Xf2 α → V2 α → V2 α
  | translate o, c => c.add o
  | scale s, c => c.scale s
  | vecScale v, c => c.mul v
  | matrix m, c => m.mulColumn c
  | ortho m, c => m.mulColumn c
  | jnil, c => c
  | jcons t rest, c => rest.apply (t.apply c)

/-- `Matrix2Transform.ApplyBounds`: running min / max over the 4 corner images (x outer, y inner). -/
def matrixBounds [Add α] [Mul α] [LE α] [DecidableLE α] (m : M2 α) (lo hi : V2 α) : V2 α × V2 α :=
  let c0 := m.mulColumn ⟨lo.x, lo.y⟩
  [m.mulColumn ⟨lo.x, hi.y⟩, m.mulColumn ⟨hi.x, lo.y⟩, m.mulColumn ⟨hi.x, hi.y⟩].foldl
    (fun acc c => (acc.1.min c, acc.2.max c)) (c0, c0)

/-- `ApplyBounds` -/
def applyBounds [Add α] [Mul α] [LE α] [DecidableLE α] : Xf2 α → V2 α → V2 α → V2 α × V2 α
  | translate o, lo, hi => (lo.add o, hi.add o)
  | scale s, lo, hi =>
      let a := lo.scale s
      let b := hi.scale s
      (a.min b, b.max a)
  | vecScale v, lo, hi =>
      let a := lo.mul v
      let b := hi.mul v
      (a.min b, b.max a)
  | matrix m, lo, hi => matrixBounds m lo hi
  | ortho m, lo, hi => matrixBounds m lo hi
  | jnil, lo, hi => (lo, hi)
  | jcons t rest, lo, hi =>
      let b := t.applyBounds lo hi
      rest.applyBounds b.1 b.2

/-- `append(res, t)` -/
def snoc : Xf2 α → Xf2 α → Xf2 α
  | jnil, t => jcons t jnil
  | jcons a r, t => jcons a (snoc r t)
  | r, t => jcons r (jcons t jnil)

/-- `Inverse` -/
def inverse [Sub α] [Mul α] [Div α] [Neg α] [OfNat α 1] : Xf2 α → Xf2 α
  | translate o => translate (o.scale (-(1 : α)))
  | scale s => scale (1 / s)
  | vecScale v => vecScale v.recip
  | matrix m => matrix m.inverse
  | ortho m => ortho m.inverse
  | jnil => jnil
  | jcons t rest => snoc rest.inverse t.inverse

/-- implements `DistTransform` all the way down -/
def isDist : Xf2 α → Bool
  | translate _ => true
  | scale _ => true
  | ortho _ => true
  | jnil => true
  | jcons t rest => t.isDist && rest.isDist
  | _ => false

/-- `ApplyDistance` -/
def applyDistance [Mul α] [LE α] [DecidableLE α] [Neg α] [OfNat α 0] : Xf2 α → α → α
  | translate _, d => d
  | scale s, d => d * absS s
  | ortho _, d => d
  | jcons t rest, d => rest.applyDistance (t.applyDistance d)
  | _, d => d

end Xf2

structure Solid2 (α : Type) where
  lo : V2 α
  hi : V2 α
  contains : V2 α → Bool

structure SDF2 (α : Type) where
  lo : V2 α
  hi : V2 α
  sdf : V2 α → α

structure Ray2 (α : Type) where
  origin : V2 α
  dir : V2 α
deriving DecidableEq, Repr

structure Hit2 (α : Type) where
  scale : α
  normal : V2 α
  extra : Nat
deriving DecidableEq, Repr

structure Collider2 (α : Type) where
  lo : V2 α
  hi : V2 α
  hits : Ray2 α → List (Hit2 α)
  count : Ray2 α → Nat
  first : Ray2 α → Hit2 α × Bool
  circle : V2 α → α → Bool

structure Metaball2 (α : Type) where
  lo : V2 α
  hi : V2 α
  field : V2 α → α
  distBound : α → α

inductive RCResult2 (α : Type) where
  | ok (count : Nat) (calls : List (Hit2 α))
  | panic
deriving Repr

section Wrapped2
variable {α : Type} [Add α] [Sub α] [Mul α] [Div α] [Neg α] [OfNat α 0] [OfNat α 1]
  [LE α] [DecidableLE α]

/-- `model2d.TransformSolid` -/
def transformSolid2 [BEq α] (t : Xf2 α) (s : Solid2 α) : Solid2 α :=
  let inv := t.inverse
  let b := t.applyBounds s.lo s.hi
  { lo := b.1, hi := b.2, contains := fun c => inBounds2 c b.1 b.2 && s.contains (inv.apply c) }

/-- `model2d.TransformSDF` -/
def transformSDF2 (t : Xf2 α) (s : SDF2 α) : SDF2 α :=
  let inv := t.inverse
  let b := t.applyBounds s.lo s.hi
  { lo := b.1, hi := b.2, sdf := fun c => t.applyDistance (s.sdf (inv.apply c)) }

/-- 2-D `transformedCollider.innerRay` -/
def innerRay2 (inv : Xf2 α) (r : Ray2 α) : Ray2 α :=
  { origin := inv.apply r.origin, dir := (inv.apply r.dir).sub (inv.apply V2.zero) }

/-- 2-D `transformedCollider.outerCollision` -/
def outerCollision2 (sqrtF : α → α) (t : Xf2 α) (rc : Hit2 α) : Hit2 α :=
  { scale := rc.scale, normal := ((t.apply rc.normal).sub (t.apply V2.zero)).normalize sqrtF, extra := rc.extra }

/-- 2-D `transformedCollider.RayCollisions` -/
def tcRayCollisions2 (sqrtF : α → α) (t : Xf2 α) (c : Collider2 α) (r : Ray2 α) (withCb : Bool) : RCResult2 α :=
  let ir := innerRay2 t.inverse r
  if withCb then .ok (c.count ir) ((c.hits ir).map (outerCollision2 sqrtF t))
  else .ok (c.count ir) []

/-- 2-D `transformedCollider.FirstRayCollision` -/
def tcFirst2 (sqrtF : α → α) (t : Xf2 α) (c : Collider2 α) (r : Ray2 α) : Hit2 α × Bool :=
  let res := c.first (innerRay2 t.inverse r)
  if res.2 then (outerCollision2 sqrtF t res.1, true) else (⟨0, V2.zero, 0⟩, false)

/-- 2-D `transformedCollider.CircleCollision` -/
def tcCircle2 (t : Xf2 α) (c : Collider2 α) (p : V2 α) (rad : α) : Bool :=
  c.circle (t.inverse.apply p) (t.inverse.applyDistance rad)

/-- `model2d.TransformMetaball` -/
def transformMetaball2 (t : Xf2 α) (m : Metaball2 α) : Metaball2 α :=
  let inv := t.inverse
  let b := t.applyBounds m.lo m.hi
  { lo := b.1, hi := b.2, field := fun c => m.field (inv.apply c),
    distBound := fun d => m.distBound (inv.applyDistance d) }

/-- `model2d.VecScaleMetaball` -/
def vecScaleMetaball2 (m : Metaball2 α) (scale : V2 α) : Metaball2 α :=
  let a := m.lo.mul scale
  let b := m.hi.mul scale
  let invScale := scale.recip
  let invMaxScale := 1 / scale.abs.maxCoord
  { lo := a.min b, hi := b.max a, field := fun c => m.field (c.mul invScale),
    distBound := fun d => m.distBound (d * invMaxScale) }

end Wrapped2

end M3d.Tf
