import M3d.Model.MeshDiag
import M3d.Model.MeshDiagSweep
/-!
# The probe point of `RepairNormals` and the even–odd rule along a ray (core-only, generic scalar)

`model2d.Mesh.RepairNormals(epsilon)` decides for every segment `s` whether to reverse it by asking
the even–odd solid of the whole mesh about ONE point,

    normal   := s.Normal()                       // XY(-delta.Y, delta.X).Normalize()
    center   := s.Mid()                          // s[0].Add(s[1]).Scale(0.5)
    movedOut := center.Add(normal.Scale(epsilon))

(`model3d`: `t.Normal()` = normalised cross product, `center` = the centroid).  The earlier models
(`repairNormals2`, `repairNormals`) take the answer of that question as an oracle on faces.  This
file makes the point explicit:

* `probeDoc` — the point of the source: midpoint + `epsilon` × the UNIT normal (`sqrt` and the
  literal `0.5` are parameters: `Float.sqrt` / `0.5` at run time, an exact square root in theorems);
* `probeAt τ` — midpoint + `τ` × the un-normalised left vector `(-dy, dx)`: the general shape "a point
  of the normal line through the midpoint"; the source's point is `probeAt (epsilon / |s|)`, the
  point of a version that drops the normalisation is `probeAt epsilon`;
* `crossesLine`, `hitParam`, `rayHits`, `evenOddRay` — the crossing-number form of the even–odd rule
  for the ray from `p` along `d` (half-open side rule, so a ray through a vertex counts correctly);
* `repairNormals2At contains probe` — `RepairNormals` with the probe explicit.

Theorems: `M3d/Lemmas/MeshDiagProbe.lean`, `M3d/Props/C11.lean`.
-/
namespace M3d.MeshDiag
open M3d.Surface

structure Vec2 (α : Type) where
  x : α
  y : α
deriving DecidableEq, Repr, Inhabited

/-- A segment with coordinates: (first point, second point). -/
abbrev GSeg (α : Type) := Vec2 α × Vec2 α

/-- A triangle with coordinates. -/
abbrev GTri (α : Type) := Vec3 α × Vec3 α × Vec3 α

section
variable {α : Type} [Add α] [Sub α] [Mul α] [Div α] [Neg α] [OfNat α 0] [OfNat α 1] [LT α] [DecidableLT α]

namespace Vec2
def add (a b : Vec2 α) : Vec2 α := ⟨a.x + b.x, a.y + b.y⟩
def sub (a b : Vec2 α) : Vec2 α := ⟨a.x - b.x, a.y - b.y⟩
def scale (a : Vec2 α) (s : α) : Vec2 α := ⟨a.x * s, a.y * s⟩
def dot (a b : Vec2 α) : α := a.x * b.x + a.y * b.y
/-- the 2-D cross product `a.x b.y − a.y b.x` -/
def cross (a b : Vec2 α) : α := a.x * b.y - a.y * b.x
def normSq (a : Vec2 α) : α := a.x * a.x + a.y * a.y
end Vec2

/-! ## the probe point in 2-D -/

/-- `Segment.Mid`: `s[0].Add(s[1]).Scale(0.5)`. -/
def segMid (half : α) (s : GSeg α) : Vec2 α := (s.1.add s.2).scale half

/-- `XY(-delta.Y, delta.X)` with `delta = s[1] − s[0]`: the vector to the left of the direction of
the segment, as long as the segment. -/
def segLeft (s : GSeg α) : Vec2 α := ⟨-(s.2.y - s.1.y), s.2.x - s.1.x⟩

/-- `Coord.Norm`. -/
def vnorm2 (sqrt : α → α) (v : Vec2 α) : α := sqrt (v.x * v.x + v.y * v.y)

/-- `Segment.Normal()`: `XY(-delta.Y, delta.X).Normalize()`, `Normalize = Scale(1 / Norm())`. -/
def segNormal (sqrt : α → α) (s : GSeg α) : Vec2 α :=
  (segLeft s).scale (1 / vnorm2 sqrt (segLeft s))

/-- `movedOut` of `model2d.Mesh.RepairNormals`: `center.Add(normal.Scale(epsilon))`. -/
def probeDoc (sqrt : α → α) (half eps : α) (s : GSeg α) : Vec2 α :=
  (segMid half s).add ((segNormal sqrt s).scale eps)

/-- The point of the normal line through the midpoint at parameter `τ` (in units of the
un-normalised left vector): `s.Mid().Add(XY(-delta.Y, delta.X).Scale(τ))`. -/
def probeAt (half τ : α) (s : GSeg α) : Vec2 α :=
  (segMid half s).add ((segLeft s).scale τ)

/-! ## the probe point in 3-D -/

def v3add (a b : Vec3 α) : Vec3 α := ⟨a.x + b.x, a.y + b.y, a.z + b.z⟩
def v3sub (a b : Vec3 α) : Vec3 α := ⟨a.x - b.x, a.y - b.y, a.z - b.z⟩
def v3scale (a : Vec3 α) (s : α) : Vec3 α := ⟨a.x * s, a.y * s, a.z * s⟩
def v3cross (a b : Vec3 α) : Vec3 α :=
  ⟨a.y * b.z - a.z * b.y, a.z * b.x - a.x * b.z, a.x * b.y - a.y * b.x⟩

/-- `t[0].Add(t[1]).Add(t[2]).Scale(1.0 / 3)`. -/
def triCentre (third : α) (t : GTri α) : Vec3 α := v3scale (v3add (v3add t.1 t.2.1) t.2.2) third

/-- `Triangle.crossProduct`: `(t[1] − t[0]) × (t[2] − t[0])` (twice the area long). -/
def triCross (t : GTri α) : Vec3 α := v3cross (v3sub t.2.1 t.1) (v3sub t.2.2 t.1)

/-- `Coord3D.Norm`. -/
def vnorm3 (sqrt : α → α) (v : Vec3 α) : α := sqrt (v.x * v.x + v.y * v.y + v.z * v.z)

/-- `Triangle.Normal()`. -/
def triNormal (sqrt : α → α) (t : GTri α) : Vec3 α :=
  v3scale (triCross t) (1 / vnorm3 sqrt (triCross t))

/-- `movedOut` of `model3d.Mesh.RepairNormals`. -/
def probeDoc3 (sqrt : α → α) (third eps : α) (t : GTri α) : Vec3 α :=
  v3add (triCentre third t) (v3scale (triNormal sqrt t) eps)

/-- The point of the normal line through the centroid at parameter `τ` (units of the cross product). -/
def probeAt3 (third τ : α) (t : GTri α) : Vec3 α :=
  v3add (triCentre third t) (v3scale (triCross t) τ)

/-! ## the even–odd rule along a ray (2-D) -/

/-- Which side of the line through `p` with direction `d` the point `q` lies on (`> 0`: left). -/
def sideOf (p d q : Vec2 α) : α := d.cross (q.sub p)

/-- The segment crosses the line through `p` along `d` (half-open rule: one end strictly on the
left, the other not — a vertex on the line is counted for exactly one of two segments that pass
through it and for none or both of two segments that only touch it). -/
def crossesLine (p d : Vec2 α) (s : GSeg α) : Bool :=
  decide ((0 : α) < sideOf p d s.1) != decide ((0 : α) < sideOf p d s.2)

/-- The parameter `u` for which `p + u d` lies on the line of the segment. -/
def hitParam (p d : Vec2 α) (s : GSeg α) : α :=
  (s.1.sub p).cross (s.2.sub s.1) / d.cross (s.2.sub s.1)

/-- The segments crossed by the open ray `p + u d`, `u > 0`. -/
def rayHits (segs : List (GSeg α)) (p d : Vec2 α) : List (GSeg α) :=
  segs.filter fun s => crossesLine p d s && decide ((0 : α) < hitParam p d s)

/-- Even–odd rule: `p` is inside iff the ray from `p` along `d` crosses the mesh an odd number of
times. -/
def evenOddRay (segs : List (GSeg α)) (p d : Vec2 α) : Bool := (rayHits segs p d).length % 2 == 1

/-- The segments that cross the line through `p` along `d` at a parameter in `(lo, hi]`. -/
def lineHitsIn (segs : List (GSeg α)) (p d : Vec2 α) (lo hi : α) : List (GSeg α) :=
  segs.filter fun s => crossesLine p d s && (decide (lo < hitParam p d s) && !decide (hi < hitParam p d s))

/-! ## the even–odd rule along a ray (3-D, lines that meet no edge) -/

/-- `d · (u × v)`. -/
def vol3 (d u v : Vec3 α) : α := vdot d (v3cross u v)

/-- The line through `p` along `d` passes through the interior of the triangle: the three signed
volumes spanned by `d` and two consecutive corners (seen from `p`) have the same strict sign.  (A
line through an edge or a vertex is not counted: the model is for lines in general position; the
driver uses it only for such lines.) -/
def crossesLine3 (p d : Vec3 α) (t : GTri α) : Bool :=
  let a := v3sub t.1 p
  let b := v3sub t.2.1 p
  let c := v3sub t.2.2 p
  (decide ((0 : α) < vol3 d a b) && decide ((0 : α) < vol3 d b c) && decide ((0 : α) < vol3 d c a)) ||
  (decide (vol3 d a b < (0 : α)) && decide (vol3 d b c < (0 : α)) && decide (vol3 d c a < (0 : α)))

/-- The parameter `u` for which `p + u d` lies in the plane of the triangle. -/
def hitParam3 (p d : Vec3 α) (t : GTri α) : α :=
  vdot (triCross t) (v3sub t.1 p) / vdot (triCross t) d

def rayHits3 (tris : List (GTri α)) (p d : Vec3 α) : List (GTri α) :=
  tris.filter fun t => crossesLine3 p d t && decide ((0 : α) < hitParam3 p d t)

def evenOddRay3 (tris : List (GTri α)) (p d : Vec3 α) : Bool := (rayHits3 tris p d).length % 2 == 1

def lineHitsIn3 (tris : List (GTri α)) (p d : Vec3 α) (lo hi : α) : List (GTri α) :=
  tris.filter fun t => crossesLine3 p d t && (decide (lo < hitParam3 p d t) && !decide (hi < hitParam3 p d t))

/-- Coordinates of an id triangle. -/
def geoOf3 (pos : Nat → Vec3 α) (t : Tri) : GTri α := (pos t.1, pos t.2.1, pos t.2.2)

/-- `model3d.Mesh.RepairNormals` with the probe explicit. -/
def repairNormals3At (contains : Vec3 α → Bool) (probe : GTri α → Vec3 α) (pos : Nat → Vec3 α)
    (ts : List Tri) : List Tri × Nat :=
  repairNormals (fun f => contains (probe (geoOf3 pos f.2))) ts

/-- No triangle is crossed by the normal line of `g` at a parameter in `(0, T]`. -/
def clearUpTo3 (third : α) (geo : List (GTri α)) (g : GTri α) (T : α) : Bool :=
  (lineHitsIn3 geo (triCentre third g) (triCross g) 0 T).isEmpty

/-! ## `RepairNormals` with the probe explicit -/

/-- The segment traversed the other way. -/
def swapG (g : GSeg α) : GSeg α := (g.2, g.1)

/-- Coordinates of an id segment. -/
def geoOf (pos : Nat → Vec2 α) (s : Seg) : GSeg α := (pos s.1, pos s.2)

/-- `model2d.Mesh.RepairNormals`: every segment whose probe point the solid contains is reversed.
`contains` = `NewColliderSolid(MeshToCollider(m)).Contains`, `probe` = how `movedOut` is computed
from the segment. -/
def repairNormals2At (contains : Vec2 α → Bool) (probe : GSeg α → Vec2 α) (pos : Nat → Vec2 α)
    (ss : List Seg) : List Seg × Nat :=
  repairNormals2 (fun f => contains (probe (geoOf pos f.2))) ss

/-- `RepairNormals` as its documentation words it ("adding the normal, scaled by epsilon, to the
center of the segment, and then counting the number of ray collisions from this point in the
direction of the normal"): the probe of segment `g` is the point at parameter `τ g` of its normal
line, the ray runs along the normal. -/
def repairNormals2Ray (half : α) (τ : GSeg α → α) (pos : Nat → Vec2 α) (ss : List Seg) : List Seg × Nat :=
  repairNormals2 (fun f =>
    evenOddRay (ss.map (geoOf pos)) (probeAt half (τ (geoOf pos f.2)) (geoOf pos f.2)) (segLeft (geoOf pos f.2))) ss

/-- The stretch of the normal line of `g` up to parameter `T` (units of the left vector) is clear:
no segment of the mesh crosses the line at a parameter in `(0, T]`. -/
def clearUpTo (half : α) (geo : List (GSeg α)) (g : GSeg α) (T : α) : Bool :=
  (lineHitsIn geo (segMid half g) (segLeft g) 0 T).isEmpty

/-- The even–odd solid of the mesh `ss`, counted along the fixed direction `dir`
(`ColliderContains` uses one fixed "random" direction). -/
def evenOddSolid (pos : Nat → Vec2 α) (ss : List Seg) (dir : Vec2 α) : Vec2 α → Bool :=
  fun p => evenOddRay (ss.map (geoOf pos)) p dir

end
end M3d.MeshDiag
