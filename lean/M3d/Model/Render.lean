/-!
# Executable models of `render3d` (property C20)

Generic over the scalar `α`: proved for every linearly ordered field in
`M3d/Props/C20.lean`, executed at `Rat` (exact mode) and `Float` (bit-for-bit
mode) by `M3d/Drv/C20.lean`.  Core Lean only.

Things that are not arithmetic in Go are parameters here:
* `cast : Nat → α`  — `float64(n)`;
* `sqrt : α → α`   — `math.Sqrt`;
* `pd : α`         — `1 / math.Tan(FieldOfView/2)` (libm) in `Camera.axes`;
* the radiance of a traced ray, the random generator, `Object.Cast` of leaf
  objects, `Collider.FirstRayCollision` of a bounds collider — functions.
-/
namespace M3d.Render

/-! ## Vectors (`model3d.Coord3D`, `render3d.Color`) and `model3d.Matrix3` -/

structure V3 (α : Type) where
  x : α
  y : α
  z : α
deriving DecidableEq, Repr

namespace V3
variable {α : Type}

def zero [OfNat α 0] : V3 α := ⟨0, 0, 0⟩
def add [Add α] (a b : V3 α) : V3 α := ⟨a.x + b.x, a.y + b.y, a.z + b.z⟩
/-- `Coord3D.Sub` is `c.Add(c1.Scale(-1))`; in IEEE arithmetic `a + b*(-1)` and `a - b` are the same value. -/
def sub [Sub α] (a b : V3 α) : V3 α := ⟨a.x - b.x, a.y - b.y, a.z - b.z⟩
def scale [Mul α] (a : V3 α) (s : α) : V3 α := ⟨a.x * s, a.y * s, a.z * s⟩
def mul [Mul α] (a b : V3 α) : V3 α := ⟨a.x * b.x, a.y * b.y, a.z * b.z⟩
def dot [Add α] [Mul α] (a b : V3 α) : α := a.x * b.x + a.y * b.y + a.z * b.z
def cross [Sub α] [Mul α] (a b : V3 α) : V3 α :=
  ⟨a.y * b.z - a.z * b.y, a.z * b.x - a.x * b.z, a.x * b.y - a.y * b.x⟩
def norm [Add α] [Mul α] (sqrt : α → α) (a : V3 α) : α := sqrt (a.x * a.x + a.y * a.y + a.z * a.z)
/-- `Coord3D.Normalize`: `c.Scale(1 / c.Norm())`. -/
def normalize [Add α] [Mul α] [Div α] [OfNat α 1] (sqrt : α → α) (a : V3 α) : V3 α :=
  a.scale (1 / a.norm sqrt)
/-- `c.Max(Color{})` (componentwise `math.Max(·, 0)`; NaN excluded). -/
def clamp0 [OfNat α 0] [LT α] [DecidableLT α] (a : V3 α) : V3 α :=
  ⟨if 0 < a.x then a.x else 0, if 0 < a.y then a.y else 0, if 0 < a.z then a.z else 0⟩
def map (f : α → α) (a : V3 α) : V3 α := ⟨f a.x, f a.y, f a.z⟩
def toList (a : V3 α) : List α := [a.x, a.y, a.z]
end V3

/-- Row-major 3×3 matrix (`model3d.Matrix3`: `MulColumn` reads `m[0..2]` as the first row). -/
structure M3 (α : Type) where
  m0 : α
  m1 : α
  m2 : α
  m3 : α
  m4 : α
  m5 : α
  m6 : α
  m7 : α
  m8 : α
deriving DecidableEq, Repr

namespace M3
variable {α : Type}

/-- `NewMatrix3Columns`. -/
def ofColumns (a b c : V3 α) : M3 α := ⟨a.x, b.x, c.x, a.y, b.y, c.y, a.z, b.z, c.z⟩

/-- `Matrix3.MulColumn`. -/
def mulColumn [Add α] [Mul α] (m : M3 α) (c : V3 α) : V3 α :=
  ⟨m.m0 * c.x + m.m1 * c.y + m.m2 * c.z,
   m.m3 * c.x + m.m4 * c.y + m.m5 * c.z,
   m.m6 * c.x + m.m7 * c.y + m.m8 * c.z⟩

/-- `Matrix3.Det`. -/
def det [Add α] [Sub α] [Mul α] (m : M3 α) : α :=
  m.m0 * (m.m4 * m.m8 - m.m5 * m.m7) - m.m1 * (m.m3 * m.m8 - m.m5 * m.m6)
    + m.m2 * (m.m3 * m.m7 - m.m4 * m.m6)

def scaleAll [Mul α] (m : M3 α) (s : α) : M3 α :=
  ⟨m.m0 * s, m.m1 * s, m.m2 * s, m.m3 * s, m.m4 * s, m.m5 * s, m.m6 * s, m.m7 * s, m.m8 * s⟩

/-- The adjugate written out in `InvertInPlaceDet`. -/
def adjugate [Sub α] [Mul α] (m : M3 α) : M3 α :=
  ⟨m.m4 * m.m8 - m.m5 * m.m7, m.m2 * m.m7 - m.m1 * m.m8, m.m1 * m.m5 - m.m2 * m.m4,
   m.m5 * m.m6 - m.m3 * m.m8, m.m0 * m.m8 - m.m2 * m.m6, m.m2 * m.m3 - m.m0 * m.m5,
   m.m3 * m.m7 - m.m4 * m.m6, m.m1 * m.m6 - m.m0 * m.m7, m.m0 * m.m4 - m.m1 * m.m3⟩

/-- `Matrix3.Inverse`: adjugate scaled by `1 / Det()`. -/
def inverse [Add α] [Sub α] [Mul α] [Div α] [OfNat α 1] (m : M3 α) : M3 α :=
  m.adjugate.scaleAll (1 / m.det)

def transpose (m : M3 α) : M3 α := ⟨m.m0, m.m3, m.m6, m.m1, m.m4, m.m7, m.m2, m.m5, m.m8⟩

def mulM [Add α] [Mul α] (a b : M3 α) : M3 α :=
  ⟨a.m0*b.m0 + a.m1*b.m3 + a.m2*b.m6, a.m0*b.m1 + a.m1*b.m4 + a.m2*b.m7, a.m0*b.m2 + a.m1*b.m5 + a.m2*b.m8,
   a.m3*b.m0 + a.m4*b.m3 + a.m5*b.m6, a.m3*b.m1 + a.m4*b.m4 + a.m5*b.m7, a.m3*b.m2 + a.m4*b.m5 + a.m5*b.m8,
   a.m6*b.m0 + a.m7*b.m3 + a.m8*b.m6, a.m6*b.m1 + a.m7*b.m4 + a.m8*b.m7, a.m6*b.m2 + a.m7*b.m5 + a.m8*b.m8⟩

def one [OfNat α 0] [OfNat α 1] : M3 α := ⟨1, 0, 0, 0, 1, 0, 0, 0, 1⟩
def toList (m : M3 α) : List α := [m.m0, m.m1, m.m2, m.m3, m.m4, m.m5, m.m6, m.m7, m.m8]
end M3

/-! ## `rayRenderer.estimateColor` / `estimateVariance` (ray_renderer.go)

`draw : σ → V3 α × σ` is one trip through `RayColor` (including the two
antialias draws from the goroutine's generator when `Antialias ≠ 0`): it
consumes generator state `σ` and yields the radiance sample.  `conv n sum sq`
is the convergence decision as a function of the running statistics; the
code's own instance is `codeConv` below. -/

section Estimator
variable {α σ : Type}

/-- Sampler settings that matter for the loop bookkeeping. -/
structure Sampler where
  numSamples : Nat
  minSamples : Nat
  /-- `HasConvergenceCheck()`: `MinSamples != 0 && (MaxStddev != 0 || Convergence != nil)`. -/
  hasCheck : Bool

/-- State at loop exit: reported `numSamples`, `colorSum`, generator, number of `RayColor` calls made. -/
structure LoopOut (α σ : Type) where
  n : Nat
  sum : V3 α
  gen : σ
  drawn : Nat

/-- The loop of `estimateColor` as repaired by the C20 `fix:` commit: `numSamples`
counts the samples drawn so far (it is incremented right after the sample is added). -/
def estLoop [Add α] [Mul α] (S : Sampler) (conv : Nat → V3 α → V3 α → Bool) (draw : σ → V3 α × σ) :
    Nat → Nat → V3 α → V3 α → σ → LoopOut α σ
  | 0, n, sum, _, g => ⟨n, sum, g, n⟩
  | fuel + 1, n, sum, sq, g =>
    let (s, g) := draw g
    let sum := sum.add s
    let n := n + 1
    if !S.hasCheck then estLoop S conv draw fuel n sum sq g
    else
      let sq := sq.add (s.mul s)
      if n < S.minSamples || n < 2 then estLoop S conv draw fuel n sum sq g
      else if conv n sum sq then ⟨n, sum, g, n⟩
      else estLoop S conv draw fuel n sum sq g

/-- `estimateColor`: returns `(sampleMean, numSamples, generator afterwards)`. -/
def estimateColor [Add α] [Mul α] [Div α] [OfNat α 0] [OfNat α 1] (cast : Nat → α) (S : Sampler)
    (conv : Nat → V3 α → V3 α → Bool) (draw : σ → V3 α × σ) (g : σ) : V3 α × Nat × σ :=
  let out := estLoop S conv draw S.numSamples 0 V3.zero V3.zero g
  (out.sum.scale (1 / cast out.n), out.n, out.gen)

/-- The loop as it was BEFORE the repair (kept for the record, see `Props/C20.lean`
`old_estimateColor_not_mean`): `numSamples` is the 0-based index of the sample being drawn,
so after `break` it is one less than the number of samples in `colorSum`. -/
def estLoopOld [Add α] [Mul α] (S : Sampler) (conv : Nat → V3 α → V3 α → Bool) (draw : σ → V3 α × σ) :
    Nat → Nat → V3 α → V3 α → σ → LoopOut α σ
  | 0, n, sum, _, g => ⟨n, sum, g, n⟩
  | fuel + 1, n, sum, sq, g =>
    let (s, g) := draw g
    let sum := sum.add s
    if !S.hasCheck then estLoopOld S conv draw fuel (n + 1) sum sq g
    else
      let sq := sq.add (s.mul s)
      if n < S.minSamples || n < 2 then estLoopOld S conv draw fuel (n + 1) sum sq g
      else if conv n sum sq then ⟨n, sum, g, n + 1⟩
      else estLoopOld S conv draw fuel (n + 1) sum sq g

def estimateColorOld [Add α] [Mul α] [Div α] [OfNat α 0] [OfNat α 1] (cast : Nat → α) (S : Sampler)
    (conv : Nat → V3 α → V3 α → Bool) (draw : σ → V3 α × σ) (g : σ) : V3 α × Nat × σ :=
  let out := estLoopOld S conv draw S.numSamples 0 V3.zero V3.zero g
  (out.sum.scale (1 / cast out.n), out.n, out.gen)

/-- The first `n` samples of the stream and the generator after them. -/
def drawN (draw : σ → V3 α × σ) : Nat → σ → List (V3 α) × σ
  | 0, g => ([], g)
  | n + 1, g =>
    let (s, g1) := draw g
    let (rest, g2) := drawN draw n g1
    (s :: rest, g2)

/-- Left-to-right sum starting from the zero colour (the order `colorSum` accumulates in). -/
def sumList [Add α] [OfNat α 0] (xs : List (V3 α)) : V3 α := xs.foldl V3.add V3.zero

/-- SPECIFICATION of a pixel: the arithmetic mean of the given samples. -/
def meanOf [Add α] [Mul α] [Div α] [OfNat α 0] [OfNat α 1] (cast : Nat → α) (xs : List (V3 α)) : V3 α :=
  (sumList xs).scale (1 / cast xs.length)

/-- Mean, clamped biased variance and the "standard deviation" handed to `Converged`,
computed from the running sums exactly as in the loop body. -/
def loopStats [Add α] [Sub α] [Mul α] [Div α] [OfNat α 0] [OfNat α 1] [LT α] [DecidableLT α]
    (cast : Nat → α) (sqrt : α → α) (n : Nat) (sum sq : V3 α) : V3 α × V3 α :=
  let mean := sum.scale (1 / cast n)
  let variance := ((sq.scale (1 / cast n)).sub (mean.mul mean)).clamp0
  let stddev := (variance.map sqrt).scale (sqrt (cast n) / cast (n - 1))
  (mean, stddev)

/-- `Converged` with `Convergence == nil`. -/
def thresholdConverged [Sub α] [Mul α] [OfNat α 0] [OfNat α 1] [LT α] [DecidableLT α] [DecidableEq α]
    (maxStddev overs : α) (mean stddev : V3 α) : Bool :=
  (mean.toList.zip stddev.toList).all fun (m, s) =>
    if s < maxStddev then true
    else if overs ≠ 0 ∧ 1 < m - overs * s then true
    else false

/-- The convergence oracle the code itself uses. `custom = none` is `Convergence == nil`. -/
def codeConv [Add α] [Sub α] [Mul α] [Div α] [OfNat α 0] [OfNat α 1] [LT α] [DecidableLT α] [DecidableEq α]
    (cast : Nat → α) (sqrt : α → α) (maxStddev overs : α) (custom : Option (Nat → V3 α → V3 α → Bool))
    (n : Nat) (sum sq : V3 α) : Bool :=
  let (mean, stddev) := loopStats cast sqrt n sum sq
  match custom with
  | some f => f n mean stddev
  | none => thresholdConverged maxStddev overs mean stddev

/-- `estimateVariance`: fixed sample count, Bessel-corrected, clamped at zero. -/
def estimateVariance [Add α] [Sub α] [Mul α] [Div α] [OfNat α 0] [OfNat α 1] [LT α] [DecidableLT α]
    (cast : Nat → α) (draw : σ → V3 α × σ) (n : Nat) (g : σ) : V3 α :=
  let xs := (drawN draw n g).1
  let sum := sumList xs
  let sq := sumList (xs.map fun s => s.mul s)
  let mean := sum.scale (1 / cast n)
  let variance := (sq.scale (1 / cast n)).sub (mean.mul mean)
  (variance.scale (cast n / cast (n - 1))).clamp0

end Estimator

/-! ## `mapCoordinates` (concurrency.go) -/

/-- One image row of channel entries `(x, y, idx)`, `idx` continuing from `base`. -/
def coordRow (w y base : Nat) : List (Nat × Nat × Nat) :=
  (List.range w).map fun x => (x, y, base + x)

/-- The channel contents: rows `0 … h-1`, `idx` incremented after every send. -/
def coords (w : Nat) : Nat → List (Nat × Nat × Nat)
  | 0 => []
  | h + 1 => coords w h ++ coordRow w h (coords w h).length

/-- Any interleaving of the workers' `for c := range coords` loops: queue entry number `k`
is received by worker `sched k` (the channel hands every entry to exactly one receiver). -/
def dispatch {T : Type} (sched : Nat → Nat) (q : List T) : List (Nat × T) :=
  q.zipIdx.map fun (c, k) => (sched k, c)

/-- What worker `wk` passes to `f`, in order. -/
def workerLog {T : Type} (sched : Nat → Nat) (q : List T) (wk : Nat) : List T :=
  ((dispatch sched q).filter fun e => e.1 == wk).map (·.2)

/-- `Render`: every worker writes `img.Data[idx] = pixel x y`; the resulting image. -/
def renderImage {C : Type} (dflt : C) (w h : Nat) (sched : Nat → Nat) (pixel : Nat → Nat → C) : List C :=
  (List.range (w * h)).map fun i =>
    match (dispatch sched (coords w h)).find? (fun e => e.2.2.2 == i) with
    | some e => pixel e.2.1 e.2.2.1
    | none => dflt

/-! ## Camera (camera.go) -/

structure Camera (α : Type) where
  origin : V3 α
  screenX : V3 α
  screenY : V3 α
  /-- `planeDistance = 1 / math.Tan(FieldOfView/2)`. -/
  pd : α

section Cam
variable {α : Type} [Add α] [Sub α] [Mul α] [Div α] [OfNat α 0] [OfNat α 1] [OfNat α 2] [LT α] [DecidableLT α]

/-- `Camera.axes`. -/
def Camera.axes (sqrt : α → α) (c : Camera α) (w h : α) : V3 α × V3 α × V3 α :=
  let z := (c.screenX.cross c.screenY).normalize sqrt
  let xy : V3 α × V3 α :=
    if h < w then (c.screenX, c.screenY.scale (h / w)) else (c.screenX.scale (w / h), c.screenY)
  (xy.1, xy.2, z.scale c.pd)

/-- The closure returned by `Camera.Caster(w, h)`, applied to `(imgX, imgY)`. -/
def Camera.caster (sqrt : α → α) (c : Camera α) (w h imgX imgY : α) : V3 α :=
  let (x, y, z) := c.axes sqrt w h
  let cx := w / 2
  let cy := h / 2
  ((x.scale ((imgX - cx) / cx)).add (y.scale ((imgY - cy) / cy))).add z

/-- The closure returned by `Camera.Uncaster(w, h)`, applied to a point. -/
def Camera.uncaster (sqrt : α → α) (c : Camera α) (w h : α) (p : V3 α) : α × α :=
  let (x, y, z) := c.axes sqrt w h
  let inv := (M3.ofColumns x y z).inverse
  let cx := w / 2
  let cy := h / 2
  let xyz := inv.mulColumn (p.sub c.origin)
  let s := 1 / xyz.z
  (xyz.x * s * cx + cx, xyz.y * s * cy + cy)

end Cam

/-! ## `DirectionalCamera` (helpers.go): bisection on the camera distance -/

section Directional
variable {α : Type} [Add α] [Sub α] [Div α] [OfNat α 1] [OfNat α 2] [LT α] [DecidableLT α] [LE α] [DecidableLE α]

/-- The `contained` flag computed in the loop body: every corner of the bounding box projects (with
`Uncaster(1, 1)` of the candidate camera, here the function `uncast`) inside the margins. -/
def containedBy (uncast : V3 α → α × α) (margin : α) (corners : List (V3 α)) : Bool :=
  corners.all fun p =>
    let (sx, sy) := uncast p
    !(decide (sx < margin) || decide (sy < margin) || decide (1 - margin ≤ sx) || decide (1 - margin ≤ sy))

/-- The 32-step bisection: `maxDist` is returned. `ok d` is `contained` for the camera at distance `d`. -/
def dirSearch (ok : α → Bool) : Nat → α → α → α
  | 0, _, hi => hi
  | n + 1, lo, hi =>
    let d := (lo + hi) / 2
    if ok d then dirSearch ok n lo d else dirSearch ok n d hi

/-- `DirectionalCamera` as repaired by the C20 `fix:` commit: the candidate cameras of the search have
the field of view `fov` of the camera that is returned.  `uncastAt f d` is `Uncaster(1,1)` of
`NewCameraAt(center + direction·d, center, f)`.  Returns the distance and field of view of the result.
(Before the repair the search used `helperFieldOfView` whatever `fov` was: `dirCameraOld`.) -/
def dirCamera {F : Type} (uncastAt : F → α → V3 α → α × α) (margin : α) (corners : List (V3 α))
    (fov : F) (minDist maxDist : α) : α × F :=
  (dirSearch (fun d => containedBy (uncastAt fov d) margin corners) 32 minDist maxDist, fov)

def dirCameraOld {F : Type} (uncastAt : F → α → V3 α → α × α) (margin : α) (corners : List (V3 α))
    (helperFov fov : F) (minDist maxDist : α) : α × F :=
  (dirSearch (fun d => containedBy (uncastAt helperFov d) margin corners) 32 minDist maxDist, fov)

end Directional

/-! ## `NewCameraAt` (camera.go) and the whole of `DirectionalCamera` (helpers.go) -/

section DirectionalFull
variable {α : Type} [Add α] [Sub α] [Mul α] [Div α] [Neg α] [OfNat α 0] [OfNat α 1] [OfNat α 2]
  [LT α] [DecidableLT α] [LE α] [DecidableLE α]

/-- `Coord3D.ProjectOut`. -/
def V3.projectOut (sqrt : α → α) (c c1 : V3 α) : V3 α :=
  let normed := c1.normalize sqrt
  c.sub (normed.scale (normed.dot c))

/-- `NewCameraAt(source, dest, fov)`; `tiny` is the literal `1e-5`, `pd = 1/tan(fov/2)` (with the
default substituted for `fov == 0`) is carried instead of `fov`. -/
def newCameraAt (sqrt : α → α) (tiny pd : α) (source dest : V3 α) : Camera α :=
  let z := (dest.sub source).normalize sqrt
  let x0 : V3 α := ⟨z.y, -z.x, 0⟩
  let x1 := if x0.norm sqrt < tiny then (⟨1, 0, 0⟩ : V3 α).projectOut sqrt z else x0
  let x := x1.normalize sqrt
  ⟨source, x, z.cross x, pd⟩

/-- The eight corners in the order of the three nested loops. -/
def boxCorners (mn mx : V3 α) : List (V3 α) :=
  [⟨mn.x, mn.y, mn.z⟩, ⟨mn.x, mn.y, mx.z⟩, ⟨mn.x, mx.y, mn.z⟩, ⟨mn.x, mx.y, mx.z⟩,
   ⟨mx.x, mn.y, mn.z⟩, ⟨mx.x, mn.y, mx.z⟩, ⟨mx.x, mx.y, mn.z⟩, ⟨mx.x, mx.y, mx.z⟩]

/-- `Uncaster(1, 1)` of the candidate camera at distance `d` (what the loop body evaluates). -/
def candidateUncast (sqrt : α → α) (tiny pd : α) (center direction : V3 α) (d : α) (p : V3 α) : α × α :=
  (newCameraAt sqrt tiny pd (center.add (direction.scale d)) center).uncaster sqrt 1 1 p

/-- `DirectionalCamera(object, direction, fov)` for an object with bounds `mn, mx`;
`margin, loF, hiF` are the literals `0.05, 1e-4, 1e4`. -/
def directionalCamera (sqrt : α → α) (tiny pd margin loF hiF : α) (mn mx direction : V3 α) : Camera α :=
  let diff := mn.sub mx
  let baseline := sqrt (diff.x * diff.x + diff.y * diff.y + diff.z * diff.z)
  let center := (mn.add mx).scale (1 / 2)
  let dist := dirSearch (fun d => containedBy (candidateUncast sqrt tiny pd center direction d) margin
    (boxCorners mn mx)) 32 (baseline * loF) (baseline * hiF)
  newCameraAt sqrt tiny pd (center.add (direction.scale dist)) center

end DirectionalFull

/-! ## Object wrappers (object.go, transform.go) -/

structure Ray (α : Type) where
  origin : V3 α
  dir : V3 α
deriving DecidableEq, Repr

/-- `model3d.RayCollision` plus the material (an id). -/
structure Hit (α : Type) where
  scale : α
  normal : V3 α
  mat : Nat
deriving DecidableEq, Repr

/-- `Object.Cast`: `none` is `ok == false`. -/
abbrev Cast (α : Type) := Ray α → Option (Hit α)

section Objects
variable {α : Type}

def Ray.at [Add α] [Mul α] (r : Ray α) (t : α) : V3 α := r.origin.add (r.dir.scale t)

/-- One step of the loop in `JoinedObject.Cast`. -/
def joinStep [LT α] [DecidableLT α] (r : Ray α) (best : Option (Hit α)) (o : Cast α) : Option (Hit α) :=
  match o r with
  | none => best
  | some c =>
    match best with
    | none => some c
    | some b => if c.scale < b.scale then some c else some b

/-- `JoinedObject.Cast`. -/
def joinedCast [LT α] [DecidableLT α] (parts : List (Cast α)) : Cast α :=
  fun r => parts.foldl (joinStep r) none

/-- `FilteredObject.Cast`; `bounds r` is `ok` of `Bounds.FirstRayCollision(r)`. -/
def filteredCast (bounds : Ray α → Bool) (o : Cast α) : Cast α :=
  fun r => if bounds r then o r else none

/-- `translatedObject.Cast`. -/
def translatedCast [Sub α] (off : V3 α) (o : Cast α) : Cast α :=
  fun r => o ⟨r.origin.sub off, r.dir⟩

/-- `matrixObject.Cast` as repaired by the second-round C20 `fix:` commit (`minv` is the `Inverse`
stored by `MatrixMultiply`): the normal is mapped with the inverse transpose and normalised. -/
def matrixCast [Add α] [Mul α] [Div α] [OfNat α 1] (sqrt : α → α) (_m minv : M3 α) (o : Cast α) : Cast α :=
  fun r =>
    match o ⟨minv.mulColumn r.origin, minv.mulColumn r.dir⟩ with
    | none => none
    | some h => some { h with normal := (minv.transpose.mulColumn h.normal).normalize sqrt }

/-- The code before that repair: the normal was mapped with the matrix itself. -/
def matrixCastOld [Add α] [Mul α] [Div α] [OfNat α 1] (sqrt : α → α) (m minv : M3 α) (o : Cast α) : Cast α :=
  fun r =>
    match o ⟨minv.mulColumn r.origin, minv.mulColumn r.dir⟩ with
    | none => none
    | some h => some { h with normal := (m.mulColumn h.normal).normalize sqrt }

/-- `model3d.BVH[Object]`: a leaf object, or a branch whose `bounds` stands for
`BoundsRect(branches).FirstRayCollision`'s `ok`. -/
inductive BVH (α : Type) where
  | leaf : Cast α → BVH α
  | branch : (Ray α → Bool) → List (BVH α) → BVH α

mutual
/-- `BVHToObject(b).Cast`. -/
def BVH.cast [LT α] [DecidableLT α] : BVH α → Cast α
  | .leaf c => c
  | .branch b cs => filteredCast b (joinedCast (BVH.castList cs))
def BVH.castList [LT α] [DecidableLT α] : List (BVH α) → List (Cast α)
  | [] => []
  | c :: cs => c.cast :: BVH.castList cs
end

mutual
def BVH.leaves : BVH α → List (Cast α)
  | .leaf c => [c]
  | .branch _ cs => BVH.leavesList cs
def BVH.leavesList : List (BVH α) → List (Cast α)
  | [] => []
  | c :: cs => c.leaves ++ BVH.leavesList cs
end

end Objects

/-! ## `RecursiveRayTracer.recurse` (raytrace.go), `RayCaster` (raycast.go), `PointLight` (light.go) -/

/-- A surface point's material, as far as `recurse` looks at it. -/
structure Mat (α σ : Type) where
  emission : V3 α
  ambient : V3 α
  /-- `BSDF(normal, source, dest)`. -/
  bsdf : V3 α → V3 α → V3 α → V3 α
  /-- `sampleNextSource` (consumes generator state). -/
  sample : σ → V3 α → V3 α → V3 α × σ
  /-- `sourceDensity(normal, source, dest)`. -/
  density : V3 α → V3 α → V3 α → α

/-- `render3d.PointLight`. -/
structure PointLight (α : Type) where
  origin : V3 α
  color : V3 α
  quadDropoff : Bool

section Recurse
variable {α σ : Type} [Add α] [Sub α] [Mul α] [Div α] [Neg α] [OfNat α 0] [OfNat α 1] [OfNat α 3] [OfNat α 4]
  [LT α] [DecidableLT α]

/-- `PointLight.ShadeCollision(normal, pointToLight)`: `0.25 * math.Max(0, normal·l̂)` times the
(optionally inverse-square attenuated) light colour. -/
def PointLight.shade (sqrt : α → α) (l : PointLight α) (normal p2l : V3 α) : V3 α :=
  let dist := p2l.norm sqrt
  let color := if l.quadDropoff then l.color.scale (1 / (dist * dist)) else l.color
  let d := normal.dot (p2l.scale (1 / dist))
  color.scale (1 / 4 * (if 0 < d then d else 0))

/-- The `for _, l := range r.Lights` loop of `recurse` (shadow test included). -/
def directLight (scene : Ray α → Option (Hit α × Mat α σ)) (sqrt : α → α) (eps : α)
    (lights : List (PointLight α)) (point normal dest : V3 α) (m : Mat α σ) (color : V3 α) : V3 α :=
  lights.foldl (fun color l =>
    let ld := l.origin.sub point
    let shadowRay : Ray α := ⟨point.add ((ld.normalize sqrt).scale eps), ld⟩
    let lit := color.add ((l.shade sqrt normal ld).mul (m.bsdf normal ((point.sub l.origin).normalize sqrt) dest))
    match scene shadowRay with
    | some (sc, _) => if sc.scale < 1 then color else lit
    | none => lit) color

/-- A `FocusPoint` together with its entry of `FocusPointProbs`. -/
structure FocusPt (α σ : Type) where
  prob : α
  /-- `SampleFocus(gen, mat, point, normal, dest)`. -/
  sample : σ → Mat α σ → V3 α → V3 α → V3 α → V3 α × σ
  /-- `FocusDensity(mat, point, normal, source, dest)`. -/
  density : Mat α σ → V3 α → V3 α → V3 α → V3 α → α

/-- The selection loop of `sampleNextSource`: `p -= prob; if p < 0 { return focus i }`. -/
def pickFocus (p : α) : List (FocusPt α σ) → Option (FocusPt α σ)
  | [] => none
  | f :: fs => if p - f.prob < 0 then some f else pickFocus (p - f.prob) fs

/-- `RecursiveRayTracer.sampleNextSource`; `uniform` is `gen.Float64()`. -/
def sampleNextSource (uniform : σ → α × σ) (focus : List (FocusPt α σ)) (m : Mat α σ) (g : σ)
    (point normal dest : V3 α) : V3 α × σ :=
  match focus with
  | [] => m.sample g normal dest
  | _ :: _ =>
    let (p, g) := uniform g
    match pickFocus p focus with
    | some f => f.sample g m point normal dest
    | none => m.sample g normal dest

/-- `RecursiveRayTracer.sourceDensity`: the density of the mixture `sampleNextSource` draws from. -/
def sourceDensity (focus : List (FocusPt α σ)) (m : Mat α σ) (point normal source dest : V3 α) : α :=
  match focus with
  | [] => m.density normal source dest
  | _ :: _ =>
    let acc := focus.foldl (fun (acc : α × α) f =>
      (acc.1 + f.prob * f.density m point normal source dest, acc.2 - f.prob)) (0, 1)
    acc.1 + acc.2 * m.density normal source dest

/-- `RecursiveRayTracer.recurse`.  `fuel = MaxDepth - depth`; `first` is `depth == 0`.
`scene r` is `obj.Cast(r)` together with the material found there; `abs` is `math.Abs`;
`eps` is the bounce offset; `focus` are `FocusPoints`/`FocusPointProbs`, `uniform` is `gen.Float64()`. -/
def recurse (scene : Ray α → Option (Hit α × Mat α σ)) (sqrt abs : α → α) (cutoff eps : α)
    (lights : List (PointLight α)) (uniform : σ → α × σ) (focus : List (FocusPt α σ)) :
    Nat → Bool → σ → Ray α → V3 α → V3 α × σ
  | fuel, first, g, ray, scale =>
    if (scale.x + scale.y + scale.z) / 3 < cutoff then (V3.zero, g)
    else
      match scene ray with
      | none => (V3.zero, g)
      | some (c, m) =>
        let point := ray.origin.add (ray.dir.scale c.scale)
        let dest := (ray.dir.normalize sqrt).scale (-1)
        let color := if first then m.emission.add m.ambient else m.emission
        let color := directLight scene sqrt eps lights point c.normal dest m color
        match fuel with
        | 0 => (color, g)
        | fuel + 1 =>
          let (src, g) := sampleNextSource uniform focus m g point c.normal dest
          let weight := 1 / sourceDensity focus m point c.normal src dest * abs (src.dot c.normal)
          let mask := (m.bsdf c.normal src dest).scale weight
          let dir := src.scale (-1)
          let next : Ray α := ⟨point.add ((dir.normalize sqrt).scale eps), dir⟩
          let (nc, g) := recurse scene sqrt abs cutoff eps lights uniform focus fuel false g next (scale.mul mask)
          (color.add (nc.mul mask), g)

/-- One pixel of `RayCaster.Render` (`img.Data[idx]` keeps its zero value on a miss). -/
def rayCasterPixel (scene : Ray α → Option (Hit α × Mat α σ)) (sqrt : α → α)
    (lights : List (PointLight α)) (ray : Ray α) : V3 α :=
  match scene ray with
  | none => V3.zero
  | some (c, m) =>
    let point := ray.origin.add (ray.dir.scale c.scale)
    lights.foldl (fun color l =>
      let brdf := m.bsdf c.normal ((point.sub l.origin).normalize sqrt) ((ray.origin.sub point).normalize sqrt)
      color.add ((l.shade sqrt c.normal (l.origin.sub point)).mul brdf)) (m.ambient.add m.emission)

end Recurse

/-! ## `Image` accessors (image.go) -/

/-- `render3d.Image`: row-major pixel data. -/
structure Img (C : Type) where
  data : List C
  width : Nat
  height : Nat
deriving Repr

section Image
variable {C : Type}

/-- `NewImage` (every pixel the zero colour `z`). -/
def Img.new (z : C) (w h : Nat) : Img C := ⟨List.replicate (w * h) z, w, h⟩

/-- `Image.At` inside the bounds check (`x < Width`, `y < Height`; otherwise Go panics). -/
def Img.at (z : C) (i : Img C) (x y : Nat) : C := i.data.getD (x + y * i.width) z

/-- `Image.Set` inside the bounds check. -/
def Img.set (i : Img C) (x y : Nat) (c : C) : Img C := { i with data := i.data.set (x + y * i.width) c }

/-- `Image.SetAll`. -/
def Img.setAll (i : Img C) (c : C) : Img C := { i with data := i.data.map fun _ => c }

/-- Go's `copy(dst[start:start+n], src)` for `src.length = n` and `start + n ≤ dst.length`. -/
def copySlice (dst : List C) (start : Nat) (src : List C) : List C :=
  dst.take start ++ src ++ dst.drop (start + src.length)

/-- `Image.CopyFrom(i1, x, y)` for `0 ≤ x ≤ Width`, `0 ≤ y ≤ Height`. -/
def Img.copyFrom (i i1 : Img C) (x y : Nat) : Img C :=
  let cw := min i1.width (i.width - x)
  let ch := min i1.height (i.height - y)
  { i with data := (List.range ch).foldl (fun d row =>
      copySlice d ((row + y) * i.width + x) ((i1.data.drop (row * i1.width)).take cw)) i.data }

variable {α : Type} [Add α] [Mul α] [Div α] [OfNat α 0] [OfNat α 1]

/-- The `factor × factor` block of source pixels averaged into output pixel `(j, i1)`, in loop order. -/
def blockPixels (i : Img (V3 α)) (f i1 j : Nat) : List (V3 α) :=
  (List.range f).flatMap fun k => (List.range f).map fun l =>
    i.data.getD (i.width * (i1 * f + k) + (j * f + l)) V3.zero

/-- The running `sum` of the two inner loops of `Downsample`. -/
def blockSum (i : Img (V3 α)) (f i1 j : Nat) : V3 α :=
  (List.range f).foldl (fun acc k => (List.range f).foldl (fun acc l =>
    acc.add (i.data.getD (i.width * (i1 * f + k) + (j * f + l)) V3.zero)) acc) V3.zero

/-- `Image.Downsample(factor)` (for `factor` dividing both sides; otherwise Go panics). -/
def Img.downsample (cast : Nat → α) (i : Img (V3 α)) (f : Nat) : Img (V3 α) :=
  let w := i.width / f
  let h := i.height / f
  ⟨(List.range h).flatMap fun i1 => (List.range w).map fun j =>
      (blockSum i f i1 j).scale (1 / cast (f * f)), w, h⟩

/-- `Image.Scale`. -/
def Img.scaleAll (i : Img (V3 α)) (s : α) : Img (V3 α) := { i with data := i.data.map fun c => c.scale s }

end Image

/-! ## Bidirectional path tracer bookkeeping (bidir.go): roulette, path densities, combination -/

/-- `bptPathEnder`. -/
structure PathEnder (α : Type) where
  current : α
  fullMask : V3 α
  rouletteMask : V3 α

section BPT
variable {α σ : Type} [Add α] [Sub α] [Mul α] [Div α] [OfNat α 0] [OfNat α 1] [OfNat α 3] [OfNat α 4]
  [LT α] [DecidableLT α]

def PathEnder.new : PathEnder α := ⟨1, ⟨1, 1, 1⟩, ⟨1, 1, 1⟩⟩

def maxOf (a b : α) : α := if a < b then b else a

/-- `bptPathEnder.End(gen, i, mask)`: `(ended, state', generator')`.  Surviving a roulette with keep
probability `p` multiplies `currentRoulette` by `1/p`. -/
def PathEnder.step (minLength : Nat) (cutoff : α) (uniform : σ → α × σ) (pe : PathEnder α) (g : σ)
    (i : Nat) (mask : V3 α) : Bool × PathEnder α × σ :=
  let full := pe.fullMask.mul mask
  let pe := { pe with fullMask := full }
  let mean := (full.x + full.y + full.z) / 3
  let r1 : Bool × PathEnder α × σ :=
    if mean < cutoff then
      let keep := mean / cutoff
      let (u, g) := uniform g
      if keep < u then (true, pe, g) else (false, { pe with current := pe.current * (1 / keep) }, g)
    else (false, pe, g)
  if r1.1 then r1
  else
    let pe := r1.2.1
    let g := r1.2.2
    if minLength ≠ 0 ∧ minLength ≤ i + 1 then
      let rm := pe.rouletteMask.mul mask
      let pe := { pe with rouletteMask := rm }
      let maxVal := maxOf (maxOf rm.x rm.y) rm.z
      if maxVal < 1 then
        let pe := { pe with rouletteMask := ⟨1, 1, 1⟩ }
        let (u, g) := uniform g
        if maxVal < u then (true, pe, g) else (false, { pe with current := pe.current * (1 / maxVal) }, g)
      else (false, pe, g)
    else (false, pe, g)

/-- The fields of `bptPathVertex` the combination stage reads. `mat = none` is a vertex sampled on a light. -/
structure PVert (α : Type) where
  point : V3 α
  normal : V3 α
  source : V3 α
  dest : V3 α
  bsdf : V3 α
  emission : V3 α
  mat : Option Nat
  srcDen : α
  destDen : α
  roulette : α

/-- What `EvalMaterial` asks of a material (by id): `SourceDensity`, `DestDensity`, `BSDF` of `(normal, source, dest)`. -/
structure MatEval (α : Type) where
  srcDen : Nat → V3 α → V3 α → V3 α → α
  destDen : Nat → V3 α → V3 α → V3 α → α
  bsdf : Nat → V3 α → V3 α → V3 α → V3 α

def PVert.sourceDot (abs : α → α) (v : PVert α) : α := abs (v.normal.dot v.source)
def PVert.destDot (abs : α → α) (v : PVert α) : α := abs (v.normal.dot v.dest)

/-- `bptPathVertex.EvalMaterial`. -/
def PVert.eval (me : MatEval α) (v : PVert α) : PVert α :=
  match v.mat with
  | none =>
    let d := v.dest.dot v.normal
    { v with destDen := 4 * (if 0 < d then d else 0) }
  | some id =>
    { v with srcDen := me.srcDen id v.normal v.source v.dest,
             destDen := me.destDen id v.normal v.source v.dest,
             bsdf := me.bsdf id v.normal v.source v.dest }

/-- `Accumulator` of every vertex (product of the `SourceDensity` of all later vertices) and the
final `sourceDensityProduct`, computed from the end of the path as the loop does. -/
def accumulators (path : List (PVert α)) : List α × α :=
  -- vertex 0 gets no accumulator in Go; it is never read. We give it the final product.
  match path with
  | [] => ([], 1)
  | v0 :: rest =>
    let r := rest.foldr (fun v (acc : List α × α) => (acc.2 :: acc.1, acc.2 * v.srcDen)) ([], 1)
    let _ := v0
    (r.2 :: r.1, r.2)

/-- The loop over `b.Points[2:]` of `Densities`. `i` is the loop index. -/
def lightStrategies (abs : α → α) (fourPi : α) (pts : List (PVert α)) (acc : List α)
    (maxDepth maxLightDepth : Nat) : Nat → Nat → α → List α
  | 0, _, _ => []
  | fuel + 1, i, lightDensity =>
    if pts.length ≤ i + 2 then []
    else if maxLightDepth ≤ i + 1 then []
    else
      match pts[i]?, pts[i + 1]?, pts[i + 2]? with
      | some pi, some pi1, some pi2 =>
        let ld := lightDensity * pi.destDen
        let ld := ld * (pi1.sourceDot abs / pi.destDot abs)
        let diff := pi1.point.sub pi2.point
        let outArea := fourPi * diff.dot diff
        let here := if pts.length - (i + 2) ≤ maxDepth
          then [acc.getD (i + 2) 0 * ld * outArea / pi1.destDot abs] else []
        here ++ lightStrategies abs fourPi pts acc maxDepth maxLightDepth fuel (i + 1) ld
      | _, _, _ => []

/-- `bptLightPath.Densities`: the sampling density of the path under every strategy that could have
produced it, in the order reported. `fourPi` is the constant `4 * math.Pi`. -/
def densities (abs : α → α) (fourPi : α) (pts : List (PVert α)) (totalLight : α)
    (maxDepth maxLightDepth : Nat) : List α :=
  let maxLightDepth := if maxLightDepth = 0 then maxDepth else maxLightDepth
  let (acc, product) := accumulators pts
  let first := if pts.length ≤ maxDepth then [product] else []
  match pts with
  | p0 :: p1 :: _ =>
    let lightDensity := (p0.emission.x + p0.emission.y + p0.emission.z) / totalLight
    let diff := p0.point.sub p1.point
    let second := if pts.length - 1 ≤ maxDepth
      then [lightDensity * acc.getD 1 0 * (fourPi * diff.dot diff) / p0.destDot abs] else []
    first ++ second ++ lightStrategies abs fourPi pts acc maxDepth maxLightDepth pts.length 0 lightDensity
  | _ => first

/-- `combinePaths(eye[:i], light[:j])` (`j = 0`: the eye path alone), light end first. -/
def combinePaths (sqrt : α → α) (me : MatEval α) (eye light : List (PVert α)) : List (PVert α) :=
  match eye.getLast?, light.getLast? with
  | some e, none => e :: eye.dropLast.reverse
  | some e, some p =>
    let dest := (e.point.sub p.point).normalize sqrt
    let v : PVert α := (⟨p.point, p.normal, p.source, dest, V3.zero, p.emission, p.mat, 0, 0, 0⟩ : PVert α).eval me
    let v1 : PVert α := (⟨e.point, e.normal, v.dest, e.dest, V3.zero, e.emission, e.mat, 0, 0, 0⟩ : PVert α).eval me
    light.dropLast ++ [v, v1] ++ eye.dropLast.reverse
  | none, _ => []

/-- One call of the callback of `allPathCombinations`: the unweighted contribution, the joined path
and the two points whose mutual visibility has to be checked (`none`: nothing to check). -/
structure Combo (α : Type) where
  intensity : V3 α
  joined : List (PVert α)
  connect : Option (V3 α × V3 α)

/-- The inner loop over `j` (light sub-paths) for a fixed eye sub-path. -/
def lightCombos (sqrt abs : α → α) (fourPi : α) (me : MatEval α) (subEye light : List (PVert α))
    (eyeBSDF : V3 α) (eLast : PVert α) : Nat → Nat → α → V3 α → List (Combo α)
  | 0, _, _, _ => []
  | fuel + 1, j, density, lightBSDF =>
    if light.length < j then []
    else
      match light[j - 1]? with
      | none => []
      | some lj1 =>
        let diff := lj1.point.sub eLast.point
        let outArea := fourPi * diff.dot diff
        let dl : α × V3 α :=
          if 1 < j then
            match light[j - 2]? with
            | some lj2 =>
              let d := density * lj2.destDen
              let d := d * (lj1.sourceDot abs / lj2.destDot abs)
              let lb := if 2 < j then lightBSDF.mul lj2.bsdf else lightBSDF
              (d, lb.scale (lj1.sourceDot abs))
            | none => (density, lightBSDF)
          else (density, lightBSDF)
        let density := dl.1
        let lightBSDF := dl.2
        let out := combinePaths sqrt me subEye (light.take j)
        let here : List (Combo α) :=
          match out[j - 1]?, out[j]? with
          | some oj1, some oj =>
            let destDot := oj1.destDot abs
            let sourceDot := oj.sourceDot abs
            if 0 < destDot ∧ 0 < sourceDot then
              let _curDensity := density * outArea / destDot
              let inten := (eyeBSDF.mul lightBSDF).scale sourceDot
              let inten := inten.mul oj.bsdf
              let inten := inten.scale (lj1.roulette * eLast.roulette)
              let inten := if 1 < j then inten.mul oj1.bsdf else inten
              [⟨inten, out, some (eLast.point, lj1.point)⟩]
            else []
          | _, _ => []
        here ++ lightCombos sqrt abs fourPi me subEye light eyeBSDF eLast fuel (j + 1) density lightBSDF

/-- `allPathCombinations`: the outer loop over eye sub-paths. -/
def allCombos [DecidableEq α] (sqrt abs : α → α) (fourPi : α) (me : MatEval α) (eye light : List (PVert α))
    (totalLight : α) : Nat → Nat → α → V3 α → List (Combo α)
  | 0, _, _, _ => []
  | fuel + 1, i, eyeDensity, eyeBSDF =>
    if eye.length < i then []
    else
      match eye[i - 1]?, light.head? with
      | some ei, some l0 =>
        let subEye := eye.take i
        let direct : List (Combo α) :=
          if ei.emission.x = 0 ∧ ei.emission.y = 0 ∧ ei.emission.z = 0 then []
          else [⟨(ei.emission.mul eyeBSDF).scale ei.roulette, combinePaths sqrt me subEye [], none⟩]
        let density := eyeDensity * (l0.emission.x + l0.emission.y + l0.emission.z) / totalLight
        let conn := lightCombos sqrt abs fourPi me subEye light eyeBSDF ei light.length 1 density l0.emission
        let eyeDensity := eyeDensity * ei.srcDen
        let eyeBSDF := (eyeBSDF.mul ei.bsdf).scale (ei.sourceDot abs)
        direct ++ conn ++ allCombos sqrt abs fourPi me eye light totalLight fuel (i + 1) eyeDensity eyeBSDF
      | _, _ => []

/-- SPECIFICATION-level weight of the balance heuristic: a contribution with unweighted value
`intensity` on a path whose strategies have densities `ds` counts `intensity / Σ ds`. -/
def misColor (intensity : V3 α) (ds : List α) : V3 α :=
  intensity.scale (1 / ds.foldl (· + ·) 0)

/-- `BidirPathTracer.rayColor` after the two paths have been sampled (`PowerHeuristic = 0`,
`RouletteDelta = 0`).  `blocked p1 p2` is the visibility test between the connected points
(`true`: something is in between); `tiny` is the literal `1e-8`. -/
def rayColorFromPaths [DecidableEq α] (sqrt abs : α → α) (fourPi tiny : α) (me : MatEval α)
    (eye light : List (PVert α)) (totalLight : α) (maxDepth maxLightDepth : Nat)
    (blocked : V3 α → V3 α → Bool) : V3 α :=
  (allCombos sqrt abs fourPi me eye light totalLight eye.length 1 1 ⟨1, 1, 1⟩).foldl (fun total c =>
    if c.intensity.x + c.intensity.y + c.intensity.z < tiny then total
    else
      let color := misColor c.intensity (densities abs fourPi c.joined totalLight maxDepth maxLightDepth)
      match c.connect with
      | some (p1, p2) =>
        if p1 = p2 then total.add color
        else if blocked p1 p2 then total else total.add color
      | none => total.add color) V3.zero

/-- The visibility test of a connection in `rayColor`: a ray from `p1` towards `p2` (offset by `eps`)
hits something before `|p2 − p1| − 2·eps`. `sceneScale r` is the `Scale` of `obj.Cast(r)` (`none`: miss). -/
def connectionBlocked [OfNat α 2] (sqrt : α → α) (eps : α) (sceneScale : Ray α → Option α) (p1 p2 : V3 α) : Bool :=
  let dir := (p2.sub p1).normalize sqrt
  let ray : Ray α := ⟨p1.add ((dir.normalize sqrt).scale eps), dir⟩
  let d := p2.sub p1
  let maxDist := sqrt (d.x * d.x + d.y * d.y + d.z * d.z) - 2 * eps
  match sceneScale ray with
  | some s => decide (s < maxDist)
  | none => false

end BPT

end M3d.Render
