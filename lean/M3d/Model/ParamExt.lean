import M3d.Model.Param
import M3d.GenPrelude
/-!
# Model of `ExtendBoundaryUVs` (`/repo/model3d/parameterization.go`)

Core-only (compiled into `drv_c18`).  `ExtendBoundaryUVs(m, param, maxDist)` walks the boundary cycle of a
disc; for every *ear* — a boundary vertex `p1` whose two boundary neighbours `p0`, `p2` lie with it in one
triangle — whose UV triangle is flatter than the 3-D triangle (`dist(uv1, seg(uv0,uv2)) / |uv2-uv0|` smaller
than the same ratio in 3-D) it moves `uv1` by `extraDist ≤ maxDist` along
`uv1.ProjectOut(uv2 - uv0).Normalize()`: the part of the vector from the ORIGIN to `uv1` that is perpendicular
to the opposite edge (hence the documented precondition "centred around the origin").

The numeric helpers are written in the operation order of the Go code (`Coord.Norm/Dist/Normalize/ProjectOut`,
`Segment.Closest/Dist/Length`, `NewSegment`), so that the model runs bit for bit at `Float`; they are tied to
the regenerated kernels in `M3d/Lemmas/KernelsTieParam.lean`.
-/
namespace M3d.Param
open M3d.Surface M3d.GenPrelude

section Ext
variable {α : Type}

def V3.sub [Sub α] (a b : V3 α) : V3 α := ⟨a.x - b.x, a.y - b.y, a.z - b.z⟩
def dot3 [Add α] [Mul α] (a b : V3 α) : α := a.x * b.x + a.y * b.y + a.z * b.z

/-- `Coord.Norm` -/
def norm2 [Add α] [Mul α] [HasSqrt α] (c : V2 α) : α := HasSqrt.sqrt (c.x * c.x + c.y * c.y)
/-- `Coord3D.Norm` -/
def norm3 [Add α] [Mul α] [HasSqrt α] (c : V3 α) : α := HasSqrt.sqrt (c.x * c.x + c.y * c.y + c.z * c.z)

/-- `Coord.Dist` -/
def distE2 [Add α] [Sub α] [Mul α] [HasSqrt α] (a b : V2 α) : α :=
  HasSqrt.sqrt ((a.x - b.x) * (a.x - b.x) + (a.y - b.y) * (a.y - b.y))
/-- `Coord3D.Dist` -/
def distE3 [Add α] [Sub α] [Mul α] [HasSqrt α] (a b : V3 α) : α :=
  HasSqrt.sqrt ((a.x - b.x) * (a.x - b.x) + (a.y - b.y) * (a.y - b.y) + (a.z - b.z) * (a.z - b.z))

/-- `Coord.Normalize`: `c.Scale(1 / c.Norm())` -/
def normalize2 [Add α] [Mul α] [Div α] [OfNat α 1] [HasSqrt α] (c : V2 α) : V2 α := c.scale (1 / norm2 c)

/-- `c.ProjectOut(c1)`: `normed := c1.Normalize(); c.Sub(normed.Scale(normed.Dot(c)))` -/
def projectOut2 [Add α] [Sub α] [Mul α] [Div α] [OfNat α 1] [HasSqrt α] (c c1 : V2 α) : V2 α :=
  let n := normalize2 c1
  c.sub (n.scale (dot2 n c))

/-- `model2d.Segment{e0, e1}.Closest(c)` -/
def segClosest2 [Add α] [Sub α] [Mul α] [Div α] [OfNat α 0] [OfNat α 1] [LT α] [DecidableLT α] [HasSqrt α]
    (e0 e1 c : V2 α) : V2 α :=
  let v1 := e1.sub e0
  let norm := norm2 v1
  let v := v1.scale (1 / norm)
  let mag := dot2 v (c.sub e0)
  if norm < mag then e1 else if mag < 0 then e0 else (v.scale mag).add e0

/-- `Segment.Dist` (2-D): `c.Dist(s.Closest(c))` -/
def segDist2 [Add α] [Sub α] [Mul α] [Div α] [OfNat α 0] [OfNat α 1] [LT α] [DecidableLT α] [HasSqrt α]
    (e0 e1 c : V2 α) : α := distE2 c (segClosest2 e0 e1 c)

/-- `Segment.Length` (2-D): `s[1].Sub(s[0]).Norm()` -/
def segLen2 [Add α] [Sub α] [Mul α] [HasSqrt α] (e0 e1 : V2 α) : α := norm2 (e1.sub e0)

/-- `NewSegment(p, q)`: the two points in lexicographic order. -/
def newSegment3 [LT α] [DecidableLT α] (p q : V3 α) : V3 α × V3 α :=
  if (decide (p.x < q.x) || (feq p.x q.x && decide (p.y < q.y))) || ((feq p.x q.x && feq p.y q.y) && decide (p.z < q.z))
  then (p, q) else (q, p)

/-- `Segment.Closest` (3-D) -/
def segClosest3 [Add α] [Sub α] [Mul α] [Div α] [OfNat α 0] [OfNat α 1] [LT α] [DecidableLT α] [HasSqrt α]
    (e0 e1 c : V3 α) : V3 α :=
  let v1 := e1.sub e0
  let norm := norm3 v1
  let v := v1.scale (1 / norm)
  let mag := dot3 v (c.sub e0)
  if norm < mag then e1 else if mag < 0 then e0 else (v.scale mag).add e0

/-- `Segment.Dist` (3-D) -/
def segDist3 [Add α] [Sub α] [Mul α] [Div α] [OfNat α 0] [OfNat α 1] [LT α] [DecidableLT α] [HasSqrt α]
    (e0 e1 c : V3 α) : α := distE3 c (segClosest3 e0 e1 c)

/-- `Segment.Length` (3-D): `s[0].Dist(s[1])` -/
def segLen3 [Add α] [Sub α] [Mul α] [HasSqrt α] (e0 e1 : V3 α) : α := distE3 e0 e1

/-- The new position of an ear apex: `uv1.Add(uv1.ProjectOut(uv2.Sub(uv0)).Normalize().Scale(extra))`. -/
def pushOut [Add α] [Sub α] [Mul α] [Div α] [OfNat α 1] [HasSqrt α] (uv0 uv1 uv2 : V2 α) (extra : α) : V2 α :=
  uv1.add ((normalize2 (projectOut2 uv1 (uv2.sub uv0))).scale extra)

/-- 3-D aspect of the ear: `seg3d.Dist(p1) / seg3d.Length()` with `seg3d := NewSegment(p0, p2)`. -/
def ratio3 [Add α] [Sub α] [Mul α] [Div α] [OfNat α 0] [OfNat α 1] [LT α] [DecidableLT α] [HasSqrt α]
    (p0 p1 p2 : V3 α) : α :=
  let s := newSegment3 p0 p2
  segDist3 s.1 s.2 p1 / segLen3 s.1 s.2

/-- 2-D aspect of the ear: `seg2d.Dist(uv1) / seg2d.Length()` with `seg2d := Segment{uv0, uv2}`. -/
def ratio2 [Add α] [Sub α] [Mul α] [Div α] [OfNat α 0] [OfNat α 1] [LT α] [DecidableLT α] [HasSqrt α]
    (uv0 uv1 uv2 : V2 α) : α :=
  segDist2 uv0 uv2 uv1 / segLen2 uv0 uv2

/-- `extraDist := math.Min(maxDist, (ratio3d-ratio2d)*seg2d.Length())` -/
def extraDist [Add α] [Sub α] [Mul α] [LT α] [DecidableLT α] [HasSqrt α] (uv0 uv2 : V2 α) (r3 r2 maxDist : α) : α :=
  mn maxDist ((r3 - r2) * segLen2 uv0 uv2)

/-- The body of the loop of `ExtendBoundaryUVs` for one ear: `none` is the `continue` (the UV triangle is
already less degenerate), `some q` the value stored for `p1`. -/
def extendEar [Add α] [Sub α] [Mul α] [Div α] [OfNat α 0] [OfNat α 1] [LT α] [DecidableLT α] [LE α] [DecidableLE α]
    [HasSqrt α] (p0 p1 p2 : V3 α) (uv0 uv1 uv2 : V2 α) (maxDist : α) : Option (V2 α) :=
  let r3 := ratio3 p0 p1 p2
  let r2 := ratio2 uv0 uv1 uv2
  if r3 ≤ r2 then none
  else some (pushOut uv0 uv1 uv2 (extraDist uv0 uv2 r3 r2 maxDist))

/-- `len(m.Find(a, b, c)) == 1`: exactly one triangle has the three (distinct) vertices as corners. -/
def isEarTri (ts : List Tri) (a b c : Nat) : Bool :=
  (ts.filter fun t => (triVerts t).contains a && (triVerts t).contains b && (triVerts t).contains c).length == 1

/-- `param.Value(p)`: the stored value or the zero value. -/
def AMap.value [OfNat α 0] (m : AMap (V2 α)) (k : Nat) : V2 α := (m.load k).getD ⟨0, 0⟩

/-- The triple `(p0, p1, p2)` of iteration `i` over the boundary cycle `seq`. -/
def earTriple (seq : List Nat) (i : Nat) : Nat × Nat × Nat :=
  let n := seq.length
  (seq.getD ((i + n - 1) % n) 0, seq.getD i 0, seq.getD ((i + 1) % n) 0)

/-- One iteration of the loop `for i, p1 := range boundary`. -/
def extendStep [Add α] [Sub α] [Mul α] [Div α] [OfNat α 0] [OfNat α 1] [LT α] [DecidableLT α] [LE α] [DecidableLE α]
    [HasSqrt α] (ts : List Tri) (pos : Nat → V3 α) (seq : List Nat) (maxDist : α) (param : AMap (V2 α)) (i : Nat) :
    AMap (V2 α) :=
  let (a, b, c) := earTriple seq i
  if isEarTri ts a b c then
    match extendEar (pos a) (pos b) (pos c) (AMap.value param a) (AMap.value param b) (AMap.value param c) maxDist with
    | some q => param.store b q
    | none => param
  else param

/-- `ExtendBoundaryUVs` over the boundary cycle `seq` (= `boundarySequence(m)`), in place on `param`. -/
def extendBoundary [Add α] [Sub α] [Mul α] [Div α] [OfNat α 0] [OfNat α 1] [LT α] [DecidableLT α] [LE α] [DecidableLE α]
    [HasSqrt α] (ts : List Tri) (pos : Nat → V3 α) (seq : List Nat) (maxDist : α) (param : AMap (V2 α)) : AMap (V2 α) :=
  (List.range seq.length).foldl (extendStep ts pos seq maxDist) param

/-- The ear apexes of the boundary cycle: the only vertices `ExtendBoundaryUVs` may move. -/
def earApexes (ts : List Tri) (seq : List Nat) : List Nat :=
  ((List.range seq.length).filter fun i =>
    let (a, b, c) := earTriple seq i
    isEarTri ts a b c).map fun i => (earTriple seq i).2.1

/-- Twice the signed area of `(a, b, c)` seen from the edge `a → c`: `cross(c − a, b − a)`; its absolute value
divided by `|c − a|` is the height of `b` over the line `a c`. -/
def earCross [Sub α] [Mul α] (a b c : V2 α) : α := (c.x - a.x) * (b.y - a.y) - (c.y - a.y) * (b.x - a.x)

/-- `cross(c − a, b − O)` for the origin `O`: on which side of the line through the ORIGIN parallel to `a c` the
apex `b` lies.  `ExtendBoundaryUVs` pushes `b` to that side; it is the side away from the edge `a c` exactly when
`earCross a b c` and `originCross a b c` have the same sign. -/
def originCross [Sub α] [Mul α] (a b c : V2 α) : α := (c.x - a.x) * b.y - (c.y - a.y) * b.x

/-- The linear map with matrix `(a b; c d)` (rows), applied to a UV point. -/
def V2.lin [Add α] [Mul α] (a b c d : α) (v : V2 α) : V2 α := ⟨a * v.x + b * v.y, c * v.x + d * v.y⟩

end Ext

end M3d.Param
