import M3d.Model.CollideXf
/-!
# C07 — `Cone.RayCollisions` (model3d/shapes.go), complete

Core Lean only, generic scalar.  The lateral surface goes through `numerical.Polynomial`: the squared distance
from the axis minus the squared cone radius at the ray point is a polynomial of degree ≤ 2 in the ray parameter
(`Polynomial.Mul / Add / Scale` on two-term polynomials, transcribed coefficient by coefficient in the order of
the Go loops), and `Polynomial.IterRealRoots` on such a polynomial is the linear / quadratic formula branch
(`len(p) ≤ 3`; a vanishing leading coefficient drops to the next shorter case).  `OrthoBasis` is C05's model
(`M3d.Tf.orthoBasis`).  `1e-5` of `safeNormal` is the parameter `tol`, `1e-8` of `castCircle` is `eps`.
-/
namespace M3d.Col

section Cone
variable {α : Type} [Add α] [Sub α] [Mul α] [Div α] [Neg α] [LT α] [LE α] [DecidableLT α] [DecidableLE α]
  [OfNat α 0] [OfNat α 1]

/-- `Coord3D.ProjectOut`: `c.Sub(normed.Scale(normed.Dot(c)))` with `normed = c1.Normalize()`. -/
def V3.projectOut (sqrtF : α → α) (c c1 : V3 α) : V3 α :=
  let normed := c1.normalize sqrtF
  c.sub (normed.scale (normed.dot c))

/-- `safeNormal(direction, fallbackDirection, invalidDirection)` (shapes.go). -/
def safeNormal (sqrtF : α → α) (tol : α) (direction fallback invalid : V3 α) : V3 α :=
  let norm := direction.norm sqrtF
  if isZero norm then fallback
  else
    let d1 := (direction.scale (1 / norm)).projectOut sqrtF invalid
    let n1 := d1.norm sqrtF
    if n1 < tol then fallback else d1.scale (1 / n1)

/-- The coefficients `[k0, k1, k2]` of `sqSurfaceDist = dist1² + dist2² - radius²` in `Cone.RayCollisions`:
`dist_i = {b_i·o, b_i·d}`, `radius = {o·axis*R/norm, d·axis*R/norm}`; `Mul` of `{a, c}` with itself is
`{a*a, a*c + c*a, c*c}`, `Add` adds coefficientwise, `Scale(-1)` then `Add` is a subtraction. -/
def coneCoeffs (b1 b2 axis o d : V3 α) (radius norm : α) : α × α × α :=
  let a1 := b1.dot o
  let c1 := b1.dot d
  let a2 := b2.dot o
  let c2 := b2.dot d
  let r0 := o.dot axis * radius / norm
  let r1 := d.dot axis * radius / norm
  ((a1 * a1 + a2 * a2) - r0 * r0,
   ((a1 * c1 + c1 * a1) + (a2 * c2 + c2 * a2)) - (r0 * r1 + r1 * r0),
   (c1 * c1 + c2 * c2) - r1 * r1)

/-- `Polynomial{k0, k1, k2}.IterRealRoots`, in call order: a zero leading coefficient drops to the shorter
polynomial (`-k0/k1` for a linear one, nothing for a constant — the all-zero polynomial yields one `NaN`, which
fails the caller's `t >= 0`); otherwise the quadratic formula, nothing when `b² - 4ac < 0`, the smaller root
first (a double root is reported twice). -/
def polyRoots2 (sqrtF : α → α) (k0 k1 k2 : α) : List α :=
  if isZero k2 then
    if isZero k1 then [] else [(-k0) / k1]
  else
    let sqrtMe := k1 * k1 - four * k2 * k0
    if sqrtMe < 0 then []
    else
      let s := sqrtF sqrtMe
      let r1 := (-k1 - s) / (two * k2)
      let r2 := (-k1 + s) / (two * k2)
      if r2 < r1 then [r2, r1] else [r1, r2]

/-- the unit axis `Base - Tip` of `Cone.RayCollisions` (`axis.Scale(1 / norm)`) -/
def coneAxis (sqrtF : α → α) (tip base : V3 α) : V3 α := (base.sub tip).scale (1 / (base.sub tip).norm sqrtF)

/-- the callback `Cone.RayCollisions` makes for a root `t` of the side polynomial (if it makes one):
`t >= 0`, `0 <= axis·p <= norm`, normal = `baseAxis*norm + (Tip-Base)*(R/norm)`, normalised, with
`baseAxis = safeNormal(p + Tip - Base, b1, axis)`. -/
def coneSideHit (sqrtF : α → α) (tol : α) (tip base : V3 α) (radius : α) (b1 o0 d : V3 α) (t : α) : Option (Hit α) :=
  let norm := (base.sub tip).norm sqrtF
  let axis := coneAxis sqrtF tip base
  let o := o0.sub tip
  if t < 0 then none
  else
    let p := o.add (d.scale t)
    let dot := axis.dot p
    if 0 ≤ dot ∧ dot ≤ norm then
      let baseAxis := safeNormal sqrtF tol ((p.add tip).sub base) b1 axis
      some ⟨t, coneNormalDir baseAxis (tip.sub base) norm radius |>.normalize sqrtF⟩
    else none

/-- the two vectors `axis.OrthoBasis()` -/
def coneBasis (sqrtF : α → α) (tip base : V3 α) : V3 α × V3 α :=
  let bb := Tf.orthoBasis sqrtF (coneAxis sqrtF tip base).toTf
  (V3.ofTf bb.1, V3.ofTf bb.2)

/-- the roots of the side polynomial, in the order `IterRealRoots` reports them -/
def coneRoots (sqrtF : α → α) (tip base : V3 α) (radius : α) (o0 d : V3 α) : List α :=
  let bb := coneBasis sqrtF tip base
  let k := coneCoeffs bb.1 bb.2 (coneAxis sqrtF tip base) (o0.sub tip) d radius ((base.sub tip).norm sqrtF)
  polyRoots2 sqrtF k.1 k.2.1 k.2.2

/-- The calls of `Cone.RayCollisions`: the side collisions in root order, then the base disc. -/
def coneHits (sqrtF : α → α) (eps tol : α) (tip base : V3 α) (radius : α) (o0 d : V3 α) : List (Hit α) :=
  ((coneRoots sqrtF tip base radius o0 d).filterMap
      (coneSideHit sqrtF tol tip base radius (coneBasis sqrtF tip base).1 o0 d)) ++
    (castCircle sqrtF eps (coneAxis sqrtF tip base) base radius o0 d).toList

/-- `Cone.RayCollisions` / `FirstRayCollision` (min-callback). -/
def coneCollider (sqrtF : α → α) (eps tol : α) (tip base : V3 α) (radius : α) : Collider (V3 α × V3 α) (Hit α) :=
  ofHits (fun r => coneHits sqrtF eps tol tip base radius r.1 r.2)
    (fun r => minFirst Hit.t (coneHits sqrtF eps tol tip base radius r.1 r.2) none)

end Cone

end M3d.Col
