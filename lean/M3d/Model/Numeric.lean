/-!
# C17 models: matrices, polynomials, angle helpers  (core Lean only, executable)

Models of `numerical/matrix2.go`, `matrix3.go`, `matrix4.go` (and their twins
`model2d/matrix.go`, `model3d/matrix.go`), `numerical/polynomial.go` (the ring-level part
and the closed-form root branches), `toolbox3d/angles.go`.

Everything is generic over the scalar `α` and uses only the operation classes it needs, so
that the same definition is (a) proved about for every linearly ordered field and (b) run at
`Rat` (exact mode) and `Float` (bit mode) by the driver.  Numerals are written as casts of
naturals (`((2 : Nat) : α)`), which is what Go's `float64(i+1)` / literal constants are.
-/
namespace M3d.Num

variable {α : Type}

/-! ## 2×2, 3×3, 4×4 matrices, row-major like the Go arrays -/

structure M2 (α : Type) where
  m0 : α
  m1 : α
  m2 : α
  m3 : α
deriving Repr, DecidableEq

structure V2 (α : Type) where
  x : α
  y : α
deriving Repr, DecidableEq

namespace M2
variable [Add α] [Sub α] [Mul α] [Div α] [Neg α] [NatCast α]

/-- `Matrix2.Det`. -/
def det (m : M2 α) : α := m.m0 * m.m3 - m.m1 * m.m2

/-- `Matrix2.Scale` (in place in Go; here the new value). -/
def scale (m : M2 α) (s : α) : M2 α := ⟨m.m0 * s, m.m1 * s, m.m2 * s, m.m3 * s⟩

/-- `Matrix2.InvertInPlaceDet`: adjugate, then `Scale(1/det)`. -/
def invertDet (m : M2 α) (d : α) : M2 α :=
  scale ⟨m.m3, -m.m1, -m.m2, m.m0⟩ (((1 : Nat) : α) / d)

/-- `Matrix2.Inverse` = `InvertInPlace` = `InvertInPlaceDet(m.Det())`. -/
def inverse (m : M2 α) : M2 α := invertDet m (det m)

/-- `Matrix2.MulColumn`. -/
def mulColumn (m : M2 α) (c : V2 α) : V2 α :=
  ⟨m.m0 * c.x + m.m1 * c.y, m.m2 * c.x + m.m3 * c.y⟩

/-- `Matrix2.MulColumnInv`: adjugate times `c.Scale(1/det)`. -/
def mulColumnInv (m : M2 α) (c : V2 α) (d : α) : V2 α :=
  let s := ((1 : Nat) : α) / d
  mulColumn ⟨m.m3, -m.m1, -m.m2, m.m0⟩ ⟨c.x * s, c.y * s⟩

/-- `Matrix2.Mul`. -/
def mul (m n : M2 α) : M2 α :=
  ⟨m.m0 * n.m0 + m.m1 * n.m2, m.m0 * n.m1 + m.m1 * n.m3,
   m.m2 * n.m0 + m.m3 * n.m2, m.m2 * n.m1 + m.m3 * n.m3⟩

/-- `Matrix2.Add`. -/
def add (m n : M2 α) : M2 α := ⟨m.m0 + n.m0, m.m1 + n.m1, m.m2 + n.m2, m.m3 + n.m3⟩

/-- `Matrix2.Transpose`. -/
def transpose (m : M2 α) : M2 α := ⟨m.m0, m.m2, m.m1, m.m3⟩

def one : M2 α := ⟨((1 : Nat) : α), ((0 : Nat) : α), ((0 : Nat) : α), ((1 : Nat) : α)⟩

def toList (m : M2 α) : List α := [m.m0, m.m1, m.m2, m.m3]
def ofList : List α → Option (M2 α)
  | [a, b, c, d] => some ⟨a, b, c, d⟩
  | _ => none
end M2

structure M3 (α : Type) where
  m0 : α
  m1 : α
  m2 : α
  m3 : α
  m4 : α
  m5 : α
  m6 : α
  m7 : α
  m8 : α
deriving Repr, DecidableEq

structure V3 (α : Type) where
  x : α
  y : α
  z : α
deriving Repr, DecidableEq

namespace M3
variable [Add α] [Sub α] [Mul α] [Div α] [Neg α] [NatCast α]

/-- `Matrix3.Det`. -/
def det (m : M3 α) : α :=
  m.m0 * (m.m4 * m.m8 - m.m5 * m.m7) - m.m1 * (m.m3 * m.m8 - m.m5 * m.m6)
    + m.m2 * (m.m3 * m.m7 - m.m4 * m.m6)

def scale (m : M3 α) (s : α) : M3 α :=
  ⟨m.m0 * s, m.m1 * s, m.m2 * s, m.m3 * s, m.m4 * s, m.m5 * s, m.m6 * s, m.m7 * s, m.m8 * s⟩

/-- The adjugate written out in `InvertInPlaceDet` and `MulColumnInv`. -/
def adj (m : M3 α) : M3 α :=
  ⟨m.m4 * m.m8 - m.m5 * m.m7, m.m2 * m.m7 - m.m1 * m.m8, m.m1 * m.m5 - m.m2 * m.m4,
   m.m5 * m.m6 - m.m3 * m.m8, m.m0 * m.m8 - m.m2 * m.m6, m.m2 * m.m3 - m.m0 * m.m5,
   m.m3 * m.m7 - m.m4 * m.m6, m.m1 * m.m6 - m.m0 * m.m7, m.m0 * m.m4 - m.m1 * m.m3⟩

/-- `Matrix3.InvertInPlaceDet`. -/
def invertDet (m : M3 α) (d : α) : M3 α := scale (adj m) (((1 : Nat) : α) / d)

/-- `Matrix3.Inverse`. -/
def inverse (m : M3 α) : M3 α := invertDet m (det m)

/-- `Matrix3.MulColumn`. -/
def mulColumn (m : M3 α) (c : V3 α) : V3 α :=
  ⟨m.m0 * c.x + m.m1 * c.y + m.m2 * c.z,
   m.m3 * c.x + m.m4 * c.y + m.m5 * c.z,
   m.m6 * c.x + m.m7 * c.y + m.m8 * c.z⟩

/-- `Matrix3.MulColumnInv`. -/
def mulColumnInv (m : M3 α) (c : V3 α) (d : α) : V3 α :=
  let s := ((1 : Nat) : α) / d
  mulColumn (adj m) ⟨c.x * s, c.y * s, c.z * s⟩

/-- `Matrix3.Mul`. -/
def mul (m n : M3 α) : M3 α :=
  ⟨m.m0 * n.m0 + m.m1 * n.m3 + m.m2 * n.m6,
   m.m0 * n.m1 + m.m1 * n.m4 + m.m2 * n.m7,
   m.m0 * n.m2 + m.m1 * n.m5 + m.m2 * n.m8,
   m.m3 * n.m0 + m.m4 * n.m3 + m.m5 * n.m6,
   m.m3 * n.m1 + m.m4 * n.m4 + m.m5 * n.m7,
   m.m3 * n.m2 + m.m4 * n.m5 + m.m5 * n.m8,
   m.m6 * n.m0 + m.m7 * n.m3 + m.m8 * n.m6,
   m.m6 * n.m1 + m.m7 * n.m4 + m.m8 * n.m7,
   m.m6 * n.m2 + m.m7 * n.m5 + m.m8 * n.m8⟩

def add (m n : M3 α) : M3 α :=
  ⟨m.m0 + n.m0, m.m1 + n.m1, m.m2 + n.m2, m.m3 + n.m3, m.m4 + n.m4, m.m5 + n.m5,
   m.m6 + n.m6, m.m7 + n.m7, m.m8 + n.m8⟩

/-- `Matrix3.Transpose`. -/
def transpose (m : M3 α) : M3 α :=
  ⟨m.m0, m.m3, m.m6, m.m1, m.m4, m.m7, m.m2, m.m5, m.m8⟩

def one : M3 α :=
  let o := ((1 : Nat) : α); let z := ((0 : Nat) : α)
  ⟨o, z, z, z, o, z, z, z, o⟩

def toList (m : M3 α) : List α := [m.m0, m.m1, m.m2, m.m3, m.m4, m.m5, m.m6, m.m7, m.m8]
def ofList : List α → Option (M3 α)
  | [a, b, c, d, e, f, g, h, i] => some ⟨a, b, c, d, e, f, g, h, i⟩
  | _ => none
end M3

/-- 4×4 matrices, entries named as in `Matrix4.Det` / `CharPoly`. -/
structure M4 (α : Type) where
  a : α
  b : α
  c : α
  d : α
  e : α
  f : α
  g : α
  h : α
  i : α
  j : α
  k : α
  l : α
  m : α
  n : α
  o : α
  p : α
deriving Repr, DecidableEq

namespace M4
variable [Add α] [Sub α] [Mul α] [Neg α] [NatCast α]

/-- `Matrix4.Det` (the 24-term expansion as written). -/
def det (x : M4 α) : α :=
  let ⟨a, b, c, d, e, f, g, h, i, j, k, l, m1, n, o, p⟩ := x
  a*f*k*p - a*f*l*o - a*g*j*p + a*g*l*n + a*h*j*o - a*h*k*n - b*e*k*p + b*e*l*o + b*g*i*p -
    b*g*l*m1 - b*h*i*o + b*h*k*m1 + c*e*j*p - c*e*l*n - c*f*i*p + c*f*l*m1 + c*h*i*n - c*h*j*m1 -
    d*e*j*o + d*e*k*n + d*f*i*o - d*f*k*m1 - d*g*i*n + d*g*j*m1

/-- `Matrix4.CharPoly`: coefficients `[c0, c1, c2, c3, 1]`. -/
def charPoly (x : M4 α) : List α :=
  let ⟨a, b, c, d, e, f, g, h, i, j, k, l, m1, n, o, p⟩ := x
  [ a*f*k*p - a*f*l*o - a*g*j*p + a*g*l*n + a*h*j*o - a*h*k*n - b*e*k*p + b*e*l*o + b*g*i*p -
      b*g*l*m1 - b*h*i*o + b*h*k*m1 + c*e*j*p - c*e*l*n - c*f*i*p + c*f*l*m1 + c*h*i*n - c*h*j*m1 -
      d*e*j*o + d*e*k*n + d*f*i*o - d*f*k*m1 - d*g*i*n + d*g*j*m1,
    -a*f*k - a*f*p + a*g*j + a*h*n - a*k*p + a*l*o + b*e*k + b*e*p - b*g*i - b*h*m1 - c*e*j + c*f*i
      + c*i*p - c*l*m1 - d*e*n + d*f*m1 - d*i*o + d*k*m1 - f*k*p + f*l*o + g*j*p - g*l*n - h*j*o + h*k*n,
    a*f + a*k + a*p - b*e - c*i - d*m1 + f*k + f*p - g*j - h*n + k*p - l*o,
    -a - f - k - p,
    ((1 : Nat) : α) ]

/-- `Matrix4.Mul`. -/
def mul (x y : M4 α) : M4 α :=
  ⟨x.a*y.a + x.b*y.e + x.c*y.i + x.d*y.m, x.a*y.b + x.b*y.f + x.c*y.j + x.d*y.n,
   x.a*y.c + x.b*y.g + x.c*y.k + x.d*y.o, x.a*y.d + x.b*y.h + x.c*y.l + x.d*y.p,
   x.e*y.a + x.f*y.e + x.g*y.i + x.h*y.m, x.e*y.b + x.f*y.f + x.g*y.j + x.h*y.n,
   x.e*y.c + x.f*y.g + x.g*y.k + x.h*y.o, x.e*y.d + x.f*y.h + x.g*y.l + x.h*y.p,
   x.i*y.a + x.j*y.e + x.k*y.i + x.l*y.m, x.i*y.b + x.j*y.f + x.k*y.j + x.l*y.n,
   x.i*y.c + x.j*y.g + x.k*y.k + x.l*y.o, x.i*y.d + x.j*y.h + x.k*y.l + x.l*y.p,
   x.m*y.a + x.n*y.e + x.o*y.i + x.p*y.m, x.m*y.b + x.n*y.f + x.o*y.j + x.p*y.n,
   x.m*y.c + x.n*y.g + x.o*y.k + x.p*y.o, x.m*y.d + x.n*y.h + x.o*y.l + x.p*y.p⟩

/-- `Matrix4.MulColumn`: `res[i] += m[4i+j]*v[j]` starting from 0. -/
def mulColumn (x : M4 α) (v : List α) : List α :=
  let z := ((0 : Nat) : α)
  let v0 := v.getD 0 z; let v1 := v.getD 1 z; let v2 := v.getD 2 z; let v3 := v.getD 3 z
  [z + x.a*v0 + x.b*v1 + x.c*v2 + x.d*v3, z + x.e*v0 + x.f*v1 + x.g*v2 + x.h*v3,
   z + x.i*v0 + x.j*v1 + x.k*v2 + x.l*v3, z + x.m*v0 + x.n*v1 + x.o*v2 + x.p*v3]

/-- `Matrix4.Transpose`. -/
def transpose (x : M4 α) : M4 α :=
  ⟨x.a, x.e, x.i, x.m, x.b, x.f, x.j, x.n, x.c, x.g, x.k, x.o, x.d, x.h, x.l, x.p⟩

/-- `x·I − m`, the matrix whose determinant the characteristic polynomial is. -/
def xIminus (t : α) (x : M4 α) : M4 α :=
  ⟨t - x.a, -x.b, -x.c, -x.d, -x.e, t - x.f, -x.g, -x.h, -x.i, -x.j, t - x.k, -x.l,
   -x.m, -x.n, -x.o, t - x.p⟩

def toList (x : M4 α) : List α :=
  [x.a, x.b, x.c, x.d, x.e, x.f, x.g, x.h, x.i, x.j, x.k, x.l, x.m, x.n, x.o, x.p]
def ofList : List α → Option (M4 α)
  | [a, b, c, d, e, f, g, h, i, j, k, l, m, n, o, p] => some ⟨a, b, c, d, e, f, g, h, i, j, k, l, m, n, o, p⟩
  | _ => none
end M4

/-! ## Scaling, Gram matrices and the characteristic-polynomial coefficients of `Eigenvalues`

What the scale-covariance theorems of `Props/C17.lean` talk about: `Matrix4.Scale`, `mᵀ·m` (the
matrix whose eigenvalues `SVD` takes square roots of), and the coefficients that
`Matrix2.Eigenvalues` / `Matrix3.Eigenvalues` feed into the quadratic / cubic formula. -/

namespace M4
variable [Mul α]
/-- `Matrix4.Scale` (returns the scalar-matrix product). -/
def scale (x : M4 α) (s : α) : M4 α :=
  ⟨x.a*s, x.b*s, x.c*s, x.d*s, x.e*s, x.f*s, x.g*s, x.h*s, x.i*s, x.j*s, x.k*s, x.l*s,
   x.m*s, x.n*s, x.o*s, x.p*s⟩
end M4

namespace M2
variable [Add α] [Sub α] [Mul α] [Div α] [Neg α] [NatCast α]
/-- `m.Transpose().Mul(m)` — `ata` in `Matrix2.SVD`. -/
def gram (m : M2 α) : M2 α := m.transpose.mul m
/-- Coefficients `(b, c)` of the monic quadratic `x² + b·x + c` that `Matrix2.Eigenvalues` solves:
`b = -(m[0] + m[3])`, `c = m.Det()`. -/
def eigCoeffs (m : M2 α) : α × α := (-(m.m0 + m.m3), m.det)
/-- `x·I − m`. -/
def xIminus (t : α) (m : M2 α) : M2 α := ⟨t - m.m0, -m.m1, -m.m2, t - m.m3⟩
/-- The branch of `Matrix2.Eigenvalues` with a non-negative discriminant (every symmetric matrix, so
every `ata` of `SVD`): `(-b ∓ sqrt(b·b − 4·1·c)) / (2·1)`.  With zero imaginary parts Go's complex
`*`, `-` and `/` by the real `2` perform exactly these real operations. -/
def eigenvaluesReal (sqrt : α → α) (m : M2 α) : α × α :=
  let bc := eigCoeffs m
  let b := bc.1
  let c := bc.2
  let one := ((1 : Nat) : α)
  let disc := b * b - ((4 : Nat) : α) * one * c
  let sq := sqrt disc
  ((-b - sq) / (((2 : Nat) : α) * one), (-b + sq) / (((2 : Nat) : α) * one))
end M2

namespace M3
variable [Add α] [Sub α] [Mul α] [Div α] [Neg α] [NatCast α]
/-- `m.Transpose().Mul(m)` — `ata` in `Matrix3.SVD`. -/
def gram (m : M3 α) : M3 α := m.transpose.mul m
/-- `trace` of `Matrix3.Eigenvalues`. -/
def trace (m : M3 α) : α := m.m0 + m.m4 + m.m8
/-- `sqTrace` of `Matrix3.Eigenvalues` (the trace of `m·m`, as written). -/
def sqTrace (m : M3 α) : α :=
  (m.m0 * m.m0 + m.m1 * m.m3 + m.m2 * m.m6) + (m.m1 * m.m3 + m.m4 * m.m4 + m.m7 * m.m5)
    + (m.m2 * m.m6 + m.m5 * m.m7 + m.m8 * m.m8)
/-- Coefficients `(b, c, d)` of the cubic `-x³ + b·x² + c·x + d` whose roots `Matrix3.Eigenvalues`
returns through the cubic formula: `b = trace`, `c = 0.5·(sqTrace − trace²)`, `d = Det()`. -/
def eigCoeffs (m : M3 α) : α × α × α :=
  (trace m, ((1 : Nat) : α) / ((2 : Nat) : α) * (sqTrace m - trace m * trace m), m.det)
/-- `m − x·I`. -/
def minusXI (m : M3 α) (t : α) : M3 α :=
  ⟨m.m0 - t, m.m1, m.m2, m.m3, m.m4 - t, m.m5, m.m6, m.m7, m.m8 - t⟩
end M3

namespace M4
variable [Add α] [Sub α] [Mul α] [Neg α] [NatCast α]
/-- `m.Transpose().Mul(m)` — `mtm` in `Matrix4.SVD`. -/
def gram (x : M4 α) : M4 α := x.transpose.mul x
end M4

/-! ## `numerical.Vec2/3/4` (`numerical/vecs.go`) -/

structure V4 (α : Type) where
  x : α
  y : α
  z : α
  w : α
deriving Repr, DecidableEq

namespace V2
variable [Add α] [Sub α] [Mul α] [Div α] [Neg α] [NatCast α]
def add (a b : V2 α) : V2 α := ⟨a.x + b.x, a.y + b.y⟩
def sub (a b : V2 α) : V2 α := ⟨a.x - b.x, a.y - b.y⟩
def scale (a : V2 α) (f : α) : V2 α := ⟨a.x * f, a.y * f⟩
def dot (a b : V2 α) : α := a.x * b.x + a.y * b.y
def sum (a : V2 α) : α := a.x + a.y
/-- `Vec2.DistSquared` (the loop starts from `res = 0`). -/
def distSquared (a b : V2 α) : α :=
  ((0 : Nat) : α) + (a.x - b.x) * (a.x - b.x) + (a.y - b.y) * (a.y - b.y)
def norm (sqrt : α → α) (a : V2 α) : α := sqrt (dot a a)
def dist (sqrt : α → α) (a b : V2 α) : α :=
  sqrt ((a.x - b.x) * (a.x - b.x) + (a.y - b.y) * (a.y - b.y))
def normalize (sqrt : α → α) (a : V2 α) : V2 α := scale a (((1 : Nat) : α) / norm sqrt a)
/-- `Vec2.ProjectOut`: `v + normed·(−(normed·v))`. -/
def projectOut (sqrt : α → α) (a b : V2 α) : V2 α :=
  let n := normalize sqrt b
  add a (scale n (-(dot n a)))
end V2

namespace V3
variable [Add α] [Sub α] [Mul α] [Div α] [Neg α] [NatCast α]
def add (a b : V3 α) : V3 α := ⟨a.x + b.x, a.y + b.y, a.z + b.z⟩
def sub (a b : V3 α) : V3 α := ⟨a.x - b.x, a.y - b.y, a.z - b.z⟩
def scale (a : V3 α) (f : α) : V3 α := ⟨a.x * f, a.y * f, a.z * f⟩
def dot (a b : V3 α) : α := a.x * b.x + a.y * b.y + a.z * b.z
def cross (a b : V3 α) : V3 α :=
  ⟨a.y * b.z - a.z * b.y, a.z * b.x - a.x * b.z, a.x * b.y - a.y * b.x⟩
def sum (a : V3 α) : α := a.x + a.y + a.z
def distSquared (a b : V3 α) : α :=
  ((0 : Nat) : α) + (a.x - b.x) * (a.x - b.x) + (a.y - b.y) * (a.y - b.y) + (a.z - b.z) * (a.z - b.z)
def norm (sqrt : α → α) (a : V3 α) : α := sqrt (dot a a)
def dist (sqrt : α → α) (a b : V3 α) : α :=
  sqrt ((a.x - b.x) * (a.x - b.x) + (a.y - b.y) * (a.y - b.y) + (a.z - b.z) * (a.z - b.z))
def normalize (sqrt : α → α) (a : V3 α) : V3 α := scale a (((1 : Nat) : α) / norm sqrt a)
def projectOut (sqrt : α → α) (a b : V3 α) : V3 α :=
  let n := normalize sqrt b
  add a (scale n (-(dot n a)))
end V3

namespace V4
variable [Add α] [Sub α] [Mul α] [Div α] [Neg α] [NatCast α]
def add (a b : V4 α) : V4 α := ⟨a.x + b.x, a.y + b.y, a.z + b.z, a.w + b.w⟩
def sub (a b : V4 α) : V4 α := ⟨a.x - b.x, a.y - b.y, a.z - b.z, a.w - b.w⟩
def scale (a : V4 α) (f : α) : V4 α := ⟨a.x * f, a.y * f, a.z * f, a.w * f⟩
def dot (a b : V4 α) : α := a.x * b.x + a.y * b.y + a.z * b.z + a.w * b.w
def sum (a : V4 α) : α := a.x + a.y + a.z + a.w
def distSquared (a b : V4 α) : α :=
  ((0 : Nat) : α) + (a.x - b.x) * (a.x - b.x) + (a.y - b.y) * (a.y - b.y) + (a.z - b.z) * (a.z - b.z)
    + (a.w - b.w) * (a.w - b.w)
def norm (sqrt : α → α) (a : V4 α) : α := sqrt (dot a a)
def dist (sqrt : α → α) (a b : V4 α) : α :=
  sqrt ((a.x - b.x) * (a.x - b.x) + (a.y - b.y) * (a.y - b.y) + (a.z - b.z) * (a.z - b.z)
    + (a.w - b.w) * (a.w - b.w))
def normalize (sqrt : α → α) (a : V4 α) : V4 α := scale a (((1 : Nat) : α) / norm sqrt a)
def projectOut (sqrt : α → α) (a b : V4 α) : V4 α :=
  let n := normalize sqrt b
  add a (scale n (-(dot n a)))
end V4

/-! ## `numerical.Vec` (`[]float64` of any length, `numerical/vecs.go`)

Vectors as lists.  `normSquared scale distSquared norm dist normalize zeros at len` are tied to the definitions
REGENERATED from the source by `Lemmas/KernelsTiePoly.lean`; `add sub dot projectOut` (which panic on a length
mismatch in Go — outside the translator's subset) are hand-written and compared by the `vec` kinds only. -/

namespace VecN
variable [Add α] [Sub α] [Mul α] [Div α] [NatCast α]

/-- `Vec.NormSquared`: `res += x*x` starting from 0. -/
def normSquared (v : List α) : α := v.foldl (fun r x => r + x * x) ((0 : Nat) : α)
/-- `Vec.Scale`. -/
def scale (v : List α) (s : α) : List α := v.map (· * s)
/-- `Vec.DistSquared`: `sum += (x − v1[i])²` over the positions of `v` (Go panics when `v1` is shorter). -/
def distSquared (v w : List α) : α :=
  (v.zip w).foldl (fun s xy => s + (xy.1 - xy.2) * (xy.1 - xy.2)) ((0 : Nat) : α)
/-- `Vec.Norm`. -/
def norm (sqrt : α → α) (v : List α) : α := sqrt (normSquared v)
/-- `Vec.Dist`. -/
def dist (sqrt : α → α) (v w : List α) : α := sqrt (distSquared v w)
/-- `Vec.Normalize`: `v.Scale(1 / v.Norm())`. -/
def normalize (sqrt : α → α) (v : List α) : List α := scale v (((1 : Nat) : α) / norm sqrt v)
/-- `Vec.Zeros`. -/
def zeros (v : List α) : List α := List.replicate v.length ((0 : Nat) : α)
/-- `Vec.Add` / `Vec.Sub` (equal lengths; otherwise Go panics = `none`). -/
def add (v w : List α) : Option (List α) :=
  if v.length = w.length then some (List.zipWith (· + ·) v w) else none
def sub (v w : List α) : Option (List α) :=
  if v.length = w.length then some (List.zipWith (· - ·) v w) else none
/-- `Vec.Dot`: `res += x*y` starting from 0. -/
def dot (v w : List α) : Option α :=
  if v.length = w.length then some ((v.zip w).foldl (fun r xy => r + xy.1 * xy.2) ((0 : Nat) : α)) else none
/-- `Vec.ProjectOut`: `v.Sub(normed.Scale(normed.Dot(v)))` with `normed = v1.Normalize()`. -/
def projectOut (sqrt : α → α) (v w : List α) : Option (List α) :=
  let n := normalize sqrt w
  match dot n v with
  | none => none
  | some d => sub v (scale n d)
end VecN

/-! ## Polynomials as coefficient lists `[a0, a1, …]` (`numerical.Polynomial`) -/

namespace Poly
variable [Add α] [Sub α] [Mul α] [Div α] [Neg α] [NatCast α]

/-- The loop of `Polynomial.Eval`: `res += c*xP; xP *= x`. -/
def evalAux (x : α) : List α → α → α → α
  | [], _, res => res
  | c :: cs, xP, res => evalAux x cs (xP * x) (res + c * xP)

/-- `Polynomial.Eval`. -/
def eval (p : List α) (x : α) : α := evalAux x p ((1 : Nat) : α) ((0 : Nat) : α)

/-- Textbook value of a polynomial (Horner form) — the specification `eval` is proved equal to. -/
def evalSpec (x : α) : List α → α
  | [] => ((0 : Nat) : α)
  | c :: cs => c + x * evalSpec x cs

def derivAux : Nat → List α → List α
  | _, [] => []
  | i, c :: cs => (c * ((i + 1 : Nat) : α)) :: derivAux (i + 1) cs

/-- `Polynomial.Derivative`: `res[i] = p[i+1] * float64(i+1)`; `len ≤ 1 ↦ {}`. -/
def derivative : List α → List α
  | [] => []
  | _ :: cs => derivAux 0 cs

/-- `Polynomial.Scale`. -/
def scale (p : List α) (c : α) : List α := p.map (· * c)

/-- Entry-wise sum, the longer list's tail kept (first loop of `Polynomial.Add`;
`res[i]` starts at 0 and gets `+= p[i]`, `+= p1[i]`). -/
def addRaw : List α → List α → List α
  | [], q => q.map (((0 : Nat) : α) + ·)
  | p, [] => p.map (((0 : Nat) : α) + ·)
  | a :: p, b :: q => (((0 : Nat) : α) + a + b) :: addRaw p q

/-- Second loop of `Polynomial.Add`: drop trailing coefficients that are `== 0`. -/
def trimZeros [DecidableEq α] : List α → List α
  | [] => []
  | c :: cs =>
    match trimZeros cs with
    | [] => if c = ((0 : Nat) : α) then [] else [c]
    | r => c :: r

/-- `Polynomial.Add`. -/
def add [DecidableEq α] (p q : List α) : List α := trimZeros (addRaw p q)

/-- Entry-wise sum without the `0 +` of a fresh accumulator (used by `mul`). -/
def addPlain : List α → List α → List α
  | [], q => q
  | p, [] => p
  | a :: p, b :: q => (a + b) :: addPlain p q

/-- `Polynomial.Mul`: `res[i+j] += x*y`.  Written as the sum over `i` of the shifted rows
`x_i · p1`; over a commutative ring this is the same list as the Go double loop
(the order of the additions into one slot differs, which exact arithmetic does not see). -/
def mulAux : List α → List α → List α
  | [], _ => []
  | [x], q => q.map (x * ·)
  | x :: xs, q => addPlain (q.map (x * ·)) (((0 : Nat) : α) :: mulAux xs q)

def mul (p q : List α) : List α :=
  match p, q with
  | [], _ => []
  | _, [] => []
  | p, q => mulAux p q

/-- Inner loop of `Polynomial.Mul` as written: `for j, y := range p1 { res[i+j] += x*y }` (from position `j`). -/
def mulRow (x : α) (i : Nat) : List α → Nat → List α → List α
  | [], _, res => res
  | y :: ys, j, res => mulRow x i ys (j + 1) (res.set (i + j) (res.getD (i + j) ((0 : Nat) : α) + x * y))

/-- Outer loop of `Polynomial.Mul`: `for i, x := range p { … }` (from position `i`). -/
def mulRows (q : List α) : List α → Nat → List α → List α
  | [], _, res => res
  | x :: xs, i, res => mulRows q xs (i + 1) (mulRow x i q 0 res)

/-- `Polynomial.Mul` with the additions in the order of the Go double loop (the bit-mode model; proved equal to
`mul` over every commutative ring: `poly_mul_loop_eq`). -/
def mulLoop (p q : List α) : List α :=
  match p, q with
  | [], _ => []
  | _, [] => []
  | p, q => mulRows q p 0 (List.replicate (p.length + q.length - 1) ((0 : Nat) : α))

/-- The loop of `divideRoot` (synthetic division from the top coefficient down):
returns the quotient and the final `temp[0]`, which is `p(r)`. -/
def divAux (r : α) : List α → List α × α
  | [] => ([], ((0 : Nat) : α))
  | [c] => ([], c)
  | c :: cs =>
    let qt := divAux r cs
    (qt.2 :: qt.1, c + r * qt.2)

/-- `Polynomial.divideRoot` (`none` = the Go panic for constants; a linear polynomial
gives `{1}` whatever its leading coefficient — "assume that the root is correct"). -/
def divideRoot (p : List α) (r : α) : Option (List α) :=
  match p with
  | [] => none
  | [_] => none
  | [_, _] => some [((1 : Nat) : α)]
  | p => some (divAux r p).1

/-- Leading zero coefficients are stripped first by `IterRealRoots` (`p[len-1] == 0`). -/
def stripLeadingZeros [DecidableEq α] : List α → List α
  | [] => []
  | c :: cs =>
    match stripLeadingZeros cs with
    | [] => if c = ((0 : Nat) : α) then [] else [c]
    | r => c :: r

inductive Roots (α : Type) where
  | all            -- the zero polynomial: Go reports one NaN root
  | some (rs : List α)
  | unsupported    -- degree ≥ 3: libm-based code, not modelled here
deriving Repr, DecidableEq

/-- The closed-form branches of `IterRealRoots` (degree ≤ 2) with all roots collected
(`RealRoots`).  `sqrt` is `math.Sqrt`, a parameter. -/
def realRootsLow [DecidableEq α] [LT α] [DecidableLT α] (sqrt : α → α) (p : List α) : Roots α :=
  match stripLeadingZeros p with
  | [] => .all
  | [_] => .some []
  | [p0, p1] => .some [-p0 / p1]
  | [c, b, a] =>
    let sqrtMe := b * b - ((4 : Nat) : α) * a * c
    if sqrtMe < ((0 : Nat) : α) then .some []
    else
      let s := sqrt sqrtMe
      let root1 := (-b - s) / (((2 : Nat) : α) * a)
      let root2 := (-b + s) / (((2 : Nat) : α) * a)
      if root1 > root2 then .some [root2, root1] else .some [root1, root2]
  | _ => .unsupported

end Poly

namespace Poly
variable [Add α] [Div α] [Neg α] [NatCast α] [LT α] [DecidableLT α]

/-- `math.Abs` / `math.Max` on ordinary values. -/
def absP (x : α) : α := if x < ((0 : Nat) : α) then -x else x
def maxP (a b : α) : α := if a < b then b else a

/-- The search window of the bracketing branch of `IterRealRoots` (degree ≥ 4), "Cauchy's bound
for real roots": `absBound = max_i |p[i]/p[len-1]|` over the non-leading coefficients, `+ 1`.
All real roots are looked for inside `[-absBound, absBound]`. -/
def cauchyBound (p : List α) : α :=
  let a := p.getLastD ((0 : Nat) : α)
  p.dropLast.foldl (fun acc x => maxP acc (absP (x / a))) ((0 : Nat) : α) + ((1 : Nat) : α)

end Poly

/-! ## `toolbox3d/angles.go` with an abstract period `τ` (Go: `2*math.Pi`) -/

namespace Angle
variable [Add α] [Sub α] [Mul α] [Div α] [Neg α] [NatCast α] [IntCast α] [LT α] [DecidableLT α]

/-- `math.Mod(x, y)` for `y > 0`: `x − trunc(x/y)·y`, computed exactly (Go's `math.Mod` is an
exact operation on doubles).  `trunc : α → Int` rounds toward zero; it is a parameter. -/
def fmod (trunc : α → Int) (x y : α) : α := x - ((trunc (x / y) : Int) : α) * y

/-- `CanonicalAngle` as it was before the repair (F14): a negative angle is replaced by
`2π − θ` (which is positive, so the recursive call takes the other branch). -/
def canonicalAngleOld (trunc : α → Int) (τ θ : α) : α :=
  if θ < ((0 : Nat) : α) then fmod trunc (τ - θ) τ else fmod trunc θ τ

/-- `CanonicalAngle` (repaired): `res := math.Mod(θ, 2π); if res < 0 { res += 2π }`. -/
def canonicalAngle (trunc : α → Int) (τ θ : α) : α :=
  let res := fmod trunc θ τ
  if res < ((0 : Nat) : α) then res + τ else res

def abs' (x : α) : α := if x < ((0 : Nat) : α) then -x else x
def min' (x y : α) : α := if y < x then y else x

/-- `AngleDist`. -/
def angleDist (trunc : α → Int) (τ θ1 θ2 : α) : α :=
  let a := canonicalAngle trunc τ θ1
  let b := canonicalAngle trunc τ θ2
  let diff := abs' (a - b)
  min' diff (τ - diff)

end Angle

/-- The truncation toward zero the exact-mode driver runs the angle and joined-curve models with
(`math.Mod`'s integer quotient, Go's `int(x)`): proved to satisfy `IsTrunc` in `Props/C17.lean`. -/
def ratTrunc (q : Rat) : Int := q.num.tdiv q.den

end M3d.Num
