/-!
# Bounding boxes of solids (C03): executable model, core Lean only, generic scalar

Sources modelled (2D twins are generated from the same templates; the model is dimension
generic: a point has three slots and a solid carries a flag `d3` saying whether slot 2 is used):

* `templates/bounder.template`  : `InBounds`, `BoundsValid`            → `inB`, `boxValid`
* `templates/solid.template`    : `FuncSolid/CheckedFuncSolid/ForceSolidBounds/CacheSolidBounds`,
  `JoinedSolid`, `IntersectedSolid`, `SubtractedSolid`, `ColliderSolid` (plain / inset / hollow),
  `SmoothJoin`, `SDFToSolid`; 3D only: `StackSolids`, `StackedSolid`, `ProfileSolid`,
  `CrossSectionSolid`, `RevolveSolid`
* `templates/transform.template`: `Translate`, `Scale`, `VecScale`, `Matrix3Transform`/`Matrix2Transform`,
  `JoinedTransform` (`Apply`, `ApplyBounds`, `Inverse`), `TransformSolid`
* `templates/shapes.template`   : `Rect`, `Sphere`/`Circle`, `Capsule` (bounds), and, 3D only,
  `circleAxisBound`, `Cylinder/Cone/Torus.Min/Max`
* `templates/metaball.template` : `MetaballSolid` (outset search + thresholded field)
* `templates/polytope.template` : `ConvexPolytope.Contains`, `polytopeSolid`
* `toolbox3d`: `ClampAxis`, `SliceSolid` (= `CrossSectionSolid`), `rectSetSolid`, `heightMapSolid`,
  `Ramp` (with the bounds of the repaired code).

Conventions: pointers → values, callbacks (`Solid.Contains` of an opaque leaf, an SDF, a collider,
a metaball field) → function fields; NaN excluded; `±Inf` arguments of `ClampAxis` are `none`.
`math.Sqrt` is a function parameter `sq` (theorems assume `sq x * sq x = x ∧ 0 ≤ sq x` for `0 ≤ x`;
the driver passes `Float.sqrt`), the literal `1e-8` of `circleAxisBound` is the parameter `eps`.
-/
namespace M3d.Bd

/-! ## Points and boxes -/

/-- A coordinate: three slots (`Coord3D`; a 2D `Coord` leaves the third unused).  A structure, not a
function, so that the executable side evaluates every coordinate once. -/
structure Pt (α : Type) where
  x : α
  y : α
  z : α

/-- component `i` (`Array()[i]`) -/
def Pt.get {α : Type} (p : Pt α) (i : Fin 3) : α := if i.val = 0 then p.x else if i.val = 1 then p.y else p.z

instance {α : Type} : CoeFun (Pt α) (fun _ => Fin 3 → α) := ⟨Pt.get⟩

/-- `XYZ(x, y, z)` (2D: `XY(x, y)` with an unused third slot). -/
def mk3 {α : Type} (x y z : α) : Pt α := ⟨x, y, z⟩

structure Box (α : Type) where
  lo : Pt α
  hi : Pt α

/-- A `Solid` value: dimension flag, reported `Min()/Max()` and `Contains`. -/
structure Solid (α : Type) where
  d3 : Bool
  box : Box α
  f : Pt α → Bool

/-- An `SDF` value. -/
structure SDFL (α : Type) where
  d3 : Bool
  box : Box α
  d : Pt α → α

/-- A `Collider` as the solids use it: parity of `RayCollisions` along the fixed direction
(`inside`), and `SphereCollision`. -/
structure ColL (α : Type) where
  d3 : Bool
  box : Box α
  inside : Pt α → Bool
  sphere : Pt α → α → Bool

/-- A `Metaball`. -/
structure MBL (α : Type) where
  d3 : Bool
  box : Box α
  field : Pt α → α
  distBound : α → α

/-- 3×3 matrix in the index order of `Matrix3` (`MulColumn` reads `m[0..2]` for `X`). -/
structure Mat (α : Type) where
  a0 : α
  a1 : α
  a2 : α
  a3 : α
  a4 : α
  a5 : α
  a6 : α
  a7 : α
  a8 : α

/-- One `Transform`.  A matrix transform carries its (library-computed) inverse matrix. -/
inductive Xf1 (α : Type) where
  | translate (o : Pt α)
  | scale (s : α)
  | vecScale (v : Pt α)
  | matrix3 (m mi : Mat α)
  | matrix2 (a b c d ia ib ic id : α)

section Ops
variable {α : Type} [Add α] [Sub α] [Mul α] [Div α] [Neg α] [LE α] [LT α]
  [DecidableLE α] [DecidableLT α] [OfNat α 0] [OfNat α 1]

/-- `math.Min` / `math.Max` on non-NaN values. -/
def smin (a b : α) : α := if a ≤ b then a else b
def smax (a b : α) : α := if a ≤ b then b else a
/-- `math.Abs`. -/
def sabs (a : α) : α := if (0 : α) ≤ a then a else -a

def pmin (a b : Pt α) : Pt α := mk3 (smin (a 0) (b 0)) (smin (a 1) (b 1)) (smin (a 2) (b 2))
def pmax (a b : Pt α) : Pt α := mk3 (smax (a 0) (b 0)) (smax (a 1) (b 1)) (smax (a 2) (b 2))
def padd (a b : Pt α) : Pt α := mk3 (a 0 + b 0) (a 1 + b 1) (a 2 + b 2)
def psub (a b : Pt α) : Pt α := mk3 (a 0 - b 0) (a 1 - b 1) (a 2 - b 2)
def pmul (a b : Pt α) : Pt α := mk3 (a 0 * b 0) (a 1 * b 1) (a 2 * b 2)
def pscale (a : Pt α) (s : α) : Pt α := mk3 (a 0 * s) (a 1 * s) (a 2 * s)
def paddS (a : Pt α) (s : α) : Pt α := mk3 (a 0 + s) (a 1 + s) (a 2 + s)
def precip (a : Pt α) : Pt α := mk3 (1 / a 0) (1 / a 1) (1 / a 2)
def pdot (a b : Pt α) : α := a 0 * b 0 + a 1 * b 1 + a 2 * b 2
def pset (a : Pt α) (ax : Fin 3) (v : α) : Pt α :=
  mk3 (if ax.val = 0 then v else a 0) (if ax.val = 1 then v else a 1) (if ax.val = 2 then v else a 2)

/-- One axis of `InBounds`. -/
def axisOk (b : Box α) (p : Pt α) (i : Fin 3) : Bool := decide (b.lo i ≤ p i) && decide (p i ≤ b.hi i)

/-- `InBounds` / `Rect.Contains` / the test of `CheckedFuncSolid`: `c.Min(min) == min && c.Max(max) == max`. -/
def inB (d3 : Bool) (b : Box α) (p : Pt α) : Bool :=
  axisOk b p 0 && axisOk b p 1 && (!d3 || axisOk b p 2)

/-- The order part of `BoundsValid` (finiteness is outside the model). -/
def boxValid (d3 : Bool) (b : Box α) : Bool :=
  decide (b.lo 0 ≤ b.hi 0) && decide (b.lo 1 ≤ b.hi 1) && (!d3 || decide (b.lo 2 ≤ b.hi 2))

def boxUnion (a b : Box α) : Box α := ⟨pmin a.lo b.lo, pmax a.hi b.hi⟩
/-- `min.AddScalar(-r), max.AddScalar(r)`. -/
def boxGrow (b : Box α) (r : α) : Box α := ⟨paddS b.lo (-r), paddS b.hi r⟩

/-! ## Wrappers and boolean combinators (`solid.template`) -/

/-- `CheckedFuncSolid(min, max, g)`. -/
def checkedS (d3 : Bool) (box : Box α) (g : Pt α → Bool) : Solid α :=
  ⟨d3, box, fun p => inB d3 box p && g p⟩

/-- `ForceSolidBounds(s, min, max)`. -/
def forceS (s : Solid α) (box : Box α) : Solid α := checkedS s.d3 box s.f
/-- `CacheSolidBounds(s)`. -/
def cacheS (s : Solid α) : Solid α := forceS s s.box

/-- `JoinedSolid{a, rest...}`. -/
def joinedS (a : Solid α) (rest : List (Solid α)) : Solid α :=
  ⟨a.d3 && rest.all (·.d3), rest.foldl (fun b s => boxUnion b s.box) a.box,
    fun p => a.f p || rest.any (fun s => s.f p)⟩

/-- `IntersectedSolid.Min()`. -/
def interLo (a : Solid α) (rest : List (Solid α)) : Pt α := rest.foldl (fun b s => pmax b s.box.lo) a.box.lo
/-- `IntersectedSolid.Max()`: running `Min` of the maxima, then `.Max(i.Min())`. -/
def interHi (a : Solid α) (rest : List (Solid α)) : Pt α :=
  pmax (rest.foldl (fun b s => pmin b s.box.hi) a.box.hi) (interLo a rest)

/-- `IntersectedSolid{a, rest...}`. -/
def interS (a : Solid α) (rest : List (Solid α)) : Solid α :=
  ⟨a.d3 && rest.all (·.d3), ⟨interLo a rest, interHi a rest⟩, fun p => a.f p && rest.all (fun s => s.f p)⟩

/-- `SubtractedSolid{Positive, Negative}`. -/
def subS (pos neg : Solid α) : Solid α := ⟨pos.d3, pos.box, fun p => pos.f p && !(neg.f p)⟩

/-! ## Transforms (`transform.template`) -/

def Mat.mulCol (m : Mat α) (c : Pt α) : Pt α :=
  mk3 (m.a0 * c 0 + m.a1 * c 1 + m.a2 * c 2) (m.a3 * c 0 + m.a4 * c 1 + m.a5 * c 2)
    (m.a6 * c 0 + m.a7 * c 1 + m.a8 * c 2)

/-- `Matrix2.MulColumn` (third slot passed through; it is unused in 2D). -/
def mulCol2 (a b c d : α) (p : Pt α) : Pt α := mk3 (a * p 0 + b * p 1) (c * p 0 + d * p 1) (p 2)

def Xf1.apply : Xf1 α → Pt α → Pt α
  | .translate o, p => padd p o
  | .scale s, p => pscale p s
  | .vecScale v, p => pmul p v
  | .matrix3 m _, p => m.mulCol p
  | .matrix2 a b c d _ _ _ _, p => mulCol2 a b c d p

/-- The eight corners in the loop order of `Matrix3Transform.ApplyBounds` (x outermost). -/
def corners3 (lo hi : Pt α) : List (Pt α) :=
  [mk3 (lo 0) (lo 1) (lo 2), mk3 (lo 0) (lo 1) (hi 2), mk3 (lo 0) (hi 1) (lo 2), mk3 (lo 0) (hi 1) (hi 2),
   mk3 (hi 0) (lo 1) (lo 2), mk3 (hi 0) (lo 1) (hi 2), mk3 (hi 0) (hi 1) (lo 2), mk3 (hi 0) (hi 1) (hi 2)]

/-- The four corners in the loop order of `Matrix2Transform.ApplyBounds`. -/
def corners2 (lo hi : Pt α) : List (Pt α) :=
  [mk3 (lo 0) (lo 1) (lo 2), mk3 (lo 0) (hi 1) (lo 2), mk3 (hi 0) (lo 1) (lo 2), mk3 (hi 0) (hi 1) (lo 2)]

/-- `newMin, newMax = c, c` for the first corner, then running `Min`/`Max`. -/
def hullOf (first : Pt α) (rest : List (Pt α)) : Box α :=
  ⟨rest.foldl pmin first, rest.foldl pmax first⟩

def Xf1.applyBounds : Xf1 α → Box α → Box α
  | .translate o, b => ⟨padd b.lo o, padd b.hi o⟩
  | .scale s, b =>
      let mn := pscale b.lo s
      let mx := pscale b.hi s
      ⟨pmin mn mx, pmax mx mn⟩
  | .vecScale v, b =>
      let mn := pmul b.lo v
      let mx := pmul b.hi v
      ⟨pmin mn mx, pmax mx mn⟩
  | .matrix3 m _, b =>
      match (corners3 b.lo b.hi).map m.mulCol with
      | [] => b
      | c :: cs => hullOf c cs
  | .matrix2 a b' c d _ _ _ _, b =>
      match (corners2 b.lo b.hi).map (mulCol2 a b' c d) with
      | [] => b
      | c :: cs => hullOf c cs

/-- `Inverse()`: `Offset.Scale(-1)`, `1 / Scale`, `Scale.Recip()`, the inverse matrix. -/
def Xf1.inverse : Xf1 α → Xf1 α
  | .translate o => .translate (pscale o (-1))
  | .scale s => .scale (1 / s)
  | .vecScale v => .vecScale (precip v)
  | .matrix3 m mi => .matrix3 mi m
  | .matrix2 a b c d ia ib ic id => .matrix2 ia ib ic id a b c d

/-- `JoinedTransform.Apply` (a single transform is the one-element list). -/
def applyL (ts : List (Xf1 α)) (p : Pt α) : Pt α := ts.foldl (fun c t => t.apply c) p
/-- `JoinedTransform.ApplyBounds`. -/
def applyBoundsL (ts : List (Xf1 α)) (b : Box α) : Box α := ts.foldl (fun b t => t.applyBounds b) b
/-- `JoinedTransform.Inverse`. -/
def inverseL (ts : List (Xf1 α)) : List (Xf1 α) := (ts.map Xf1.inverse).reverse

/-- `TransformSolid(t, s)`. -/
def xformS (ts : List (Xf1 α)) (s : Solid α) : Solid α :=
  let inv := inverseL ts
  checkedS s.d3 (applyBoundsL ts s.box) (fun p => s.f (applyL inv p))

/-! ## Stacking (3D) -/

/-- The loop of `StackSolids`: each later solid is `TransformSolid(&Translate{Z(delta)}, s[i])`. -/
def stackAux : α → List (Solid α) → List (Solid α)
  | _, [] => []
  | lastMax, s :: ss =>
      let delta := lastMax - s.box.lo 2
      let t := xformS [.translate (mk3 0 0 delta)] s
      t :: stackAux (t.box.hi 2) ss

/-- `StackSolids(a, rest...)`. -/
def stackS (a : Solid α) (rest : List (Solid α)) : Solid α := joinedS a (stackAux (a.box.hi 2) rest)

/-- The loop of `StackedSolid.Max()`. -/
def stackedMax : Pt α → List (Solid α) → Pt α
  | m, [] => m
  | m, s :: ss =>
      let newMax := mk3 (s.box.hi 0) (s.box.hi 1) (s.box.hi 2 + (m 2 - s.box.lo 2))
      stackedMax (pmax m newMax) ss

/-- The loop of `StackedSolid.Contains`. -/
def stackedAny (p : Pt α) : α → List (Solid α) → Bool
  | _, [] => false
  | cz, s :: ss =>
      let delta := cz - s.box.lo 2
      s.f (mk3 (p 0) (p 1) (p 2 - delta)) || stackedAny p (s.box.hi 2 + delta) ss

/-- `StackedSolid{a, rest...}` (deprecated type). -/
def stackedS (a : Solid α) (rest : List (Solid α)) : Solid α :=
  let box : Box α := ⟨(joinedS a rest).box.lo, stackedMax a.box.hi rest⟩
  ⟨true, box, fun p => inB true box p && stackedAny p (a.box.lo 2) (a :: rest)⟩

/-! ## 2D ↔ 3D -/

/-- `ProfileSolid(solid2d, minZ, maxZ)`. -/
def profileS (s : Solid α) (minZ maxZ : α) : Solid α :=
  checkedS true ⟨mk3 (s.box.lo 0) (s.box.lo 1) minZ, mk3 (s.box.hi 0) (s.box.hi 1) maxZ⟩
    (fun p => s.f (mk3 (p 0) (p 1) 0))

/-- `to2D` of `CrossSectionSolid` / `SliceSolid`. -/
def to2D (axis : Fin 3) (c : Pt α) : Pt α :=
  if axis.val = 0 then mk3 (c 1) (c 2) 0 else if axis.val = 1 then mk3 (c 0) (c 2) 0 else mk3 (c 0) (c 1) 0
/-- `to3D`. -/
def to3D (axis : Fin 3) (v : α) (c : Pt α) : Pt α :=
  if axis.val = 0 then mk3 v (c 0) (c 1) else if axis.val = 1 then mk3 (c 0) v (c 1) else mk3 (c 0) (c 1) v

/-- `CrossSectionSolid(solid, axis, axisValue)` and `toolbox3d.SliceSolid`. -/
def crossS (s : Solid α) (axis : Fin 3) (v : α) : Solid α :=
  checkedS false ⟨to2D axis s.box.lo, to2D axis s.box.hi⟩ (fun p => s.f (to3D axis v p))

/-! ## `circleAxisBound`, cylinder / cone / torus bounds, `RevolveSolid` -/

def pnorm (sq : α → α) (a : Pt α) : α := sq (a 0 * a 0 + a 1 * a 1 + a 2 * a 2)
/-- `c.Normalize()` = `c.Scale(1 / c.Norm())`. -/
def pnormalize (sq : α → α) (a : Pt α) : Pt α := pscale a (1 / pnorm sq a)
/-- `c.ProjectOut(c1)`. -/
def projectOut (sq : α → α) (c c1 : Pt α) : Pt α :=
  let normed := pnormalize sq c1
  psub c (pscale normed (pdot normed c))
/-- the unit vector `arr[axis] = sign`. -/
def unitAx (axis : Fin 3) (sign : α) : Pt α :=
  mk3 (if axis.val = 0 then sign else 0) (if axis.val = 1 then sign else 0) (if axis.val = 2 then sign else 0)

/-- `circleAxisBound(axis, normal, sign)`. -/
def circleAxisBound (sq : α → α) (eps : α) (axis : Fin 3) (normal : Pt α) (sign : α) : α :=
  let proj := projectOut sq (unitAx axis sign) normal
  let proj := pscale proj (1 / (pnorm sq proj + eps))
  sign * (sabs (proj axis) + eps)

def cabVec (sq : α → α) (eps : α) (normal : Pt α) (sign : α) : Pt α :=
  mk3 (circleAxisBound sq eps 0 normal sign) (circleAxisBound sq eps 1 normal sign)
    (circleAxisBound sq eps 2 normal sign)

/-- `Cylinder.Min()/Max()`. -/
def cylinderBox (sq : α → α) (eps : α) (p1 p2 : Pt α) (r : α) : Box α :=
  let axis := psub p2 p1
  ⟨padd (pmin p1 p2) (pscale (cabVec sq eps axis (-1)) r), padd (pmax p1 p2) (pscale (cabVec sq eps axis 1) r)⟩

/-- `Cone.Min()/Max()`. -/
def coneBox (sq : α → α) (eps : α) (tip base : Pt α) (r : α) : Box α :=
  let axis := psub tip base
  ⟨pmin (padd (pscale (cabVec sq eps axis (-1)) r) base) tip,
   pmax (padd (pscale (cabVec sq eps axis 1) r) base) tip⟩

/-- `Torus.Min()/Max()`. -/
def torusBox (sq : α → α) (eps : α) (center axis : Pt α) (outer inner : α) : Box α :=
  let extra : Pt α := mk3 inner inner inner
  ⟨psub (padd (pscale (cabVec sq eps axis (-1)) outer) center) extra,
   padd (padd (pscale (cabVec sq eps axis 1) outer) center) extra⟩

/-- `RevolveSolid(solid, axis)`. -/
def revolveS (sq : α → α) (eps : α) (s : Solid α) (axis0 : Pt α) : Solid α :=
  let axis := pnormalize sq axis0
  let maxRadius := smax (sabs (s.box.lo 0)) (sabs (s.box.hi 0))
  let box := cylinderBox sq eps (pscale axis (s.box.lo 1)) (pscale axis (s.box.hi 1)) maxRadius
  checkedS true box (fun c =>
    let x := pnorm sq (projectOut sq c axis)
    let y := pdot axis c
    s.f (mk3 x y 0))

/-! ## Primitive leaves with closed forms -/

/-- `Rect` (2D and 3D). -/
def rectS (d3 : Bool) (lo hi : Pt α) : Solid α := ⟨d3, ⟨lo, hi⟩, fun p => inB d3 ⟨lo, hi⟩ p⟩

def distSq (d3 : Bool) (a b : Pt α) : α :=
  let d1 := a 0 - b 0
  let d2 := a 1 - b 1
  let d3v := a 2 - b 2
  if d3 then d1 * d1 + d2 * d2 + d3v * d3v else d1 * d1 + d2 * d2

/-- `Sphere` / `Circle`: bounds `Center.AddScalar(∓Radius)`; `Contains` is `coord.Dist(center) <= radius`,
written without the square root (`sphere_contains_sq_iff`: equal for every `sqrt`). -/
def sphereS (d3 : Bool) (c : Pt α) (r : α) : Solid α :=
  ⟨d3, ⟨paddS c (-r), paddS c r⟩, fun p => decide ((0 : α) ≤ r) && decide (distSq d3 p c ≤ r * r)⟩

/-- `Sphere.Contains` as written (with the square root). -/
def sphereContainsSqrt (sq : α → α) (d3 : Bool) (c : Pt α) (r : α) (p : Pt α) : Bool :=
  decide (sq (distSq d3 p c) ≤ r)

/-- `Capsule.Min()/Max()`. -/
def capsuleBox (p1 p2 : Pt α) (r : α) : Box α := ⟨paddS (pmin p1 p2) (-r), paddS (pmax p1 p2) r⟩

/-- `ConvexPolytope.Contains`: every `c.Dot(l.Normal) <= l.Max`. -/
def polyContains (cs : List (Pt α × α)) (p : Pt α) : Bool := cs.all fun l => decide (pdot p l.1 ≤ l.2)

/-- `polytopeSolid` (box = bounds of `Mesh()`, passed in). -/
def polytopeS (d3 : Bool) (box : Box α) (cs : List (Pt α × α)) : Solid α :=
  ⟨d3, box, fun p => inB d3 box p && polyContains cs p⟩

/-! ## SDF-, collider- and metaball-derived solids -/

/-- `SDFToSolid(s, outset)`. -/
def sdfS (s : SDFL α) (outset : α) : Solid α :=
  checkedS s.d3 (boxGrow s.box outset) (fun p => decide (-outset < s.d p))

/-- bounds loop shared by `SmoothJoin`, `MetaballSolid`. -/
def unionBoxes (first : Box α) (rest : List (Box α)) : Box α := rest.foldl boxUnion first

/-- The per-operand update of `closestDists` in `SmoothJoin` (`none` = `-Inf`); `i` is the index. -/
def smoothStep (i : Nat) (cd : Option α × Option α) (d : α) : Option α × Option α :=
  if i = 0 then (some d, cd.2)
  else if i = 1 then
    match cd.1 with
    | some d0 => if d0 < d then (some d, some d0) else (cd.1, some d)
    | none => (some d, none)
  else
    match cd.1 with
    | none => (some d, cd.1)
    | some d0 =>
      if d0 ≤ d then (some d, cd.1)
      else match cd.2 with
        | none => (cd.1, some d)
        | some d1 => if d1 < d then (cd.1, some d) else cd

/-- The loop over the SDF values (early `return true` when `d > 0`): `none` = returned `true`. -/
def smoothLoop : Nat → Option α × Option α → List α → Option (Option α × Option α)
  | _, cd, [] => some cd
  | i, cd, d :: ds => if (0 : α) < d then none else smoothLoop (i + 1) (smoothStep i cd d) ds

/-- `math.Max(0, x + radius)` with `x = -Inf` ↦ `0`. -/
def smoothTerm (r : α) : Option α → α
  | none => 0
  | some x => smax 0 (x + r)

/-- The closure of `SmoothJoin` on the list of SDF values at the query point. -/
def smoothPred (r : α) (ds : List α) : Bool :=
  match smoothLoop 0 (none, none) ds with
  | none => true
  | some cd =>
    let d1 := smoothTerm r cd.1
    let d2 := smoothTerm r cd.2
    decide (r * r < d1 * d1 + d2 * d2)

/-- `SmoothJoin(radius, first, rest...)`. -/
def smoothS (r : α) (first : SDFL α) (rest : List (SDFL α)) : Solid α :=
  checkedS first.d3 (boxGrow (unionBoxes first.box (rest.map (·.box))) r)
    (fun p => smoothPred r ((first :: rest).map (fun s => s.d p)))

/-- `ColliderContains(c, coord, margin)`. -/
def colliderContains (c : ColL α) (p : Pt α) (margin : α) : Bool :=
  if !(c.inside p) then
    (if margin < 0 then c.sphere p (-margin) else false)
  else (decide (margin ≤ 0) || !(c.sphere p margin))

/-- `NewColliderSolidInset(c, inset)` (`inset = 0`: `NewColliderSolid`). -/
def insetS (c : ColL α) (inset : α) : Solid α :=
  let v : Pt α := mk3 inset inset inset
  let lo := padd c.box.lo v
  let hi := pmax lo (psub c.box.hi v)
  ⟨c.d3, ⟨lo, hi⟩, fun p => inB c.d3 ⟨lo, hi⟩ p && colliderContains c p inset⟩

/-- `NewColliderSolidHollow(c, r)`; `radius != 0` selects `SphereCollision`. -/
def hollowS (c : ColL α) (r : α) : Solid α :=
  let v : Pt α := mk3 r r r
  let box : Box α := ⟨psub c.box.lo v, padd c.box.hi v⟩
  ⟨c.d3, box, fun p => inB c.d3 box p &&
    (if r < 0 ∨ 0 < r then c.sphere p r else colliderContains c p 0)⟩

/-- `valueForOutset(x)`: `sum += f(mb.MetaballDistBound(x))`. -/
def valueForOutset (fall : α → α) (ms : List (MBL α)) (x : α) : α :=
  ms.foldl (fun sum m => sum + fall (m.distBound x)) 0

/-- Exponential growth (at most `k` doublings, `break` on the first non-exceeding value). -/
def mbGrow (v : α → α) (thr : α) : Nat → α → α
  | 0, mo => mo
  | k + 1, mo => if thr < v mo then mbGrow v thr k (mo * (1 + 1)) else mo

/-- Binary search (`k` steps); returns `maxOutset`. -/
def mbBisect (v : α → α) (thr : α) : Nat → α → α → α
  | 0, _, hi => hi
  | k + 1, lo, hi =>
      let mid := (lo + hi) / (1 + 1)
      if thr < v mid then mbBisect v thr k mid hi else mbBisect v thr k lo mid

/-- The outset `MetaballSolid` settles on; `none` = `panic("could not find maximum outset")`.
`diag` is `max.Dist(min)`, `tiny` the literal `1e-8`. -/
def mbOutset (v : α → α) (thr diag tiny : α) : Option α :=
  let mo := mbGrow v thr 32 diag
  if thr < v mo then none else some (mbBisect v thr 32 (diag * tiny) mo)

/-- `MetaballSolid(f, radiusThreshold, first, rest...)` given the outset found. -/
def metaballS (fall : α → α) (rt : α) (outset : α) (first : MBL α) (rest : List (MBL α)) : Solid α :=
  checkedS first.d3 (boxGrow (unionBoxes first.box (rest.map (·.box))) outset)
    (fun p => decide (fall rt < (first :: rest).foldl (fun sum m => sum + fall (m.field p)) 0))

/-- `max.Dist(min)` -/
def boxDiag (sq : α → α) (d3 : Bool) (b : Box α) : α := sq (distSq d3 b.hi b.lo)

/-! ## toolbox3d -/

/-- `ClampAxis(s, axis, min, max)`; `none` = `∓Inf` (`ClampAxisMax/Min`). -/
def clampS (s : Solid α) (axis : Fin 3) (mn mx : Option α) : Solid α :=
  let newLoV := match mn with | none => s.box.lo axis | some m => smax m (s.box.lo axis)
  let newHiV := match mx with | none => s.box.hi axis | some m => smin m (s.box.hi axis)
  let newLo := pset s.box.lo axis newLoV
  let newHi := pset s.box.hi axis newHiV
  if newHiV < newLoV then
    let center := pscale (padd newLo newHi) (1 / (1 + 1))
    checkedS s.d3 ⟨center, center⟩ (fun _ => false)
  else checkedS s.d3 ⟨newLo, newHi⟩ s.f

/-- `rectSetSolid`. -/
inductive RectTree (α : Type) where
  | empty
  | single (lo hi : Pt α)
  | node (box : Box α) (axis : Fin 3) (cutoff : α) (below above : RectTree α)

def RectTree.box : RectTree α → Box α
  | .empty => ⟨mk3 0 0 0, mk3 0 0 0⟩
  | .single lo hi => ⟨lo, hi⟩
  | .node b _ _ _ _ => b

def RectTree.contains : RectTree α → Pt α → Bool
  | .empty, _ => false
  | .single lo hi, p => inB true ⟨lo, hi⟩ p
  | .node b axis cutoff below above, p =>
      inB true b p &&
        (if p axis < cutoff then below.contains p
         else if cutoff < p axis then above.contains p
         else below.contains p || above.contains p)

def rectSetS (t : RectTree α) : Solid α := ⟨true, t.box, t.contains⟩

/-- `heightMapSolid`: `InBounds(h, c) && h.heightMap.HigherAt(c.XY(), |c.Z|)`; `higher` is the callback. -/
def heightMapS (lo2 hi2 : Pt α) (minH maxH : α) (higher : Pt α → Bool) : Solid α :=
  checkedS true ⟨mk3 (lo2 0) (lo2 1) minH, mk3 (hi2 0) (hi2 1) maxH⟩ higher

/-- `Ramp.Contains` given the wrapped solid (`scale`/`norm` arithmetic as in the code). -/
def rampContains (s : Solid α) (p1 p2 c : Pt α) : Bool :=
  let axis := psub p2 p1
  let v := psub c p1
  let scale := pdot axis v
  if scale < 0 then false
  else
    let nn := axis 0 * axis 0 + axis 1 * axis 1 + axis 2 * axis 2
    let scale := scale / nn
    if 1 ≤ scale then s.f c
    else s.f (padd (padd (pscale (psub v (pscale axis scale)) (1 / scale)) (pscale axis scale)) p1)

/-- `toolbox3d.Ramp{Solid: s, P1, P2}`: `Min/Max` of the repaired code include the axis end points
(`r.Solid.Min().Min(r.P1).Min(r.P2)`). -/
def rampS (s : Solid α) (p1 p2 : Pt α) : Solid α :=
  ⟨true, ⟨pmin (pmin s.box.lo p1) p2, pmax (pmax s.box.hi p1) p2⟩, rampContains s p1 p2⟩

/-! ## The deep embedding -/

inductive SolidExpr (α : Type) where
  /-- an opaque leaf (any `Solid` implementation: `FuncSolid`, a primitive, a toolbox part) -/
  | prim (s : Solid α)
  /-- `ForceSolidBounds(e, min, max)` = `CheckedFuncSolid(min, max, e.Contains)` -/
  | checked (box : Box α) (e : SolidExpr α)
  /-- `CacheSolidBounds(e)` -/
  | cache (e : SolidExpr α)
  | joined (a : SolidExpr α) (rest : List (SolidExpr α))
  | inter (a : SolidExpr α) (rest : List (SolidExpr α))
  | sub (pos neg : SolidExpr α)
  /-- `StackSolids` -/
  | stack (a : SolidExpr α) (rest : List (SolidExpr α))
  /-- `StackedSolid` -/
  | stacked (a : SolidExpr α) (rest : List (SolidExpr α))
  /-- `TransformSolid` with a `JoinedTransform` (singleton = plain transform) -/
  | xform (ts : List (Xf1 α)) (e : SolidExpr α)
  | profile (e : SolidExpr α) (minZ maxZ : α)
  /-- `CrossSectionSolid` / `SliceSolid` -/
  | cross (e : SolidExpr α) (axis : Fin 3) (v : α)
  | revolve (e : SolidExpr α) (axis : Pt α)
  | clamp (e : SolidExpr α) (axis : Fin 3) (mn mx : Option α)
  | sdf (s : SDFL α) (outset : α)
  | smooth (r : α) (first : SDFL α) (rest : List (SDFL α))
  | inset (c : ColL α) (inset : α)
  | hollow (c : ColL α) (r : α)
  /-- `MetaballSolid`, given the outset the search settled on -/
  | metaball (fall : α → α) (rt outset : α) (first : MBL α) (rest : List (MBL α))
  | polytope (d3 : Bool) (box : Box α) (cs : List (Pt α × α))
  | rectSet (t : RectTree α)
  | heightMap (lo2 hi2 : Pt α) (minH maxH : α) (higher : Pt α → Bool)

mutual
/-- The `Solid` an expression denotes: its `Min()/Max()` and `Contains`. -/
def SolidExpr.eval (sq : α → α) (eps : α) : SolidExpr α → Solid α
  | .prim s => s
  | .checked box e => forceS (e.eval sq eps) box
  | .cache e => cacheS (e.eval sq eps)
  | .joined a rest => joinedS (a.eval sq eps) (evalL sq eps rest)
  | .inter a rest => interS (a.eval sq eps) (evalL sq eps rest)
  | .sub p n => subS (p.eval sq eps) (n.eval sq eps)
  | .stack a rest => stackS (a.eval sq eps) (evalL sq eps rest)
  | .stacked a rest => stackedS (a.eval sq eps) (evalL sq eps rest)
  | .xform ts e => xformS ts (e.eval sq eps)
  | .profile e minZ maxZ => profileS (e.eval sq eps) minZ maxZ
  | .cross e axis v => crossS (e.eval sq eps) axis v
  | .revolve e axis => revolveS sq eps (e.eval sq eps) axis
  | .clamp e axis mn mx => clampS (e.eval sq eps) axis mn mx
  | .sdf s outset => sdfS s outset
  | .smooth r first rest => smoothS r first rest
  | .inset c i => insetS c i
  | .hollow c r => hollowS c r
  | .metaball fall rt outset first rest => metaballS fall rt outset first rest
  | .polytope d3 box cs => polytopeS d3 box cs
  | .rectSet t => rectSetS t
  | .heightMap lo2 hi2 minH maxH higher => heightMapS lo2 hi2 minH maxH higher
def evalL (sq : α → α) (eps : α) : List (SolidExpr α) → List (Solid α)
  | [] => []
  | e :: es => e.eval sq eps :: evalL sq eps es
end

/-- `Min()/Max()` of the expression. -/
def SolidExpr.bounds (sq : α → α) (eps : α) (e : SolidExpr α) : Box α := (e.eval sq eps).box
/-- `Contains` of the expression. -/
def SolidExpr.contains (sq : α → α) (eps : α) (e : SolidExpr α) (p : Pt α) : Bool := (e.eval sq eps).f p

end Ops

end M3d.Bd
