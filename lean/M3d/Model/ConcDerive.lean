import M3d.Model.ConcIter
/-!
# Deriving a structure from a shared one while it is queried (C13; core Lean only)

`JoinedSolid.Optimize()` (model3d, model2d) "creates a version of the solid": for the caller it
is a read-only use of the union `j`, like `Contains`, `Min` or `Max`.  A `JoinedSolid` is a
slice: the value receiver of a method shares the backing array with the caller's solid.

* `j.Contains(c)` is `for _, s := range j { if s.Contains(c) { return true } }`: the reader loads
  the parts from the shared array **one by one**, and between two loads it is inside the
  `Contains` of a part — user code, for any time (`unionVisits`: `read PARTS; tau; rmw ANS`).
* `j.Optimize()` as the library has it copies the slice (`grouped := append([]Solid{}, j...)`),
  groups **the copy** (`GroupBounders(grouped)`: a permutation) and builds the hierarchy from
  it (`optimizeThread grp (UCOPY t)`: `read PARTS; writeF COPY grp; tau; read COPY`) — the
  staged query again, the staging area being the call's own copy.
* `optimizeInPlaceThread` is the shape `GroupBounders(j)`: the permutation is written into the
  shared array itself.

As in `iterLocalProg` a list is ONE cell: `s` is the part list, `grp s` the grouped list,
`nth l j` its `j`-th part, and `acc a part` folds the answer of a part into the reader's
answer (`a || part.Contains(c)` for `Contains`, `a.Min(part.Min())` for `Min`); all of these are
parameters of the theorems.
-/
namespace M3d.Conc

/-- The backing array of the union's part list (shared; not written by read-only use). -/
def PARTS : Loc := STRUCT
/-- The grouped copy that belongs to the `Optimize` call of goroutine `t`. -/
def UCOPY (t : Tid) : Loc := ILIST t
/-- The answer accumulated so far by the `Contains` / `Min` / `Max` call of goroutine `t`. -/
def UANS (t : Tid) : Loc := ILOG t

/-- `for _, s := range j { … s.Contains(c) … }`: for every position `k` load the `k`-th part
from the list, call it (user code), fold its answer into the call's answer. -/
def unionVisits (nth : Val → Nat → Val) (acc : Val → Val → Val) (list ans : Loc) : List Nat → List Step
  | [] => []
  | k :: ks =>
      .read list :: .tau :: .rmw ans (fun a l => acc a (nth l k)) :: unionVisits nth acc list ans ks

/-- A query of the union with `n` parts by goroutine `t`. -/
def unionQueryThread (nth : Val → Nat → Val) (acc : Val → Val → Val) (n : Nat) (ans : Loc) : List Step :=
  unionVisits nth acc PARTS ans (List.range n)

/-- `Optimize()` as the library has it: group a copy that belongs to the call. -/
def optimizeThread (grp : Val → Val) (copy : Loc) : List Step :=
  [ .read PARTS,        -- 0  grouped := append([]Solid{}, j...)
    .writeF copy grp,   -- 1  GroupBounders(grouped)
    .tau,               -- 2  groupedSolidsToSolid: Min() / Max() of the parts (user code)
    .read copy ]        -- 3  the hierarchy is built from the grouped copy

/-- `Optimize()` grouping the receiver's own slice: `GroupBounders(j)`. -/
def optimizeInPlaceThread (grp : Val → Val) : List Step :=
  [ .read PARTS,
    .writeF PARTS grp,  -- GroupBounders(j): the permutation is stored into the shared array
    .tau,
    .read PARTS ]

/-- Any number of goroutines using one union: goroutine `t` derives an optimized solid with the
grouping `g` when `grp t = some g`, and otherwise runs a query that folds the parts' answers
with `acc t` (its query point is part of `acc t`). -/
def unionProg (grp : Tid → Option (Val → Val)) (nth : Val → Nat → Val) (acc : Tid → Val → Val → Val)
    (n : Nat) : Program :=
  fun t => match grp t with
    | none => unionQueryThread nth (acc t) n (UANS t)
    | some g => optimizeThread g (UCOPY t)

/-- The same with `Optimize()` grouping the shared array in place. -/
def unionInPlaceProg (grp : Tid → Option (Val → Val)) (nth : Val → Nat → Val) (acc : Tid → Val → Val → Val)
    (n : Nat) : Program :=
  fun t => match grp t with
    | none => unionQueryThread nth (acc t) n (UANS t)
    | some g => optimizeInPlaceThread g

/-! Concrete instance for the witnesses: three parts with ids 1 … 9 (a list is the decimal number
with these digits, `nth3`); the query point lies in part `1` only; grouping reverses the list. -/
def accIn1 (a part : Val) : Val := if part = 1 then 1 else a

end M3d.Conc
