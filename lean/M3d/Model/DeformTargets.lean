import M3d.Model.Surface
/-!
# What a deformation that meets its positional constraints leaves visible in its output (C10)

Core Lean only.  `ARAP.Deform` / `SeqDeformer` return `coordsToMesh(s)`: the triangles of the
original mesh with every vertex `v` replaced by its new position `s[v]` — on id soups
`relabel f inp`.  A constraint `k ↦ t` (vertex id ↦ id of the target coordinate) is met iff
`f k = t`.  The two deciders below are necessary conditions that can be evaluated on the real
output mesh alone (a `*Mesh` does not remember which output triangle came from which input one).
-/
namespace M3d.Surface

/-- The number of faces at a vertex (size of its star). -/
def starSize (v : Nat) (ts : List Tri) : Nat := ts.countP (fun t => (triVerts t).contains v)

/-- Every target of a constrained mesh vertex is a vertex of the output. -/
def targetsVisible (cons : List (Nat × Nat)) (inp out : List Tri) : Bool :=
  cons.all fun kp => !(vertsAll inp).contains kp.1 || (vertsAll out).contains kp.2

/-- The target of a constrained vertex carries as many faces as the vertex did. -/
def starsAgree (cons : List (Nat × Nat)) (inp out : List Tri) : Bool :=
  cons.all fun kp => !(vertsAll inp).contains kp.1 || starSize kp.2 out == starSize kp.1 inp

end M3d.Surface
