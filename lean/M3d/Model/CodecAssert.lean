import M3d.Model.CodecMesh
/-!
# `readColorPLY` with every Go type assertion and index made explicit (model3d/import.go)

After the header loop of `readColorPLY` accepted a header, the row loop trusts it: every value of a
`vertex` row is type-asserted without a check (`value.(fileformats.PLYValueUint8)`,
`value.(fileformats.PLYValueFloat32)`), `values[0]` of a `face` row is asserted to be a `PLYValueList`
whose length is a `PLYValueUint8` and whose entries `Values[0..2]` are `PLYValueInt32`, and the final loop
indexes `vertices[t[i]]`.  A failed assertion or an index out of range is a run-time panic.  `Chk` makes that
outcome a value; the header tests (`IsStandardVertex`, `IsStandardFace`) are parameters so that a weaker
validation (seeded change C16-10: the `LenType` half of the vertex test lost) can be stated.

`readColorPLY` (M3d/Model/CodecMesh.lean, what the driver evaluates for the kind `plyc`) has none of these
failure points: it is proved equal to `readColorPLYGo` with the repository's tests
(`M3d/Lemmas/CodecAssert.lean`), i.e. the header validation implies every assertion the row loop makes.
-/
namespace M3d.Codec

/-- a Go expression that may panic -/
inductive Chk (α : Type)
  | panic
  | ret (a : α)
  deriving Repr, DecidableEq

/-- `value.(T).Value` for the scalar value type `T` of kind `k` -/
def assertKind (k : Kind) : PVal → Chk Nat
  | .one s => if s.kind = k then .ret s.bits else .panic
  | .list _ _ => .panic

/-! ## what the reader guarantees about a row: it has the shape its element declares -/

/-- a value has the dynamic type its property declares: a scalar of the declared kind, or a list whose
length value has the declared length kind, whose entries all have the declared kind and are exactly as many
as the length says (`decodeInstance` reads `intLen` entries) -/
def valTyped (p : PProp) : PVal → Bool
  | .one s => p.lenType.isNone && decide (s.kind = p.elemType.kind)
  | .list l xs =>
    match p.lenType with
    | none => false
    | some lt => decide (l.kind = lt.kind) && decide (lengthValue l = some (xs.length : Int)) &&
        xs.all fun x => decide (x.kind = p.elemType.kind)

/-- a row has one value per property, each of the declared shape -/
def rowTyped : List PProp → List PVal → Bool
  | [], [] => true
  | p :: ps, v :: vs => valTyped p v && rowTyped ps vs
  | _, _ => false

/-! ## the header tests as predicates of one property -/

/-- the value type the row loop asserts for a vertex property of this name (`switch element.Properties[i].Name`) -/
def stdVertexKind (n : Bytes) : Option Kind :=
  if n = ascii "x" || n = ascii "y" || n = ascii "z" then some .f32
  else if n = ascii "red" || n = ascii "green" || n = ascii "blue" then some .u8
  else none

/-- `IsStandardVertex` as the seeded change C16-10 leaves it: the helper `hasElemType` only compares
`ElemType`, the `LenType != PLYPropertyTypeNone` half of both conditions is gone. -/
def isStandardVertexElemOnly (el : Element) : Bool :=
  el.name = ascii "vertex" && el.props.length = 6 &&
  el.props.all fun p =>
    match stdVertexKind p.name with
    | some k => decide (p.elemType.kind = k)
    | none => false

/-- a `vertex` element with the six standard names and element types whose `red` is declared
`property list uchar uchar red`: the header seeded change C16-10 accepts -/
def listRedVertex : Element :=
  ⟨ascii "vertex", 1,
    [⟨none, ⟨.f32, false⟩, ascii "x"⟩, ⟨none, ⟨.f32, false⟩, ascii "y"⟩, ⟨none, ⟨.f32, false⟩, ascii "z"⟩,
     ⟨some ⟨.u8, false⟩, ⟨.u8, false⟩, ascii "red"⟩, ⟨none, ⟨.u8, false⟩, ascii "green"⟩, ⟨none, ⟨.u8, false⟩, ascii "blue"⟩]⟩

/-- the header loop of `readColorPLY` with the two tests as parameters -/
def colorHeaderOKWith (vtest ftest : Element → Bool) (h : Header) : Bool :=
  h.elements.all (fun el => !el.props.isEmpty) &&
  h.elements.all (fun el =>
    if el.name = ascii "vertex" then vtest el
    else if el.name = ascii "face" then ftest el else true) &&
  h.elements.any (fun el => el.name = ascii "face") &&
  h.elements.any (fun el => el.name = ascii "vertex")

/-! ## the row loop -/

/-- the `vertex` branch: `for i, value := range values { switch element.Properties[i].Name { case "red": r =
value.(PLYValueUint8).Value … } }`.  The six local variables are a function of the property name; a name
outside the six is skipped; `Properties[i]` past the property list is an index panic. -/
def vertexRowGo : List PProp → List PVal → (Bytes → Nat) → Chk (Bytes → Nat)
  | _, [], st => .ret st
  | [], _ :: _, _ => .panic
  | p :: ps, v :: vs, st =>
    match stdVertexKind p.name with
    | none => vertexRowGo ps vs st
    | some k =>
      match assertKind k v with
      | .panic => .panic
      | .ret b => vertexRowGo ps vs (fun n => if n = p.name then b else st n)

/-- the `face` branch: `val := values[0].(PLYValueList)`; `val.Length.(PLYValueUint8).Value != 3` is the
"expected triangles" error (`ret none`); then `val.Values[0..2].(PLYValueInt32).Value`. -/
def faceRowGo (vals : List PVal) : Chk (Option (List Int)) :=
  match vals with
  | [] => .panic
  | .one _ :: _ => .panic
  | .list l xs :: _ =>
    if l.kind ≠ .u8 then .panic
    else if l.bits ≠ 3 then .ret none
    else
      match xs with
      | a :: b :: c :: _ =>
        if a.kind = .i32 ∧ b.kind = .i32 ∧ c.kind = .i32 then
          .ret (some [ofBitsSigned 4 a.bits, ofBitsSigned 4 b.bits, ofBitsSigned 4 c.bits])
        else .panic
      | _ => .panic

/-- the row loop of `readColorPLY` over the rows the reader returned (`collectRows` with the assertions) -/
def collectRowsGo (els : List Element) : List (Nat × List PVal) → ColorMesh → Chk (Option ColorMesh)
  | [], m => .ret (some m)
  | (i, vals) :: rows, m =>
    match els[i]? with
    | none => .ret none
    | some el =>
      if el.name = ascii "face" then
        match faceRowGo vals with
        | .panic => .panic
        | .ret none => .ret none
        | .ret (some t) => collectRowsGo els rows { m with tris := m.tris ++ [t] }
      else if el.name = ascii "vertex" then
        match vertexRowGo el.props vals (fun _ => 0) with
        | .panic => .panic
        | .ret g =>
          collectRowsGo els rows { m with
            verts := m.verts ++ [(UInt32.ofNat (g (ascii "x")), UInt32.ofNat (g (ascii "y")), UInt32.ofNat (g (ascii "z")))],
            colors := m.colors ++ [(g (ascii "red"), g (ascii "green"), g (ascii "blue"))] }
      else collectRowsGo els rows m

/-! ## the final loop: `vertices[t[i]]` -/

/-- `vertices[v]` -/
def vertexAtGo {β : Type} (verts : List β) (v : Int) : Chk β :=
  if v < 0 then .panic
  else match verts[v.toNat]? with
    | some p => .ret p
    | none => .panic

def cornersGo {β : Type} (verts : List β) : List Int → Chk (List β)
  | [] => .ret []
  | v :: vs =>
    match vertexAtGo verts v with
    | .panic => .panic
    | .ret p =>
      match cornersGo verts vs with
      | .panic => .panic
      | .ret ps => .ret (p :: ps)

/-- `for i, t := range triangles { for _, v := range t { if v < 0 || v >= len(vertices) { return error } };
tris[i] = &Triangle{vertices[t[0]], vertices[t[1]], vertices[t[2]]} }`; `ret none` = "vertex out of bounds". -/
def buildTrisGo {β : Type} (verts : List β) : List (List Int) → Chk (Option (List (List β)))
  | [] => .ret (some [])
  | t :: ts =>
    if t.all (fun v => decide (0 ≤ v) && decide (v < (verts.length : Int))) then
      match cornersGo verts t with
      | .panic => .panic
      | .ret ps =>
        match buildTrisGo verts ts with
        | .panic => .panic
        | .ret none => .ret none
        | .ret (some r) => .ret (some (ps :: r))
    else .ret none

/-- `model3d.ReadColorPLY` with every assertion and index explicit, for given header tests.  A panic in a row
precedes a reader error in a later row (the loop processes a row before it reads the next one). -/
def readColorPLYGo (vtest ftest : Element → Bool) (ft : FloatText) (bs : Bytes) : Chk (Except PErr ColorResult) :=
  match plyOpen bs with
  | .error e => .ret (.error e)
  | .ok (h, rest) =>
    if !colorHeaderOKWith vtest ftest h then .ret (.error .bad)
    else
      let r := readElems ft h.format 0 h.elements rest
      match collectRowsGo h.elements r.rows ⟨[], [], []⟩ with
      | .panic => .panic
      | .ret none => .ret (.error .bad)
      | .ret (some m) =>
        match r.err with
        | some e => .ret (.error e)
        | none =>
          match buildTrisGo m.verts m.tris with
          | .panic => .panic
          | .ret none => .ret (.error .bad)
          | .ret (some ts) => .ret (.ok ⟨ts, m.verts, m.colors⟩)

/-! ## `OFFReader.ReadFace`: `poly[i] = o.vertices[idx]` (fileformats/off.go) -/

/-- one corner of a face line: `idx, err := strconv.Atoi(tok); if err != nil || idx < 0 || idx >= bound { return
error }; poly[i] = o.vertices[idx]`, with the bound the code compares against as a parameter (the repository:
`len(o.vertices)`; seeded change C16-11: the declared `o.numVerts`).  `ret none` = the "invalid vertex index" error. -/
def offCornerGo (verts : List V3) (bound : Nat) (tok : Bytes) : Chk (Option V3) :=
  match parseIntN 64 tok with
  | none => .ret none
  | some i =>
    if 0 ≤ i ∧ i < (bound : Int) then
      match verts[i.toNat]? with
      | some v => .ret (some v)
      | none => .panic
    else .ret none

/-- `readVertices` as the seeded change C16-11 leaves it: a line without tokens or starting with `#` is skipped
with `continue` *inside* `for i := 0; i < o.numVerts; i++`, so it still uses up one of the declared slots. -/
def offReadVertsSkipping (pf64 : Bytes → Option UInt64) : Nat → Bytes → Option (List V3 × Bytes)
  | 0, bs => some ([], bs)
  | n+1, bs =>
    match readLine bs with
    | (_, _, false) => none
    | (ln, rest, true) =>
      match fields ln with
      | [] => offReadVertsSkipping pf64 n rest
      | t :: ts =>
        if (ascii "#").isPrefixOf t then offReadVertsSkipping pf64 n rest
        else
          match (t :: ts).mapM pf64 with
          | some [x, y, z] =>
            match offReadVertsSkipping pf64 n rest with
            | some (vs, r) => some ((x, y, z) :: vs, r)
            | none => none
          | _ => none

/-! ## `readSTL`: the clamp of the pre-allocation (model3d/import.go) -/

/-- `capacity := int(NumTriangles()); if capacity > maxImportPrealloc { capacity = maxImportPrealloc }` -/
def stlPrealloc (n : Nat) : Nat := min n stlMaxPrealloc

/-- the clamp "in bytes of file data" of seeded change C16-12, in unbounded arithmetic: correct … -/
def stlPreallocBytes (n : Nat) : Nat := if n * 50 > 4 * 2 ^ 20 then 4 * 2 ^ 20 / 50 else n

/-- … and as the code computes it: `numTris*stlTriangleSize` is a `uint32` product and wraps. -/
def stlPreallocWrapped (n : Nat) : Nat := if n * 50 % 2 ^ 32 > 4 * 2 ^ 20 then 4 * 2 ^ 20 / 50 else n

/-! ## `STLReader.readASCII`: `vertices[vertexIndex]` and `line[len(line)-3:]` (fileformats/stl.go) -/

/-- `parseSTLVector(tokens)`: the slice expression `line[len(line)-3:]` panics for fewer than three tokens -/
def stlParseVecGo (pf32 : Bytes → Option UInt32) (toks : List Bytes) : Chk (Option (List UInt32)) :=
  if toks.length < 3 then .panic else .ret ((toks.drop (toks.length - 3)).mapM pf32)

/-- `stlAsciiLoop` with the two run-time checks of `readASCII` explicit.  `vertexIndex` is `verts.length / 3`
(three words per stored vertex); `vertices` is a `[3][3]float32`, so `vertices[vertexIndex], err =
parseSTLVector(tokens)` panics for `vertexIndex ≥ 3` whatever the parser returns.  `guard` = the test
`else if vertexIndex == 3 { return … "more than three vertices in a facet" }` is present (the repository; seeded
change C16-1 is `guard = false`). -/
def stlAsciiLoopGo (guard : Bool) (pf32 : Bytes → Option UInt32) (bs : Bytes) (normal verts : List UInt32)
    (acc : List Rec) : Chk (Except Err (List Rec)) :=
  match h : readLine bs with
  | (line, rest, found) =>
    if hf : found = false then
      if tokEndsolid.isPrefixOf (trimLeftAux line.length line) then .ret (.ok acc.reverse)
      else .ret (.error .unexpectedEOF)
    else
      have hlt : rest.length < bs.length := by
        have hf' : found = true := by simpa using hf
        subst hf'
        exact readLine_rest_lt bs line rest true h (readLine_found_ne_nil bs line rest h)
      let toks := fields line
      match toks with
      | [] => stlAsciiLoopGo guard pf32 rest normal verts acc
      | t0 :: _ =>
        if t0 = tokEndsolid then .ret (.ok acc.reverse)
        else if t0 = tokEndfacet then
          if verts.length = 9 then stlAsciiLoopGo guard pf32 rest [0, 0, 0] [] ((normal ++ verts) :: acc)
          else .ret (.error .bad)
        else if t0 = tokFacet then
          if toks.length ≠ 5 then .ret (.error .bad)
          else match stlParseVecGo pf32 toks with
            | .panic => .panic
            | .ret none => .ret (.error .bad)
            | .ret (some n) => stlAsciiLoopGo guard pf32 rest n verts acc
        else if t0 = tokVertex then
          if toks.length ≠ 4 then .ret (.error .bad)
          else if guard && verts.length = 9 then .ret (.error .bad)
          else if verts.length / 3 < 3 then
            match stlParseVecGo pf32 toks with
            | .panic => .panic
            | .ret none => .ret (.error .bad)
            | .ret (some v) => stlAsciiLoopGo guard pf32 rest normal (verts ++ v) acc
          else .panic
        else stlAsciiLoopGo guard pf32 rest normal verts acc
termination_by bs.length

end M3d.Codec
