import M3d.Model.Collide
import M3d.Model.Transform
import M3d.Model.Transform2
/-!
# C07 — ball / circle queries of `transformedCollider`, of `Sphere` / `Circle`, and of `JoinedCollider`

Core Lean only, generic scalar (same conventions as `M3d/Model/Collide.lean`).

The transforms themselves are the model of `model3d/transform.go` / `model2d/transform.go` that C05 uses
(`M3d.Tf.Xf`, `M3d.Tf.Xf2`: `Translate | Scale | orthoMatrix…Transform | JoinedTransform`, with `Apply`,
`Inverse`, `ApplyDistance` transcribed there and tied to the Go code by C05's correspondence); here they are
applied to the vectors of the collider model (`M3d.Col.V3`, `M3d.Col.V2`).
-/
namespace M3d.Col

section Conv
variable {α : Type}

def V3.toTf (p : V3 α) : Tf.V3 α := ⟨p.x, p.y, p.z⟩
def V3.ofTf (p : Tf.V3 α) : V3 α := ⟨p.x, p.y, p.z⟩
def V2.toTf (p : V2 α) : Tf.V2 α := ⟨p.x, p.y⟩
def V2.ofTf (p : Tf.V2 α) : V2 α := ⟨p.x, p.y⟩

end Conv

section XfBall
variable {α : Type} [Add α] [Sub α] [Mul α] [Div α] [Neg α] [LT α] [LE α] [DecidableLT α] [DecidableLE α]
  [OfNat α 0] [OfNat α 1]

/-- `t.Apply(p)` (3-D). -/
def xfApply (t : Tf.Xf α) (p : V3 α) : V3 α := V3.ofTf (t.apply p.toTf)

/-- `t.Apply(p)` (2-D). -/
def xf2Apply (t : Tf.Xf2 α) (p : V2 α) : V2 α := V2.ofTf (t.apply p.toTf)

/-- `transformedCollider.SphereCollision` (model3d):
`t.c.SphereCollision(t.inv.Apply(c), t.inv.ApplyDistance(r))`; `sphere` is the wrapped collider's
`SphereCollision`, `t.inv = t.Inverse()` as stored by `TransformCollider`. -/
def tSphere (t : Tf.Xf α) (sphere : V3 α → α → Bool) (c : V3 α) (r : α) : Bool :=
  sphere (xfApply t.inverse c) (t.inverse.applyDistance r)

/-- `transformedCollider.CircleCollision` (model2d). -/
def tCircle (t : Tf.Xf2 α) (circle : V2 α → α → Bool) (c : V2 α) (r : α) : Bool :=
  circle (xf2Apply t.inverse c) (t.inverse.applyDistance r)

/-- `Sphere.SphereCollision`: `math.Abs(s.SDF(center)) <= r` with `SDF = Radius - coord.Dist(Center)`. -/
def sphereBall (sqrtF : α → α) (center : V3 α) (radius : α) (c : V3 α) (r : α) : Bool :=
  decide (absS (radius - c.dist sqrtF center) ≤ r)

/-- `Circle.CircleCollision` (model2d): the same with 2-D distances. -/
def circleBall (sqrtF : α → α) (center : V2 α) (radius : α) (c : V2 α) (r : α) : Bool :=
  decide (absS (radius - c.dist sqrtF center) ≤ r)

/-- sqrt-free meaning of "the closed ball of radius `r` meets the sphere (circle) of radius `R`", for a ball
centre at squared distance `D2` from the sphere's centre: `R - r ≤ √D2 ≤ R + r`. -/
def ballSphereSpec (D2 R r : α) : Bool :=
  (decide (R ≤ r) || decide ((R - r) * (R - r) ≤ D2)) && decide (D2 ≤ (R + r) * (R + r))

/-- `JoinedCollider.SphereCollision` / `CircleCollision`: bounds prefilter (`sphereTouchesBounds`), then the
first child that answers true. -/
def joinedBall {P : Type} (admits : P → α → Bool) (parts : List (P → α → Bool)) (c : P) (r : α) : Bool :=
  admits c r && parts.any (fun s => s c r)

/-- `ColliderContains(c, coord, margin)` (collisions.go): even-odd containment along the library's fixed
direction `cdir`, combined with a ball query for a non-zero margin. -/
def colliderContains {H : Type} (ray : V3 α × V3 α → Bool → Nat × List H) (sphere : V3 α → α → Bool)
    (cdir coord : V3 α) (margin : α) : Bool :=
  let collisions := (ray (coord, cdir) false).1
  if collisions % 2 == 0 then
    if margin < 0 then sphere coord (-margin) else false
  else decide (margin ≤ 0) || !sphere coord margin

end XfBall

end M3d.Col
