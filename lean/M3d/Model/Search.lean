/-!
# C17 models: the search optimisers  (core Lean only, executable)

`numerical/dense_search.go` (`LineSearch`, `GridSearch2D`, `GridSearch3D`, `RecursiveLineSearch`)
and `numerical/gss.go` (`GSS`).

All three grid searches have the same shape — sample a lattice in the current box keeping the
arg-max with a strict `>`, then recurse into a smaller box around the winner — so the model is one
generic function over the sample generator `gen : B → List P` and the box update
`shrink : B → P → B`; the theorems do not depend on what these are.  The three concrete
generators follow the Go loops (order of evaluation, `float64(xi)*xStep + xStep/2 + min`).
The objective is a function parameter.  `−∞` (Go's initial `value`) is `none`.
-/
namespace M3d.Search

variable {α P B : Type}

section Generic
variable [LT α] [DecidableLT α]

/-- Loop body: `v := f(c); if v > value { value = v; solution = c }`. -/
def argmaxStep (f : P → α) (best : Option (P × α)) (c : P) : Option (P × α) :=
  let v := f c
  match best with
  | none => some (c, v)
  | some (s, value) => if value < v then some (c, v) else some (s, value)

/-- One level: the sampling loop over the lattice. -/
def level (f : P → α) (pts : List P) : Option (P × α) := pts.foldl (argmaxStep f) none

/-- `maximize` as it was before the repair (F15): the deeper level's answer is returned as it
is, whatever the best sample of this level was. -/
def searchOld (gen : B → List P) (shrink : B → P → B) (f : P → α) : Nat → B → Option (P × α)
  | 0, b => level f (gen b)
  | r + 1, b =>
    match level f (gen b) with
    | none => none
    | some (s, _) => searchOld gen shrink f r (shrink b s)

/-- `maximize` (repaired): the deeper level's answer is kept only if it is at least as good
(`subValue >= value`). -/
def search (gen : B → List P) (shrink : B → P → B) (f : P → α) : Nat → B → Option (P × α)
  | 0, b => level f (gen b)
  | r + 1, b =>
    match level f (gen b) with
    | none => none
    | some (s, v) =>
      match search gen shrink f r (shrink b s) with
      | none => some (s, v)
      | some (s', v') => if v' < v then some (s, v) else some (s', v')

/-- Every point the objective is evaluated at, in evaluation order, over all recursion levels
(the same for the old and the repaired code). -/
def trace (gen : B → List P) (shrink : B → P → B) (f : P → α) : Nat → B → List P
  | 0, b => gen b
  | r + 1, b =>
    gen b ++ (match level f (gen b) with
      | none => []
      | some (s, _) => trace gen shrink f r (shrink b s))

end Generic

section Concrete
variable [Add α] [Sub α] [Mul α] [Div α] [NatCast α] [LT α] [DecidableLT α]

/-- `math.Max` / `math.Min` on ordinary (non-NaN) values. -/
def fmax (a b : α) : α := if a < b then b else a
def fmin (a b : α) : α := if b < a then b else a

/-- `float64(xi)*xStep + xStep/2 + min`. -/
def stop (mn step : α) (i : Nat) : α := ((i : Nat) : α) * step + step / ((2 : Nat) : α) + mn

/-- `LineSearch.maximize`: samples and the next interval. -/
def gen1 (stops : Nat) (b : α × α) : List α :=
  let step := (b.2 - b.1) / ((stops : Nat) : α)
  (List.range stops).map (stop b.1 step)

def shrink1 (stops : Nat) (b : α × α) (s : α) : α × α :=
  let step := (b.2 - b.1) / ((stops : Nat) : α)
  (fmax b.1 (s - step), fmin b.2 (s + step))

abbrev P2 (α : Type) := α × α
abbrev P3 (α : Type) := α × α × α

/-- `GridSearch2D.maximize`: x outer loop, y inner loop. -/
def gen2 (xs ys : Nat) (b : P2 α × P2 α) : List (P2 α) :=
  let xStep := (b.2.1 - b.1.1) / ((xs : Nat) : α)
  let yStep := (b.2.2 - b.1.2) / ((ys : Nat) : α)
  (List.range xs).flatMap fun xi => (List.range ys).map fun yi =>
    (stop b.1.1 xStep xi, stop b.1.2 yStep yi)

def shrink2 (xs ys : Nat) (b : P2 α × P2 α) (s : P2 α) : P2 α × P2 α :=
  let xStep := (b.2.1 - b.1.1) / ((xs : Nat) : α)
  let yStep := (b.2.2 - b.1.2) / ((ys : Nat) : α)
  ((fmax b.1.1 (s.1 - xStep), fmax b.1.2 (s.2 - yStep)),
   (fmin b.2.1 (s.1 + xStep), fmin b.2.2 (s.2 + yStep)))

/-- `GridSearch3D.maximize`. -/
def gen3 (xs ys zs : Nat) (b : P3 α × P3 α) : List (P3 α) :=
  let xStep := (b.2.1 - b.1.1) / ((xs : Nat) : α)
  let yStep := (b.2.2.1 - b.1.2.1) / ((ys : Nat) : α)
  let zStep := (b.2.2.2 - b.1.2.2) / ((zs : Nat) : α)
  (List.range xs).flatMap fun xi => (List.range ys).flatMap fun yi => (List.range zs).map fun zi =>
    (stop b.1.1 xStep xi, stop b.1.2.1 yStep yi, stop b.1.2.2 zStep zi)

def shrink3 (xs ys zs : Nat) (b : P3 α × P3 α) (s : P3 α) : P3 α × P3 α :=
  let xStep := (b.2.1 - b.1.1) / ((xs : Nat) : α)
  let yStep := (b.2.2.1 - b.1.2.1) / ((ys : Nat) : α)
  let zStep := (b.2.2.2 - b.1.2.2) / ((zs : Nat) : α)
  ((fmax b.1.1 (s.1 - xStep), fmax b.1.2.1 (s.2.1 - yStep), fmax b.1.2.2 (s.2.2 - zStep)),
   (fmin b.2.1 (s.1 + xStep), fmin b.2.2.1 (s.2.1 + yStep), fmin b.2.2.2 (s.2.2 + zStep)))

def lineMax (stops recs : Nat) (f : α → α) (mn mx : α) : Option (α × α) :=
  search (gen1 stops) (shrink1 stops) f recs (mn, mx)
def lineMaxOld (stops recs : Nat) (f : α → α) (mn mx : α) : Option (α × α) :=
  searchOld (gen1 stops) (shrink1 stops) f recs (mn, mx)
def lineTrace (stops recs : Nat) (f : α → α) (mn mx : α) : List α :=
  trace (gen1 stops) (shrink1 stops) f recs (mn, mx)

def grid2Max (xs ys recs : Nat) (f : P2 α → α) (mn mx : P2 α) : Option (P2 α × α) :=
  search (gen2 xs ys) (shrink2 xs ys) f recs (mn, mx)
def grid2Trace (xs ys recs : Nat) (f : P2 α → α) (mn mx : P2 α) : List (P2 α) :=
  trace (gen2 xs ys) (shrink2 xs ys) f recs (mn, mx)

def grid3Max (xs ys zs recs : Nat) (f : P3 α → α) (mn mx : P3 α) : Option (P3 α × α) :=
  search (gen3 xs ys zs) (shrink3 xs ys zs) f recs (mn, mx)
def grid3Trace (xs ys zs recs : Nat) (f : P3 α → α) (mn mx : P3 α) : List (P3 α) :=
  trace (gen3 xs ys zs) (shrink3 xs ys zs) f recs (mn, mx)

/-! ### RecursiveLineSearch

`maximize(min, max, f, prefix, startDim)`: a line search along dimension `startDim` whose
objective is the value of the search over the remaining dimensions; the closure keeps the best
`(x, y)` over **all** objective evaluations with a strict `>` (so the line search's own return
value is ignored).  `k` = number of dimensions still to search. -/

def setDim (v : List α) (i : Nat) (x : α) : List α := v.set i x

/-- The closure body: `if y > fVal { solution = x; fVal = y }` (`none` = the initial `-Inf`). -/
def trackStep (g : α → List α × α) (acc : List α × Option α) (v : α) : List α × Option α :=
  let xy := g v
  match acc.2 with
  | none => (xy.1, some xy.2)
  | some fv => if fv < xy.2 then (xy.1, some xy.2) else acc

/-- The closure's running best over the evaluation order. -/
def trackBest (g : α → List α × α) (init : List α) (vs : List α) : List α × Option α :=
  vs.foldl (trackStep g) (init, none)

def rlsMax (stops recs : Nat) (f : List α → α) (mn mx : List α) : Nat → List α → Nat → List α × Option α
  | 0, pre, _ => (pre, some (f pre))
  | k + 1, pre, d =>
    let g : α → List α × α := fun v =>
      let r := rlsMax stops recs f mn mx k (setDim pre d v) (d + 1)
      (r.1, r.2.getD ((0 : Nat) : α))
    let mid := (List.zipWith (· + ·) mn mx).map (· * (((1 : Nat) : α) / ((2 : Nat) : α)))
    let a := mn.getD d ((0 : Nat) : α)
    let b := mx.getD d ((0 : Nat) : α)
    trackBest g mid (lineTrace stops recs (fun v => (g v).2) a b)

/-- Every point the N-dimensional objective is evaluated at by `rlsMax` (ghost definition used in
the statement of the theorem; same recursion). -/
def rlsLeaves (stops recs : Nat) (f : List α → α) (mn mx : List α) : Nat → List α → Nat → List (List α)
  | 0, pre, _ => [pre]
  | k + 1, pre, d =>
    let g : α → List α × α := fun v =>
      let r := rlsMax stops recs f mn mx k (setDim pre d v) (d + 1)
      (r.1, r.2.getD ((0 : Nat) : α))
    let a := mn.getD d ((0 : Nat) : α)
    let b := mx.getD d ((0 : Nat) : α)
    (lineTrace stops recs (fun v => (g v).2) a b).flatMap fun v =>
      rlsLeaves stops recs f mn mx k (setDim pre d v) (d + 1)

end Concrete

/-! ### Golden-section search (`numerical.GSS`), a minimiser -/

section GSS
variable [Add α] [Sub α] [Div α] [LT α] [DecidableLT α] [LE α] [DecidableLE α]

structure GState (α : Type) where
  mn : α
  mx : α
  mid1 : α
  mid2 : α
  val1 : α
  val2 : α

/-- The `for` loop; returns the final state and the points evaluated inside the loop (in order). -/
def gssLoop (f : α → α) (phi : α) : Nat → GState α → List α → GState α × List α
  | 0, s, acc => (s, acc.reverse)
  | n + 1, s, acc =>
    if s.mid1 ≤ s.mn ∨ s.mid2 ≤ s.mid1 ∨ s.mx ≤ s.mid2 then (s, acc.reverse)
    else if s.val1 < s.val2 then
      let mx := s.mid2
      let mid1 := mx - (mx - s.mn) / phi
      gssLoop f phi n ⟨s.mn, mx, mid1, s.mid1, f mid1, s.val1⟩ (mid1 :: acc)
    else
      let mn := s.mid1
      let mid2 := mn + (s.mx - mn) / phi
      gssLoop f phi n ⟨mn, s.mx, s.mid2, mid2, s.val2, f mid2⟩ (mid2 :: acc)

def gssInit (f : α → α) (phi mn mx : α) : GState α :=
  let mid1 := mx - (mx - mn) / phi
  let mid2 := mn + (mx - mn) / phi
  ⟨mn, mx, mid1, mid2, f mid1, f mid2⟩

/-- `GSS(min, max, iters, f)` together with every point `f` was evaluated at. -/
def gss (f : α → α) (phi mn mx : α) (iters : Nat) : α × List α :=
  let iters := if iters = 0 then 64 else iters
  let s0 := gssInit f phi mn mx
  let r := gssLoop f phi iters s0 []
  let s := r.1
  (if s.val1 < s.val2 then s.mid1 else s.mid2, s0.mid1 :: s0.mid2 :: r.2)

end GSS

end M3d.Search
