/-!
# The control loop of `ARAP.deformMap` (C10: "reproduces a rigid motion", at every scale)

```go
lastEnergy := a.energy(currentOutput, rotations)
for iter := 0; iter < a.maxIters; iter++ {
    targets := l.Targets(rotations); currentOutput = l.LinSolve(targets)
    rotations = a.rotations(currentOutput); energy := a.energy(currentOutput, rotations)
    if iter+1 >= a.minIters && 1-energy/lastEnergy < a.tolerance { break }
    lastEnergy = energy
}
```

The numerics are the parameter `E : Nat → α` (`E 0` = energy of the initial guess, `E k` = energy
after `k` linear solves); the model is the control flow: how many solves are performed.  Generic
scalar: proved over ordered fields, executed at `Float` (the same three operations `/ - <` on the
same bits as the Go test) and at `Rat`.  Core only.
-/
namespace M3d.ArapLoop

variable {α : Type} [Sub α] [Div α] [OfNat α 1] [LT α] [DecidableLT α]

/-- `1 - energy/lastEnergy < tolerance`. -/
def converged (tol e last : α) : Bool := decide (1 - e / last < tol)

/-- The loop from iteration `iter` with `fuel = maxIters - iter` iterations left; `stop e last` is
the convergence test.  Returns the number of linear solves performed. -/
def loopFrom (stop : α → α → Bool) (minIters : Nat) (E : Nat → α) : Nat → Nat → Nat
  | 0, iter => iter
  | fuel + 1, iter =>
    if minIters ≤ iter + 1 && stop (E (iter + 1)) (E iter) then iter + 1
    else loopFrom stop minIters E fuel (iter + 1)

/-- Number of iterations `deformMap` performs. -/
def count (stop : α → α → Bool) (minIters maxIters : Nat) (E : Nat → α) : Nat :=
  loopFrom stop minIters E maxIters 0

/-- The loop as it is. -/
def countRel (tol : α) (minIters maxIters : Nat) (E : Nat → α) : Nat :=
  count (converged tol) minIters maxIters E

/-- The test with an absolute energy floor in front (seeded change C10-11). -/
def convergedFloor (floor tol e last : α) : Bool := decide (e < floor) || converged tol e last

/-- Nothing left to gain: the energy is exactly zero, or not a number. -/
def spent [BEq α] [OfNat α 0] (e : α) : Bool := e == 0 || !(e == e)

/-- **What the documentation allows**: stopping after `n` solves is allowed when the budget
(`MaxIterations`) is used up, or when at least `MinIterations` (and one) solves were made and the
last one lowered the energy by less than the fraction `Tolerance` ("convergence tolerance … lower
values make the algorithm run longer but arrive at more accurate values") — or there is nothing
left to gain (energy 0 / NaN). -/
def allowedStop [BEq α] [OfNat α 0] (tol : α) (minIters maxIters : Nat) (E : Nat → α) (n : Nat) : Bool :=
  n == maxIters ||
    (n < maxIters && minIters ≤ n && 1 ≤ n && (converged tol (E n) (E (n - 1)) || spent (E n)))

/-- The energy is still falling by at least the fraction `tol` per iteration around `n`: the
iteration into `n` and the iteration after `n` both lowered it that much, and it stays above
`guard` (≥ 0; the driver passes a value far above the rounding noise of the energy). -/
def stillDropping [Mul α] [LE α] [DecidableLE α] (tol guard : α) (E : Nat → α) (n : Nat) : Bool :=
  decide (guard < E (n + 1)) && decide (E (n + 1) ≤ (1 - tol) * E n) &&
    (n == 0 || decide (E n ≤ (1 - tol) * E (n - 1)))

end M3d.ArapLoop
