import M3d.Model.CodecBytes
/-!
# Correct rounding of a decimal number to IEEE binary32  (`strconv.ParseFloat(token, 32)` as the
ASCII STL reader must behave: the float32 *nearest to the written number*, ties to even, rounded ONCE)

Core-only and executable: the driver parses the decimal token to an exact fraction `n/d` and rounds it
with `roundF32`.  The specification (`M3d/Lemmas/CodecRound.lean`, `Props/C15.lean`): no binary32 value
is strictly closer to `n/d` than the result, and on a tie the result has an even significand.

Representation: a non-negative finite binary32 with bit pattern `b < 0x7f800000` has the value
`f32nat b · 2^-149` (`f32nat b` is a natural number: every binary32 is a multiple of 2^-149).
-/
namespace M3d.Codec

/-- round-half-even of the fraction `n/d` (`d > 0`) to a natural number -/
def rne (n d : Nat) : Nat :=
  let q := n / d
  let r := n % d
  if 2 * r < d then q else if d < 2 * r then q + 1 else if q % 2 = 0 then q else q + 1

/-- value of the binary32 bit pattern `b` (sign bit clear) in units of 2^-149:
exponent field 0 = subnormal `m`, otherwise `(2^23 + m) · 2^(e-1)`. -/
def f32nat (b : Nat) : Nat :=
  let e := b / 2 ^ 23
  let m := b % 2 ^ 23
  if e = 0 then m else (2 ^ 23 + m) * 2 ^ (e - 1)

/-- correct rounding of `N/D` *units of 2^-149* to a bit pattern: `s` = the binade's quantum
exponent (0 in the subnormal range and the first normal binade), significand `rne (N / (D·2^s))`
in `[2^23, 2^24]` (or below `2^23` when subnormal); a carry to `2^24` lands on the next binade's
first pattern because patterns are consecutive. -/
def roundScaled (N D : Nat) : Nat :=
  let s := Nat.log2 (N / D) - 23
  s * 2 ^ 23 + rne N (D * 2 ^ s)

/-- correct rounding of the non-negative rational `n/d` to binary32 (bit pattern without sign);
a result `≥ 0x7f800000` means *out of range* (the value is at least MaxFloat32 + ½ulp). -/
def roundF32 (n d : Nat) : Nat := roundScaled (n * 2 ^ 149) d

def f32Inf : Nat := 0x7f800000

/-! ## decimal tokens -/

/-- a decimal literal: `± mant · 10^exp10` -/
structure Dec where
  neg : Bool
  mant : Nat
  exp10 : Int
  deriving DecidableEq, Repr

def isDigit (b : UInt8) : Bool := 48 ≤ b && b ≤ 57

def digitsVal (ds : Bytes) : Nat := ds.foldl (fun a b => 10 * a + (b.toNat - 48)) 0

/-- optional sign -/
def takeSign : Bytes → Bool × Bytes
  | 45 :: r => (true, r)
  | 43 :: r => (false, r)
  | s => (false, s)

/-- optional fraction: `.` followed by digits (possibly none); returns the digits and the rest -/
def splitFrac : Bytes → Bytes × Bytes
  | 46 :: r => r.span isDigit
  | s => ([], s)

/-- optional exponent part `[eE][+-]?digits+`; the input must be consumed entirely -/
def parseExp : Bytes → Option Int
  | [] => some 0
  | c :: r =>
    if c = 101 || c = 69 then
      if (takeSign r).2.isEmpty || !(takeSign r).2.all isDigit then none
      else if (takeSign r).1 then some (-(digitsVal (takeSign r).2 : Int))
      else some (digitsVal (takeSign r).2 : Int)
    else none

/-- `[+-]? (digits [. digits*] | . digits+) ([eE] [+-]? digits+)?` — the decimal floating-point
literals of C/`%e`/`%f`/`%g` output, which is what the ASCII STL format uses for numbers. -/
def parseDec (s : Bytes) : Option Dec :=
  let s1 := (takeSign s).2
  let ip := (s1.span isDigit).1
  let s2 := (s1.span isDigit).2
  let fp := (splitFrac s2).1
  let s3 := (splitFrac s2).2
  if ip.isEmpty && fp.isEmpty then none
  else
    match parseExp s3 with
    | none => none
    | some e => some ⟨(takeSign s).1, digitsVal (ip ++ fp), e - (fp.length : Int)⟩

/-- the exact fraction `(n, d)` with `|value| = n/d` -/
def Dec.frac (x : Dec) : Nat × Nat :=
  if x.exp10 ≥ 0 then (x.mant * 10 ^ x.exp10.toNat, 1) else (x.mant, 10 ^ (-x.exp10).toNat)

/-- unsigned binary32 pattern of a literal, possibly `≥ f32Inf` (out of range) -/
def Dec.bits (x : Dec) : Nat := roundF32 x.frac.1 x.frac.2

/-- `strconv.ParseFloat(tok, 32)` on decimal literals: the correctly rounded float32 (sign from the
literal, so `-0` and negative underflow give `-0`); out of range or not a literal = error. -/
def parseF32 (tok : Bytes) : Option UInt32 :=
  match parseDec tok with
  | none => none
  | some x =>
    let b := x.bits
    if b ≥ f32Inf then none
    else some (UInt32.ofNat (b + (if x.neg then 2 ^ 31 else 0)))

/-- the literal is syntactically fine but its magnitude is at least MaxFloat32 + ½ulp -/
def overflowsF32 (tok : Bytes) : Bool :=
  match parseDec tok with
  | none => false
  | some x => decide (x.bits ≥ f32Inf)

end M3d.Codec
