/-
Shared, core-only utilities for the executable side of the models:
the line protocol, exact rationals and IEEE bit patterns as they cross the
Go/Lean boundary.  Nothing here is used in a theorem statement.
-/
namespace M3d

/-- Parse a lowercase hexadecimal string. -/
def parseHex (s : String) : Option Nat :=
  if s.isEmpty then none else
  s.foldl (fun acc c => acc.bind fun a =>
    if '0' ≤ c ∧ c ≤ '9' then some (a*16 + (c.toNat - '0'.toNat))
    else if 'a' ≤ c ∧ c ≤ 'f' then some (a*16 + (c.toNat - 'a'.toNat + 10))
    else none) (some 0)

def hexDigit (n : Nat) : Char :=
  if n < 10 then Char.ofNat ('0'.toNat + n) else Char.ofNat ('a'.toNat + (n - 10))

/-- 16 lowercase hex digits of a 64-bit value. -/
def hex64 (n : UInt64) : String :=
  String.ofList ((List.range 16).map fun i => hexDigit ((n.toNat >>> (4 * (15 - i))) % 16))

/-- IEEE double from its 16-hex-digit bit pattern. -/
def floatOfHex (s : String) : Option Float :=
  (parseHex s).map fun n => Float.ofBits n.toUInt64

def hexOfFloat (x : Float) : String := hex64 x.toBits

/-- Parse `a/b` or `a` (Go's `big.Rat.String()` form) into an exact rational. -/
def parseRat (s : String) : Option Rat :=
  match s.splitOn "/" with
  | [a] => a.toInt?.map fun n => (n : Rat)
  | [a, b] => do
      let n ← a.toInt?
      let d ← b.toNat?
      if d = 0 then none else some ((n : Rat) / (d : Rat))
  | _ => none

/-- Canonical `num/den` rendering (matches Go's `big.Rat.String()`). -/
def showRat (q : Rat) : String := s!"{q.num}/{q.den}"

/-- Exact value of a finite IEEE double given by its bit pattern. -/
def ratOfBits (b : UInt64) : Option Rat :=
  let n : Nat := b.toNat
  let sign : Rat := if n >>> 63 = 1 then -1 else 1
  let e : Nat := (n >>> 52) % 2048
  let m : Nat := n % (2 ^ 52)
  if e = 2047 then none
  else if e = 0 then some (sign * ((m : Int) : Rat) / ((2 : Rat) ^ 1074))
  else
    let mant : Rat := (((m + 2 ^ 52 : Nat) : Int) : Rat)
    if e ≥ 1075 then some (sign * mant * ((2 : Rat) ^ (e - 1075)))
    else some (sign * mant / ((2 : Rat) ^ (1075 - e)))

def splitWords (line : String) : List String :=
  (line.trimAscii.toString.splitOn " ").filter (· ≠ "")

def parseNats (ws : List String) : Option (List Nat) := ws.mapM (·.toNat?)
def parseInts (ws : List String) : Option (List Int) := ws.mapM (·.toInt?)
def parseRats (ws : List String) : Option (List Rat) := ws.mapM parseRat
def parseFloats (ws : List String) : Option (List Float) := ws.mapM floatOfHex

def showList {α} (f : α → String) (xs : List α) : String := " ".intercalate (xs.map f)

def boolStr (b : Bool) : String := if b then "1" else "0"

/-- Insertion sort, for canonicalising outputs that come from Go maps. -/
def insertSorted {α} (lt : α → α → Bool) (x : α) : List α → List α
  | [] => [x]
  | y :: ys => if lt y x then y :: insertSorted lt x ys else x :: y :: ys

def sortBy {α} (lt : α → α → Bool) (xs : List α) : List α :=
  xs.foldl (fun acc x => insertSorted lt x acc) []

end M3d
