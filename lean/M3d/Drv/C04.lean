import M3d.Basic
import M3d.Model.SolidAlg
import M3d.Model.RectSet
import M3d.Model.RectSetProg
import M3d.Model.SmoothSolid
import M3d.Model.SolidExpr
import M3d.Model.SmoothNaN
/-!
Line-protocol handler for C04.  Core-only.

Kinds (tokens after `c04`):

* `bool <dim> <bits>`                      — Joined / Intersected / Subtracted / a nested expression on operand answers
* `sj <dim> <r> <d>…`, `sj2 <dim> <r> <d:nx,ny[,nz]>…`   — smooth joins: SPEC value + "every permutation agrees"
* `sjm …`, `sj2m …`                  — the faithful closure model evaluated on every permutation (model validation)
* `sjf <dim> <rhex> <dhex>…`, `sj2f <dim> <rhex> <dhex:…>…` — the same closure model executed on IEEE doubles
* `sjb|sjb2 <dim> <r> <n> <box>… <np> <perm>… <nq> (<pt> <d>…)…` — the smooth joins as solids (bounds + closure) at many points
* `opt|mux <dim> <n> <box>… <perm>… <nq> (<pt> <bits>)…`  — Optimize / SolidMux against the plain join
* `tree <dim> <nl> <box>… <expr> <nq> (<pt> <bits>)…`     — nests of Joined / Optimize / SolidMux / Intersected / Subtracted against the boolean formula
* `stk <n> (<bounds> <inner>)… <nq> <pt>…`      — StackSolids / StackedSolid against the translated union
* `rs …`                             — RectSet histories and the rect-set solid
* `rsp <stmt>… end`                  — programs over several RectSet objects with repeated `Solid()` calls
-/
namespace M3d.Drv.C04
open M3d M3d.SolidAlg

def bitsOf (s : String) : Option (List Bool) :=
  s.toList.mapM fun c => if c = '1' then some true else if c = '0' then some false else none

def strOfBits (bs : List Bool) : String := String.ofList (bs.map fun b => if b then '1' else '0')

/-- Permutations in lexicographic order of positions (the Go harness enumerates the same way). -/
partial def perms {α} [Inhabited α] (l : List α) : List (List α) :=
  if l.isEmpty then [[]] else
  (List.range l.length).flatMap fun i => (perms (l.eraseIdx i)).map (l[i]! :: ·)

def allSame (bs : List Bool) : Bool :=
  match bs with
  | [] => true
  | b :: rest => rest.all (· == b)

/-! ### bool -/

def handleBool (ws : List String) : Option String := do
  let [_dim, bs] := ws | none
  let bits ← bitsOf bs
  let n := bits.length
  if n = 0 then none
  -- operands are predicates on the (single) query point `()`
  let ops : List (Unit → Bool) := bits.map fun b _ => b
  let j := joined ops ()
  let i := intersected ops ()
  let ps := perms ops
  let jp := ps.all fun p => joined p () == j
  let ip := ps.all fun p => intersected p () == i
  let s := if n ≥ 2 then boolStr (subtracted (ops[0]!) (ops[1]!) ()) else "-"
  let h := n / 2
  let x := if n ≥ 2 then
      boolStr (joined [intersected (ops.take h), subtracted (joined (ops.drop h)) (ops[0]!)] ())
    else "-"
  -- the model's answers are the plain boolean formulas (Props: joined_eq_any, …)
  let specJ := bits.any id
  let specI := bits.all id
  if j != specJ || i != specI then some "model-ne-spec"
  else some s!"J={boolStr specJ} Jp={boolStr jp} I={boolStr specI} Ip={boolStr ip} S={s} X={x}"

/-! ### smooth joins, exact mode -/

def ptOfList {α} [Inhabited α] (l : List α) : Pt α := fun i => l.getD i default

def parseDN (s : String) : Option (Rat × Pt Rat) :=
  match s.splitOn ":" with
  | [d, nv] => do
      let d ← parseRat d
      let cs ← (nv.splitOn ",").mapM parseRat
      some (d, ptOfList cs)
  | _ => none

/-- Exact square root of a rational that is a perfect square. -/
def ratSqrt? (q : Rat) : Option Rat :=
  if q < 0 then none else
  let a := q.num.toNat
  let b := q.den
  let ra := Nat.sqrt a
  let rb := Nat.sqrt b
  if ra * ra = a ∧ rb * rb = b then some ((ra : Rat) / (rb : Rat)) else none

/-- Total version for the model (the harness only produces perfect squares in exact mode;
`handleSJ2` rejects a line where that is not the case). -/
def ratSqrt (q : Rat) : Rat := (ratSqrt? q).getD 0
def ratAbs (q : Rat) : Rat := if q < 0 then -q else q

def handleSJ (model : Bool) (ws : List String) (legacy : Bool := false) : Option String := do
  let _dim :: r :: ds := ws | none
  let r ← parseRat r
  let ds ← ds.mapM parseRat
  if ds.isEmpty then none
  if legacy then
    some (strOfBits ((perms ds).map fun p => legacySmoothJoin r p))
  else if model then
    some (strOfBits ((perms ds).map fun p => smoothJoin r p))
  else
    let v := smoothSpec r ds
    if smoothJoin r ds != v then some "model-ne-spec" else   -- impossible by `smooth_eq_spec`
    some s!"V={boolStr v} P=1"

/-- All pairwise `1 - (n_i·n_j)²` must be perfect squares for the exact run. -/
def exactOK (dim : Nat) (es : List (Rat × Pt Rat)) : Bool :=
  let zero : Pt Rat := fun _ => 0
  let ns := zero :: es.map (·.2)
  ns.all fun a => ns.all fun b =>
    let c := ratAbs (dotN dim a b)
    (ratSqrt? (1 - c * c)).isSome

def handleSJ2 (model : Bool) (ws : List String) : Option String := do
  let dim :: r :: es := ws | none
  let dim ← dim.toNat?
  let r ← parseRat r
  let es ← es.mapM parseDN
  if es.isEmpty then none
  if !(exactOK dim es) then some "inexact-sqrt"
  else if model then
    some (strOfBits ((perms es).map fun p => smoothJoinV2 dim ratSqrt ratAbs r p))
  else
    let v := smoothSpecV2 dim ratSqrt ratAbs r es
    -- the closure model on the given order must agree with the sorted specification
    if smoothJoinV2 dim ratSqrt ratAbs r es != v then some "model-ne-spec" else
    some s!"V={boolStr v} P=1"

/-! ### smooth joins on IEEE doubles (same operations in the same order as the Go closure) -/

instance : Inhabited Float := ⟨0⟩

def parseDNF (s : String) : Option (Float × Pt Float) :=
  match s.splitOn ":" with
  | [d, nv] => do
      let d ← floatOfHex d
      let cs ← (nv.splitOn ",").mapM floatOfHex
      some (d, ptOfList cs)
  | _ => none

def handleSJF (ws : List String) : Option String := do
  let _dim :: r :: ds := ws | none
  let r ← floatOfHex r
  let ds ← ds.mapM floatOfHex
  if ds.isEmpty then none
  some (boolStr (smoothJoin r ds))

def handleSJ2F (ws : List String) : Option String := do
  let dim :: r :: es := ws | none
  let dim ← dim.toNat?
  let r ← floatOfHex r
  let es ← es.mapM parseDNF
  if es.isEmpty then none
  let v := smoothJoinV2 dim Float.sqrt Float.abs r es
  -- a NaN fillet radius (`cos = 1.0000000000000002` for two identical normals) is unordered: the answer has
  -- to be the plain union (`smoothV2_unordered_radius_eq_union`; exact arithmetic: `smoothV2_parallel_eq_union`)
  match smoothV2Slots es with
  | some (c0, c1) =>
    let rr := smoothV2Radius dim Float.sqrt Float.abs r c0 c1
    if rr != rr && v != es.any (fun e => decide (0 < e.1)) then some "model-ne-spec" else some (boolStr v)
  | none => some (boolStr v)

instance : Inhabited (Box Rat) := ⟨⟨fun _ => 0, fun _ => 0⟩⟩
instance : Inhabited (Solid Rat) := ⟨⟨default, fun _ => false⟩⟩
instance : Inhabited (Sdf Rat) := ⟨⟨default, fun _ => 0⟩⟩
instance : Inhabited (NSdf Rat) := ⟨⟨default, fun _ => (0, fun _ => 0)⟩⟩

/-! ### scenes of bounded operands: Optimize and SolidMux -/

/-- `k` rationals from the front of a token list. -/
def takeRats (k : Nat) (ws : List String) : Option (List Rat × List String) := do
  let xs ← (ws.take k).mapM parseRat
  if xs.length ≠ k then none else some (xs, ws.drop k)

def parseBoxes (dim : Nat) : Nat → List String → Option (List (Box Rat) × List String)
  | 0, ws => some ([], ws)
  | k + 1, ws => do
      let (lo, ws) ← takeRats dim ws
      let (hi, ws) ← takeRats dim ws
      let (rest, ws) ← parseBoxes dim k ws
      some (⟨ptOfList lo, ptOfList hi⟩ :: rest, ws)

def isPermOfRange (n : Nat) (p : List Nat) : Bool :=
  p.length == n && (List.range n).all fun i => p.count i == 1

/-- Queries: `<pt> <bits>` each; returns per query the point and the operands' answers. -/
def parseQueries (dim n : Nat) : Nat → List String → Option (List (Pt Rat × List Bool))
  | 0, [] => some []
  | 0, _ => none
  | k + 1, ws => do
      let (p, ws) ← takeRats dim ws
      let b :: ws := ws | none
      let bits ← bitsOf b
      if bits.length ≠ n then none
      let rest ← parseQueries dim n k ws
      some ((ptOfList p, bits) :: rest)

def showNats (xs : List Nat) : String := "[" ++ ",".intercalate (xs.map toString) ++ "]"

def handleScene (mux : Bool) (ws : List String) : Option String := do
  let dim :: n :: ws := ws | none
  let dim ← dim.toNat?
  let n ← n.toNat?
  if n = 0 then none
  let (boxes, ws) ← parseBoxes dim n ws
  let perm ← (ws.take n).mapM (·.toNat?)
  if !(isPermOfRange n perm) then some "grouping-is-not-a-permutation"
  else
  let ws := ws.drop n
  let nq :: ws := ws | none
  let nq ← nq.toNat?
  let qs ← parseQueries dim n nq ws
  let outs ← qs.mapM fun (p, bits) => do
    -- the operands' Contains at this query point are the harness-chosen answers
    let solids : List (Solid Rat) := (List.range n).map fun i => ⟨boxes[i]!, fun _ => bits.getD i false⟩
    let bounded := solids.all fun s => !(s.f p) || s.box.contains dim p
    if !bounded then some "unbounded-operand"
    else
    let spec := bits.any id
    if !mux then
      let g : List (Solid Rat) → List (Solid Rat) := fun l => perm.map fun i => l[i]!
      let t ← optimize dim g solids
      if t.f p != spec then some "model-ne-spec" else some (boolStr spec)
    else
      let g : List (Nat × Solid Rat) → List (Nat × Solid Rat) := fun l => perm.map fun i => l[i]!
      let m ← newMux g solids
      let it := sortBy (· < ·) (m.iter dim p)
      let specIdx := (List.range n).filter fun i => bits.getD i false
      if m.contains dim p != spec || m.allContains dim p != bits || it != specIdx then some "model-ne-spec"
      else some s!"{boolStr spec}:{strOfBits bits}:{showNats specIdx}:{specIdx.length}"
  some (" ".intercalate outs)

/-! ### smooth joins as solids (`sjb`, `sjb2`)

`<dim> <r> <n> (<lo> <hi>)×n <np> (<n indices>)×np <nq> (<pt> <d_0 … d_{n-1}>)×nq`; for `sjb2` each `d_i` is
`d:nx,ny[,nz]`.  Answer `V=<bits> P=1`: V = "inside the joint bounds grown by r, and `smoothSpec` of the
distances at the point" (`smoothSolid_eq_spec`, `smoothSolidV2_eq_spec`); P = every listed operand order
gives the same solid (`smoothSolid_perm`, `smoothSolidV2_perm`) — re-checked on the faithful model. -/

def handleSJB (v2 : Bool) (ws : List String) : Option String := do
  let dim :: r :: n :: ws := ws | none
  let dim ← dim.toNat?
  let r ← parseRat r
  let n ← n.toNat?
  if n = 0 then none
  let (boxes, ws) ← parseBoxes dim n ws
  let np :: ws := ws | none
  let np ← np.toNat?
  let permNats ← (ws.take (np * n)).mapM (·.toNat?)
  if permNats.length ≠ np * n then none
  let ws := ws.drop (np * n)
  let perms := (List.range np).map fun k => (permNats.drop (k * n)).take n
  if !(perms.all (isPermOfRange n)) then none
  let nq :: ws := ws | none
  let nq ← nq.toNat?
  if ws.length ≠ nq * (dim + n) then none
  let zero : Pt Rat := fun _ => 0
  let outs ← (List.range nq).mapM fun q => do
    let toks := (ws.drop (q * (dim + n))).take (dim + n)
    let (pc, dts) ← takeRats dim toks
    let p : Pt Rat := ptOfList pc
    let es ← dts.mapM fun t => if v2 then parseDN t else (parseRat t).map fun d => (d, zero)
    let orders := (List.range n) :: perms
    if !v2 then
      let ops : List (Sdf Rat) := (List.range n).map fun i => ⟨boxes[i]!, fun _ => (es[i]!).1⟩
      let spec := ((boxesJoin (boxes[0]!) (boxes.drop 1)).expand r).contains dim p && smoothSpec r (es.map (·.1))
      let ok := orders.all fun o =>
        let l := o.map fun i => ops[i]!
        (smoothSolid dim r (l[0]!) (l.drop 1)).f p == spec
      if ok then some (boolStr spec) else some "X"       -- impossible: smoothSolid_eq_spec + smoothSolid_perm
    else
      if !(exactOK dim es) then some "S" else
      let ops : List (NSdf Rat) := (List.range n).map fun i => ⟨boxes[i]!, fun _ => es[i]!⟩
      let spec := ((boxesJoin (boxes[0]!) (boxes.drop 1)).expand r).contains dim p
        && smoothSpecV2 dim ratSqrt ratAbs r es
      let ok := orders.all fun o =>
        let l := o.map fun i => ops[i]!
        (smoothSolidV2 dim ratSqrt ratAbs r (l[0]!) (l.drop 1)).f p == spec
      if ok then some (boolStr spec) else some "X"
  some s!"V={"".intercalate outs} P=1"

/-! ### nests of combinators (`tree`)

`<dim> <nl> (<lo> <hi>)×nl <expr> <nq> (<pt> <leaf bits>)×nq`, `<expr>` in prefix form: `L <i>` | `J|O|M|I <k> <expr>×k` |
`S <expr> <expr>`.  Answer: per query the pointwise boolean formula (`nested_combinators_eq_formula`); the
faithful bottom-up construction (identity reordering at every node — the theorem covers every reordering) is
re-checked against it. -/

/-- Shape of an expression (leaves by index). -/
inductive Shape where
  | leaf (i : Nat) : Shape
  | node (op : Char) (kids : List Shape) : Shape

partial def parseShape : List String → Option (Shape × List String)
  | "L" :: i :: ws => do
      let i ← i.toNat?
      some (.leaf i, ws)
  | "S" :: ws => do
      let (a, ws) ← parseShape ws
      let (b, ws) ← parseShape ws
      some (.node 'S' [a, b], ws)
  | op :: k :: ws => do
      if !(op = "J" || op = "O" || op = "M" || op = "I") then none
      let k ← k.toNat?
      if k = 0 then none
      let rec go : Nat → List String → Option (List Shape × List String)
        | 0, ws => some ([], ws)
        | j + 1, ws => do
            let (e, ws) ← parseShape ws
            let (es, ws) ← go j ws
            some (e :: es, ws)
      let (kids, ws) ← go k ws
      some (.node (op.toList.headD 'J') kids, ws)
  | _ => none

partial def Shape.toExpr (leaves : List (Solid Rat)) : Shape → Option (Expr Rat)
  | .leaf i => (leaves[i]?).map Expr.leaf
  | .node op kids => do
      let es ← kids.mapM (Shape.toExpr leaves)
      let rec mk : List (Expr Rat) → Option (Exprs Rat)
        | [] => none
        | [e] => some (.one e)
        | e :: rest => (mk rest).map (Exprs.cons e)
      match op, es with
      | 'S', [a, b] => some (.sub a b)
      | 'J', _ => (mk es).map Expr.join
      | 'O', _ => (mk es).map (Expr.opt id)
      | 'M', _ => (mk es).map (Expr.mux id)
      | 'I', _ => (mk es).map Expr.inter
      | _, _ => none

def handleTree (ws : List String) : Option String := do
  let dim :: nl :: ws := ws | none
  let dim ← dim.toNat?
  let nl ← nl.toNat?
  if nl = 0 then none
  let (boxes, ws) ← parseBoxes dim nl ws
  let (shape, ws) ← parseShape ws
  let nq :: ws := ws | none
  let nq ← nq.toNat?
  let qs ← parseQueries dim nl nq ws
  let outs ← qs.mapM fun (p, bits) => do
    let leaves : List (Solid Rat) := (List.range nl).map fun i => ⟨boxes[i]!, fun _ => bits.getD i false⟩
    if !(leaves.all fun s => !(s.f p) || s.box.contains dim p) then some "U"   -- harness error: unbounded leaf
    else
    let e ← shape.toExpr leaves
    let spec := e.eval p
    match e.toSolid dim with
    | none => some "D"                                   -- impossible: nested_combinators_eq_formula
    | some s => if s.f p != spec then some "X" else some (boolStr spec)
  -- P=1: the formula does not depend on the order of the operands of any node (any / all)
  some s!"V={"".intercalate outs} P=1"

/-! ### stacks -/

def handleStack (ws : List String) : Option String := do
  let n :: ws := ws | none
  let n ← n.toNat?
  if n = 0 then none
  let (boxes, ws) ← parseBoxes 3 (2 * n) ws
  let solids : List (Solid Rat) := (List.range n).map fun i =>
    let inner := boxes[2 * i + 1]!
    ⟨boxes[2 * i]!, fun p => inner.contains 3 p⟩
  let nq :: ws := ws | none
  let nq ← nq.toNat?
  let (cs, ws) ← takeRats (3 * nq) ws
  if !ws.isEmpty then none
  -- specification: union of the operands translated by the accumulated offsets
  let deltas : List Rat := 0 :: stackOffsets ((solids[0]!).box.hi 2) (solids.drop 1)
  let outs := (List.range nq).map fun k =>
    let p : Pt Rat := ptOfList ((cs.drop (3 * k)).take 3)
    let spec := translatedUnion solids deltas p
    let m1 := joined ((stackSolids solids).map (·.f)) p
    let m2 := stackedContains solids p
    if m1 != spec || m2 != spec then "model-ne-spec" else boolStr spec ++ boolStr spec
  some (" ".intercalate outs)

/-! ### RectSet histories -/
namespace RS
open M3d.RectSet

def ratsLt : List Rat → List Rat → Bool
  | [], [] => false
  | [], _ => true
  | _, [] => false
  | a :: as, b :: bs => a < b || (a == b && ratsLt as bs)

def v3l (v : V3 Rat) : List Rat := [v.x, v.y, v.z]
def v3Of (l : List Rat) : V3 Rat := ⟨l.getD 0 0, l.getD 1 0, l.getD 2 0⟩

def showRect (r : Rect Rat) : String := ",".intercalate ((v3l r.lo ++ v3l r.hi).map showRat)

def showRects (rs : List (Rect Rat)) : String :=
  ";".intercalate ((sortBy (fun a b => ratsLt (v3l a.lo ++ v3l a.hi) (v3l b.lo ++ v3l b.hi)) rs).map showRect)

def showSplits (ss : V3 (List Rat)) : String :=
  "|".intercalate ([ss.x, ss.y, ss.z].map fun xs => ",".intercalate (xs.map showRat))

/-- `k` operations from the token stream: `a|r <6 coords>` (Add / Remove) or
`A|R <k'> <k' operations>` (AddRectSet / RemoveRectSet of the set those operations build). -/
partial def parseHist (h : Hist Rat) : Nat → List String → Option (Hist Rat × List String)
  | 0, ws => some (h, ws)
  | k + 1, op :: ws =>
    if op = "a" || op = "r" then do
      let (c, ws) ← takeRats 6 ws
      let r : Rect Rat := ⟨v3Of (c.take 3), v3Of (c.drop 3)⟩
      parseHist (if op = "a" then .add h r else .remove h r) k ws
    else if op = "A" || op = "R" then do
      let k' :: ws := ws | none
      let k' ← k'.toNat?
      let (h1, ws) ← parseHist .new k' ws
      parseHist (if op = "A" then .addSet h h1 else .removeSet h h1) k ws
    else none
  | _, _ => none

/-- A point is generic for a history when none of its coordinates is a coordinate of a box of
the history (it lies on no plane the history can ever split at). -/
def generic (h : Hist Rat) (p : V3 Rat) : Bool :=
  h.boxes.all fun r => [0, 1, 2].all fun i => p.get i != r.lo.get i && p.get i != r.hi.get i

/-- `rs <nops> <ops> <nq> (<3 coords>)…` → `R=<rects> S=<splits> Q=<answers>`;
the answers are the SPEC (some rect of the current set contains the point). -/
def handleRS (ws : List String) : Option String := do
  let nops :: ws := ws | none
  let nops ← nops.toNat?
  let (h, ws) ← parseHist .new nops ws
  let s := h.eval
  let nq :: ws := ws | none
  let nq ← nq.toNat?
  let (cs, ws) ← takeRats (3 * nq) ws
  if !ws.isEmpty then none
  match build (s.rects.length + 1) s with
  | none => some "diverges"     -- impossible: `build_terminates`
  | some t =>
    if !t.wellSplitB then some "tree-not-well-split" else   -- impossible: `hist_wellSplit`
    let outs := (List.range nq).map fun k =>
      let p := v3Of ((cs.drop (3 * k)).take 3)
      let spec := s.rects.any fun r => r.contains p
      if t.contains p != spec then "X"
      else if generic h p && h.sem p != spec then "Y"   -- impossible: `rectset_history_solid_eq_union`
      else boolStr spec
    some s!"R={showRects s.rects} S={showSplits s.splits} Q={"".intercalate outs}"


/-! ### programs over RectSet objects (`rsp`)

Statements: `a|r <i> <6 coords>` (`v_i.Add/Remove`), `A|R <i> <j>` (`v_i.AddRectSet/RemoveRectSet(v_j)`),
`N <i>` (`v_i = NewRectSet()`), `S <i>` (`v_i.Solid()`, the result is kept as solid number 0, 1, …),
`Q <k> <nq> <3·nq coords>` (query solid `k`, obtained earlier — possibly many statements ago).
Answer: per `S` the receiver's stored rects and splits at that moment, per `Q` the SPEC bits: "some rect
stored in the receiver when solid `k` was created contains the point"
(`rectset_program_solid_eq_union`). -/

inductive Item where
  | sol : Item
  | qry (k : Nat) (pts : List (V3 Rat)) : Item

partial def parseProg : List String → Option (List (Cmd Rat) × List Item)
  | ["end"] => some ([], [])
  | "Q" :: k :: nq :: ws => do
      let k ← k.toNat?
      let nq ← nq.toNat?
      let (cs, ws) ← takeRats (3 * nq) ws
      let pts := (List.range nq).map fun q => v3Of ((cs.drop (3 * q)).take 3)
      let (cmds, items) ← parseProg ws
      some (cmds, .qry k pts :: items)
  | op :: i :: ws => do
      let i ← i.toNat?
      if op = "a" || op = "r" then
        let (c, ws) ← takeRats 6 ws
        let r : Rect Rat := ⟨v3Of (c.take 3), v3Of (c.drop 3)⟩
        let (cmds, items) ← parseProg ws
        some ((if op = "a" then Cmd.add i r else Cmd.remove i r) :: cmds, items)
      else if op = "A" || op = "R" then
        let j :: ws := ws | none
        let j ← j.toNat?
        let (cmds, items) ← parseProg ws
        some ((if op = "A" then Cmd.addSet i j else Cmd.removeSet i j) :: cmds, items)
      else if op = "N" then
        let (cmds, items) ← parseProg ws
        some (Cmd.reset i :: cmds, items)
      else if op = "S" then
        let (cmds, items) ← parseProg ws
        some (Cmd.solid i :: cmds, .sol :: items)
      else none
  | _ => none

def handleRSP (ws : List String) : Option String := do
  let (cmds, items) ← parseProg ws
  let states := progStates (fun _ => RS.empty) cmds
  let trees := runProg (fun _ => RS.empty) cmds
  let hists := solidCalls (fun _ => Hist.new) cmds
  let rec go : List Item → Nat → List String → Option (List String)
    | [], _, acc => some acc.reverse
    | .sol :: rest, nsol, acc => do
        let s ← states[nsol]?
        let t ← trees[nsol]?
        match t with
        | none => go rest (nsol + 1) ("diverges" :: acc)      -- impossible: `rectset_program_solid_eq_union`
        | some t =>
          if !t.wellSplitB then go rest (nsol + 1) ("tree-not-well-split" :: acc)   -- impossible, ditto
          else go rest (nsol + 1) (s!"R={showRects s.rects} S={showSplits s.splits}" :: acc)
    | .qry k pts :: rest, nsol, acc => do
        if k ≥ nsol then none
        let s ← states[k]?
        let t ← trees[k]?
        let h ← hists[k]?
        let bits := pts.map fun p =>
          let spec := s.rects.any fun r => r.contains p
          match t with
          | none => "D"
          | some t =>
            if t.contains p != spec then "X"
            else if generic h p && h.sem p != spec then "Y"
            else boolStr spec
        go rest nsol (s!"Q={"".intercalate bits}" :: acc)
  let outs ← go items 0 []
  some (" ".intercalate ("ok" :: outs))

end RS

def handleAll (ws : List String) : Option String :=
  match ws with
  | "bool" :: rest => handleBool rest
  | "sj" :: rest => handleSJ false rest
  | "sjm" :: rest => handleSJ true rest
  | "sjl" :: rest => handleSJ true rest true   -- the pre-repair closure (not emitted by the harness)
  | "sj2" :: rest => handleSJ2 false rest
  | "sj2m" :: rest => handleSJ2 true rest
  | "sjf" :: rest => handleSJF rest
  | "sj2f" :: rest => handleSJ2F rest
  | "sjb" :: rest => handleSJB false rest
  | "sjb2" :: rest => handleSJB true rest
  | "opt" :: rest => handleScene false rest
  | "mux" :: rest => handleScene true rest
  | "tree" :: rest => handleTree rest
  | "stk" :: rest => handleStack rest
  | "rs" :: rest => M3d.Drv.C04.RS.handleRS rest
  | "rsp" :: rest => M3d.Drv.C04.RS.handleRSP rest
  | _ => none

end M3d.Drv.C04
