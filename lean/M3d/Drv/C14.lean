import M3d.Basic
import M3d.Model.Surface
import M3d.Model.Triangulate
import M3d.Model.TriFace
import M3d.Model.TriOff
/-!
Line-protocol handler for C14.  Core-only.

Every certificate kind (`ear mesh single face profile`) carries the REAL output of the Go code
(triangles as input-vertex ids) inside the op line; the handler evaluates the proved checker
`M3d.Tri.certOk` (soundness: `M3d.C14.triangulation_certificate_sound` …) on it at `Rat` and prints
what the property requires.  The kinds `mono vtype splits earseq` print the output of the faithful
models (`monoTris`, `vertexType`, `sweepSplits`, `triangulate`) for an exact comparison.
-/
namespace M3d.Drv.C14
open M3d M3d.Tri M3d.Surface

abbrev Q := Rat

/-- `pts0` are the coordinates `x/den` as written in the op line, `sc = 2^k` the dyadic unit of
length of an `S k` header (1 without it), `off` the whole-number translation of an `O ox oy` header
(the far placement; `(0,0)` without it), `pts = sc · (pts0 + off)` the coordinates the Go code was
given (`placeP`). -/
structure Input where
  den : Nat
  lens : List Nat
  pts0 : List (P2 Q)
  sc : Q
  off : P2 Q
  pts : List (P2 Q)
  rest : List String

/-- `2^k` in `Q` for an integer exponent. -/
def pow2 (k : Int) : Q := if k < 0 then 1 / ((2 ^ k.natAbs : Nat) : Q) else ((2 ^ k.natAbs : Nat) : Q)

def takeInts : Nat → List String → Option (List Int × List String)
  | 0, ws => some ([], ws)
  | n + 1, w :: ws => do
      let i ← w.toInt?
      let (is, r) ← takeInts n ws
      pure (i :: is, r)
  | _, [] => none

def pairUp : List Int → List (Int × Int)
  | a :: b :: t => (a, b) :: pairUp t
  | _ => []

def parseLoops (den : Nat) : Nat → List String → Option (List Nat × List (P2 Q) × List String)
  | 0, ws => some ([], [], ws)
  | k + 1, w :: ws => do
      let n ← w.toNat?
      let (is, r) ← takeInts (2 * n) ws
      let ps : List (P2 Q) := (pairUp is).map fun p => ⟨(p.1 : Q) / (den : Q), (p.2 : Q) / (den : Q)⟩
      let (ls, qs, r') ← parseLoops den k r
      pure (n :: ls, ps ++ qs, r')
  | _, [] => none

/-- `[O ox oy] [S e] D den L k n₁ x y … n₂ … rest`; `O ox oy` = all points are translated by the
whole-number vector `(ox, oy)`, then `S e` = all coordinates are multiplied by `2^e`. -/
def parseInputS (off : P2 Q) (sc : Q) : List String → Option Input
  | "D" :: d :: "L" :: k :: ws => do
      let den ← d.toNat?
      if den = 0 then none
      let k ← k.toNat?
      let (lens, pts, rest) ← parseLoops den k ws
      pure ⟨den, lens, pts, sc, off, pts.map (placeP sc off.x off.y), rest⟩
  | _ => none

def parseInputO (off : P2 Q) : List String → Option Input
  | "S" :: e :: ws => do
      let e ← e.toInt?
      if e.natAbs > 200 then none
      parseInputS off (pow2 e) ws
  | ws => parseInputS off 1 ws

def parseInput : List String → Option Input
  | "O" :: ox :: oy :: ws => do
      let ox ← ox.toInt?
      let oy ← oy.toInt?
      parseInputO ⟨(ox : Q), (oy : Q)⟩ ws
  | ws => parseInputO ⟨0, 0⟩ ws

inductive TrisField | panic | foreign | tris (ts : List Tri)

def triples : List Nat → List Tri
  | a :: b :: c :: t => (a, b, c) :: triples t
  | _ => []

def parseTris : List String → Option (TrisField × List String)
  | "T" :: "x" :: r => some (.panic, r)
  | "T" :: "f" :: r => some (.foreign, r)
  | "T" :: k :: ws => do
      let k ← k.toNat?
      let ids ← (ws.take (3 * k)).mapM (·.toNat?)
      if ids.length ≠ 3 * k then none
      pure (.tris (triples ids), ws.drop (3 * k))
  | _ => none

def coordFn (pts : List (P2 Q)) : Nat → P2 Q := fun i => pts.getD i ⟨0, 0⟩

/-! ### input validation (untrusted helper: decides whether the GENERATOR produced a valid input) -/

def sgnQ (q : Q) : Int := if q < 0 then -1 else if 0 < q then 1 else 0

def onSegQ (a b p : P2 Q) : Bool :=
  orient a b p == 0 && decide (min a.x b.x ≤ p.x) && decide (p.x ≤ max a.x b.x) &&
    decide (min a.y b.y ≤ p.y) && decide (p.y ≤ max a.y b.y)

def segsTouch (a b c d : P2 Q) : Bool :=
  let o1 := sgnQ (orient a b c); let o2 := sgnQ (orient a b d)
  let o3 := sgnQ (orient c d a); let o4 := sgnQ (orient c d b)
  (o1 * o2 < 0 && o3 * o4 < 0) || onSegQ a b c || onSegQ a b d || onSegQ c d a || onSegQ c d b

def loopSlices : List Nat → List (P2 Q) → List (List (P2 Q))
  | [], _ => []
  | n :: ns, ps => ps.take n :: loopSlices ns (ps.drop n)

def edgesOfLoop (l : List (P2 Q)) : List (P2 Q × P2 Q) :=
  match l with
  | [] => []
  | a :: t => List.zip (a :: t) (t ++ [a])

/-- strictly simple closed polygon (straight vertices allowed, spikes not) -/
def simpleLoop (l : List (P2 Q)) : Bool :=
  let n := l.length
  let es := edgesOfLoop l
  decide (3 ≤ n) && decide l.Nodup && shoelace2 l != 0 &&
  (List.range n).all (fun i =>
    let a := curAt l i; let b := nextAt l i; let c := nextAt l ((i + 1) % n)
    orient a b c != 0 || onSegQ a c b) &&
  (List.range n).all fun i => (List.range n).all fun j =>
    if i + 1 < j && !(i == 0 && j + 1 == n) then
      match es[i]?, es[j]? with
      | some e, some f => !segsTouch e.1 e.2 f.1 f.2
      | _, _ => false
    else true

def insideQ (l : List (P2 Q)) (q : P2 Q) : Bool :=
  (edgesOfLoop l).foldl (fun acc e =>
    let a := e.1; let b := e.2
    if decide (a.y ≤ q.y) != decide (b.y ≤ q.y) then
      let o := orient a b q
      if a.y < b.y then (if 0 < o then !acc else acc) else (if o < 0 then !acc else acc)
    else acc) false

/-- loops simple, pairwise non-touching, orientation alternating with nesting depth (outer loops
clockwise — the documented convention: normals point out of the solid). -/
def validRegion (loops : List (List (P2 Q))) : Bool :=
  loops.all simpleLoop &&
  (List.range loops.length).all (fun i => (List.range loops.length).all fun j =>
    if i < j then
      match loops[i]?, loops[j]? with
      | some a, some b => (edgesOfLoop a).all fun e => (edgesOfLoop b).all fun f => !segsTouch e.1 e.2 f.1 f.2
      | _, _ => false
    else true) &&
  (List.range loops.length).all fun i =>
    match loops[i]? with
    | some a =>
      let depth := ((List.range loops.length).filter fun j =>
        j != i && (match loops[j]? with | some b => insideQ b (a.headD ⟨0, 0⟩) | none => false)).length
      (depth % 2 == 0) == isClockwise a
    | none => false

/-! ### output -/

def absQ (q : Q) : Q := if q < 0 then -q else q

/-- twice the region area, clockwise loops counted positively -/
def regionArea2 (loops : List (List (P2 Q))) : Q := loops.foldl (fun s l => s - shoelace2 l) 0

def expectCount (loops : List (List (P2 Q))) : Int :=
  loops.foldl (fun s l => s + (l.length : Int) + (if isClockwise l then -2 else 2)) 0

/-- Why a certificate fails (diagnosis only; the verdict is `certOk`). -/
def reason (c : Nat → P2 Q) (nv : Nat) (cw : Bool) (bnd : List Edge) (tris : List Tri) : String :=
  if !tris.all (fun t => decide (t.1 < nv) && decide (t.2.1 < nv) && decide (t.2.2 < nv)) then "foreign-vertex"
  else if tris.any (fun t => triOrient c t == 0) then "degenerate-triangle"
  else if !tris.all (fun t => if cw then decide (triOrient c t < 0) else decide (0 < triOrient c t)) then "orientation"
  else match refineAll c nv bnd, refineAll c nv (dirEdges tris) with
    | some B, some E =>
      if !decide E.Nodup then "edge-used-twice-in-same-direction(overlap)"
      else if !B.all (fun e => E.contains e) then "boundary-edge-not-covered"
      else if !B.all (fun e => !E.contains (swap e)) then "boundary-edge-traversed-backwards"
      else if !E.all (fun e => B.contains e || E.contains (swap e)) then "interior-edge-unmatched(gap-or-outside)"
      else if !decide B.Nodup then "boundary-not-simple"
      else "area"
    | _, _ => "refine"

def certLine (c : Nat → P2 Q) (nv : Nat) (cw : Bool) (lens : List Nat) (tris : List Tri) : Option String :=
  let bnd := loopEdges lens
  if certOk c nv cw bnd tris then none else some ("bad:" ++ reason c nv cw bnd tris)

def handleEar (inp : Input) : Option String := do
  let (tf, _) ← parseTris inp.rest
  let loops := loopSlices inp.lens inp.pts0
  let poly ← loops.head?
  if loops.length ≠ 1 || !simpleLoop poly then some "invalid-input" else
  -- the area of the polygon the Go code was given (`pts = sc·(pts0 + off)`; by
  -- `M3d.C14.cert_placement_invariant` it is `sc²` times the area of `pts0`, wherever it is placed)
  let a2 := absQ (shoelace2 (poly.map (placeP inp.sc inp.off.x inp.off.y)))
  match tf with
  | .panic => some s!"ok area={showRat (a2 / 2)} n=?"
  | .foreign => some "bad:foreign-vertex"
  | .tris ts =>
    -- the certificate is evaluated on the coordinates as written (`pts0`); by
    -- `M3d.C14.cert_placement_invariant` that is the verdict for the placed input `pts = sc·(pts0 + off)`
    let c := coordFn inp.pts0
    match certLine c poly.length (isClockwise poly) inp.lens ts with
    | some b => some b
    | none =>
      if ts.length + 2 ≤ poly.length then some s!"ok area={showRat (a2 / 2)} n={ts.length}"
      else some "bad:too-many-triangles"

def handleMesh (inp : Input) : Option String := do
  let (tf, _) ← parseTris inp.rest
  let loops := loopSlices inp.lens inp.pts0
  if !validRegion loops then some "invalid-input" else
  -- the area of the region the Go code was given (`pts = sc·(pts0 + off)`)
  let a2 := regionArea2 (loopSlices inp.lens inp.pts)
  let cnt := expectCount loops
  let okLine := s!"ok area={showRat (a2 / 2)} n={cnt}"
  match tf with
  | .panic => some okLine
  | .foreign => some "bad:foreign-vertex"
  | .tris ts =>
    let c := coordFn inp.pts0   -- verdict for `sc·(pts0 + off)` by `cert_placement_invariant`
    match certLine c inp.pts.length true inp.lens ts with
    | some b =>
      -- classification for the known finding: everything holds except that some triangles have
      -- zero area (exactly colinear boundary vertices)
      if edgesOkG false c inp.pts.length true (loopEdges inp.lens) ts && (ts.length : Int) = cnt then
        some s!"bad:zero-area-triangles={(ts.filter fun t => triOrient c t == 0).length}"
      else some b
    | none => if (ts.length : Int) = cnt then some okLine else some s!"bad:count={ts.length}"

def showTris (ts : List Tri) : String :=
  s!"T {ts.length}" ++ String.join (ts.map fun t => s!" {t.1} {t.2.1} {t.2.2}")

def handleMono (inp : Input) : Option String :=
  let c := coordFn inp.pts
  match monoTris c (loopsOfLens inp.lens) with
  | none => some "panic"
  | some ts => some (showTris ts)

def handleVType (inp : Input) : Option String :=
  let c := coordFn inp.pts
  let m := loopsOfLens inp.lens
  let order := sweepOrder c m
  some (" ".intercalate (order.map fun v =>
    match vtypeOf c m v with
    | some t => s!"{v}:{t.code}"
    | none => s!"{v}:panic"))

def handleSplits (inp : Input) : Option String :=
  let c := coordFn inp.pts
  match sweepSplits c (loopsOfLens inp.lens) with
  | none => some "panic"
  | some es => some (s!"S {es.length}" ++ String.join (es.map fun e => s!" {e.1} {e.2}"))

/-- ids of the points of a model triangle list -/
def idOf (pts : List (P2 Q)) (p : P2 Q) : Nat := pts.findIdx (· == p)

def handleEarSeq (inp : Input) : Option String :=
  match triangulate false (inp.pts.length + 1) inp.pts with
  | none => some "panic"
  | some ts => some (showTris (ts.map fun t => (idOf inp.pts t.1, idOf inp.pts t.2.1, idOf inp.pts t.2.2)))

/-! ### planar 3-D faces -/

def triples3 : List Int → List (Int × Int × Int)
  | a :: b :: c :: t => (a, b, c) :: triples3 t
  | _ => []

/-- The verdict for one planar face given by its corners `p3` (exact coordinates) and the triangles
the real code returned for it (ids = positions in `p3`): planarity and simplicity of the input, then
the certificate in the exact drop-a-coordinate chart (`chartXY/YZ/ZX` of `M3d/Model/TriOff.lean`) and
in the model chart of `TriangulateFace`. -/
def faceVerdict (p3 : List (Q × Q × Q)) (tf : TrisField) : String :=
  let n := p3.length
  -- Newell normal
  let es := match p3 with | [] => [] | a :: t => List.zip (a :: t) (t ++ [a])
  let nx := es.foldl (fun s e => s + (e.1.2.1 - e.2.2.1) * (e.1.2.2 + e.2.2.2)) (0 : Q)
  let ny := es.foldl (fun s e => s + (e.1.2.2 - e.2.2.2) * (e.1.1 + e.2.1)) (0 : Q)
  let nz := es.foldl (fun s e => s + (e.1.1 - e.2.1) * (e.1.2.1 + e.2.2.1)) (0 : Q)
  let p0 := p3.headD (0, 0, 0)
  let planar := p3.all fun p => nx * (p.1 - p0.1) + ny * (p.2.1 - p0.2.1) + nz * (p.2.2 - p0.2.2) == 0
  -- exact affine chart: drop a coordinate along which the normal does not vanish
  let pts : List (P2 Q) :=
    if nz != 0 then p3.map fun p => ⟨p.1, p.2.1⟩
    else if nx != 0 then p3.map fun p => ⟨p.2.1, p.2.2⟩
    else p3.map fun p => ⟨p.2.2, p.1⟩
  if !planar || !simpleLoop pts then "invalid-input" else
  -- the chart of the model of `TriangulateFace` (`faceChart`: basis2 from the first vertex off the
  -- line of the first edge).  By `M3d.C14.face_chart_faithful` it exists for every valid face and is
  -- an orientation-faithful image of it, so it is simple and the certificate has the same verdict
  -- in it as in the drop-a-coordinate chart; both are evaluated (a disagreement would be a defect of
  -- the machinery, never of the Go code, and is printed as such).
  let p3' : List (P3 Q) := p3.map fun p => ⟨p.1, p.2.1, p.2.2⟩
  match faceChart p3' with
  | none => "machinery:model-chart-missing"
  | some ch =>
  if !simpleLoop ch then "machinery:model-chart-not-simple" else
  match tf with
  | .panic => "ok n=?"
  | .foreign => "bad:foreign-vertex"
  | .tris ts =>
    let v1 := certLine (coordFn pts) n (isClockwise pts) [n] ts
    let v2 := certLine (coordFn ch) n (isClockwise ch) [n] ts
    if v1.isSome != v2.isSome then "machinery:charts-disagree" else
    match v1 with
    | some b => b
    | none => if ts.length + 2 ≤ n then s!"ok n={ts.length}" else "bad:too-many-triangles"

/-- The face is checked on the coordinates as written: planarity, simplicity and the certificate
are invariant under the uniform scaling `S e` (`M3d.C14.cert_scale_invariant`; the chart of
`sc·p` is `sc·`chart of `p`), and no area is printed for this kind. -/
def handleFaceS : List String → Option String
  | "D" :: d :: "P" :: n :: ws => do
      let den ← d.toNat?
      if den = 0 then none
      let n ← n.toNat?
      let (is, rest) ← takeInts (3 * n) ws
      let (tf, _) ← parseTris rest
      let p3 : List (Q × Q × Q) := (triples3 is).map fun p => ((p.1 : Q) / den, (p.2.1 : Q) / den, (p.2.2 : Q) / den)
      some (faceVerdict p3 tf)
  | _ => none

def handleFace : List String → Option String
  | "S" :: e :: ws => do
      let e ← e.toInt?
      if e.natAbs > 200 then none
      handleFaceS ws
  | ws => handleFaceS ws

/-! ### `ReadOFF` on files with many faces (kind `offmesh`)

`[S e] D den V nv x y z … F k (n id…)×k R r tx ty tz B nb (r0 r1 T m a b c …)×nb`: the file consists
of `r` copies of a tile (`nv` vertices, `k` faces given by tile vertex ids), copy `i` translated by
`i·(tx,ty,tz)/den`; the real output is carried as blocks: the copies `r0 ≤ i < r1` all received the
triangles `a b c …` (tile vertex ids).  Required (`M3d.C14.readOFF_every_face`: the face loop returns
the triangulation of EVERY face of the file): each face of each copy is covered by a certified
triangulation, every triangle lies in exactly one face.  The certificate is evaluated for the first
and the last copy of a block; it is the same for every copy of the block because a translation of
space is a translation in each drop-a-coordinate chart (`M3d.C14.off_copy_cert_transfer`). -/

structure OffFile where
  nv : Nat
  verts : List (Q × Q × Q)
  faces : List (List Nat)
  copies : Nat
  shift : Q × Q × Q

def parseFaces : Nat → List String → Option (List (List Nat) × List String)
  | 0, ws => some ([], ws)
  | k + 1, w :: ws => do
      let n ← w.toNat?
      let ids ← (ws.take n).mapM (·.toNat?)
      if ids.length ≠ n then none
      let (fs, r) ← parseFaces k (ws.drop n)
      pure (ids :: fs, r)
  | _, [] => none

def parseBlocks : Nat → List String → Option (List (Nat × Nat × List Tri))
  | 0, _ => some []
  | k + 1, r0 :: r1 :: ws => do
      let r0 ← r0.toNat?
      let r1 ← r1.toNat?
      match ← parseTris ws with
      | (.tris ts, rest) =>
        let bs ← parseBlocks k rest
        pure ((r0, r1, ts) :: bs)
      | _ => none
  | _, _ => none

def inFace (f : List Nat) (t : Tri) : Bool := f.contains t.1 && f.contains t.2.1 && f.contains t.2.2

/-- `none` = every face of copy `cp` is covered by a certified triangulation taken from `ts`. -/
def copyVerdict (o : OffFile) (cp : Nat) (ts : List Tri) : Option String :=
  if !ts.all (fun t => (o.faces.filter (inFace · t)).length == 1) then some "triangle-not-in-exactly-one-face"
  else (List.range o.faces.length).findSome? fun j =>
    let f := o.faces.getD j []
    let p3 := f.map fun v =>
      let p := o.verts.getD v (0, 0, 0)
      (p.1 + (cp : Q) * o.shift.1, p.2.1 + (cp : Q) * o.shift.2.1, p.2.2 + (cp : Q) * o.shift.2.2)
    let tj : List Tri := (ts.filter (inFace f)).map fun t =>
      (f.findIdx (· == t.1), f.findIdx (· == t.2.1), f.findIdx (· == t.2.2))
    let v := faceVerdict p3 (.tris tj)
    if v.startsWith "ok" then none else some s!"face={j}:{v}"

def blocksTile (copies : Nat) : Nat → List (Nat × Nat × List Tri) → Bool
  | at_, [] => at_ == copies
  | at_, (r0, r1, _) :: bs => r0 == at_ && decide (r0 < r1) && blocksTile copies r1 bs

def handleOffMeshS : List String → Option String
  | "D" :: d :: "V" :: nv :: ws => do
      let den ← d.toNat?
      if den = 0 then none
      let nv ← nv.toNat?
      let (is, rest) ← takeInts (3 * nv) ws
      let verts : List (Q × Q × Q) := (triples3 is).map fun p => ((p.1 : Q) / den, (p.2.1 : Q) / den, (p.2.2 : Q) / den)
      match rest with
      | "F" :: k :: rest => do
        let k ← k.toNat?
        let (faces, rest) ← parseFaces k rest
        match rest with
        | "R" :: r :: tx :: ty :: tz :: "B" :: rest => do
          let copies ← r.toNat?
          let tx ← tx.toInt?
          let ty ← ty.toInt?
          let tz ← tz.toInt?
          let o : OffFile := ⟨nv, verts, faces, copies, ((tx : Q) / den, (ty : Q) / den, (tz : Q) / den)⟩
          if !faces.all (fun f => f.all (· < nv) && decide f.Nodup) || copies == 0 then some "invalid-input" else
          let total := copies * faces.length
          match rest with
          | ["x"] => some s!"ok faces={total} tris=?"
          | ["f"] => some "bad:foreign-vertex"
          | nb :: rest => do
            let nb ← nb.toNat?
            let bs ← parseBlocks nb rest
            if !blocksTile copies 0 bs then some "machinery:blocks-do-not-tile-the-copies" else
            let bad := bs.findSome? fun b =>
              match copyVerdict o b.1 b.2.2 with
              | some v => some (b.1, v)
              | none => (copyVerdict o (b.2.1 - 1) b.2.2).map fun v => (b.2.1 - 1, v)
            match bad with
            | some (cp, v) =>
              if (v.splitOn "invalid-input").length > 1 then some "invalid-input"
              else some s!"bad:copy={cp} {v}"
            | none =>
              let tris := bs.foldl (fun s b => s + (b.2.1 - b.1) * b.2.2.length) 0
              some s!"ok faces={total} tris={tris}"
          | _ => none
        | _ => none
      | _ => none
  | _ => none

def handleOffMesh : List String → Option String
  | "S" :: e :: ws => do
      let e ← e.toInt?
      if e.natAbs > 200 then none
      handleOffMeshS ws
  | ws => handleOffMeshS ws

/-! ### ProfileMesh -/

/-- rotate a triangle so that its smallest id comes first (orientation preserved) -/
def canonTri (t : Tri) : Tri :=
  if t.1 ≤ t.2.1 ∧ t.1 ≤ t.2.2 then t
  else if t.2.1 ≤ t.1 ∧ t.2.1 ≤ t.2.2 then (t.2.1, t.2.2, t.1)
  else (t.2.2, t.1, t.2.1)

def triLt (a b : Tri) : Bool :=
  a.1 < b.1 || (a.1 == b.1 && (a.2.1 < b.2.1 || (a.2.1 == b.2.1 && a.2.2 < b.2.2)))

def canonSoup (ts : List Tri) : List Tri := sortBy triLt (ts.map canonTri)

/-- The extrusion range: `Z z0 z1` = lattice values `z/den` in the region's unit of length;
`ZQ q0 q1` = the exact values (`num/den`) of the two float64 arguments, whatever they are. -/
def parseZ (inp : Input) : List String → Option (Q × Q × List String)
  | "Z" :: z0 :: z1 :: rest => do
      let z0 ← z0.toInt?
      let z1 ← z1.toInt?
      pure ((z0 : Q) / inp.den * inp.sc, (z1 : Q) / inp.den * inp.sc, rest)
  | "ZQ" :: z0 :: z1 :: rest => do
      let q0 ← parseRat z0
      let q1 ← parseRat z1
      pure (q0, q1, rest)
  | _ => none

def handleProfile (inp : Input) : Option String :=
  match parseZ inp inp.rest with
  | some (q0, q1, rest) => do
      let (tf, _) ← parseTris rest
      let loops := loopSlices inp.lens inp.pts
      if !validRegion loops || q1 ≤ q0 then some "invalid-input" else
      let a2 := regionArea2 loops
      let cnt := 2 * expectCount loops + 2 * (inp.pts.length : Int)
      let okLine := s!"ok vol={showRat (a2 / 2 * (q1 - q0))} n={cnt}"
      match tf with
      | .panic => some okLine
      | .foreign => some "bad:foreign-vertex"
      | .tris ts =>
        -- the caps (bottom triangles) and the model of ProfileMesh built from them
        let caps : List Tri := (ts.filter fun t => t.1 % 2 == 0 && t.2.1 % 2 == 0 && t.2.2 % 2 == 0).map
          fun t => (t.1 / 2, t.2.1 / 2, t.2.2 / 2)
        if canonSoup (profileSoup caps) != canonSoup ts then some "bad:soup-differs-from-profileSoup-model"
        else if !edgesOkG false (coordFn inp.pts) inp.pts.length true (loopEdges inp.lens) caps then
          some "bad:caps-not-glued-to-boundary"
        else if !closedManifold ts then some "bad:not-closed-manifold"
        else
          let v6 := vol6 (lift (coordFn inp.pts) q0 q1) ts
          if v6 / 6 != a2 / 2 * (q1 - q0) then some s!"bad:volume={showRat (v6 / 6)}"
          else if (ts.length : Int) ≠ cnt then some s!"bad:count={ts.length}"
          else some okLine
  | none => none

def handleAll (ws : List String) : Option String :=
  match ws with
  | "ear" :: r => parseInput r >>= handleEar
  -- `model3d.Triangulate` (the wrapper `TriangulateFace` / `ReadOFF` call): the same contract as
  -- `model2d.Triangulate`, for every size, start vertex and order (`M3d.C14.triangulate_any_start_any_order`)
  | "ear3" :: r => parseInput r >>= handleEar
  | "mesh" :: r => parseInput r >>= handleMesh
  | "single" :: r => parseInput r >>= handleMesh
  | "mono" :: r => parseInput r >>= handleMono
  | "vtype" :: r => parseInput r >>= handleVType
  | "splits" :: r => parseInput r >>= handleSplits
  | "earseq" :: r => parseInput r >>= handleEarSeq
  | "face" :: r => handleFace r
  | "off" :: r => handleFace r      -- the same face read through `ReadOFF`
  | "offmesh" :: r => handleOffMesh r
  | "profile" :: r => parseInput r >>= handleProfile
  | _ => none

end M3d.Drv.C14
