import M3d.Basic
import M3d.Model.Bounded
import M3d.Model.BoundedPoly
import M3d.Model.BoundedPolyRect
import M3d.Model.BoundedRectSet
import M3d.Model.BoundedTriLine
/-!
Line-protocol handler for C03 (core-only).

    c03 tree <q|f> <expr> | <ntab> <tab entries> | <npts> <points>
        -> "<dim> lo.. hi.. <valid> <answers>"    (answers: one char per point: 0, 1 or m)
    c03 cab <f> axis n0 n1 n2 sign                 -> circleAxisBound
    c03 cyl|cone|torus|capsule <f> params          -> Min()/Max()
    c03 shell ...                                  -> "ok"  (the property's requirement)
    c03 polycut <q|f> dim n (s nx ny nz m)*n npts pts -> "1 <answers>": valid bounds, and for every point the
        half-space test of the UNSCALED system (`polyContains (unscaledCs l)`), which is what
        `ConvexPolytope.Solid().Contains` of the scaled system has to answer
        (`M3d.C03.polytope_scale_invariant`, `wrapper_does_not_cut_polytope`)
    c03 pvert <f> dim n (nx ny nz m)*n               -> the vertices `Mesh()` enumerates (`meshVerts3/2`), in order
    c03 prect <q|f> dim lo hi npts pts               -> the requirement for `NewConvexPolytopeRect(lo, hi)`: the constraints
        `rectCons3/rectCons2`, the box test of `[lo, hi]` per point (`M3d.C03.rect_polytope_contains`), the box `lo hi 1`
        that `Solid()` has to report (`rect_polytope_mesh_box`; `inv` for an inverted rect), and the box test again for
        `Solid().Contains` (`wrapper_does_not_cut_polytope_rect`)
    c03 triline q th p1 p2 npts pts                   -> "1 <answers>": valid bounds and per point the definition of
        `toolbox3d.TriangularLine(th, p1, p2)` (`triDef`), which `Contains` has to answer (`M3d.C03.wrapper_does_not_cut_triline`)
    c03 rsprog q <nstmts> <stmts> <npts> pts          -> per `Solid()` call of the program over `*RectSet` objects
        (`a|r <i> <6 coords>` = `v_i.Add/Remove`, `A|R <i> <j>` = `v_i.AddRectSet/RemoveRectSet(v_j)`, `N <i>` = `v_i = NewRectSet()`,
        `S <i>` = `v_i.Solid()`): `1:` (valid bounds) + per point "some rect stored in the receiver at that moment contains it"
        — the requirement (`M3d.C03.rectset_program_bounds`, `rectset_program_answers`), computed on a store of values

All numbers cross the boundary as exact rationals `num/den`; mode `q` runs the model at `Rat`
(the instance the theorems cover), mode `f` at `Float` (same operations, same order as the Go code).
Opaque leaves (`orc`, SDFs, colliders, metaball fields, height maps) answer from the table of the
real implementation's answers recorded by the harness; a query the table does not have is answered
with a default, the case is evaluated with both defaults and `m` is printed if the answer depends
on it.
-/
namespace M3d.Drv.C03
open M3d M3d.Bd

/-- What the generic evaluator needs to know about the scalar type. -/
structure Num (α : Type) where
  parse : String → Option α
  render : α → String
  sq : α → α
  eps : α
  fall : α → α
  big : α

def floatOfRat (q : Rat) : Float :=
  let n := q.num
  let a := Float.ofNat n.natAbs
  let v := a / Float.ofNat q.den
  if n < 0 then -v else v

def ratOfFloat (x : Float) : Rat := (ratOfBits x.toBits).getD 0

/-- exact square root of a rational when it has one, otherwise a lower approximation (mode `q`
never takes the root of a non-square). -/
def ratSqrt (q : Rat) : Rat :=
  if q ≤ 0 then 0 else
    let n := q.num.natAbs
    let d := q.den
    let sn := Nat.sqrt n
    let sd := Nat.sqrt d
    if sn * sn = n ∧ sd * sd = d then ((sn : Int) : Rat) / ((sd : Int) : Rat)
    else ((Nat.sqrt (n * d * 1048576 * 1048576) : Int) : Rat) / (((d * 1048576 : Nat) : Int) : Rat)

def epsRat : Rat := ratOfFloat 1e-8

def numQ : Num Rat :=
  { parse := parseRat, render := showRat, sq := ratSqrt, eps := epsRat,
    fall := fun r => if r ≤ 0 then 1000000000000000000000000000000 else 1 / ((r * r) * (r * r)),
    big := 1000000000000000000000000000000 }

def numF : Num Float :=
  { parse := fun s => (parseRat s).map floatOfRat,
    render := fun x => if x.isNaN then "nan" else if x.isInf then (if x > 0 then "+inf" else "-inf") else showRat (ratOfFloat x),
    sq := Float.sqrt, eps := 1e-8,
    fall := fun r => if r ≤ 0 then (1.0 / 0.0) else let r2 := r * r; 1 / (r2 * r2),
    big := 1e300 }

section Generic
variable {α : Type} [Add α] [Sub α] [Mul α] [Div α] [Neg α] [LE α] [LT α]
  [DecidableLE α] [DecidableLT α] [OfNat α 0] [OfNat α 1] [BEq α]

/-- One recorded answer of the real implementation: tag, leaf id, point, extra argument, value. -/
structure Entry (α : Type) where
  tag : String
  id : Nat
  p : Pt α
  r : α
  v : α

def ptEq (a b : Pt α) : Bool := a 0 == b 0 && a 1 == b 1 && a 2 == b 2

def lookup (tab : List (Entry α)) (tag : String) (id : Nat) (p : Pt α) (r : α) : Option α :=
  (tab.find? fun e => e.tag == tag && e.id == id && ptEq e.p p && e.r == r).map (·.v)

def lookupB (tab : List (Entry α)) (dflt : Bool) (tag : String) (id : Nat) (p : Pt α) (r : α) : Bool :=
  match lookup tab tag id p r with
  | some v => (0 : α) < v
  | none => dflt

def lookupV (N : Num α) (tab : List (Entry α)) (dflt : Bool) (tag : String) (id : Nat) (p : Pt α) : α :=
  match lookup tab tag id p 0 with
  | some v => v
  | none => if dflt then N.big else -N.big

abbrev P (β : Type) := List String → Option (β × List String)

def pNum (N : Num α) : P α
  | w :: ws => (N.parse w).map (·, ws)
  | [] => none

def pNat : P Nat
  | w :: ws => w.toNat?.map (·, ws)
  | [] => none

def pPt (N : Num α) : P (Pt α) := fun ws => do
  let (x, ws) ← pNum N ws
  let (y, ws) ← pNum N ws
  let (z, ws) ← pNum N ws
  pure (mk3 x y z, ws)

def pBox (N : Num α) : P (Box α) := fun ws => do
  let (lo, ws) ← pPt N ws
  let (hi, ws) ← pPt N ws
  pure (⟨lo, hi⟩, ws)

def pDim : P Bool
  | "3" :: ws => some (true, ws)
  | "2" :: ws => some (false, ws)
  | _ => none

def pAxis : P (Fin 3)
  | "0" :: ws => some (0, ws)
  | "1" :: ws => some (1, ws)
  | "2" :: ws => some (2, ws)
  | _ => none

def pOptNum (N : Num α) : P (Option α)
  | "-inf" :: ws => some (none, ws)
  | "+inf" :: ws => some (none, ws)
  | ws => (pNum N ws).map fun (v, ws) => (some v, ws)

def pMany {β : Type} (p : P β) : Nat → P (List β)
  | 0, ws => some ([], ws)
  | n + 1, ws => do
      let (x, ws) ← p ws
      let (xs, ws) ← pMany p n ws
      pure (x :: xs, ws)

def pXf (N : Num α) : P (Xf1 α)
  | "tr" :: ws => do let (o, ws) ← pPt N ws; pure (.translate o, ws)
  | "sc" :: ws => do let (s, ws) ← pNum N ws; pure (.scale s, ws)
  | "vs" :: ws => do let (v, ws) ← pPt N ws; pure (.vecScale v, ws)
  | "m3" :: ws => do
      let (m, ws) ← pMany (pNum N) 9 ws
      let (mi, ws) ← pMany (pNum N) 9 ws
      match m, mi with
      | [a0, a1, a2, a3, a4, a5, a6, a7, a8], [b0, b1, b2, b3, b4, b5, b6, b7, b8] =>
        pure (.matrix3 ⟨a0, a1, a2, a3, a4, a5, a6, a7, a8⟩ ⟨b0, b1, b2, b3, b4, b5, b6, b7, b8⟩, ws)
      | _, _ => none
  | "m2" :: ws => do
      let (m, ws) ← pMany (pNum N) 8 ws
      match m with
      | [a, b, c, d, ia, ib, ic, id] => pure (.matrix2 a b c d ia ib ic id, ws)
      | _ => none
  | _ => none

def pSDFL (N : Num α) (tab : List (Entry α)) (dflt : Bool) : P (SDFL α)
  | "sdfl" :: ws => do
      let (d3, ws) ← pDim ws
      let (box, ws) ← pBox N ws
      let (id, ws) ← pNat ws
      pure (⟨d3, box, fun p => lookupV N tab dflt "v" id p⟩, ws)
  | _ => none

def pColL (N : Num α) (tab : List (Entry α)) (dflt : Bool) : P (ColL α)
  | "coll" :: ws => do
      let (d3, ws) ← pDim ws
      let (box, ws) ← pBox N ws
      let (id, ws) ← pNat ws
      pure (⟨d3, box, fun p => lookupB tab dflt "i" id p 0, fun p r => lookupB tab dflt "s" id p r⟩, ws)
  | _ => none

def pMBL (N : Num α) (tab : List (Entry α)) (dflt : Bool) : P (MBL α)
  | "mbl" :: ws => do
      let (d3, ws) ← pDim ws
      let (box, ws) ← pBox N ws
      let (id, ws) ← pNat ws
      let (nf, ws) ← pNat ws
      let (fs, ws) ← pMany (pNum N) nf ws
      pure (⟨d3, box, fun p => lookupV N tab dflt "v" id p, fun d => fs.foldl (fun d k => d * k) d⟩, ws)
  | _ => none

partial def pRect (N : Num α) : P (RectTree α)
  | "e" :: ws => some (.empty, ws)
  | "s" :: ws => do let (b, ws) ← pBox N ws; pure (.single b.lo b.hi, ws)
  | "n" :: ws => do
      let (b, ws) ← pBox N ws
      let (ax, ws) ← pAxis ws
      let (c, ws) ← pNum N ws
      let (l, ws) ← pRect N ws
      let (r, ws) ← pRect N ws
      pure (.node b ax c l r, ws)
  | _ => none

partial def pExpr (N : Num α) (tab : List (Entry α)) (dflt : Bool) : P (SolidExpr α)
  | "rect" :: ws => do
      let (d3, ws) ← pDim ws
      let (b, ws) ← pBox N ws
      pure (.prim (rectS d3 b.lo b.hi), ws)
  | "sph" :: ws => do
      let (d3, ws) ← pDim ws
      let (c, ws) ← pPt N ws
      let (r, ws) ← pNum N ws
      pure (.prim (sphereS d3 c r), ws)
  | "orc" :: ws => do
      let (d3, ws) ← pDim ws
      let (b, ws) ← pBox N ws
      let (id, ws) ← pNat ws
      pure (.prim ⟨d3, b, fun p => lookupB tab dflt "b" id p 0⟩, ws)
  | "chk" :: ws => do
      let (b, ws) ← pBox N ws
      let (e, ws) ← pExpr N tab dflt ws
      pure (.checked b e, ws)
  | "cache" :: ws => do let (e, ws) ← pExpr N tab dflt ws; pure (.cache e, ws)
  | "join" :: ws => do
      let (n, ws) ← pNat ws
      match ← pMany (pExpr N tab dflt) n ws with
      | (a :: rest, ws) => pure (.joined a rest, ws)
      | _ => none
  | "inter" :: ws => do
      let (n, ws) ← pNat ws
      match ← pMany (pExpr N tab dflt) n ws with
      | (a :: rest, ws) => pure (.inter a rest, ws)
      | _ => none
  | "sub" :: ws => do
      let (a, ws) ← pExpr N tab dflt ws
      let (b, ws) ← pExpr N tab dflt ws
      pure (.sub a b, ws)
  | "stack" :: ws => do
      let (n, ws) ← pNat ws
      match ← pMany (pExpr N tab dflt) n ws with
      | (a :: rest, ws) => pure (.stack a rest, ws)
      | _ => none
  | "stacked" :: ws => do
      let (n, ws) ← pNat ws
      match ← pMany (pExpr N tab dflt) n ws with
      | (a :: rest, ws) => pure (.stacked a rest, ws)
      | _ => none
  | "xf" :: ws => do
      let (k, ws) ← pNat ws
      let (ts, ws) ← pMany (pXf N) k ws
      let (e, ws) ← pExpr N tab dflt ws
      pure (.xform ts e, ws)
  | "prof" :: ws => do
      let (e, ws) ← pExpr N tab dflt ws
      let (a, ws) ← pNum N ws
      let (b, ws) ← pNum N ws
      pure (.profile e a b, ws)
  | "cross" :: ws => do
      let (e, ws) ← pExpr N tab dflt ws
      let (ax, ws) ← pAxis ws
      let (v, ws) ← pNum N ws
      pure (.cross e ax v, ws)
  | "rev" :: ws => do
      let (e, ws) ← pExpr N tab dflt ws
      let (ax, ws) ← pPt N ws
      pure (.revolve e ax, ws)
  | "clamp" :: ws => do
      let (e, ws) ← pExpr N tab dflt ws
      let (ax, ws) ← pAxis ws
      let (mn, ws) ← pOptNum N ws
      let (mx, ws) ← pOptNum N ws
      pure (.clamp e ax mn mx, ws)
  | "sdf" :: ws => do
      let (s, ws) ← pSDFL N tab dflt ws
      let (o, ws) ← pNum N ws
      pure (.sdf s o, ws)
  | "smooth" :: ws => do
      let (r, ws) ← pNum N ws
      let (n, ws) ← pNat ws
      match ← pMany (pSDFL N tab dflt) n ws with
      | (a :: rest, ws) => pure (.smooth r a rest, ws)
      | _ => none
  | "inset" :: ws => do
      let (c, ws) ← pColL N tab dflt ws
      let (i, ws) ← pNum N ws
      pure (.inset c i, ws)
  | "hollow" :: ws => do
      let (c, ws) ← pColL N tab dflt ws
      let (r, ws) ← pNum N ws
      pure (.hollow c r, ws)
  | "mb" :: ws => do
      let (rt, ws) ← pNum N ws
      let (n, ws) ← pNat ws
      match ← pMany (pMBL N tab dflt) n ws with
      | (a :: rest, ws) =>
        let box := unionBoxes a.box (rest.map (·.box))
        let out ← mbOutset (valueForOutset N.fall (a :: rest)) (N.fall rt) (boxDiag N.sq a.d3 box) N.eps
        pure (.metaball N.fall rt out a rest, ws)
      | _ => none
  | "poly" :: ws => do
      let (d3, ws) ← pDim ws
      let (b, ws) ← pBox N ws
      let (n, ws) ← pNat ws
      let (cs, ws) ← pMany (fun ws => do
        let (nm, ws) ← pPt N ws
        let (mx, ws) ← pNum N ws
        pure ((nm, mx), ws)) n ws
      pure (.polytope d3 b cs, ws)
  | "rset" :: ws => do let (t, ws) ← pRect N ws; pure (.rectSet t, ws)
  | "hm" :: ws => do
      let (lo, ws) ← pPt N ws
      let (hi, ws) ← pPt N ws
      let (a, ws) ← pNum N ws
      let (b, ws) ← pNum N ws
      let (id, ws) ← pNat ws
      pure (.heightMap lo hi a b (fun p => lookupB tab dflt "b" id p 0), ws)
  | _ => none

def pEntry (N : Num α) : P (Entry α)
  | tag :: ws => do
      let (id, ws) ← pNat ws
      let (p, ws) ← pPt N ws
      let (r, ws) ← pNum N ws
      let (v, ws) ← pNum N ws
      pure (⟨tag, id, p, r, v⟩, ws)
  | [] => none

def showPt (N : Num α) (d3 : Bool) (p : Pt α) : String :=
  if d3 then s!"{N.render (p 0)} {N.render (p 1)} {N.render (p 2)}" else s!"{N.render (p 0)} {N.render (p 1)}"

def showBox (N : Num α) (d3 : Bool) (b : Box α) : String := s!"{showPt N d3 b.lo} {showPt N d3 b.hi}"

/-- `tree`: bounds, `BoundsValid`'s order test, and `Contains` at every point. -/
def runTree (N : Num α) (ws : List String) : Option String := do
  -- split at the two "|" separators
  let exprToks := ws.takeWhile (· ≠ "|")
  let rest := (ws.dropWhile (· ≠ "|")).drop 1
  let (ntab, rest) ← pNat rest
  let (tab, rest) ← pMany (pEntry N) ntab rest
  let rest ← match rest with | "|" :: r => some r | _ => none
  let (npts, rest) ← pNat rest
  let (pts, rest) ← pMany (pPt N) npts rest
  if !rest.isEmpty then none
  let (e0, r0) ← pExpr N tab false exprToks
  let (e1, _) ← pExpr N tab true exprToks
  if !r0.isEmpty then none
  let s0 := e0.eval N.sq N.eps
  let s1 := e1.eval N.sq N.eps
  let answers := pts.map fun p =>
    let a := s0.f p
    let b := s1.f p
    if a != b then "m" else boolStr a
  pure s!"{if s0.d3 then 3 else 2} {showBox N s0.d3 s0.box} {boolStr (boxValid s0.d3 s0.box)} {String.join answers}"

/-- bounds of the sqrt-based primitives (mode `f`: bit-for-bit) -/
def runPrim (N : Num α) (kind : String) (ws : List String) : Option String := do
  match kind with
  | "cab" =>
    let (ax, ws) ← pAxis ws
    let (n, ws) ← pPt N ws
    let (sgn, _) ← pNum N ws
    pure (N.render (circleAxisBound N.sq N.eps ax n sgn))
  | "cyl" =>
    let (p1, ws) ← pPt N ws
    let (p2, ws) ← pPt N ws
    let (r, _) ← pNum N ws
    pure (showBox N true (cylinderBox N.sq N.eps p1 p2 r))
  | "cone" =>
    let (tip, ws) ← pPt N ws
    let (base, ws) ← pPt N ws
    let (r, _) ← pNum N ws
    pure (showBox N true (coneBox N.sq N.eps tip base r))
  | "torus" =>
    let (c, ws) ← pPt N ws
    let (ax, ws) ← pPt N ws
    let (o, ws) ← pNum N ws
    let (i, _) ← pNum N ws
    pure (showBox N true (torusBox N.sq N.eps c ax o i))
  | "capsule" =>
    let (d3, ws) ← pDim ws
    let (p1, ws) ← pPt N ws
    let (p2, ws) ← pPt N ws
    let (r, _) ← pNum N ws
    pure (showBox N d3 (capsuleBox p1 p2 r))
  | "sphere" =>
    let (d3, ws) ← pDim ws
    let (c, ws) ← pPt N ws
    let (r, _) ← pNum N ws
    pure (showBox N d3 (sphereS d3 c r).box)
  | _ => none

/-- `polycut`: the requirement for `ConvexPolytope.Solid()` of the scaled system. -/
def runPolyCut (N : Num α) (ws : List String) : Option String := do
  let (_, ws) ← pDim ws
  let (n, ws) ← pNat ws
  let (l, ws) ← pMany (fun ws => do
    let (s, ws) ← pNum N ws
    let (nm, ws) ← pPt N ws
    let (mx, ws) ← pNum N ws
    pure ((⟨s, nm, mx⟩ : SCon α), ws)) n ws
  let (npts, ws) ← pNat ws
  let (pts, ws) ← pMany (pPt N) npts ws
  if !ws.isEmpty then none
  let cs := unscaledCs l
  pure s!"1 {String.join (pts.map fun p => boolStr (polyContains cs p))}"

/-- `pvert`: the vertices that `Mesh()` enumerates, `tol` = the literal `1e-8`. -/
def runPolyVerts (N : Num α) (ws : List String) : Option String := do
  let (d3, ws) ← pDim ws
  let (n, ws) ← pNat ws
  let (cs, ws) ← pMany (fun ws => do
    let (nm, ws) ← pPt N ws
    let (mx, ws) ← pNum N ws
    pure ((nm, mx), ws)) n ws
  if !ws.isEmpty then none
  let vs := if d3 then meshVerts3 N.sq N.eps cs else meshVerts2 N.sq N.eps cs
  pure s!"{vs.length}{String.join (vs.map fun v => " " ++ showPt N d3 v)}"

/-- `prect`: the requirement for `NewConvexPolytopeRect(lo, hi)`, its half-space test and its `Solid()`. -/
def runPolyRect (N : Num α) (ws : List String) : Option String := do
  let (d3, ws) ← pDim ws
  let (lo, ws) ← pPt N ws
  let (hi, ws) ← pPt N ws
  let (npts, ws) ← pNat ws
  let (pts, ws) ← pMany (pPt N) npts ws
  if !ws.isEmpty then none
  let cs := if d3 then rectCons3 lo hi else rectCons2 lo hi
  let box : Box α := ⟨lo, hi⟩
  let ans := String.join (pts.map fun p => boolStr (inB d3 box p))
  let boxStr := if boxValid d3 box then showBox N d3 box ++ " 1" else "inv"
  let csStr := String.join (cs.map fun l => " " ++ showPt N d3 l.1 ++ " " ++ N.render l.2)
  pure s!"{cs.length}{csStr} | {ans} | {boxStr} | {ans}"

/-- `triline`: the requirement for `toolbox3d.TriangularLine(th, p1, p2)` (and the one-segment
`TriangularPolygon`): valid bounds and, per point, the membership test of the definition
(`M3d.C03.wrapper_does_not_cut_triline`, `triline_bounds_ordered`). -/
def runTriLine (N : Num α) (ws : List String) : Option String := do
  let (th, ws) ← pNum N ws
  let (p1, ws) ← pPt N ws
  let (p2, ws) ← pPt N ws
  let (npts, ws) ← pNat ws
  let (pts, ws) ← pMany (pPt N) npts ws
  if !ws.isEmpty then none
  let ans := String.join (pts.map fun p => boolStr (triDef th p1 p2 p))
  pure s!"{boolStr (boxValid true (triBox th p1 p2))} {ans}"

def handleWith (N : Num α) : List String → Option String
  | "triline" :: ws => runTriLine N ws
  | "tree" :: ws => runTree N ws
  | "polycut" :: ws => runPolyCut N ws
  | "pvert" :: ws => runPolyVerts N ws
  | "prect" :: ws => runPolyRect N ws
  | kind :: ws => runPrim N kind ws
  | [] => none

end Generic

/-! ### programs over `toolbox3d.RectSet` objects (`rsprog`) -/
section RsProg
open M3d.RectSet

def pRat : P Rat
  | w :: ws => (parseRat w).map (·, ws)
  | [] => none

def pV3 : P (V3 Rat) := fun ws => do
  let (x, ws) ← pRat ws
  let (y, ws) ← pRat ws
  let (z, ws) ← pRat ws
  pure (⟨x, y, z⟩, ws)

def pCmd : P (Cmd Rat)
  | "a" :: ws => do
    let (i, ws) ← pNat ws; let (lo, ws) ← pV3 ws; let (hi, ws) ← pV3 ws
    pure (.add i ⟨lo, hi⟩, ws)
  | "r" :: ws => do
    let (i, ws) ← pNat ws; let (lo, ws) ← pV3 ws; let (hi, ws) ← pV3 ws
    pure (.remove i ⟨lo, hi⟩, ws)
  | "A" :: ws => do let (i, ws) ← pNat ws; let (j, ws) ← pNat ws; pure (.addSet i j, ws)
  | "R" :: ws => do let (i, ws) ← pNat ws; let (j, ws) ← pNat ws; pure (.removeSet i j, ws)
  | "N" :: ws => do let (i, ws) ← pNat ws; pure (.reset i, ws)
  | "S" :: ws => do let (i, ws) ← pNat ws; pure (.solid i, ws)
  | _ => none

/-- `rsprog`: the requirement for every `Solid()` call of the program. -/
def runRsProg (ws : List String) : Option String := do
  let (n, ws) ← pNat ws
  let (cs, ws) ← pMany pCmd n ws
  let (npts, ws) ← pNat ws
  let (pts, ws) ← pMany pV3 npts ws
  if !ws.isEmpty then none
  pure (" ".intercalate (progAnswers cs pts))

end RsProg

def handleAll (ws : List String) : Option String :=
  match ws with
  -- the property's requirement for an opaque leaf: bounds valid, every shell point rejected
  | "shell" :: _ => some "ok"
  | "rsprog" :: "q" :: rest => runRsProg rest
  | kind :: "q" :: rest => handleWith numQ (kind :: rest)
  | kind :: "f" :: rest => handleWith numF (kind :: rest)
  | _ => none

end M3d.Drv.C03
