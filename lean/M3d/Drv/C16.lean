import M3d.Basic
import M3d.Model.CodecIO
import M3d.Model.CodecListAlloc
/-! Line-protocol handler for C16 (decoders on arbitrary bytes: outcome class and data). Core-only. -/
namespace M3d.Drv.C16
open M3d M3d.Codec M3d.Codec.IO

def run {α} (p : P α) (ws : List String) : Option α :=
  match p ws with
  | some (a, []) => some a
  | _ => none

def pFile : P (Bytes × Tables) := do
  let b ← pBytes
  let t ← pTables
  pure (b, t)

def showRecs64 (ts : List (List UInt64)) : String :=
  "ok " ++ toString ts.length ++ String.join (ts.map fun t => String.join (t.map fun x => " " ++ hex64 x))

def showRecs32 (ts : List (List UInt32)) : String :=
  "ok " ++ toString ts.length ++ String.join (ts.map fun t => String.join (t.map fun x => " " ++ hex32 x))

def showPolys (polys : List (List V3)) : String :=
  "ok " ++ toString polys.length ++ String.join (polys.map fun p =>
    " " ++ toString p.length ++ String.join (p.map fun v => " " ++ showC3 v))

def showRGB (c : RGB) : String := s!"{c.1},{c.2.1},{c.2.2}"
def widen3 (v : UInt32 × UInt32 × UInt32) : C3 := (widen v.1, widen v.2.1, widen v.2.2)

def isNaN64 (x : UInt64) : Bool := (x >>> 52) &&& 0x7ff = 0x7ff && x &&& 0xfffffffffffff ≠ 0

/-- `CoordMap.Load`: a key with a NaN coordinate is never found (Go `==`) -/
def lookupColor (verts : List C3) (colors : List RGB) (p : C3) : String :=
  if isNaN64 p.1 || isNaN64 p.2.1 || isNaN64 p.2.2 then "-" else
  match ((verts.zip colors).filter fun (q, _) => key3 q = key3 p).getLast? with
  | some (_, c) => showRGB c
  | none => "-"

def pPair : P (Nat × Nat) := do
  let t ← tok
  match t.splitOn ":" with
  | [a, b] => match a.toNat?, b.toNat? with
    | some x, some y => pure (x, y)
    | _, _ => failure
  | _ => failure

/-- `plycap <declared> <k> <m> <stored:slots>…`: the capacity requests the REAL list loop made for a
list property with `declared` entries declared and `k` present.  Answer `ok total <slots>` iff they meet
`requestsOK` (then `M3d.C16.ply_requests_spec_linear` bounds the total). -/
def plycap (declared k : Nat) (reqs : List (Nat × Nat)) : String :=
  if requestsOK goAppendSlack declared k reqs then "ok total " ++ toString (sumSlots reqs)
  else "out-of-policy"

def handleAll (ws : List String) : Option String :=
  match ws with
  | "plycap" :: rest => do
    let ((n, k), table) ← run (do let n ← pNat; let k ← pNat; let t ← pCounted pPair; pure ((n, k), t)) rest
    some (plycap n k table)
  | "stl" :: rest => do
    let (b, t) ← run pFile rest
    some (match stlDecodeMesh widen t.pf32 b with | .ok rs => showRecs64 rs | .error _ => "error")
  | "stlr" :: rest => do
    let (b, t) ← run pFile rest
    some (match stlDecode t.pf32 b with | .ok rs => showRecs32 rs | .error _ => "error")
  | "off" :: rest => do
    let (b, t) ← run pFile rest
    some (match offDecode t.pf64 b with | some ps => showPolys ps | none => "error")
  | "offm" :: rest => do
    let (b, t) ← run pFile rest
    some (match offDecodeMesh t.pf64 b with
      | some ps => if ps.all (fun p => p.length = 3) then showPolys ps else "polygons"
      | none => "error")
  | "plyh" :: rest => do
    let (b, _) ← run pFile rest
    some (match decodeHeader b with | some h => showHeader h | none => "error")
  | "plyg" :: rest => do
    let (b, t) ← run pFile rest
    some (match plyOpen b with
      | .error _ => "openerr"
      | .ok (h, rest) =>
        -- a binary element without properties and a huge count: see harness/cmd/c16/decode.go
        if h.format ≠ .text && h.elements.any (fun e => e.props.isEmpty && decide (e.count > 4096)) then
          "unbounded-empty-rows"
        else
          showHeader h ++ " | " ++ showReadAll (readElems t.floatText h.format 0 h.elements rest))
  | "plyc" :: rest => do
    let (b, t) ← run pFile rest
    some (match readColorPLY t.floatText b with
      | .error _ => "error"
      | .ok r =>
        let vs := r.verts.map widen3
        "ok " ++ toString r.tris.length ++ String.join (r.tris.map fun tr =>
          String.join (tr.map fun v => " " ++ showC3 (widen3 v) ++ " " ++ lookupColor vs r.colors (widen3 v))))
  | "csv" :: rest => do
    let (b, t) ← run pFile rest
    some (match csvDecode t.pf64 b with
      | .ok rows => showRecs64 rows
      | .error => "error"
      | .unsupported => "unsupported")
  | _ => none

end M3d.Drv.C16
