import M3d.Basic
import M3d.Model.MarchingMesh
import M3d.Model.C2F
import M3d.Model.SoupFast
import M3d.Model.RectSpec
import M3d.Model.McFan
import M3d.Model.RectMesh
import M3d.Model.C01Search
import M3d.Gen.McTable
/-! Line-protocol handler for C01. Core-only. -/
namespace M3d.Drv.C01
open M3d M3d.Marching

/-- bit string "0101…" → lookup -/
def bitsOf (s : String) : Array Bool := (s.toList.map (· == '1')).toArray

def showGV (v : GV) : String := s!"{v.1}.{v.2.1}.{v.2.2}"
def showGV2 (v : GV2) : String := s!"{v.1}.{v.2}"

def strLt (a b : String) : Bool := a < b

/-! #### manifold deciders on id soups: `M3d.SoupFast` (sort/bucket based, proved equivalent to the
`M3d.Surface` predicates in `M3d/Lemmas/SoupFast.lean`) — used on the model meshes and on real outputs -/

/-- closed + consistently oriented + edge-manifold + no degenerate triangle (ids below `n`) -/
def balancedOk (n : Nat) (ts : List (Nat × Nat × Nat)) : Bool :=
  SoupFast.idsBelow n ts && SoupFast.edgeBalancedFast n ts && Surface.noDegenerate ts

/-- every vertex fan is one cycle -/
def fanCyclesOk (n : Nat) (ts : List (Nat × Nat × Nat)) : Bool := SoupFast.fanConnectedFast n ts

/-- one incoming and one outgoing segment at every vertex, no loop segment -/
def inOutOk (ss : List (Nat × Nat)) : Bool := SoupFast.inOutOneFast ss && Surface.noLoopSeg ss

def tripleUp : List Nat → List (Nat × Nat × Nat)
  | a :: b :: c :: rest => (a, b, c) :: tripleUp rest
  | _ => []

def pairUp : List Nat → List (Nat × Nat)
  | a :: b :: rest => (a, b) :: pairUp rest
  | _ => []

/-- `mc nx ny nz bits` : marching cubes of a lattice labelling.  Output: verdicts of the
deciders on the model mesh, then the sorted triangle list. -/
def handleMc (ws : List String) : Option String := do
  let [nx, ny, nz, bits] := ws | none
  let nx ← nx.toNat?; let ny ← ny.toNat?; let nz ← nz.toNat?
  let b := bitsOf bits
  if b.size ≠ nx * ny * nz then none
  -- points 0..n+1 per axis, the outer layer is outside; cells 0..n
  let lab : Nat → Nat → Nat → Bool := fun x y z =>
    if x = 0 || y = 0 || z = 0 || x > nx || y > ny || z > nz then false
    else b.getD ((x-1) + nx * ((y-1) + ny * (z-1))) false
  let mesh := mcMesh Gen.mcTable (nx+1) (ny+1) (nz+1) lab
  let strs := mesh.map fun t => s!"{showGV t.1},{showGV t.2.1},{showGV t.2.2}"
  let wx := 2 * nx + 3; let wy := 2 * ny + 3; let wz := 2 * nz + 3
  let enc : GV → Nat := fun v => v.1 + wx * (v.2.1 + wy * v.2.2)
  let ids : List (Nat × Nat × Nat) := mesh.map fun t => (enc t.1, enc t.2.1, enc t.2.2)
  let n := wx * wy * wz
  let sorted := (strs.toArray.qsort strLt).toList
  -- orientation: exact signed volume (×6, doubled coordinates) of the model mesh is positive
  let vol : Int := mesh.foldl (fun acc t =>
    let a := t.1; let b := t.2.1; let c := t.2.2
    let ax : Int := a.1; let ay : Int := a.2.1; let az : Int := a.2.2
    let bx : Int := b.1; let by' : Int := b.2.1; let bz : Int := b.2.2
    let cx : Int := c.1; let cy : Int := c.2.1; let cz : Int := c.2.2
    acc + (ax * (by' * cz - bz * cy) - ay * (bx * cz - bz * cx) + az * (bx * cy - by' * cx))) 0
  let outward := mesh.isEmpty || vol > 0
  some s!"balanced={boolStr (balancedOk n ids)} fans={boolStr (fanCyclesOk n ids)} outward={boolStr outward} n={mesh.length} {";".intercalate sorted}"

/-- `ms nx ny bits` : marching squares of a lattice labelling. -/
def handleMs (ws : List String) : Option String := do
  let [nx, ny, bits] := ws | none
  let nx ← nx.toNat?; let ny ← ny.toNat?
  let b := bitsOf bits
  if b.size ≠ nx * ny then none
  let lab : Nat → Nat → Bool := fun x y =>
    if x = 0 || y = 0 || x > nx || y > ny then false else b.getD ((x-1) + nx * (y-1)) false
  let mesh := msMesh Gen.msTable (nx+1) (ny+1) lab
  let strs := mesh.map fun s => s!"{showGV2 s.1},{showGV2 s.2}"
  let w := 2 * nx + 3
  let ids : List (Nat × Nat) := mesh.map fun s => (s.1.1 + w * s.1.2, s.2.1 + w * s.2.2)
  let sorted := (strs.toArray.qsort strLt).toList
  -- orientation: contained side on the right of every segment ⇒ shoelace sum negative
  let area2 : Int := mesh.foldl (fun acc s =>
    let x1 : Int := s.1.1; let y1 : Int := s.1.2; let x2 : Int := s.2.1; let y2 : Int := s.2.2
    acc + (x1 * y2 - x2 * y1)) 0
  let outward := mesh.isEmpty || area2 < 0
  some s!"inout={boolStr (inOutOk ids)} outward={boolStr outward} n={mesh.length} {";".intercalate sorted}"

/-- `bitmap w h bits` : Bitmap.Mesh. Points are quarter pixels, shifted by one pixel (+4). -/
def handleBitmap (ws : List String) : Option String := do
  let [w, h, bits] := ws | none
  let w ← w.toNat?; let h ← h.toNat?
  let b := bitsOf bits
  if b.size ≠ w * h then none
  let g : Nat → Nat → Bool := fun i j =>
    if i = 0 || j = 0 || i > w || j > h then false else b.getD ((i-1) + w * (j-1)) false
  let segs := bitmapMesh g w h
  let showP := fun (p : Nat) => s!"{p / 65536}.{p % 65536}"
  let strs := segs.map fun s => s!"{showP (segStart s)},{showP (segEnd s)}"
  let sorted := (strs.toArray.qsort strLt).toList
  let area2 : Int := segs.foldl (fun acc s =>
    let a := segStart s; let b := segEnd s
    let x1 : Int := a / 65536; let y1 : Int := a % 65536; let x2 : Int := b / 65536; let y2 : Int := b % 65536
    acc + (x1 * y2 - x2 * y1)) 0
  let outward := segs.isEmpty || area2 < 0
  some s!"inout={boolStr (inOutOne segs)} outward={boolStr outward} n={segs.length} {";".intercalate sorted}"

/-- exact signed volume ×6 of a soup with rational vertex coordinates -/
def signedVol6 (vs : Array (Rat × Rat × Rat)) (ts : List (Nat × Nat × Nat)) : Rat :=
  ts.foldl (fun acc t =>
    let a := vs.getD t.1 (0,0,0); let b := vs.getD t.2.1 (0,0,0); let c := vs.getD t.2.2 (0,0,0)
    acc + (a.1 * (b.2.1 * c.2.2 - b.2.2 * c.2.1) - a.2.1 * (b.1 * c.2.2 - b.2.2 * c.1)
      + a.2.2 * (b.1 * c.2.1 - b.2.1 * c.1))) 0

/-- `soup3 nv <x y z hex>*nv nt <a b c>*nt` : a real generator's output; verdict of the deciders
plus the sign of the exact signed volume (outward orientation). -/
def handleSoup3 (ws : List String) : Option String := do
  let nv ← (← ws.head?).toNat?
  let cs ← ((ws.drop 1).take (3 * nv)).mapM fun h => do
    let n ← parseHex h
    ratOfBits n.toUInt64
  if cs.length ≠ 3 * nv then none
  let rec trip : List Rat → List (Rat × Rat × Rat)
    | a :: b :: c :: r => (a, b, c) :: trip r
    | _ => []
  let vs := (trip cs).toArray
  let ws := ws.drop (1 + 3 * nv)
  let nt ← (← ws.head?).toNat?
  let ids ← parseNats ((ws.drop 1).take (3 * nt))
  if ids.length ≠ 3 * nt then none
  let ts := tripleUp ids
  let vol := signedVol6 vs ts
  some s!"balanced={boolStr (balancedOk nv ts)} fans={boolStr (fanCyclesOk nv ts)} outward={boolStr (decide (vol > 0))}"

/-- `soup2 ns <a b>*ns` : a real 2-D generator's output as id pairs. -/
def handleSoup2 (ws : List String) : Option String := do
  let ns ← (← ws.head?).toNat?
  let ids ← parseNats ((ws.drop 1).take (2 * ns))
  if ids.length ≠ 2 * ns then none
  let ss := pairUp ids
  some s!"inout={boolStr (inOutOk ss)}"


/-! #### coarse-to-fine kinds -/

/-! multiset hash shared with harness/cmd/c01/c2f.go (FNV-1a over the integers of one item + a finaliser;
items combined by wrapping sum and by xor) -/
def fnvStep (h : UInt64) (v : Nat) : UInt64 := (h ^^^ v.toUInt64) * 1099511628211

def finalize (h : UInt64) : UInt64 :=
  let h := h ^^^ (h >>> 32)
  let h := h * 0x9E3779B97F4A7C15
  h ^^^ (h >>> 29)

def mix (vals : List Nat) : UInt64 := finalize (vals.foldl fnvStep 14695981039346656037)

def msetHash (items : List (List Nat)) : String :=
  let (n, s, x) := items.foldl (fun (acc : Nat × UInt64 × UInt64) it =>
    let m := mix it
    (acc.1 + 1, acc.2.1 + m, acc.2.2 ^^^ m)) (0, 0, 0)
  s!"n={n} s={hex64 s} x={hex64 x}"

/-- labelling over lattice POINTS `0 … n-1` per axis, false elsewhere -/
def lab3p (b : Array Bool) (nx ny nz : Nat) : Nat → Nat → Nat → Bool := fun x y z =>
  if x < nx && y < ny && z < nz then b.getD (x + nx * (y + ny * z)) false else false

def lab2p (b : Array Bool) (nx ny : Nat) : Nat → Nat → Bool := fun x y =>
  if x < nx && y < ny then b.getD (x + nx * y) false else false

/-- the outer layer of the fine labelling is outside (hypothesis `hb` of the watertightness theorems) -/
def outerEmpty2 (lab : Nat → Nat → Bool) (nx ny : Nat) : Bool :=
  (List.range nx).all (fun x => !lab x 0 && !lab x (ny - 1)) &&
  (List.range ny).all (fun y => !lab 0 y && !lab (nx - 1) y)

def outerEmpty3 (lab : Nat → Nat → Nat → Bool) (nx ny nz : Nat) : Bool :=
  (List.range nz).all fun z => (List.range ny).all fun y => (List.range nx).all fun x =>
    !(x == 0 || y == 0 || z == 0 || x + 1 == nx || y + 1 == ny || z + 1 == nz) || !lab x y z

/-- `msc2f nx ny bits m R cnx cny cbits tag…` : `MarchingSquaresC2F` with `bigDelta = m·smallDelta` and an
`extraSpace` of `E = R - m` fine steps; fine lattice `nx × ny` POINTS, coarse lattice `cnx × cny` points
(both start one spacing below `s.Min()`).  The driver itself evaluates the documented cover
`M3d.C2F.seenAll2 m R`; when it holds (and the outer layer is empty) the answer is the PLAIN fine mesh —
`M3d.C01.c2f_ms_closed_under_documented_cover` + `M3d.C01MarginTie.c2f_ms_closed_code_margin` — with the
verdicts of the deciders on it; otherwise `unseen` (the harness only emits cases for which it holds, so
`unseen` shows up as a disagreement). -/
def handleMsC2F (ws : List String) : Option String := do
  let nx :: ny :: bits :: m :: r :: cnx :: cny :: cbits :: _ := ws | none
  let nx ← nx.toNat?; let ny ← ny.toNat?; let m ← m.toNat?; let r ← r.toNat?
  let cnx ← cnx.toNat?; let cny ← cny.toNat?
  let b := bitsOf bits
  let cb := bitsOf cbits
  if b.size ≠ nx * ny || cb.size ≠ cnx * cny || m == 0 || r < m then none
  let labF := lab2p b nx ny
  if !outerEmpty2 labF nx ny then some "outer-layer-not-empty"
  else if !M3d.C2F.seenAll2Fast m r labF (lab2p cb cnx cny) (nx - 1) (ny - 1) (cnx - 1) (cny - 1) then
    some "unseen"
  else
    let mesh := msMesh Gen.msTable (nx - 1) (ny - 1) labF
    let w := 2 * nx + 1
    let ss : List (Nat × Nat) := mesh.map fun s => (s.1.1 + w * s.1.2, s.2.1 + w * s.2.2)
    let area2 : Int := mesh.foldl (fun acc s =>
      let x1 : Int := s.1.1; let y1 : Int := s.1.2; let x2 : Int := s.2.1; let y2 : Int := s.2.2
      acc + (x1 * y2 - x2 * y1)) 0
    let outward := mesh.isEmpty || area2 < 0
    let h := msetHash (mesh.map fun s => [s.1.1, s.1.2, s.2.1, s.2.2])
    some s!"inout={boolStr (inOutOk ss)} outward={boolStr outward} {h}"

/-- `mcc2f nx ny nz bits m R cnx cny cnz cbits tag…` : `MarchingCubesC2F`, as `msc2f`
(`M3d.C01.c2f_mc_edges_balanced_under_documented_cover`). -/
def handleMcC2F (ws : List String) : Option String := do
  let nx :: ny :: nz :: bits :: m :: r :: cnx :: cny :: cnz :: cbits :: _ := ws | none
  let nx ← nx.toNat?; let ny ← ny.toNat?; let nz ← nz.toNat?; let m ← m.toNat?; let r ← r.toNat?
  let cnx ← cnx.toNat?; let cny ← cny.toNat?; let cnz ← cnz.toNat?
  let b := bitsOf bits
  let cb := bitsOf cbits
  if b.size ≠ nx * ny * nz || cb.size ≠ cnx * cny * cnz || m == 0 || r < m then none
  let labF := lab3p b nx ny nz
  if !outerEmpty3 labF nx ny nz then some "outer-layer-not-empty"
  else if !M3d.C2F.seenAll3Fast m r labF (lab3p cb cnx cny cnz) (nx - 1) (ny - 1) (nz - 1)
      (cnx - 1) (cny - 1) (cnz - 1) then
    some "unseen"
  else
    let mesh := mcMesh Gen.mcTable (nx - 1) (ny - 1) (nz - 1) labF
    let wx := 2 * nx + 1; let wy := 2 * ny + 1; let wz := 2 * nz + 1
    let enc : GV → Nat := fun v => v.1 + wx * (v.2.1 + wy * v.2.2)
    let ts : List (Nat × Nat × Nat) := mesh.map fun t => (enc t.1, enc t.2.1, enc t.2.2)
    let n := wx * wy * wz
    let vol : Int := mesh.foldl (fun acc t =>
      let a := t.1; let b := t.2.1; let c := t.2.2
      let ax : Int := a.1; let ay : Int := a.2.1; let az : Int := a.2.2
      let bx : Int := b.1; let by' : Int := b.2.1; let bz : Int := b.2.2
      let cx : Int := c.1; let cy : Int := c.2.1; let cz : Int := c.2.2
      acc + (ax * (by' * cz - bz * cy) - ay * (bx * cz - bz * cx) + az * (bx * cy - by' * cx))) 0
    let outward := mesh.isEmpty || vol > 0
    let h := msetHash (mesh.map fun t =>
      [t.1.1, t.1.2.1, t.1.2.2, t.2.1.1, t.2.1.2.1, t.2.1.2.2, t.2.2.1, t.2.2.2.1, t.2.2.2.2])
    some s!"balanced={boolStr (balancedOk n ts)} fans={boolStr (fanCyclesOk n ts)} outward={boolStr outward} {h}"

/-- `mcs nx ny nz bits tag…` : a SEARCHED member of the marching-cubes family (`MarchingCubesSearch`,
`MarchingCubesSearchFilter`, the mesh of `MarchingCubesInterior`) on a solid with this lattice labelling (lattice
POINTS, outer layer included), whatever the solid answers between the lattice points.  The harness snapped every
real vertex to the lattice edge it lies STRICTLY inside of; the answer is the plain lattice mesh
(`M3d.C01.search_vertex_strictly_inside_edge`, `search_positions_distinct`,
`mc_search_edges_balanced_on_every_lattice`, `mc_search_fans_one_cycle_on_every_lattice`). -/
def handleMcs (ws : List String) : Option String := do
  let nx :: ny :: nz :: bits :: _ := ws | none
  let nx ← nx.toNat?; let ny ← ny.toNat?; let nz ← nz.toNat?
  let b := bitsOf bits
  if b.size ≠ nx * ny * nz then none
  let labF := lab3p b nx ny nz
  if !outerEmpty3 labF nx ny nz then some "outer-layer-not-empty"
  else
    let mesh := mcMesh Gen.mcTable (nx - 1) (ny - 1) (nz - 1) labF
    let wx := 2 * nx + 1; let wy := 2 * ny + 1; let wz := 2 * nz + 1
    let enc : GV → Nat := fun v => v.1 + wx * (v.2.1 + wy * v.2.2)
    let ts : List (Nat × Nat × Nat) := mesh.map fun t => (enc t.1, enc t.2.1, enc t.2.2)
    let n := wx * wy * wz
    let vol : Int := mesh.foldl (fun acc t =>
      let a := t.1; let b := t.2.1; let c := t.2.2
      let ax : Int := a.1; let ay : Int := a.2.1; let az : Int := a.2.2
      let bx : Int := b.1; let by' : Int := b.2.1; let bz : Int := b.2.2
      let cx : Int := c.1; let cy : Int := c.2.1; let cz : Int := c.2.2
      acc + (ax * (by' * cz - bz * cy) - ay * (bx * cz - bz * cx) + az * (bx * cy - by' * cx))) 0
    let outward := mesh.isEmpty || vol > 0
    let h := msetHash (mesh.map fun t =>
      [t.1.1, t.1.2.1, t.1.2.2, t.2.1.1, t.2.1.2.1, t.2.1.2.2, t.2.2.1, t.2.2.2.1, t.2.2.2.2])
    some s!"balanced={boolStr (balancedOk n ts)} fans={boolStr (fanCyclesOk n ts)} outward={boolStr outward} {h}"

/-- `mss nx ny bits tag…` : `MarchingSquaresSearch(+Filter)`, as `mcs`
(`M3d.C01.ms_search_closed_on_every_lattice`). -/
def handleMss (ws : List String) : Option String := do
  let nx :: ny :: bits :: _ := ws | none
  let nx ← nx.toNat?; let ny ← ny.toNat?
  let b := bitsOf bits
  if b.size ≠ nx * ny then none
  let labF := lab2p b nx ny
  if !outerEmpty2 labF nx ny then some "outer-layer-not-empty"
  else
    let mesh := msMesh Gen.msTable (nx - 1) (ny - 1) labF
    let w := 2 * nx + 1
    let ss : List (Nat × Nat) := mesh.map fun s => (s.1.1 + w * s.1.2, s.2.1 + w * s.2.2)
    let area2 : Int := mesh.foldl (fun acc s =>
      let x1 : Int := s.1.1; let y1 : Int := s.1.2; let x2 : Int := s.2.1; let y2 : Int := s.2.2
      acc + (x1 * y2 - x2 * y1)) 0
    let outward := mesh.isEmpty || area2 < 0
    let h := msetHash (mesh.map fun s => [s.1.1, s.1.2, s.2.1, s.2.2])
    some s!"inout={boolStr (inOutOk ss)} outward={boolStr outward} {h}"

/-- rotate a triangle so that its lexicographically least vertex comes first (orientation kept) -/
def gvLt (a b : GV) : Bool :=
  a.1 < b.1 || (a.1 == b.1 && (a.2.1 < b.2.1 || (a.2.1 == b.2.1 && a.2.2 < b.2.2)))

def canonRot (t : GV × GV × GV) : GV × GV × GV :=
  let a := t.1; let b := t.2.1; let c := t.2.2
  if gvLt b a then (if gvLt c b then (c, a, b) else (b, c, a))
  else (if gvLt c a then (c, a, b) else (a, b, c))

/-- `mcj nx ny nz bits rev tag…` : `MarchingCubesConj`.  `nx ny nz bits` is the lattice labelling of the TRANSFORMED solid
(lattice POINTS, outer layer included), `rev = 1` iff the joined transform reverses orientation.  The harness mapped the
returned mesh forward again (exactly) and snapped it to that lattice.  Answer: the plain lattice mesh, every triangle
reversed iff `rev = 1` — an outward mesh of the original space, seen from the lattice space through an
orientation-reversing map, is inside out (`M3d.C01.conj_flip_iff_reversing`, `conj_normals_follow_the_solid`, `mc_conj_outward_on_every_lattice_partial`,
`mc_conj_edges_balanced_on_every_lattice`, `mc_conj_fans_one_cycle_on_every_lattice`).  Triangles are hashed up to rotation.
`outward` = the sign of the lattice-space volume, times −1 for `rev = 1`, is positive. -/
def handleMcj (ws : List String) : Option String := do
  let nx :: ny :: nz :: bits :: rev :: _ := ws | none
  let nx ← nx.toNat?; let ny ← ny.toNat?; let nz ← nz.toNat?; let rev ← rev.toNat?
  let b := bitsOf bits
  if b.size ≠ nx * ny * nz || rev > 1 then none
  let labF := lab3p b nx ny nz
  if !outerEmpty3 labF nx ny nz then some "outer-layer-not-empty"
  else
    let mesh0 := mcMesh Gen.mcTable (nx - 1) (ny - 1) (nz - 1) labF
    let mesh := if rev == 1 then mesh0.map C01Search.flip3 else mesh0
    let wx := 2 * nx + 1; let wy := 2 * ny + 1; let wz := 2 * nz + 1
    let enc : GV → Nat := fun v => v.1 + wx * (v.2.1 + wy * v.2.2)
    let ts : List (Nat × Nat × Nat) := mesh.map fun t => (enc t.1, enc t.2.1, enc t.2.2)
    let n := wx * wy * wz
    let vol : Int := mesh.foldl (fun acc t =>
      let a := t.1; let b := t.2.1; let c := t.2.2
      let ax : Int := a.1; let ay : Int := a.2.1; let az : Int := a.2.2
      let bx : Int := b.1; let by' : Int := b.2.1; let bz : Int := b.2.2
      let cx : Int := c.1; let cy : Int := c.2.1; let cz : Int := c.2.2
      acc + (ax * (by' * cz - bz * cy) - ay * (bx * cz - bz * cx) + az * (bx * cy - by' * cx))) 0
    let outward := mesh.isEmpty || (if rev == 1 then vol < 0 else vol > 0)
    let h := msetHash (mesh.map fun t0 =>
      let t := canonRot t0
      [t.1.1, t.1.2.1, t.1.2.2, t.2.1.1, t.2.1.2.1, t.2.1.2.2, t.2.2.1, t.2.2.2.1, t.2.2.2.2])
    some s!"balanced={boolStr (balancedOk n ts)} fans={boolStr (fanCyclesOk n ts)} outward={boolStr outward} {h}"

/-- `msj nx ny bits rev tag…` : `MarchingSquaresConj`, as `mcj` (`M3d.C01.ms_conj_closed_on_every_lattice`,
`conj2_flip_iff_reversing`, `ms_conj_outward_on_every_lattice_partial`). -/
def handleMsj (ws : List String) : Option String := do
  let nx :: ny :: bits :: rev :: _ := ws | none
  let nx ← nx.toNat?; let ny ← ny.toNat?; let rev ← rev.toNat?
  let b := bitsOf bits
  if b.size ≠ nx * ny || rev > 1 then none
  let labF := lab2p b nx ny
  if !outerEmpty2 labF nx ny then some "outer-layer-not-empty"
  else
    let mesh0 := msMesh Gen.msTable (nx - 1) (ny - 1) labF
    let mesh := if rev == 1 then mesh0.map C01Search.flip2 else mesh0
    let w := 2 * nx + 1
    let ss : List (Nat × Nat) := mesh.map fun s => (s.1.1 + w * s.1.2, s.2.1 + w * s.2.2)
    let area2 : Int := mesh.foldl (fun acc s =>
      let x1 : Int := s.1.1; let y1 : Int := s.1.2; let x2 : Int := s.2.1; let y2 : Int := s.2.2
      acc + (x1 * y2 - x2 * y1)) 0
    let outward := mesh.isEmpty || (if rev == 1 then area2 > 0 else area2 < 0)
    let h := msetHash (mesh.map fun s => [s.1.1, s.1.2, s.2.1, s.2.2])
    some s!"inout={boolStr (inOutOk ss)} outward={boolStr outward} {h}"

/-- `soup2o nv <x y hex>*nv ns <a b>*ns tag…` : a real 2-D output with exact coordinates: verdict of the deciders plus
the sign of the exact signed area (contained side on the right of every segment ⇒ shoelace sum negative). -/
def handleSoup2o (ws : List String) : Option String := do
  let nv ← (← ws.head?).toNat?
  let cs ← ((ws.drop 1).take (2 * nv)).mapM fun h => do
    let n ← parseHex h
    ratOfBits n.toUInt64
  if cs.length ≠ 2 * nv then none
  let rec pr : List Rat → List (Rat × Rat)
    | a :: b :: r => (a, b) :: pr r
    | _ => []
  let vs := (pr cs).toArray
  let ws := ws.drop (1 + 2 * nv)
  let ns ← (← ws.head?).toNat?
  let ids ← parseNats ((ws.drop 1).take (2 * ns))
  if ids.length ≠ 2 * ns then none
  let ss := pairUp ids
  let area2 : Rat := ss.foldl (fun acc s =>
    let a := vs.getD s.1 (0, 0); let b := vs.getD s.2 (0, 0)
    acc + (a.1 * b.2 - b.1 * a.2)) 0
  some s!"inout={boolStr (inOutOk ss)} outward={boolStr (decide (area2 < 0))}"


/-- `same <what> tag…` : the harness compared the coarse-to-fine output face-for-face (exact float
coordinates) with the direct fine `Marching…Search` output of the same solid; the theorems
`c2f_*_under_documented_cover` (through `M3d.C12.c2f_ms_sound / c2f_mc_sound`) demand `same`. -/
def handleSame (_ws : List String) : Option String := some "same"

/-! #### box sets (`RectSet.Mesh`) -/

/-- `rectset nb <lo.x lo.y lo.z hi.x hi.y hi.z : 16-hex floats>*nb nv <x y z hex>*nv nt <a b c>*nt` : the boxes added to a
`RectSet` and the real output of `Mesh()`.  The verdicts are computed from the boxes as a point set
(`M3d.RectSpec`) and the real triangles only: closed manifold (proved deciders), exact signed volume
positive, every triangle facing from the contained to the excluded side, winding number = membership at
one generic sample point of every grid cell, volume = volume of the union. -/
def handleRectSet (ws : List String) : Option String := do
  let nb ← (← ws.head?).toNat?
  let bc ← ((ws.drop 1).take (6 * nb)).mapM fun h => do
    let n ← parseHex h
    ratOfBits n.toUInt64
  if bc.length ≠ 6 * nb then none
  let rec boxes : List Rat → List RectSpec.Box
    | a :: b :: c :: d :: e :: f :: r => { lo := (a, b, c), hi := (d, e, f) } :: boxes r
    | _ => []
  let bs := boxes bc
  let ws := ws.drop (1 + 6 * nb)
  let nv ← (← ws.head?).toNat?
  let cs ← ((ws.drop 1).take (3 * nv)).mapM fun h => do
    let n ← parseHex h
    ratOfBits n.toUInt64
  if cs.length ≠ 3 * nv then none
  let rec trip : List Rat → List (Rat × Rat × Rat)
    | a :: b :: c :: r => (a, b, c) :: trip r
    | _ => []
  let vs := (trip cs).toArray
  let ws := ws.drop (1 + 3 * nv)
  let nt ← (← ws.head?).toNat?
  let ids ← parseNats ((ws.drop 1).take (3 * nt))
  if ids.length ≠ 3 * nt then none
  let ts := tripleUp ids
  let tris := ts.map fun t => (vs.getD t.1 (0,0,0), vs.getD t.2.1 (0,0,0), vs.getD t.2.2 (0,0,0))
  let sx := RectSpec.splits bs 0; let sy := RectSpec.splits bs 1; let sz := RectSpec.splits bs 2
  let onGrid := vs.all fun p => sx.contains p.1 && sy.contains p.2.1 && sz.contains p.2.2
  let v := RectSpec.judge bs tris onGrid
  let vol := RectSpec.vol6 tris
  if v.degenerate then some "degenerate-sample-position"
  else some s!"balanced={boolStr (balancedOk nv ts)} fans={boolStr (fanCyclesOk nv ts)} outward={boolStr (decide (vol > 0))} tri={boolStr v.tri} wind={boolStr v.wind} vol={boolStr v.vol}"

/-! #### box-set histories (`Add`, `Remove`, `AddRectSet`, `RemoveRectSet`) -/

open M3d.RectSet in
/-- `[ (a|r <6 hex floats> | A [ … ] | R [ … ])* ]` -/
partial def parseHist (h : Hist Rat) : List String → Option (Hist Rat × List String)
  | "]" :: ws => some (h, ws)
  | op :: ws =>
    if op == "a" || op == "r" then do
      let cs ← (ws.take 6).mapM fun t => do
        let n ← parseHex t
        ratOfBits n.toUInt64
      let [a, b, c, d, e, f] := cs | none
      let r : Rect Rat := ⟨⟨a, b, c⟩, ⟨d, e, f⟩⟩
      parseHist (if op == "a" then .add h r else .remove h r) (ws.drop 6)
    else if op == "A" || op == "R" then do
      let "[" :: ws := ws | none
      let (h1, ws) ← parseHist .new ws
      parseHist (if op == "A" then .addSet h h1 else .removeSet h h1) ws
    else none
  | [] => none

def ratKey (r : Rat) : List Nat := [if r.num < 0 then 2 * r.num.natAbs + 1 else 2 * r.num.natAbs, r.den]

open M3d.RectSet in
def v3Key (v : V3 Rat) : List Nat := ratKey v.x ++ ratKey v.y ++ ratKey v.z

open M3d.RectSet in
/-- `rsmesh [ history ]` : `RectSet.ExactMesh()` after the history — the stored boxes by C04's model of the
operations (`M3d.RectSet.Hist.eval`), the face cancellation by `M3d.RectMesh.exactMesh`; answer = multiset hash of
the triangles (exact coordinates).  Validates the faithful model that `M3d.C01.exactmesh_*` are about. -/
def handleRsMesh (ws : List String) : Option String := do
  let "[" :: ws := ws | none
  let (h, _) ← parseHist .new ws
  let tris := RectMesh.exactMesh h.eval.rects
  some (msetHash (tris.map fun t => v3Key t.1 ++ v3Key t.2.1 ++ v3Key t.2.2))

open M3d.RectSet in
/-- `meshrect <lo.x lo.y lo.z hi.x hi.y hi.z : hex>` : `model3d.NewMeshRect` — the model triangle list
(`M3d.RectMesh.meshRect`, `M3d.C01.mesh_rect_is_closed_manifold`), as a multiset hash over exact coordinates. -/
def handleMeshRect (ws : List String) : Option String := do
  let cs ← (ws.take 6).mapM fun t => do
    let n ← parseHex t
    ratOfBits n.toUInt64
  let [a, b, c, d, e, f] := cs | none
  if !(a < d && b < e && c < f) then some "not-positive-extent"
  else
    let tris := RectMesh.meshRect (⟨⟨a, b, c⟩, ⟨d, e, f⟩⟩ : Rect Rat)
    some (msetHash (tris.map fun t => v3Key t.1 ++ v3Key t.2.1 ++ v3Key t.2.2))

/-- `meshrect2 <lo.x lo.y hi.x hi.y : hex>` : `model2d.NewMeshRect` (`M3d.C01.mesh_rect2_is_closed`). -/
def handleMeshRect2 (ws : List String) : Option String := do
  let cs ← (ws.take 4).mapM fun t => do
    let n ← parseHex t
    ratOfBits n.toUInt64
  let [a, b, c, d] := cs | none
  if !(a < c && b < d) then some "not-positive-extent"
  else
    let segs := RectMesh.meshRect2 (a, b) (c, d)
    some (msetHash (segs.map fun s => ratKey s.1.1 ++ ratKey s.1.2 ++ ratKey s.2.1 ++ ratKey s.2.2))

open M3d.RectSet in
/-- `rectops [ history ] nv <x y z hex>*nv nt <a b c>*nt` : `RectSet.Mesh()` after a history with removals, judged
against the point set of the history (`Hist.sem` at generic points = the kept cells of the full grid) on the grid
of its ESSENTIAL planes. -/
def handleRectOps (ws : List String) : Option String := do
  let "[" :: ws := ws | none
  let (h, ws) ← parseHist .new ws
  let nv ← (← ws.head?).toNat?
  let cs ← ((ws.drop 1).take (3 * nv)).mapM fun t => do
    let n ← parseHex t
    ratOfBits n.toUInt64
  if cs.length ≠ 3 * nv then none
  let rec trip : List Rat → List (Rat × Rat × Rat)
    | a :: b :: c :: r => (a, b, c) :: trip r
    | _ => []
  let vs := (trip cs).toArray
  let ws := ws.drop (1 + 3 * nv)
  let nt ← (← ws.head?).toNat?
  let ids ← parseNats ((ws.drop 1).take (3 * nt))
  if ids.length ≠ 3 * nt then none
  let ts := tripleUp ids
  let tris := ts.map fun t => (vs.getD t.1 (0,0,0), vs.getD t.2.1 (0,0,0), vs.getD t.2.2 (0,0,0))
  let all : List RectSpec.Box := h.boxes.map fun r => { lo := (r.lo.x, r.lo.y, r.lo.z), hi := (r.hi.x, r.hi.y, r.hi.z) }
  let fx := RectSpec.splits all 0; let fy := RectSpec.splits all 1; let fz := RectSpec.splits all 2
  let sem : RectSpec.P3 → Bool := fun p => h.sem ⟨p.1, p.2.1, p.2.2⟩
  let kept := RectSpec.keptCells sem fx fy fz
  let ex := RectSpec.essentialSplits sem fx fy fz 0
  let ey := RectSpec.essentialSplits sem fx fy fz 1
  let ez := RectSpec.essentialSplits sem fx fy fz 2
  if kept.isEmpty then
    some (if ts.isEmpty then "empty-set empty-mesh" else "empty-set nonempty-mesh")
  else
    let onGrid := vs.all fun p => fx.contains p.1 && fy.contains p.2.1 && fz.contains p.2.2
    let fgaps := RectSpec.gapsOf fx ++ RectSpec.gapsOf fy ++ RectSpec.gapsOf fz
    let fmin := RectSpec.minList (fgaps.headD 1) fgaps
    let v := RectSpec.judgeWith kept ex ey ez tris onGrid (some (fmin / 4))
    let vol := RectSpec.vol6 tris
    if v.degenerate then some "degenerate-sample-position"
    else some s!"balanced={boolStr (balancedOk nv ts)} fans={boolStr (fanCyclesOk nv ts)} outward={boolStr (decide (vol > 0))} tri={boolStr v.tri} wind={boolStr v.wind} vol={boolStr v.vol}"

/-- `tablecheck` : which local obligations of Props/C01 fail on the regenerated tables, and where
(used to name the failing configuration when a theorem no longer checks). -/
def handleTableCheck : String :=
  let t := Gen.mcTable
  let bad (name : String) (f : Nat → Bool) (n : Nat) : List String :=
    ((List.range n).filter fun c => !f c).map fun c => s!"{name}@{c}"
  let l := bad "mc_rows_wellformed" (fun c => rowWellFormed c (getRow t c)) 256 ++
    bad "mc_cell_interior_balanced" (fun c => interiorBalanced (getRow t c)) 256 ++
    bad "mc_face_determined" (fun c => faceDetermined t c) 256 ++
    bad "mc_face_opposite" (fun i => faceOpposite t (i / 16) (i % 16)) 48 ++
    bad "mc_fan_is_outward_path" (fun c => fansOk c (getRow t c)) 256 ++
    bad "mc_fan_local_ok" (fun c => rowWellFormed c (getRow t c) && fanPathsOk c (getRow t c)) 256 ++
    bad "ms_rows_wellformed" (fun c => msRowWellFormed c (getRow Gen.msTable c)) 16 ++
    bad "ms_role_rule" (fun c => msRoleRule c (getRow Gen.msTable c)) 16
  if l.isEmpty then "ok" else " ".intercalate l

def handleAll (ws : List String) : Option String :=
  match ws with
  | ["tablecheck"] => some handleTableCheck
  | "mc" :: rest => handleMc rest
  | "ms" :: rest => handleMs rest
  | "bitmap" :: rest => handleBitmap rest
  | "soup3" :: rest => handleSoup3 rest
  | "soup2" :: rest => handleSoup2 rest
  | "msc2f" :: rest => handleMsC2F rest
  | "mcc2f" :: rest => handleMcC2F rest
  | "mcs" :: rest => handleMcs rest
  | "mss" :: rest => handleMss rest
  | "mcj" :: rest => handleMcj rest
  | "msj" :: rest => handleMsj rest
  | "soup2o" :: rest => handleSoup2o rest
  | "same" :: rest => handleSame rest
  | "rectset" :: rest => handleRectSet rest
  | "rsmesh" :: rest => handleRsMesh rest
  | "meshrect" :: rest => handleMeshRect rest
  | "meshrect2" :: rest => handleMeshRect2 rest
  | "rectops" :: rest => handleRectOps rest
  | _ => none

end M3d.Drv.C01
