import M3d.Basic
import M3d.Model.MarchingMesh
import M3d.Gen.McTable
/-! Line-protocol handler for C01. Core-only. -/
namespace M3d.Drv.C01
open M3d M3d.Marching

/-- bit string "0101…" → lookup -/
def bitsOf (s : String) : Array Bool := (s.toList.map (· == '1')).toArray

def showGV (v : GV) : String := s!"{v.1}.{v.2.1}.{v.2.2}"
def showGV2 (v : GV2) : String := s!"{v.1}.{v.2}"

def strLt (a b : String) : Bool := a < b

/-! #### executable manifold deciders on id soups (used on the model mesh and on real outputs) -/

/-- directed edges of a triangle soup over Nat ids -/
def soupEdges (ts : List (Nat × Nat × Nat)) : List (Nat × Nat) :=
  ts.flatMap fun t => [(t.1, t.2.1), (t.2.1, t.2.2), (t.2.2, t.1)]

def countP (es : Array (Nat × Nat)) (d : Nat × Nat) : Nat :=
  es.foldl (fun n e => if e.1 == d.1 && e.2 == d.2 then n + 1 else n) 0

/-- every directed edge once, its reverse once; no degenerate triangle -/
def edgeBalanced (ts : List (Nat × Nat × Nat)) : Bool :=
  let es := (soupEdges ts).toArray
  ts.all (fun t => t.1 != t.2.1 && t.2.1 != t.2.2 && t.1 != t.2.2) &&
  es.all fun d => countP es d == 1 && countP es (d.2, d.1) == 1

/-- fan at v is one cycle: arcs p→q of triangles (v,p,q); follow from the first arc. -/
partial def fanCycle (arcs : List (Nat × Nat)) : Bool :=
  match arcs with
  | [] => true
  | a0 :: _ =>
    let rec go (cur : Nat) (rest : List (Nat × Nat)) (fuel : Nat) : Bool :=
      match fuel with
      | 0 => false
      | fuel + 1 =>
        match rest.find? (fun a => a.1 == cur) with
        | none => rest.isEmpty && cur == a0.1
        | some a => go a.2 (rest.erase a) fuel
    go a0.1 arcs (arcs.length + 1)

def fanConnected (ts : List (Nat × Nat × Nat)) : Bool :=
  let vs := (ts.flatMap fun t => [t.1, t.2.1, t.2.2]).eraseDups
  vs.all fun v =>
    fanCycle (ts.filterMap fun t =>
      if t.1 == v then some (t.2.1, t.2.2)
      else if t.2.1 == v then some (t.2.2, t.1)
      else if t.2.2 == v then some (t.1, t.2.1) else none)

/-- intern arbitrary keys to Nat ids -/
def intern (keys : List String) : List Nat :=
  let (_, ids) := keys.foldl (fun (acc : List String × List Nat) k =>
    match acc.1.idxOf? k with
    | some i => (acc.1, acc.2 ++ [i])
    | none => (acc.1 ++ [k], acc.2 ++ [acc.1.length])) ([], [])
  ids

def tripleUp : List Nat → List (Nat × Nat × Nat)
  | a :: b :: c :: rest => (a, b, c) :: tripleUp rest
  | _ => []

def pairUp : List Nat → List (Nat × Nat)
  | a :: b :: rest => (a, b) :: pairUp rest
  | _ => []

/-- `mc nx ny nz bits` : marching cubes of a lattice labelling.  Output: verdicts of the
deciders on the model mesh, then the sorted triangle list. -/
def handleMc (ws : List String) : Option String := do
  let [nx, ny, nz, bits] := ws | none
  let nx ← nx.toNat?; let ny ← ny.toNat?; let nz ← nz.toNat?
  let b := bitsOf bits
  if b.size ≠ nx * ny * nz then none
  -- points 0..n+1 per axis, the outer layer is outside; cells 0..n
  let lab : Nat → Nat → Nat → Bool := fun x y z =>
    if x = 0 || y = 0 || z = 0 || x > nx || y > ny || z > nz then false
    else b.getD ((x-1) + nx * ((y-1) + ny * (z-1))) false
  let mesh := mcMesh Gen.mcTable (nx+1) (ny+1) (nz+1) lab
  let strs := mesh.map fun t => s!"{showGV t.1},{showGV t.2.1},{showGV t.2.2}"
  let ids := tripleUp (intern (mesh.flatMap fun t => [showGV t.1, showGV t.2.1, showGV t.2.2]))
  let sorted := (strs.toArray.qsort strLt).toList
  -- orientation: exact signed volume (×6, doubled coordinates) of the model mesh is positive
  let vol : Int := mesh.foldl (fun acc t =>
    let a := t.1; let b := t.2.1; let c := t.2.2
    let ax : Int := a.1; let ay : Int := a.2.1; let az : Int := a.2.2
    let bx : Int := b.1; let by' : Int := b.2.1; let bz : Int := b.2.2
    let cx : Int := c.1; let cy : Int := c.2.1; let cz : Int := c.2.2
    acc + (ax * (by' * cz - bz * cy) - ay * (bx * cz - bz * cx) + az * (bx * cy - by' * cx))) 0
  let outward := mesh.isEmpty || vol > 0
  some s!"balanced={boolStr (edgeBalanced ids)} fans={boolStr (fanConnected ids)} outward={boolStr outward} n={mesh.length} {";".intercalate sorted}"

def inOutOneIds (segs : List (Nat × Nat)) : Bool :=
  let a := segs.toArray
  segs.all fun s =>
    s.1 != s.2 &&
    a.foldl (fun n t => if t.1 == s.1 then n + 1 else n) 0 == 1 &&
    a.foldl (fun n t => if t.2 == s.1 then n + 1 else n) 0 == 1 &&
    a.foldl (fun n t => if t.1 == s.2 then n + 1 else n) 0 == 1 &&
    a.foldl (fun n t => if t.2 == s.2 then n + 1 else n) 0 == 1

/-- `ms nx ny bits` : marching squares of a lattice labelling. -/
def handleMs (ws : List String) : Option String := do
  let [nx, ny, bits] := ws | none
  let nx ← nx.toNat?; let ny ← ny.toNat?
  let b := bitsOf bits
  if b.size ≠ nx * ny then none
  let lab : Nat → Nat → Bool := fun x y =>
    if x = 0 || y = 0 || x > nx || y > ny then false else b.getD ((x-1) + nx * (y-1)) false
  let mesh := msMesh Gen.msTable (nx+1) (ny+1) lab
  let strs := mesh.map fun s => s!"{showGV2 s.1},{showGV2 s.2}"
  let ids := pairUp (intern (mesh.flatMap fun s => [showGV2 s.1, showGV2 s.2]))
  let sorted := (strs.toArray.qsort strLt).toList
  -- orientation: contained side on the right of every segment ⇒ shoelace sum negative
  let area2 : Int := mesh.foldl (fun acc s =>
    let x1 : Int := s.1.1; let y1 : Int := s.1.2; let x2 : Int := s.2.1; let y2 : Int := s.2.2
    acc + (x1 * y2 - x2 * y1)) 0
  let outward := mesh.isEmpty || area2 < 0
  some s!"inout={boolStr (inOutOneIds ids)} outward={boolStr outward} n={mesh.length} {";".intercalate sorted}"

/-- `bitmap w h bits` : Bitmap.Mesh. Points are quarter pixels, shifted by one pixel (+4). -/
def handleBitmap (ws : List String) : Option String := do
  let [w, h, bits] := ws | none
  let w ← w.toNat?; let h ← h.toNat?
  let b := bitsOf bits
  if b.size ≠ w * h then none
  let g : Nat → Nat → Bool := fun i j =>
    if i = 0 || j = 0 || i > w || j > h then false else b.getD ((i-1) + w * (j-1)) false
  let segs := bitmapMesh g w h
  let showP := fun (p : Nat) => s!"{p / 65536}.{p % 65536}"
  let strs := segs.map fun s => s!"{showP (segStart s)},{showP (segEnd s)}"
  let sorted := (strs.toArray.qsort strLt).toList
  let area2 : Int := segs.foldl (fun acc s =>
    let a := segStart s; let b := segEnd s
    let x1 : Int := a / 65536; let y1 : Int := a % 65536; let x2 : Int := b / 65536; let y2 : Int := b % 65536
    acc + (x1 * y2 - x2 * y1)) 0
  let outward := segs.isEmpty || area2 < 0
  some s!"inout={boolStr (inOutOne segs)} outward={boolStr outward} n={segs.length} {";".intercalate sorted}"

/-- exact signed volume ×6 of a soup with rational vertex coordinates -/
def signedVol6 (vs : Array (Rat × Rat × Rat)) (ts : List (Nat × Nat × Nat)) : Rat :=
  ts.foldl (fun acc t =>
    let a := vs.getD t.1 (0,0,0); let b := vs.getD t.2.1 (0,0,0); let c := vs.getD t.2.2 (0,0,0)
    acc + (a.1 * (b.2.1 * c.2.2 - b.2.2 * c.2.1) - a.2.1 * (b.1 * c.2.2 - b.2.2 * c.1)
      + a.2.2 * (b.1 * c.2.1 - b.2.1 * c.1))) 0

/-- `soup3 nv <x y z hex>*nv nt <a b c>*nt` : a real generator's output; verdict of the deciders
plus the sign of the exact signed volume (outward orientation). -/
def handleSoup3 (ws : List String) : Option String := do
  let nv ← (← ws.head?).toNat?
  let cs ← ((ws.drop 1).take (3 * nv)).mapM fun h => do
    let n ← parseHex h
    ratOfBits n.toUInt64
  if cs.length ≠ 3 * nv then none
  let rec trip : List Rat → List (Rat × Rat × Rat)
    | a :: b :: c :: r => (a, b, c) :: trip r
    | _ => []
  let vs := (trip cs).toArray
  let ws := ws.drop (1 + 3 * nv)
  let nt ← (← ws.head?).toNat?
  let ids ← parseNats ((ws.drop 1).take (3 * nt))
  if ids.length ≠ 3 * nt then none
  let ts := tripleUp ids
  let vol := signedVol6 vs ts
  some s!"balanced={boolStr (edgeBalanced ts)} fans={boolStr (fanConnected ts)} outward={boolStr (decide (vol > 0))}"

/-- `soup2 ns <a b>*ns` : a real 2-D generator's output as id pairs. -/
def handleSoup2 (ws : List String) : Option String := do
  let ns ← (← ws.head?).toNat?
  let ids ← parseNats ((ws.drop 1).take (2 * ns))
  if ids.length ≠ 2 * ns then none
  some s!"inout={boolStr (inOutOneIds (pairUp ids))}"

/-- `tablecheck` : which local obligations of Props/C01 fail on the regenerated tables, and where
(used to name the failing configuration when a theorem no longer checks). -/
def handleTableCheck : String :=
  let t := Gen.mcTable
  let bad (name : String) (f : Nat → Bool) (n : Nat) : List String :=
    ((List.range n).filter fun c => !f c).map fun c => s!"{name}@{c}"
  let l := bad "mc_rows_wellformed" (fun c => rowWellFormed c (getRow t c)) 256 ++
    bad "mc_cell_interior_balanced" (fun c => interiorBalanced (getRow t c)) 256 ++
    bad "mc_face_determined" (fun c => faceDetermined t c) 256 ++
    bad "mc_face_opposite" (fun i => faceOpposite t (i / 16) (i % 16)) 48 ++
    bad "mc_fan_is_outward_path" (fun c => fansOk c (getRow t c)) 256 ++
    bad "ms_rows_wellformed" (fun c => msRowWellFormed c (getRow Gen.msTable c)) 16 ++
    bad "ms_role_rule" (fun c => msRoleRule c (getRow Gen.msTable c)) 16
  if l.isEmpty then "ok" else " ".intercalate l

def handleAll (ws : List String) : Option String :=
  match ws with
  | ["tablecheck"] => some handleTableCheck
  | "mc" :: rest => handleMc rest
  | "ms" :: rest => handleMs rest
  | "bitmap" :: rest => handleBitmap rest
  | "soup3" :: rest => handleSoup3 rest
  | "soup2" :: rest => handleSoup2 rest
  | _ => none

end M3d.Drv.C01
