import M3d.Basic
import M3d.Model.Conc
import M3d.Model.ConcQuery
import M3d.Model.ConcIter
import M3d.Model.ConcDerive
/-! Line-protocol handler for C13.  Core-only.

* `c13 <scenario> … seq=<answer>` — the property requires the concurrent answer to equal the
  answer of sequential use, which the harness computed on the real code and put on the line:
  the handler returns it.
* `c13 mapc w h` — every pixel index is delivered exactly once (`chan_each_index_once`); the
  answer is computed by running the channel model to completion.
* `c13 dclsearch <n> <tok>…` — search all complete schedules of `n` threads of the program
  denoted by a `getVertexToFace` shape for a data race, a second build, differing return
  values or a read of an unbuilt index; prints `ok schedules=<k>` or a witness schedule.
* `c13 qsearch field|local` — all complete schedules of two staged queries (inputs 10 and 20 on a
  structure with data 5) staging in a field of the structure / in call-local state: a witness
  (data race or an answer different from sequential use) or `ok schedules=<k>`
  (`query_field_scratch_racy`, `query_local_scratch_eq_sequential`).
* `c13 cachesearch claim|memo` — the same for two callers of the cached function
  (`cache_claim_first_racy`, `cache_memo_returns_fx`).
* `c13 collsearch aliased|own` — all complete schedules of two `ReduceConcurrentMap` workers that
  collect 10 and 20 in per-goroutine buffers cut out of one shared backing array / in arrays of
  their own, and append them to the shared result under the mutex: a witness (data race or a
  result different from 30) or `ok schedules=<k>` (`collect_aliased_buffers_racy`,
  `collect_reduce_correct`).
* `c13 itersearch shared|private` — all complete schedules of two enumerations of a mesh with the
  faces 1, 2, 3 (reader 0 `Iterate`, reader 1 `IterateSorted` in descending order) over one face
  list cached in the mesh and sorted in place / over lists of their own: a witness (data race or a
  reader that is not given every face exactly once in its order) or `ok schedules=<k>`
  (`iterate_shared_list_racy`, `iterate_private_list_eq_sequential`).
* `c13 cfgsearch field|private` — the same for `RayVariance` (goroutine 0) and `Render`
  (goroutine 1) on one renderer with `Antialias = 2`, `RayVariance` zeroing the renderer's own
  field / a private copy (`renderer_config_field_racy`,
  `renderer_calls_private_config_eq_sequential`).
* `c13 optsearch inplace|copy` — all complete schedules of a `Contains` (goroutine 0, point in
  part 1 of the union 3, 2, 1) and an `Optimize()` (goroutine 1, grouping = reversal) that groups
  the union's own slice / a copy of its own (`optimize_in_place_racy`,
  `optimize_private_copy_eq_sequential`).
* `c13 updsearch` / `c13 redsearch` — the two-thread witnesses for the unsynchronised
  `updateAt` and the reduction without lock.
-/
namespace M3d.Drv.C13
open M3d.Conc

def parseTok : String → Option DclTok
  | "atomicLoad" => some .atomicLoad
  | "retIfSet" => some .retIfSet
  | "lock" => some .lock
  | "deferUnlock" => some .deferUnlock
  | "alloc" => some .alloc
  | "build" => some .build
  | "atomicStore" => some .atomicStore
  | "ret" => some .ret
  | "other" => some .other
  | _ => none

def showSched (s : Schedule) : String := ",".intercalate (s.map toString)

/-- What `dcl_single_creation` promises, evaluated on a final configuration of `n` threads. -/
def dclBad (p : Program) (n : Nat) (c : Config) : Bool :=
  let ts := List.range n
  !c.races.isEmpty || builds c != 1 ||
    ts.any (fun t => done p c t && ((c.thr t).reg != c.mem V || (c.thr t).out != 1))

def describe (p : Program) (n : Nat) (s : Schedule) : String :=
  let c := run p Config.init s
  s!"schedule={showSched s} builds={builds c} races={c.races.length} " ++
    "returns=" ++ ",".intercalate ((List.range n).map fun t => toString (c.thr t).reg) ++
    " read=" ++ ",".intercalate ((List.range n).map fun t => toString (c.thr t).out)

def handleAll (ws : List String) : Option String :=
  match ws with
  | ["mapc", w, h] => do
      let w ← w.toNat?
      let h ← h.toNat?
      let n := w * h
      -- two workers taking turns until the channel is drained and both have left the loop
      let sched := (List.range (n + 2)).map (· % 2)
      let c := run (chanProg id) (chanInit n) sched
      let once := ((List.range n).filter fun i => (c.log.map (·.2)).count i == 1).length
      let bad := (c.chan CH).length + c.races.length
      some s!"n={n} once={once} bad={bad}"
  | "dclsearch" :: n :: toks => do
      let n ← n.toNat?
      let toks ← toks.mapM parseTok
      let p : Program := dclOfShape toks
      let fuel := n * (toks.length + 2)
      match findSchedule p n (dclBad p n) fuel Config.init with
      | some s => some ("witness threads=" ++ toString n ++ " " ++ describe p n s)
      | none => some s!"ok schedules={countSchedules p n fuel Config.init}"
  | ["qsearch", kind] =>
      let f : Val → Val → Val := fun s x => s + x
      let xs : Tid → Val := fun t => 10 * (t + 1)
      let q : Program := if kind == "field" then queryFieldProg f xs else queryLocalProg f xs
      let p : Program := fun t => if t < 2 then q t else []
      let wrong : Config → Bool := fun c =>
        (List.range 2).any fun t => done p c t && (c.thr t).out != f 5 (xs t)
      let bad : Config → Bool := fun c => !c.races.isEmpty || wrong c
      -- prefer a schedule with a wrong answer over one that only races
      match (findSchedule p 2 wrong 8 (structInit 5)).orElse fun _ => findSchedule p 2 bad 8 (structInit 5) with
      | some s =>
          let c := run p (structInit 5) s
          some (s!"witness schedule={showSched s} races={c.races.length} answers=" ++
            ",".intercalate ((List.range 2).map fun t => toString (c.thr t).out) ++ " sequential=15,25" ++
            s!" ownership={progRO queryOwn queryShared p 2}")
      | none => some s!"ok schedules={countSchedules p 2 8 (structInit 5)} ownership={progRO queryOwn queryShared p 2}"
  | ["cachesearch", kind] =>
      let v : Val := 8
      let q : Program := if kind == "claim" then cacheClaimProg v else cacheProg v
      let p : Program := fun t => if t < 2 then q t else []
      let ans : Config → Tid → Val := fun c t => if kind == "claim" then (c.thr t).out else (c.thr t).reg
      let wrong : Config → Bool := fun c => (List.range 2).any fun t => done p c t && ans c t != v
      let bad : Config → Bool := fun c => !c.races.isEmpty || wrong c
      match (findSchedule p 2 wrong 12 Config.init).orElse fun _ => findSchedule p 2 bad 12 Config.init with
      | some s =>
          let c := run p Config.init s
          some (s!"witness schedule={showSched s} races={c.races.length} answers=" ++
            ",".intercalate ((List.range 2).map fun t => toString (ans c t)) ++ s!" f(x)+1={v}")
      | none => some s!"ok schedules={countSchedules p 2 12 Config.init}"
  | ["collsearch", kind] =>
      let base : Tid → Val := if kind == "aliased" then fun _ => 0 else fun t => t
      let p : Program := collectProgN (· + ·) base (fun t => 10 * (t + 1)) 2
      let wrong : Config → Bool := fun c => c.mem CACC != 30
      let bad : Config → Bool := fun c => !c.races.isEmpty || wrong c
      match (findSchedule p 2 wrong 12 Config.init).orElse fun _ => findSchedule p 2 bad 12 Config.init with
      | some s =>
          let c := run p Config.init s
          some s!"witness schedule={showSched s} races={c.races.length} result={c.mem CACC} sequential=30"
      | none => some s!"ok schedules={countSchedules p 2 12 Config.init}"
  | ["itersearch", kind] =>
      let q : Program :=
        if kind == "shared" then iterSharedProg (fun t => if t = 1 then some rev3 else none) nth3 snoc10 3
        else iterLocalProg (fun t => if t = 1 then rev3 else id) nth3 snoc10 3
      let p : Program := fun t => if t < 2 then q t else []
      let want : Tid → Val := fun t => if t = 1 then 321 else 123
      let wrong : Config → Bool := fun c => (List.range 2).any fun t => done p c t && c.mem (ILOG t) != want t
      let bad : Config → Bool := fun c => !c.races.isEmpty || wrong c
      match (findSchedule p 2 wrong 24 (structInit 123)).orElse fun _ => findSchedule p 2 bad 24 (structInit 123) with
      | some s =>
          let c := run p (structInit 123) s
          some (s!"witness schedule={showSched s} races={c.races.length} visited=" ++
            ",".intercalate ((List.range 2).map fun t => toString (c.mem (ILOG t))) ++ " sequential=123,321")
      | none => some s!"ok schedules={countSchedules p 2 24 (structInit 123)} ownership={progRO iterOwn iterShared p 2}"
  | ["cfgsearch", kind] =>
      let kinds : Tid → Val := fun t => if t = 0 then 1 else 0
      let q : Program := if kind == "field" then rendererFieldProg kinds else renderCallProg kinds
      let p : Program := fun t => if t < 2 then q t else []
      let wrong : Config → Bool := fun c => (done p c 1 && (c.thr 1).out != 2) || c.mem CFG != 2
      let bad : Config → Bool := fun c => !c.races.isEmpty || wrong c
      match (findSchedule p 2 wrong 10 (structInit 2)).orElse fun _ => findSchedule p 2 bad 10 (structInit 2) with
      | some s =>
          let c := run p (structInit 2) s
          some s!"witness schedule={showSched s} races={c.races.length} render-sampled-with={(c.thr 1).out} sequential=2 field-afterwards={c.mem CFG}"
      | none => some s!"ok schedules={countSchedules p 2 10 (structInit 2)}"
  | ["optsearch", kind] =>
      let grp : Tid → Option (Val → Val) := fun t => if t = 1 then some rev3 else none
      let q : Program :=
        if kind == "inplace" then unionInPlaceProg grp nth3 (fun _ => accIn1) 3
        else unionProg grp nth3 (fun _ => accIn1) 3
      let p : Program := fun t => if t < 2 then q t else []
      let wrong : Config → Bool := fun c => (done p c 0 && c.mem (UANS 0) != 1) || (done p c 1 && (c.thr 1).out != 123)
      let bad : Config → Bool := fun c => !c.races.isEmpty || wrong c
      match (findSchedule p 2 wrong 14 (structInit 321)).orElse fun _ => findSchedule p 2 bad 14 (structInit 321) with
      | some s =>
          let c := run p (structInit 321) s
          some s!"witness schedule={showSched s} races={c.races.length} contains={c.mem (UANS 0)} sequential=1 parts-afterwards={c.mem PARTS}"
      | none => some s!"ok schedules={countSchedules p 2 14 (structInit 321)} ownership={progRO iterOwn iterShared p 2}"
  | ["updsearch"] =>
      let p : Program := fun t => if t < 2 then updateAtRacy ([5, 3].getD t 0) else []
      match findSchedule p 2 (fun c => !c.races.isEmpty && c.mem CELL != 5) 10 Config.init with
      | some s => some s!"witness schedule={showSched s} final={(run p Config.init s).mem CELL} max=5"
      | none => some "ok"
  | ["redsearch"] =>
      let p : Program := fun t => if t < 2 then reduceThreadNoLock (· + ·) (10 * (t + 1)) else []
      match findSchedule p 2 (fun c => !c.races.isEmpty && c.mem ACC != 30) 10 Config.init with
      | some s => some s!"witness schedule={showSched s} final={(run p Config.init s).mem ACC} sum=30"
      | none => some "ok"
  | _ :: rest =>
      match rest.find? (·.startsWith "seq=") with
      | some t => some (t.drop 4).toString
      | none => none
  | _ => none

end M3d.Drv.C13
