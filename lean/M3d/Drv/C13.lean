import M3d.Basic
/-! Line-protocol handler for C13. Core-only. (stub) -/
namespace M3d.Drv.C13

def handleAll (ws : List String) : Option String := none

end M3d.Drv.C13
