import M3d.Basic
import M3d.Model.Surface
import M3d.Model.MeshDiag
import M3d.Model.MeshDiagSweep
import M3d.Model.MeshDiagHist
import M3d.Model.MeshDiagProbe
import M3d.Model.MeshDiagSelf
/-!
Line-protocol handler for C11.  Core-only.

One line = one mesh and one family of REAL diagnostics / repairs applied to it (tokens after `c11`):

    <kind> I <n> f1 … fn [E <eps>] [C <m> id x y z …] [Q <k> x y z …]

`I` is the mesh as an id soup in the harness's face order (face index = position; 3-D face `a,b,c`,
2-D segment `a,b`; ids = distinct coordinates), `E` the epsilon argument, `C` the exact rational
coordinates of all ids, `Q` query points.

The answer printed for a kind is what the PROPERTY demands, computed from the *definitions*
(edge multiplicities, naive closures, exact rational even–odd ray casting, Surface's proved
deciders); the faithful models of `M3d.MeshDiag` are run next to them and a disagreement between a
model and its definition is flagged in the output (`MODELDIFF`), so that it fails the check too.
The harness prints the same canonical form from the REAL outputs; a difference is a violation.

    diag3  -> nr=<b> sv=<ids> ie=<a>b,…> or=<1|0|panic>
    diagd3 -> nr=<b> ie=<…>                               (degenerate faces allowed)
    clus3  -> <v>:<cluster>|<cluster> …                   (clusters of face indices per vertex)
    rnm3   -> ok groups=<idx:flag,…|…> flip=<idx…> n=<count> clean=<b>  |  panic:<msg>
    rn3    -> flip=<idx…> n=<count> clean=<b>  |  unclear:<i> (something touches the normal line of face i within eps·65/64: never generated)
    rep3   -> cls=<min id of the class, per vertex> fix=1 nr=<b>
    self3  -> n=<Mesh.SelfIntersections(): ordered pairs of faces for which Triangle.TriangleCollisions reports a segment>
    hier3  -> ok nodes=<c0>|<c1>… par=<p…> full=ok cont=<bits>  |  panic:mesh_needs_repair
    diag2  -> man=<b> iv=<ids>
    rn2    -> flip=<idx…> n=<count> clean=<b>  |  unclear:<i>
    rep2   -> cls=<…> fix=1 man=<b>
    hier2  -> like hier3  |  panic:mesh_must_be_manifold | panic:mesh_is_non-manifold
    hist3  -> one token per observation of the history `S <k> step…` applied to the mesh `I`
              (steps: a:<id>:<a,b,c> Add a new face pointer, r:<id> Remove, A:<id> Add an old pointer
              again, t:<0|1>:<name> a call whose result is not compared — 1 = the vertex index exists
              afterwards, c = continue with m.Copy(), o:nr|sv|ie|or|gate = observe a diagnostic):
              nr=<b> | sv=<ids> | ie=<…> | or=<1|0|panic> | gate=<b> (MeshToHierarchy panics with
              "mesh needs repair"), each computed from the CURRENT face set
    hist2  -> the 2-D twin (steps a:<id>:<a,b> …; o:man|iv|gate): man=<b> | iv=<ids> | gate=<b>
              (MeshToHierarchy panics with "mesh must be manifold")
-/
namespace M3d.Drv.C11
open M3d M3d.Surface M3d.MeshDiag

/-! ### parsing -/

def takeSection (marker : String) (ws : List String) (width : Nat) : Option (List String × List String) :=
  match ws with
  | m :: n :: rest =>
    if m ≠ marker then none else
    match n.toNat? with
    | some k => if rest.length < k * width then none else some (rest.take (k * width), rest.drop (k * width))
    | none => none
  | _ => none

def parseTri (s : String) : Option Tri :=
  match (s.splitOn ",").mapM (·.toNat?) with
  | some [a, b, c] => some (a, b, c)
  | _ => none

def parseSeg (s : String) : Option Seg :=
  match (s.splitOn ",").mapM (·.toNat?) with
  | some [a, b] => some (a, b)
  | _ => none

structure P3 where
  x : Rat
  y : Rat
  z : Rat
deriving BEq, Inhabited

structure P2 where
  x : Rat
  y : Rat
deriving BEq, Inhabited

def chunk3 : List Rat → List P3
  | x :: y :: z :: r => ⟨x, y, z⟩ :: chunk3 r
  | _ => []

def chunk2 : List Rat → List P2
  | x :: y :: r => ⟨x, y⟩ :: chunk2 r
  | _ => []

/-- `C <m> id x y z …` with ids 0..m-1 in order. -/
def parseCoords3 (ws : List String) : Option (Array P3) := do
  let rec go (ws : List String) (i : Nat) (acc : Array P3) (fuel : Nat) : Option (Array P3) :=
    match fuel, ws with
    | _, [] => some acc
    | 0, _ => none
    | f + 1, id :: x :: y :: z :: rest => do
      let id ← id.toNat?
      if id ≠ i then none
      let x ← parseRat x; let y ← parseRat y; let z ← parseRat z
      go rest (i + 1) (acc.push ⟨x, y, z⟩) f
    | _, _ => none
  go ws 0 #[] (ws.length + 1)

def parseCoords2 (ws : List String) : Option (Array P2) := do
  let rec go (ws : List String) (i : Nat) (acc : Array P2) (fuel : Nat) : Option (Array P2) :=
    match fuel, ws with
    | _, [] => some acc
    | 0, _ => none
    | f + 1, id :: x :: y :: rest => do
      let id ← id.toNat?
      if id ≠ i then none
      let x ← parseRat x; let y ← parseRat y
      go rest (i + 1) (acc.push ⟨x, y⟩) f
    | _, _ => none
  go ws 0 #[] (ws.length + 1)

/-! ### output helpers -/

def natLt (a b : Nat) : Bool := a < b
def sortNats (l : List Nat) : List Nat := (l.toArray.qsort natLt).toList
def edgeLt (a b : Edge) : Bool := a.1 < b.1 || (a.1 == b.1 && a.2 < b.2)

def showNats (l : List Nat) : String :=
  if l.isEmpty then "-" else ",".intercalate (l.map toString)

def showEdges (l : List Edge) : String :=
  if l.isEmpty then "-" else ",".intercalate (l.map fun e => s!"{e.1}>{e.2}")

/-- Groups of indices: each sorted, groups sorted by first element, joined by `|`. -/
def canonGroups (gs : List (List Nat)) : List (List Nat) :=
  let gs := (gs.map sortNats).filter (!·.isEmpty)
  (gs.toArray.qsort fun a b => a.headD 0 < b.headD 0).toList

def showGroups (gs : List (List Nat)) : String :=
  if gs.isEmpty then "-" else "|".intercalate ((canonGroups gs).map showNats)

/-! ### definitions, computed exhaustively -/

/-- Some undirected edge is not used by exactly two (face, side) incidences. -/
def specNeedsRepair (ts : List Tri) : Bool :=
  let segs := (segsOf ts).toArray.qsort edgeLt
  -- run lengths of the sorted list
  let rec go (i : Nat) (cur : Option Edge) (run : Nat) (fuel : Nat) : Bool :=
    match fuel with
    | 0 => false
    | f + 1 =>
      if h : i < segs.size then
        let e := segs[i]
        if cur == some e then go (i + 1) cur (run + 1) f
        else if cur.isSome && run != 2 then true else go (i + 1) (some e) 1 f
      else cur.isSome && run != 2
  go 0 none 0 (segs.size + 1)

/-- The directed edges used more than once, sorted. -/
def specInconsistent (ts : List Tri) : List Edge :=
  let es := (dirEdges ts).toArray.qsort edgeLt
  let rec go (i : Nat) (acc : List Edge) (fuel : Nat) : List Edge :=
    match fuel with
    | 0 => acc
    | f + 1 =>
      if h : i + 1 < es.size then
        if es[i] == es[i + 1] && acc.head? != some es[i] then go (i + 1) (es[i] :: acc) f
        else go (i + 1) acc f
      else acc
  (go 0 [] (es.size + 1)).reverse

/-- Closure of `start` in `U` under `adj` (frontier iteration to the fixpoint): the set the
definition `Reach adj U` describes. -/
partial def closeOver {α : Type} [BEq α] (adj : α → α → Bool) (U : List α) (start : List α) : List α :=
  let rec go (visited frontier rest : List α) : List α :=
    if frontier.isEmpty then visited else
    let p := rest.partition fun y => frontier.any fun x => adj x y
    go (visited ++ p.1) p.1 p.2
  go start start (U.filter fun y => !start.contains y)

/-- The vertices whose fan graph is disconnected: the faces at `v`, two of them adjacent when they
share an edge at `v`, i.e. have a common vertex other than `v` (`adjAt`; stated without reference
to the code's corner counting). -/
def specSingular (ts : List Tri) : List Nat :=
  let fs := enum ts
  sortNats ((verts ts).filter fun v =>
    match facesAt v fs with
    | [] => false
    | t :: rest =>
      let reach := closeOver (adjAt v) (t :: rest) [t]
      !(t :: rest).all reach.contains)

/-- Components of `U` under `adj` by naive closure. -/
def specComponents {α : Type} [BEq α] (adj : α → α → Bool) (U : List α) : List (List α) :=
  let rec go (todo : List α) (acc : List (List α)) (fuel : Nat) : List (List α) :=
    match fuel, todo with
    | 0, _ => acc
    | _, [] => acc
    | f + 1, x :: rest =>
      let comp := closeOver adj U [x]
      go (rest.filter fun y => !comp.contains y) (comp :: acc) f
  (go U [] (U.length + 1)).reverse

/-! ### exact even–odd containment -/

def sub3 (a b : P3) : P3 := ⟨a.x - b.x, a.y - b.y, a.z - b.z⟩
def add3 (a b : P3) : P3 := ⟨a.x + b.x, a.y + b.y, a.z + b.z⟩
def scale3 (a : P3) (s : Rat) : P3 := ⟨a.x * s, a.y * s, a.z * s⟩
def dot3 (a b : P3) : Rat := a.x * b.x + a.y * b.y + a.z * b.z
def cross3 (a b : P3) : P3 := ⟨a.y * b.z - a.z * b.y, a.z * b.x - a.x * b.z, a.x * b.y - a.y * b.x⟩

/-- Ray `p + t d` (t > 0) against the triangle `a b c`: `some true` = proper crossing,
`some false` = miss, `none` = touches an edge/vertex/the plane (try another direction). -/
def rayTri (p d a b c : P3) : Option Bool :=
  let e1 := sub3 b a
  let e2 := sub3 c a
  let h := cross3 d e2
  let det := dot3 e1 h
  let s := sub3 p a
  if det == 0 then
    -- parallel to the plane: harmless unless the origin lies in the plane
    if dot3 s (cross3 e1 e2) == 0 then none else some false
  else
    let u := dot3 s h / det
    let q := cross3 s e1
    let v := dot3 d q / det
    let t := dot3 e2 q / det
    if u < 0 || v < 0 || u + v > 1 || t < 0 then some false
    else if u == 0 || v == 0 || u + v == 1 || t == 0 then none
    else some true

def rayCount3 (tris : List (P3 × P3 × P3)) (p d : P3) : Option Nat :=
  tris.foldl (fun acc t => acc.bind fun n =>
    (rayTri p d t.1 t.2.1 t.2.2).map fun b => if b then n + 1 else n) (some 0)

def dirs3 : List P3 :=
  [⟨1, (37 : Rat) / 101, (59 : Rat) / 211⟩, ⟨(-43 : Rat) / 97, 1, (71 : Rat) / 233⟩,
   ⟨(29 : Rat) / 113, (-83 : Rat) / 199, 1⟩, ⟨(-61 : Rat) / 127, (-47 : Rat) / 151, -1⟩,
   ⟨1, (-89 : Rat) / 307, (53 : Rat) / 311⟩]

/-- Even–odd rule, exactly; `none` if the point is on the surface (every direction degenerate). -/
def inside3 (tris : List (P3 × P3 × P3)) (p : P3) : Option Bool :=
  dirs3.findSome? fun d => (rayCount3 tris p d).map fun n => n % 2 == 1

def raySeg (p d a b : P2) : Option Bool :=
  -- p + t d = a + s (b - a)
  let e : P2 := ⟨b.x - a.x, b.y - a.y⟩
  let det := e.x * d.y - e.y * d.x
  let w : P2 := ⟨a.x - p.x, a.y - p.y⟩
  if det == 0 then
    if w.x * e.y - w.y * e.x == 0 then none else some false
  else
    -- solve t d - s e = w
    let t := (e.x * w.y - e.y * w.x) / det
    let s := (d.x * w.y - d.y * w.x) / det
    if s < 0 || s > 1 || t < 0 then some false
    else if s == 0 || s == 1 || t == 0 then none
    else some true

def rayCount2 (segs : List (P2 × P2)) (p d : P2) : Option Nat :=
  segs.foldl (fun acc t => acc.bind fun n =>
    (raySeg p d t.1 t.2).map fun b => if b then n + 1 else n) (some 0)

def dirs2 : List P2 :=
  [⟨1, (37 : Rat) / 101⟩, ⟨(-43 : Rat) / 97, 1⟩, ⟨(29 : Rat) / 113, -1⟩, ⟨-1, (-47 : Rat) / 151⟩,
   ⟨1, (-89 : Rat) / 307⟩]

def inside2 (segs : List (P2 × P2)) (p : P2) : Option Bool :=
  dirs2.findSome? fun d => (rayCount2 segs p d).map fun n => n % 2 == 1

def geoTri (cs : Array P3) (t : Tri) : P3 × P3 × P3 := (cs[t.1]!, cs[t.2.1]!, cs[t.2.2]!)
def geoSeg (cs : Array P2) (s : Seg) : P2 × P2 := (cs[s.1]!, cs[s.2]!)

/-! ### diag3 / diagd3 -/

def orientStr (ts : List Tri) : String :=
  match faceOrientations ts with
  | .groups _ => "1"
  | .notOrientable => "0"
  | .impossible => "panic"

def handleDiag3 (withOr : Bool) (ts : List Tri) : String :=
  let nr := specNeedsRepair ts
  let sv := specSingular ts
  let ie := specInconsistent ts
  -- faithful models next to the definitions
  let mnr := needsRepair ts
  let msv := sortNats (singularVertices ts)
  let mie := (inconsistentEdges ts).toArray.qsort edgeLt |>.toList
  -- for closed oriented inputs the Surface decider must agree as well
  let eb := edgeBalanced ts
  let fanOk := if eb && noDegenerate ts then (fanConnected ts == sv.isEmpty) else true
  let diff := (if mnr != nr then " MODELDIFF:nr" else "") ++ (if msv != sv then " MODELDIFF:sv" else "")
    ++ (if mie != ie then " MODELDIFF:ie" else "") ++ (if !fanOk then " MODELDIFF:fan" else "")
    ++ (if eb && (nr || !ie.isEmpty) then " MODELDIFF:eb" else "")
  if withOr then s!"nr={boolStr nr} sv={showNats sv} ie={showEdges ie} or={orientStr ts}" ++ diff
  else
    -- degenerate faces: `SharesEdge` is not symmetric on them, the fan search depends on the
    -- iteration order; only the edge diagnostics are compared
    s!"nr={boolStr nr} ie={showEdges ie}" ++ (if mnr != nr then " MODELDIFF:nr" else "") ++
      (if mie != ie then " MODELDIFF:ie" else "")

/-! ### clus3 -/

def handleClus3 (ts : List Tri) : String :=
  let fs := enum ts
  let per := (sortNats (verts ts)).map fun v =>
    let fv := facesAt v fs
    let spec := canonGroups ((specComponents (adjAt v) fv).map fun c => c.map (·.1))
    let model := canonGroups ((clusters ts v).map fun c => c.map (·.1))
    s!"{v}:{showGroups spec}" ++ (if model != spec then "MODELDIFF" else "")
  if per.isEmpty then "-" else " ".intercalate per

/-! ### rnm3 -/

/-- Normalise a group's relative flags so that its smallest face index has flag 0. -/
def normGroup (g : List (Nat × Bool)) : List (Nat × Bool) :=
  let g := (g.toArray.qsort fun a b => a.1 < b.1).toList
  match g with
  | [] => []
  | (_, b0) :: _ => if b0 then g.map fun p => (p.1, !p.2) else g

def showFlagGroups (gs : List (List (Nat × Bool))) : String :=
  let gs := (gs.map normGroup).filter (!·.isEmpty)
  let gs := (gs.toArray.qsort fun a b => (a.headD (0, false)).1 < (b.headD (0, false)).1).toList
  if gs.isEmpty then "-" else
  "|".intercalate (gs.map fun g => ",".intercalate (g.map fun p => s!"{p.1}:{boolStr p.2}"))

/-- The flip set of a group after the majority vote, normalised for ties. -/
def tieNorm (g : List (Nat × Bool)) : List Nat :=
  let fl := (g.filter (·.2)).map (·.1)
  let mn := (sortNats (g.map (·.1))).headD 0
  if 2 * fl.length == g.length && fl.contains mn then (g.filter (!·.2)).map (·.1) else fl

def handleRnm3 (ts : List Tri) : String :=
  match faceOrientations ts with
  | .notOrientable => "panic:mesh_is_not_orientable"
  | .impossible => "panic:impossible_case_detected"
  | .groups gs =>
    let rel := gs.map fun g => g.map fun p => (p.1.1, p.2)
    let maj := gs.map majorityFlags
    let flips := sortNats ((maj.map fun g => tieNorm (g.map fun p => (p.1.1, p.2))).flatten)
    let count := (maj.map fun g => g.countP (·.2)).sum
    let out := (maj.map applyFlags).flatten
    let clean := (specInconsistent out).isEmpty
    -- the vote flips the minority side of every group
    let minority := (gs.map fun g => min (g.countP (·.2)) (g.length - g.countP (·.2))).sum
    -- when the input is closed (every edge twice) the repaired mesh must be edge-balanced
    -- (`repair_normals_majority_clean`)
    let closedOk := if !specNeedsRepair ts && noDegenerate ts then edgeBalanced out else true
    -- the groups are the components of `Neighbors`, computed by naive closure
    -- (`orientation_groups_are_components`)
    let comps := canonGroups ((specComponents isNeighbor (enum ts)).map fun c => c.map (·.1))
    let compsOk := if noDegenerate ts then comps == canonGroups (rel.map fun g => g.map (·.1)) else true
    s!"ok groups={showFlagGroups rel} flip={showNats flips} n={count} clean={boolStr clean}" ++
      (if minority != count then " MODELDIFF:minority" else "") ++
      (if !closedOk then " MODELDIFF:closed" else "") ++
      (if !compsOk then " MODELDIFF:components" else "") ++
      (if noDegenerate ts && !clean then " MODELDIFF:whole-mesh" else "")

/-! ### rn3 / rn2 -/

def v3 (p : P3) : Vec3 Rat := ⟨p.x, p.y, p.z⟩
def gtri (g : P3 × P3 × P3) : GTri Rat := (v3 g.1, v3 g.2.1, v3 g.2.2)

def min3 (a b c : Rat) : Rat := min a (min b c)
def max3 (a b c : Rat) : Rat := max a (max b c)

/-- Where the mesh touches the line `m + u n` (closed test: edges and vertices count, a triangle
whose plane contains the line counts with the whole range of its corners), as parameter intervals;
the second component: every touch is a crossing through the interior of a triangle (the line is in
general position, `crossesLine3` applies). -/
def lineTouches3 (geo : List (GTri Rat)) (m n : Vec3 Rat) : List (Rat × Rat) × Bool :=
  geo.foldl (fun (acc : List (Rat × Rat) × Bool) t =>
    let a := v3sub t.1 m
    let b := v3sub t.2.1 m
    let c := v3sub t.2.2 m
    let v1 := vol3 n a b
    let v2 := vol3 n b c
    let v3 := vol3 n c a
    let weak := (v1 ≥ 0 && v2 ≥ 0 && v3 ≥ 0) || (v1 ≤ 0 && v2 ≤ 0 && v3 ≤ 0)
    if !weak then acc else
    let strict := (v1 > 0 && v2 > 0 && v3 > 0) || (v1 < 0 && v2 < 0 && v3 < 0)
    let den := vdot (triCross t) n
    if den != 0 then
      let u := hitParam3 m n t
      ((u, u) :: acc.1, acc.2 && strict)
    else
      let nn := vdot n n
      let ua := vdot a n / nn
      let ub := vdot b n / nn
      let uc := vdot c n / nn
      ((min3 ua ub uc, max3 ua ub uc) :: acc.1, false)) ([], true)

/-- `rn3`: what `RepairNormals(eps)` must return; see `handleRn2`.  The probe is evaluated at
distance `eps · |n|₂ / |n|₁ ∈ [eps/√3, eps]` from the centroid, nothing may touch the normal line up
to distance `eps · 65/64` (`repair_normals3_offset_irrelevant_within_clearance`), and for normal
lines in general position the count along the normal (`evenOddRay3`) must agree with the generic
directions. -/
def handleRn3 (ts : List Tri) (eps : Rat) (cs : Array P3) : String :=
  let geoP := ts.map (geoTri cs)
  let geo := geoP.map gtri
  let bound := eps * 65 / 64
  let per := geo.map fun g =>
    let n := triCross g
    let len1 := (if n.x < 0 then -n.x else n.x) + (if n.y < 0 then -n.y else n.y) + (if n.z < 0 then -n.z else n.z)
    if len1 == 0 then (none, true, true) else
    let m := triCentre ((1 : Rat) / 3) g
    let probe := probeAt3 ((1 : Rat) / 3) (eps / len1) g
    let spec := inside3 geoP ⟨probe.x, probe.y, probe.z⟩
    let (touches, generic) := lineTouches3 geo m n
    let clear := touches.all fun iv => iv.2 ≤ 0 || (iv.1 > 0 && iv.1 * iv.1 * vdot n n > bound * bound)
    let rayOk := !generic || spec == some (evenOddRay3 geo probe n)
    (spec, clear, rayOk)
  if per.any (·.1.isNone) then "degenerate" else
  match per.findIdx? (!·.2.1) with
  | some i => s!"unclear:{i}"
  | none =>
  let fl := per.map (·.1.getD false)
  let idx := ((List.range ts.length).zip fl).filter (·.2) |>.map (·.1)
  let r := repairNormals (fun f => fl.getD f.1 false) ts
  s!"flip={showNats idx} n={r.2} clean={boolStr (edgeBalanced r.1)}" ++
    (if per.any (!·.2.2) then " MODELDIFF:ray-direction" else "")

def v2 (p : P2) : Vec2 Rat := ⟨p.x, p.y⟩
def gseg (g : P2 × P2) : GSeg Rat := (v2 g.1, v2 g.2)

/-- Where the mesh touches the normal line of `g` (closed test: end points on the line and segments
lying in the line count): parameter intervals in units of the left vector `n`, measured from `m`. -/
def lineTouches (geo : List (GSeg Rat)) (m n : Vec2 Rat) : List (Rat × Rat) :=
  geo.filterMap fun s =>
    let sa := sideOf m n s.1
    let sb := sideOf m n s.2
    if sa * sb > 0 then none
    else if sa == 0 && sb == 0 then
      let ua := (s.1.sub m).dot n / n.normSq
      let ub := (s.2.sub m).dot n / n.normSq
      some (min ua ub, max ua ub)
    else
      let u := hitParam m n s
      some (u, u)

/-- Nothing touches the normal line of `g` within the Euclidean distance `bound` in front of the
midpoint (on the left): every touch interval lies at parameters `≤ 0` or beyond `bound / |n|`. -/
def clearWithin (geo : List (GSeg Rat)) (g : GSeg Rat) (bound : Rat) : Bool :=
  let m := segMid ((1 : Rat) / 2) g
  let n := segLeft g
  (lineTouches geo m n).all fun iv =>
    iv.2 ≤ 0 || (iv.1 > 0 && iv.1 * iv.1 * n.normSq > bound * bound)

/-- `rn2`: what `RepairNormals(eps)` must return.  A segment is reversed iff the region just to the
left of its midpoint is inside by the even–odd rule (exact, generic ray directions).  The region is
evaluated at the point of the normal line at distance `eps · |n|₂ / |n|₁ ∈ [eps/√2, eps]`; the
driver checks that nothing touches the normal line up to distance `eps · 65/64`
(`repair_normals2_offset_irrelevant_within_clearance`: inside that stretch the offset is
irrelevant, so the point of the source, at distance `eps`, must get the same answer; otherwise
`unclear:<i>` — the generator never produces that), and that counting along the normal
(`evenOddRay`, the model the theorem is about) agrees with the generic directions
(`MODELDIFF:ray-direction`). -/
def handleRn2 (ss : List Seg) (eps : Rat) (cs : Array P2) (normalSign : Rat) : String :=
  let geoP := ss.map (geoSeg cs)
  let geo := geoP.map gseg
  let eps := eps * normalSign
  let per := (geoP.zip geo).map fun (gp, g) =>
    let n := segLeft g
    let len1 := (if n.x < 0 then -n.x else n.x) + (if n.y < 0 then -n.y else n.y)
    if len1 == 0 then (none, true, true) else
    let probe := probeAt ((1 : Rat) / 2) (eps / len1) g
    let spec := inside2 geoP ⟨probe.x, probe.y⟩
    let ray := evenOddRay geo probe n
    let _ := gp
    (spec, clearWithin geo g (eps * 65 / 64), spec == some ray)
  if per.any (·.1.isNone) then "degenerate" else
  match per.findIdx? (!·.2.1) with
  | some i => s!"unclear:{i}"
  | none =>
  let fl := per.map (·.1.getD false)
  let idx := ((List.range ss.length).zip fl).filter (·.2) |>.map (·.1)
  let r := repairNormals2 (fun f => fl.getD f.1 false) ss
  s!"flip={showNats idx} n={r.2} clean={boolStr (closedCurves r.1)}" ++
    (if per.any (!·.2.2) then " MODELDIFF:ray-direction" else "")

/-! ### rep3 / rep2 -/

/-- Go's `math.Round`: half away from zero. -/
def roundHalfAway (q : Rat) : Int :=
  if q ≥ 0 then (q + 1 / 2).floor else -((-q + 1 / 2).floor)

def cells3 (cs : Array P3) (eps : Rat) (v : Nat) : List (Int × Int × Int) :=
  let c := cs[v]!
  let x := roundHalfAway (c.x / eps); let y := roundHalfAway (c.y / eps); let z := roundHalfAway (c.z / eps)
  [(x, y, z), (x, y, z + 1), (x, y + 1, z), (x, y + 1, z + 1),
   (x + 1, y, z), (x + 1, y, z + 1), (x + 1, y + 1, z), (x + 1, y + 1, z + 1)]

def cells2 (cs : Array P2) (eps : Rat) (v : Nat) : List (Int × Int) :=
  let c := cs[v]!
  let x := roundHalfAway (c.x / eps); let y := roundHalfAway (c.y / eps)
  [(x, y), (x, y + 1), (x + 1, y), (x + 1, y + 1)]

/-- `cls`: for every vertex the smallest id of its class under the equivalence closure of
"share a grid hash" (definition), with the model's classes checked against it. -/
def repairReport {H : Type} [BEq H] (hashOf : Nat → List H) (nverts : Nat) (used : List Nat) :
    (Nat → Nat) × String × Bool :=
  let comps := specComponents (linked hashOf) used
  let minOf := fun (v : Nat) =>
    match comps.find? (·.contains v) with
    | some c => (sortNats c).headD v
    | none => v
  let classes := repairClasses hashOf used
  let modelOk := used.all fun v =>
    match classes.find? fun k => k.elements.contains v with
    | some k => sortNats k.elements == sortNats ((comps.find? (·.contains v)).getD []) &&
        k.elements.contains k.canonical
    | none => false
  (minOf, showNats ((List.range nverts).map minOf), modelOk)

def handleRep3 (ts : List Tri) (eps : Rat) (cs : Array P3) : String :=
  let used := sortNats (verts ts)
  let (minOf, cls, ok) := repairReport (cells3 cs eps) cs.size used
  let out := relabel minOf ts
  s!"cls={cls} fix=1 nr={boolStr (specNeedsRepair out)}" ++ (if !ok then " MODELDIFF" else "")

def handleRep2 (ss : List Seg) (eps : Rat) (cs : Array P2) : String :=
  let used := sortNats (segVerts ss)
  let (minOf, cls, ok) := repairReport (cells2 cs eps) cs.size used
  let out := relabelSegs minOf ss
  s!"cls={cls} fix=1 man={boolStr (manifold2 out)}" ++ (if !ok then " MODELDIFF" else "")

/-! ### hierarchies -/

/-- Canonical description of a set of components with parent pointers. -/
def showHier (comps : List (List Nat)) (parentOf : List Nat → Option (List Nat)) : String :=
  let cs := canonGroups comps
  let pars := cs.map fun c =>
    match parentOf c with
    | none => "r"
    | some p => match cs.findIdx? (· == sortNats p) with
      | some i => toString i
      | none => "?"
  s!"nodes={if cs.isEmpty then "-" else "|".intercalate (cs.map showNats)} par={if pars.isEmpty then "-" else ",".intercalate pars}"

def bitsStr (l : List Bool) : String :=
  if l.isEmpty then "-" else String.join (l.map boolStr)

/-- Flatten a model forest into (component face indices, parent component). -/
def forestPairs {β : Type} : Forest (Nat × List (Nat × β)) → Option (List Nat) →
    List (List Nat × Option (List Nat))
  | .nil, _ => []
  | .node x kids sibs, par =>
    let me := x.2.map (·.1)
    (me, par) :: (forestPairs kids (some me) ++ forestPairs sibs par)

/-- Exact value of the float64 nearest to a decimal literal, through its bits. -/
def ratOfFloat (f : Float) : Rat := (ratOfBits f.toBits).getD 0

/-- The sweep axes: the float64 values of the literals of the CURRENT source
(`M3d/Gen/HierAxis.lean` is regenerated from `mesh_hierarchy.go` on every run). -/
def axis3 : P3 :=
  match M3d.Gen.HierAxis.axis3F with
  | [x, y, z] => ⟨ratOfFloat x, ratOfFloat y, ratOfFloat z⟩
  | _ => ⟨0, 0, 0⟩
def axis2 : P2 :=
  match M3d.Gen.HierAxis.axis2F with
  | [x, y] => ⟨ratOfFloat x, ratOfFloat y⟩
  | _ => ⟨0, 0⟩

def handleHier3 (ts : List Tri) (cs : Array P3) (qs : List P3) : String :=
  if specNeedsRepair ts then "panic:mesh_needs_repair" else
  let fs := enum ts
  -- definition: components = classes of faces under "share a vertex" (closure)
  let comps := specComponents sharesVert fs
  let geoOf := fun (c : List Face) => c.map fun f => geoTri cs f.2
  let repOf := fun (c : List Face) => match c with
    | f :: _ => cs[f.2.1]!
    | [] => default
  -- exact enclosure between components
  let enc := fun (a b : List Face) => (inside3 (geoOf a) (repOf b))
  let table := comps.map fun b => (b, comps.filter fun a => !(a.map (·.1) == b.map (·.1)) && (enc a b).getD false)
  if comps.any (fun b => comps.any fun a => !(a.map (·.1) == b.map (·.1)) && (enc a b).isNone) then "degenerate" else
  let enclosers := fun (b : List Face) => ((table.find? fun p => p.1.map (·.1) == b.map (·.1)).map (·.2)).getD []
  -- parent = the encloser with the most enclosers; ancestors chain must be exactly the enclosers
  let parentOf := fun (b : List Face) =>
    (enclosers b).foldl (fun (best : Option (List Face)) a =>
      match best with
      | none => some a
      | some c => if (enclosers a).length > (enclosers c).length then some a else some c) none
  let laminar := comps.all fun b =>
    let rec chain (x : List Face) (fuel : Nat) : List (List Nat) :=
      match fuel with
      | 0 => []
      | f + 1 => match parentOf x with
        | none => []
        | some p => p.map (·.1) :: chain p f
    let ch := chain b comps.length
    let en := (enclosers b).map fun a => a.map (·.1)
    ch.length == en.length && en.all ch.contains
  let idxOf := fun (c : List Face) => c.map (·.1)
  let spec := showHier (comps.map idxOf) fun c =>
    match comps.find? fun b => sortNats (idxOf b) == c with
    | some b => (parentOf b).map idxOf
    | none => none
  let geoAll := ts.map (geoTri cs)
  let cont := qs.map fun q => inside3 geoAll q
  if cont.any (·.isNone) then "degenerate-query" else
  -- faithful model with exact oracles, sweep order by exact dot product
  let order := ((sortNats (verts ts)).toArray.qsort fun a b => dot3 cs[a]! axis3 < dot3 cs[b]! axis3).toList
  let encTop := fun (y x : Comp) => (inside3 (geoOf y.2) cs[x.1]!).getD false
  let encIn := fun (y x : Comp) => (inside3 (geoOf y.2) (repOf x.2)).getD false
  let forest := meshToHierarchy encTop encIn order ts
  let pairs := forestPairs forest none
  let model := showHier (pairs.map (·.1)) fun c => ((pairs.find? fun p => sortNats p.1 == c).map (·.2)).join
  let mcont := qs.map fun q => Forest.contains (fun (x : Comp) => (inside3 (geoOf x.2) q).getD false) forest
  let mfull := sortNats ((Forest.fullMesh (fun (x : Comp) => x.2) forest).map (·.1)) == List.range ts.length
  -- the hypothesis of `hierarchy_sweep_order_from_key`: an encloser has a vertex whose key is
  -- smaller than the key of every vertex of the enclosed component
  let keyOf := fun (v : Nat) => dot3 cs[v]! axis3
  let minKey := fun (c : List Face) =>
    (c.flatMap fun f => triVerts f.2).foldl (fun (m : Option Rat) v =>
      match m with
      | none => some (keyOf v)
      | some k => some (if keyOf v < k then keyOf v else k)) none
  let sweepOK := comps.all fun a => (enclosers a).all fun b =>
    match minKey b, minKey a with
    | some kb, some ka => decide (kb < ka)
    | _, _ => false
  -- the bounding-box shortcut with the far corner (`bbox_far_corner_prefilter_sound`) changes nothing
  let v3 := fun (p : P3) => (⟨p.x, p.y, p.z⟩ : Vec3 Rat)
  let bbox := fun (c : List Face) =>
    (c.flatMap fun f => triVerts f.2).foldl (fun (b : Option (Vec3 Rat × Vec3 Rat)) v =>
      let p := cs[v]!
      match b with
      | none => some (v3 p, v3 p)
      | some (lo, hi) => some (⟨min lo.x p.x, min lo.y p.y, min lo.z p.z⟩, ⟨max hi.x p.x, max hi.y p.y, max hi.z p.z⟩)) none
  let keepFar := cornerKeep (v3 axis3)
    (fun (y : Comp) => match bbox y.2 with
      | some (lo, hi) => farCorner (v3 axis3) lo hi
      | none => ⟨0, 0, 0⟩) (fun v => v3 cs[v]!)
  let forestFar := meshToHierarchy (rootKeep keepFar encTop) encIn order ts
  let farOK := forestPairs forestFar none == pairs
  s!"ok {spec} full=ok cont={bitsStr (cont.map (·.getD false))}" ++
    (if !laminar then " NONLAMINAR" else "") ++
    (if !sweepOK then " MODELDIFF:sweep-key" else "") ++
    (if !farOK then " MODELDIFF:far-corner" else "") ++
    (if model != spec then " MODELDIFF:nesting" else "") ++
    (if mcont != cont.map (·.getD false) then " MODELDIFF:contains" else "") ++
    (if !mfull then " MODELDIFF:full" else "")

/-- Components of a segment soup under "share a vertex". -/
def sharesVert2 (s t : Nat × Seg) : Bool := segHas s.2.1 t.2 || segHas s.2.2 t.2

def handleHier2 (ss : List Seg) (cs : Array P2) (qs : List P2) : String :=
  if !manifold2 ss then "panic:mesh_must_be_manifold" else
  let order := ((sortNats (segVerts ss)).toArray.qsort fun a b =>
    cs[a]!.x * axis2.x + cs[a]!.y * axis2.y < cs[b]!.x * axis2.x + cs[b]!.y * axis2.y).toList
  let geoOf := fun (c : List Seg) => c.map (geoSeg cs)
  let encTop := fun (y x : Comp2) => (inside2 (geoOf y.2) cs[x.1]!).getD false
  -- VertexSlice()[0] is an arbitrary vertex of the component: use its first one
  let encIn := fun (y x : Comp2) => (inside2 (geoOf y.2) (match x.2 with | s :: _ => cs[s.1]! | [] => default)).getD false
  match meshToHierarchy2 encTop encIn order ss with
  | none => "panic:mesh_is_non-manifold"
  | some forest =>
    let fs := (List.range ss.length).zip ss
    let comps := specComponents sharesVert2 fs
    let geoC := fun (c : List (Nat × Seg)) => c.map fun f => geoSeg cs f.2
    let repOf := fun (c : List (Nat × Seg)) => match c with
      | f :: _ => cs[f.2.1]!
      | [] => default
    let enc := fun (a b : List (Nat × Seg)) => inside2 (geoC a) (repOf b)
    if comps.any (fun b => comps.any fun a => !(a.map (·.1) == b.map (·.1)) && (enc a b).isNone) then "degenerate" else
    let enclosers := fun (b : List (Nat × Seg)) =>
      comps.filter fun a => !(a.map (·.1) == b.map (·.1)) && (enc a b).getD false
    let parentOf := fun (b : List (Nat × Seg)) =>
      (enclosers b).foldl (fun (best : Option (List (Nat × Seg))) a =>
        match best with
        | none => some a
        | some c => if (enclosers a).length > (enclosers c).length then some a else some c) none
    let idxOf := fun (c : List (Nat × Seg)) => c.map (·.1)
    let spec := showHier (comps.map idxOf) fun c =>
      match comps.find? fun b => sortNats (idxOf b) == c with
      | some b => (parentOf b).map idxOf
      | none => none
    let geoAll := ss.map (geoSeg cs)
    let cont := qs.map fun q => inside2 geoAll q
    if cont.any (·.isNone) then "degenerate-query" else
    -- the model's components carry segments without indices: recover indices by value
    let idxSeg := fun (s : Seg) => ((fs.find? fun f => f.2 == s).map (·.1)).getD 0
    let rec pairs2 : Forest Comp2 → Option (List Nat) → List (List Nat × Option (List Nat))
      | .nil, _ => []
      | .node x kids sibs, par =>
        let me := x.2.map idxSeg
        (me, par) :: (pairs2 kids (some me) ++ pairs2 sibs par)
    let pairs := pairs2 forest none
    let model := showHier (pairs.map (·.1)) fun c => ((pairs.find? fun p => sortNats p.1 == c).map (·.2)).join
    let mcont := qs.map fun q => Forest.contains (fun (x : Comp2) => (inside2 (geoOf x.2) q).getD false) forest
    s!"ok {spec} full=ok cont={bitsStr (cont.map (·.getD false))}" ++
      (if model != spec then " MODELDIFF:nesting" else "") ++
      (if mcont != cont.map (·.getD false) then " MODELDIFF:contains" else "")

/-! ### diag2 -/

def handleDiag2 (ss : List Seg) : String :=
  -- definitions: every vertex lies on exactly two segments; a vertex is inconsistent when it is the
  -- start of two segments or the end of two (non-degenerate) segments
  let vs := sortNats (segVerts ss)
  let man := vs.all fun v => ss.countP (segHas v) == 2
  let iv := vs.filter fun v =>
    decide ((starts ss).count v > 1) || decide ((ss.filter fun s => s.1 != s.2).countP (·.2 == v) > 1)
  let mman := manifold2 ss
  let miv := sortNats (inconsistentVertices2 ss)
  let link := if noLoopSeg ss then (inOutOne ss == (man && iv.isEmpty)) else true
  s!"man={boolStr man} iv={showNats iv}" ++ (if mman != man then " MODELDIFF:man" else "") ++
    (if miv != iv then " MODELDIFF:iv" else "") ++ (if !link then " MODELDIFF:inout" else "")

/-! ### hist3: diagnostics along a history -/

structure HistSt where
  st : MeshSt                 -- the faithful stateful model (face set + lazily built index)
  known : List (Nat × Tri)    -- every face pointer seen so far
  out : List String           -- observations, newest first

def histObserve (h : HistSt) (what : String) : Option HistSt :=
  -- the definitions, evaluated on the current face set (pointer identities forgotten)
  let ts := h.st.tris
  match what with
  | "nr" =>
    let nr := specNeedsRepair ts
    let d := if needsRepairSt h.st != nr then " MODELDIFF:hist-nr" else ""
    some { h with out := (s!"nr={boolStr nr}" ++ d) :: h.out }
  | "ie" =>
    let ie := specInconsistent ts
    let mie := (inconsistentEdgesSt h.st).toArray.qsort edgeLt |>.toList
    let d := if mie != ie then " MODELDIFF:hist-ie" else ""
    some { h with out := (s!"ie={showEdges ie}" ++ d) :: h.out }
  | "sv" =>
    let sv := specSingular ts
    let msv := sortNats (singularVerticesSt h.st)
    let d := if noDegenerate ts && msv != sv then " MODELDIFF:hist-sv" else ""
    some { h with st := h.st.touch, out := (s!"sv={showNats sv}" ++ d) :: h.out }
  | "or" => some { h with st := h.st.touch, out := s!"or={orientStr ts}" :: h.out }
  | "gate" =>
    -- `MeshToHierarchy` refuses ("mesh needs repair") exactly the meshes that need repair
    some { h with out := s!"gate={boolStr (specNeedsRepair ts)}" :: h.out }
  | _ => none

def histStep (h : HistSt) (tok : String) : Option HistSt :=
  match tok.splitOn ":" with
  | ["a", id, tri] => do
    let id ← id.toNat?
    let t ← parseTri tri
    if h.known.any (·.1 == id) then none
    some { h with st := h.st.add (id, t), known := (id, t) :: h.known }
  | ["r", id] => do
    let id ← id.toNat?
    let f ← h.known.find? (·.1 == id)
    some { h with st := h.st.remove f }
  | ["A", id] => do
    let id ← id.toNat?
    let f ← h.known.find? (·.1 == id)
    some { h with st := h.st.add f }
  | ["t", "1", _] => some { h with st := h.st.touch }
  | ["t", "0", _] => some h
  | ["c"] => some { h with st := h.st.copy }
  | ["o", what] => histObserve h what
  | _ => none

def handleHist3 (ts : List Tri) (steps : List String) : Option String := do
  let fs := enum ts
  let h0 : HistSt := ⟨MeshSt.empty.run (fs.map MeshOp.add), fs, []⟩
  let h ← steps.foldlM histStep h0
  some (if h.out.isEmpty then "-" else " ".intercalate h.out.reverse)

/-! ### hist2: the 2-D twin -/

def specManifold2 (ss : List Seg) : Bool :=
  (sortNats (segVerts ss)).all fun v => ss.countP (segHas v) == 2

def specInconsistent2 (ss : List Seg) : List Nat :=
  (sortNats (segVerts ss)).filter fun v =>
    decide ((starts ss).count v > 1) || decide ((ss.filter fun s => s.1 != s.2).countP (·.2 == v) > 1)

structure Hist2St where
  st : MeshSt                 -- the shared mesh model; a segment (a, b) is the face (a, b, b)
  known : List (Nat × Seg)
  out : List String

def hist2Step (h : Hist2St) (tok : String) : Option Hist2St :=
  match tok.splitOn ":" with
  | ["a", id, seg] => do
    let id ← id.toNat?
    let s ← parseSeg seg
    if h.known.any (·.1 == id) then none
    some { h with st := h.st.add (id, segTri s), known := (id, s) :: h.known }
  | ["r", id] => do
    let id ← id.toNat?
    let f ← h.known.find? (·.1 == id)
    some { h with st := h.st.remove (f.1, segTri f.2) }
  | ["A", id] => do
    let id ← id.toNat?
    let f ← h.known.find? (·.1 == id)
    some { h with st := h.st.add (f.1, segTri f.2) }
  | ["t", "1", _] => some { h with st := h.st.touch }
  | ["t", "0", _] => some h
  | ["c"] => some { h with st := h.st.copy }
  | ["o", what] =>
    -- the definitions on the current segments
    let ss := h.st.segs
    match what with
    | "man" => some { h with st := h.st.touch, out := (s!"man={boolStr (specManifold2 ss)}" ++
        (if manifoldSt h.st != specManifold2 ss then " MODELDIFF:hist-man" else "")) :: h.out }
    | "iv" => some { h with st := h.st.touch, out := (s!"iv={showNats (specInconsistent2 ss)}" ++
        (if sortNats (inconsistentVertices2 ss) != specInconsistent2 ss then " MODELDIFF:hist-iv" else "")) :: h.out }
    | "gate" => some { h with st := h.st.touch, out := s!"gate={boolStr (!specManifold2 ss)}" :: h.out }
    | _ => none
  | _ => none

def handleHist2 (ss : List Seg) (steps : List String) : Option String := do
  let fs := (List.range ss.length).zip ss
  let st0 := MeshSt.empty.run (fs.map fun f => MeshOp.add (f.1, segTri f.2))
  let h ← steps.foldlM hist2Step ⟨st0, fs, []⟩
  some (if h.out.isEmpty then "-" else " ".intercalate h.out.reverse)

/-! ### dispatch -/

/-! ### `self3`: `Mesh.SelfIntersections` (round 7) -/

/-- `math.Sqrt` for the exact mode (as in the C07 driver): exact on squares of rationals, otherwise accurate to
2⁻⁶⁰ relative — only compared against thresholds the generated inputs keep far away. -/
def sqrtQ (q : Rat) : Rat :=
  if q ≤ 0 then 0 else
  let n := q.num.toNat
  let d := q.den
  let rn := Nat.sqrt n
  let rd := Nat.sqrt d
  if rn * rn = n ∧ rd * rd = d then (rn : Rat) / (rd : Rat)
  else
    let k : Nat := 2 ^ 160
    ((Nat.sqrt (n * k / d) : Nat) : Rat) / ((2 : Rat) ^ 80)

def colV3 (p : P3) : M3d.Col.V3 Rat := ⟨p.x, p.y, p.z⟩

/-- `self3`: the exhaustive definition (`M3d.C11.self_intersections_eq_exhaustive`: equal to the count through every
hierarchy); the faithful model over a binary hierarchy and over a single flat node run next to it. -/
def handleSelf3 (ts : List Tri) (cs : Array P3) : String :=
  let faces : List (M3d.Col.Tri3 Rat) := ts.map fun t => (colV3 cs[t.1]!, colV3 cs[t.2.1]!, colV3 cs[t.2.2]!)
  let eps : Rat := (1 : Rat) / 100000000
  let spec := M3d.MeshDiagSelf.selfIntersectionsDef sqrtQ eps faces
  let model := M3d.MeshDiagSelf.selfIntersections sqrtQ eps (M3d.MeshDiagSelf.splitTree faces.length faces) faces
  if model == spec then s!"n={spec}" else s!"MODELDIFF:self spec={spec} model={model}"

def handleAll (ws : List String) : Option String := do
  let kind ← ws.head?
  let is2 := kind.endsWith "2"
  let (inp, r) ← takeSection "I" ws.tail 1
  if kind == "hist3" then
    return ← (do
      let ts ← inp.mapM parseTri
      let (steps, _) ← takeSection "S" r 1
      handleHist3 ts steps)
  if kind == "hist2" then
    return ← (do
      let ss ← inp.mapM parseSeg
      let (steps, _) ← takeSection "S" r 1
      handleHist2 ss steps)
  let (eps, r) ← (match r with
    | "E" :: e :: r' => (parseRat e).map fun q => (some q, r')
    | _ => some (none, r))
  if is2 then
    let ss ← inp.mapM parseSeg
    let (cs, r) ← (match takeSection "C" r 3 with
      | some (c, r') => (parseCoords2 c).map fun a => (a, r')
      | none => some (#[], r))
    let qs ← (match takeSection "Q" r 2 with
      | some (q, _) => (parseRats q).map chunk2
      | none => some [])
    let okIds := cs.size == 0 || ss.all fun s => s.1 < cs.size && s.2 < cs.size
    if !okIds then none
    match kind with
    | "diag2" => some (handleDiag2 ss)
    | "rn2" => some (handleRn2 ss (← eps) cs 1)
    | "rep2" => some (handleRep2 ss (← eps) cs)
    | "hier2" => some (handleHier2 ss cs qs)
    | _ => none
  else
    let ts ← inp.mapM parseTri
    let (cs, r) ← (match takeSection "C" r 4 with
      | some (c, r') => (parseCoords3 c).map fun a => (a, r')
      | none => some (#[], r))
    let qs ← (match takeSection "Q" r 3 with
      | some (q, _) => (parseRats q).map chunk3
      | none => some [])
    let okIds := cs.size == 0 || ts.all fun t => t.1 < cs.size && t.2.1 < cs.size && t.2.2 < cs.size
    if !okIds then none
    match kind with
    | "diag3" => some (handleDiag3 true ts)
    | "diagd3" => some (handleDiag3 false ts)
    | "clus3" => some (handleClus3 ts)
    | "rnm3" => some (handleRnm3 ts)
    | "rn3" => some (handleRn3 ts (← eps) cs)
    | "rep3" => some (handleRep3 ts (← eps) cs)
    | "hier3" => some (handleHier3 ts cs qs)
    | "self3" => if cs.size == 0 then none else some (handleSelf3 ts cs)
    | _ => none

end M3d.Drv.C11
