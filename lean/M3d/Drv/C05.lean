import M3d.Basic
import M3d.Model.Transform
import M3d.Model.SmartSqueeze
import M3d.Model.Transform2
import M3d.Model.TransformNest
import M3d.Model.TransformHist
import M3d.Model.TransformScene
import M3d.Model.TransformScene2
/-!
Line-protocol handler for C05.  Core-only; runs the models of `M3d/Model/Transform.lean` at `Rat`.

Two sorts of kinds (see notes/C05.md):
* *faithful* kinds (`apply bounds invdesc appdist solidr inner outer nilcb sphin cbounds vmball mat… pinch apply`)
  print what the **model of the Go method** computes — they tie the model to the code;
* *property* kinds (`roundtrip encl dist solid sdf mball coll first sphc … invmul`) print what the
  **property demands** (the right-hand sides of the theorems in `M3d/Props/C05.lean`), and, where the wrapped
  object is given by its answers, additionally evaluate the model on a table stub and refuse
  (`MODEL-NE-SPEC`) if the model does not produce the demanded value.

2-D kinds run the native 2-D model (`M3d/Model/Transform2.lean`, namespace `Two` below).

Nested wrappers: every wrapper kind (`solid solidr sdf mball inner outer nilcb sphin cbounds coll first sphc`) also
accepts `N k t₁ … tₖ` in place of the transform (harness kinds `nest.<kind>`): the model folds the wrapper over the
list, innermost first (`nestSolid`, `nestSDF`, `nestMetaball`, `nestCollider` of `M3d/Model/TransformNest.lean`); the
property's right-hand side is computed for the slice `JoinedTransform{t₁,…,tₖ}` (`Xf.ofList`), which
`M3d.C05.nested_solid`, `nested_sdf_metaball`, `nested_collider` (+ `_2d`) prove to be the same object.
-/
namespace M3d.Drv.C05
open M3d M3d.Tf

abbrev Q := Rat

/-- exact square root of a rational square, else `none` -/
def ratSqrt (q : Q) : Option Q :=
  if q < 0 then none else
  let n := q.num.toNat
  let d := q.den
  let rn := Nat.sqrt n
  let rd := Nat.sqrt d
  if rn * rn = n ∧ rd * rd = d then some ((rn : Q) / (rd : Q)) else none

/-- `math.Sqrt` on the inputs the exact mode produces (perfect squares); `0` flags anything else. -/
def sqrtQ (q : Q) : Q := (ratSqrt q).getD 0

/-! ### token parsing -/

abbrev P (α : Type) := List String → Option (α × List String)

def pRat : P Q
  | w :: ws => (parseRat w).map (·, ws)
  | [] => none

def pNat : P Nat
  | w :: ws => w.toNat?.map (·, ws)
  | [] => none

def pV (dim : Nat) (padZ : Q) : P (V3 Q) := fun ws => do
  let (x, ws) ← pRat ws
  let (y, ws) ← pRat ws
  if dim = 2 then some (⟨x, y, padZ⟩, ws) else do
    let (z, ws) ← pRat ws
    some (⟨x, y, z⟩, ws)

def pM (dim : Nat) : P (M3 Q) := fun ws =>
  if dim = 2 then do
    let (a, ws) ← pRat ws; let (b, ws) ← pRat ws; let (c, ws) ← pRat ws; let (d, ws) ← pRat ws
    some ((⟨a, b, c, d⟩ : M2 Q).embed, ws)
  else do
    let (a0, ws) ← pRat ws; let (a1, ws) ← pRat ws; let (a2, ws) ← pRat ws
    let (a3, ws) ← pRat ws; let (a4, ws) ← pRat ws; let (a5, ws) ← pRat ws
    let (a6, ws) ← pRat ws; let (a7, ws) ← pRat ws; let (a8, ws) ← pRat ws
    some (⟨a0, a1, a2, a3, a4, a5, a6, a7, a8⟩, ws)

mutual
partial def pXf (dim : Nat) : P (Xf Q)
  | "T" :: ws => do let (v, ws) ← pV dim 0 ws; some (.translate v, ws)
  | "S" :: ws => do let (s, ws) ← pRat ws; some (.scale s, ws)
  | "V" :: ws => do let (v, ws) ← pV dim 1 ws; some (.vecScale v, ws)
  | "M" :: ws => do let (m, ws) ← pM dim ws; some (.matrix m, ws)
  | "O" :: ws => do let (m, ws) ← pM dim ws; some (.ortho m, ws)
  | "Q" :: ws => do
      let (ax, ws) ← pNat ws
      let (lo, ws) ← pRat ws; let (hi, ws) ← pRat ws; let (r, ws) ← pRat ws
      some (.squeeze ax lo hi r, ws)
  | "J" :: ws => do let (n, ws) ← pNat ws; pJoin dim n ws
  | _ => none
partial def pJoin (dim : Nat) : Nat → P (Xf Q)
  | 0, ws => some (.jnil, ws)
  | n + 1, ws => do
      let (t, ws) ← pXf dim ws
      let (r, ws) ← pJoin dim n ws
      some (.jcons t r, ws)
end


/-- `N k t₁ … tₖ`: the wrapper nested `k` deep, `t₁` innermost — the model folds the wrapper over the list
(`nest…` of `M3d/Model/TransformNest.lean`), the property's right-hand side uses the slice `JoinedTransform{t₁,…,tₖ}`
(`M3d.C05.nested_solid`, `nested_sdf_metaball`, `nested_collider` and their 2-D twins).  Any other transform token is
a single wrap. -/
def pList (dim : Nat) : Nat → P (List (Xf Q))
  | 0, ws => some ([], ws)
  | n + 1, ws => do
      let (t, ws) ← pXf dim ws
      let (r, ws) ← pList dim n ws
      some (t :: r, ws)

def pXfN (dim : Nat) : P (List (Xf Q) × Xf Q)
  | "N" :: ws => do
      let (n, ws) ← pNat ws
      let (l, ws) ← pList dim n ws
      some ((l, Xf.ofList l), ws)
  | ws => do
      let (t, ws) ← pXf dim ws
      some (([t], t), ws)

/-! ### rendering -/

def sV (dim : Nat) (v : V3 Q) : String :=
  if dim = 2 then s!"{showRat v.x} {showRat v.y}" else s!"{showRat v.x} {showRat v.y} {showRat v.z}"

def sM (dim : Nat) (m : M3 Q) : String :=
  if dim = 2 then showList showRat [m.a0, m.a1, m.a3, m.a4]
  else showList showRat [m.a0, m.a1, m.a2, m.a3, m.a4, m.a5, m.a6, m.a7, m.a8]

def sB (dim : Nat) (b : V3 Q × V3 Q) : String := sV dim b.1 ++ " " ++ sV dim b.2

partial def joinList : Xf Q → List (Xf Q)
  | .jnil => []
  | .jcons t r => t :: joinList r
  | t => [t]

partial def sXf (dim : Nat) : Xf Q → String
  | .translate v => "T " ++ sV dim v
  | .scale s => "S " ++ showRat s
  | .vecScale v => "V " ++ sV dim v
  | .matrix m => "M " ++ sM dim m
  | .ortho m => "O " ++ sM dim m
  | .squeeze ax lo hi r => s!"Q {ax} {showRat lo} {showRat hi} {showRat r}"
  | t =>
      let l := joinList t
      " ".intercalate (s!"J {l.length}" :: l.map (sXf dim))

def sHit (dim : Nat) (h : Hit Q) : String := showRat h.scale ++ " " ++ sV dim h.normal

/-! ### the property's right-hand sides -/

/-- image of a direction under the linear part of an affine transform -/
def linearPart (t : Xf Q) (d : V3 Q) : V3 Q := (t.apply d).sub (t.apply V3.zero)

/-- unit outward normal demanded for the image surface: the normalised image of the normal under the
linear part (for the similarity transforms `TransformCollider` accepts this is the normalised
inverse-transpose image, see `M3d.C05.normal_inverse_transpose`). -/
def specNormal (t : Xf Q) (n : V3 Q) : V3 Q := (linearPart t n).normalize sqrtQ

def specHit (t : Xf Q) (h : Hit Q) : Hit Q := { scale := h.scale, normal := specNormal t h.normal, extra := h.extra }

/-- the factor by which a similarity changes distances, measured on the model -/
def specFactor (t : Xf Q) : Q := sqrtQ (linearPart t ⟨1, 0, 0⟩).normSq

/-! ### handlers -/

def pHits (dim : Nat) : Nat → P (List (Hit Q))
  | 0, ws => some ([], ws)
  | n + 1, ws => do
      let (s, ws) ← pRat ws
      let (nv, ws) ← pV dim 0 ws
      let (rest, ws) ← pHits dim n ws
      some ({ scale := s, normal := nv, extra := 0 } :: rest, ws)

def done {α} (r : α × List String) : Option α := if r.2.isEmpty then some r.1 else none

def dummyCollider (hits : List (Hit Q)) : Collider Q :=
  { lo := V3.zero, hi := V3.zero, hits := fun _ => hits, count := fun _ => hits.length,
    first := fun _ => match hits with | [] => (⟨0, V3.zero, 0⟩, false) | h :: _ => (h, true),
    sphere := fun _ _ => false }

/-- a collider known only through its answers on one ray / one sphere -/
def tableCollider (r : Ray Q) (cnt : Nat) (hits : List (Hit Q)) (first : Hit Q × Bool)
    (sc : V3 Q) (sr : Q) (sb : Bool) : Collider Q :=
  { lo := V3.zero, hi := V3.zero,
    hits := fun r' => if r' = r then hits else [⟨-1, V3.zero, 999⟩],
    count := fun r' => if r' = r then cnt else 999,
    first := fun r' => if r' = r then first else (⟨-1, V3.zero, 999⟩, true),
    sphere := fun c' r' => if c' = sc ∧ r' = sr then sb else !sb }

def rcStr (dim : Nat) : RCResult Q → String
  | .panic => "panic"
  | .ok n calls =>
      if calls.isEmpty then toString n else toString n ++ " " ++ "|".intercalate (calls.map (sHit dim))

def handleXfP (pT : P (Xf Q)) (pTN : P (List (Xf Q) × Xf Q)) (dim : Nat) (kind : String) (ws : List String) :
    Option String := do
  match kind with
  | "apply" =>
      let (t, ws) ← pT ws; let p ← done (← pV dim 0 ws)
      some (sV dim (t.apply p))
  | "bounds" =>
      let (t, ws) ← pT ws; let (lo, ws) ← pV dim 0 ws; let hi ← done (← pV dim 0 ws)
      some (sB dim (t.applyBounds lo hi))
  | "invdesc" =>
      let t ← done (← pT ws)
      some (sXf dim t.inverse)
  | "roundtrip" =>
      let (t, ws) ← pT ws; let p ← done (← pV dim 0 ws)
      let spec := sV dim p ++ " " ++ sV dim p
      let model := sV dim (t.inverse.apply (t.apply p)) ++ " " ++ sV dim (t.apply (t.inverse.apply p))
      some (if model = spec then spec else spec ++ " MODEL-NE-SPEC:" ++ model)
  | "encl" =>
      let (t, ws) ← pT ws; let (lo, ws) ← pV dim 0 ws; let (hi, ws) ← pV dim 0 ws; let p ← done (← pV dim 0 ws)
      let b := t.applyBounds lo hi
      some (if inBounds (t.apply p) b.1 b.2 then "1" else "1 MODEL-NE-SPEC:0")
  | "appdist" =>
      let (t, ws) ← pT ws; let d ← done (← pRat ws)
      some (showRat (t.applyDistance d))
  | "dist" =>
      let (t, ws) ← pT ws; let (p, ws) ← pV dim 0 ws; let q ← done (← pV dim 0 ws)
      match ratSqrt ((t.apply p).sub (t.apply q)).normSq, ratSqrt (p.sub q).normSq with
      | some r, some d =>
          let spec := showRat r ++ " " ++ showRat r
          let model := showRat (t.applyDistance d)
          some (if model = showRat r then spec else spec ++ " MODEL-NE-SPEC:" ++ model)
      | _, _ => some "irrational"
  | "solid" =>
      let ((l, t), ws) ← pTN ws; let (lo, ws) ← pV dim 0 ws; let (hi, ws) ← pV dim 0 ws
      let (q, ws) ← pV dim 0 ws; let c ← done (← pNat ws)
      let stub : Solid Q := { lo := lo, hi := hi, contains := fun x => if x = q then c == 1 else !(c == 1) }
      let ts := nestSolid l stub
      let spec := boolStr (c == 1)
      let model := boolStr (ts.contains (t.apply q))
      some ((if model = spec then spec else spec ++ " MODEL-NE-SPEC:" ++ model) ++ " " ++ sB dim (ts.lo, ts.hi))
  | "solidr" =>
      let ((l, _), ws) ← pTN ws; let (lo, ws) ← pV dim 0 ws; let (hi, ws) ← pV dim 0 ws
      let p ← done (← pV dim 0 ws)
      let rect : Solid Q := { lo := lo, hi := hi, contains := fun x => inBounds x lo hi }
      some (boolStr ((nestSolid l rect).contains p))
  | "sdf" =>
      let ((l, t), ws) ← pTN ws; let (lo, ws) ← pV dim 0 ws; let (hi, ws) ← pV dim 0 ws
      let (q, ws) ← pV dim 0 ws; let v ← done (← pRat ws)
      let stub : SDF Q := { lo := lo, hi := hi, sdf := fun x => if x = q then v else v + 1000 }
      let ts := nestSDF l stub
      let spec := showRat (v * specFactor t)
      let model := showRat (ts.sdf (t.apply q))
      some ((if model = spec then spec else spec ++ " MODEL-NE-SPEC:" ++ model) ++ " " ++ sB dim (ts.lo, ts.hi))
  | "mball" =>
      let ((l, t), ws) ← pTN ws; let (lo, ws) ← pV dim 0 ws; let (hi, ws) ← pV dim 0 ws
      let (q, ws) ← pV dim 0 ws; let (mv, ws) ← pRat ws; let (d, ws) ← pRat ws; let bd ← done (← pRat ws)
      let stub : Metaball Q := { lo := lo, hi := hi, field := fun x => if x = q then mv else mv + 1000,
                                 distBound := fun x => if x = d then bd else bd + 1000 }
      let tm := nestMetaball l stub
      let spec := showRat mv ++ " " ++ showRat bd
      let model := showRat (tm.field (t.apply q)) ++ " " ++ showRat (tm.distBound (d * specFactor t))
      some ((if model = spec then spec else spec ++ " MODEL-NE-SPEC:" ++ model) ++ " " ++ sB dim (tm.lo, tm.hi))
  | "vmball" =>
      let (sc, ws) ← pV dim 1 ws; let (lo, ws) ← pV dim 0 ws; let (hi, ws) ← pV dim 0 ws
      -- on the plane the third scale component repeats the first, so that `MaxCoord` ranges over x and y only
      let sc : V3 Q := if dim = 2 then ⟨sc.x, sc.y, sc.x⟩ else sc
      let (q, ws) ← pV dim 0 ws; let (mv, ws) ← pRat ws; let (d, ws) ← pRat ws
      let (a, ws) ← pRat ws; let b ← done (← pRat ws)
      let stub : Metaball Q := { lo := lo, hi := hi, field := fun x => if x = q then mv else mv + 1000,
                                 distBound := fun x => a * x + b }
      let vm := vecScaleMetaball stub sc
      some (showRat (vm.field (q.mul sc)) ++ " " ++ showRat (vm.distBound d) ++ " " ++ sB dim (vm.lo, vm.hi))
  | "inner" =>
      let ((l, _), ws) ← pTN ws; let (o, ws) ← pV dim 0 ws; let d ← done (← pV dim 0 ws)
      let r := l.foldr (fun t r => innerRay t.inverse r) ⟨o, d⟩
      some (sV dim r.origin ++ " " ++ sV dim r.dir)
  | "outer" =>
      let ((l, _), ws) ← pTN ws; let (hs, ws) ← pHits dim 1 ws; let _ ← done ((), ws)
      let r : Ray Q := ⟨V3.zero, ⟨1, 0, 0⟩⟩
      match colliderRayCollisions (nestCollider sqrtQ l (dummyCollider hs)) r true with
      | .ok _ calls => some ("|".intercalate (calls.map (sHit dim)))
      | .panic => some "panic"
  | "nilcb" =>
      let ((l, _), ws) ← pTN ws; let k ← done (← pNat ws)
      let hs := List.replicate k (⟨1, ⟨1, 0, 0⟩, 0⟩ : Hit Q)
      some (rcStr dim (colliderRayCollisions (nestCollider sqrtQ l (dummyCollider hs)) ⟨V3.zero, ⟨1, 0, 0⟩⟩ false))
  | "sphin" =>
      let ((l, _), ws) ← pTN ws; let (c, ws) ← pV dim 0 ws; let (r, ws) ← pRat ws; let reply ← done (← pNat ws)
      let q := l.foldr (fun t (q : _ × Q) => (t.inverse.apply q.1, t.inverse.applyDistance q.2)) (c, r)
      some (sV dim q.1 ++ " " ++ showRat q.2 ++ " " ++ toString reply)
  | "cbounds" =>
      let ((l, _), ws) ← pTN ws; let (lo, ws) ← pV dim 0 ws; let hi ← done (← pV dim 0 ws)
      some (sB dim (l.foldl (fun b t => t.applyBounds b.1 b.2) (lo, hi)))
  | "coll" =>
      let mode ← ws.head?
      let ((l, t), ws) ← pTN (ws.drop 1)
      let (o, ws) ← pV dim 0 ws; let (d, ws) ← pV dim 0 ws
      let (o', ws) ← pV dim 0 ws; let (d', ws) ← pV dim 0 ws
      let (cnt, ws) ← pNat ws; let (n, ws) ← pNat ws
      let hs ← done (← pHits dim n ws)
      let stub := tableCollider ⟨o', d'⟩ cnt hs (⟨0, V3.zero, 0⟩, false) V3.zero 0 false
      let withCb := mode == "cb"
      let spec : RCResult Q := .ok cnt (if withCb then hs.map (specHit t) else [])
      let model := colliderRayCollisions (nestCollider sqrtQ l stub) ⟨o, d⟩ withCb
      let s := rcStr dim spec
      some (if rcStr dim model = s then s else s ++ " MODEL-NE-SPEC:" ++ rcStr dim model)
  | "first" =>
      let ((l, t), ws) ← pTN ws
      let (o, ws) ← pV dim 0 ws; let (d, ws) ← pV dim 0 ws
      let (o', ws) ← pV dim 0 ws; let (d', ws) ← pV dim 0 ws
      let (ok, ws) ← pNat ws
      let hs ← done (← pHits dim ok ws)
      let fst : Hit Q × Bool := match hs with | [] => (⟨0, V3.zero, 0⟩, false) | h :: _ => (h, true)
      let stub := tableCollider ⟨o', d'⟩ 0 [] fst V3.zero 0 false
      let render : Hit Q × Bool → String := fun r => if r.2 then "hit " ++ sHit dim r.1 else "miss"
      let s := render (specHit t fst.1, fst.2)
      let model := render ((nestCollider sqrtQ l stub).first ⟨o, d⟩)
      some (if model = s then s else s ++ " MODEL-NE-SPEC:" ++ model)
  | "sphc" =>
      let ((l, _), ws) ← pTN ws
      let (c, ws) ← pV dim 0 ws; let (r, ws) ← pRat ws
      let (q, ws) ← pV dim 0 ws; let (rad, ws) ← pRat ws; let want ← done (← pNat ws)
      let stub := tableCollider ⟨V3.zero, V3.zero⟩ 0 [] (⟨0, V3.zero, 0⟩, false) q rad (want == 1)
      let s := boolStr (want == 1)
      let model := boolStr ((nestCollider sqrtQ l stub).sphere c r)
      some (if model = s then s else s ++ " MODEL-NE-SPEC:" ++ model)
  | "meshxf" =>
      -- `Mesh.Transform(t.Inverse())` on a one-triangle mesh = `conjBack` per vertex
      let (t, ws) ← pT ws
      let (a, ws) ← pV dim 0 ws; let (b, ws) ← pV dim 0 ws; let c ← done (← pV dim 0 ws)
      some (sV dim (conjBack t a) ++ " " ++ sV dim (conjBack t b) ++ " " ++ sV dim (conjBack t c))
  | _ => none

/-- the kinds on a transform given by its tokens -/
def handleXf (dim : Nat) (kind : String) (ws : List String) : Option String :=
  handleXfP (pXf dim) (pXfN dim) dim kind ws

/-! ### histories of one transform object (`c05 hist3 <xf> <n> step…`)

The driver runs the *value semantics* of `M3d/Model/TransformHist.lean` (`HStep.run`): every object has a current value,
`inv i` appends `Inverse()` of the **current** value of object `i`, `mut i path μ` is an in-place edit of object `i`
(of nothing else), `snap i` remembers the value wrappers are built from, and `o <kind> <k> tok…` is any of the kinds
above evaluated on `@i` (object `i` as it is now) or `%w` (the value wrapper `w` was built from).
`M3d.C05.inverse_fresh`, `history_value_semantics`, `inverse_after_history` prove that the heap semantics of the Go
code (pointers, in-place mutation, allocation in `Inverse()`) is this value semantics. -/

/-- `@i`: object `i` as it is now; `%w`: the value wrapper `w` was built from; otherwise a literal transform. -/
def pRef (dim : Nat) (st : HState Q) : P (Xf Q)
  | w :: ws =>
      if w.startsWith "@" then do
        let i ← (w.drop 1).toString.toNat?
        let t ← st.objs[i]?
        some (t, ws)
      else if w.startsWith "%" then do
        let i ← (w.drop 1).toString.toNat?
        let t ← st.snaps[i]?
        some (t, ws)
      else pXf dim (w :: ws)
  | [] => none

def pRefN (dim : Nat) (st : HState Q) : P (List (Xf Q) × Xf Q) := fun ws => do
  let (t, ws) ← pRef dim st ws
  some (([t], t), ws)

def pNatList : Nat → P (List Nat)
  | 0, ws => some ([], ws)
  | n + 1, ws => do
      let (a, ws) ← pNat ws
      let (rest, ws) ← pNatList n ws
      some (a :: rest, ws)

def pMut (dim : Nat) : P (Mut Q)
  | "off" :: ws => do let (v, ws) ← pV dim 0 ws; some (.setOffset v, ws)
  | "sc" :: ws => do let (s, ws) ← pRat ws; some (.setScale s, ws)
  | "vec" :: ws => do let (v, ws) ← pV dim 1 ws; some (.setVec v, ws)
  | "sq" :: ws => do
      let (ax, ws) ← pNat ws
      let (lo, ws) ← pRat ws; let (hi, ws) ← pRat ws; let (r, ws) ← pRat ws
      some (.setSqueeze ax lo hi r, ws)
  | "mscale" :: ws => do let (s, ws) ← pRat ws; some (.matScale s, ws)
  | "massign" :: ws => do let (m, ws) ← pM dim ws; some (.matAssign m, ws)
  | "minvert" :: ws => some (.matInvert, ws)
  | "mptr" :: ws => do let (m, ws) ← pM dim ws; some (.matPtr m, ws)
  | "jset" :: ws => do let (k, ws) ← pNat ws; let (x, ws) ← pXf dim ws; some (.jset k x, ws)
  | "japp" :: ws => do let (x, ws) ← pXf dim ws; some (.japp x, ws)
  | "jswap" :: ws => do let (a, ws) ← pNat ws; let (b, ws) ← pNat ws; some (.jswap a b, ws)
  | _ => none

/-- the steps of a history, one output segment per step -/
def histSteps (dim : Nat) : Nat → HState Q → List String → List String → Option String
  | 0, _, ws, acc => if ws.isEmpty then some (" ; ".intercalate acc.reverse) else none
  | n + 1, st, ws, acc =>
      match ws with
      | "inv" :: ws => do
          let (i, ws) ← pNat ws
          let st' ← (HStep.inv i).run st
          let t ← st'.objs.getLast?
          histSteps dim n st' ws (sXf dim t :: acc)
      | "snap" :: ws => do
          let (i, ws) ← pNat ws
          let st' ← (HStep.snap i).run st
          histSteps dim n st' ws ("-" :: acc)
      | "mut" :: ws => do
          let (i, ws) ← pNat ws; let (k, ws) ← pNat ws; let (path, ws) ← pNatList k ws
          let (μ, ws) ← pMut dim ws
          let st' ← (HStep.mut i path μ).run st
          let t ← st'.objs[i]?
          histSteps dim n st' ws (sXf dim t :: acc)
      | "o" :: kind :: ws => do
          let (k, ws) ← pNat ws
          if ws.length < k then none
          let out ← handleXfP (pRef dim st) (pRefN dim st) dim kind (ws.take k)
          histSteps dim n st (ws.drop k) (out :: acc)
      | _ => none

/-- `hist3 <xf> <n> step…` -/
def handleHist (dim : Nat) (ws : List String) : Option String := do
  let (t, ws) ← pXf dim ws
  let (n, ws) ← pNat ws
  histSteps dim n { objs := [t], snaps := [] } ws []


/-! ### scene graphs (`scene3` / `scene2`): `M3d/Model/TransformScene.lean`

`c05 sceneN <mode> <scene> args…` with `<scene>` = `L id lo hi a b k (scale normal)ᵏ` (the harness' probe collider,
`probeCollider`) | `G n <scene>ⁿ` (a user-defined multi-member collider) | `C n <scene>ⁿ` (the real `NewJoinedCollider`; all
probes have bounds that contain every ray origin, so its bounds gate lets every query through) | `X <transform> <scene>`
(`TransformCollider`).  The answers are those of the collider VALUE (`groupCollider` / `transformCollider`), which
`M3d.C05.transform_group_distrib` + `nested_collider` reduce to the single-wrapper laws leaf by leaf; the ray modes also run
the pointer semantics `Scene.run` (with the shadow-ray callback in mode `re`) and refuse (`MODEL-NE-SPEC`) unless it reports
the same collisions (`M3d.C05.scene_pointer_semantics`, `scene_shadow_rays`). -/

def mkPairs : List (Scene Q) → Option (Scene Q)
  | [] => none
  | [s] => some s
  | s :: rest => (mkPairs rest).map (Scene.pair s)

mutual
partial def pScene (dim : Nat) : P (Collider Q × Scene Q)
  | "L" :: ws => do
      let (id, ws) ← pNat ws
      let (lo, ws) ← pV dim 0 ws; let (hi, ws) ← pV dim 0 ws
      let (a, ws) ← pV dim 0 ws; let (b, ws) ← pV dim 0 ws
      let (k, ws) ← pNat ws
      let (hs, ws) ← pHits dim k ws
      let c := probeCollider lo hi a b (hs.map fun h => { h with extra := id })
      some ((c, .leaf c), ws)
  | "X" :: ws => do
      let (t, ws) ← pXf dim ws
      let ((c, s), ws) ← pScene dim ws
      some ((transformCollider sqrtQ t c, .xform t s), ws)
  | g :: ws => do
      if g != "G" && g != "C" then none
      let (n, ws) ← pNat ws
      let (kids, ws) ← pScenes dim n ws
      match kids with
      | [] => none
      | (c0, _) :: rest =>
          let sc ← mkPairs (kids.map (·.2))
          some ((groupCollider c0 (rest.map (·.1)), sc), ws)
  | [] => none
partial def pScenes (dim : Nat) : Nat → P (List (Collider Q × Scene Q))
  | 0, ws => some ([], ws)
  | n + 1, ws => do
      let (x, ws) ← pScene dim ws
      let (r, ws) ← pScenes dim n ws
      some (x :: r, ws)
end

def sHitX (dim : Nat) (h : Hit Q) : String := sHit dim h ++ " " ++ toString h.extra

def sHitsX (dim : Nat) (n : Nat) (hs : List (Hit Q)) : String :=
  if hs.isEmpty then toString n else toString n ++ " " ++ "|".intercalate (hs.map (sHitX dim))

def pRay (dim : Nat) : P (Ray Q) := fun ws => do
  let (o, ws) ← pV dim 0 ws; let (d, ws) ← pV dim 0 ws
  some (⟨o, d⟩, ws)

def handleScene (dim : Nat) (ws : List String) : Option String := do
  let (mode, ws) ← (match ws with | m :: ws => some (m, ws) | [] => none)
  let ((col, sc), ws) ← pScene dim ws
  match mode with
  | "cb" =>
      let r ← done (← pRay dim ws)
      let ok := decide ((sc.run sqrtQ (fun s => s) 0 [r]).2 = col.hits r)
      some (sHitsX dim (col.count r) (col.hits r) ++ (if ok then "" else " MODEL-NE-SPEC"))
  | "nil" =>
      let r ← done (← pRay dim ws)
      some (toString (col.count r))
  | "first" =>
      let r ← done (← pRay dim ws)
      let f := col.first r
      some (if f.2 then "hit " ++ sHitX dim f.1 else "miss")
  | "re" =>
      let (r, ws) ← pRay dim ws
      let sec ← done (← pRay dim ws)
      let ok := decide ((sc.run sqrtQ (shadowCallback sqrtQ sc sec) 0 [r]).2 = col.hits r)
      let secStr := sHitsX dim (col.count sec) (col.hits sec)
      some (" ; ".intercalate (sHitsX dim (col.count r) (col.hits r) :: (col.hits r).map (fun _ => secStr))
        ++ (if ok then "" else " MODEL-NE-SPEC"))
  | "sph" =>
      let (p, ws) ← pV dim 0 ws
      let rad ← done (← pRat ws)
      some (boolStr (col.sphere p rad))
  | "bounds" =>
      let _ ← done ((), ws)
      some (sB dim (col.lo, col.hi))
  | _ => none


/-! ### the 2-D kinds: the same handlers over the native 2-D model (`M3d/Model/Transform2.lean`) -/
namespace Two

def pV (_dim : Nat) (_padZ : Q) : P (V2 Q) := fun ws => do
  let (x, ws) ← pRat ws
  let (y, ws) ← pRat ws
  some (⟨x, y⟩, ws)

def pM (_dim : Nat) : P (M2 Q) := fun ws => do
  let (a, ws) ← pRat ws; let (b, ws) ← pRat ws; let (c, ws) ← pRat ws; let (d, ws) ← pRat ws
  some (⟨a, b, c, d⟩, ws)

mutual
partial def pXf (dim : Nat) : P (Xf2 Q)
  | "T" :: ws => do let (v, ws) ← pV dim 0 ws; some (.translate v, ws)
  | "S" :: ws => do let (s, ws) ← pRat ws; some (.scale s, ws)
  | "V" :: ws => do let (v, ws) ← pV dim 1 ws; some (.vecScale v, ws)
  | "M" :: ws => do let (m, ws) ← pM dim ws; some (.matrix m, ws)
  | "O" :: ws => do let (m, ws) ← pM dim ws; some (.ortho m, ws)
  | "J" :: ws => do let (n, ws) ← pNat ws; pJoin dim n ws
  | _ => none
partial def pJoin (dim : Nat) : Nat → P (Xf2 Q)
  | 0, ws => some (.jnil, ws)
  | n + 1, ws => do
      let (t, ws) ← pXf dim ws
      let (r, ws) ← pJoin dim n ws
      some (.jcons t r, ws)
end




/-- `N k t₁ … tₖ`: the wrapper nested `k` deep, `t₁` innermost — the model folds the wrapper over the list
(`nest…` of `M3d/Model/TransformNest.lean`), the property's right-hand side uses the slice `JoinedTransform{t₁,…,tₖ}`
(`M3d.C05.nested_solid`, `nested_sdf_metaball`, `nested_collider` and their 2-D twins).  Any other transform token is
a single wrap. -/
def pList (dim : Nat) : Nat → P (List (Xf2 Q))
  | 0, ws => some ([], ws)
  | n + 1, ws => do
      let (t, ws) ← pXf dim ws
      let (r, ws) ← pList dim n ws
      some (t :: r, ws)

def pXfN (dim : Nat) : P (List (Xf2 Q) × Xf2 Q)
  | "N" :: ws => do
      let (n, ws) ← pNat ws
      let (l, ws) ← pList dim n ws
      some ((l, Xf2.ofList l), ws)
  | ws => do
      let (t, ws) ← pXf dim ws
      some (([t], t), ws)

def sV (_dim : Nat) (v : V2 Q) : String := s!"{showRat v.x} {showRat v.y}"

def sM (_dim : Nat) (m : M2 Q) : String := showList showRat [m.a0, m.a1, m.a2, m.a3]

def sB (dim : Nat) (b : V2 Q × V2 Q) : String := sV dim b.1 ++ " " ++ sV dim b.2

partial def joinList : Xf2 Q → List (Xf2 Q)
  | .jnil => []
  | .jcons t r => t :: joinList r
  | t => [t]

partial def sXf (dim : Nat) : Xf2 Q → String
  | .translate v => "T " ++ sV dim v
  | .scale s => "S " ++ showRat s
  | .vecScale v => "V " ++ sV dim v
  | .matrix m => "M " ++ sM dim m
  | .ortho m => "O " ++ sM dim m
  | t =>
      let l := joinList t
      " ".intercalate (s!"J {l.length}" :: l.map (sXf dim))

def sHit (dim : Nat) (h : Hit2 Q) : String := showRat h.scale ++ " " ++ sV dim h.normal



/-- image of a direction under the linear part of an affine transform -/
def linearPart (t : Xf2 Q) (d : V2 Q) : V2 Q := (t.apply d).sub (t.apply V2.zero)

/-- unit outward normal demanded for the image surface: the normalised image of the normal under the
linear part (for the similarity transforms `TransformCollider` accepts this is the normalised
inverse-transpose image, see `M3d.C05.normal_inverse_transpose`). -/
def specNormal (t : Xf2 Q) (n : V2 Q) : V2 Q := (linearPart t n).normalize sqrtQ

def specHit (t : Xf2 Q) (h : Hit2 Q) : Hit2 Q := { scale := h.scale, normal := specNormal t h.normal, extra := h.extra }

/-- the factor by which a similarity changes distances, measured on the model -/
def specFactor (t : Xf2 Q) : Q := sqrtQ (linearPart t ⟨1, 0⟩).normSq



def pHits (dim : Nat) : Nat → P (List (Hit2 Q))
  | 0, ws => some ([], ws)
  | n + 1, ws => do
      let (s, ws) ← pRat ws
      let (nv, ws) ← pV dim 0 ws
      let (rest, ws) ← pHits dim n ws
      some ({ scale := s, normal := nv, extra := 0 } :: rest, ws)

def done {α} (r : α × List String) : Option α := if r.2.isEmpty then some r.1 else none

def dummyCollider (hits : List (Hit2 Q)) : Collider2 Q :=
  { lo := V2.zero, hi := V2.zero, hits := fun _ => hits, count := fun _ => hits.length,
    first := fun _ => match hits with | [] => (⟨0, V2.zero, 0⟩, false) | h :: _ => (h, true),
    circle := fun _ _ => false }

/-- a collider known only through its answers on one ray / one sphere -/
def tableCollider (r : Ray2 Q) (cnt : Nat) (hits : List (Hit2 Q)) (first : Hit2 Q × Bool)
    (sc : V2 Q) (sr : Q) (sb : Bool) : Collider2 Q :=
  { lo := V2.zero, hi := V2.zero,
    hits := fun r' => if r' = r then hits else [⟨-1, V2.zero, 999⟩],
    count := fun r' => if r' = r then cnt else 999,
    first := fun r' => if r' = r then first else (⟨-1, V2.zero, 999⟩, true),
    circle := fun c' r' => if c' = sc ∧ r' = sr then sb else !sb }

def rcStr (dim : Nat) : RCResult2 Q → String
  | .panic => "panic"
  | .ok n calls =>
      if calls.isEmpty then toString n else toString n ++ " " ++ "|".intercalate (calls.map (sHit dim))

def handleXfP (pT : P (Xf2 Q)) (pTN : P (List (Xf2 Q) × Xf2 Q)) (dim : Nat) (kind : String) (ws : List String) :
    Option String := do
  match kind with
  | "apply" =>
      let (t, ws) ← pT ws; let p ← done (← pV dim 0 ws)
      some (sV dim (t.apply p))
  | "bounds" =>
      let (t, ws) ← pT ws; let (lo, ws) ← pV dim 0 ws; let hi ← done (← pV dim 0 ws)
      some (sB dim (t.applyBounds lo hi))
  | "invdesc" =>
      let t ← done (← pT ws)
      some (sXf dim t.inverse)
  | "roundtrip" =>
      let (t, ws) ← pT ws; let p ← done (← pV dim 0 ws)
      let spec := sV dim p ++ " " ++ sV dim p
      let model := sV dim (t.inverse.apply (t.apply p)) ++ " " ++ sV dim (t.apply (t.inverse.apply p))
      some (if model = spec then spec else spec ++ " MODEL-NE-SPEC:" ++ model)
  | "encl" =>
      let (t, ws) ← pT ws; let (lo, ws) ← pV dim 0 ws; let (hi, ws) ← pV dim 0 ws; let p ← done (← pV dim 0 ws)
      let b := t.applyBounds lo hi
      some (if inBounds2 (t.apply p) b.1 b.2 then "1" else "1 MODEL-NE-SPEC:0")
  | "appdist" =>
      let (t, ws) ← pT ws; let d ← done (← pRat ws)
      some (showRat (t.applyDistance d))
  | "dist" =>
      let (t, ws) ← pT ws; let (p, ws) ← pV dim 0 ws; let q ← done (← pV dim 0 ws)
      match ratSqrt ((t.apply p).sub (t.apply q)).normSq, ratSqrt (p.sub q).normSq with
      | some r, some d =>
          let spec := showRat r ++ " " ++ showRat r
          let model := showRat (t.applyDistance d)
          some (if model = showRat r then spec else spec ++ " MODEL-NE-SPEC:" ++ model)
      | _, _ => some "irrational"
  | "solid" =>
      let ((l, t), ws) ← pTN ws; let (lo, ws) ← pV dim 0 ws; let (hi, ws) ← pV dim 0 ws
      let (q, ws) ← pV dim 0 ws; let c ← done (← pNat ws)
      let stub : Solid2 Q := { lo := lo, hi := hi, contains := fun x => if x = q then c == 1 else !(c == 1) }
      let ts := nestSolid2 l stub
      let spec := boolStr (c == 1)
      let model := boolStr (ts.contains (t.apply q))
      some ((if model = spec then spec else spec ++ " MODEL-NE-SPEC:" ++ model) ++ " " ++ sB dim (ts.lo, ts.hi))
  | "solidr" =>
      let ((l, _), ws) ← pTN ws; let (lo, ws) ← pV dim 0 ws; let (hi, ws) ← pV dim 0 ws
      let p ← done (← pV dim 0 ws)
      let rect : Solid2 Q := { lo := lo, hi := hi, contains := fun x => inBounds2 x lo hi }
      some (boolStr ((nestSolid2 l rect).contains p))
  | "sdf" =>
      let ((l, t), ws) ← pTN ws; let (lo, ws) ← pV dim 0 ws; let (hi, ws) ← pV dim 0 ws
      let (q, ws) ← pV dim 0 ws; let v ← done (← pRat ws)
      let stub : SDF2 Q := { lo := lo, hi := hi, sdf := fun x => if x = q then v else v + 1000 }
      let ts := nestSDF2 l stub
      let spec := showRat (v * specFactor t)
      let model := showRat (ts.sdf (t.apply q))
      some ((if model = spec then spec else spec ++ " MODEL-NE-SPEC:" ++ model) ++ " " ++ sB dim (ts.lo, ts.hi))
  | "mball" =>
      let ((l, t), ws) ← pTN ws; let (lo, ws) ← pV dim 0 ws; let (hi, ws) ← pV dim 0 ws
      let (q, ws) ← pV dim 0 ws; let (mv, ws) ← pRat ws; let (d, ws) ← pRat ws; let bd ← done (← pRat ws)
      let stub : Metaball2 Q := { lo := lo, hi := hi, field := fun x => if x = q then mv else mv + 1000,
                                  distBound := fun x => if x = d then bd else bd + 1000 }
      let tm := nestMetaball2 l stub
      let spec := showRat mv ++ " " ++ showRat bd
      let model := showRat (tm.field (t.apply q)) ++ " " ++ showRat (tm.distBound (d * specFactor t))
      some ((if model = spec then spec else spec ++ " MODEL-NE-SPEC:" ++ model) ++ " " ++ sB dim (tm.lo, tm.hi))
  | "vmball" =>
      let (sc, ws) ← pV dim 1 ws; let (lo, ws) ← pV dim 0 ws; let (hi, ws) ← pV dim 0 ws
      let (q, ws) ← pV dim 0 ws; let (mv, ws) ← pRat ws; let (d, ws) ← pRat ws
      let (a, ws) ← pRat ws; let b ← done (← pRat ws)
      let stub : Metaball2 Q := { lo := lo, hi := hi, field := fun x => if x = q then mv else mv + 1000,
                                  distBound := fun x => a * x + b }
      let vm := vecScaleMetaball2 stub sc
      some (showRat (vm.field (q.mul sc)) ++ " " ++ showRat (vm.distBound d) ++ " " ++ sB dim (vm.lo, vm.hi))
  | "inner" =>
      let ((l, _), ws) ← pTN ws; let (o, ws) ← pV dim 0 ws; let d ← done (← pV dim 0 ws)
      let r := l.foldr (fun t r => innerRay2 t.inverse r) ⟨o, d⟩
      some (sV dim r.origin ++ " " ++ sV dim r.dir)
  | "outer" =>
      let ((l, _), ws) ← pTN ws; let (hs, ws) ← pHits dim 1 ws; let _ ← done ((), ws)
      let r : Ray2 Q := ⟨V2.zero, ⟨1, 0⟩⟩
      match colliderRayCollisions2 (nestCollider2 sqrtQ l (dummyCollider hs)) r true with
      | .ok _ calls => some ("|".intercalate (calls.map (sHit dim)))
      | .panic => some "panic"
  | "nilcb" =>
      let ((l, _), ws) ← pTN ws; let k ← done (← pNat ws)
      let hs := List.replicate k (⟨1, ⟨1, 0⟩, 0⟩ : Hit2 Q)
      some (rcStr dim (colliderRayCollisions2 (nestCollider2 sqrtQ l (dummyCollider hs)) ⟨V2.zero, ⟨1, 0⟩⟩ false))
  | "sphin" =>
      let ((l, _), ws) ← pTN ws; let (c, ws) ← pV dim 0 ws; let (r, ws) ← pRat ws; let reply ← done (← pNat ws)
      let q := l.foldr (fun t (q : _ × Q) => (t.inverse.apply q.1, t.inverse.applyDistance q.2)) (c, r)
      some (sV dim q.1 ++ " " ++ showRat q.2 ++ " " ++ toString reply)
  | "cbounds" =>
      let ((l, _), ws) ← pTN ws; let (lo, ws) ← pV dim 0 ws; let hi ← done (← pV dim 0 ws)
      some (sB dim (l.foldl (fun b t => t.applyBounds b.1 b.2) (lo, hi)))
  | "coll" =>
      let mode ← ws.head?
      let ((l, t), ws) ← pTN (ws.drop 1)
      let (o, ws) ← pV dim 0 ws; let (d, ws) ← pV dim 0 ws
      let (o', ws) ← pV dim 0 ws; let (d', ws) ← pV dim 0 ws
      let (cnt, ws) ← pNat ws; let (n, ws) ← pNat ws
      let hs ← done (← pHits dim n ws)
      let stub := tableCollider ⟨o', d'⟩ cnt hs (⟨0, V2.zero, 0⟩, false) V2.zero 0 false
      let withCb := mode == "cb"
      let spec : RCResult2 Q := .ok cnt (if withCb then hs.map (specHit t) else [])
      let model := colliderRayCollisions2 (nestCollider2 sqrtQ l stub) ⟨o, d⟩ withCb
      let s := rcStr dim spec
      some (if rcStr dim model = s then s else s ++ " MODEL-NE-SPEC:" ++ rcStr dim model)
  | "first" =>
      let ((l, t), ws) ← pTN ws
      let (o, ws) ← pV dim 0 ws; let (d, ws) ← pV dim 0 ws
      let (o', ws) ← pV dim 0 ws; let (d', ws) ← pV dim 0 ws
      let (ok, ws) ← pNat ws
      let hs ← done (← pHits dim ok ws)
      let fst : Hit2 Q × Bool := match hs with | [] => (⟨0, V2.zero, 0⟩, false) | h :: _ => (h, true)
      let stub := tableCollider ⟨o', d'⟩ 0 [] fst V2.zero 0 false
      let render : Hit2 Q × Bool → String := fun r => if r.2 then "hit " ++ sHit dim r.1 else "miss"
      let s := render (specHit t fst.1, fst.2)
      let model := render ((nestCollider2 sqrtQ l stub).first ⟨o, d⟩)
      some (if model = s then s else s ++ " MODEL-NE-SPEC:" ++ model)
  | "sphc" =>
      let ((l, _), ws) ← pTN ws
      let (c, ws) ← pV dim 0 ws; let (r, ws) ← pRat ws
      let (q, ws) ← pV dim 0 ws; let (rad, ws) ← pRat ws; let want ← done (← pNat ws)
      let stub := tableCollider ⟨V2.zero, V2.zero⟩ 0 [] (⟨0, V2.zero, 0⟩, false) q rad (want == 1)
      let s := boolStr (want == 1)
      let model := boolStr ((nestCollider2 sqrtQ l stub).circle c r)
      some (if model = s then s else s ++ " MODEL-NE-SPEC:" ++ model)
  | _ => none

/-- the kinds on a transform given by its tokens -/
def handleXf (dim : Nat) (kind : String) (ws : List String) : Option String :=
  handleXfP (pXf dim) (pXfN dim) dim kind ws

/-! ### histories of one transform object (`c05 hist2 <xf> <n> step…`)

The driver runs the *value semantics* of `M3d/Model/TransformHist.lean` (`HStep2.run`): every object has a current value,
`inv i` appends `Inverse()` of the **current** value of object `i`, `mut i path μ` is an in-place edit of object `i`
(of nothing else), `snap i` remembers the value wrappers are built from, and `o <kind> <k> tok…` is any of the kinds
above evaluated on `@i` (object `i` as it is now) or `%w` (the value wrapper `w` was built from).
`M3d.C05.inverse_fresh`, `history_value_semantics`, `inverse_after_history` prove that the heap semantics of the Go
code (pointers, in-place mutation, allocation in `Inverse()`) is this value semantics. -/

/-- `@i`: object `i` as it is now; `%w`: the value wrapper `w` was built from; otherwise a literal transform. -/
def pRef (dim : Nat) (st : HState2 Q) : P (Xf2 Q)
  | w :: ws =>
      if w.startsWith "@" then do
        let i ← (w.drop 1).toString.toNat?
        let t ← st.objs[i]?
        some (t, ws)
      else if w.startsWith "%" then do
        let i ← (w.drop 1).toString.toNat?
        let t ← st.snaps[i]?
        some (t, ws)
      else pXf dim (w :: ws)
  | [] => none

def pRefN (dim : Nat) (st : HState2 Q) : P (List (Xf2 Q) × Xf2 Q) := fun ws => do
  let (t, ws) ← pRef dim st ws
  some (([t], t), ws)

def pNatList : Nat → P (List Nat)
  | 0, ws => some ([], ws)
  | n + 1, ws => do
      let (a, ws) ← pNat ws
      let (rest, ws) ← pNatList n ws
      some (a :: rest, ws)

def pMut (dim : Nat) : P (Mut2 Q)
  | "off" :: ws => do let (v, ws) ← pV dim 0 ws; some (.setOffset v, ws)
  | "sc" :: ws => do let (s, ws) ← pRat ws; some (.setScale s, ws)
  | "vec" :: ws => do let (v, ws) ← pV dim 1 ws; some (.setVec v, ws)
  | "mscale" :: ws => do let (s, ws) ← pRat ws; some (.matScale s, ws)
  | "massign" :: ws => do let (m, ws) ← pM dim ws; some (.matAssign m, ws)
  | "minvert" :: ws => some (.matInvert, ws)
  | "mptr" :: ws => do let (m, ws) ← pM dim ws; some (.matPtr m, ws)
  | "jset" :: ws => do let (k, ws) ← pNat ws; let (x, ws) ← pXf dim ws; some (.jset k x, ws)
  | "japp" :: ws => do let (x, ws) ← pXf dim ws; some (.japp x, ws)
  | "jswap" :: ws => do let (a, ws) ← pNat ws; let (b, ws) ← pNat ws; some (.jswap a b, ws)
  | _ => none

/-- the steps of a history, one output segment per step -/
def histSteps (dim : Nat) : Nat → HState2 Q → List String → List String → Option String
  | 0, _, ws, acc => if ws.isEmpty then some (" ; ".intercalate acc.reverse) else none
  | n + 1, st, ws, acc =>
      match ws with
      | "inv" :: ws => do
          let (i, ws) ← pNat ws
          let st' ← (HStep2.inv i).run st
          let t ← st'.objs.getLast?
          histSteps dim n st' ws (sXf dim t :: acc)
      | "snap" :: ws => do
          let (i, ws) ← pNat ws
          let st' ← (HStep2.snap i).run st
          histSteps dim n st' ws ("-" :: acc)
      | "mut" :: ws => do
          let (i, ws) ← pNat ws; let (k, ws) ← pNat ws; let (path, ws) ← pNatList k ws
          let (μ, ws) ← pMut dim ws
          let st' ← (HStep2.mut i path μ).run st
          let t ← st'.objs[i]?
          histSteps dim n st' ws (sXf dim t :: acc)
      | "o" :: kind :: ws => do
          let (k, ws) ← pNat ws
          if ws.length < k then none
          let out ← handleXfP (pRef dim st) (pRefN dim st) dim kind (ws.take k)
          histSteps dim n st (ws.drop k) (out :: acc)
      | _ => none

/-- `hist2 <xf> <n> step…` -/
def handleHist (dim : Nat) (ws : List String) : Option String := do
  let (t, ws) ← pXf dim ws
  let (n, ws) ← pNat ws
  histSteps dim n { objs := [t], snaps := [] } ws []


/-! ### scene graphs, 2-D (same text as the 3-D handler) -/

def mkPairs : List (Scene2 Q) → Option (Scene2 Q)
  | [] => none
  | [s] => some s
  | s :: rest => (mkPairs rest).map (Scene2.pair s)

mutual
partial def pScene (dim : Nat) : P (Collider2 Q × Scene2 Q)
  | "L" :: ws => do
      let (id, ws) ← pNat ws
      let (lo, ws) ← pV dim 0 ws; let (hi, ws) ← pV dim 0 ws
      let (a, ws) ← pV dim 0 ws; let (b, ws) ← pV dim 0 ws
      let (k, ws) ← pNat ws
      let (hs, ws) ← pHits dim k ws
      let c := probeCollider2 lo hi a b (hs.map fun h => { h with extra := id })
      some ((c, .leaf c), ws)
  | "X" :: ws => do
      let (t, ws) ← pXf dim ws
      let ((c, s), ws) ← pScene dim ws
      some ((transformCollider2 sqrtQ t c, .xform t s), ws)
  | g :: ws => do
      if g != "G" && g != "C" then none
      let (n, ws) ← pNat ws
      let (kids, ws) ← pScenes dim n ws
      match kids with
      | [] => none
      | (c0, _) :: rest =>
          let sc ← mkPairs (kids.map (·.2))
          some ((groupCollider2 c0 (rest.map (·.1)), sc), ws)
  | [] => none
partial def pScenes (dim : Nat) : Nat → P (List (Collider2 Q × Scene2 Q))
  | 0, ws => some ([], ws)
  | n + 1, ws => do
      let (x, ws) ← pScene dim ws
      let (r, ws) ← pScenes dim n ws
      some (x :: r, ws)
end

def sHitX (dim : Nat) (h : Hit2 Q) : String := sHit dim h ++ " " ++ toString h.extra

def sHitsX (dim : Nat) (n : Nat) (hs : List (Hit2 Q)) : String :=
  if hs.isEmpty then toString n else toString n ++ " " ++ "|".intercalate (hs.map (sHitX dim))

def pRay (dim : Nat) : P (Ray2 Q) := fun ws => do
  let (o, ws) ← pV dim 0 ws; let (d, ws) ← pV dim 0 ws
  some (⟨o, d⟩, ws)

def handleScene (dim : Nat) (ws : List String) : Option String := do
  let (mode, ws) ← (match ws with | m :: ws => some (m, ws) | [] => none)
  let ((col, sc), ws) ← pScene dim ws
  match mode with
  | "cb" =>
      let r ← done (← pRay dim ws)
      let ok := decide ((sc.run sqrtQ (fun s => s) 0 [r]).2 = col.hits r)
      some (sHitsX dim (col.count r) (col.hits r) ++ (if ok then "" else " MODEL-NE-SPEC"))
  | "nil" =>
      let r ← done (← pRay dim ws)
      some (toString (col.count r))
  | "first" =>
      let r ← done (← pRay dim ws)
      let f := col.first r
      some (if f.2 then "hit " ++ sHitX dim f.1 else "miss")
  | "re" =>
      let (r, ws) ← pRay dim ws
      let sec ← done (← pRay dim ws)
      let ok := decide ((sc.run sqrtQ (shadowCallback2 sqrtQ sc sec) 0 [r]).2 = col.hits r)
      let secStr := sHitsX dim (col.count sec) (col.hits sec)
      some (" ; ".intercalate (sHitsX dim (col.count r) (col.hits r) :: (col.hits r).map (fun _ => secStr))
        ++ (if ok then "" else " MODEL-NE-SPEC"))
  | "sph" =>
      let (p, ws) ← pV dim 0 ws
      let rad ← done (← pRat ws)
      some (boolStr (col.circle p rad))
  | "bounds" =>
      let _ ← done ((), ws)
      some (sB dim (col.lo, col.hi))
  | _ => none

end Two

/-! ### matrices -/

def pM2 : P (M2 Q) := fun ws => do
  let (a, ws) ← pRat ws; let (b, ws) ← pRat ws; let (c, ws) ← pRat ws; let (d, ws) ← pRat ws
  some (⟨a, b, c, d⟩, ws)

def sM2 (m : M2 Q) : String := showList showRat [m.a0, m.a1, m.a2, m.a3]

def handleMat3 (ws : List String) : Option String := do
  match ws with
  | "det" :: ws => let m ← done (← pM 3 ws); some (showRat m.det)
  | "inv" :: ws => let m ← done (← pM 3 ws); some (sM 3 m.inverse)
  | "mul" :: ws => let (m, ws) ← pM 3 ws; let n ← done (← pM 3 ws); some (sM 3 (m.mul n))
  | "mulcol" :: ws => let (m, ws) ← pM 3 ws; let p ← done (← pV 3 0 ws); some (sV 3 (m.mulColumn p))
  | "mulcolinv" :: ws => let (m, ws) ← pM 3 ws; let p ← done (← pV 3 0 ws); some (sV 3 (m.mulColumnInv p m.det))
  | "tr" :: ws => let m ← done (← pM 3 ws); some (sM 3 m.transpose)
  | "invmul" :: ws => let _ ← done (← pM 3 ws); some (sM 3 M3.one ++ " " ++ sM 3 M3.one)
  | _ => none

def handleMat2 (ws : List String) : Option String := do
  match ws with
  | "det" :: ws => let m ← done (← pM2 ws); some (showRat m.det)
  | "inv" :: ws => let m ← done (← pM2 ws); some (sM2 m.inverse)
  | "mul" :: ws => let (m, ws) ← pM2 ws; let n ← done (← pM2 ws); some (sM2 (m.mul n))
  | "mulcol" :: ws =>
      let (m, ws) ← pM2 ws; let (x, ws) ← pRat ws; let y ← done (← pRat ws)
      let r := m.mulColumn ⟨x, y⟩
      some (showRat r.x ++ " " ++ showRat r.y)
  | "mulcolinv" :: ws =>
      let (m, ws) ← pM2 ws; let (x, ws) ← pRat ws; let y ← done (← pRat ws)
      let r := m.mulColumnInv ⟨x, y⟩ m.det
      some (showRat r.x ++ " " ++ showRat r.y)
  | "tr" :: ws => let m ← done (← pM2 ws); some (sM2 m.transpose)
  | "invmul" :: ws => let _ ← done (← pM2 ws); some (sM2 M2.one ++ " " ++ sM2 M2.one)
  | _ => none

/-! ### `AxisPinch` with `Power ∈ {2, 1/2, 1}` -/

def powOf : String → Option ((Q → Q) × Q)
  | "sq" => some (fun t => t * t, 2)
  | "rt" => some (sqrtQ, 1 / 2)
  | "one" => some (id, 1)
  | _ => none

def handlePinch (ws : List String) : Option String := do
  let sub ← ws.head?
  let (ax, ws) ← pNat (ws.drop 1)
  let (lo, ws) ← pRat ws; let (hi, ws) ← pRat ws
  let pwName ← ws.head?
  let (powF, power) ← powOf pwName
  let ws := ws.drop 1
  let a : Pinch Q := ⟨ax, lo, hi⟩
  match sub with
  | "apply" => let p ← done (← pV 3 0 ws); some (sV 3 (a.apply powF p))
  | "invdesc" => if ws.isEmpty then some s!"{ax} {showRat lo} {showRat hi} {showRat (1 / power)}" else none
  | "roundtrip" => let p ← done (← pV 3 0 ws); some (sV 3 p ++ " " ++ sV 3 p)
  | "encl" =>
      let (_, ws) ← pV 3 0 ws; let (_, ws) ← pV 3 0 ws; let _ ← done (← pV 3 0 ws)
      some "1"
  | "solid" =>
      -- `TransformSolid(pinch, Rect{lo,hi}).Contains(pinch.Apply(q))` for `q` in the box: `M3d.C05.pinch_solid_conj`
      let (lo, ws) ← pV 3 0 ws; let (hi, ws) ← pV 3 0 ws; let q ← done (← pV 3 0 ws)
      some (boolStr (inBounds q lo hi))
  | _ => none


/-! ### `bits` mode: the same model at `Float`, numbers cross as 16-hex-digit IEEE bit patterns.
`-0` is rendered as `+0` and every NaN as `nan` on both sides (`math.Min/Max/Abs` differ from the model's
`if a ≤ b` only in the sign of a zero). -/

abbrev F := Float

def pFl : P F
  | w :: ws => (floatOfHex w).map (·, ws)
  | [] => none

def sFl (x : F) : String :=
  if x.isNaN then "nan" else if x == 0 then hexOfFloat 0 else hexOfFloat x

def pVF : P (V3 F) := fun ws => do
  let (x, ws) ← pFl ws; let (y, ws) ← pFl ws; let (z, ws) ← pFl ws
  some (⟨x, y, z⟩, ws)

def pMF : P (M3 F) := fun ws => do
  let (a0, ws) ← pFl ws; let (a1, ws) ← pFl ws; let (a2, ws) ← pFl ws
  let (a3, ws) ← pFl ws; let (a4, ws) ← pFl ws; let (a5, ws) ← pFl ws
  let (a6, ws) ← pFl ws; let (a7, ws) ← pFl ws; let (a8, ws) ← pFl ws
  some (⟨a0, a1, a2, a3, a4, a5, a6, a7, a8⟩, ws)

mutual
partial def pXfF : P (Xf F)
  | "T" :: ws => do let (v, ws) ← pVF ws; some (.translate v, ws)
  | "S" :: ws => do let (s, ws) ← pFl ws; some (.scale s, ws)
  | "V" :: ws => do let (v, ws) ← pVF ws; some (.vecScale v, ws)
  | "M" :: ws => do let (m, ws) ← pMF ws; some (.matrix m, ws)
  | "O" :: ws => do let (m, ws) ← pMF ws; some (.ortho m, ws)
  | "Q" :: ws => do
      let (ax, ws) ← pNat ws
      let (lo, ws) ← pFl ws; let (hi, ws) ← pFl ws; let (r, ws) ← pFl ws
      some (.squeeze ax lo hi r, ws)
  | "J" :: ws => do let (n, ws) ← pNat ws; pJoinF n ws
  | _ => none
partial def pJoinF : Nat → P (Xf F)
  | 0, ws => some (.jnil, ws)
  | n + 1, ws => do
      let (t, ws) ← pXfF ws
      let (r, ws) ← pJoinF n ws
      some (.jcons t r, ws)
end

def sVF (v : V3 F) : String := s!"{sFl v.x} {sFl v.y} {sFl v.z}"
def sMF (m : M3 F) : String := showList sFl [m.a0, m.a1, m.a2, m.a3, m.a4, m.a5, m.a6, m.a7, m.a8]
def sBF (b : V3 F × V3 F) : String := sVF b.1 ++ " " ++ sVF b.2

partial def joinListF : Xf F → List (Xf F)
  | .jnil => []
  | .jcons t r => t :: joinListF r
  | t => [t]

partial def sXfF : Xf F → String
  | .translate v => "T " ++ sVF v
  | .scale s => "S " ++ sFl s
  | .vecScale v => "V " ++ sVF v
  | .matrix m => "M " ++ sMF m
  | .ortho m => "O " ++ sMF m
  | .squeeze ax lo hi r => s!"Q {ax} {sFl lo} {sFl hi} {sFl r}"
  | t =>
      let l := joinListF t
      " ".intercalate (s!"J {l.length}" :: l.map sXfF)

/-- bits-mode kinds (all faithful: the Float run of the model of a Go method against the method). -/
def handleBits (kind : String) (ws : List String) : Option String := do
  match kind with
  | "rotm3" =>
      let (ax, ws) ← pVF ws; let (c, ws) ← pFl ws; let s ← done (← pFl ws)
      some (sMF (rotation3 Float.sqrt ax c s))
  | "rotm2" =>
      let (c, ws) ← pFl ws; let s ← done (← pFl ws)
      let m : M2 F := M2.rotation c s
      some (showList sFl [m.a0, m.a1, m.a2, m.a3])
  | "ortho3" =>
      let ax ← done (← pVF ws)
      let b := orthoBasis Float.sqrt ax
      some (sVF b.1 ++ " " ++ sVF b.2)
  | "fapply3" =>
      let (t, ws) ← pXfF ws; let p ← done (← pVF ws)
      some (sVF (t.apply p))
  | "fbounds3" =>
      let (t, ws) ← pXfF ws; let (lo, ws) ← pVF ws; let hi ← done (← pVF ws)
      some (sBF (t.applyBounds lo hi))
  | "finvdesc3" =>
      let t ← done (← pXfF ws)
      some (sXfF t.inverse)
  | "fappdist3" =>
      let (t, ws) ← pXfF ws; let d ← done (← pFl ws)
      some (sFl (t.applyDistance d))
  | "finner3" =>
      let (t, ws) ← pXfF ws; let (o, ws) ← pVF ws; let d ← done (← pVF ws)
      let r := innerRay t.inverse ⟨o, d⟩
      some (sVF r.origin ++ " " ++ sVF r.dir)
  | "fouter3" =>
      let (t, ws) ← pXfF ws; let (sc, ws) ← pFl ws; let n ← done (← pVF ws)
      let h := outerCollision Float.sqrt t ⟨sc, n, 0⟩
      some (sFl h.scale ++ " " ++ sVF h.normal)
  | "fsphin3" =>
      let (t, ws) ← pXfF ws; let (c, ws) ← pVF ws; let r ← done (← pFl ws)
      some (sVF (t.inverse.apply c) ++ " " ++ sFl (t.inverse.applyDistance r))
  | "fsolidr3" =>
      -- TransformSolid(t, Rect{lo,hi}): Contains(p), bounds, and the point handed to the wrapped solid
      let (t, ws) ← pXfF ws; let (lo, ws) ← pVF ws; let (hi, ws) ← pVF ws; let p ← done (← pVF ws)
      let rect : Solid F := { lo := lo, hi := hi, contains := fun x => inBounds x lo hi }
      let ts := transformSolid t rect
      some (boolStr (ts.contains p) ++ " " ++ sBF (ts.lo, ts.hi) ++ " " ++ sVF (t.inverse.apply p))
  | "fpinch" =>
      -- AxisPinch.Apply for an arbitrary Power: `math.Pow(t1, Power) = pw` is given for the one argument it is called with
      let (ax, ws) ← pNat ws; let (lo, ws) ← pFl ws; let (hi, ws) ← pFl ws
      let (t1, ws) ← pFl ws; let (pw, ws) ← pFl ws; let p ← done (← pVF ws)
      let powF : F → F := fun x => if x == t1 then pw else (0 : F) / 0
      some (sVF ((⟨ax, lo, hi⟩ : Pinch F).apply powF p))
  | "fpinchinv" =>
      let pw ← done (← pFl ws)
      some (sFl (1 / pw))
  | "fsdf3" =>
      -- TransformSDF(t, stub returning v): value at p and the point handed to the wrapped SDF
      let (t, ws) ← pXfF ws; let (lo, ws) ← pVF ws; let (hi, ws) ← pVF ws; let (p, ws) ← pVF ws; let v ← done (← pFl ws)
      let ts := transformSDF t { lo := lo, hi := hi, sdf := fun _ => v }
      some (sFl (ts.sdf p) ++ " " ++ sBF (ts.lo, ts.hi) ++ " " ++ sVF (t.inverse.apply p))
  | _ => none


/-! ### `SmartSqueeze.Transform` and `Mesh.Transform` (the vertex map of `MarchingCubesConj`) -/

def pPairs : Nat → P (List (Q × Q))
  | 0, ws => some ([], ws)
  | n + 1, ws => do
      let (a, ws) ← pRat ws; let (b, ws) ← pRat ws
      let (rest, ws) ← pPairs n ws
      some ((a, b) :: rest, ws)

def pRats : Nat → P (List Q)
  | 0, ws => some ([], ws)
  | n + 1, ws => do
      let (a, ws) ← pRat ws
      let (rest, ws) ← pRats n ws
      some (a :: rest, ws)

/-- `smart <axis> <ratio> <pinchRange> <pinchPower> <min> <max> <nU> (a b)* <nP> p*` -/
def handleSmart (ws : List String) : Option String := do
  let (ax, ws) ← pNat ws
  let (ratio, ws) ← pRat ws; let (prange, ws) ← pRat ws; let (ppow, ws) ← pRat ws
  let (lo, ws) ← pRat ws; let (hi, ws) ← pRat ws
  let (nu, ws) ← pNat ws; let (unsq, ws) ← pPairs nu ws
  let (np, ws) ← pNat ws; let pinches ← done (← pRats np ws)
  let pieces := smartPieces unsq pinches prange lo hi
  let tok : Piece Q → String
    | .squeeze a b => s!"Q {ax} {showRat a} {showRat b} {showRat ratio}"
    | .pinch a b => s!"P {ax} {showRat a} {showRat b} {showRat ppow}"
  some (" ".intercalate (s!"J {pieces.length}" :: pieces.map tok))

/-- `meshxf3 <xf> <9 coordinates>`: `Mesh.Transform(t.Inverse())` on a one-triangle mesh = `conjBack` per vertex. -/
def handleMeshXf (ws : List String) : Option String := do
  let (t, ws) ← pXf 3 ws
  let (a, ws) ← pV 3 0 ws; let (b, ws) ← pV 3 0 ws; let c ← done (← pV 3 0 ws)
  some (sV 3 (conjBack t a) ++ " " ++ sV 3 (conjBack t b) ++ " " ++ sV 3 (conjBack t c))


/-! ### 2-D bits mode -/

def pV2F : P (V2 F) := fun ws => do
  let (x, ws) ← pFl ws; let (y, ws) ← pFl ws
  some (⟨x, y⟩, ws)

def pM2F : P (M2 F) := fun ws => do
  let (a, ws) ← pFl ws; let (b, ws) ← pFl ws; let (c, ws) ← pFl ws; let (d, ws) ← pFl ws
  some (⟨a, b, c, d⟩, ws)

mutual
partial def pXf2F : P (Xf2 F)
  | "T" :: ws => do let (v, ws) ← pV2F ws; some (.translate v, ws)
  | "S" :: ws => do let (s, ws) ← pFl ws; some (.scale s, ws)
  | "V" :: ws => do let (v, ws) ← pV2F ws; some (.vecScale v, ws)
  | "M" :: ws => do let (m, ws) ← pM2F ws; some (.matrix m, ws)
  | "O" :: ws => do let (m, ws) ← pM2F ws; some (.ortho m, ws)
  | "J" :: ws => do let (n, ws) ← pNat ws; pJoin2F n ws
  | _ => none
partial def pJoin2F : Nat → P (Xf2 F)
  | 0, ws => some (.jnil, ws)
  | n + 1, ws => do
      let (t, ws) ← pXf2F ws
      let (r, ws) ← pJoin2F n ws
      some (.jcons t r, ws)
end

def sV2F (v : V2 F) : String := s!"{sFl v.x} {sFl v.y}"

partial def joinList2F : Xf2 F → List (Xf2 F)
  | .jnil => []
  | .jcons t r => t :: joinList2F r
  | t => [t]

partial def sXf2F : Xf2 F → String
  | .translate v => "T " ++ sV2F v
  | .scale s => "S " ++ sFl s
  | .vecScale v => "V " ++ sV2F v
  | .matrix m => "M " ++ showList sFl [m.a0, m.a1, m.a2, m.a3]
  | .ortho m => "O " ++ showList sFl [m.a0, m.a1, m.a2, m.a3]
  | t =>
      let l := joinList2F t
      " ".intercalate (s!"J {l.length}" :: l.map sXf2F)

def handleBits2 (kind : String) (ws : List String) : Option String := do
  match kind with
  | "fapply2" =>
      let (t, ws) ← pXf2F ws; let p ← done (← pV2F ws)
      some (sV2F (t.apply p))
  | "fbounds2" =>
      let (t, ws) ← pXf2F ws; let (lo, ws) ← pV2F ws; let hi ← done (← pV2F ws)
      let b := t.applyBounds lo hi
      some (sV2F b.1 ++ " " ++ sV2F b.2)
  | "finvdesc2" =>
      let t ← done (← pXf2F ws)
      some (sXf2F t.inverse)
  | "fappdist2" =>
      let (t, ws) ← pXf2F ws; let d ← done (← pFl ws)
      some (sFl (t.applyDistance d))
  | "finner2" =>
      let (t, ws) ← pXf2F ws; let (o, ws) ← pV2F ws; let d ← done (← pV2F ws)
      let r := innerRay2 t.inverse ⟨o, d⟩
      some (sV2F r.origin ++ " " ++ sV2F r.dir)
  | "fouter2" =>
      let (t, ws) ← pXf2F ws; let (sc, ws) ← pFl ws; let n ← done (← pV2F ws)
      let h := outerCollision2 Float.sqrt t ⟨sc, n, 0⟩
      some (sFl h.scale ++ " " ++ sV2F h.normal)
  | "fsolidr2" =>
      let (t, ws) ← pXf2F ws; let (lo, ws) ← pV2F ws; let (hi, ws) ← pV2F ws; let p ← done (← pV2F ws)
      let rect : Solid2 F := { lo := lo, hi := hi, contains := fun x => inBounds2 x lo hi }
      let ts := transformSolid2 t rect
      some (boolStr (ts.contains p) ++ " " ++ sV2F ts.lo ++ " " ++ sV2F ts.hi)
  | _ => none

def stripDim (k : String) : Option (String × Nat) :=
  if k.endsWith "3" then some ((k.dropEnd 1).toString, 3)
  else if k.endsWith "2" then some ((k.dropEnd 1).toString, 2)
  else none

def handleAll (ws : List String) : Option String :=
  match ws with
  | "mat3" :: rest => handleMat3 rest
  | "mat2" :: rest => handleMat2 rest
  | "pinch" :: rest => handlePinch rest
  | "smart" :: rest => handleSmart rest
  | "meshxf3" :: rest => handleMeshXf rest
  | "hist3" :: rest => handleHist 3 rest
  | "hist2" :: rest => Two.handleHist 2 rest
  | "scene3" :: rest => handleScene 3 rest
  | "scene2" :: rest => Two.handleScene 2 rest
  | k :: rest => do
      if k.startsWith "bits." then
        let b := (k.drop 5).toString
        return ← (if b.endsWith "2" && b != "rotm2" then handleBits2 b rest else handleBits b rest)
      -- `nest.<kind>`: the same handler; the transform token is `N k t₁ … tₖ`
      let k := if k.startsWith "nest." then (k.drop 5).toString else k
      let (kind, dim) ← stripDim k
      if dim = 2 then Two.handleXf 2 kind rest else handleXf dim kind rest
  | [] => none

end M3d.Drv.C05
