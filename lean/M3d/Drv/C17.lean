import M3d.Basic
import M3d.Model.Numeric
import M3d.Model.Svd2
import M3d.Model.Curves
import M3d.Model.Search
import M3d.Model.BiCG
import M3d.Model.Lsq
import M3d.Gen.Binomial
/-!
Line-protocol handler for C17.  Core-only.

`c17 <kind>.<mode> args…` with mode `q` (exact: the generic models run at `Rat`), `f` (bit mode:
the same generic models run at `Float`), `v` (validation-only residual contracts: the answer is
the constant `ok`).  In mode `q` the answer printed for a kind is the *specification* wherever
`Props/C17.lean` proves the faithful model equal to it (Bezier evaluation ↦ de Casteljau,
`SegmentCurve.Eval` ↦ the arclength walk, `Inverse·m` ↦ identity, `divideRoot` identity ↦ 0); in
mode `f` it is the faithful model (same operations in the same order as the Go code).
-/
namespace M3d.Drv.C17
open M3d M3d.Num M3d.Curves M3d.Search

structure Codec (α : Type) where
  parse : String → Option α
  show' : α → String
  bad : α → Bool

def ratCodec : Codec Rat := ⟨parseRat, showRat, fun _ => false⟩
def floatCodec : Codec Float := ⟨floatOfHex, hexOfFloat, fun x => x.isNaN || x.isInf⟩

instance : NatCast Float := ⟨Float.ofNat⟩
instance : IntCast Float := ⟨Float.ofInt⟩

/-- Exact square root of a rational that is a perfect square (the only case the exact mode
generates); otherwise the floor-based approximation, which then shows up as a mismatch. -/
def ratSqrt (q : Rat) : Rat := ((Nat.sqrt q.num.toNat : Nat) : Rat) / ((Nat.sqrt q.den : Nat) : Rat)


def floatTrunc (x : Float) : Int := if x < 0 then -((-x).floor.toUInt64.toNat : Int) else (x.floor.toUInt64.toNat : Int)

variable {α : Type}

def outNums (cd : Codec α) (xs : List α) : String :=
  if xs.any cd.bad then "nan" else " ".intercalate (xs.map cd.show')

def outList (cd : Codec α) (xs : List α) : String :=
  if xs.isEmpty then s!"[0]" else s!"[{xs.length}] " ++ outNums cd xs

/-- Parse `n x1 … xn` off the front of the token list. -/
def takeCounted (cd : Codec α) (ws : List String) : Option (List α × List String) := do
  let n ← (← ws.head?).toNat?
  let xs ← ((ws.drop 1).take n).mapM cd.parse
  if xs.length ≠ n then none else some (xs, ws.drop (1 + n))

def takeN (cd : Codec α) (n : Nat) (ws : List String) : Option (List α × List String) := do
  let xs ← (ws.take n).mapM cd.parse
  if xs.length ≠ n then none else some (xs, ws.drop n)

/-- `n xs… ys…` -/
def takeCurve (cd : Codec α) (ws : List String) : Option (List α × List α × List String) := do
  let n ← (← ws.head?).toNat?
  let (xs, r) ← takeN cd n (ws.drop 1)
  let (ys, r) ← takeN cd n r
  some (xs, ys, r)

section Generic
variable [Add α] [Sub α] [Mul α] [Div α] [Neg α] [NatCast α] [IntCast α]
  [LT α] [DecidableLT α] [LE α] [DecidableLE α] [BEq α]

/-! ### matrices -/

def handleM2 (cd : Codec α) (exact : Bool) (op : String) (xs : List α) : Option String := do
  let a ← M2.ofList (xs.take 4)
  match op with
  | "det" => some (outNums cd [a.det])
  | "inv" => some (outNums cd a.inverse.toList)
  | "invmul" =>
    if exact then some (outNums cd ((M2.one : M2 α).toList ++ (M2.one : M2 α).toList))
    else some (outNums cd ((a.inverse.mul a).toList ++ (a.mul a.inverse).toList))
  | "mul" => do let b ← M2.ofList (xs.drop 4); some (outNums cd (a.mul b).toList)
  | "add" => do let b ← M2.ofList (xs.drop 4); some (outNums cd (a.add b).toList)
  | "mulcol" =>
    match xs.drop 4 with
    | [x, y] => let r := a.mulColumn ⟨x, y⟩; some (outNums cd [r.x, r.y])
    | _ => none
  | "mulcolinv" =>
    match xs.drop 4 with
    | [x, y, d] => let r := a.mulColumnInv ⟨x, y⟩ d; some (outNums cd [r.x, r.y])
    | _ => none
  | "transpose" => some (outNums cd a.transpose.toList)
  | _ => none

def handleM3 (cd : Codec α) (exact : Bool) (op : String) (xs : List α) : Option String := do
  let a ← M3.ofList (xs.take 9)
  match op with
  | "det" => some (outNums cd [a.det])
  | "inv" => some (outNums cd a.inverse.toList)
  | "invmul" =>
    if exact then some (outNums cd ((M3.one : M3 α).toList ++ (M3.one : M3 α).toList))
    else some (outNums cd ((a.inverse.mul a).toList ++ (a.mul a.inverse).toList))
  | "mul" => do let b ← M3.ofList (xs.drop 9); some (outNums cd (a.mul b).toList)
  | "add" => do let b ← M3.ofList (xs.drop 9); some (outNums cd (a.add b).toList)
  | "mulcol" =>
    match xs.drop 9 with
    | [x, y, z] => let r := a.mulColumn ⟨x, y, z⟩; some (outNums cd [r.x, r.y, r.z])
    | _ => none
  | "mulcolinv" =>
    match xs.drop 9 with
    | [x, y, z, d] => let r := a.mulColumnInv ⟨x, y, z⟩ d; some (outNums cd [r.x, r.y, r.z])
    | _ => none
  | "transpose" => some (outNums cd a.transpose.toList)
  | _ => none

def handleM4 (cd : Codec α) (op : String) (xs : List α) : Option String := do
  let a ← M4.ofList (xs.take 16)
  match op with
  | "det" => some (outNums cd [a.det])
  | "mul" => do let b ← M4.ofList (xs.drop 16); some (outNums cd (a.mul b).toList)
  | "transpose" => some (outNums cd a.transpose.toList)
  | "charpoly" => some (outNums cd a.charPoly)
  | "mulcol" => some (outNums cd (a.mulColumn (xs.drop 16)))
  | _ => none

/-! ### `Matrix2.Eigenvalues` / `symEigDecomp` / `SVD` (faithful models; zeros printed without sign) -/

def canonZero (x : α) : α := x + ((0 : Nat) : α)

def handleEig2 (cd : Codec α) (sqrt : α → α) (op : String) (xs : List α) : Option String := do
  let a ← M2.ofList xs
  match op with
  | "eig2" =>
    let e := M2.eigenvalues sqrt a
    some (outNums cd ([e.1, e.2.1, e.2.2].map canonZero))
  | "symeig2" =>
    let r := M2.symEigDecomp sqrt a
    some (outNums cd ((r.1.toList ++ r.2.toList).map canonZero))
  | "svd2" =>
    let r := M2.svd sqrt a
    some (outNums cd ((r.1.toList ++ r.2.1.toList ++ r.2.2.toList).map canonZero))
  | _ => none

/-! ### objectives given as tables -/

/-- `f(x) = vals[#{i : bp[i] ≤ x}]`. -/
def tabIdx (bp : List α) (x : α) : Nat := (bp.filter (fun b => decide (b ≤ x))).length

def parseTab (cd : Codec α) (ws : List String) : Option ((α → α) × List String) := do
  let (bp, r) ← takeCounted cd ws
  let (vals, r) ← takeN cd (bp.length + 1) r
  some (fun x => vals.getD (tabIdx bp x) ((0 : Nat) : α), r)

/-- `tab …` or `quad c`. -/
def parseObj (cd : Codec α) (ws : List String) : Option ((α → α) × List String) :=
  match ws with
  | "tab" :: r => parseTab cd r
  | "quad" :: c :: r => do
    let c ← cd.parse c
    some (fun x => (x - c) * (x - c), r)
  | _ => none

/-- N-dimensional product table: `m1 bp… m2 bp… … vals…`; index = mixed radix. -/
def parseTabN (cd : Codec α) (dims : Nat) (ws : List String) : Option (List α → α) := do
  let rec axes : Nat → List String → List (List α) → Option (List (List α) × List String)
    | 0, ws, acc => some (acc.reverse, ws)
    | n + 1, ws, acc => do
      let (bp, r) ← takeCounted cd ws
      axes n r (bp :: acc)
  let (bps, r) ← axes dims ws []
  let vals ← r.mapM cd.parse
  some fun p =>
    let k := (bps.zip p).foldl (fun k (bx : List α × α) => k * (bx.1.length + 1) + tabIdx bx.1 bx.2) 0
    vals.getD k ((0 : Nat) : α)

/-! ### search optimisers -/

def negIf (mn : Bool) (x : α) : α := if mn then -x else x

def handleLs (cd : Codec α) (ws : List String) : Option String := do
  match ws with
  | dir :: stops :: recs :: lo :: hi :: rest =>
    let stops ← stops.toNat?; let recs ← recs.toNat?
    let lo ← cd.parse lo; let hi ← cd.parse hi
    let (f, _) ← parseTab cd rest
    let mn := dir == "min"
    let g : α → α := fun x => negIf mn (f x)
    let tr := lineTrace stops recs g lo hi
    match lineMax stops recs g lo hi with
    | some (x, v) => some (outNums cd [x, negIf mn v] ++ " | " ++ outNums cd tr)
    | none => some "none"
  | _ => none

def handleG2 (cd : Codec α) (ws : List String) : Option String := do
  match ws with
  | dir :: xs :: ys :: recs :: rest =>
    let xs ← xs.toNat?; let ys ← ys.toNat?; let recs ← recs.toNat?
    let (b, rest) ← takeN cd 4 rest
    let f ← parseTabN cd 2 rest
    let mn := dir == "min"
    let z := ((0 : Nat) : α)
    let g : P2 α → α := fun p => negIf mn (f [p.1, p.2])
    let lo : P2 α := (b.getD 0 z, b.getD 1 z)
    let hi : P2 α := (b.getD 2 z, b.getD 3 z)
    let tr := grid2Trace xs ys recs g lo hi
    match grid2Max xs ys recs g lo hi with
    | some (p, v) => some (outNums cd [p.1, p.2, negIf mn v] ++ " | " ++ outNums cd (tr.flatMap fun p => [p.1, p.2]))
    | none => some "none"
  | _ => none

def handleG3 (cd : Codec α) (ws : List String) : Option String := do
  match ws with
  | dir :: xs :: ys :: zs :: recs :: rest =>
    let xs ← xs.toNat?; let ys ← ys.toNat?; let zs ← zs.toNat?; let recs ← recs.toNat?
    let (b, rest) ← takeN cd 6 rest
    let f ← parseTabN cd 3 rest
    let mn := dir == "min"
    let z := ((0 : Nat) : α)
    let g : P3 α → α := fun p => negIf mn (f [p.1, p.2.1, p.2.2])
    let lo : P3 α := (b.getD 0 z, b.getD 1 z, b.getD 2 z)
    let hi : P3 α := (b.getD 3 z, b.getD 4 z, b.getD 5 z)
    let tr := grid3Trace xs ys zs recs g lo hi
    match grid3Max xs ys zs recs g lo hi with
    | some (p, v) =>
      some (outNums cd [p.1, p.2.1, p.2.2, negIf mn v] ++ " | " ++ outNums cd (tr.flatMap fun p => [p.1, p.2.1, p.2.2]))
    | none => some "none"
  | _ => none

/-- Number of objective evaluations of the recursive line search (every leaf). -/
def rlsCount (stops recs : Nat) : Nat → Nat
  | 0 => 1
  | k + 1 => stops * (recs + 1) * rlsCount stops recs k

def handleRls (cd : Codec α) (ws : List String) : Option String := do
  match ws with
  | dir :: dims :: stops :: recs :: rest =>
    let dims ← dims.toNat?; let stops ← stops.toNat?; let recs ← recs.toNat?
    let (lo, rest) ← takeN cd dims rest
    let (hi, rest) ← takeN cd dims rest
    let f ← parseTabN cd dims rest
    let mn := dir == "min"
    let g : List α → α := fun p => negIf mn (f p)
    let r := rlsMax stops recs g lo hi dims (lo.map fun _ => ((0 : Nat) : α)) 0
    match r.2 with
    | some v => some (outNums cd (r.1 ++ [negIf mn v]) ++ " | " ++ toString (rlsCount stops recs dims))
    | none => some "none"
  | _ => none

def handleGss (cd : Codec α) (ws : List String) : Option String := do
  match ws with
  | iters :: phi :: lo :: hi :: rest =>
    let iters ← iters.toNat?
    let phi ← cd.parse phi; let lo ← cd.parse lo; let hi ← cd.parse hi
    let (f, _) ← parseObj cd rest
    let r := gss f phi lo hi iters
    some (outNums cd [r.1] ++ " | " ++ outNums cd r.2)
  | _ => none

/-! ### curves -/

def tbl : List (List Nat) := M3d.Gen.binomialTable

def handleBez (cd : Codec α) (exact : Bool) (ws : List String) : Option String := do
  match ws with
  | "eval" :: t :: rest =>
    let t ← cd.parse t
    let (xs, ys, _) ← takeCurve cd rest
    if xs.length < 2 then some "panic"
    else if exact then some (outNums cd [deCasteljau xs t, deCasteljau ys t])
    else some (outNums cd [bezEval tbl xs t, bezEval tbl ys t])
  | "split" :: t :: rest =>
    let t ← cd.parse t
    let (xs, ys, _) ← takeCurve cd rest
    if xs.isEmpty then some "panic" else
    let sx := split xs t; let sy := split ys t
    some (outList cd sx.1 ++ " " ++ outNums cd sy.1 ++ " " ++ outList cd sx.2 ++ " " ++ outNums cd sy.2)
  | "spliteval" :: t :: u :: rest =>
    let t ← cd.parse t; let u ← cd.parse u
    let (xs, ys, _) ← takeCurve cd rest
    let o := ((1 : Nat) : α)
    some (outNums cd [deCasteljau xs (t * u), deCasteljau ys (t * u),
      deCasteljau xs (t + (o - t) * u), deCasteljau ys (t + (o - t) * u)])
  | _ => none

/-- `bezops <curve> <m> (e t | s t)…`: a sequence of `Eval`/`Split` calls on ONE curve value; answer: every result,
then the control points afterwards, then `backing=ok` (nothing outside or inside the slice was written).  Exact
mode prints the specification (`bezier_ops_sequence`: every call answers for the original points), bit mode the
faithful run `bezRun` at `Float`. -/
def parseBezOps (cd : Codec α) : Nat → List String → Option (List (BezOp α))
  | 0, _ => some []
  | n + 1, "e" :: t :: r => do
    let t ← cd.parse t
    let rest ← parseBezOps cd n r
    some (BezOp.eval t :: rest)
  | n + 1, "s" :: t :: r => do
    let t ← cd.parse t
    let rest ← parseBezOps cd n r
    some (BezOp.split t :: rest)
  | _, _ => none

def handleBezOps (cd : Codec α) (exact : Bool) (ws : List String) : Option String := do
  let (xs, ys, r) ← takeCurve cd ws
  let m ← (← r.head?).toNat?
  let ops ← parseBezOps cd m (r.drop 1)
  if xs.length < 2 then some "panic" else
  let run : List α → List (BezRes α) × List α := fun b =>
    if exact then (ops.map (bezOpSpec b), b) else bezRun tbl b ops
  let rx := run xs; let ry := run ys
  let one : BezRes α × BezRes α → String
    | (.point x, .point y) => outNums cd [x, y]
    | (.halves l1 r1, .halves l2 r2) =>
      outList cd l1 ++ " " ++ outNums cd l2 ++ " " ++ outList cd r1 ++ " " ++ outNums cd r2
    | _ => "?"
  some (" | ".intercalate ((rx.1.zip ry.1).map one ++
    [outList cd rx.2 ++ " " ++ outNums cd ry.2 ++ " backing=ok"]))

def parseSegs (cd : Codec α) (ws : List String) : Option (List (Seg α)) := do
  let n ← (← ws.head?).toNat?
  let (xs, _) ← takeN cd (4 * n) (ws.drop 1)
  let rec go : Nat → List α → List (Seg α)
    | 0, _ => []
    | k + 1, a :: b :: c :: d :: r => ⟨a, b, c, d⟩ :: go k r
    | _, _ => []
  some (go n xs)

def handleSeg (cd : Codec α) (sqrt : α → α) (exact : Bool) (ws : List String) : Option String := do
  match ws with
  | "eval" :: t :: rest =>
    let t ← cd.parse t
    let segs ← parseSegs cd rest
    if segs.isEmpty then some "panic" else
    let p := if exact then segSpec sqrt segs t else segEval sqrt segs t
    some (outNums cd [p.1, p.2])
  | _ => none

def handleJoined (cd : Codec α) (trunc : α → Int) (ws : List String) : Option String := do
  match ws with
  | "eval" :: t :: k :: rest =>
    let t ← cd.parse t
    let k ← k.toNat?
    let rec curves : Nat → List String → List (List α × List α) → Option (List (List α × List α))
      | 0, _, acc => some acc.reverse
      | n + 1, ws, acc => do
        let (xs, ys, r) ← takeCurve cd ws
        curves n r ((xs, ys) :: acc)
    let cs ← curves k rest []
    match joinedIndex trunc k t with
    | none => some "panic"
    | some (i, subT) =>
      let c := cs.getD i ([], [])
      some (outNums cd [deCasteljau c.1 subT, deCasteljau c.2 subT])
  | _ => none

def handleBisect (cd : Codec α) (ws : List String) : Option String := do
  match ws with
  | x :: rest =>
    let x ← cd.parse x
    let (xs, _) ← takeCounted cd rest
    match bisectionSearch (fun t => bezEval tbl xs t) x with
    | none => some "nan"
    | some t => some (outNums cd [t])
  | _ => none

/-- `evalx x <curve>`: `CurveEvalX` / `BezierCurve.EvalX` (the harness passes the transposed curve for
`CurveTranspose`): bisection on the `x` coordinate, then the `y` coordinate at the parameter found. -/
def handleEvalX (cd : Codec α) (ws : List String) : Option String := do
  match ws with
  | x :: rest =>
    let x ← cd.parse x
    let (xs, ys, _) ← takeCurve cd rest
    match curveEvalX (fun t => bezEval tbl xs t) (fun t => bezEval tbl ys t) x with
    | none => some "nan"
    | some y => some (outNums cd [y])
  | _ => none

/-- `cachedevalx <variant> m x1 … xm <curve>`: a history of `m` queries on ONE function returned by
`BezierCurve.CachedEvalX` / `CacheScalarFunc(b.EvalX)`.  The expected answer is the SPECIFICATION
`xs.map EvalX` (`M3d.C17.cache_scalar_func_history`: the memo-table model `M3d.Memo.run` equals it for every history). -/
def handleCachedEvalX (cd : Codec α) (ws : List String) : Option String := do
  match ws with
  | _variant :: rest =>
    let (qs, rest) ← takeCounted cd rest
    let (xs, ys, _) ← takeCurve cd rest
    let outs := qs.map fun x =>
      match curveEvalX (fun t => bezEval tbl xs t) (fun t => bezEval tbl ys t) x with
      | none => "nan"
      | some y => outNums cd [y]
    some (String.intercalate " " outs)
  | _ => none

/-- `segbisect x <segs>`: `CurveInverseX` on a `SegmentCurve` (65 evaluations of one curve value). -/
def handleSegBisect (cd : Codec α) (sqrt : α → α) (ws : List String) : Option String := do
  match ws with
  | x :: rest =>
    let x ← cd.parse x
    let segs ← parseSegs cd rest
    if segs.isEmpty then some "panic" else
    match bisectionSearch (fun t => (segEval sqrt segs t).1) x with
    | none => some "nan"
    | some t => some (outNums cd [t])
  | _ => none

def lexLt : List α → List α → Bool
  | [], [] => false
  | [], _ => true
  | _, [] => false
  | a :: as, b :: bs => if a < b then true else if b < a then false else lexLt as bs

/-- `curvemesh n <curve>`: `CurveMesh(c, n)`; the segments as a sorted multiset (the mesh is a Go map).  Exact mode:
the specification (de Casteljau's points at `k/n`), bit mode: `bezEval`. -/
def handleCurveMesh (cd : Codec α) (exact : Bool) (ws : List String) : Option String := do
  match ws with
  | n :: rest =>
    let n ← n.toNat?
    let (xs, ys, _) ← takeCurve cd rest
    if xs.length < 2 then some "panic" else
    let f : α → α × α := fun t =>
      if exact then (deCasteljau xs t, deCasteljau ys t) else (bezEval tbl xs t, bezEval tbl ys t)
    let segs := (curveMesh f n).map fun s => [s.1.1, s.1.2, s.2.1, s.2.2]
    if segs.any (fun s => s.any cd.bad) then some "nan" else
    some (s!"[{n}] " ++ " | ".intercalate ((sortBy lexLt segs).map (outNums cd)))
  | _ => none

/-! ### `BiCGSTAB` / `BiCGSTABSolver` with a dense matrix as `Op` (faithful model `M3d/Model/BiCG.lean`) -/

def chunks (n : Nat) : Nat → List α → List (List α)
  | 0, _ => []
  | k + 1, xs => xs.take n :: chunks n k (xs.drop n)

/-- `<n> <A: n*n> <b: n> <0 | 1 g: n>` off the front: operator rows, right-hand side, optional initial guess. -/
def takeSystem (cd : Codec α) (ws : List String) : Option (List (List α) × List α × Option (List α) × List String) := do
  let n ← (← ws.head?).toNat?
  let (a, r) ← takeN cd (n * n) (ws.drop 1)
  let (b, r) ← takeN cd n r
  match r with
  | "0" :: r => some (chunks n n a, b, none, r)
  | "1" :: r => do
    let (g, r) ← takeN cd n r
    some (chunks n n a, b, some g, r)
  | _ => none

/-- `bicg <system> <k>`: the vectors returned by `k` successive `Iter()` calls. -/
def handleBicg (cd : Codec α) (sqrt : α → α) (ws : List String) : Option String := do
  let (rows, b, g, r) ← takeSystem cd ws
  let k ← (← r.head?).toNat?
  let op := BiCG.denseOp rows
  let rec go : Nat → BiCG.St α → List String → List String
    | 0, _, acc => acc.reverse
    | k + 1, s, acc =>
      let s' := BiCG.iter sqrt op s
      go k s' (outList cd s'.x :: acc)
  some (" | ".intercalate (go k (BiCG.init op b g) []))

/-- `bicgsolve <system> <MaxIters> <MSETolerance> <MAETolerance>`: `BiCGSTABSolver.SolveLinearSystem`. -/
def handleBicgSolve (cd : Codec α) (sqrt abs : α → α) (isNaN : α → Bool) (ws : List String) : Option String := do
  let (rows, b, g, r) ← takeSystem cd ws
  match r with
  | [mi, mse, mae] =>
    let mi ← mi.toNat?
    let mse ← cd.parse mse; let mae ← cd.parse mae
    let z := ((0 : Nat) : α)
    if b.isEmpty then some "[0]" else
    if mi == 0 && !(z < mae) && !(z < mse) then some "panic" else
    let bound := if mi == 0 then 20000 else mi
    match BiCG.solve sqrt abs isNaN (BiCG.denseOp rows) b g bound mse mae with
    | .nanPanic _ => some "panic"
    | .done sol k byTol =>
      if mi == 0 && !byTol then some "running" else some (outList cd sol)
  | _ => none

def handleAngle (cd : Codec α) (trunc : α → Int) (ws : List String) : Option String := do
  match ws with
  | ["canon", tau, th] =>
    let tau ← cd.parse tau; let th ← cd.parse th
    some (outNums cd [Angle.canonicalAngle trunc tau th])
  | ["dist", tau, a, b] =>
    let tau ← cd.parse tau; let a ← cd.parse a; let b ← cd.parse b
    some (outNums cd [Angle.angleDist trunc tau a b])
  | _ => none

def handlePolyG (cd : Codec α) (exact : Bool) (ws : List String) : Option String := do
  match ws with
  | "eval" :: rest =>
    let (p, r) ← takeCounted cd rest
    let x ← cd.parse (← r.head?)
    some (outNums cd [Poly.eval p x])
  | "mul" :: rest =>
    let (p, r) ← takeCounted cd rest
    let (q, _) ← takeCounted cd r
    -- exact mode: the specification (sum of shifted rows, `poly_eval_mul`); bit mode: the double loop as written
    -- (`Poly.mulLoop`, proved equal to it over every field by `poly_mul_loop_eq`)
    some (outList cd (if exact then Poly.mul p q else Poly.mulLoop p q))
  | "scale" :: rest =>
    let (p, r) ← takeCounted cd rest
    let s ← cd.parse (← r.head?)
    some (outList cd (Poly.scale p s))
  | "deriv" :: rest =>
    let (p, _) ← takeCounted cd rest
    some (outList cd (Poly.derivative p))
  | "divroot" :: rest =>
    let (p, r) ← takeCounted cd rest
    let x ← cd.parse (← r.head?)
    match Poly.divideRoot p x with
    | none => some "panic"
    | some q => some (outList cd q)
  | "divrootid" :: _ => some (outNums cd [((0 : Nat) : α)])
  | _ => none

/-! ### `numerical.Vec` (vectors of any length; `VecN.*`, tied to the regenerated kernels by `KernelsTiePoly`) -/

def outOptList (cd : Codec α) : Option (List α) → String
  | none => "panic"
  | some xs => outList cd xs

def handleVec (cd : Codec α) (sqrt : α → α) (ws : List String) : Option String := do
  match ws with
  | "at" :: k :: rest =>
    let k ← k.toNat?
    let (v, _) ← takeCounted cd rest
    some (s!"{v.length} " ++ outNums cd [v.getD k ((0 : Nat) : α)])
  | op :: rest =>
    let (v, r) ← takeCounted cd rest
    match op with
    | "normsq" => some (outNums cd [VecN.normSquared v])
    | "norm" => some (outNums cd [VecN.norm sqrt v])
    | "normalize" => some (outList cd (VecN.normalize sqrt v))
    | "zeros" => some (outList cd (VecN.zeros v))
    | "scale" => do
      let s ← cd.parse (← r.head?)
      some (outList cd (VecN.scale v s))
    | _ =>
      let (w, _) ← takeCounted cd r
      match op with
      | "distsq" => some (outNums cd [VecN.distSquared v w])
      | "dist" => some (outNums cd [VecN.dist sqrt v w])
      | "add" => some (outOptList cd (VecN.add v w))
      | "sub" => some (outOptList cd (VecN.sub v w))
      | "dot" =>
        match VecN.dot v w with
        | none => some "panic"
        | some d => some (outNums cd [d])
      | "projout" => some (outOptList cd (VecN.projectOut sqrt v w))
      | _ => none
  | _ => none

/-! ### `LeastSquaresReg3` / `LeastSquares3` with `symEigDecomp` as an oracle (faithful model `M3d/Model/Lsq.lean`) -/

def mkRows : Nat → List α → List (V3 α × α)
  | k + 1, a :: b :: c :: d :: r => (⟨a, b, c⟩, d) :: mkRows k r
  | _, _ => []

/-- `lsqreg <variant> <n> <ax ay az b>×n <lambda> <epsilon> | <N: 9> <S: 9> <V: 9>`: the model assembles the normal
equations (`Lsq.normal`: the loop, then `lambda` on the diagonal entries 0, 4, 8); `S, V` are the answer of the REAL
`symEigDecomp` on the matrix `N` (the function parameter `eig` of `Lsq.lsqReg3`, `lsq_reg3_normal_equations`) - the line is
rejected if `N` is not the model's normal matrix -; then the eigenvalue floor and `v·s⁺·vᵀ·rightSide` as written. -/
def handleLsq (cd : Codec α) (ws : List String) : Option String := do
  match ws with
  | _variant :: n :: rest =>
    let n ← n.toNat?
    let (xs, r) ← takeN cd (4 * n) rest
    let (le, r) ← takeN cd 2 r
    match le, r with
    | [lam, eps], "|" :: r =>
      let (nm, r) ← takeN cd 9 r
      let (s, r) ← takeN cd 9 r
      let (v, _) ← takeN cd 9 r
      let nr := Lsq.normal (mkRows n xs) lam
      if nr.1.toList.map cd.show' != nm.map cd.show' then
        some ("oracle-asked-about-another-matrix: normal matrix is " ++ outNums cd nr.1.toList)
      else
        let s ← M3.ofList s; let v ← M3.ofList v
        let x := Lsq.solveWith s v eps nr.2
        some (outNums cd [x.x, x.y, x.z])
    | _, _ => none
  | _ => none

def handleG (cd : Codec α) (sqrt : α → α) (trunc : α → Int) (exact : Bool) (ws : List String) : Option String :=
  match ws with
  | "m2" :: _ :: op :: rest => do handleM2 cd exact op (← rest.mapM cd.parse)
  | "m3" :: _ :: op :: rest => do handleM3 cd exact op (← rest.mapM cd.parse)
  | "m4" :: op :: rest => do handleM4 cd op (← rest.mapM cd.parse)
  | "eig2" :: _ :: rest => do handleEig2 cd sqrt "eig2" (← rest.mapM cd.parse)
  | "symeig2" :: _ :: rest => do handleEig2 cd sqrt "symeig2" (← rest.mapM cd.parse)
  | "svd2" :: _ :: rest => do handleEig2 cd sqrt "svd2" (← rest.mapM cd.parse)
  | "ls" :: rest => handleLs cd rest
  | "g2" :: rest => handleG2 cd rest
  | "g3" :: rest => handleG3 cd rest
  | "rls" :: rest => handleRls cd rest
  | "gss" :: rest => handleGss cd rest
  | "bez" :: rest => handleBez cd exact rest
  | "bezops" :: rest => handleBezOps cd exact rest
  | "seg" :: rest => handleSeg cd sqrt exact rest
  | "joined" :: rest => handleJoined cd trunc rest
  | "bisect" :: rest => handleBisect cd rest
  | "evalx" :: rest => handleEvalX cd rest
  | "cachedevalx" :: rest => handleCachedEvalX cd rest
  | "segbisect" :: rest => handleSegBisect cd sqrt rest
  | "curvemesh" :: rest => handleCurveMesh cd exact rest
  | "angle" :: rest => handleAngle cd trunc rest
  | "poly" :: rest => handlePolyG cd exact rest
  | "vec" :: rest => handleVec cd sqrt rest
  | "bicg" :: rest => handleBicg cd sqrt rest
  | "lsqreg" :: rest => handleLsq cd rest
  | _ => none

end Generic

/-! ### kinds that need decidable equality on the scalar (exact mode only) -/

def handleQ (ws : List String) : Option String :=
  let cd := ratCodec
  match ws with
  | "poly" :: "add" :: rest => do
    let (p, r) ← takeCounted cd rest
    let (q, _) ← takeCounted cd r
    some (outList cd (Poly.add p q))
  | "poly" :: "roots" :: rest => do
    let (p, _) ← takeCounted cd rest
    match Poly.realRootsLow ratSqrt p with
    | .all => some "all"
    | .some rs => some (outList cd rs)
    | .unsupported => some "unsupported"
  | "realroots" :: _lead :: rest => do
    -- expected answer computed from the KNOWN real roots (validation of the libm/iterative branches)
    let (rs, _) ← takeCounted cd rest
    let sorted := sortBy (· < ·) rs
    some (outList cd sorted ++ " | " ++ outList cd sorted)
  | "bez" :: "poly" :: rest => do
    let (xs, ys, _) ← takeCurve cd rest
    some (outList cd (bezPoly xs) ++ " " ++ outList cd (bezPoly ys))
  | _ => handleG cd ratSqrt ratTrunc true ws

/-! ### scale covariance (`scov.f`): the real outputs on `M` scaled to the outputs on `2^k·M`

`c17 scov.f <what> <variant> <k> <M…> | <outputs on M…>`: the expected line is `outᵢ · 2^(k·eᵢ)` with the
exponents `eᵢ` given by the scale-covariance theorems of `Props/C17.lean` (`scovExponents`); multiplying a
double by a power of two is exact, so the real outputs on `2^k·M` must be EQUAL to it. -/

/-- Exponent of the scale factor for every output number of a kind:
`svd2`: `u` (4) unchanged, `s` (4) scaled, `v` (4) unchanged (`svd2_reconstruct_smul`);
`eig2`: both complex eigenvalues scaled (`mat2_smul_charpoly`); `symeig2`: `s` scaled, `v` unchanged;
`inv2`/`inv3`: inverse by `2^-k` (`mat2_smul_inverse`, `mat3_smul_inverse`), then `Det` by `2^(nk)`
(`mat2_smul_det`, `mat3_smul_det`); `charpoly4`: coefficient `i` by `2^((4-i)k)` (`mat4_smul_charpoly`),
then `Det` by `2^(4k)` (`mat4_smul_det`). -/
def scovExponents : String → Option (List Int)
  | "svd2" => some [0, 0, 0, 0, 1, 1, 1, 1, 0, 0, 0, 0]
  | "eig2" => some [1, 1, 1, 1]
  | "symeig2" => some [1, 1, 1, 1, 0, 0, 0, 0]
  | "inv2" => some [-1, -1, -1, -1, 2]
  | "inv3" => some [-1, -1, -1, -1, -1, -1, -1, -1, -1, 3]
  | "charpoly4" => some [4, 3, 2, 1, 0, 4]
  | _ => none

def handleScov (ws : List String) : Option String := do
  match ws with
  | what :: _variant :: k :: rest =>
    let k ← k.toInt?
    let es ← scovExponents what
    let outs := (rest.dropWhile (· != "|")).drop 1
    let xs ← outs.mapM floatOfHex
    if xs.length ≠ es.length then none else
    some (outNums floatCodec ((xs.zip es).map fun (x, e) => x.scaleB (k * e)))
  | _ => none

/-- The first token is `<kind>.<mode>` (so that the check's violation sites are per kind). -/
def handleAll (ws : List String) : Option String :=
  match ws with
  | km :: rest =>
    match km.splitOn "." with
    | ["scov", "f"] => handleScov rest
    | [kind, "q"] => handleQ (kind :: rest)
    | ["bicgsolve", "f"] => handleBicgSolve floatCodec Float.sqrt Float.abs Float.isNaN rest
    | [kind, "f"] => handleG floatCodec Float.sqrt floatTrunc false (kind :: rest)
    | ["resid", "v"] => some "ok"
    | _ => none
  | _ => none

end M3d.Drv.C17
