import M3d.Basic
import M3d.Model.CodecIO
import M3d.Model.CodecSpec
import M3d.Model.CodecRound
import M3d.Model.CodecFace
import M3d.Model.CodecStream
/-! Line-protocol handler for C15 (codec round trips). Core-only. -/
namespace M3d.Drv.C15
open M3d M3d.Codec M3d.Codec.IO

def run {α} (p : P α) (ws : List String) : Option α :=
  match p ws with
  | some (a, []) => some a
  | _ => none

def showRecs64 (ts : List (List UInt64)) : String :=
  "ok " ++ toString ts.length ++ String.join (ts.map fun t => String.join (t.map fun x => " " ++ hex64 x))

def showRecs32 (ts : List (List UInt32)) : String :=
  "ok " ++ toString ts.length ++ String.join (ts.map fun t => String.join (t.map fun x => " " ++ hex32 x))

/-- `stl <n> {nx ny nz + 9 coords as float64 bits}` : EncodeSTL bytes, then ReadSTL of them. -/
def handleStl (ws : List String) : Option String := do
  let ts ← run (pCounted (pMany pHex64 12)) ws
  -- = stlEncodeMesh round32 normalOf (coords) with normalOf = the normal Go computed for that triangle
  let bytes := stlEncode (ts.map fun t => t.map round32)
  let dec := match stlDecodeMesh widen noParse32 bytes with
    | .ok rs => showRecs64 rs
    | .error _ => "error"
  some (showHex bytes ++ " " ++ dec)

/-- `stla <n> {12 float32 bits} ft…` : ASCII STL text to the specification, then the STL reader. -/
def handleStlAscii (ws : List String) : Option String := do
  let (ts, tb) ← run (do let ts ← pCounted (pMany pHex32 12); let tb ← pTables; pure (ts, tb)) ws
  let bytes := stlAsciiSpec tb.floatText.fmt32 ts
  let dec := match stlDecode tb.pf32 bytes with
    | .ok rs => showRecs32 rs
    | .error _ => "error"
  some (showHex bytes ++ " " ++ dec)

/-- `stlr <n> {12 decimal tokens, hex}` : ASCII STL text to the specification whose numbers are the
given decimal literals (any number of digits), then the STL reader with `parseF32` — the exact
fraction of the literal rounded ONCE to binary32 (`M3d.C15.f32_round_nearest_even`) — as number parser.
A file all of whose numbers are out of the binary32 range is outside the format: `ovf`. -/
def handleStlRound (ws : List String) : Option String := do
  let fs ← run (pCounted (pMany pBytes 12)) ws
  let toks := fs.flatten
  let recs : List Rec := (List.range fs.length).map fun j =>
    (List.range 12).map fun k => UInt32.ofNat (12 * j + k)
  let bytes := stlAsciiSpec (fun i => toks.getD i missing) recs
  if !toks.isEmpty && toks.all overflowsF32 then some (showHex bytes ++ " ovf")
  else
    let dec := match stlDecode parseF32 bytes with
      | .ok rs => showRecs32 rs
      | .error _ => "error"
    some (showHex bytes ++ " " ++ dec)

/-- `stlw <file bytes, hex> <n> {12 float32 bits} ft…` : ASCII STL text to the specification whose tokens are
separated by arbitrary non-empty runs of spaces and tabs (leading / trailing white space allowed).  The file must
be white-space-equivalent to the single-space text `stlAsciiSpec` (same `fields`), else `bad-op`; the answer is
the STL reader model (tokenising with `fields` = `strings.Fields`) on the given bytes. -/
def handleStlWs (ws : List String) : Option String := do
  let (bytes, ts, tb) ← run (do
    let b ← pBytes; let ts ← pCounted (pMany pHex32 12); let tb ← pTables; pure (b, ts, tb)) ws
  let spec := stlAsciiSpec tb.floatText.fmt32 ts
  if fields bytes ≠ fields spec then none
  else
    let dec := match stlDecode tb.pf32 bytes with
      | .ok rs => showRecs32 rs
      | .error _ => "error"
    some dec

/-! ### STL from a reader that delivers the file in pieces (kind `stlc`) -/

/-- `<reps>x<size>` -/
def pRun : P (List Nat) := do
  let t ← tok
  match t.splitOn "x" with
  | [a, b] => match a.toNat?, b.toNat? with
    | some r, some k => pure (List.replicate r k)
    | _, _ => failure
  | _ => failure

def showDecoded (r : Except Err (List Rec)) : String :=
  match r with
  | .ok rs => "D " ++ showRecs32 rs ++ " M " ++ showRecs64 (rs.map fun r => (r.drop 3).map widen)
  | .error _ => "D error M error"

/-- `stlc b <eager> <nruns> {<reps>x<size>} <n> {nx ny nz + 9 coords as float64 bits}` and
`stlc a <eager> <nruns> {<reps>x<size>} <n> {12 float32 bits} ft…`: the file (binary as `EncodeSTL`
writes it / ASCII to the specification) is cut into deliveries of the given sizes and read with the
reader-level model `Stream.stlDecodeSrc` (`io.ReadFull`, `io.MultiReader`, `bufio.Reader` on partial
deliveries).  By `M3d.C15.stl_reader_split_any_sizes` the answer is `stlDecode` of the file, by
`stl_bin_roundtrip_any_delivery` / `stl_ascii_spec_any_delivery` the records written.  `D` = the records
`fileformats.STLReader` returns, `M` = the triangles `model3d.ReadSTL` returns. -/
def handleStlChunked (ws : List String) : Option String := do
  match ws with
  | "b" :: rest =>
    let (eager, ks, ts) ← run (do
      let e ← pNat; let ks ← pCounted pRun; let ts ← pCounted (pMany pHex64 12); pure (e, ks.flatten, ts)) rest
    let bytes := stlEncode (ts.map fun t => t.map round32)
    let src : Stream.Src := ⟨Stream.splitSizes ks bytes, eager = 1⟩
    some (showHex bytes ++ " " ++ showDecoded (Stream.stlDecodeSrc noParse32 src))
  | "a" :: rest =>
    let (eager, ks, ts, tb) ← run (do
      let e ← pNat; let ks ← pCounted pRun; let ts ← pCounted (pMany pHex32 12); let tb ← pTables
      pure (e, ks.flatten, ts, tb)) rest
    let bytes := stlAsciiSpec tb.floatText.fmt32 ts
    let src : Stream.Src := ⟨Stream.splitSizes ks bytes, eager = 1⟩
    some (showHex bytes ++ " " ++ showDecoded (Stream.stlDecodeSrc tb.pf32 src))
  | _ => none

/-- `plys <header> <nrows> {row} ft…` : PLYWriter bytes, then NewPLYReader + Read until EOF. -/
def handlePlyStream (ws : List String) : Option String := do
  let (h, rows, tb) ← run (do
    let h ← pHeader; let rows ← pCounted pRow; let tb ← pTables; pure (h, rows, tb)) ws
  let ft := tb.floatText
  match plyWrite ft h rows with
  | none => some "writeerr"
  | some (bytes, done) =>
    let dec := match plyReadAll ft bytes with
      | .error _ => "openerr"
      | .ok (h', r) => showHeader h' ++ " | " ++ showReadAll r
    some (showHex bytes ++ " " ++ boolStr done ++ " | " ++ dec)

def showRGB (c : RGB) : String := s!"{c.1},{c.2.1},{c.2.2}"

def widen3 (v : UInt32 × UInt32 × UInt32) : C3 := (widen v.1, widen v.2.1, widen v.2.2)

/-- colour of a coordinate in the CoordMap returned by ReadColorPLY: the last vertex row with an equal key wins -/
def isNaN64 (x : UInt64) : Bool := (x >>> 52) &&& 0x7ff = 0x7ff && x &&& 0xfffffffffffff ≠ 0

def lookupColor (verts : List C3) (colors : List RGB) (p : C3) : String :=
  if isNaN64 p.1 || isNaN64 p.2.1 || isNaN64 p.2.2 then "-" else
  match ((verts.zip colors).filter fun (q, _) => key3 q = key3 p).getLast? with
  | some (_, c) => showRGB c
  | none => "-"

/-- `plym <ntri> {9 float64} <ncol> {3 float64 r g b} ft…` : EncodePLY bytes, then ReadColorPLY. -/
def handlePlyMesh (ws : List String) : Option String := do
  let (ts, cols, tb) ← run (do
    let ts ← pCounted pTri3
    let cols ← pCounted (do let p ← pC3; let r ← pNat; let g ← pNat; let b ← pNat; pure (p, (r, g, b)))
    let tb ← pTables
    pure (ts, cols, tb)) ws
  let ft := tb.floatText
  let color : C3 → RGB := fun p => (lookupD cols p).getD (0, 0, 0)
  match encodePLY ft round32 color ts with
  | none => some "writeerr"
  | some (bytes, _) =>
    let dec := match readColorPLY ft bytes with
      | .error _ => "error"
      | .ok r =>
        let vs := r.verts.map widen3
        "ok " ++ toString r.tris.length ++ String.join (r.tris.map fun t =>
          String.join (t.map fun v => " " ++ showC3 (widen3 v) ++ " " ++ lookupColor vs r.colors (widen3 v)))
    some (showHex bytes ++ " " ++ dec)

/-- `csv <n> {4 float64} ft…` : SegmentCSVWriter bytes, then DecodeCSV. -/
def handleCsv (ws : List String) : Option String := do
  let (segs, tb) ← run (do let s ← pCounted (pMany pHex64 4); let tb ← pTables; pure (s, tb)) ws
  let bytes := csvEncode tb.fmtG segs
  let dec := match csvDecode tb.pf64 bytes with
    | .ok rows => showRecs64 rows
    | .error => "error"
    | .unsupported => "unsupported"
  some (showHex bytes ++ " " ++ dec)

/-- `off <nv> {3 float64} <nf> {k idx…} ft…` : OFF text to the specification, then the OFF reader. -/
def handleOff (ws : List String) : Option String := do
  let (vs, fs, tb) ← run (do
    let vs ← pCounted pC3; let fs ← pCounted (pCounted pNat); let tb ← pTables; pure (vs, fs, tb)) ws
  let bytes := offSpec tb.floatText.fmt64 vs fs
  let dec := match offDecode tb.pf64 bytes with
    | none => "error"
    | some polys => "ok " ++ toString polys.length ++ String.join (polys.map fun p =>
        " " ++ toString p.length ++ String.join (p.map fun v => " " ++ showC3 v))
  some (showHex bytes ++ " " ++ dec)

/-! ### polygon faces through `ReadOFF` (kind `offp`) -/

section OffPoly
open M3d.Tri M3d.Codec.Face

abbrev Q := Rat

def pow2Q (k : Nat) : Q := ((2 ^ k : Nat) : Q)

/-- exact value of a finite float64 bit pattern -/
def ratOfF64 (b : UInt64) : Option Q :=
  let e := ((b >>> 52) &&& 0x7ff).toNat
  let m := (b &&& 0xfffffffffffff).toNat
  if e = 0x7ff then none else
  let mag : Q := if e = 0 then (m : Q) / pow2Q 1074
    else if e ≥ 1075 then ((2 ^ 52 + m : Nat) : Q) * pow2Q (e - 1075)
    else ((2 ^ 52 + m : Nat) : Q) / pow2Q (1075 - e)
  some (if b >>> 63 = 1 then -mag else mag)

def ratP3 (v : V3) : Option (P3 Q) := do
  let x ← ratOfF64 v.1; let y ← ratOfF64 v.2.1; let z ← ratOfF64 v.2.2
  pure ⟨x, y, z⟩

def sgnQ (q : Q) : Int := if q < 0 then -1 else if 0 < q then 1 else 0

def onSegQ (a b p : P2 Q) : Bool :=
  orient a b p == 0 && decide (min a.x b.x ≤ p.x) && decide (p.x ≤ max a.x b.x) &&
    decide (min a.y b.y ≤ p.y) && decide (p.y ≤ max a.y b.y)

def segsTouch (a b c d : P2 Q) : Bool :=
  let o1 := sgnQ (orient a b c); let o2 := sgnQ (orient a b d)
  let o3 := sgnQ (orient c d a); let o4 := sgnQ (orient c d b)
  (o1 * o2 < 0 && o3 * o4 < 0) || onSegQ a b c || onSegQ a b d || onSegQ c d a || onSegQ c d b

/-- strictly simple closed polygon (straight corners allowed, spikes not) -/
def simpleLoop (l : List (P2 Q)) : Bool :=
  let n := l.length
  let at_ (i : Nat) : P2 Q := l.getD (i % n) ⟨0, 0⟩
  decide (3 ≤ n) && decide l.Nodup &&
  (List.range n).all (fun i =>
    let a := at_ i; let b := at_ (i + 1); let c := at_ (i + 2)
    orient a b c != 0 || onSegQ a c b) &&
  (List.range n).all fun i => (List.range n).all fun j =>
    if i + 1 < j && !(i == 0 && j + 1 == n) then
      !segsTouch (at_ i) (at_ (i + 1)) (at_ j) (at_ (j + 1))
    else true

/-- Input validation (untrusted helper: decides whether the GENERATOR produced a face the property
speaks about): at least three distinct corners, exactly planar, non-zero area, simple in the chart. -/
def validFace (f : List (P3 Q)) : Bool :=
  let N := faceNormal (cornerFn f) f.length
  decide (3 ≤ f.length) && planar (cornerFn f) f.length N &&
  match chartOf N with
  | none => false
  | some k => simpleLoop (f.map (chartFn k))

/-- the result field: `x` (ReadOFF failed) or `<n> {9 float64}` -/
def pResult : P (Option (List Tri3)) := do
  let t ← tok
  if t ≠ "R" then failure
  match ← tok with
  | "x" => pure none
  | n => match n.toNat? with
    | some n => do let ts ← pMany pTri3 n; pure (some ts)
    | none => failure

def ratT3 (t : Tri3) : Option (T3 Q) := do
  let a ← ratP3 t.1; let b ← ratP3 t.2.1; let c ← ratP3 t.2.2
  pure (a, b, c)

/-- Why `checkFaces` fails (diagnosis only; the verdict is `checkFaces`). -/
def whyNot : Nat → List (List (P3 Q)) → List (T3 Q) → String
  | _, [], ts => if ts.isEmpty then "?" else s!"extra-triangles-after-last-face:{ts.length}"
  | i, f :: fs, ts =>
    let N := faceNormal (cornerFn f) f.length
    match chartOf N with
    | none => "?"
    | some k =>
      match faceGroup f ts with
      | none =>
        -- no prefix adds up to the face's area: which triangle goes wrong first?
        let bad := ts.findIdx fun t => sgnQ (comp k (normal3 t)) != sgnQ (comp k N)
        if bad < ts.length then s!"face={i}:orientation-or-degenerate(triangle {bad} of the rest)"
        else s!"face={i}:area(the remaining triangles do not add up to the face)"
      | some (g, rest) =>
        let ids := g.map (idTri f)
        if faceCertOk (cornerFn f) f.length ids then whyNot (i + 1) fs rest
        else if ids.any fun t => t.1 ≥ f.length || t.2.1 ≥ f.length || t.2.2 ≥ f.length then
          s!"face={i}:foreign-vertex"
        else if g.any fun t => sgnQ (comp k (normal3 t)) != sgnQ (comp k N) then
          s!"face={i}:orientation-or-degenerate"
        else s!"face={i}:edges-do-not-glue(overlap-gap-or-outside)"

/-- `offp <nv> {3 float64} <nf> {k idx…} ft… R (x | <nt> {9 float64})` : OFF text to the
specification whose faces are planar simple polygons; the triangles `model3d.ReadOFF` returned are
checked against the faces the reader model decodes (`off_mesh_spec`) with the verified certificate
(`M3d.C15.off_polygons_tiled`).  `ok` iff every face is tiled by its group of triangles, oriented
like the face, groups in file order. -/
def handleOffPoly (ws : List String) : Option String := do
  let (vs, fs, tb, res) ← run (do
    let vs ← pCounted pC3; let fs ← pCounted (pCounted pNat); let tb ← pTables; let res ← pResult
    pure (vs, fs, tb, res)) ws
  let bytes := offSpec tb.floatText.fmt64 vs fs
  let verdict : String :=
    match offDecodeMesh tb.pf64 bytes with
    | none => "decode-error"
    | some polys =>
      match polys.mapM (fun p => p.mapM ratP3) with
      | none => "invalid-input"
      | some faces =>
        if !faces.all validFace then "invalid-input" else
        match res with
        | none => "bad:read-error"
        | some ts =>
          match ts.mapM ratT3 with
          | none => "bad:non-finite-coordinate"
          | some tris => if checkFaces faces tris then "ok" else "bad:" ++ whyNot 0 faces tris
  some (showHex bytes ++ " " ++ verdict)

end OffPoly

def showFace (f : List Nat) : String := ",".intercalate (f.map toString)

/-- `obj <ntri> {9 float64} {material id per triangle}` : vertex table, faces, material groups. -/
def handleObj (ws : List String) : Option String := do
  let (ts, mats) ← run (do let ts ← pCounted pTri3; let m ← pMany pNat ts.length; pure (ts, m)) ws
  let (coords, ms, assign) := objMaterial (fun i => mats.getD i 0) ts
  let groups := (List.range ms.length).map fun g => groupFaces assign g
  some ("V " ++ toString coords.length ++ String.join (coords.map fun c => " " ++ showC3 c) ++
    " F" ++ String.join ((objVertexColor ts).2.map fun f => " " ++ showFace f) ++
    " G " ++ toString groups.length ++ String.join ((ms.zip groups).map fun (m, fs) =>
      " m" ++ toString m ++ " " ++ toString fs.length ++ String.join (fs.map fun f => " " ++ showFace f)))

/-! ### 3MF (kind `3mf`) -/

def lexLt : List UInt64 → List UInt64 → Bool
  | [], [] => false
  | [], _ => true
  | _, [] => false
  | a :: as, b :: bs => if a < b then true else if b < a then false else lexLt as bs

/-- `3mf <n> {9 float64}` : the vertex count and the index triples of `newIndexMesh` (= `meshIndex`),
resolved against the vertex table (`M3d.C15.mesh_index_resolves`: the triangles themselves, up to
−0 ≡ +0) and sorted, because `Write3MF` visits the mesh in Go map order
(`M3d.C15.mesh_index_table_size`: the table size does not depend on the order). -/
def handle3mf (ws : List String) : Option String := do
  let ts ← run (pCounted pTri3) ws
  let (coords, faces) := meshIndex ts
  let resolved : List (List UInt64) := faces.map fun f => (f.map fun j =>
    let k := key3 (coords.getD j (0, 0, 0)); [k.1, k.2.1, k.2.2]).flatten
  let sorted := sortBy lexLt resolved
  some ("V " ++ toString coords.length ++ " T " ++ toString sorted.length ++
    String.join (sorted.map fun t => String.join (t.map fun x => " " ++ hex64 x)))

/-! ### OBJ exports at file level (kind `objx`) -/

/-- `objx <variant> <n> {9 float64} {material id per triangle}` : what a Wavefront reader must find
in the exported file — the size of the vertex table, and per material group (in order of first
appearance; a single group for the vertex-colour / UV-map / quantized-texture variants) the faces in
order, each resolved through the vertex table (`M3d.C15.mesh_index_resolves`: the triangle itself up
to −0 ≡ +0; `obj_each_face_once`, `obj_indices_in_range`, `obj_group_in_range`). -/
def handleObjX (ws : List String) : Option String := do
  let (variant, rest) ← (match ws with | v :: r => some (v, r) | [] => none)
  let (ts, mats) ← run (do let ts ← pCounted pTri3; let m ← pMany pNat ts.length; pure (ts, m)) rest
  let (coords, faces) := meshIndex ts
  let resolved : List String := faces.map fun f => String.join (f.map fun j =>
    let k := key3 (coords.getD j (0, 0, 0)); " " ++ hex64 k.1 ++ " " ++ hex64 k.2.1 ++ " " ++ hex64 k.2.2)
  let groups : List (String × List String) :=
    if variant = "mat" then
      let (_, ms, assign) := objMaterial (fun i => mats.getD i 0) ts
      (List.range ms.length).map fun g =>
        (toString (ms.getD g 0), ((assign.zip resolved).filter fun x => x.1.1 = g).map (·.2))
    else [("-", resolved)]
  let groups := groups.filter fun g => !g.2.isEmpty
  some ("V " ++ toString coords.length ++ " G " ++ toString groups.length ++
    String.join (groups.map fun g => " m" ++ g.1 ++ " " ++ toString g.2.length ++ String.join g.2))

def dispatch (ws : List String) : Option String :=
  match ws with
  | "stl" :: rest => handleStl rest
  | "stla" :: rest => handleStlAscii rest
  | "stlr" :: rest => handleStlRound rest
  | "stlc" :: rest => handleStlChunked rest
  | "stlw" :: rest => handleStlWs rest
  | "plys" :: rest => handlePlyStream rest
  | "plym" :: rest => handlePlyMesh rest
  | "csv" :: rest => handleCsv rest
  | "off" :: rest => handleOff rest
  | "offp" :: rest => handleOffPoly rest
  | "obj" :: rest => handleObj rest
  | "3mf" :: rest => handle3mf rest
  | "objx" :: rest => handleObjX rest
  | _ => none

/-- An optional second token `@…` says how the bytes were delivered to the real reader (`@w`: at once
from a `bytes.Reader`; `@e<0|1>;<reps>x<size>;…`: in pieces).  It is part of the failing input a replay
names, but the answer the property demands does not depend on it, so it is skipped here. -/
def handleAll (ws : List String) : Option String :=
  match ws with
  | kind :: t :: rest => if t.startsWith "@" then dispatch (kind :: rest) else dispatch ws
  | _ => dispatch ws

end M3d.Drv.C15
