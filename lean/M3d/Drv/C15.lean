import M3d.Basic
import M3d.Model.CodecIO
import M3d.Model.CodecSpec
import M3d.Model.CodecRound
/-! Line-protocol handler for C15 (codec round trips). Core-only. -/
namespace M3d.Drv.C15
open M3d M3d.Codec M3d.Codec.IO

def run {α} (p : P α) (ws : List String) : Option α :=
  match p ws with
  | some (a, []) => some a
  | _ => none

def showRecs64 (ts : List (List UInt64)) : String :=
  "ok " ++ toString ts.length ++ String.join (ts.map fun t => String.join (t.map fun x => " " ++ hex64 x))

def showRecs32 (ts : List (List UInt32)) : String :=
  "ok " ++ toString ts.length ++ String.join (ts.map fun t => String.join (t.map fun x => " " ++ hex32 x))

/-- `stl <n> {nx ny nz + 9 coords as float64 bits}` : EncodeSTL bytes, then ReadSTL of them. -/
def handleStl (ws : List String) : Option String := do
  let ts ← run (pCounted (pMany pHex64 12)) ws
  -- = stlEncodeMesh round32 normalOf (coords) with normalOf = the normal Go computed for that triangle
  let bytes := stlEncode (ts.map fun t => t.map round32)
  let dec := match stlDecodeMesh widen noParse32 bytes with
    | .ok rs => showRecs64 rs
    | .error _ => "error"
  some (showHex bytes ++ " " ++ dec)

/-- `stla <n> {12 float32 bits} ft…` : ASCII STL text to the specification, then the STL reader. -/
def handleStlAscii (ws : List String) : Option String := do
  let (ts, tb) ← run (do let ts ← pCounted (pMany pHex32 12); let tb ← pTables; pure (ts, tb)) ws
  let bytes := stlAsciiSpec tb.floatText.fmt32 ts
  let dec := match stlDecode tb.pf32 bytes with
    | .ok rs => showRecs32 rs
    | .error _ => "error"
  some (showHex bytes ++ " " ++ dec)

/-- `stlr <n> {12 decimal tokens, hex}` : ASCII STL text to the specification whose numbers are the
given decimal literals (any number of digits), then the STL reader with `parseF32` — the exact
fraction of the literal rounded ONCE to binary32 (`M3d.C15.f32_round_nearest_even`) — as number parser.
A file all of whose numbers are out of the binary32 range is outside the format: `ovf`. -/
def handleStlRound (ws : List String) : Option String := do
  let fs ← run (pCounted (pMany pBytes 12)) ws
  let toks := fs.flatten
  let recs : List Rec := (List.range fs.length).map fun j =>
    (List.range 12).map fun k => UInt32.ofNat (12 * j + k)
  let bytes := stlAsciiSpec (fun i => toks.getD i missing) recs
  if !toks.isEmpty && toks.all overflowsF32 then some (showHex bytes ++ " ovf")
  else
    let dec := match stlDecode parseF32 bytes with
      | .ok rs => showRecs32 rs
      | .error _ => "error"
    some (showHex bytes ++ " " ++ dec)

/-- `plys <header> <nrows> {row} ft…` : PLYWriter bytes, then NewPLYReader + Read until EOF. -/
def handlePlyStream (ws : List String) : Option String := do
  let (h, rows, tb) ← run (do
    let h ← pHeader; let rows ← pCounted pRow; let tb ← pTables; pure (h, rows, tb)) ws
  let ft := tb.floatText
  match plyWrite ft h rows with
  | none => some "writeerr"
  | some (bytes, done) =>
    let dec := match plyReadAll ft bytes with
      | .error _ => "openerr"
      | .ok (h', r) => showHeader h' ++ " | " ++ showReadAll r
    some (showHex bytes ++ " " ++ boolStr done ++ " | " ++ dec)

def showRGB (c : RGB) : String := s!"{c.1},{c.2.1},{c.2.2}"

def widen3 (v : UInt32 × UInt32 × UInt32) : C3 := (widen v.1, widen v.2.1, widen v.2.2)

/-- colour of a coordinate in the CoordMap returned by ReadColorPLY: the last vertex row with an equal key wins -/
def isNaN64 (x : UInt64) : Bool := (x >>> 52) &&& 0x7ff = 0x7ff && x &&& 0xfffffffffffff ≠ 0

def lookupColor (verts : List C3) (colors : List RGB) (p : C3) : String :=
  if isNaN64 p.1 || isNaN64 p.2.1 || isNaN64 p.2.2 then "-" else
  match ((verts.zip colors).filter fun (q, _) => key3 q = key3 p).getLast? with
  | some (_, c) => showRGB c
  | none => "-"

/-- `plym <ntri> {9 float64} <ncol> {3 float64 r g b} ft…` : EncodePLY bytes, then ReadColorPLY. -/
def handlePlyMesh (ws : List String) : Option String := do
  let (ts, cols, tb) ← run (do
    let ts ← pCounted pTri3
    let cols ← pCounted (do let p ← pC3; let r ← pNat; let g ← pNat; let b ← pNat; pure (p, (r, g, b)))
    let tb ← pTables
    pure (ts, cols, tb)) ws
  let ft := tb.floatText
  let color : C3 → RGB := fun p => (lookupD cols p).getD (0, 0, 0)
  match encodePLY ft round32 color ts with
  | none => some "writeerr"
  | some (bytes, _) =>
    let dec := match readColorPLY ft bytes with
      | .error _ => "error"
      | .ok r =>
        let vs := r.verts.map widen3
        "ok " ++ toString r.tris.length ++ String.join (r.tris.map fun t =>
          String.join (t.map fun v => " " ++ showC3 (widen3 v) ++ " " ++ lookupColor vs r.colors (widen3 v)))
    some (showHex bytes ++ " " ++ dec)

/-- `csv <n> {4 float64} ft…` : SegmentCSVWriter bytes, then DecodeCSV. -/
def handleCsv (ws : List String) : Option String := do
  let (segs, tb) ← run (do let s ← pCounted (pMany pHex64 4); let tb ← pTables; pure (s, tb)) ws
  let bytes := csvEncode tb.fmtG segs
  let dec := match csvDecode tb.pf64 bytes with
    | .ok rows => showRecs64 rows
    | .error => "error"
    | .unsupported => "unsupported"
  some (showHex bytes ++ " " ++ dec)

/-- `off <nv> {3 float64} <nf> {k idx…} ft…` : OFF text to the specification, then the OFF reader. -/
def handleOff (ws : List String) : Option String := do
  let (vs, fs, tb) ← run (do
    let vs ← pCounted pC3; let fs ← pCounted (pCounted pNat); let tb ← pTables; pure (vs, fs, tb)) ws
  let bytes := offSpec tb.floatText.fmt64 vs fs
  let dec := match offDecode tb.pf64 bytes with
    | none => "error"
    | some polys => "ok " ++ toString polys.length ++ String.join (polys.map fun p =>
        " " ++ toString p.length ++ String.join (p.map fun v => " " ++ showC3 v))
  some (showHex bytes ++ " " ++ dec)

def showFace (f : List Nat) : String := ",".intercalate (f.map toString)

/-- `obj <ntri> {9 float64} {material id per triangle}` : vertex table, faces, material groups. -/
def handleObj (ws : List String) : Option String := do
  let (ts, mats) ← run (do let ts ← pCounted pTri3; let m ← pMany pNat ts.length; pure (ts, m)) ws
  let (coords, ms, assign) := objMaterial (fun i => mats.getD i 0) ts
  let groups := (List.range ms.length).map fun g => groupFaces assign g
  some ("V " ++ toString coords.length ++ String.join (coords.map fun c => " " ++ showC3 c) ++
    " F" ++ String.join ((objVertexColor ts).2.map fun f => " " ++ showFace f) ++
    " G " ++ toString groups.length ++ String.join ((ms.zip groups).map fun (m, fs) =>
      " m" ++ toString m ++ " " ++ toString fs.length ++ String.join (fs.map fun f => " " ++ showFace f)))

def handleAll (ws : List String) : Option String :=
  match ws with
  | "stl" :: rest => handleStl rest
  | "stla" :: rest => handleStlAscii rest
  | "stlr" :: rest => handleStlRound rest
  | "plys" :: rest => handlePlyStream rest
  | "plym" :: rest => handlePlyMesh rest
  | "csv" :: rest => handleCsv rest
  | "off" :: rest => handleOff rest
  | "obj" :: rest => handleObj rest
  | _ => none

end M3d.Drv.C15
