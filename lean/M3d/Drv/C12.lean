import M3d.Basic
import M3d.Model.Partition
import M3d.Model.C2F
import M3d.Gen.McTable
/-! Line-protocol handler for C12. Core-only.

Every mesh kind answers with the PLAIN model (sequential, unfiltered: `M3d.Marching.mcMesh/msMesh`,
`dcActiveEdges`, `rasterPlain`) computed from the lattice labelling only — the trailing setting tag of
the op line (GOMAXPROCS, filter, buffer size, …) is ignored, which is exactly what C12 demands
(`M3d.C12.mesh_indep_of_workers_and_filter`, `dc_mesh_indep_of_bufsize`, `raster_indep_of_filter`).
`split/pieces/scan/dcwin` validate the faithful models of the internal steps against hooks. -/
namespace M3d.Drv.C12
open M3d M3d.Marching M3d.Partition

def bitsOf (s : String) : Array Bool := (s.toList.map (· == '1')).toArray

/-! multiset hash shared with harness/cmd/c12 (FNV-1a over the integers of one item + a finaliser;
items combined by wrapping sum and by xor) -/
def fnvStep (h : UInt64) (v : Nat) : UInt64 := (h ^^^ v.toUInt64) * 1099511628211

def finalize (h : UInt64) : UInt64 :=
  let h := h ^^^ (h >>> 32)
  let h := h * 0x9E3779B97F4A7C15
  h ^^^ (h >>> 29)

def mix (vals : List Nat) : UInt64 := finalize (vals.foldl fnvStep 14695981039346656037)

def msetHash (items : List (List Nat)) : String :=
  let (n, s, x) := items.foldl (fun (acc : Nat × UInt64 × UInt64) it =>
    let m := mix it
    (acc.1 + 1, acc.2.1 + m, acc.2.2 ^^^ m)) (0, 0, 0)
  s!"n={n} s={hex64 s} x={hex64 x}"

def seqHash (vals : List Nat) : String := hex64 (mix vals)

def lab3 (b : Array Bool) (nx ny nz : Nat) : Nat → Nat → Nat → Bool := fun x y z =>
  if x < nx && y < ny && z < nz then b.getD (x + nx * (y + ny * z)) false else false

def lab2 (b : Array Bool) (nx ny : Nat) : Nat → Nat → Bool := fun x y =>
  if x < nx && y < ny then b.getD (x + nx * y) false else false

/-- `mc nx ny nz bits tag…` : `nx ny nz` lattice POINTS per axis (outer layer included). -/
def handleMc (ws : List String) : Option String := do
  let nx :: ny :: nz :: bits :: _ := ws | none
  let nx ← nx.toNat?; let ny ← ny.toNat?; let nz ← nz.toNat?
  let b := bitsOf bits
  if b.size ≠ nx * ny * nz then none
  let mesh := mcMesh Gen.mcTable (nx - 1) (ny - 1) (nz - 1) (lab3 b nx ny nz)
  some (msetHash (mesh.map fun t =>
    [t.1.1, t.1.2.1, t.1.2.2, t.2.1.1, t.2.1.2.1, t.2.1.2.2, t.2.2.1, t.2.2.2.1, t.2.2.2.2]))

def handleMs (ws : List String) : Option String := do
  let nx :: ny :: bits :: _ := ws | none
  let nx ← nx.toNat?; let ny ← ny.toNat?
  let b := bitsOf bits
  if b.size ≠ nx * ny then none
  let mesh := msMesh Gen.msTable (nx - 1) (ny - 1) (lab2 b nx ny)
  some (msetHash (mesh.map fun s => [s.1.1, s.1.2, s.2.1, s.2.2]))

/-- `msc2f nx ny bits m cnx cny cbits tag…` : `MarchingSquaresC2F` with `bigDelta = m·smallDelta`; fine
lattice `nx × ny` POINTS, coarse lattice `cnx × cny` points (both start one spacing below `s.Min()`).
The driver itself evaluates "the coarse spacing sees every feature" with reach one coarse cell
(`M3d.C2F.seenAll2 m m`); when it holds the answer is the PLAIN fine mesh
(`M3d.C12.c2f_ms_sound` + `M3d.C2FMarginTie.ms_total_margin_covers`), otherwise `undemanded` (the
harness only emits cases for which it holds, so `undemanded` shows up as a disagreement). -/
def handleMsC2F (ws : List String) : Option String := do
  let nx :: ny :: bits :: m :: cnx :: cny :: cbits :: _ := ws | none
  let nx ← nx.toNat?; let ny ← ny.toNat?; let m ← m.toNat?; let cnx ← cnx.toNat?; let cny ← cny.toNat?
  let b := bitsOf bits
  let cb := bitsOf cbits
  if b.size ≠ nx * ny || cb.size ≠ cnx * cny || m == 0 then none
  if !M3d.C2F.seenAll2Fast m m (lab2 b nx ny) (lab2 cb cnx cny) (nx - 1) (ny - 1) (cnx - 1) (cny - 1) then
    some "undemanded"
  else
    let mesh := msMesh Gen.msTable (nx - 1) (ny - 1) (lab2 b nx ny)
    some (msetHash (mesh.map fun s => [s.1.1, s.1.2, s.2.1, s.2.2]))

/-- `mcc2f nx ny nz bits m cnx cny cnz cbits tag…` : `MarchingCubesC2F`, as `msc2f`. -/
def handleMcC2F (ws : List String) : Option String := do
  let nx :: ny :: nz :: bits :: m :: cnx :: cny :: cnz :: cbits :: _ := ws | none
  let nx ← nx.toNat?; let ny ← ny.toNat?; let nz ← nz.toNat?; let m ← m.toNat?
  let cnx ← cnx.toNat?; let cny ← cny.toNat?; let cnz ← cnz.toNat?
  let b := bitsOf bits
  let cb := bitsOf cbits
  if b.size ≠ nx * ny * nz || cb.size ≠ cnx * cny * cnz || m == 0 then none
  if !M3d.C2F.seenAll3Fast m m (lab3 b nx ny nz) (lab3 cb cnx cny cnz) (nx - 1) (ny - 1) (nz - 1)
      (cnx - 1) (cny - 1) (cnz - 1) then
    some "undemanded"
  else
    let mesh := mcMesh Gen.mcTable (nx - 1) (ny - 1) (nz - 1) (lab3 b nx ny nz)
    some (msetHash (mesh.map fun t =>
      [t.1.1, t.1.2.1, t.1.2.2, t.2.1.1, t.2.1.2.1, t.2.1.2.2, t.2.2.1, t.2.2.2.1, t.2.2.2.2]))

/-- `dc nx ny nz bits tag…` : two faces per active lattice edge. -/
def handleDc (ws : List String) : Option String := do
  let nx :: ny :: nz :: bits :: _ := ws | none
  let nx ← nx.toNat?; let ny ← ny.toNat?; let nz ← nz.toNat?
  let b := bitsOf bits
  if b.size ≠ nx * ny * nz then none
  let es := dcActiveEdges (lab3 b nx ny nz) nx ny nz
  let h := msetHash (es.map fun e => [e.1, e.2.1, e.2.2.1, e.2.2.2, 2])
  some s!"faces={2 * es.length} {h}"

/-- uint8(math.Floor((1 - cnt/total) * 255.999)) with the float operations of rasterize.go -/
def shadeFloat (cnt total : Nat) : Nat :=
  let px : Float := 1 - cnt.toFloat / total.toFloat
  (Float.floor (px * 255.999)).toUInt8.toNat

/-- `rast w h total c0,c1,… tag…` : per-pixel inside counts (row-major), plain render. -/
def handleRast (ws : List String) : Option String := do
  let w :: h :: total :: cs :: _ := ws | none
  let w ← w.toNat?; let h ← h.toNat?; let total ← total.toNat?
  let cnts ← (cs.splitOn ",").mapM (·.toNat?)
  let a := cnts.toArray
  if a.size ≠ w * h then none
  let img := rasterPlain w h fun p => shadeFloat (a.getD (p.1 + w * p.2) 0) total
  some (msetHash (img.map fun pv => [pv.1.1, pv.1.2, pv.2]))

def showBlock (b : Block) : String := s!"{b.x0} {b.x1} {b.y0} {b.y1} {b.z0} {b.z1}"
def showBlock2 (b : Block2) : String := s!"{b.x0} {b.x1} {b.y0} {b.y1}"

def handleSplit (ws : List String) : Option String := do
  let [x0, x1, y0, y1, z0, z1] ← parseNats ws | none
  let b : Block := ⟨x0, x1, y0, y1, z0, z1⟩
  some s!"vol={b.volume} {showBlock b.split.1} | {showBlock b.split.2}"

def handleSplit2 (ws : List String) : Option String := do
  let [x0, x1, y0, y1] ← parseNats ws | none
  let b : Block2 := ⟨x0, x1, y0, y1⟩
  some s!"area={b.area} {showBlock2 b.split.1} | {showBlock2 b.split.2}"

/-- the test oracle shared with the harness -/
def oracle (seed md : Nat) (b : Block) : Bool :=
  md == 0 || (3 * b.x0 + 5 * b.x1 + 7 * b.y0 + 11 * b.y1 + 13 * b.z0 + 17 * b.z1 + seed) % md != 0

def oracle2 (seed md : Nat) (b : Block2) : Bool :=
  md == 0 || (3 * b.x0 + 5 * b.x1 + 7 * b.y0 + 11 * b.y1 + seed) % md != 0

/-- `pieces minVol seed mod x0 x1 y0 y1 z0 z1` -/
def handlePieces (ws : List String) : Option String := do
  let [mv, seed, md, x0, x1, y0, y1, z0, z1] ← parseNats ws | none
  if h : 0 < mv then
    let b : Block := ⟨x0, x1, y0, y1, z0, z1⟩
    let ls := pieces mv h (oracle seed md) b
    let rs := rejected mv h (oracle seed md) b
    some s!"n={ls.length} r={rs.length} h={seqHash (ls.flatMap fun l => [l.x0, l.x1, l.y0, l.y1, l.z0, l.z1])}"
  else none

def handlePieces2 (ws : List String) : Option String := do
  let [mv, seed, md, x0, x1, y0, y1] ← parseNats ws | none
  if h : 0 < mv then
    let b : Block2 := ⟨x0, x1, y0, y1⟩
    let ls := pieces2 mv h (oracle2 seed md) b
    let rs := rejected2 mv h (oracle2 seed md) b
    some s!"n={ls.length} r={rs.length} h={seqHash (ls.flatMap fun l => [l.x0, l.x1, l.y0, l.y1])}"
  else none

/-- `scan procs nz` -/
def handleScan (ws : List String) : Option String := do
  let [procs, nz] ← parseNats ws | none
  let tr := scan procs nz
  some (s!"n={tr.length}" ++ String.join (tr.map fun t => s!" {t.1}:{t.2.1}:{t.2.2}"))

/-- `dcwin nx ny nz bufSize` : the windows of the layout with every edge active. -/
def handleDcWin (ws : List String) : Option String := do
  let [nx, ny, nz, buf] ← parseNats ws | none
  let B := dcBufRows buf nx ny nz
  if h : 2 < B then
    let wins := dcRun nz B h (fun _ => true) dcInit
    let strs := wins.map fun w =>
      match w with
      | [] => "empty"
      | (g, l) :: _ => s!"{(g - l) / 2}:{g}:{w.length}"
    some (s!"B={B}" ++ String.join (strs.map fun s => " " ++ s))
  else none

def handleAll (ws : List String) : Option String :=
  match ws with
  | "mc" :: rest => handleMc rest
  | "ms" :: rest => handleMs rest
  | "msc2f" :: rest => handleMsC2F rest
  | "mcc2f" :: rest => handleMcC2F rest
  | "dc" :: rest => handleDc rest
  | "rast" :: rest => handleRast rest
  | "split" :: rest => handleSplit rest
  | "split2" :: rest => handleSplit2 rest
  | "pieces" :: rest => handlePieces rest
  | "pieces2" :: rest => handlePieces2 rest
  | "scan" :: rest => handleScan rest
  | "dcwin" :: rest => handleDcWin rest
  | "same" :: _ => some "same"
  | _ => none

end M3d.Drv.C12
