import M3d.Basic
import M3d.Model.Sdf
import M3d.Model.SdfTriDeg
import M3d.Drv.Kernels
/-!
Line-protocol handler for C06 (signed distance fields). Core-only.

`b.*` kinds: arguments are IEEE doubles as 16 hex digits; the models of `M3d/Model/Sdf.lean` are run at
`Float` with `math.Sqrt ↦ Float.sqrt` and the answer is printed bit-for-bit (zeros are printed without sign,
NaN as `nan`).  `x.*` kinds: arguments are exact rationals; the same models are run at `Rat`
(`sqrt ↦ id`, so that a printed "distance" is the exact *squared* distance) and the answer is what the real
code must return exactly on such inputs.
-/
namespace M3d.Drv.C06
open M3d M3d.Sdf

/-! ### Float side -/

def envF : Env Float := ⟨Float.sqrt, Float.ofBits 0x3ee4f8b588e368f1, 0.5⟩

def hx (x : Float) : String :=
  if x.isNaN then "nan" else if x == 0 then "0000000000000000" else hexOfFloat x

def v3s (v : V3 Float) : String := s!"{hx v.x} {hx v.y} {hx v.z}"
def v2s (v : V2 Float) : String := s!"{hx v.x} {hx v.y}"
def out3s (o : Out3 Float) : String := s!"{hx o.val} {v3s o.n} {v3s o.p}"
def out2s (o : Out2 Float) : String := s!"{hx o.val} {v2s o.n} {v2s o.p}"

def mk3 {α} : List α → Option (V3 α × List α)
  | x :: y :: z :: rest => some (⟨x, y, z⟩, rest)
  | _ => none
def mk2 {α} : List α → Option (V2 α × List α)
  | x :: y :: rest => some (⟨x, y⟩, rest)
  | _ => none
def mk1 {α} : List α → Option (α × List α)
  | x :: rest => some (x, rest)
  | _ => none

def readTris {α} : Nat → Nat → List α → Option (List (Tri α × Nat) × List α)
  | 0, _, xs => some ([], xs)
  | n + 1, i, xs => do
      let (a, xs) ← mk3 xs
      let (b, xs) ← mk3 xs
      let (c, xs) ← mk3 xs
      let (ts, xs) ← readTris n (i + 1) xs
      some ((⟨a, b, c⟩, i) :: ts, xs)

def readSegs {α} : Nat → Nat → List α → Option (List (Seg α × Nat) × List α)
  | 0, _, xs => some ([], xs)
  | n + 1, i, xs => do
      let (a, xs) ← mk2 xs
      let (b, xs) ← mk2 xs
      let (ts, xs) ← readSegs n (i + 1) xs
      some ((⟨a, b⟩, i) :: ts, xs)

/-! ### transformed fields: token parsers shared by the Float and the Rat side

shape: `S ce r` (sphere / circle) | `R lo hi` | `C p1 p2 r`;  transform list: `n` then `T o` | `K k` | `M m…` -/

def takeN {α} (num : String → Option α) : Nat → List String → Option (List α × List String)
  | 0, ws => some ([], ws)
  | n + 1, w :: ws => do
      let x ← num w
      let (xs, ws) ← takeN num n ws
      some (x :: xs, ws)
  | _, [] => none

def pShape3 {α} (num : String → Option α) : List String → Option (Shape3 α × List String)
  | "S" :: ws => do
      let (xs, ws) ← takeN num 4 ws
      match xs with | [a, b, c, r] => some (.sphere ⟨a, b, c⟩ r, ws) | _ => none
  | "R" :: ws => do
      let (xs, ws) ← takeN num 6 ws
      match xs with | [a, b, c, d, e, f] => some (.rect ⟨a, b, c⟩ ⟨d, e, f⟩, ws) | _ => none
  | "C" :: ws => do
      let (xs, ws) ← takeN num 7 ws
      match xs with | [a, b, c, d, e, f, r] => some (.capsule ⟨a, b, c⟩ ⟨d, e, f⟩ r, ws) | _ => none
  | _ => none

def pShape2 {α} (num : String → Option α) : List String → Option (Shape2 α × List String)
  | "S" :: ws => do
      let (xs, ws) ← takeN num 3 ws
      match xs with | [a, b, r] => some (.circle ⟨a, b⟩ r, ws) | _ => none
  | "R" :: ws => do
      let (xs, ws) ← takeN num 4 ws
      match xs with | [a, b, d, e] => some (.rect ⟨a, b⟩ ⟨d, e⟩, ws) | _ => none
  | "C" :: ws => do
      let (xs, ws) ← takeN num 5 ws
      match xs with | [a, b, d, e, r] => some (.capsule ⟨a, b⟩ ⟨d, e⟩ r, ws) | _ => none
  | _ => none

def pXf3 {α} (num : String → Option α) : List String → Option (Xf3 α × List String)
  | "T" :: ws => do
      let (xs, ws) ← takeN num 3 ws
      match xs with | [a, b, c] => some (.translate ⟨a, b, c⟩, ws) | _ => none
  | "K" :: ws => do
      let (xs, ws) ← takeN num 1 ws
      match xs with | [k] => some (.scale k, ws) | _ => none
  | "M" :: ws => do
      let (xs, ws) ← takeN num 9 ws
      match xs with
      | [a, b, c, d, e, f, g, h, i] => some (.rot ⟨a, b, c, d, e, f, g, h, i⟩, ws)
      | _ => none
  | _ => none

def pXf2 {α} (num : String → Option α) : List String → Option (Xf2 α × List String)
  | "T" :: ws => do
      let (xs, ws) ← takeN num 2 ws
      match xs with | [a, b] => some (.translate ⟨a, b⟩, ws) | _ => none
  | "K" :: ws => do
      let (xs, ws) ← takeN num 1 ws
      match xs with | [k] => some (.scale k, ws) | _ => none
  | "M" :: ws => do
      let (xs, ws) ← takeN num 4 ws
      match xs with | [a, b, c, d] => some (.rot ⟨a, b, c, d⟩, ws) | _ => none
  | _ => none

def pMany {β} (one : List String → Option (β × List String)) : Nat → List String → Option (List β × List String)
  | 0, ws => some ([], ws)
  | n + 1, ws => do
      let (x, ws) ← one ws
      let (xs, ws) ← pMany one n ws
      some (x :: xs, ws)

def pXfs3 {α} (num : String → Option α) : List String → Option (List (Xf3 α) × List String)
  | n :: ws => do pMany (pXf3 num) (← n.toNat?) ws
  | [] => none
def pXfs2 {α} (num : String → Option α) : List String → Option (List (Xf2 α) × List String)
  | n :: ws => do pMany (pXf2 num) (← n.toNat?) ws
  | [] => none

def pV3 {α} (num : String → Option α) (ws : List String) : Option (V3 α × List String) := do
  let (xs, ws) ← takeN num 3 ws
  match xs with | [a, b, c] => some (⟨a, b, c⟩, ws) | _ => none
def pV2 {α} (num : String → Option α) (ws : List String) : Option (V2 α × List String) := do
  let (xs, ws) ← takeN num 2 ws
  match xs with | [a, b] => some (⟨a, b⟩, ws) | _ => none

/-- `b.tsdf3/2`: `TransformSDF(t, shape).SDF(q)`; `b.tcoll3/2`: `ColliderToSDF(TransformCollider(t, shape), iters).SDF(q)`
(`contains` = the real `ColliderSolid.Contains(q)`), at `Float`, bit for bit. -/
def handleXformBits (kind : String) (ws : List String) : Option String := do
  match kind, ws with
  | "b.tsdf3", ws =>
      let (sh, ws) ← pShape3 floatOfHex ws
      let (ts, ws) ← pXfs3 floatOfHex ws
      let (q, _) ← pV3 floatOfHex ws
      some (hx (transformSDF3 ts (sh.sdf envF) q))
  | "b.tsdf2", ws =>
      let (sh, ws) ← pShape2 floatOfHex ws
      let (ts, ws) ← pXfs2 floatOfHex ws
      let (q, _) ← pV2 floatOfHex ws
      some (hx (transformSDF2 ts (sh.sdf envF) q))
  | "b.tcoll3", iters :: contains :: ws =>
      let iters ← iters.toNat?
      let (sh, ws) ← pShape3 floatOfHex ws
      let (ts, ws) ← pXfs3 floatOfHex ws
      let (q, _) ← pV3 floatOfHex ws
      some (hx (transformedColliderSDF3 (2 : Float) ts (sh.sdf envF) (contains == "1") iters q))
  | "b.tcoll2", iters :: contains :: ws =>
      let iters ← iters.toNat?
      let (sh, ws) ← pShape2 floatOfHex ws
      let (ts, ws) ← pXfs2 floatOfHex ws
      let (q, _) ← pV2 floatOfHex ws
      some (hx (transformedColliderSDF2 (2 : Float) ts (sh.sdf envF) (contains == "1") iters q))
  | _, _ => none

def handleBits (kind : String) (ws : List String) : Option String := do
  match kind with
  | "b.tsdf3" | "b.tsdf2" | "b.tcoll3" | "b.tcoll2" => handleXformBits kind ws
  | "b.mesh" =>
      match ws with
      | inb :: cnt :: gf :: n :: rest =>
          let inb := inb == "1"
          let cnt ← cnt.toNat?
          let gf ← gf.toNat?
          let n ← n.toNat?
          let xs ← parseFloats rest
          let (tris, xs) ← readTris n 0 xs
          let (c, _) ← mk3 xs
          match meshScan envF tris c with
          | none => some "empty"
          | some (d, _, _) =>
              let f ← tris[gf]?
              let cp := triClosest envF f.1.a f.1.b f.1.c c
              let dg := cp.dist envF c
              some s!"{hx (meshSign (parityInside inb cnt) d)} {v3s cp} {boolStr (dg == d)}"
      | _ => none
  | "b.meshd" =>
      -- a mesh with collapsed slivers: faces evaluated by `triClosestN` (`mesh_sdf_exhaustive_min_slivers`)
      match ws with
      | inb :: cnt :: gf :: n :: rest =>
          let inb := inb == "1"
          let cnt ← cnt.toNat?
          let gf ← gf.toNat?
          let n ← n.toNat?
          let xs ← parseFloats rest
          let (tris, xs) ← readTris n 0 xs
          let (c, _) ← mk3 xs
          match meshScanN envF tris c with
          | none => some "empty"
          | some (d, _, _) =>
              let f ← tris[gf]?
              let cp := triClosestN envF f.1.a f.1.b f.1.c c
              let dg := cp.dist envF c
              some s!"{hx (meshSign (parityInside inb cnt) d)} {v3s cp} {boolStr (dg == d)}"
      | _ => none
  | "b.mesh2" =>
      -- 2-D `GroupedSegmentsToSDF`: value = sign(parity) × linear-scan minimum over the pieces whose distance is
      -- not NaN (`mesh2_sdf_exhaustive_min_degenerate`), point/normal of the face the real search returned,
      -- which must attain that minimum
      match ws with
      | inb :: cnt :: gf :: n :: rest =>
          let inb := inb == "1"
          let cnt ← cnt.toNat?
          let gf ← gf.toNat?
          let n ← n.toNat?
          let xs ← parseFloats rest
          let (segs, xs) ← readSegs n 0 xs
          let (c, _) ← mk2 xs
          match meshScan2 envF segs c with
          | none => some "empty"
          | some (d, _, _) =>
              match segs[gf]? with
              | none => some s!"{hx (meshSign (parityInside inb cnt) d)} noface"
              | some f =>
                  let cp := segClosest2 envF f.1.a f.1.b c
                  let dg := cp.dist envF c
                  some s!"{hx (meshSign (parityInside inb cnt) d)} {v2s cp} {v2s (segNormal2 envF f.1.a f.1.b)} {boolStr (dg == d)}"
      | _ => none
  | "b.coll" =>
      match ws with
      | [iters, contains, s] =>
          let iters ← iters.toNat?
          let s ← floatOfHex s
          some (hx (colliderSDF (2 : Float) (fun r => decide (absS s ≤ r)) (contains == "1") iters))
      | _ => none
  | _ =>
  let xs ← parseFloats ws
  match kind with
  | "b.sphere" => do
      let (ce, xs) ← mk3 xs; let (r, xs) ← mk1 xs; let (c, _) ← mk3 xs
      let o := sphereOut envF ce r c
      some s!"{hx (sphereSDF envF ce r c)} {out3s o}"
  | "b.circle" => do
      let (ce, xs) ← mk2 xs; let (r, xs) ← mk1 xs; let (c, _) ← mk2 xs
      let o := circleOut envF ce r c
      some s!"{hx (circleSDF envF ce r c)} {out2s o}"
  | "b.rect3" => do
      let (lo, xs) ← mk3 xs; let (hi, xs) ← mk3 xs; let (c, _) ← mk3 xs
      some (out3s (rectOut3 envF lo hi c))
  | "b.rect2" => do
      let (lo, xs) ← mk2 xs; let (hi, xs) ← mk2 xs; let (c, _) ← mk2 xs
      some (out2s (rectOut2 envF lo hi c))
  | "b.caps3" => do
      let (p1, xs) ← mk3 xs; let (p2, xs) ← mk3 xs; let (r, xs) ← mk1 xs; let (c, _) ← mk3 xs
      some (out3s (capsuleOut3 envF p1 p2 r c))
  | "b.caps2" => do
      let (p1, xs) ← mk2 xs; let (p2, xs) ← mk2 xs; let (r, xs) ← mk1 xs; let (c, _) ← mk2 xs
      some (out2s (capsuleOut2 envF p1 p2 r c))
  | "b.cyl" => do
      let (p1, xs) ← mk3 xs; let (p2, xs) ← mk3 xs; let (r, xs) ← mk1 xs; let (c, _) ← mk3 xs
      some (out3s (cylinderOut envF p1 p2 r c))
  | "b.cone" => do
      let (tip, xs) ← mk3 xs; let (base, xs) ← mk3 xs; let (r, xs) ← mk1 xs; let (c, _) ← mk3 xs
      some (out3s (coneOut envF tip base r c))
  | "b.torus" => do
      let (ce, xs) ← mk3 xs; let (ax, xs) ← mk3 xs; let (ro, xs) ← mk1 xs; let (ri, xs) ← mk1 xs
      let (c, _) ← mk3 xs
      some (out3s (torusOut envF ce ax ro ri c))
  | "b.tri2" => do
      let (p0, xs) ← mk2 xs; let (p1, xs) ← mk2 xs; let (p2, xs) ← mk2 xs; let (c, _) ← mk2 xs
      let (o, (b0, b1, b2)) := tri2Out envF p0 p1 p2 c
      some s!"{out2s o} {hx b0} {hx b1} {hx b2}"
  | "b.seg3" => do
      let (s0, xs) ← mk3 xs; let (s1, xs) ← mk3 xs; let (c, _) ← mk3 xs
      some s!"{v3s (segClosest3 envF s0 s1 c)} {hx (segDist3 envF s0 s1 c)}"
  | "b.seg2" => do
      let (s0, xs) ← mk2 xs; let (s1, xs) ← mk2 xs; let (c, _) ← mk2 xs
      some s!"{v2s (segClosest2 envF s0 s1 c)} {hx (segDist2 envF s0 s1 c)}"
  | "b.tri3" => do
      let (t0, xs) ← mk3 xs; let (t1, xs) ← mk3 xs; let (t2, xs) ← mk3 xs; let (c, _) ← mk3 xs
      some s!"{v3s (triClosest envF t0 t1 t2 c)} {hx (triDist envF t0 t1 t2 c)}"
  | "b.tri3d" => do
      -- `Triangle.Closest` / `Triangle.Dist` with the edge loops run from `+Inf` and the NaN test
      -- (`triangle_repeated_corner_dist_exact`: a number, the distance to the remaining edge; `triangle_point_dist_exact`)
      let (t0, xs) ← mk3 xs; let (t1, xs) ← mk3 xs; let (t2, xs) ← mk3 xs; let (c, _) ← mk3 xs
      some s!"{v3s (triClosestN envF t0 t1 t2 c)} {hx (triDistN envF t0 t1 t2 c)}"
  | "b.prof" => do
      let (minZ, xs) ← mk1 xs; let (maxZ, xs) ← mk1 xs; let (p2, xs) ← mk2 xs; let (s, xs) ← mk1 xs
      let (c, _) ← mk3 xs
      let (p, v) := profilePointSDF envF minZ maxZ p2 s c
      some s!"{hx (profileSDF envF minZ maxZ s c.z)} {hx v} {v3s p}"
  | _ => none

/-! ### Rat side -/

/-- `sqrt ↦ id`: every "distance" of the model is then the exact squared distance. -/
def envQ : Env Rat := ⟨id, 1 / 100000, 1 / 2⟩

def isPow2 (n : Nat) : Bool := n != 0 && (n &&& (n - 1)) == 0

/-- exact conversion of a small dyadic rational to `Float` -/
def ratToFloat (q : Rat) : Option Float :=
  if isPow2 q.den && q.num.natAbs < 2 ^ 53 then some (Float.ofInt q.num / Float.ofNat q.den) else none

def q3s (v : V3 Rat) : String := s!"{showRat v.x} {showRat v.y} {showRat v.z}"
def q2s (v : V2 Rat) : String := s!"{showRat v.x} {showRat v.y}"
def faceS (f : Face) : String := s!"{f.1} {boolStr f.2}"

def veq3 (a b : V3 Rat) : Bool := a.x == b.x && a.y == b.y && a.z == b.z
def veq2 (a b : V2 Rat) : Bool := a.x == b.x && a.y == b.y

/-- the exact projection of `c` onto the line `s0 s1` is an end point (`b = 0` or `b = a`) -/
def segBoundary3 (s0 s1 c : V3 Rat) : Bool :=
  let v1 := s1.sub s0
  let b := v1.dot (c.sub s0)
  b == 0 || b == v1.dot v1
def segBoundary2 (s0 s1 c : V2 Rat) : Bool :=
  let v1 := s1.sub s0
  let b := v1.dot (c.sub s0)
  b == 0 || b == v1.dot v1

/-! ### transformed fields, exact mode (`Rect`, dyadic translations, power-of-two scalings)

`x.tsdf3/2 R lo hi xfs q` → what `transform_sdf_exact` + `rect_sdf_exact` require: `in <k · exact face distance>` when
the inverse image of `q` is in the box, `out <minus the correctly rounded root of the exact squared distance, times k>`
otherwise.  `x.tcoll3/2 iters contains R lo hi xfs q v` → `ok` iff the value `v` returned by the real
`ColliderToSDF(TransformCollider(…))` satisfies `transformed_collider_sdf_brackets`: sign ⇔ the inverse image is in the
box, `| |v| - D | · 2^(iters+1) < D` for the exact distance `D = k · (distance of the inverse image to the faces)`
(queries whose inverse image is outside the box beyond more than one face have an irrational distance: `skip`). -/

def absQ (x : Rat) : Rat := if x < 0 then -x else x

/-- how far `c` is beyond each face of the box (non-zero entries only): with exactly one entry the distance to the
box is that entry (rational); with more it is the root of the sum of the squares -/
def rectExcess (lo hi c : List Rat) : List Rat :=
  ((lo.zip (hi.zip c)).map fun (l, h, x) => if x < l then l - x else if h < x then x - h else 0).filter (· != 0)

def bracketOk (inside : Bool) (d : Rat) (iters : Nat) (contains : Bool) (v : Rat) : String :=
  let p : Rat := (2 : Rat) ^ iters
  if !(1 < d * p && d ≤ p) then "range"
  else if contains != inside || (0 < v) != inside then "sign"
  else if absQ (absQ v - d) * (2 * p) < d then "ok" else s!"off {showRat d}"

def handleXformExact (kind : String) (ws : List String) : Option String := do
  match kind, ws with
  | "x.tsdf3", ws =>
      let (sh, ws) ← pShape3 parseRat ws
      let (ts, ws) ← pXfs3 parseRat ws
      let (q, _) ← pV3 parseRat ws
      match sh with
      | .rect lo hi =>
          let c' := xfApply3 (xfInverse3 ts) q
          if rectContains3 lo hi c' then some s!"in {showRat (transformSDF3 ts (sh.sdf envQ) q)}"
          else
            let sf ← ratToFloat (c'.sqDist (rectOut3 envQ lo hi c').p)
            let kf ← ratToFloat (xfDist3 ts 1)
            some s!"out {hx (-(Float.sqrt sf) * kf)}"
      | _ => none
  | "x.tsdf2", ws =>
      let (sh, ws) ← pShape2 parseRat ws
      let (ts, ws) ← pXfs2 parseRat ws
      let (q, _) ← pV2 parseRat ws
      match sh with
      | .rect lo hi =>
          let c' := xfApply2 (xfInverse2 ts) q
          if rectContains2 lo hi c' then some s!"in {showRat (transformSDF2 ts (sh.sdf envQ) q)}"
          else
            let sf ← ratToFloat (c'.sqDist (rectOut2 envQ lo hi c').p)
            let kf ← ratToFloat (xfDist2 ts 1)
            some s!"out {hx (-(Float.sqrt sf) * kf)}"
      | _ => none
  | "x.tcoll3", iters :: contains :: ws =>
      let iters ← iters.toNat?
      let (sh, ws) ← pShape3 parseRat ws
      let (ts, ws) ← pXfs3 parseRat ws
      let (q, ws) ← pV3 parseRat ws
      let (v, _) ← mk1 (← parseRats ws)
      match sh with
      | .rect lo hi =>
          let c' := xfApply3 (xfInverse3 ts) q
          if rectContains3 lo hi c' then some (bracketOk true (xfDist3 ts (sh.sdf envQ c')) iters (contains == "1") v)
          else match rectExcess [lo.x, lo.y, lo.z] [hi.x, hi.y, hi.z] [c'.x, c'.y, c'.z] with
          | [e] => some (bracketOk false (xfDist3 ts e) iters (contains == "1") v)
          | _ => some "skip"
      | _ => none
  | "x.tcoll2", iters :: contains :: ws =>
      let iters ← iters.toNat?
      let (sh, ws) ← pShape2 parseRat ws
      let (ts, ws) ← pXfs2 parseRat ws
      let (q, ws) ← pV2 parseRat ws
      let (v, _) ← mk1 (← parseRats ws)
      match sh with
      | .rect lo hi =>
          let c' := xfApply2 (xfInverse2 ts) q
          if rectContains2 lo hi c' then some (bracketOk true (xfDist2 ts (sh.sdf envQ c')) iters (contains == "1") v)
          else match rectExcess [lo.x, lo.y] [hi.x, hi.y] [c'.x, c'.y] with
          | [e] => some (bracketOk false (xfDist2 ts e) iters (contains == "1") v)
          | _ => some "skip"
      | _ => none
  | _, _ => none

def handleExact (kind : String) (ws : List String) : Option String := do
  match kind with
  | "x.tsdf3" | "x.tsdf2" | "x.tcoll3" | "x.tcoll2" => handleXformExact kind ws
  | "x.mesh" =>
      match ws with
      | gf :: n :: rest =>
          let gf ← gf.toNat?
          let n ← n.toNat?
          let xs ← parseRats rest
          let (tris, xs) ← readTris n 0 xs
          let (c, _) ← mk3 xs
          let sq := fun (t : Tri Rat × Nat) => (triClosestQ t.1.a t.1.b t.1.c c).sqDist c
          let f ← tris[gf]?
          let best := tris.foldl (fun m t => if sq t < m then sq t else m) (sq f)
          some (boolStr (sq f == best))
      | _ => none
  | "x.mesh2" =>
      -- the face picked by the real 2-D search is a proper segment attaining the exact minimum of the squared
      -- distances over the proper segments (= over all pieces when the zero-length ones are covered)
      match ws with
      | gf :: n :: rest =>
          let gf ← gf.toNat?
          let n ← n.toNat?
          let xs ← parseRats rest
          let (segs, xs) ← readSegs n 0 xs
          let (c, _) ← mk2 xs
          let proper := segs.filter fun t => !(veq2 t.1.a t.1.b)
          let sq := fun (t : Seg Rat × Nat) => (segClosestQ2 t.1.a t.1.b c).sqDist c
          match segs[gf]? with
          | none => some "noface"
          | some f =>
              if veq2 f.1.a f.1.b then some "zero-length"
              else
                let best := proper.foldl (fun m t => if sq t < m then sq t else m) (sq f)
                some (boolStr (sq f == best))
      | _ => none
  | _ =>
  let xs ← parseRats ws
  match kind with
  | "x.rect3" => do
      let (lo, xs) ← mk3 xs; let (hi, xs) ← mk3 xs; let (c, _) ← mk3 xs
      let o := rectOut3 envQ lo hi c
      if rectContains3 lo hi c then
        let f := (rectInsidePick3 lo hi c).2
        let v ← ratToFloat o.val
        some s!"in {showRat (c.sqDist o.p)} {hx v} {faceS f} {q3s o.p}"
      else
        let s := c.sqDist o.p
        let sf ← ratToFloat s
        let f := normalAtFace3 lo hi o.p
        some s!"out {showRat s} {hx (-(Float.sqrt sf))} {faceS f} {q3s o.p}"
  | "x.rect2" => do
      let (lo, xs) ← mk2 xs; let (hi, xs) ← mk2 xs; let (c, _) ← mk2 xs
      let o := rectOut2 envQ lo hi c
      if rectContains2 lo hi c then
        let f := (rectInsidePick2 lo hi c).2
        let v ← ratToFloat o.val
        some s!"in {showRat (c.sqDist o.p)} {hx v} {faceS f} {q2s o.p}"
      else
        let s := c.sqDist o.p
        let sf ← ratToFloat s
        let f := normalAtFace2 lo hi o.p
        some s!"out {showRat s} {hx (-(Float.sqrt sf))} {faceS f} {q2s o.p}"
  | "x.seg3" => do
      let (s0, xs) ← mk3 xs; let (s1, xs) ← mk3 xs; let (c, _) ← mk3 xs
      let q := segClosestQ3 s0 s1 c
      some (if segBoundary3 s0 s1 c then "b" else if veq3 q s0 then s!"0 {q3s q}" else if veq3 q s1 then s!"1 {q3s q}" else "i")
  | "x.seg2" => do
      let (s0, xs) ← mk2 xs; let (s1, xs) ← mk2 xs; let (c, _) ← mk2 xs
      let q := segClosestQ2 s0 s1 c
      some (if segBoundary2 s0 s1 c then "b" else if veq2 q s0 then s!"0 {q2s q}" else if veq2 q s1 then s!"1 {q2s q}" else "i")
  | "x.tri3" => do
      let (t0, xs) ← mk3 xs; let (t1, xs) ← mk3 xs; let (t2, xs) ← mk3 xs; let (c, _) ← mk3 xs
      let q := triClosestQ t0 t1 t2 c
      some (if segBoundary3 t0 t1 c || segBoundary3 t1 t2 c || segBoundary3 t2 t0 c then "b"
            else if veq3 q t0 then "v0" else if veq3 q t1 then "v1" else if veq3 q t2 then "v2" else "o")
  | "x.tri3d" => do
      -- collapsed triangle: the `sqrt`-free edge scan with the zero-length edge skipped
      -- (`triangle_repeated_corner_exact_mode`): which corner, and there the correctly rounded root
      let (t0, xs) ← mk3 xs; let (t1, xs) ← mk3 xs; let (t2, xs) ← mk3 xs; let (c, _) ← mk3 xs
      match triEdgeScanQ t0 t1 t2 c with
      | none =>
          -- the three corners are one point (`triangle_point_dist_exact`): `Closest = t[0]`, `Dist = c.Dist(t[0])`
          let sf ← ratToFloat (c.sqDist t0)
          some s!"e {q3s t0} {hx (Float.sqrt sf)}"
      | some (s, p) =>
          if (!(veq3 t0 t1) && segBoundary3 t0 t1 c) || (!(veq3 t1 t2) && segBoundary3 t1 t2 c)
              || (!(veq3 t2 t0) && segBoundary3 t2 t0 c) then some "b"
          else if veq3 p t0 || veq3 p t1 || veq3 p t2 then
            let sf ← ratToFloat s
            some s!"e {q3s p} {hx (Float.sqrt sf)}"
          else some "i fin"
  | "x.tri2" => do
      let (p0, xs) ← mk2 xs; let (p1, xs) ← mk2 xs; let (p2, xs) ← mk2 xs; let (c, _) ← mk2 xs
      let cands := [tri2EdgeCand 0 p0 p1 c, tri2EdgeCand 1 p1 p2 c, tri2EdgeCand 2 p2 p0 c]
      let pk := pickMin (tri2EdgeCand 0 p0 p1 c) [tri2EdgeCand 1 p1 p2 c, tri2EdgeCand 2 p2 p0 c]
      let inside := tri2Contains p0 p1 p2 c
      let vert := pk.2.2.2.1
      -- two different boundary points at exactly the minimal distance: the float code may return either
      let tie := cands.any fun a => cands.any fun b => a.1 == pk.1 && b.1 == pk.1 && !(veq2 a.2.1 b.2.1)
      if tie then some "tie"
      else if vert < 3 then
        let sf ← ratToFloat pk.1
        let d := Float.sqrt sf
        some s!"v{vert} {showRat pk.1} {hx (if inside then d else -d)}"
      else if pk.1 == 0 then some s!"e{pk.2.2.2.2} on"
      else some s!"e{pk.2.2.2.2} {boolStr inside}"
  | _ => none

def handleAll (ws : List String) : Option String :=
  match ws with
  | kind :: rest =>
      if kind == "gk" then M3d.Drv.Kernels.handle rest
      else if kind.startsWith "b." then handleBits kind rest
      else if kind.startsWith "x." then handleExact kind rest
      else none
  | _ => none

end M3d.Drv.C06
