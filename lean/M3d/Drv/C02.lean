import M3d.Basic
import M3d.Model.MarchingMesh
import M3d.Model.Bisect
import M3d.Model.DualContour
import M3d.Model.MarchingFilter
import M3d.Model.MarchingGlue
import M3d.Model.SearchSpec
import M3d.Gen.McTable
/-! Line-protocol handler for C02. Core-only. -/
namespace M3d.Drv.C02
open M3d M3d.Marching

/-! ### the solid language of harness/cmd/c02/csg.go, evaluated exactly on `Rat` -/

inductive Csg where
  | box (p : Array Rat)
  | ball (p : Array Rat)
  | half (p : Array Rat)
  | plane (p : Array Rat)
  | vox (p : Array Rat) (nx ny nz : Nat) (bits : Array Bool)
  | or (a b : Csg)
  | and (a b : Csg)
  | sub (a b : Csg)
deriving Inhabited

def takeRats (n : Nat) (ws : List String) : Option (Array Rat × List String) := do
  let rs ← (ws.take n).mapM parseRat
  if rs.length ≠ n then none else some (rs.toArray, ws.drop n)

def bitsOf (s : String) : Array Bool :=
  if s == "-" then #[] else (s.toList.map (· == '1')).toArray

partial def parseCsg (ws : List String) : Option (Csg × List String) :=
  match ws with
  | "box" :: r => do let (p, r) ← takeRats 6 r; some (.box p, r)
  | "ball" :: r => do let (p, r) ← takeRats 4 r; some (.ball p, r)
  | "half" :: r => do let (p, r) ← takeRats 3 r; some (.half p, r)
  | "plane" :: r => do let (p, r) ← takeRats 4 r; some (.plane p, r)
  | "vox" :: r => do
      let (p, r) ← takeRats 4 r
      match r with
      | a :: b :: c :: bits :: r => some (.vox p (← a.toNat?) (← b.toNat?) (← c.toNat?) (bitsOf bits), r)
      | _ => none
  | "or" :: r => do let (a, r) ← parseCsg r; let (b, r) ← parseCsg r; some (.or a b, r)
  | "and" :: r => do let (a, r) ← parseCsg r; let (b, r) ← parseCsg r; some (.and a b, r)
  | "sub" :: r => do let (a, r) ← parseCsg r; let (b, r) ← parseCsg r; some (.sub a b, r)
  | _ => none

def contains : Csg → Rat → Rat → Rat → Bool
  | .box p, x, y, z =>
    decide (p[0]! ≤ x) && decide (p[1]! ≤ y) && decide (p[2]! ≤ z) &&
    decide (x ≤ p[3]!) && decide (y ≤ p[4]!) && decide (z ≤ p[5]!)
  | .ball p, x, y, z =>
    let dx := x - p[0]!; let dy := y - p[1]!; let dz := z - p[2]!
    decide (dx * dx + dy * dy + dz * dz ≤ p[3]! * p[3]!)
  | .half p, x, y, z =>
    let c := if p[0]! == 0 then x else if p[0]! == 1 then y else z
    if p[1]! > 0 then decide (c ≤ p[2]!) else decide (p[2]! ≤ c)
  | .plane p, x, y, z => decide (p[0]! * x + p[1]! * y + p[2]! * z ≤ p[3]!)
  | .vox p nx ny nz bits, x, y, z =>
    let ix := ((x - p[0]!) / p[3]! + 1 / 2).floor
    let iy := ((y - p[1]!) / p[3]! + 1 / 2).floor
    let iz := ((z - p[2]!) / p[3]! + 1 / 2).floor
    if ix < 0 || iy < 0 || iz < 0 || ix ≥ nx || iy ≥ ny || iz ≥ nz then false
    else bits.getD (ix.toNat + nx * (iy.toNat + ny * iz.toNat)) false
  | .or a b, x, y, z => contains a x y z || contains b x y z
  | .and a b, x, y, z => contains a x y z && contains b x y z
  | .sub a b, x, y, z => contains a x y z && !contains b x y z

def strLt (a b : String) : Bool := a < b
def sortStrs (xs : List String) : List String := (xs.toArray.qsort strLt).toList

def dedupSorted : List String → List String
  | a :: b :: r => if a == b then dedupSorted (b :: r) else a :: dedupSorted (b :: r)
  | l => l

/-! ### marching cubes / squares: vertex set -/

/-- `mcv NX NY NZ bits` (and `mcf …`, the Filter variants; tokens after the labelling are replay
information): the vertex set the property demands — one vertex at the midpoint of every
lattice edge whose ends are labelled differently, nothing else (doubled index coordinates) — after
checking that the table-driven whole-lattice model mesh has exactly that vertex set. -/
def handleMcv (filtered : Bool) (ws : List String) : Option String := do
  let nx ← (← ws[0]?).toNat?; let ny ← (← ws[1]?).toNat?; let nz ← (← ws[2]?).toNat?
  let b := bitsOf (← ws[3]?)
  if b.size ≠ nx * ny * nz then none
  let lab : Nat → Nat → Nat → Bool := fun x y z =>
    if x ≥ nx || y ≥ ny || z ≥ nz then false else b.getD (x + nx * (y + ny * z)) false
  let showGV := fun (v : GV) => s!"{v.1}.{v.2.1}.{v.2.2}"
  -- `mcf`: the model of `MarchingCubesFilter` (block queue, `Pieces`, one worker) with the least
  -- permissive sound filter; by `mc_filter_same_mesh` / `mc_filter_vertex_iff_sign_change` any sound
  -- filter and any schedule give the same faces
  let mesh := if filtered then
      MarchingFilter.mcFilterMesh1 Gen.mcTable (nx - 1) (ny - 1) (nz - 1) lab (MarchingFilter.tightFilter3 lab)
    else mcMesh Gen.mcTable (nx - 1) (ny - 1) (nz - 1) lab
  let mverts := dedupSorted (sortStrs (mesh.flatMap fun t => [showGV t.1, showGV t.2.1, showGV t.2.2]))
  let spec := sortStrs <|
    (List.range nz).flatMap fun z => (List.range ny).flatMap fun y => (List.range nx).flatMap fun x =>
      (if x + 1 < nx && lab x y z != lab (x+1) y z then [showGV (2*x+1, 2*y, 2*z)] else []) ++
      (if y + 1 < ny && lab x y z != lab x (y+1) z then [showGV (2*x, 2*y+1, 2*z)] else []) ++
      (if z + 1 < nz && lab x y z != lab x y (z+1) then [showGV (2*x, 2*y, 2*z+1)] else [])
  if mverts != spec then some "model-mesh-vertices-differ-from-sign-changing-edges"
  else some s!"n={spec.length} side=1 {";".intercalate spec}"

def handleMsv (filtered : Bool) (ws : List String) : Option String := do
  let nx ← (← ws[0]?).toNat?; let ny ← (← ws[1]?).toNat?
  let b := bitsOf (← ws[2]?)
  if b.size ≠ nx * ny then none
  let lab : Nat → Nat → Bool := fun x y =>
    if x ≥ nx || y ≥ ny then false else b.getD (x + nx * y) false
  let showGV := fun (v : GV2) => s!"{v.1}.{v.2}"
  let mesh := if filtered then
      MarchingFilter.msFilterMesh1 Gen.msTable (nx - 1) (ny - 1) lab (MarchingFilter.tightFilter2 lab)
    else msMesh Gen.msTable (nx - 1) (ny - 1) lab
  let mverts := dedupSorted (sortStrs (mesh.flatMap fun t => [showGV t.1, showGV t.2]))
  let spec := sortStrs <|
    (List.range ny).flatMap fun y => (List.range nx).flatMap fun x =>
      (if x + 1 < nx && lab x y != lab (x+1) y then [showGV (2*x+1, 2*y)] else []) ++
      (if y + 1 < ny && lab x y != lab x (y+1) then [showGV (2*x, 2*y+1)] else [])
  if mverts != spec then some "model-mesh-vertices-differ-from-sign-changing-edges"
  else some s!"n={spec.length} side=1 {";".intercalate spec}"

/-! ### search refinement -/

def setAt (c : List Rat) (k : Nat) (v : Rat) : List Rat := c.set k v

def show3 (c : List Rat) : String := ",".intercalate (c.map showRat)

/-- `mcs iters interior ox oy oz delta NX NY NZ <csg>`: every sign-changing lattice edge carries one
vertex, refined by the model of `mcSearchPoint` (edge recovered by the model of `LookupEdgePoint`
from the midpoint, exactly as the code does). -/
def handleMcs (ws : List String) : Option String := do
  let iters ← (← ws[0]?).toNat?
  let interior ← (← ws[1]?).toNat?
  let (o, r) ← takeRats 4 (ws.drop 2)
  let nx ← (← r[0]?).toNat?; let ny ← (← r[1]?).toNat?; let nz ← (← r[2]?).toNat?
  let (t, _) ← parseCsg (r.drop 3)
  let d := o[3]!
  let origin := [o[0]!, o[1]!, o[2]!]
  let pt := fun (x y z : Nat) => [o[0]! + (x : Rat) * d, o[1]! + (y : Rat) * d, o[2]! + (z : Rat) * d]
  let C := fun (c : List Rat) => contains t (c.getD 0 0) (c.getD 1 0) (c.getD 2 0)
  let lab := fun (x y z : Nat) => C (pt x y z)
  let one : List Rat → List Rat → Option String := fun a b => do
    -- the unrefined vertex is the midpoint `a.Mid(b)`
    let m := (a.zip b).map fun p => (p.1 + p.2) / 2
    let (k, lo, hi) ← Bisect.lookupEdgePoint origin d m
    let res := Bisect.mcSearchPoint (fun v => C (setAt m k v)) lo hi iters
    let s := show3 (setAt m k res.1)
    if interior == 1 then some (s ++ "|" ++ show3 (setAt m k res.2)) else some s
  let cands : List (List Rat × List Rat) :=
    (List.range nz).flatMap fun z => (List.range ny).flatMap fun y => (List.range nx).flatMap fun x =>
      (if x + 1 < nx && lab x y z != lab (x+1) y z then [(pt x y z, pt (x+1) y z)] else []) ++
      (if y + 1 < ny && lab x y z != lab x (y+1) z then [(pt x y z, pt x (y+1) z)] else []) ++
      (if z + 1 < nz && lab x y z != lab x y (z+1) then [(pt x y z, pt x y (z+1))] else [])
  match cands.mapM fun p => one p.1 p.2 with
  | none => some "panic:vertex_not_on_edge"
  | some vs =>
    let vs := sortStrs vs
    some s!"n={vs.length} side=1 near=1 in=1 {";".intercalate vs}"

/-- `mss iters ox oy delta NX NY <csg>`: 2-D twin.  The end `msSearch` treats as contained is the one
the normal-sign rule selects; by `ms_normal_picks_contained_end` that is the end labelled inside,
which is what is used here. -/
def handleMss (ws : List String) : Option String := do
  let iters ← (← ws[0]?).toNat?
  let (o, r) ← takeRats 3 (ws.drop 1)
  let nx ← (← r[0]?).toNat?; let ny ← (← r[1]?).toNat?
  let (t, _) ← parseCsg (r.drop 2)
  let d := o[2]!
  let mn := [o[0]! + d, o[1]! + d]      -- the solid's Min(): the lattice starts at Min() - delta
  let pt := fun (x y : Nat) => [o[0]! + (x : Rat) * d, o[1]! + (y : Rat) * d]
  let C := fun (c : List Rat) => contains t (c.getD 0 0) (c.getD 1 0) 0
  let lab := fun (x y : Nat) => C (pt x y)
  let one : List Rat → List Rat → Option String := fun a b => do
    let m := (a.zip b).map fun p => (p.1 + p.2) / 2
    if iters == 0 then some (show3 m) else
    let (k, lo, hi) ← Bisect.msLookup mn d m
    -- normal component along the edge axis is positive iff the excluded end is the upper one
    let normalPos := C (setAt m k lo)
    let res := Bisect.msSearchPoint (fun v => C (setAt m k v)) lo hi normalPos iters
    some (show3 (setAt m k res))
  let cands : List (List Rat × List Rat) :=
    (List.range ny).flatMap fun y => (List.range nx).flatMap fun x =>
      (if x + 1 < nx && lab x y != lab (x+1) y then [(pt x y, pt (x+1) y)] else []) ++
      (if y + 1 < ny && lab x y != lab x (y+1) then [(pt x y, pt x (y+1))] else [])
  match cands.mapM fun p => one p.1 p.2 with
  | none => some "panic:vertex_not_on_edge"
  | some vs =>
    let vs := sortStrs vs
    some s!"n={vs.length} side=1 near=1 {";".intercalate vs}"

/-! ### `SolidSurfaceEstimator` at `Float`, bit for bit -/

def hex3 (p : Bisect.V3 Float) : String := s!"{hexOfFloat p.x} {hexOfFloat p.y} {hexOfFloat p.z}"

def handleBis (ws : List String) : Option String := do
  let which ← ws[0]?
  let count ← (← ws[1]?).toNat?
  let axis ← (← ws[2]?).toNat?
  let up ← (← ws[3]?).toNat?
  let fs ← parseFloats (ws.drop 4)
  let [thr, a, b, c, d, e, f] := fs | none
  let p1 : Bisect.V3 Float := ⟨a, b, c⟩
  let p2 : Bisect.V3 Float := ⟨d, e, f⟩
  let C := fun (p : Bisect.V3 Float) =>
    let v := if axis == 0 then p.x else if axis == 1 then p.y else p.z
    if up == 1 then v >= thr else v <= thr
  if which == "bisect" then some (hex3 (Bisect.bisectPoint C p1 p2 count))
  else
    -- the property: the reported interior point is contained
    some (hex3 (Bisect.bisectInterior C p1 p2 count) ++ " in=1")

/-- `bis2 …`: the 2-D twin (`model2d.SolidSurfaceEstimator`, same template): the same model with the
third coordinate 0 (every operation is per coordinate). -/
def handleBis2 (ws : List String) : Option String := do
  let which ← ws[0]?
  let count ← (← ws[1]?).toNat?
  let axis ← (← ws[2]?).toNat?
  let up ← (← ws[3]?).toNat?
  let fs ← parseFloats (ws.drop 4)
  let [thr, a, b, d, e] := fs | none
  let p1 : Bisect.V3 Float := ⟨a, b, 0⟩
  let p2 : Bisect.V3 Float := ⟨d, e, 0⟩
  let C := fun (p : Bisect.V3 Float) =>
    let v := if axis == 0 then p.x else p.y
    if up == 1 then v >= thr else v <= thr
  if which == "bisect" then
    let r := Bisect.bisectPoint C p1 p2 count
    some s!"{hexOfFloat r.x} {hexOfFloat r.y}"
  else
    let r := Bisect.bisectInterior C p1 p2 count
    some s!"{hexOfFloat r.x} {hexOfFloat r.y} in=1"

/-! ### dual contouring -/

open M3d.DC in
def handleDcIdx (ws : List String) : Option String := do
  let nx ← (← ws[0]?).toNat?; let ny ← (← ws[1]?).toNat?; let rows ← (← ws[2]?).toNat?
  let oi := fun (o : Option Nat) => match o with | some n => toString n | none => "-1"
  let es := (List.range (numEdges nx ny rows)).map fun e =>
    let k := edgeCorners nx ny e
    s!"{e}:{",".intercalate ((edgeCubes nx ny rows e).map oi)}:{k.1},{k.2};"
  let cs := (List.range (numCubes nx ny rows)).map fun c =>
    s!"{c}:{",".intercalate ((cubeEdges nx ny c).map toString)}:{",".intercalate ((cubeCorners nx ny c).map toString)};"
  some (String.join es ++ " " ++ String.join cs)

/-- `BufRows = clamp(bufSize / (|Xs||Ys|), 4, |Zs|)`, `bufSize = 0` meaning the default 1 000 000. -/
def bufRows (nx ny nz buf : Nat) : Nat :=
  let buf := if buf == 0 then 1000000 else buf
  min (max (buf / (nx * ny)) 4) nz

open M3d.DC in
def handleDcSz (ws : List String) : Option String := do
  let nx ← (← ws[0]?).toNat?; let ny ← (← ws[1]?).toNat?; let nz ← (← ws[2]?).toNat?
  let buf ← (← ws[3]?).toNat?
  let r := bufRows nx ny nz buf
  some s!"{numCorners nx ny r} {numCubes nx ny r} {numEdges nx ny r} {r}"

def cellLt (a b : Nat × Nat × Nat) : Bool :=
  a.1 < b.1 || (a.1 == b.1 && (a.2.1 < b.2.1 || (a.2.1 == b.2.1 && a.2.2 < b.2.2)))

def rotateToMin (q : List (Nat × Nat × Nat)) : List (Nat × Nat × Nat) :=
  match q with
  | [] => []
  | c0 :: _ =>
    let best := (q.zipIdx).foldl (fun (acc : (Nat × Nat × Nat) × Nat) ci =>
      if cellLt ci.1 acc.1 then ci else acc) (c0, 0)
    q.drop best.2 ++ q.take best.2

open M3d.DC in
/-- `dc NX NY NZ bits I …` / `dcr …`: what the property demands of the clipped dual-contouring mesh
of this labelling: one quad per lattice edge whose ends differ (the four cells round the edge in
the model's orientation), every vertex strictly inside its cell, every lattice edge crossed exactly
once iff its ends differ with the normal pointing from the contained to the excluded end, one
contained interior point per such edge. -/
def handleDc (repair : Bool) (ws : List String) : Option String := do
  let nx ← (← ws[0]?).toNat?; let ny ← (← ws[1]?).toNat?; let nz ← (← ws[2]?).toNat?
  let b := bitsOf (← ws[3]?)
  let wantInterior ← (← ws[4]?).toNat?
  if b.size ≠ nx * ny * nz then none
  let lab : Lab := fun x y z =>
    if x ≥ nx || y ≥ ny || z ≥ nz then false else b.getD (x + nx * (y + ny * z)) false
  let qs := quads nx ny nz lab
  let ename := fun (e : EdgeC) => s!"{e.axis}.{e.x}.{e.y}.{e.z}"
  let cname := fun (c : Nat × Nat × Nat) => s!"{c.1}.{c.2.1}.{c.2.2}"
  if qs.any (fun q => q.2.isNone) then some "panic:solid_is_true_outside_of_bounds" else
  let quadStrs := sortStrs <| qs.map fun q =>
    ename q.1 ++ ":" ++ ">".intercalate ((rotateToMin (q.2.getD [])).map cname)
  let crossStrs := sortStrs <| qs.map fun q =>
    ename q.1 ++ ":1:" ++ (if lab q.1.x q.1.y q.1.z then "+" else "-")
  let orientOk := qs.all fun q => quadOrientedOk nx ny nz lab q.1
  if !orientOk then some "model-quad-orientation-inconsistent" else
  let lst := fun (l : List String) => if l.isEmpty then "-" else ";".intercalate l
  let interior := if wantInterior == 1 then "0/1" else "-"
  if repair then some s!"cross={lst crossStrs} interior={interior}"
  else some s!"quads={lst quadStrs} incell=1 cross={lst crossStrs} interior={interior}"


/-- consecutive duplicates removed (the edge lists are generated in lattice order) -/
def dedupPairs : List (Nat × Nat) → List (Nat × Nat)
  | a :: b :: r => if a == b then dedupPairs (b :: r) else a :: dedupPairs (b :: r)
  | l => l

def dedupTriples : List (Nat × Nat × Nat) → List (Nat × Nat × Nat)
  | a :: b :: r => if a == b then dedupTriples (b :: r) else a :: dedupTriples (b :: r)
  | l => l

/-! ### the wrappers: `MarchingCubesConj` / `MarchingSquaresConj`, `MarchingSquaresC2F` / `MarchingCubesC2F` -/

open M3d.Tf in
/-- `n` transforms `T dx dy dz | S s | V sx sy sz | M a0 … a8` (row-major, as `Matrix3`) -/
def parseXfs3 : Nat → List String → Option (List (Xf Rat) × List String)
  | 0, ws => some ([], ws)
  | n + 1, ws => do
    let (x, r) ← (match ws with
      | "T" :: r => do let (p, r) ← takeRats 3 r; some (Xf.translate ⟨p[0]!, p[1]!, p[2]!⟩, r)
      | "S" :: r => do let (p, r) ← takeRats 1 r; some (Xf.scale p[0]!, r)
      | "V" :: r => do let (p, r) ← takeRats 3 r; some (Xf.vecScale ⟨p[0]!, p[1]!, p[2]!⟩, r)
      | "M" :: r => do
          let (p, r) ← takeRats 9 r
          some (Xf.matrix ⟨p[0]!, p[1]!, p[2]!, p[3]!, p[4]!, p[5]!, p[6]!, p[7]!, p[8]!⟩, r)
      | _ => none : Option (Xf Rat × List String))
    let (xs, r) ← parseXfs3 n r
    some (x :: xs, r)

open M3d.Tf in
def parseXfs2 : Nat → List String → Option (List (Xf2 Rat) × List String)
  | 0, ws => some ([], ws)
  | n + 1, ws => do
    let (x, r) ← (match ws with
      | "T" :: r => do let (p, r) ← takeRats 2 r; some (Xf2.translate ⟨p[0]!, p[1]!⟩, r)
      | "S" :: r => do let (p, r) ← takeRats 1 r; some (Xf2.scale p[0]!, r)
      | "V" :: r => do let (p, r) ← takeRats 2 r; some (Xf2.vecScale ⟨p[0]!, p[1]!⟩, r)
      | "M" :: r => do
          let (p, r) ← takeRats 4 r
          some (Xf2.matrix ⟨p[0]!, p[1]!, p[2]!, p[3]!⟩, r)
      | _ => none : Option (Xf2 Rat × List String))
    let (xs, r) ← parseXfs2 n r
    some (x :: xs, r)

/-- labels of the `nx·ny·nz` lattice points, x fastest -/
def labelArray3 (lab : Nat → Nat → Nat → Bool) (nx ny nz : Nat) : Array Bool :=
  ((List.range nz).flatMap fun z => (List.range ny).flatMap fun y => (List.range nx).map fun x => lab x y z).toArray

def labelArray2 (lab : Nat → Nat → Bool) (nx ny : Nat) : Array Bool :=
  ((List.range ny).flatMap fun y => (List.range nx).map fun x => lab x y).toArray

/-- the lattice edges whose ends are labelled differently, as (lower end index, axis) -/
def signEdges3 (b : Array Bool) (nx ny nz : Nat) : List ((Nat × Nat × Nat) × Nat) :=
  let lab := fun (x y z : Nat) => b.getD (x + nx * (y + ny * z)) false
  (List.range nz).flatMap fun z => (List.range ny).flatMap fun y => (List.range nx).flatMap fun x =>
    (if x + 1 < nx && lab x y z != lab (x+1) y z then [((x, y, z), 0)] else []) ++
    (if y + 1 < ny && lab x y z != lab x (y+1) z then [((x, y, z), 1)] else []) ++
    (if z + 1 < nz && lab x y z != lab x y (z+1) then [((x, y, z), 2)] else [])

def signEdges2 (b : Array Bool) (nx ny : Nat) : List ((Nat × Nat) × Nat) :=
  let lab := fun (x y : Nat) => b.getD (x + nx * y) false
  (List.range ny).flatMap fun y => (List.range nx).flatMap fun x =>
    (if x + 1 < nx && lab x y != lab (x+1) y then [((x, y), 0)] else []) ++
    (if y + 1 < ny && lab x y != lab x (y+1) then [((x, y), 1)] else [])

/-- `MarchingCubesSearch` on the lattice `origin + i·d` with the given labels: one vertex per
sign-changing lattice edge, refined by the model of `mcSearchPoint` (edge recovered by the model of
`LookupEdgePoint` from the midpoint).  `none` = the Go code panics ("vertex not on edge"). -/
def searchVerts3 (C : List Rat → Bool) (origin : List Rat) (d : Rat) (b : Array Bool) (nx ny nz iters : Nat) :
    Option (List (List Rat)) :=
  let pt := fun (x y z : Nat) =>
    [origin.getD 0 0 + (x : Rat) * d, origin.getD 1 0 + (y : Rat) * d, origin.getD 2 0 + (z : Rat) * d]
  (signEdges3 b nx ny nz).mapM fun e => do
    let p := e.1
    let a := pt p.1 p.2.1 p.2.2
    let m := setAt a e.2 (a.getD e.2 0 + d / 2)
    let (k, lo, hi) ← Bisect.lookupEdgePoint origin d m
    let res := Bisect.mcSearchPoint (fun v => C (setAt m k v)) lo hi iters
    some (setAt m k res.1)

/-- `MarchingSquaresSearch` (`mn` = the solid's `Min()`, which `msSearch` measures from). -/
def searchVerts2 (C : List Rat → Bool) (mn origin : List Rat) (d : Rat) (b : Array Bool) (nx ny iters : Nat) :
    Option (List (List Rat)) :=
  let pt := fun (x y : Nat) => [origin.getD 0 0 + (x : Rat) * d, origin.getD 1 0 + (y : Rat) * d]
  (signEdges2 b nx ny).mapM fun e => do
    let p := e.1
    let a := pt p.1 p.2
    let m := setAt a e.2 (a.getD e.2 0 + d / 2)
    if iters == 0 then some m else
    let (k, lo, hi) ← Bisect.msLookup mn d m
    let normalPos := C (setAt m k lo)
    some (setAt m k (Bisect.msSearchPoint (fun v => C (setAt m k v)) lo hi normalPos iters))

open M3d.Tf M3d.MarchingGlue in
/-- `mcj iters delta lo(3) hi(3) n <transforms> <csg>`: `MarchingCubesConj`.  The lattice is that of
`TransformSolid(JoinedTransform(xforms), s)` (model: `conjSolid3`, bounds through `applyBounds`, lattice
through `spacerCount`); every refined vertex is mapped back by `conjBack3` — by `conj_vertex_round_trip`
the unique point that the joined transform sends to the lattice-space vertex. -/
def handleMcj (ws : List String) : Option String := do
  let iters ← (← ws[0]?).toNat?
  let (o, r) ← takeRats 7 (ws.drop 1)
  let d := o[0]!
  let n ← (← r[0]?).toNat?
  let (ts, r) ← parseXfs3 n (r.drop 1)
  let (t, _) ← parseCsg r
  let S : Solid Rat := ⟨⟨o[1]!, o[2]!, o[3]!⟩, ⟨o[4]!, o[5]!, o[6]!⟩, fun c => contains t c.x c.y c.z⟩
  let TS := conjSolid3 ts S
  let origin := [TS.lo.x - d, TS.lo.y - d, TS.lo.z - d]
  let nx := spacerCount TS.lo.x TS.hi.x d
  let ny := spacerCount TS.lo.y TS.hi.y d
  let nz := spacerCount TS.lo.z TS.hi.z d
  let C := fun (c : List Rat) => TS.contains ⟨c.getD 0 0, c.getD 1 0, c.getD 2 0⟩
  let b := labelArray3 (fun x y z => C [origin.getD 0 0 + (x : Rat) * d, origin.getD 1 0 + (y : Rat) * d,
    origin.getD 2 0 + (z : Rat) * d]) nx ny nz
  match searchVerts3 C origin d b nx ny nz iters with
  | none => some "panic:vertex_not_on_edge"
  | some vs =>
    let out := sortStrs <| vs.map fun v =>
      let w := conjBack3 ts ⟨v.getD 0 0, v.getD 1 0, v.getD 2 0⟩
      show3 [w.x, w.y, w.z]
    some s!"n={out.length} side=1 near=1 orient=1 {";".intercalate out}"

open M3d.Tf M3d.MarchingGlue in
/-- `msj iters delta lo(2) hi(2) n <transforms> <csg>`: `MarchingSquaresConj`. -/
def handleMsj (ws : List String) : Option String := do
  let iters ← (← ws[0]?).toNat?
  let (o, r) ← takeRats 5 (ws.drop 1)
  let d := o[0]!
  let n ← (← r[0]?).toNat?
  let (ts, r) ← parseXfs2 n (r.drop 1)
  let (t, _) ← parseCsg r
  let S : Solid2 Rat := ⟨⟨o[1]!, o[2]!⟩, ⟨o[3]!, o[4]!⟩, fun c => contains t c.x c.y 0⟩
  let TS := conjSolid2 ts S
  let origin := [TS.lo.x - d, TS.lo.y - d]
  let nx := spacerCount TS.lo.x TS.hi.x d
  let ny := spacerCount TS.lo.y TS.hi.y d
  let C := fun (c : List Rat) => TS.contains ⟨c.getD 0 0, c.getD 1 0⟩
  let b := labelArray2 (fun x y => C [origin.getD 0 0 + (x : Rat) * d, origin.getD 1 0 + (y : Rat) * d]) nx ny
  match searchVerts2 C [TS.lo.x, TS.lo.y] origin d b nx ny iters with
  | none => some "panic:vertex_not_on_edge"
  | some vs =>
    let out := sortStrs <| vs.map fun v =>
      let w := conjBack2 ts ⟨v.getD 0 0, v.getD 1 0⟩
      show3 [w.x, w.y]
    some s!"n={out.length} side=1 near=1 orient=1 {";".intercalate out}"

open M3d.MarchingGlue in
/-- `c2f2 iters minx miny maxx maxy small big extra NX NY bits <csg>`: `MarchingSquaresC2F`.  The driver
builds the model's coarse mesh (vertices `W`), re-evaluates the hypothesis of `c2f_ms_filter_sound` — every
fine lattice point from which an edge with differently labelled ends starts has a vertex of `W` within
`extra + big` (max-norm) — and then answers what the property demands: the plain fine mesh of
`MarchingSquaresSearch` (one refined vertex per sign-changing fine lattice edge). -/
def handleC2f2 (ws : List String) : Option String := do
  let iters ← (← ws[0]?).toNat?
  let (o, r) ← takeRats 7 (ws.drop 1)
  let nx ← (← r[0]?).toNat?; let ny ← (← r[1]?).toNat?
  let b := bitsOf (← r[2]?)
  let (t, _) ← parseCsg (r.drop 3)
  let small := o[4]!; let big := o[5]!; let extra := o[6]!
  if b.size ≠ nx * ny then none
  if nx ≠ spacerCount o[0]! o[2]! small || ny ≠ spacerCount o[1]! o[3]! small then some "spacer-differs-from-model" else
  let mn := [o[0]!, o[1]!]
  let C := fun (c : List Rat) => contains t (c.getD 0 0) (c.getD 1 0) 0
  let cnx := spacerCount o[0]! o[2]! big
  let cny := spacerCount o[1]! o[3]! big
  let corigin := [o[0]! - big, o[1]! - big]
  let cb := labelArray2 (fun x y => C [corigin.getD 0 0 + (x : Rat) * big, corigin.getD 1 0 + (y : Rat) * big]) cnx cny
  match searchVerts2 C mn corigin big cb cnx cny iters with
  | none => some "panic:vertex_not_on_edge"
  | some W =>
    let Wp := W.map fun w => (w.getD 0 0, w.getD 1 0)
    let origin := [o[0]! - small, o[1]! - small]
    let starts := dedupPairs ((signEdges2 b nx ny).map (·.1))
    let seen := starts.all fun p =>
      nearVertex2 Wp (extra + big) (origin.getD 0 0 + (p.1 : Rat) * small) (origin.getD 1 0 + (p.2 : Rat) * small)
    if !seen then some "hypothesis-not-met:a-feature-is-further-than-extraSpace+bigDelta-from-the-coarse-mesh" else
    match searchVerts2 C mn origin small b nx ny iters with
    | none => some "panic:vertex_not_on_edge"
    | some vs =>
      let out := sortStrs (vs.map show3)
      some s!"n={out.length} side=1 near=1 {";".intercalate out}"

open M3d.MarchingGlue in
/-- `c2f3 iters min(3) max(3) small big extra NX NY NZ bits <csg>`: `MarchingCubesC2F`. -/
def handleC2f3 (ws : List String) : Option String := do
  let iters ← (← ws[0]?).toNat?
  let (o, r) ← takeRats 9 (ws.drop 1)
  let nx ← (← r[0]?).toNat?; let ny ← (← r[1]?).toNat?; let nz ← (← r[2]?).toNat?
  let b := bitsOf (← r[3]?)
  let (t, _) ← parseCsg (r.drop 4)
  let small := o[6]!; let big := o[7]!; let extra := o[8]!
  if b.size ≠ nx * ny * nz then none
  if nx ≠ spacerCount o[0]! o[3]! small || ny ≠ spacerCount o[1]! o[4]! small || nz ≠ spacerCount o[2]! o[5]! small then
    some "spacer-differs-from-model" else
  let C := fun (c : List Rat) => contains t (c.getD 0 0) (c.getD 1 0) (c.getD 2 0)
  let cnx := spacerCount o[0]! o[3]! big
  let cny := spacerCount o[1]! o[4]! big
  let cnz := spacerCount o[2]! o[5]! big
  let corigin := [o[0]! - big, o[1]! - big, o[2]! - big]
  let cb := labelArray3 (fun x y z => C [corigin.getD 0 0 + (x : Rat) * big, corigin.getD 1 0 + (y : Rat) * big,
    corigin.getD 2 0 + (z : Rat) * big]) cnx cny cnz
  match searchVerts3 C corigin big cb cnx cny cnz iters with
  | none => some "panic:vertex_not_on_edge"
  | some W =>
    let Wp := W.map fun w => (w.getD 0 0, w.getD 1 0, w.getD 2 0)
    let origin := [o[0]! - small, o[1]! - small, o[2]! - small]
    let starts := dedupTriples ((signEdges3 b nx ny nz).map (·.1))
    let seen := starts.all fun p =>
      nearVertex3 Wp (extra + big) (origin.getD 0 0 + (p.1 : Rat) * small) (origin.getD 1 0 + (p.2.1 : Rat) * small)
        (origin.getD 2 0 + (p.2.2 : Rat) * small)
    if !seen then some "hypothesis-not-met:a-feature-is-further-than-extraSpace+bigDelta-from-the-coarse-mesh" else
    match searchVerts3 C origin small b nx ny nz iters with
    | none => some "panic:vertex_not_on_edge"
    | some vs =>
      let out := sortStrs (vs.map show3)
      some s!"n={out.length} side=1 near=1 {";".intercalate out}"


/-! ### search refinement on the library's own floating-point lattice (`mcl` / `msl`) -/

def hexRat (s : String) : Option Rat := do ratOfBits (← parseHex s).toUInt64

def takeHexRats (n : Nat) (ws : List String) : Option (List Rat × List String) := do
  let rs ← (ws.take n).mapM hexRat
  if rs.length ≠ n then none else some (rs, ws.drop n)

/-- only boxes and axis half-spaces (`Contains` = comparisons of doubles, exact) -/
def boxesOnly : Csg → Bool
  | .box _ => true
  | .half _ => true
  | .or a b => boxesOnly a && boxesOnly b
  | .and a b => boxesOnly a && boxesOnly b
  | .sub a b => boxesOnly a && boxesOnly b
  | _ => false

/-- the face coordinates of the solid on axis `k`: between two consecutive ones the classification along a
line parallel to that axis is constant -/
def faceCoords (k : Nat) : Csg → List Rat
  | .box p => [p[k]!, p[k + 3]!]
  | .half p => if p[0]! == (k : Rat) then [p[2]!] else []
  | .or a b => faceCoords k a ++ faceCoords k b
  | .and a b => faceCoords k a ++ faceCoords k b
  | .sub a b => faceCoords k a ++ faceCoords k b
  | _ => []

def dedupRats : List Rat → List Rat
  | a :: b :: r => if a == b then dedupRats (b :: r) else a :: dedupRats (b :: r)
  | l => l

def indexOfRat (xs : List Rat) (v : Rat) : Option Nat :=
  let i := xs.findIdx (· == v)
  if i < xs.length then some i else none

/-- `i` with `xs[i] < v < xs[i+1]` -/
def cellOfRat (xs : List Rat) (v : Rat) : Option Nat :=
  let i := (xs.zip (xs.drop 1)).findIdx fun p => decide (p.1 < v) && decide (v < p.2)
  if i + 1 < xs.length then some i else none

def pow2 (n : Nat) : Rat := ((2 ^ n : Nat) : Rat)

/-- `mcl iters interior δ Min(3) NX NY NZ xs… ys… zs… <csg> V n <vertices (and interior points)>` (`msl`: two axes):
the REAL lattice arrays, the solid and the REAL output of `MarchingCubesSearch` / `…Interior` /
`…SearchFilter` (2-D twins), all as the exact rational values of the doubles.  The answer is what the
property demands, evaluated exactly: `n=` the number of lattice edges whose ends are classified differently,
`bad=-` iff every vertex lies on a lattice edge, the edges carrying a vertex are exactly those edges, one
vertex each, every vertex is within `δ/2^iters` of a point of its edge at which the classification changes
(`SearchSpec.nearTransition` over the face coordinates of the solid on that axis), and every interior point
is contained.  (`mc_vertex_iff_sign_change`, `mc_one_vertex_per_edge`,
`search_stored_lattice_near_transition`, `ms_search_recomputed_ends_near_transition`,
`near_transition_decides`, `interior_point_contained`.) -/
def handleLat (dim : Nat) (ws : List String) : Option String := do
  let iters ← (← ws[0]?).toNat?
  let interior ← (← ws[1]?).toNat?
  let delta ← hexRat (← ws[2]?)
  let (mn, rest) ← takeHexRats dim (ws.drop 3)
  let ns ← (rest.take dim).mapM (·.toNat?)
  if ns.length ≠ dim then none
  let rec takeAxes : List Nat → List String → Option (List (List Rat) × List String)
    | [], r => some ([], r)
    | n :: more, r => do
      let (a, r) ← takeHexRats n r
      let (as, r) ← takeAxes more r
      some (a :: as, r)
  let (axes, r) ← takeAxes ns (rest.drop dim)
  let (t, r) ← parseCsg r
  if !boxesOnly t then none
  let C := fun (p : List Rat) => contains t (p.getD 0 0) (p.getD 1 0) (p.getD 2 0)
  let nx := ns.getD 0 1; let ny := ns.getD 1 1; let nz := if dim == 3 then ns.getD 2 1 else 1
  let pt := fun (x y z : Nat) =>
    [(axes.getD 0 []).getD x 0, (axes.getD 1 []).getD y 0] ++ (if dim == 3 then [(axes.getD 2 []).getD z 0] else [])
  let b := labelArray3 (fun x y z => C (pt x y z)) nx ny nz
  -- sign-changing lattice edges as (axis, [x, y, z])
  let want : List (Nat × List Nat) := (signEdges3 b nx ny nz).map fun e => (e.2, [e.1.1, e.1.2.1, e.1.2.2])
  let ename := fun (e : Nat × List Nat) => s!"{e.1}." ++ ".".intercalate ((e.2.take dim).map toString)
  let w := delta / pow2 iters
  let breaks := fun (k : Nat) (lo hi : Rat) => dedupRats (sortBy (fun a b => decide (a < b))
    (lo :: hi :: (faceCoords k t).filter fun c => decide (lo < c) && decide (c < hi)))
  -- the model on the real lattice: for every sign-changing edge the model of the edge lookup, applied to the
  -- edge's midpoint, must return the STORED ends (3-D: `lookup_edge_arr_recovers`) or ends within `η` of them
  -- (2-D, `ms_lookup_drift`; `η` is measured and must satisfy the hypothesis of
  -- `ms_search_recomputed_ends_near_transition`), and the model's refined vertex must pass the check
  -- (`search_stored_lattice_near_transition`, `ms_search_recomputed_ends_near_transition`)
  let modelBad : List String := want.filterMap fun e =>
    let k := e.1
    let xs := axes.getD k []
    let i := e.2.getD k 0
    let lo := xs.getD i 0; let hi := xs.getD (i + 1) 0
    let p0 := pt (e.2.getD 0 0) (e.2.getD 1 0) (e.2.getD 2 0)
    let m := p0.set k ((lo + hi) / 2)
    let P := fun (x : Rat) => C (m.set k x)
    let ts := breaks k lo hi
    if dim == 3 then
      if SearchSpec.lookupEdgeArr axes m != some (k, lo, hi) then
        some s!"{ename e}:model-lookup-does-not-return-the-stored-ends"
      else if !SearchSpec.nearTransition P ts (Bisect.mcSearchPoint P lo hi iters).1 w then
        some s!"{ename e}:model-vertex-fails-the-check"
      else none
    else
      match Bisect.msLookup mn delta m with
      | some (k', lo', hi') =>
        let η := max (if lo' < lo then lo - lo' else lo' - lo) (if hi' < hi then hi - hi' else hi' - hi)
        if k' != k || !(decide (η ≤ (hi' - lo') / pow2 iters)) || !(decide ((hi' - lo') / pow2 (iters + 1) + η ≤ w)) then
          some s!"{ename e}:model-window-ends-too-far-from-the-stored-ends"
        else if !SearchSpec.nearTransition P ts (Bisect.msSearchPoint P lo' hi' (P lo) iters) w then
          some s!"{ename e}:model-vertex-fails-the-check"
        else none
      | none => some s!"{ename e}:model-window-finds-no-axis"
  if !modelBad.isEmpty then some s!"n={want.length} bad={";".intercalate (modelBad.take 3)}" else
  match r with
  | "V" :: cnt :: coords =>
    let n ← cnt.toNat?
    let per := if interior == 1 then 2 * dim else dim
    let (vals, _) ← takeHexRats (n * per) coords
    -- one vertex: its edge, or a complaint
    let one : List Rat → (Option (Nat × List Nat)) × List String := fun rec =>
      let v := rec.take dim
      let ip := rec.drop dim
      let idx := (List.range dim).map fun k => indexOfRat (axes.getD k []) (v.getD k 0)
      let offs := (List.range dim).filter fun k => (idx.getD k none).isNone
      match offs with
      | [k] =>
        let xs := axes.getD k []
        match cellOfRat xs (v.getD k 0) with
        | none => (none, ["vertex-outside-the-lattice"])
        | some i =>
          let lo := xs.getD i 0; let hi := xs.getD (i + 1) 0
          let e : Nat × List Nat := (k, ((List.range 3).map fun j => if j == k then i else (idx.getD j none).getD 0))
          let P := fun (x : Rat) => C (v.set k x)
          let ts := breaks k lo hi
          let far := if SearchSpec.nearTransition P ts (v.getD k 0) w then [] else
            [s!"{ename e}:no-transition-within-delta/2^iters-of-the-vertex"]
          -- "a nearby point which is known to be contained within the solid": containment is what is demanded
          let inb := if interior != 1 || C ip then [] else [s!"{ename e}:interior-point-not-contained"]
          (some e, far ++ inb)
      | [] => (none, ["vertex-on-a-lattice-point"])
      | _ => (none, ["vertex-off-the-lattice-lines"])
    let rec chunks : Nat → List Rat → List (List Rat)
      | 0, _ => []
      | m + 1, l => l.take per :: chunks m (l.drop per)
    let rs := (chunks n vals).map one
    let got := rs.filterMap (·.1)
    let complaints := rs.flatMap (·.2)
    let names := sortStrs (got.map ename)
    let wantNames := sortStrs (want.map ename)
    let rec dups : List String → List String
      | a :: c :: r => if a == c then [s!"{a}:two-vertices-on-one-edge"] else dups (c :: r)
      | _ => []
    let missing := (wantNames.filter fun e => !names.contains e).map (· ++ ":sign-changing-edge-without-vertex")
    let extra := (dedupSorted names |>.filter fun e => !wantNames.contains e).map (· ++ ":vertex-on-an-edge-whose-ends-agree")
    let all := complaints ++ dups names ++ missing ++ extra
    let bad := if all.isEmpty then "-" else ";".intercalate (all.take 4)
    -- a complaint makes the line differ from the implementation's `n=<vertices> bad=-`
    some s!"n={want.length} bad={bad}"
  | _ => some s!"n={want.length} bad=-"

def handleAll (ws : List String) : Option String :=
  match ws with
  | "mcv" :: rest => handleMcv false rest
  | "msv" :: rest => handleMsv false rest
  | "mcf" :: rest => handleMcv true rest
  | "msf" :: rest => handleMsv true rest
  | "mcs" :: rest => handleMcs rest
  | "mss" :: rest => handleMss rest
  | "mcl" :: rest => handleLat 3 rest
  | "msl" :: rest => handleLat 2 rest
  | "bis" :: rest => handleBis rest
  | "bis2" :: rest => handleBis2 rest
  | "dcidx" :: rest => handleDcIdx rest
  | "dcsz" :: rest => handleDcSz rest
  | "dc" :: rest => handleDc false rest
  | "dcr" :: rest => handleDc true rest
  | "mcj" :: rest => handleMcj rest
  | "msj" :: rest => handleMsj rest
  | "c2f2" :: rest => handleC2f2 rest
  | "c2f3" :: rest => handleC2f3 rest
  | _ => none

end M3d.Drv.C02
