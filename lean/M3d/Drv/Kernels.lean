import M3d.Basic
import M3d.Gen.Kernels
/-!
Line-protocol handler shared by the properties that use the regenerated kernels: kind
`gk <root> <hex args…>` runs the GENERATED definition (`M3d/Gen/Kernels.lean`, instantiated at `Float`)
of the named Go function on the given arguments and prints the float leaves of the result bit for bit
(zeros without sign, NaN as `nan`).  The Go harness calls the real function on the same arguments.
Core-only.
-/
namespace M3d.Drv.Kernels
open M3d

def showF (x : Float) : String :=
  if x.isNaN then "nan" else if x == 0 then "0000000000000000" else hexOfFloat x

def handle (ws : List String) : Option String :=
  match ws with
  | name :: args => do
      let xs ← parseFloats args
      match M3d.Gen.Kernels.kernelTable.find? (fun e => e.1 == name) with
      | some (_, n, f) =>
        if xs.length ≠ n then none
        else some (showList showF (f xs.toArray))
      | none =>
        -- variable-shape entry: slices as length + elements, ints / bools as floats
        let (_, f) ← M3d.Gen.Kernels.kernelTableV.find? (fun e => e.1 == name)
        some (showList showF (f xs.toArray))
  | _ => none

end M3d.Drv.Kernels
