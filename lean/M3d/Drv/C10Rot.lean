import M3d.Basic
import M3d.Model.ArapRot
import M3d.Drv.C10Lin
/-!
`araprot3` of the C10 driver (core-only): the REAL `ARAP.rotations` (verif hook) against
`M3d.ArapRot`.  Per vertex the line carries the covariance matrix the harness formed with the
operations of `ARAP.rotations`, the `u s v` the real `Matrix3.SVD` returned for it, and the rotation
the real `ARAP.rotations` returned.

* `covariance(bitwise)`: `M3d.ArapRot.covRow` at `Float` from the ROTATION weight table = the matrix
  the SVD was given (validates the harness's copy of the accumulation against the model);
* `rotation-repair(bitwise)`: `M3d.ArapRot.rotOf u v` at `Float` = the real rotation, bit for bit
  (faithful model: `v u^T`, column 2 of `u` negated when the determinant is negative);
* `rotation-is-proper`, `rotation-maps-major-singular-vectors`: decided EXACTLY, at `Rat`, on the real
  outputs: `det rot > 0` and `(rot u_k) · v_k > 0` for `k = 0` (`k = 1`) whenever `s_0` (`s_1`) is
  separated from `s_2` — `M3d.C10.arap_rotation_repair_maps_major_singular_vectors`: for orthogonal
  `u`, `v` the rotation is orthogonal with determinant 1 and `rot u_k = v_k` for `k = 0, 1` (both
  products are exactly 1); negating another column than the one of the smallest singular value
  makes one of them -1.  Only evaluated when the real `u`, `v` are orthogonal to 1/4 (a degenerate
  covariance has no SVD to speak of);
* `rotation-of-rigid-image-is-R` (probes `rigid`, `rigidexact`; rows with non-negative weights and
  `s_1` separated from 0, i.e. a one-ring that is not a line): `trace(R^T rot) > 1`, exactly at `Rat` —
  `M3d.C10.arap_best_fit_rotation_of_rigid_image` says `rot = R` (trace 3); a half-turn off gives -1.
-/
namespace M3d.Drv.C10Rot
open M3d M3d.MeshOps M3d.ArapLin M3d.ArapRot M3d.Drv.C10Lin

def meq (a b : Mat3 Float) : Bool :=
  feq a.m0 b.m0 && feq a.m1 b.m1 && feq a.m2 b.m2 && feq a.m3 b.m3 && feq a.m4 b.m4 && feq a.m5 b.m5 &&
  feq a.m6 b.m6 && feq a.m7 b.m7 && feq a.m8 b.m8

def entries (m : Mat3 Rat) : List Rat := [m.m0, m.m1, m.m2, m.m3, m.m4, m.m5, m.m6, m.m7, m.m8]

def rabs (x : Rat) : Rat := if x < 0 then -x else x

/-- `m^T m` is the identity to 1/4, entry by entry. -/
def nearOrth (m : Mat3 Rat) : Bool :=
  ((entries (mul (transpose m) m)).zip (entries (one : Mat3 Rat))).all fun q => decide (rabs (q.1 - q.2) < 1 / 4)

def trace (m : Mat3 Rat) : Rat := m.m0 + m.m4 + m.m8

/-- The exact clauses for one vertex; `none` = not applicable (non-finite values). -/
def exactChecks (rigidR : Option (Mat3 Float)) (wNonneg : Bool) (u s v rot : Mat3 Float) : List (String × Bool) :=
  let r : Option (List (String × Bool)) := do
    let uQ ← mRat u
    let sQ ← mRat s
    let vQ ← mRat v
    let rQ ← mRat rot
    if !(nearOrth uQ && nearOrth vQ) then return []
    let s0 := sQ.m0
    let s1 := sQ.m4
    let s2 := sQ.m8
    let gap := s0 / 1048576
    let k0 := !(decide (s0 - s2 > gap)) || decide (ArapLin.dot (Mat3.mulCol rQ (col uQ 0)) (col vQ 0) > 0)
    let k1 := !(decide (s1 - s2 > gap)) || decide (ArapLin.dot (Mat3.mulCol rQ (col uQ 1)) (col vQ 1) > 0)
    let base := [("rotation-is-proper", decide (ArapRot.det rQ > 0)), ("rotation-maps-major-singular-vectors", k0 && k1)]
    match rigidR with
    | some R =>
      let RQ ← mRat R
      if wNonneg && decide (s1 > gap) && decide (s2 ≥ 0) then
        return base ++ [("rotation-of-rigid-image-is-R", decide (trace (mul (transpose RQ) rQ) > 1))]
      else return base
    | none => return base
  r.getD []

def handle (params : List String) : Option String := do
  let n ← keyVal "n" params
  let mode ← (tagged "mo" params).head?
  let p ← vecList (← (tagged "p" params).head?)
  let y ← vecList (← (tagged "y" params).head?)
  let nb ← ((← (tagged "nb" params).head?).splitOn ";").mapM natList
  let rw ← ((← (tagged "rw" params).head?).splitOn ";").mapM floatList
  let Cs ← matList (← (tagged "C" params).head?)
  let Us ← matList (← (tagged "U" params).head?)
  let Ss ← matList (← (tagged "S" params).head?)
  let Vs ← matList (← (tagged "V" params).head?)
  let rots ← matList (← (tagged "rot" params).head?)
  let Rm ← matList (← (tagged "R" params).head?)
  if p.length ≠ n || y.length ≠ n || nb.length ≠ n || rw.length ≠ n || Cs.length ≠ n || Us.length ≠ n ||
      Ss.length ≠ n || Vs.length ≠ n || rots.length ≠ n then none
  let rigidR : Option (Mat3 Float) := if mode == "rigid" || mode == "rigidexact" then Rm.head? else none
  let pA := p.toArray
  let yA := y.toArray
  let pF := fun i => pA.getD i zF
  let yF := fun i => yA.getD i zF
  let nbA := nb.toArray
  let rwA := rw.toArray
  let CA := Cs.toArray
  let UA := Us.toArray
  let SA := Ss.toArray
  let VA := Vs.toArray
  let rA := rots.toArray
  let shape := (List.range n).all fun i => (nbA.getD i []).length == (rwA.getD i []).length && (nbA.getD i []).all (· < n)
  if !shape then none
  let checks := (List.range n).flatMap fun i =>
    let row := (nbA.getD i []).zip (rwA.getD i [])
    let u := UA.getD i idF
    let v := VA.getD i idF
    let rot := rA.getD i idF
    let wNonneg := row.all fun nw => nw.2 >= 0
    [("covariance(bitwise)", meq (covRow pF yF i row) (CA.getD i idF)),
     ("rotation-repair(bitwise)", meq (rotOf u v) rot)] ++
    exactChecks rigidR wNonneg u (SA.getD i idF) v rot
  some (verdict checks)

end M3d.Drv.C10Rot
