import M3d.Basic
import M3d.Model.Prune
import M3d.Model.Box
import M3d.Model.Spatial
/-!
Line-protocol handler for C08 (spatial indexes).  Core-only.  See notes/C08.md for the grammar.

For every hierarchical query the handler runs the *faithful* model (the pruned traversal, with a
trace of the leaves it evaluates) and — when the case is flagged `sound` — also the *specification*
(linear scan over all leaves); if the two differ it prints `SPEC-DIFFERS …`, which can never equal
an implementation output.
-/
namespace M3d.Drv.C08
open M3d M3d.Prune M3d.Box M3d.Spatial

abbrev Q := Rat

/-- token cursor helpers -/
def takeRats (n : Nat) (ws : List String) : Option (List Q × List String) := do
  let xs ← (ws.take n).mapM parseRat
  if xs.length ≠ n then none else some (xs, ws.drop n)

def takeNat (ws : List String) : Option (Nat × List String) :=
  match ws with
  | w :: r => w.toNat?.map (·, r)
  | [] => none

def takeNats (n : Nat) (ws : List String) : Option (List Nat × List String) := do
  let xs ← (ws.take n).mapM (·.toNat?)
  if xs.length ≠ n then none else some (xs, ws.drop n)

def v3 (xs : List Q) (i : Nat) : V3 Q := ⟨xs.getD i 0, xs.getD (i+1) 0, xs.getD (i+2) 0⟩
def v2 (xs : List Q) (i : Nat) : V2 Q := ⟨xs.getD i 0, xs.getD (i+1) 0⟩

def showLo : Option Q → String | none => "-inf" | some q => showRat q
def showHi : Option Q → String | none => "+inf" | some q => showRat q

/-! ### prefilters -/

def handleSlab (dim : Nat) (full : Bool) (ws : List String) : Option String := do
  let (xs, _) ← takeRats (4 * dim) ws
  let r : Option Q × Option Q :=
    if dim = 3 then rayBounds3 (v3 xs 0) (v3 xs 3) ⟨v3 xs 6, v3 xs 9⟩
    else rayBounds2 (v2 xs 0) (v2 xs 2) ⟨v2 xs 4, v2 xs 6⟩
  let dec := s!"{boolStr (rayAdmits r)} {boolStr (segAdmits r)}"
  some (if full then s!"{showLo r.1} {showHi r.2} {dec}" else dec)

def handlePbd (dim : Nat) (ws : List String) : Option String := do
  let (xs, _) ← takeRats (3 * dim + 1) ws
  if dim = 3 then
    let c := v3 xs 0; let r := xs.getD 3 0; let b : Box3 Q := ⟨v3 xs 4, v3 xs 7⟩
    some s!"{showRat (ptBoxDistSq3 c b)} {boolStr (sphereTouches3 c r b)}"
  else
    let c := v2 xs 0; let r := xs.getD 2 0; let b : Box2 Q := ⟨v2 xs 3, v2 xs 5⟩
    some s!"{showRat (ptBoxDistSq2 c b)} {boolStr (sphereTouches2 c r b)}"

/-! ### grouping -/

def chunks (n : Nat) : Nat → List Nat → List (List Nat)
  | 0, _ => []
  | k + 1, xs => xs.take n :: chunks n k (xs.drop n)

def isPermOfRange (n : Nat) (xs : List Nat) : Bool :=
  xs.length == n && (List.range n).all (fun i => xs.count i == 1)

/-- `group <dim> <n> <dim*n ids> <n*2*dim rats>` → the output order of the faithful model. -/
def handleGroup (ws : List String) : Option String := do
  let (dim, ws) ← takeNat ws
  let (n, ws) ← takeNat ws
  let (ids, ws) ← takeNats (dim * n) ws
  let (xs, _) ← takeRats (n * 2 * dim) ws
  let sorted := chunks n dim ids
  let out :=
    if dim = 3 then
      let boxOf : Nat → Box3 Q := fun i => ⟨v3 xs (6 * i), v3 xs (6 * i + 3)⟩
      groupBounders (bestSplitAxis Box3.union boundsArea3 boxOf) (n + 1) sorted
    else
      let boxOf : Nat → Box2 Q := fun i => ⟨v2 xs (4 * i), v2 xs (4 * i + 2)⟩
      groupBounders (bestSplitAxis Box2.union boundsArea2 boxOf) (n + 1) sorted
  some (if out.isEmpty then "-" else showList toString out)

/-- shapes: `L i` | `N <a> <b>` -/
partial def parseBin : List String → Option (Shape Nat × List String)
  | "L" :: i :: r => i.toNat?.map fun i => (.leaf i, r)
  | "N" :: r => do
      let (a, r) ← parseBin r
      let (b, r) ← parseBin r
      some (.node a b, r)
  | _ => none

/-- `bvh <n> <shape>`: the leaves of the real BVH must be a permutation of the input. -/
def handleBvh (ws : List String) : Option String := do
  let (n, ws) ← takeNat ws
  let (t, _) ← parseBin ws
  some s!"perm={boolStr (isPermOfRange n t.leaves)} n={t.leaves.length}"

def showShape : Shape Nat → String
  | .leaf i => s!"L {i}"
  | .node a b => s!"N {showShape a} {showShape b}"

/-- `bvhx <dim> <n> <dim*n ids> <n*2*dim rats>` → the exact tree of `NewBVHAreaDensity` (faithful `newBVH` with the
real oracle `bvhSplit`: `areaDensityBVHSplit` on every axis + the axis choice), as `L i` | `N <a> <b>`. -/
def handleBvhx (ws : List String) : Option String := do
  let (dim, ws) ← takeNat ws
  let (n, ws) ← takeNat ws
  let (ids, ws) ← takeNats (dim * n) ws
  let (xs, _) ← takeRats (n * 2 * dim) ws
  let sorted := chunks n dim ids
  let cnt : Nat → Q := fun k => (k : Q)
  let t :=
    if dim = 3 then
      let boxOf : Nat → Box3 Q := fun i => ⟨v3 xs (6 * i), v3 xs (6 * i + 3)⟩
      newBVH (bvhSplit Box3.union boundsArea3 cnt boxOf) (n + 1) sorted
    else
      let boxOf : Nat → Box2 Q := fun i => ⟨v2 xs (4 * i), v2 xs (4 * i + 2)⟩
      newBVH (bvhSplit Box2.union boundsArea2 cnt boxOf) (n + 1) sorted
  some (match t with | none => "none" | some t => showShape t)

/-! ### joined colliders / objects -/

/-- forest shapes: `L i` | `J k <k shapes>` | `H m i1 … im` -/
partial def parseShape3 (flatten : Bool) (leaf : Nat → Leaf3 Q) :
    List String → Option (Forest (Leaf3 Q) (Box3 Q) × List String)
  | "L" :: i :: r => i.toNat?.map fun i => (.leaf (leaf i) .nil, r)
  | "H" :: m :: r => do
      let m ← m.toNat?
      let (ids, r) ← takeNats m r
      some (grouped flatten (·.box) Box3.union (ids.map leaf), r)
  | "J" :: k :: r => do
      let k ← k.toNat?
      let rec go (k : Nat) (r : List String) (acc : Forest (Leaf3 Q) (Box3 Q)) :
          Option (Forest (Leaf3 Q) (Box3 Q) × List String) :=
        match k with
        | 0 => some (acc, r)
        | k + 1 => do
            let (t, r) ← parseShape3 flatten leaf r
            go k r (Forest.append acc t)
      let (ch, r) ← go k r .nil
      some (newJoined flatten (·.box) Box3.union ch, r)
  | _ => none

partial def parseShape2 (leaf : Nat → Leaf2 Q) :
    List String → Option (Forest (Leaf2 Q) (Box2 Q) × List String)
  | "L" :: i :: r => i.toNat?.map fun i => (.leaf (leaf i) .nil, r)
  | "H" :: m :: r => do
      let m ← m.toNat?
      let (ids, r) ← takeNats m r
      some (grouped false (·.box) Box2.union (ids.map leaf), r)
  | "J" :: k :: r => do
      let k ← k.toNat?
      let rec go (k : Nat) (r : List String) (acc : Forest (Leaf2 Q) (Box2 Q)) :
          Option (Forest (Leaf2 Q) (Box2 Q) × List String) :=
        match k with
        | 0 => some (acc, r)
        | k + 1 => do
            let (t, r) ← parseShape2 leaf r
            go k r (Forest.append acc t)
      let (ch, r) ← go k r .nil
      some (newJoined false (·.box) Box2.union ch, r)
  | _ => none

/-- A shape made of `L i` and `J k <k shapes>` only is an n-ary BVH / a nest of joined colliders: it is
parsed into the bound-less forest that `bvhJoin` (theorems `nary_bvh_collider_wf`,
`nary_bvh_object_cast_eq_min`) converts.  `none` as soon as an `H` occurs. -/
partial def parseNBVH {ι : Type} (leaf : Nat → ι) : List String → Option (Forest ι Unit × List String)
  | "L" :: i :: r => i.toNat?.map fun i => (.leaf (leaf i) .nil, r)
  | "J" :: k :: r => do
      let k ← k.toNat?
      let rec go (k : Nat) (r : List String) (acc : Forest ι Unit) :
          Option (Forest ι Unit × List String) :=
        match k with
        | 0 => some (acc, r)
        | k + 1 => do
            let (t, r) ← parseNBVH leaf r
            go k r (Forest.append acc t)
      let (ch, r) ← go k r .nil
      some (.node () ch .nil, r)
  | _ => none

def hier3 (flatten : Bool) (leaf : Nat → Leaf3 Q) (ws : List String) : Option (Forest (Leaf3 Q) (Box3 Q)) :=
  match parseNBVH leaf ws with
  | some (t, _) => some (bvhJoin flatten (·.box) Box3.union t)
  | none => (parseShape3 flatten leaf ws).map (·.1)

def hier2 (leaf : Nat → Leaf2 Q) (ws : List String) : Option (Forest (Leaf2 Q) (Box2 Q)) :=
  match parseNBVH leaf ws with
  | some (t, _) => some (bvhJoin false (·.box) Box2.union t)
  | none => (parseShape2 leaf ws).map (·.1)

def showHit (h : Hit Q) : String := s!"{showRat h.scale}:{h.tag}"
def showHits (hs : List (Hit Q)) : String := s!"{hs.length}" ++ String.join (hs.map fun h => " " ++ showHit h)
/-- first-hit queries are compared by value (the ray parameter): with ties any closest leaf is correct -/
def showOptHit : Option (Hit Q) → String | none => "none" | some h => showRat h.scale
def showIds (xs : List Nat) : String := if xs.isEmpty then "-" else showList toString xs

/-- prefix of the admitted leaves up to and including the first that answers `true` -/
def untilTrue {ι : Type} (p : ι → Bool) : List ι → List ι
  | [] => []
  | x :: xs => if p x then [x] else x :: untilTrue p xs

/-- canned answer of one leaf for this line's query -/
inductive Ans where
  | hits (ss : List Q)
  | opt (s : Option Q)
  | flag (b : Bool)
  | ids (xs : List Nat)

def parseAns (q : String) (ws : List String) : Option (Ans × List String) :=
  match q with
  | "ray" => do
      let (k, ws) ← takeNat ws
      let (ss, ws) ← takeRats k ws
      some (.hits ss, ws)
  | "first" => do
      let (k, ws) ← takeNat ws
      if k = 0 then some (.opt none, ws) else do
        let (ss, ws) ← takeRats 1 ws
        some (.opt (some (ss.getD 0 0)), ws)
  | "tri" => do
      let (k, ws) ← takeNat ws
      let (xs, ws) ← takeNats k ws
      some (.ids xs, ws)
  | _ => do
      let (k, ws) ← takeNat ws
      some (.flag (k != 0), ws)

def ansHits (i : Nat) : Ans → List (Hit Q)
  | .hits ss => ss.zipIdx.map fun (s, j) => ⟨s, 1000 * i + j⟩
  | _ => []
def ansOpt (i : Nat) : Ans → Option (Hit Q)
  | .opt (some s) => some ⟨s, 1000 * i⟩
  | _ => none
def ansFlag : Ans → Bool
  | .flag b => b
  | _ => false
def ansIds : Ans → List Nat
  | .ids xs => xs
  | _ => []

def parseLeaves (dim : Nat) (q : String) : Nat → List String → List (List Q × Ans) →
    Option (List (List Q × Ans) × List String)
  | 0, ws, acc => some (acc.reverse, ws)
  | n + 1, ws, acc => do
      let (bx, ws) ← takeRats (2 * dim) ws
      let (a, ws) ← parseAns q ws
      parseLeaves dim q n ws ((bx, a) :: acc)

def nargs3 : String → Nat
  | "ray" => 6 | "first" => 6 | "sphere" => 4 | "seg" => 6 | "rect" => 6 | "tri" => 9 | _ => 0
def nargs2 : String → Nat
  | "ray" => 4 | "first" => 4 | "sphere" => 3 | "seg" => 4 | "rect" => 4 | _ => 0

def finish (trace sound : Bool) (res spec : String) (tr : List Nat) : String :=
  if sound && res != spec then s!"SPEC-DIFFERS faithful={res} spec={spec}"
  else s!"{res} ; {if trace then showIds tr else "-"}"

/-- `j3|o3 <q> <trace> <sound> <args> <n> <leaves> <shape>` -/
def handleJ3 (flatten : Bool) (ws : List String) : Option String := do
  let q ← ws.head?
  let ws := ws.drop 1
  let (tr, ws) ← takeNat ws
  let (snd, ws) ← takeNat ws
  let (a, ws) ← takeRats (nargs3 q) ws
  let (n, ws) ← takeNat ws
  let (ls, ws) ← parseLeaves 3 q n ws []
  -- A leaf is a FUNCTION of the query it is asked: the canned answer of the line belongs to the line's query
  -- `a`; asked anything else (a clipped box, a shortened segment, a moved ray, …) the leaf reports nothing.
  -- The synthetic leaves of the harness behave exactly like this.
  let leaf : Nat → Leaf3 Q := fun i =>
    let (bx, an) := ls.getD i ([], .flag false)
    { id := i, box := ⟨v3 bx 0, v3 bx 3⟩,
      ray := fun o d => if o = v3 a 0 ∧ d = v3 a 3 then ansHits i an else [],
      first := fun o d => if o = v3 a 0 ∧ d = v3 a 3 then ansOpt i an else none,
      sphere := fun c r => if c = v3 a 0 ∧ r = a.getD 3 0 then ansFlag an else false,
      seg := fun p p2 => if p = v3 a 0 ∧ p2 = v3 a 3 then ansFlag an else false,
      rect := fun r => if r = (⟨v3 a 0, v3 a 3⟩ : Box3 Q) then ansFlag an else false,
      tri := fun t1 t2 t3 => if t1 = v3 a 0 ∧ t2 = v3 a 3 ∧ t3 = v3 a 6 then ansIds an else [] }
  let f ← hier3 flatten leaf ws
  let items := f.items
  let fin := finish (tr != 0) (snd != 0)
  match q with
  | "ray" =>
      let o := v3 a 0; let d := v3 a 3
      let adm := fun (b : Box3 Q) => rayAdmits (rayBounds3 o d b)
      let hs := joinedRay3 o d f
      let res := s!"{joinedRayCount3 o d f} {showHits hs}"
      let sp := items.flatMap (fun l => l.ray o d)
      some (fin res s!"{sp.length} {showHits sp}" (f.collect adm (fun l => [l.id])))
  | "first" =>
      let o := v3 a 0; let d := v3 a 3
      let adm := fun (b : Box3 Q) => rayAdmits (rayBounds3 o d b)
      let res := showOptHit (joinedFirst3 o d f)
      let sp := items.foldl (fun s l => Forest.merge closer s (l.first o d)) none
      some (fin res (showOptHit sp) (f.collect adm (fun l => [l.id])))
  | "sphere" =>
      let c := v3 a 0; let r := a.getD 3 0
      let adm := fun (b : Box3 Q) => sphereTouches3 c r b
      let res := boolStr (joinedSphere3 c r f)
      let sp := boolStr (items.any (fun l => l.sphere c r))
      some (fin res sp ((untilTrue (fun l => l.sphere c r) (f.collect adm (fun l => [l]))).map (·.id)))
  | "seg" =>
      let p := v3 a 0; let p2 := v3 a 3
      let adm := fun (b : Box3 Q) => segAdmits (rayBounds3 p (p2.sub p) b)
      let res := boolStr (joinedSeg3 p p2 f)
      let sp := boolStr (items.any (fun l => l.seg p p2))
      some (fin res sp ((untilTrue (fun l => l.seg p p2) (f.collect adm (fun l => [l]))).map (·.id)))
  | "rect" =>
      let r : Box3 Q := ⟨v3 a 0, v3 a 3⟩
      let adm := fun (b : Box3 Q) => rectAdmits3 r b
      let res := boolStr (joinedRect3 r f)
      let sp := boolStr (items.any (fun l => l.rect r))
      some (fin res sp ((untilTrue (fun l => l.rect r) (f.collect adm (fun l => [l]))).map (·.id)))
  | "tri" =>
      let t1 := v3 a 0; let t2 := v3 a 3; let t3 := v3 a 6
      let adm := fun (b : Box3 Q) => triAdmits3 (triBox t1 t2 t3) b
      let res := showIds (joinedTri3 t1 t2 t3 f)
      let sp := showIds (items.flatMap (fun l => l.tri t1 t2 t3))
      some (fin res sp (f.collect adm (fun l => [l.id])))
  | _ => none

/-- `j2 <q> <trace> <sound> <args> <n> <leaves> <shape>` -/
def handleJ2 (ws : List String) : Option String := do
  let q ← ws.head?
  let ws := ws.drop 1
  let (tr, ws) ← takeNat ws
  let (snd, ws) ← takeNat ws
  let (a, ws) ← takeRats (nargs2 q) ws
  let (n, ws) ← takeNat ws
  let (ls, ws) ← parseLeaves 2 q n ws []
  -- leaves are functions of the query they are asked (see `handleJ3`)
  let leaf : Nat → Leaf2 Q := fun i =>
    let (bx, an) := ls.getD i ([], .flag false)
    { id := i, box := ⟨v2 bx 0, v2 bx 2⟩,
      ray := fun o d => if o = v2 a 0 ∧ d = v2 a 2 then ansHits i an else [],
      first := fun o d => if o = v2 a 0 ∧ d = v2 a 2 then ansOpt i an else none,
      sphere := fun c r => if c = v2 a 0 ∧ r = a.getD 2 0 then ansFlag an else false,
      seg := fun p p2 => if p = v2 a 0 ∧ p2 = v2 a 2 then ansFlag an else false,
      rect := fun r => if r = (⟨v2 a 0, v2 a 2⟩ : Box2 Q) then ansFlag an else false }
  let f ← hier2 leaf ws
  let items := f.items
  let fin := finish (tr != 0) (snd != 0)
  match q with
  | "ray" =>
      let o := v2 a 0; let d := v2 a 2
      let adm := fun (b : Box2 Q) => rayAdmits (rayBounds2 o d b)
      let hs := joinedRay2 o d f
      let res := s!"{joinedRayCount2 o d f} {showHits hs}"
      let sp := items.flatMap (fun l => l.ray o d)
      some (fin res s!"{sp.length} {showHits sp}" (f.collect adm (fun l => [l.id])))
  | "first" =>
      let o := v2 a 0; let d := v2 a 2
      let adm := fun (b : Box2 Q) => rayAdmits (rayBounds2 o d b)
      let res := showOptHit (joinedFirst2 o d f)
      let sp := items.foldl (fun s l => Forest.merge closer s (l.first o d)) none
      some (fin res (showOptHit sp) (f.collect adm (fun l => [l.id])))
  | "sphere" =>
      let c := v2 a 0; let r := a.getD 2 0
      let adm := fun (b : Box2 Q) => sphereTouches2 c r b
      let res := boolStr (joinedSphere2 c r f)
      let sp := boolStr (items.any (fun l => l.sphere c r))
      some (fin res sp ((untilTrue (fun l => l.sphere c r) (f.collect adm (fun l => [l]))).map (·.id)))
  | "seg" =>
      let p := v2 a 0; let p2 := v2 a 2
      let adm := fun (b : Box2 Q) => segAdmits (rayBounds2 p (p2.sub p) b)
      let res := boolStr (joinedSeg2 p p2 f)
      let sp := boolStr (items.any (fun l => l.seg p p2))
      some (fin res sp ((untilTrue (fun l => l.seg p p2) (f.collect adm (fun l => [l]))).map (·.id)))
  | "rect" =>
      let r : Box2 Q := ⟨v2 a 0, v2 a 2⟩
      let adm := fun (b : Box2 Q) => rectAdmits2 r b
      let res := boolStr (joinedRect2 r f)
      let sp := boolStr (items.any (fun l => l.rect r))
      some (fin res sp ((untilTrue (fun l => l.rect r) (f.collect adm (fun l => [l]))).map (·.id)))
  | _ => none

/-! ### meshDistFunc -/

/-- `d3|d2 <sound> <c> <n> <box dist>… <m> <ids…>`: faithful `meshDistFunc.Dist` on the halving
shape of `ids`; output = the distance found. -/
def handleDist (dim : Nat) (ws : List String) : Option String := do
  let (snd, ws) ← takeNat ws
  let (c, ws) ← takeRats dim ws
  let (n, ws) ← takeNat ws
  let (xs, ws) ← takeRats (n * (2 * dim + 1)) ws
  let (m, ws) ← takeNat ws
  let (ids, _) ← takeNats m ws
  let w := 2 * dim + 1
  let d : Nat → Q := fun i => xs.getD (w * i + 2 * dim) 0
  let shape ← halve ids
  let res : Option (Q × Nat) :=
    if dim = 3 then
      let boxOf : Nat → Box3 Q := fun i => ⟨v3 xs (w * i), v3 xs (w * i + 3)⟩
      (shape.toMDF boxOf Box3.union).dist (ptBoxDistSq3 (v3 c 0)) d none
    else
      let boxOf : Nat → Box2 Q := fun i => ⟨v2 xs (w * i), v2 xs (w * i + 2)⟩
      (shape.toMDF boxOf Box2.union).dist (ptBoxDistSq2 (v2 c 0)) d none
  let spec := scanDist d ids none
  let sh : Option (Q × Nat) → String := fun r => match r with | none => "none" | some (x, _) => showRat x
  if snd != 0 && sh res != sh spec then some s!"SPEC-DIFFERS faithful={sh res} spec={sh spec}"
  else some (sh res)

/-! ### CoordTree -/

/-- tree: `_` | `N <coords…> <axis> <lt> <ge>` -/
partial def parseKD (dim : Nat) : List String → Option (KD (List Q) × List String)
  | "_" :: r => some (.nil, r)
  | "N" :: r => do
      let (c, r) ← takeRats dim r
      let (ax, r) ← takeNat r
      let (l, r) ← parseKD dim r
      let (g, r) ← parseKD dim r
      some (.node c ax l g, r)
  | _ => none

def showPt (p : List Q) : String := ",".intercalate (p.map showRat)

def ptLt : List Q → List Q → Bool
  | [], [] => false
  | [], _ => true
  | _, [] => false
  | a :: as, b :: bs => a < b || (a == b && ptLt as bs)

def insSort (ds : List Q) : List Q := ds.foldl (fun acc x => insertSorted (fun a b => decide (a < b)) x acc) []

def decInv {P : Type} (coord : P → Nat → Q) : KD P → Bool
  | .nil => true
  | .node c ax l g =>
      l.slice.all (fun q => decide (coord q ax < coord c ax)) &&
      g.slice.all (fun q => !decide (coord q ax < coord c ax)) && decInv coord l && decInv coord g

/-- the queries, generic in the point type (instantiated at `V3 Rat` and `V2 Rat`) -/
def kdQuery {P : Type} [DecidableEq P] (coord : P → Nat → Q) (sq : P → P → Q) (mk : List Q → P)
    (_un : P → List Q) (dim : Nat) (ws : List String) : Option String :=
  match ws with
  | "build" :: ws => do
      let (n, ws) ← takeNat ws
      let (xs, ws) ← takeRats (n * dim) ws
      let (t, _) ← parseKD dim ws
      let pts := (List.range n).map fun i => (xs.drop (dim * i)).take dim
      let a := sortBy ptLt pts
      let b := sortBy ptLt t.slice
      some s!"inv={boolStr (decInv coord (t.map mk))} perm={boolStr (a == b)}"
  | "contains" :: ws => do
      let (p, ws) ← takeRats dim ws
      let (t, _) ← parseKD dim ws
      let t := t.map mk; let p := mk p
      let r := t.contains coord p
      let sp := t.slice.any (· == p)
      if r != sp then some s!"SPEC-DIFFERS faithful={boolStr r} spec={boolStr sp}" else some (boolStr r)
  | "nn" :: ws => do
      let (p, ws) ← takeRats dim ws
      let (t, _) ← parseKD dim ws
      let t := t.map mk; let p := mk p
      let r := t.nn coord sq p none
      let sp := scanNN sq p t.slice none
      match r, sp with
      | some (d, c), some (d', _) =>
          if d != d' then some s!"SPEC-DIFFERS faithful={showRat d} spec={showRat d'}"
          else
            let _ := c
            some (showRat d)
      | none, none => some "none"
      | _, _ => some "SPEC-DIFFERS"
  | "knn" :: ws => do
      let (k, ws) ← takeNat ws
      let (p, ws) ← takeRats dim ws
      let (t, _) ← parseKD dim ws
      let t := t.map mk; let p := mk p
      let r := t.KNN coord sq k p
      let sp := (insSort (t.slice.map (sq p))).take k
      if r.map (·.1) != sp then
        some s!"SPEC-DIFFERS faithful={showList showRat (r.map (·.1))} spec={showList showRat sp}"
      else some (if r.isEmpty then "-" else showList (fun x => showRat x.1) r)
  | "knntab" :: ws => do
      -- `knntab <m> (<k> <p>)*m <tree>`: all queries are issued, then all answers are read
      let (m, ws) ← takeNat ws
      let rec readQs (m : Nat) (ws : List String) (acc : List (Nat × P)) :
          Option (List (Nat × P) × List String) :=
        match m with
        | 0 => some (acc.reverse, ws)
        | m + 1 => do
            let (k, ws) ← takeNat ws
            let (p, ws) ← takeRats dim ws
            readQs m ws ((k, mk p) :: acc)
      let (qs, ws) ← readQs m ws []
      let (t, _) ← parseKD dim ws
      let t := t.map mk
      let tab := (t.knnTable coord sq qs).map fun r => r.map (·.1)
      let spec := qs.map fun q => (insSort (t.slice.map (sq q.2))).take q.1
      let sh : List (List Q) → String := fun tb =>
        " | ".intercalate (tb.map fun r => if r.isEmpty then "-" else showList showRat r)
      if tab != spec then some s!"SPEC-DIFFERS faithful={sh tab} spec={sh spec}"
      else some (if tab.isEmpty then "-" else sh tab)
  | "sphere" :: ws => do
      let (p, ws) ← takeRats dim ws
      let (rr, ws) ← takeRats 1 ws
      let (t, _) ← parseKD dim ws
      let t := t.map mk; let p := mk p
      let r2 := rr.getD 0 0 * rr.getD 0 0
      let r := t.sphere coord sq p r2
      let sp := t.slice.any (fun c => decide (sq p c ≤ r2))
      if r != sp then some s!"SPEC-DIFFERS faithful={boolStr r} spec={boolStr sp}" else some (boolStr r)
  | _ => none

def handleKD (dim : Nat) (ws : List String) : Option String :=
  if dim = 3 then
    kdQuery (P := V3 Q) coord3 V3.sqDist (fun xs => v3 xs 0) (fun p => [p.x, p.y, p.z]) 3 ws
  else
    kdQuery (P := V2 Q) coord2 V2.sqDist (fun xs => v2 xs 0) (fun p => [p.x, p.y]) 2 ws

def handleAll (ws : List String) : Option String :=
  match ws with
  | "slab3" :: r => handleSlab 3 true r
  | "slab2" :: r => handleSlab 2 true r
  | "slabd3" :: r => handleSlab 3 false r
  | "slabd2" :: r => handleSlab 2 false r
  | "pbd3" :: r => handlePbd 3 r
  | "pbd2" :: r => handlePbd 2 r
  | "group" :: r => handleGroup r
  | "bvh" :: r => handleBvh r
  | "bvhx" :: r => handleBvhx r
  | "j3" :: r => handleJ3 true r
  | "o3" :: r => handleJ3 false r
  | "j2" :: r => handleJ2 r
  | "d3" :: r => handleDist 3 r
  | "d2" :: r => handleDist 2 r
  | "kd3" :: r => handleKD 3 r
  | "kd2" :: r => handleKD 2 r
  | _ => none

end M3d.Drv.C08
