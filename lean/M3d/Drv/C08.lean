import M3d.Basic
/-! Line-protocol handler for C08. Core-only. (stub) -/
namespace M3d.Drv.C08

def handleAll (ws : List String) : Option String := none

end M3d.Drv.C08
