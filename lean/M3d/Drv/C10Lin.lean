import M3d.Basic
import M3d.Model.Surface
import M3d.Model.MeshOps
import M3d.Model.ArapOp
import M3d.Model.ArapLin
/-!
`araplin3` of the C10 driver (core-only): the REAL linear step of `ARAP` (`Targets`, `Apply`,
`SqueezeDelta`, `squeezedMatrix`, `energy`, through the verif hooks) against `M3d.ArapLin`.

* at `Float`, bit for bit (the model performs Go's operations in Go's order), from the LINEAR
  weight table of the instance: `targets`, `squeeze-delta`, `system-matrix`, `apply`, `energy`;
* at `Rat`, on the real outputs only, when every float operation of the real call was exact
  (`rigidexact` probe of an instance with `wexact=1`): `rigid-image-solves-linear-step` —
  `squeezedMatrix · Squeeze(y) = Squeeze(Targets(R,…,R)) + SqueezeDelta()` for `y = R p + t` with the
  handles constrained to their images (`M3d.C10.arap_rigid_motion_solves_linear_step`), and
  `energy-zero-at-rigid-image` (`M3d.C10.arap_energy_zero_at_rigid_image`);
* bookkeeping: the adjacency lists are the mesh's, the two weight tables are the two schemes of
  `NewARAPWeighted(mesh, linear, rotation)` over one cotangent table, weights are symmetric.
-/
namespace M3d.Drv.C10Lin
open M3d M3d.Surface M3d.MeshOps M3d.ArapLin

def tagged (tag : String) (ps : List String) : List String :=
  ps.filterMap fun s => match s.splitOn ":" with
    | [t, r] => if t == tag then some r else none
    | _ => none

def keyVal (key : String) (ps : List String) : Option Nat :=
  ps.findSome? fun s => match s.splitOn "=" with
    | [k, v] => if k == key then v.toNat? else none
    | _ => none

def splitNE (s : String) (sep : String) : List String := if s == "" then [] else s.splitOn sep

def natList (s : String) : Option (List Nat) := (splitNE s ",").mapM (·.toNat?)

def optNatList (s : String) : Option (List (Option Nat)) :=
  (splitNE s ",").mapM fun t => if t == "-1" then some none else t.toNat?.map some

def floatList (s : String) : Option (List Float) := (splitNE s ",").mapM floatOfHex

def vecOf : List Float → Option (V3 Float)
  | [x, y, z] => some ⟨x, y, z⟩
  | _ => none

def matOf : List Float → Option (Mat3 Float)
  | [a, b, c, d, e, f, g, h, i] => some ⟨a, b, c, d, e, f, g, h, i⟩
  | _ => none

def vecList (s : String) : Option (List (V3 Float)) :=
  (splitNE s ";").mapM fun t => (floatList t).bind vecOf

def matList (s : String) : Option (List (Mat3 Float)) :=
  (splitNE s ";").mapM fun t => (floatList t).bind matOf

def consOf (s : String) : Option (List (Nat × V3 Float)) :=
  (splitNE s ";").mapM fun t => match t.splitOn "=" with
    | [i, v] => do some ((← i.toNat?), (← (floatList v).bind vecOf))
    | _ => none

def matRowsOf (s : String) : Option (List (List (Nat × Float))) :=
  (s.splitOn ";").mapM fun r => (splitNE r ",").mapM fun t => match t.splitOn "=" with
    | [c, x] => do some ((← c.toNat?), (← floatOfHex x))
    | _ => none

/-- Same bits (any NaN equals any NaN). -/
def feq (a b : Float) : Bool := a.toBits == b.toBits || (a.isNaN && b.isNaN)
def veq (a b : V3 Float) : Bool := feq a.x b.x && feq a.y b.y && feq a.z b.z
def vsEq (a b : List (V3 Float)) : Bool := a.length == b.length && (a.zip b).all fun q => veq q.1 q.2
def rowEq (a b : List (Nat × Float)) : Bool :=
  a.length == b.length && (a.zip b).all fun q => q.1.1 == q.2.1 && feq q.1.2 q.2.2

def toRat (x : Float) : Option Rat := ratOfBits x.toBits
def vRat (v : V3 Float) : Option (V3 Rat) := do some ⟨← toRat v.x, ← toRat v.y, ← toRat v.z⟩
def mRat (m : Mat3 Float) : Option (Mat3 Rat) := do
  some ⟨← toRat m.m0, ← toRat m.m1, ← toRat m.m2, ← toRat m.m3, ← toRat m.m4, ← toRat m.m5, ← toRat m.m6, ← toRat m.m7, ← toRat m.m8⟩

def zF : V3 Float := ⟨0, 0, 0⟩
def idF : Mat3 Float := ⟨1, 0, 0, 0, 1, 0, 0, 0, 1⟩

def nbrs3 (ts : List Tri) (v : Nat) : List Nat :=
  ((ts.filter fun t => (triVerts t).contains v).flatMap triVerts).eraseDups.filter (· != v)

def sortNat (xs : List Nat) : List Nat := sortBy (· < ·) xs

/-- `ARAPWeightingScheme.weight`: 0 = cotangent, 1 = |cotangent|, 2 = uniform. -/
def schemeOk (lin rot : Nat) (w r : Float) : Bool :=
  (lin != 2 || feq w 1) && (rot != 2 || feq r 1) &&
  (lin != 1 || w >= 0 || w.isNaN) && (rot != 1 || r >= 0 || r.isNaN) &&
  (if lin == rot then feq w r
   else if lin == 1 && rot == 0 then feq w r.abs
   else if lin == 0 && rot == 1 then feq r w.abs
   else true)

structure Probe where
  mode : String
  cons : List (Nat × V3 Float)
  rots : List (Mat3 Float)
  tr : V3 Float
  y : List (V3 Float)
  f2s : List (Option Nat)
  s2f : List Nat
  T : List (V3 Float)
  D : List (V3 Float)
  A : List (V3 Float)
  M : List (List (Nat × Float))
  E : Float

def verdict (checks : List (String × Bool)) : String :=
  let bad := (checks.filter (fun c => !c.2)).map (·.1)
  if bad.isEmpty then "ok" else "FAIL " ++ " ".intercalate (bad.eraseDups.map fun c => c ++ "=0")

/-- The checks of one probe. -/
def probeChecks (n : Nat) (wexact : Bool) (p : Array (V3 Float)) (rows : Nat → List (Nat × Float)) (pr : Probe) :
    List (String × Bool) :=
  let pF := fun i => p.getD i zF
  let rotA := pr.rots.toArray
  let rotF : Nat → Mat3 Float := if rotA.size == 1 then fun _ => rotA.getD 0 idF else fun i => rotA.getD i idF
  let yA := pr.y.toArray
  let yF := fun i => yA.getD i zF
  let op : ArapOp.Op (V3 Float) := ArapOp.newOp n pr.cons
  let sqY := ArapOp.squeeze op zF pr.y
  -- on exact probes (dyadic data, every real float operation exact) the comparison does not depend on
  -- the order of the operations; elsewhere it is a bit-level tie of the faithful model: `(bitwise)`
  let tag := if (pr.mode == "rigidexact" || pr.mode == "freeexact") && wexact then "" else "(bitwise)"
  let floatChecks : List (String × Bool) :=
    [("index-maps", op.f2s == pr.f2s && op.s2f == pr.s2f),
     ("targets" ++ tag, vsEq (targets n rows pF rotF) pr.T),
     ("squeeze-delta" ++ tag, vsEq (squeezeDelta op rows) pr.D),
     ("system-matrix" ++ tag, (matrix op rows).length == pr.M.length && ((matrix op rows).zip pr.M).all fun q => rowEq q.1 q.2),
     ("apply" ++ tag, vsEq (applyOp op rows sqY) pr.A),
     ("energy" ++ tag, feq (energy n rows pF yF rotF) pr.E)]
  if pr.mode != "rigidexact" then floatChecks else
  -- exact mode: the real outputs as exact rationals
  let exact : Option (List (String × Bool)) := do
    let R ← mRat (rotA.getD 0 idF)
    let t ← vRat pr.tr
    let pQ ← p.toList.mapM vRat
    let yQ ← pr.y.mapM vRat
    let consQ ← pr.cons.mapM fun kv => do some (kv.1, ← vRat kv.2)
    let isImage := yQ == pQ.map (rigid R t) && consQ.all fun kv => yQ[kv.1]? == some kv.2
    let e ← toRat pr.E
    let zero := [("probe-is-a-rigid-image", isImage), ("energy-zero-at-rigid-image", e == 0)]
    if !wexact then return zero
    let TQ ← pr.T.mapM vRat
    let DQ ← pr.D.mapM vRat
    let MQ ← pr.M.mapM fun r => r.mapM fun cx => do some (cx.1, ← toRat cx.2)
    let opQ : ArapOp.Op (V3 Rat) := ArapOp.newOp n consQ
    let zQ : V3 Rat := ⟨0, 0, 0⟩
    let sq := (ArapOp.squeeze opQ zQ yQ).toArray
    let lhs := MQ.map fun r => rowDot r (fun i => sq.getD i zQ)
    let rhs := List.zipWith V3.add (ArapOp.squeeze opQ zQ TQ) DQ
    some (zero ++ [("rigid-image-solves-linear-step", lhs == rhs && MQ.length == opQ.s2f.length)])
  floatChecks ++ (exact.getD [("exact-mode-values-finite", false)])

def handle (params : List String) (inp : List Tri) : Option String := do
  let n ← keyVal "n" params
  let lin ← keyVal "lin" params
  let rot ← keyVal "rot" params
  let wexact := (keyVal "wexact" params) == some 1
  let x ← natList (← (tagged "x" params).head?)
  let p ← vecList (← (tagged "p" params).head?)
  let nb ← ((← (tagged "nb" params).head?).splitOn ";").mapM natList
  let w ← ((← (tagged "w" params).head?).splitOn ";").mapM floatList
  let rw ← ((← (tagged "rw" params).head?).splitOn ";").mapM floatList
  if x.length ≠ n || p.length ≠ n || nb.length ≠ n || w.length ≠ n || rw.length ≠ n then none
  let xA := x.toArray
  let nbA := nb.toArray
  let wA := w.toArray
  let rwA := rw.toArray
  let rowsA : Array (List (Nat × Float)) := (Array.range n).map fun i => (nbA.getD i []).zip (wA.getD i [])
  let rows := fun i => rowsA.getD i []
  let idx := List.range n
  let shape := idx.all fun i => (nbA.getD i []).length == (wA.getD i []).length && (nbA.getD i []).length == (rwA.getD i []).length
  let adjacency := shape && idx.all fun i =>
    let ns := nbA.getD i []
    ns.all (· < n) && sortNat (ns.map fun j => xA.getD j 0) == sortNat (nbrs3 inp (xA.getD i 0)) && ns.eraseDups.length == ns.length
  let schemes := idx.all fun i => ((wA.getD i []).zip (rwA.getD i [])).all fun q => schemeOk lin rot q.1 q.2
  let symmetric := idx.all fun i => (rows i).all fun nw =>
    match (rows nw.1).find? (fun e => e.1 == i) with
    | some e => feq e.2 nw.2
    | none => false
  -- probes
  let mos := tagged "mo" params
  let hs ← (tagged "h" params).mapM consOf
  let rots ← (tagged "rots" params).mapM matList
  let trs ← (tagged "tr" params).mapM fun s => (floatList s).bind vecOf
  let ys ← (tagged "y" params).mapM vecList
  let ms ← (tagged "m" params).mapM optNatList
  let ss ← (tagged "s" params).mapM natList
  let Ts ← (tagged "T" params).mapM vecList
  let Ds ← (tagged "D" params).mapM vecList
  let As ← (tagged "A" params).mapM vecList
  let Ms ← (tagged "M" params).mapM fun s => if s == "" then some [] else matRowsOf s
  let Es ← (tagged "E" params).mapM floatOfHex
  let k := mos.length
  if k == 0 || hs.length ≠ k || rots.length ≠ k || trs.length ≠ k || ys.length ≠ k || ms.length ≠ k || ss.length ≠ k ||
      Ts.length ≠ k || Ds.length ≠ k || As.length ≠ k || Ms.length ≠ k || Es.length ≠ k then none
  let pA := p.toArray
  let probes : List Probe := (List.range k).map fun j =>
    { mode := mos.getD j "", cons := hs.getD j [], rots := rots.getD j [], tr := trs.getD j zF, y := ys.getD j [],
      f2s := ms.getD j [], s2f := ss.getD j [], T := Ts.getD j [], D := Ds.getD j [], A := As.getD j [], M := Ms.getD j [], E := Es.getD j 0 }
  let wellFormed := probes.all fun pr => pr.y.length == n && (pr.rots.length == 1 || pr.rots.length == n) && pr.cons.all (·.1 < n)
  if !wellFormed then none
  some (verdict ([("adjacency-is-the-mesh", adjacency), ("scheme-tables", schemes), ("weights-symmetric", symmetric)] ++
    probes.flatMap (probeChecks n wexact pA rows)))

end M3d.Drv.C10Lin
