import M3d.Basic
import M3d.Model.Render
/-! Line-protocol handler for C20 (render3d). Core-only.

Every kind exists in an exact (`…q`, scalar = `Rat`) and/or a bit-for-bit (`…f`, scalar = `Float`)
variant; the answer printed for a kind is the *specification* value (e.g. the arithmetic mean of the
samples actually drawn), which `M3d/Props/C20.lean` proves equal to what the faithful model returns. -/
namespace M3d.Drv.C20
open M3d M3d.Render

/-- Scalar bundle used by the handlers (parsing/printing + the non-field operations). -/
structure Sc (α : Type) where
  parse : String → Option α
  «show» : α → String
  cast : Nat → α
  sqrt : α → Option α

def ratSqrt (q : Rat) : Option Rat :=
  if q < 0 then none else
  let n := q.num.toNat
  let d := q.den
  let sn := n.sqrt
  let sd := d.sqrt
  if sn * sn = n ∧ sd * sd = d then some ((sn : Rat) / (sd : Rat)) else none

def scRat : Sc Rat := ⟨parseRat, showRat, fun n => (n : Rat), ratSqrt⟩
def scFloat : Sc Float := ⟨floatOfHex, hexOfFloat, Float.ofNat, fun x => some x.sqrt⟩

def parseV3 {α} (p : String → Option α) : List String → Option (V3 α × List String)
  | a :: b :: c :: rest => do some (⟨← p a, ← p b, ← p c⟩, rest)
  | _ => none

def showV3 {α} (s : α → String) (v : V3 α) : String := s!"{s v.x} {s v.y} {s v.z}"

def parseV3s {α} (p : String → Option α) : Nat → List String → Option (List (V3 α) × List String)
  | 0, ws => some ([], ws)
  | n + 1, ws => do
    let (v, ws) ← parseV3 p ws
    let (vs, ws) ← parseV3s p n ws
    some (v :: vs, ws)

/-- A finite scripted stream as a generator: the state is the number of samples drawn. -/
def listDraw {α} [OfNat α 0] (xs : List (V3 α)) : Nat → V3 α × Nat :=
  fun i => (xs.getD i V3.zero, i + 1)

def isPow2 (n : Nat) : Bool := n ≠ 0 && (n &&& (n - 1)) == 0

/-! ### estimateColor -/

/-- `estf _variant _aa N minS maxStd overs mode answers k samples…`  (Float, bit-for-bit).
Answer: `count  mean  ncalls  lastMean lastStddev`. -/
def handleEstF (ws : List String) : Option String := do
  match ws with
  | _variant :: _aa :: nS :: minS :: maxStd :: overs :: mode :: answers :: k :: rest =>
    let nS ← nS.toNat?; let minS ← minS.toNat?; let k ← k.toNat?
    let maxStd ← floatOfHex maxStd; let overs ← floatOfHex overs
    let (xs, rest) ← parseV3s floatOfHex k rest
    if !rest.isEmpty then none
    let scripted := mode == "s"
    let firstCheck := max minS 2
    let ans : List Char := if answers == "-" then [] else answers.toList
    let custom : Option (Nat → V3 Float → V3 Float → Bool) :=
      if scripted then some (fun n _ _ => ans.getD (n - firstCheck) '0' == '1') else none
    let hasCheck := minS != 0 && (maxStd != 0 || scripted)
    let S : Sampler := ⟨nS, minS, hasCheck⟩
    let conv := codeConv Float.ofNat Float.sqrt maxStd overs custom
    let (_, _, drawnCount) := estimateColor Float.ofNat S conv (listDraw xs) 0
    -- specification: the mean of the samples actually drawn, and their number
    let drawn := xs.take drawnCount
    let mean := meanOf Float.ofNat drawn
    let ncalls := if hasCheck && drawnCount ≥ firstCheck then drawnCount - firstCheck + 1 else 0
    let (lm, ls) : V3 Float × V3 Float :=
      if ncalls == 0 then (V3.zero, V3.zero)
      else loopStats Float.ofNat Float.sqrt drawnCount (sumList drawn) (sumList (drawn.map fun s => s.mul s))
    some (if scripted then
        s!"{drawnCount} {showV3 hexOfFloat mean} {ncalls} {showV3 hexOfFloat lm} {showV3 hexOfFloat ls}"
      else s!"{drawnCount} {showV3 hexOfFloat mean}")
  | _ => none

/-- `estq _variant _aa N minS check answers k samples…`  (Rat, exact).
Answer: `count mean` where the mean is printed only when `count` is a power of two (then Go's
`sum * (1/float64(count))` is exact for the dyadic samples generated). -/
def handleEstQ (ws : List String) : Option String := do
  match ws with
  | _variant :: _aa :: nS :: minS :: check :: answers :: k :: rest =>
    let nS ← nS.toNat?; let minS ← minS.toNat?; let k ← k.toNat?
    let (xs, rest) ← parseV3s parseRat k rest
    if !rest.isEmpty then none
    let firstCheck := max minS 2
    let ans : List Char := if answers == "-" then [] else answers.toList
    let hasCheck := minS != 0 && check == "1"
    let S : Sampler := ⟨nS, minS, hasCheck⟩
    let conv : Nat → V3 Rat → V3 Rat → Bool := fun n _ _ => ans.getD (n - firstCheck) '0' == '1'
    let (_, _, drawnCount) := estimateColor (fun n => (n : Rat)) S conv (listDraw xs) 0
    let drawn := xs.take drawnCount
    let mean := meanOf (fun n => (n : Rat)) drawn
    some (if isPow2 drawnCount then s!"{drawnCount} {showV3 showRat mean}" else s!"{drawnCount} -")
  | _ => none

/-! ### estimateVariance / RayVariance -/

/-- `varf|varq _variant _aa n samples…` -/
def handleVar {α} [Add α] [Sub α] [Mul α] [Div α] [OfNat α 0] [OfNat α 1] [LT α] [DecidableLT α]
    (sc : Sc α) (ws : List String) : Option String := do
  match ws with
  | _variant :: _aa :: n :: rest =>
    let n ← n.toNat?
    let (xs, rest) ← parseV3s sc.parse n rest
    if !rest.isEmpty then none
    some (showV3 sc.show (estimateVariance sc.cast (listDraw xs) n 0))
  | _ => none

def chunks {β} (n : Nat) : Nat → List β → List (List β)
  | 0, _ => []
  | k + 1, xs => xs.take n :: chunks n k (xs.drop n)

/-- `rvarf w h n streams…`: `RayVariance` = mean over pixels and channels of the per-pixel variance. -/
def handleRVar (ws : List String) : Option String := do
  match ws with
  | w :: h :: n :: rest =>
    let w ← w.toNat?; let h ← h.toNat?; let n ← n.toNat?
    let (xs, rest) ← parseV3s floatOfHex (w * h * n) rest
    if !rest.isEmpty then none
    let per := (chunks n (w * h) xs).map fun st => estimateVariance Float.ofNat (listDraw st) n 0
    let total := per.foldl (fun (acc : Float) c => acc + (c.x + c.y + c.z)) 0
    some (hexOfFloat (total / Float.ofNat (3 * w * h)))
  | _ => none

/-! ### mapCoordinates -/

def handleMap (ws : List String) : Option String := do
  match ws with
  | [w, h, _procs] =>
    let w ← w.toNat?; let h ← h.toNat?
    let cs := coords w h
    some (if cs.isEmpty then "-" else ";".intercalate (cs.map fun (x, y, i) => s!"{x},{y},{i}"))
  | _ => none

/-! ### Camera -/

def parseCam {α} (p : String → Option α) (ws : List String) : Option (Camera α × List String) := do
  let (o, ws) ← parseV3 p ws
  let (sx, ws) ← parseV3 p ws
  let (sy, ws) ← parseV3 p ws
  match ws with
  | pd :: ws => some (⟨o, sx, sy, ← p pd⟩, ws)
  | _ => none

/-- `castq cam w h ix iy` (Rat; the one square root taken must be exact). -/
def handleCastQ (ws : List String) : Option String := do
  let (cam, ws) ← parseCam parseRat ws
  match ws with
  | [w, h, ix, iy] =>
    let w ← parseRat w; let h ← parseRat h; let ix ← parseRat ix; let iy ← parseRat iy
    let cr := cam.screenX.cross cam.screenY
    let _ ← ratSqrt (cr.dot cr)
    some (showV3 showRat (cam.caster (fun v => (ratSqrt v).getD 0) w h ix iy))
  | _ => none

/-- `camf cam w h ix iy p` (Float): `axes`, `Caster(w,h)(ix,iy)`, `Uncaster(w,h)(p)`. -/
def handleCamF (ws : List String) : Option String := do
  let (cam, ws) ← parseCam floatOfHex ws
  match ws with
  | w :: h :: ix :: iy :: rest =>
    let w ← floatOfHex w; let h ← floatOfHex h; let ix ← floatOfHex ix; let iy ← floatOfHex iy
    let (p, rest) ← parseV3 floatOfHex rest
    if !rest.isEmpty then none
    let (x, y, z) := cam.axes Float.sqrt w h
    let d := cam.caster Float.sqrt w h ix iy
    let (ux, uy) := cam.uncaster Float.sqrt w h p
    some s!"{showV3 hexOfFloat x} {showV3 hexOfFloat y} {showV3 hexOfFloat z} {showV3 hexOfFloat d} {hexOfFloat ux} {hexOfFloat uy}"
  | _ => none

/-! ### Object wrappers over probe leaves -/

section Tree
variable {α : Type} [Add α] [Sub α] [Mul α] [Div α] [OfNat α 0] [OfNat α 1] [LT α] [DecidableLT α]
  [LE α] [DecidableLE α]

structure Affine (α : Type) where
  mode : Nat
  a : α
  w : V3 α
  v : V3 α

def Affine.value (f : Affine α) (r : Ray α) : α := (f.a + f.w.dot r.origin) + f.v.dot r.dir
def Affine.ok (f : Affine α) (r : Ray α) : Bool :=
  f.mode == 1 || (f.mode == 2 && decide (0 ≤ f.value r))

def parseAffine (p : String → Option α) : List String → Option (Affine α × List String)
  | mode :: a :: ws => do
    let (w, ws) ← parseV3 p ws
    let (v, ws) ← parseV3 p ws
    some (⟨← mode.toNat?, ← p a, w, v⟩, ws)
  | _ => none

def parseM3 (p : String → Option α) (ws : List String) : Option (M3 α × List String) := do
  match ← (ws.take 9).mapM p with
  | [a, b, c, d, e, f, g, h, i] => some (⟨a, b, c, d, e, f, g, h, i⟩, ws.drop 9)
  | _ => none

mutual
/-- Prefix expression → the model's `Cast`. -/
partial def parseTree (p : String → Option α) (sqrt : α → α) : List String → Option (Cast α × List String)
  | "L" :: id :: ws => do
    let id ← id.toNat?
    let (f, ws) ← parseAffine p ws
    let (n, ws) ← parseV3 p ws
    some ((fun r => if f.ok r then some ⟨f.value r, n, id⟩ else none), ws)
  | "J" :: k :: ws => do
    let (parts, ws) ← parseTrees p sqrt (← k.toNat?) ws
    some (joinedCast parts, ws)
  | "F" :: ws => do
    let (f, ws) ← parseAffine p ws
    let (o, ws) ← parseTree p sqrt ws
    some (filteredCast f.ok o, ws)
  | "T" :: ws => do
    let (off, ws) ← parseV3 p ws
    let (o, ws) ← parseTree p sqrt ws
    some (translatedCast off o, ws)
  | "M" :: ws => do
    let (m, ws) ← parseM3 p ws
    let (o, ws) ← parseTree p sqrt ws
    some (matrixCast sqrt m m.inverse o, ws)
  | _ => none
partial def parseTrees (p : String → Option α) (sqrt : α → α) : Nat → List String → Option (List (Cast α) × List String)
  | 0, ws => some ([], ws)
  | k + 1, ws => do
    let (o, ws) ← parseTree p sqrt ws
    let (os, ws) ← parseTrees p sqrt k ws
    some (o :: os, ws)
end

end Tree

/-- `treef ray expr` (Float, bit-for-bit). -/
def handleTreeF (ws : List String) : Option String := do
  let (o, ws) ← parseV3 floatOfHex ws
  let (d, ws) ← parseV3 floatOfHex ws
  let (cast, rest) ← parseTree floatOfHex Float.sqrt ws
  if !rest.isEmpty then none
  some (match cast ⟨o, d⟩ with
    | none => "miss"
    | some h => s!"hit {hexOfFloat h.scale} {showV3 hexOfFloat h.normal} {h.mat}")

/-- `treeq ray expr` (Rat, exact; every normal that is normalised must have a rational length). -/
def handleTreeQ (ws : List String) : Option String := do
  let (o, ws) ← parseV3 parseRat ws
  let (d, ws) ← parseV3 parseRat ws
  let (cast, rest) ← parseTree parseRat (fun v => (ratSqrt v).getD 0) ws
  if !rest.isEmpty then none
  some (match cast ⟨o, d⟩ with
    | none => "miss"
    | some h => s!"hit {showRat h.scale} {showV3 showRat h.normal} {h.mat}")

def parseParts : Nat → Nat → List String → Option (List (Cast Float))
  | 0, _, [] => some []
  | 0, _, _ => none
  | k + 1, id, f :: s :: ws => do
    let s ← floatOfHex s
    let rest ← parseParts k (id + 1) ws
    let c : Cast Float := fun _ => if f == "1" then some ⟨s, V3.zero, id⟩ else none
    some (c :: rest)
  | _, _, _ => none

/-- `joinf k (found scale)…`: `JoinedObject.Cast` given what each part answered. -/
def handleJoinF (withMat : Bool) (ws : List String) : Option String := do
  match ws with
  | k :: rest =>
    let parts ← parseParts (← k.toNat?) 0 rest
    some (match joinedCast parts ⟨V3.zero, V3.zero⟩ with
      | none => "miss"
      | some h => if withMat then s!"hit {hexOfFloat h.scale} {h.mat}" else s!"hit {hexOfFloat (h.scale + 0)}")
  | _ => none

/-! ### Whole images of a closed uniform emitter -/

/-- `img renderer w h procs N minS maxStd e`. -/
def handleImg (ws : List String) : Option String := do
  match ws with
  | name :: w :: h :: procs :: nS :: minS :: maxStd :: rest =>
    let w ← w.toNat?; let h ← h.toNat?; let procs ← procs.toNat?
    let nS ← nS.toNat?; let minS ← minS.toNat?; let maxStd ← floatOfHex maxStd
    let (e, rest) ← parseV3 floatOfHex rest
    if !rest.isEmpty then none
    let value : V3 Float :=
      if name == "raycaster" then V3.zero.add e
      else
        let S : Sampler := ⟨nS, minS, minS != 0 && maxStd != 0⟩
        (estimateColor Float.ofNat S (codeConv Float.ofNat Float.sqrt maxStd 0 none)
          (fun (i : Nat) => (e, i + 1)) 0).1
    let img := renderImage (V3.zero : V3 Float) w h (fun k => k % procs) (fun _ _ => value)
    let shown := img.map fun c => ",".intercalate (c.toList.map hexOfFloat)
    match shown with
    | [] => some ""
    | first :: _ => if shown.all (· == first) then some s!"{first}*{shown.length}" else none
  | _ => none

/-! ### A single lit matte surface: RayCaster and RecursiveRayTracer (MaxDepth 0) pixels -/

structure LitLight where
  light : PointLight Float
  shadowKey : String
  shadow : Option Float

def parseLitLights : Nat → List String → Option (List LitLight × List String)
  | 0, ws => some ([], ws)
  | k + 1, ws => do
    let (lo, ws) ← parseV3 floatOfHex ws
    let (lc, ws) ← parseV3 floatOfHex ws
    match ws with
    | q :: ws =>
      let (so, ws) ← parseV3 floatOfHex ws
      let (sd, ws) ← parseV3 floatOfHex ws
      match ws with
      | sf :: ss :: ws =>
        let ss ← floatOfHex ss
        let (rest, ws) ← parseLitLights k ws
        some (⟨⟨lo, lc, q == "1"⟩, showV3 hexOfFloat so ++ " " ++ showV3 hexOfFloat sd,
               if sf == "1" then some ss else none⟩ :: rest, ws)
      | _ => none
    | _ => none

/-- `litf o d found t n amb em rho eps N k lights…` → `raycasterPixel rtPixel`.
The scene oracle answers the primary ray and the shadow rays with what the real primitive said; a ray
the model traces that the harness did not anticipate makes the answer `unknown-ray`. -/
def handleLitF (ws : List String) : Option String := do
  let (o, ws) ← parseV3 floatOfHex ws
  let (d, ws) ← parseV3 floatOfHex ws
  match ws with
  | found :: t :: ws =>
    let t ← floatOfHex t
    let (n, ws) ← parseV3 floatOfHex ws
    let (amb, ws) ← parseV3 floatOfHex ws
    let (em, ws) ← parseV3 floatOfHex ws
    let (rho, ws) ← parseV3 floatOfHex ws
    match ws with
    | eps :: nS :: k :: ws =>
      let eps ← floatOfHex eps; let nS ← nS.toNat?; let k ← k.toNat?
      let (ls, rest) ← parseLitLights k ws
      if !rest.isEmpty then none
      let m : Mat Float Nat := ⟨em, amb, fun _ _ _ => rho, fun g nn _ => (nn, g), fun _ _ _ => 1⟩
      let key (r : Ray Float) := showV3 hexOfFloat r.origin ++ " " ++ showV3 hexOfFloat r.dir
      let primary : Ray Float := ⟨o, d⟩
      -- an unknown ray is answered with a NaN-scale hit so that it shows up in the output
      let scene : Ray Float → Option (Hit Float × Mat Float Nat) := fun r =>
        if key r == key primary then (if found == "1" then some (⟨t, n, 0⟩, m) else none)
        else match ls.find? (fun l => l.shadowKey == key r) with
          | some l => l.shadow.map fun s => (⟨s, V3.zero, 0⟩, m)
          | none => some (⟨0.0 / 0.0, V3.zero, 0⟩, m)
      let lights := ls.map (·.light)
      let rcPix := rayCasterPixel scene Float.sqrt lights primary
      let sample : Nat → V3 Float × Nat := fun g =>
        recurse scene Float.sqrt Float.abs 0 eps lights 0 true g primary ⟨1, 1, 1⟩
      let rtPix := (estimateColor Float.ofNat ⟨nS, 0, false⟩ (fun _ _ _ => false) sample 0).1
      some s!"{showV3 hexOfFloat rcPix} {showV3 hexOfFloat rtPix}"
    | _ => none
  | _ => none

def handleAll (ws : List String) : Option String :=
  match ws with
  | "estf" :: rest => handleEstF rest
  | "estq" :: rest => handleEstQ rest
  | "varf" :: rest => handleVar scFloat rest
  | "varq" :: rest => handleVar scRat rest
  | "rvarf" :: rest => handleRVar rest
  | "map" :: rest => handleMap rest
  | "castq" :: rest => handleCastQ rest
  | "camf" :: rest => handleCamF rest
  | "treef" :: rest => handleTreeF rest
  | "treeq" :: rest => handleTreeQ rest
  | "joinf" :: rest => handleJoinF true rest
  | "bvhf" :: rest => handleJoinF false rest
  | "xprim" :: _how :: _kind :: rest => some (" ".intercalate rest)
  | "img" :: rest => handleImg rest
  | "litf" :: rest => handleLitF rest
  -- `dircam fov dir min max`: the specification (`directional_camera_contains`) is a constant
  | ["dircam", _, _, _, _, _, _, _, _, _, _] => some "contained"
  | _ => none

end M3d.Drv.C20
