import M3d.Basic
import M3d.Model.Render
/-! Line-protocol handler for C20 (render3d). Core-only.

Every kind exists in an exact (`…q`, scalar = `Rat`) and/or a bit-for-bit (`…f`, scalar = `Float`)
variant; the answer printed for a kind is the *specification* value (e.g. the arithmetic mean of the
samples actually drawn), which `M3d/Props/C20.lean` proves equal to what the faithful model returns. -/
namespace M3d.Drv.C20
open M3d M3d.Render

/-- Scalar bundle used by the handlers (parsing/printing + the non-field operations). -/
structure Sc (α : Type) where
  parse : String → Option α
  «show» : α → String
  cast : Nat → α
  sqrt : α → Option α

def ratSqrt (q : Rat) : Option Rat :=
  if q < 0 then none else
  let n := q.num.toNat
  let d := q.den
  let sn := n.sqrt
  let sd := d.sqrt
  if sn * sn = n ∧ sd * sd = d then some ((sn : Rat) / (sd : Rat)) else none

def scRat : Sc Rat := ⟨parseRat, showRat, fun n => (n : Rat), ratSqrt⟩
def scFloat : Sc Float := ⟨floatOfHex, hexOfFloat, Float.ofNat, fun x => some x.sqrt⟩

def parseV3 {α} (p : String → Option α) : List String → Option (V3 α × List String)
  | a :: b :: c :: rest => do some (⟨← p a, ← p b, ← p c⟩, rest)
  | _ => none

def showV3 {α} (s : α → String) (v : V3 α) : String := s!"{s v.x} {s v.y} {s v.z}"

def parseV3s {α} (p : String → Option α) : Nat → List String → Option (List (V3 α) × List String)
  | 0, ws => some ([], ws)
  | n + 1, ws => do
    let (v, ws) ← parseV3 p ws
    let (vs, ws) ← parseV3s p n ws
    some (v :: vs, ws)

/-- A finite scripted stream as a generator: the state is the number of samples drawn. -/
def listDraw {α} [OfNat α 0] (xs : List (V3 α)) : Nat → V3 α × Nat :=
  fun i => (xs.getD i V3.zero, i + 1)

def isPow2 (n : Nat) : Bool := n ≠ 0 && (n &&& (n - 1)) == 0

/-! ### estimateColor -/

/-- `estf _variant _aa N minS maxStd overs mode answers k samples…`  (Float, bit-for-bit).
Answer: `count  mean  ncalls  lastMean lastStddev`. -/
def handleEstF (ws : List String) : Option String := do
  match ws with
  | _variant :: _aa :: nS :: minS :: maxStd :: overs :: mode :: answers :: k :: rest =>
    let nS ← nS.toNat?; let minS ← minS.toNat?; let k ← k.toNat?
    let maxStd ← floatOfHex maxStd; let overs ← floatOfHex overs
    let (xs, rest) ← parseV3s floatOfHex k rest
    if !rest.isEmpty then none
    let scripted := mode == "s"
    let firstCheck := max minS 2
    let ans : List Char := if answers == "-" then [] else answers.toList
    let custom : Option (Nat → V3 Float → V3 Float → Bool) :=
      if scripted then some (fun n _ _ => ans.getD (n - firstCheck) '0' == '1') else none
    let hasCheck := minS != 0 && (maxStd != 0 || scripted)
    let S : Sampler := ⟨nS, minS, hasCheck⟩
    let conv := codeConv Float.ofNat Float.sqrt maxStd overs custom
    let (_, _, drawnCount) := estimateColor Float.ofNat S conv (listDraw xs) 0
    -- specification: the mean of the samples actually drawn, and their number
    let drawn := xs.take drawnCount
    let mean := meanOf Float.ofNat drawn
    let ncalls := if hasCheck && drawnCount ≥ firstCheck then drawnCount - firstCheck + 1 else 0
    let (lm, ls) : V3 Float × V3 Float :=
      if ncalls == 0 then (V3.zero, V3.zero)
      else loopStats Float.ofNat Float.sqrt drawnCount (sumList drawn) (sumList (drawn.map fun s => s.mul s))
    some (if scripted then
        s!"{drawnCount} {showV3 hexOfFloat mean} {ncalls} {showV3 hexOfFloat lm} {showV3 hexOfFloat ls}"
      else s!"{drawnCount} {showV3 hexOfFloat mean}")
  | _ => none

/-- `estq _variant _aa N minS check answers k samples…`  (Rat, exact).
Answer: `count mean` where the mean is printed only when `count` is a power of two (then Go's
`sum * (1/float64(count))` is exact for the dyadic samples generated). -/
def handleEstQ (ws : List String) : Option String := do
  match ws with
  | _variant :: _aa :: nS :: minS :: check :: answers :: k :: rest =>
    let nS ← nS.toNat?; let minS ← minS.toNat?; let k ← k.toNat?
    let (xs, rest) ← parseV3s parseRat k rest
    if !rest.isEmpty then none
    let firstCheck := max minS 2
    let ans : List Char := if answers == "-" then [] else answers.toList
    let hasCheck := minS != 0 && check == "1"
    let S : Sampler := ⟨nS, minS, hasCheck⟩
    let conv : Nat → V3 Rat → V3 Rat → Bool := fun n _ _ => ans.getD (n - firstCheck) '0' == '1'
    let (_, _, drawnCount) := estimateColor (fun n => (n : Rat)) S conv (listDraw xs) 0
    let drawn := xs.take drawnCount
    let mean := meanOf (fun n => (n : Rat)) drawn
    some (if isPow2 drawnCount then s!"{drawnCount} {showV3 showRat mean}" else s!"{drawnCount} -")
  | _ => none

/-! ### estimateVariance / RayVariance -/

/-- `varf|varq _variant _aa n samples…` -/
def handleVar {α} [Add α] [Sub α] [Mul α] [Div α] [OfNat α 0] [OfNat α 1] [LT α] [DecidableLT α]
    (sc : Sc α) (ws : List String) : Option String := do
  match ws with
  | _variant :: _aa :: n :: rest =>
    let n ← n.toNat?
    let (xs, rest) ← parseV3s sc.parse n rest
    if !rest.isEmpty then none
    some (showV3 sc.show (estimateVariance sc.cast (listDraw xs) n 0))
  | _ => none

def chunks {β} (n : Nat) : Nat → List β → List (List β)
  | 0, _ => []
  | k + 1, xs => xs.take n :: chunks n k (xs.drop n)

/-- `rvarf w h n streams…`: `RayVariance` = mean over pixels and channels of the per-pixel variance. -/
def handleRVar (ws : List String) : Option String := do
  match ws with
  | w :: h :: n :: rest =>
    let w ← w.toNat?; let h ← h.toNat?; let n ← n.toNat?
    let (xs, rest) ← parseV3s floatOfHex (w * h * n) rest
    if !rest.isEmpty then none
    let per := (chunks n (w * h) xs).map fun st => estimateVariance Float.ofNat (listDraw st) n 0
    let total := per.foldl (fun (acc : Float) c => acc + (c.x + c.y + c.z)) 0
    some (hexOfFloat (total / Float.ofNat (3 * w * h)))
  | _ => none

/-! ### mapCoordinates -/

def handleMap (ws : List String) : Option String := do
  match ws with
  | [w, h, _procs] =>
    let w ← w.toNat?; let h ← h.toNat?
    let cs := coords w h
    some (if cs.isEmpty then "-" else ";".intercalate (cs.map fun (x, y, i) => s!"{x},{y},{i}"))
  | _ => none

/-! ### Camera -/

def parseCam {α} (p : String → Option α) (ws : List String) : Option (Camera α × List String) := do
  let (o, ws) ← parseV3 p ws
  let (sx, ws) ← parseV3 p ws
  let (sy, ws) ← parseV3 p ws
  match ws with
  | pd :: ws => some (⟨o, sx, sy, ← p pd⟩, ws)
  | _ => none

/-- `castq cam w h ix iy` (Rat; the one square root taken must be exact). -/
def handleCastQ (ws : List String) : Option String := do
  let (cam, ws) ← parseCam parseRat ws
  match ws with
  | [w, h, ix, iy] =>
    let w ← parseRat w; let h ← parseRat h; let ix ← parseRat ix; let iy ← parseRat iy
    let cr := cam.screenX.cross cam.screenY
    let _ ← ratSqrt (cr.dot cr)
    some (showV3 showRat (cam.caster (fun v => (ratSqrt v).getD 0) w h ix iy))
  | _ => none

/-- `camf cam w h ix iy p` (Float): `axes`, `Caster(w,h)(ix,iy)`, `Uncaster(w,h)(p)`. -/
def handleCamF (ws : List String) : Option String := do
  let (cam, ws) ← parseCam floatOfHex ws
  match ws with
  | w :: h :: ix :: iy :: rest =>
    let w ← floatOfHex w; let h ← floatOfHex h; let ix ← floatOfHex ix; let iy ← floatOfHex iy
    let (p, rest) ← parseV3 floatOfHex rest
    if !rest.isEmpty then none
    let (x, y, z) := cam.axes Float.sqrt w h
    let d := cam.caster Float.sqrt w h ix iy
    let (ux, uy) := cam.uncaster Float.sqrt w h p
    some s!"{showV3 hexOfFloat x} {showV3 hexOfFloat y} {showV3 hexOfFloat z} {showV3 hexOfFloat d} {hexOfFloat ux} {hexOfFloat uy}"
  | _ => none

/-! ### Object wrappers over probe leaves -/

section Tree
variable {α : Type} [Add α] [Sub α] [Mul α] [Div α] [OfNat α 0] [OfNat α 1] [LT α] [DecidableLT α]
  [LE α] [DecidableLE α]

structure Affine (α : Type) where
  mode : Nat
  a : α
  w : V3 α
  v : V3 α

def Affine.value (f : Affine α) (r : Ray α) : α := (f.a + f.w.dot r.origin) + f.v.dot r.dir
def Affine.ok (f : Affine α) (r : Ray α) : Bool :=
  f.mode == 1 || (f.mode == 2 && decide (0 ≤ f.value r))

def parseAffine (p : String → Option α) : List String → Option (Affine α × List String)
  | mode :: a :: ws => do
    let (w, ws) ← parseV3 p ws
    let (v, ws) ← parseV3 p ws
    some (⟨← mode.toNat?, ← p a, w, v⟩, ws)
  | _ => none

def parseM3 (p : String → Option α) (ws : List String) : Option (M3 α × List String) := do
  match ← (ws.take 9).mapM p with
  | [a, b, c, d, e, f, g, h, i] => some (⟨a, b, c, d, e, f, g, h, i⟩, ws.drop 9)
  | _ => none

mutual
/-- Prefix expression → the model's `Cast`. -/
partial def parseTree (p : String → Option α) (sqrt : α → α) : List String → Option (Cast α × List String)
  | "L" :: id :: ws => do
    let id ← id.toNat?
    let (f, ws) ← parseAffine p ws
    let (n, ws) ← parseV3 p ws
    some ((fun r => if f.ok r then some ⟨f.value r, n, id⟩ else none), ws)
  | "J" :: k :: ws => do
    let (parts, ws) ← parseTrees p sqrt (← k.toNat?) ws
    some (joinedCast parts, ws)
  | "F" :: ws => do
    let (f, ws) ← parseAffine p ws
    let (o, ws) ← parseTree p sqrt ws
    some (filteredCast f.ok o, ws)
  | "T" :: ws => do
    let (off, ws) ← parseV3 p ws
    let (o, ws) ← parseTree p sqrt ws
    some (translatedCast off o, ws)
  | "M" :: ws => do
    let (m, ws) ← parseM3 p ws
    let (o, ws) ← parseTree p sqrt ws
    some (matrixCast sqrt m m.inverse o, ws)
  | _ => none
partial def parseTrees (p : String → Option α) (sqrt : α → α) : Nat → List String → Option (List (Cast α) × List String)
  | 0, ws => some ([], ws)
  | k + 1, ws => do
    let (o, ws) ← parseTree p sqrt ws
    let (os, ws) ← parseTrees p sqrt k ws
    some (o :: os, ws)
end

end Tree

/-- `treef ray expr` (Float, bit-for-bit). -/
def handleTreeF (ws : List String) : Option String := do
  let (o, ws) ← parseV3 floatOfHex ws
  let (d, ws) ← parseV3 floatOfHex ws
  let (cast, rest) ← parseTree floatOfHex Float.sqrt ws
  if !rest.isEmpty then none
  some (match cast ⟨o, d⟩ with
    | none => "miss"
    | some h => s!"hit {hexOfFloat h.scale} {showV3 hexOfFloat h.normal} {h.mat}")

/-- `treeq ray expr` (Rat, exact; every normal that is normalised must have a rational length). -/
def handleTreeQ (ws : List String) : Option String := do
  let (o, ws) ← parseV3 parseRat ws
  let (d, ws) ← parseV3 parseRat ws
  let (cast, rest) ← parseTree parseRat (fun v => (ratSqrt v).getD 0) ws
  if !rest.isEmpty then none
  some (match cast ⟨o, d⟩ with
    | none => "miss"
    | some h => s!"hit {showRat h.scale} {showV3 showRat h.normal} {h.mat}")

def parseParts : Nat → Nat → List String → Option (List (Cast Float))
  | 0, _, [] => some []
  | 0, _, _ => none
  | k + 1, id, f :: s :: ws => do
    let s ← floatOfHex s
    let rest ← parseParts k (id + 1) ws
    let c : Cast Float := fun _ => if f == "1" then some ⟨s, V3.zero, id⟩ else none
    some (c :: rest)
  | _, _, _ => none

/-- `joinf k (found scale)…`: `JoinedObject.Cast` given what each part answered. -/
def handleJoinF (withMat : Bool) (ws : List String) : Option String := do
  match ws with
  | k :: rest =>
    let parts ← parseParts (← k.toNat?) 0 rest
    some (match joinedCast parts ⟨V3.zero, V3.zero⟩ with
      | none => "miss"
      | some h => if withMat then s!"hit {hexOfFloat h.scale} {h.mat}" else s!"hit {hexOfFloat (h.scale + 0)}")
  | _ => none

/-! ### Whole images of a closed uniform emitter -/

/-- `img renderer w h procs N minS maxStd e`. -/
def handleImg (ws : List String) : Option String := do
  match ws with
  | name :: w :: h :: procs :: nS :: minS :: maxStd :: rest =>
    let w ← w.toNat?; let h ← h.toNat?; let procs ← procs.toNat?
    let nS ← nS.toNat?; let minS ← minS.toNat?; let maxStd ← floatOfHex maxStd
    let (e, rest) ← parseV3 floatOfHex rest
    if !rest.isEmpty then none
    let value : V3 Float :=
      if name == "raycaster" then V3.zero.add e
      else
        let S : Sampler := ⟨nS, minS, minS != 0 && maxStd != 0⟩
        (estimateColor Float.ofNat S (codeConv Float.ofNat Float.sqrt maxStd 0 none)
          (fun (i : Nat) => (e, i + 1)) 0).1
    let img := renderImage (V3.zero : V3 Float) w h (fun k => k % procs) (fun _ _ => value)
    let shown := img.map fun c => ",".intercalate (c.toList.map hexOfFloat)
    match shown with
    | [] => some ""
    | first :: _ => if shown.all (· == first) then some s!"{first}*{shown.length}" else none
  | _ => none

/-! ### A single lit matte surface: RayCaster and RecursiveRayTracer (MaxDepth 0) pixels -/

structure LitLight where
  light : PointLight Float
  shadowKey : String
  shadow : Option Float

def parseLitLights : Nat → List String → Option (List LitLight × List String)
  | 0, ws => some ([], ws)
  | k + 1, ws => do
    let (lo, ws) ← parseV3 floatOfHex ws
    let (lc, ws) ← parseV3 floatOfHex ws
    match ws with
    | q :: ws =>
      let (so, ws) ← parseV3 floatOfHex ws
      let (sd, ws) ← parseV3 floatOfHex ws
      match ws with
      | sf :: ss :: ws =>
        let ss ← floatOfHex ss
        let (rest, ws) ← parseLitLights k ws
        some (⟨⟨lo, lc, q == "1"⟩, showV3 hexOfFloat so ++ " " ++ showV3 hexOfFloat sd,
               if sf == "1" then some ss else none⟩ :: rest, ws)
      | _ => none
    | _ => none

/-- `litf o d found t n amb em rho eps N k lights…` → `raycasterPixel rtPixel`.
The scene oracle answers the primary ray and the shadow rays with what the real primitive said; a ray
the model traces that the harness did not anticipate makes the answer `unknown-ray`. -/
def handleLitF (ws : List String) : Option String := do
  let (o, ws) ← parseV3 floatOfHex ws
  let (d, ws) ← parseV3 floatOfHex ws
  match ws with
  | found :: t :: ws =>
    let t ← floatOfHex t
    let (n, ws) ← parseV3 floatOfHex ws
    let (amb, ws) ← parseV3 floatOfHex ws
    let (em, ws) ← parseV3 floatOfHex ws
    let (rho, ws) ← parseV3 floatOfHex ws
    match ws with
    | eps :: nS :: k :: ws =>
      let eps ← floatOfHex eps; let nS ← nS.toNat?; let k ← k.toNat?
      let (ls, rest) ← parseLitLights k ws
      if !rest.isEmpty then none
      let m : Mat Float Nat := ⟨em, amb, fun _ _ _ => rho, fun g nn _ => (nn, g), fun _ _ _ => 1⟩
      let key (r : Ray Float) := showV3 hexOfFloat r.origin ++ " " ++ showV3 hexOfFloat r.dir
      let primary : Ray Float := ⟨o, d⟩
      -- an unknown ray is answered with a NaN-scale hit so that it shows up in the output
      let scene : Ray Float → Option (Hit Float × Mat Float Nat) := fun r =>
        if key r == key primary then (if found == "1" then some (⟨t, n, 0⟩, m) else none)
        else match ls.find? (fun l => l.shadowKey == key r) with
          | some l => l.shadow.map fun s => (⟨s, V3.zero, 0⟩, m)
          | none => some (⟨0.0 / 0.0, V3.zero, 0⟩, m)
      let lights := ls.map (·.light)
      let rcPix := rayCasterPixel scene Float.sqrt lights primary
      let sample : Nat → V3 Float × Nat := fun g =>
        recurse scene Float.sqrt Float.abs 0 eps lights (fun g => (0, g)) [] 0 true g primary ⟨1, 1, 1⟩
      let rtPix := (estimateColor Float.ofNat ⟨nS, 0, false⟩ (fun _ _ _ => false) sample 0).1
      some s!"{showV3 hexOfFloat rcPix} {showV3 hexOfFloat rtPix}"
    | _ => none
  | _ => none

/-- `dircamf pd tiny margin loF hiF min max dir` (Float): the whole of `DirectionalCamera`,
bisection included, bit-for-bit: origin, ScreenX, ScreenY of the returned camera. -/
def handleDirCamF (ws : List String) : Option String := do
  match ws with
  | pd :: tiny :: margin :: loF :: hiF :: rest =>
    let pd ← floatOfHex pd; let tiny ← floatOfHex tiny; let margin ← floatOfHex margin
    let loF ← floatOfHex loF; let hiF ← floatOfHex hiF
    let (mn, rest) ← parseV3 floatOfHex rest
    let (mx, rest) ← parseV3 floatOfHex rest
    let (dir, rest) ← parseV3 floatOfHex rest
    if !rest.isEmpty then none
    let cam := directionalCamera Float.sqrt tiny pd margin loF hiF mn mx dir
    some s!"{showV3 hexOfFloat cam.origin} {showV3 hexOfFloat cam.screenX} {showV3 hexOfFloat cam.screenY}"
  | _ => none

/-! ### Image accessors -/

def showLabels (xs : List Int) : String := "[" ++ ",".intercalate (xs.map toString) ++ "]"

partial def runImOps (img : Img Int) : List String → List String → Option (List String)
  | [], acc => some acc.reverse
  | "s" :: x :: y :: v :: rest, acc => do
    let x ← x.toNat?; let y ← y.toNat?; let v ← v.toInt?
    if x < img.width && y < img.height then runImOps (img.set x y v) rest ("ok" :: acc)
    else runImOps img rest ("panic" :: acc)
  | "a" :: x :: y :: rest, acc => do
    let x ← x.toNat?; let y ← y.toNat?
    if x < img.width && y < img.height then runImOps img rest (toString (img.at 0 x y) :: acc)
    else runImOps img rest ("panic" :: acc)
  | "A" :: v :: rest, acc => do
    runImOps (img.setAll (← v.toInt?)) rest ("ok" :: acc)
  | "c" :: w1 :: h1 :: x :: y :: base :: rest, acc => do
    let w1 ← w1.toNat?; let h1 ← h1.toNat?; let x ← x.toNat?; let y ← y.toNat?; let base ← base.toInt?
    let src : Img Int := ⟨(List.range (w1 * h1)).map fun (k : Nat) => base + Int.ofNat k, w1, h1⟩
    runImOps (img.copyFrom src x y) rest ("ok" :: acc)
  | "d" :: rest, acc => runImOps img rest (showLabels img.data :: acc)
  | _, _ => none

/-- `imops w h ops…` -/
def handleImOps (ws : List String) : Option String := do
  match ws with
  | w :: h :: ops =>
    let outs ← runImOps (Img.new (0 : Int) (← w.toNat?) (← h.toNat?)) ops []
    some (" ".intercalate outs)
  | _ => none

/-- `dsq|dsf w h f data…` -/
def handleDownsample {α} [Add α] [Mul α] [Div α] [OfNat α 0] [OfNat α 1] (sc : Sc α) (ws : List String) :
    Option String := do
  match ws with
  | w :: h :: f :: rest =>
    let w ← w.toNat?; let h ← h.toNat?; let f ← f.toNat?
    let (xs, rest) ← parseV3s sc.parse (w * h) rest
    if !rest.isEmpty then none
    if f == 0 then none
    let out := (⟨xs, w, h⟩ : Img (V3 α)).downsample sc.cast f
    some (" ".intercalate (s!"{out.width} {out.height}" :: out.data.map (showV3 sc.show)))
  | _ => none

/-! ### `recurse` with bounces, scripted materials / focus points, recorded casts -/

structure ScriptMat where
  amb : V3 Float
  em : V3 Float
  rho : V3 Float
  base : V3 Float
  a : Float
  q : Float

def parseScriptMats : Nat → List String → Option (List ScriptMat × List String)
  | 0, ws => some ([], ws)
  | k + 1, ws => do
    let (amb, ws) ← parseV3 floatOfHex ws
    let (em, ws) ← parseV3 floatOfHex ws
    let (rho, ws) ← parseV3 floatOfHex ws
    let (base, ws) ← parseV3 floatOfHex ws
    match ws with
    | a :: q :: ws =>
      let (rest, ws) ← parseScriptMats k ws
      some (⟨amb, em, rho, base, ← floatOfHex a, ← floatOfHex q⟩ :: rest, ws)
    | _ => none

def ScriptMat.toMat (m : ScriptMat) : Mat Float Nat :=
  ⟨m.em, m.amb, fun _ _ _ => m.rho,
   fun g normal _ => ((m.base.add (normal.scale m.a)).normalize Float.sqrt, g),
   fun _ _ _ => m.q⟩

def parseScriptFocus : Nat → List String → Option (List (FocusPt Float Nat) × List String)
  | 0, ws => some ([], ws)
  | k + 1, ws => do
    match ws with
    | p :: ws =>
      let p ← floatOfHex p
      let (base, ws) ← parseV3 floatOfHex ws
      match ws with
      | a :: b :: ws =>
        let a ← floatOfHex a; let b ← floatOfHex b
        let (target, ws) ← parseV3 floatOfHex ws
        match ws with
        | q :: _tag :: ws =>
          let q ← floatOfHex q
          let (rest, ws) ← parseScriptFocus k ws
          let f : FocusPt Float Nat := ⟨p,
            fun g _ point normal _ =>
              (((base.add (normal.scale a)).add ((point.sub target).scale b)).normalize Float.sqrt, g),
            fun _ _ _ _ _ => q⟩
          some (f :: rest, ws)
        | _ => none
      | _ => none
    | _ => none

structure CastRec where
  key : String
  hit : Option (Float × V3 Float × Nat)

def rayKey (r : Ray Float) : String := showV3 hexOfFloat r.origin ++ " " ++ showV3 hexOfFloat r.dir

def parseCastRecs : Nat → List String → Option (List CastRec × List String)
  | 0, ws => some ([], ws)
  | k + 1, ws => do
    let (o, ws) ← parseV3 floatOfHex ws
    let (d, ws) ← parseV3 floatOfHex ws
    match ws with
    | f :: s :: ws =>
      let s ← floatOfHex s
      let (n, ws) ← parseV3 floatOfHex ws
      match ws with
      | mid :: ws =>
        let (rest, ws) ← parseCastRecs k ws
        let hit := if f == "1" then some (s, n, (mid.toNat?).getD 0) else none
        some (⟨rayKey ⟨o, d⟩, hit⟩ :: rest, ws)
      | _ => none
    | _ => none

/-- The scene oracle: what the real scene answered for that exact ray; a ray the real code never
cast is answered with a NaN hit so that the disagreement is visible in the output. -/
def recordedScene (mats : List (Mat Float Nat)) (recs : List CastRec) : Ray Float → Option (Hit Float × Mat Float Nat) :=
  fun r =>
    let dflt : Mat Float Nat := ⟨V3.zero, V3.zero, fun _ _ _ => V3.zero, fun g n _ => (n, g), fun _ _ _ => 1⟩
    match recs.find? (fun e => e.key == rayKey r) with
    | some e => e.hit.map fun (s, n, mid) => (⟨s, n, mid⟩, mats.getD mid dflt)
    | none => some (⟨0.0 / 0.0, V3.zero, 0⟩, dflt)

def parseFloatsN : Nat → List String → Option (List Float × List String)
  | 0, ws => some ([], ws)
  | k + 1, w :: ws => do
    let x ← floatOfHex w
    let (rest, ws) ← parseFloatsN k ws
    some (x :: rest, ws)
  | _, _ => none

/-- `bouncef maxDepth cutoff eps ray nm mats… nf focus… nu us… nr recs…` → one `recurse` sample. -/
def handleBounceF (ws : List String) : Option String := do
  match ws with
  | md :: cutoff :: eps :: ws =>
    let md ← md.toNat?; let cutoff ← floatOfHex cutoff; let eps ← floatOfHex eps
    let (o, ws) ← parseV3 floatOfHex ws
    let (d, ws) ← parseV3 floatOfHex ws
    match ws with
    | nm :: ws =>
      let (mats, ws) ← parseScriptMats (← nm.toNat?) ws
      match ws with
      | nf :: ws =>
        let (focus, ws) ← parseScriptFocus (← nf.toNat?) ws
        match ws with
        | nu :: ws =>
          let (us, ws) ← parseFloatsN (← nu.toNat?) ws
          match ws with
          | nr :: ws =>
            let (recs, rest) ← parseCastRecs (← nr.toNat?) ws
            if !rest.isEmpty then none
            let scene := recordedScene (mats.map (·.toMat)) recs
            let uniform : Nat → Float × Nat := fun g => (us.getD g 0, g + 1)
            let v := (recurse scene Float.sqrt Float.abs cutoff eps [] uniform focus md true 0 ⟨o, d⟩ ⟨1, 1, 1⟩).1
            some (showV3 hexOfFloat v)
          | _ => none
        | _ => none
      | _ => none
    | _ => none
  | _ => none

/-! ### Bidirectional path tracer bookkeeping -/

/-- `pendf minLength cutoff n masks… nu us…` → `endedAt final draws scales…`. -/
def handlePEndF (ws : List String) : Option String := do
  match ws with
  | ml :: cutoff :: n :: ws =>
    let ml ← ml.toNat?; let cutoff ← floatOfHex cutoff; let n ← n.toNat?
    let (masks, ws) ← parseV3s floatOfHex n ws
    match ws with
    | nu :: ws =>
      let (us, rest) ← parseFloatsN (← nu.toNat?) ws
      if !rest.isEmpty then none
      let uniform : Nat → Float × Nat := fun g => (us.getD g 0, g + 1)
      let rec go (i : Nat) (ms : List (V3 Float)) (pe : PathEnder Float) (g : Nat) (scales : List Float) :
          Int × PathEnder Float × Nat × List Float :=
        match ms with
        | [] => (-1, pe, g, scales.reverse)
        | m :: ms =>
          let scales := pe.current :: scales
          let (ended, pe, g) := PathEnder.step ml cutoff uniform pe g i m
          if ended then (i, pe, g, scales.reverse) else go (i + 1) ms pe g scales
      let (ended, pe, g, scales) := go 0 masks PathEnder.new 0 []
      some (" ".intercalate (s!"{ended} {hexOfFloat pe.current} {g}" :: scales.map hexOfFloat))
    | _ => none
  | _ => none

def parsePVerts : Nat → List String → Option (List (PVert Float) × List String)
  | 0, ws => some ([], ws)
  | k + 1, ws => do
    let (pt, ws) ← parseV3 floatOfHex ws
    let (n, ws) ← parseV3 floatOfHex ws
    let (src, ws) ← parseV3 floatOfHex ws
    let (dst, ws) ← parseV3 floatOfHex ws
    let (bsdf, ws) ← parseV3 floatOfHex ws
    let (em, ws) ← parseV3 floatOfHex ws
    match ws with
    | mid :: sd :: dd :: rl :: ws =>
      let (rest, ws) ← parsePVerts k ws
      some (⟨pt, n, src, dst, bsdf, em, mid.toNat?, ← floatOfHex sd, ← floatOfHex dd, ← floatOfHex rl⟩ :: rest, ws)
    | _ => none

/-- `densf fourPi totalLight maxDepth maxLightDepth n verts…` → the densities `Densities` reports. -/
def handleDensF (ws : List String) : Option String := do
  match ws with
  | fp :: tl :: md :: mld :: n :: ws =>
    let fp ← floatOfHex fp; let tl ← floatOfHex tl
    let (vs, rest) ← parsePVerts (← n.toNat?) ws
    if !rest.isEmpty then none
    let ds := densities Float.abs fp vs tl (← md.toNat?) (← mld.toNat?)
    some (" ".intercalate (toString ds.length :: ds.map hexOfFloat))
  | _ => none

def parseBptMats : Nat → List String → Option (List (V3 Float × Float × Float) × List String)
  | 0, ws => some ([], ws)
  | k + 1, ws => do
    let (rho, ws) ← parseV3 floatOfHex ws
    match ws with
    | q :: dq :: ws =>
      let (rest, ws) ← parseBptMats k ws
      some ((rho, ← floatOfHex q, ← floatOfHex dq) :: rest, ws)
    | _ => none

/-- `bptf fourPi tiny eps totalLight maxDepth maxLightDepth nm mats… ne eye… nl light… nr recs…`
→ `rayColor` given the two sampled paths. -/
def handleBptF (ws : List String) : Option String := do
  match ws with
  | fp :: tiny :: eps :: tl :: md :: mld :: nm :: ws =>
    let fp ← floatOfHex fp; let tiny ← floatOfHex tiny; let eps ← floatOfHex eps; let tl ← floatOfHex tl
    let md ← md.toNat?; let mld ← mld.toNat?
    let (mats, ws) ← parseBptMats (← nm.toNat?) ws
    match ws with
    | ne :: ws =>
      let (eye, ws) ← parsePVerts (← ne.toNat?) ws
      match ws with
      | nl :: ws =>
        let (light, ws) ← parsePVerts (← nl.toNat?) ws
        match ws with
        | nr :: ws =>
          let (recs, rest) ← parseCastRecs (← nr.toNat?) ws
          if !rest.isEmpty then none
          let mat (id : Nat) := mats.getD id (V3.zero, 1, 1)
          let me : MatEval Float := ⟨fun id _ _ _ => (mat id).2.1, fun id _ _ _ => (mat id).2.2, fun id _ _ _ => (mat id).1⟩
          let sceneScale : Ray Float → Option Float := fun r =>
            match recs.find? (fun e => e.key == rayKey r) with
            | some e => e.hit.map (·.1)
            | none => some (0.0 / 0.0)
          -- every connection the model tests must be a ray the real code cast
          let combos := allCombos Float.sqrt Float.abs fp me eye light tl eye.length 1 1 ⟨1, 1, 1⟩
          let known := combos.all fun c =>
            match c.connect with
            | some (p1, p2) =>
              if c.intensity.x + c.intensity.y + c.intensity.z < tiny then true
              else
                let dir := (p2.sub p1).normalize Float.sqrt
                let ray : Ray Float := ⟨p1.add ((dir.normalize Float.sqrt).scale eps), dir⟩
                recs.any (fun e => e.key == rayKey ray)
            | none => true
          if !known then some "unknown-connection-ray"
          else
            let v := rayColorFromPaths Float.sqrt Float.abs fp tiny me eye light tl md mld
              (connectionBlocked Float.sqrt eps sceneScale)
            some (showV3 hexOfFloat v)
        | _ => none
      | _ => none
    | _ => none
  | _ => none

def handleAll (ws : List String) : Option String :=
  match ws with
  | "estf" :: rest => handleEstF rest
  | "estq" :: rest => handleEstQ rest
  | "varf" :: rest => handleVar scFloat rest
  | "varq" :: rest => handleVar scRat rest
  | "rvarf" :: rest => handleRVar rest
  | "map" :: rest => handleMap rest
  | "castq" :: rest => handleCastQ rest
  | "camf" :: rest => handleCamF rest
  | "treef" :: rest => handleTreeF rest
  | "treeq" :: rest => handleTreeQ rest
  | "joinf" :: rest => handleJoinF true rest
  | "bvhf" :: rest => handleJoinF false rest
  | "xprim" :: _how :: _kind :: rest => some (" ".intercalate rest)
  | "img" :: rest => handleImg rest
  | "litf" :: rest => handleLitF rest
  | "dircamf" :: rest => handleDirCamF rest
  | "imops" :: rest => handleImOps rest
  | "bouncef" :: rest => handleBounceF rest
  | "pendf" :: rest => handlePEndF rest
  | "densf" :: rest => handleDensF rest
  | "bptf" :: rest => handleBptF rest
  | "dsq" :: rest => handleDownsample scRat rest
  | "dsf" :: rest => handleDownsample scFloat rest
  -- `dircam fov dir min max`: the specification (`directional_camera_contains`) is a constant
  | ["dircam", _, _, _, _, _, _, _, _, _, _] => some "contained"
  | _ => none

end M3d.Drv.C20
