import M3d.Basic
/-! Line-protocol handler for C20. Core-only. (stub) -/
namespace M3d.Drv.C20

def handleAll (ws : List String) : Option String := none

end M3d.Drv.C20
