import M3d.Basic
import M3d.Model.Collide
import M3d.Model.CollideXf
import M3d.Model.CollideCone
import M3d.Model.CollideQuery
import M3d.Model.CollideScale
import M3d.Model.CollideAxis
import M3d.Model.CollideBVH
/-!
Line-protocol handler for C07.  Core-only; runs the models of `M3d/Model/Collide.lean`
* at `Rat` for the `…x` kinds (exact mode: dyadic inputs on which every Go float operation is exact),
* at `Float` for the `…b` kinds (bits mode: same IEEE operations in the same order as the Go code),
and evaluates the contract predicate `M3d.Col.obsVerdict` (the Boolean `obsOk` of `Props/C07.contract_obs`)
on observations of the real code for the `obs2` / `obs3` kinds.

Kinds (see notes/C07.md):
  obs3|obs2 <collider-kind> (fail | n0 n1 ok first t…)    contract on an observation (bits → exact Rat)
  rectx  lo hi o d                    Rect.RayCollisions + FirstRayCollision               (Rat)
  trix   a b c o d                    Triangle.RayCollisions + FirstRayCollision           (Rat)
  seg2x  s0 s1 o d                    2-D Segment.RayCollisions + FirstRayCollision        (Rat)
  joinx  n (a b c)… o d               soup of triangles: concatenation / min, canonically sorted (Rat)
  profx  n (s0 s1)… minZ maxZ o d     profileCollider over a 2-D segment soup               (Rat)
  ballx  a b c ctr r                  Triangle.SphereCollision = squared distance < r²      (Rat, spec)
  circx  s0 s1 ctr r                  2-D Segment.CircleCollision = squared distance < r²   (Rat, spec)
  segx   a b c s0 s1                  Triangle.SegmentCollision                             (Rat)
  sphereb c r o d | trib a b c o d | seg2b s0 s1 o d | rectb lo hi o d | planeb n bias o d |
  circleb n c r o d | cylb p1 p2 r o d | capb p1 p2 r o d | coneb tip base r o d           (Float bits)
  cylx    p1 p2 r o d                 Cylinder.RayCollisions / FirstRayCollision / Contains(o) for a ray exactly along
                                      the axis: the specification `cylAxisSpec` (Rat, spec)
  tballx  xf3 n (a b c)… ctr r        TransformCollider(t, triangles).SphereCollision = the IMAGE triangles
                                      are within r of ctr                                   (Rat, spec)
  tsphx   xf3 center R ctr r          TransformCollider(t, Sphere).SphereCollision = the image sphere meets
                                      the closed ball                                       (Rat, spec)
  tcircx  xf2 n (s0 s1)… ctr r        2-D TransformCollider(t, segments).CircleCollision    (Rat, spec)
  tcirc2x xf2 center R ctr r          2-D TransformCollider(t, Circle).CircleCollision      (Rat, spec)
  (xf: T x y [z] | S s | O m… | J n xf…, the token syntax of C05)
  containx n (a b c)… o margin        ColliderContains(mesh collider, o, margin) + the parity of the count (Rat)
  rect2x  G|A n (s0 s1)… lo hi        2-D mesh collider.RectCollision = some segment has a point in the closed
                                      box (Rat, spec; G: + the faithful hierarchy in the order given)
  tritrix a b c a' b' c'              Triangle.TriangleCollisions: a segment is reported? (Rat)
  mtritrix G|A n (a b c)… q0 q1 q2    3-D mesh collider.TriangleCollisions(q): number of segments (Rat)
  profballx n (s0 s1)… minZ maxZ c r  profileCollider.SphereCollision (Rat, spec)
  msegx   G|A n (a b c)… s0 s1        3-D mesh collider.SegmentCollision (Rat)
  mseg2x  G|A n (s0 s1)… q0 q1        2-D mesh collider.SegmentCollision (Rat)
  rect2x|mtritrix|msegx|mseg2x W m shape… n prims… query
                                      mode W: BVHToCollider over a hand-built BVH whose branches have 2 or MORE children;
                                      shape = m preorder tokens (`L` a leaf, `B k` a branch with k children), the
                                      primitives in leaf order; the specification (all stored primitives) is printed
                                      and refused with MODEL-NE-SPEC if the faithful n-ary hierarchy (`M3d/Model/
                                      CollideBVH.lean`: every child converted, bounds folded over all children, the
                                      bounds test at every node) answers differently
  reent3|reent2 <collider-kind> (fail | P nP m tok… A nA m tok… I m tok… O m tok…)
                                      an enumeration observed with a passive callback (P) and with a callback that
                                      queries the same collider before it returns (A), the answers of those nested
                                      queries inside (I) and repeated outside (O): `M3d.Col.reentVerdict`
  profrx | joinrx                     = profx | joinx, the callbacks observed by such an active callback
  scale3|scale2 <collider-kind> k (run of the ray (o, d))
                                      what the ray (o, k·d) must report: every parameter divided by k (Float; exact
                                      for the powers of two the harness uses), `M3d.Col.scaledRun`
-/
namespace M3d.Drv.C07
open M3d M3d.Col

abbrev Q := Rat

/-! ### square roots -/

/-- `math.Sqrt` for the exact mode: exact on squares of rationals; otherwise accurate to 2⁻⁶⁰ relative
(only ever compared against thresholds that the inputs keep far away). -/
def sqrtQ (q : Q) : Q :=
  if q ≤ 0 then 0 else
  let n := q.num.toNat
  let d := q.den
  let rn := Nat.sqrt n
  let rd := Nat.sqrt d
  if rn * rn = n ∧ rd * rd = d then (rn : Q) / (rd : Q)
  else
    -- scale so that the integer square root carries ≥ 60 fractional bits
    let k : Nat := 2 ^ 160
    ((Nat.sqrt (n * k / d) : Nat) : Q) / ((2 : Q) ^ 80)

def epsQ : Q := (1 : Q) / 100000000
/-- the double nearest to 1e-8 (Go's constant `1e-8`) -/
def epsF : Float := Float.ofBits 0x3e45798ee2308c3a
/-- the double nearest to 1e-5 (`safeNormal`) -/
def tolF : Float := Float.ofBits 0x3ee4f8b588e368f1

/-! ### parsing -/

abbrev P (_σ α : Type) := List String → Option (α × List String)

def pScalar {σ : Type} (rd : String → Option σ) : P σ σ
  | w :: ws => (rd w).map (·, ws)
  | [] => none

def pV3 {σ : Type} (rd : String → Option σ) : P σ (V3 σ) := fun ws => do
  let (x, ws) ← pScalar rd ws
  let (y, ws) ← pScalar rd ws
  let (z, ws) ← pScalar rd ws
  some (⟨x, y, z⟩, ws)

def pV2 {σ : Type} (rd : String → Option σ) : P σ (V2 σ) := fun ws => do
  let (x, ws) ← pScalar rd ws
  let (y, ws) ← pScalar rd ws
  some (⟨x, y⟩, ws)

def pNat : List String → Option (Nat × List String)
  | w :: ws => w.toNat?.map (·, ws)
  | [] => none

/-! ### printing -/

def showHit {σ : Type} (sh : σ → String) (h : Hit σ) : String :=
  s!"{sh h.t} {sh h.n.x} {sh h.n.y} {sh h.n.z}"

def showHit2 {σ : Type} (sh : σ → String) (h : Hit2 σ) : String :=
  s!"{sh h.t} {sh h.n.x} {sh h.n.y}"

/-- `n0 n1 T hit … F (0 | 1 hit)` -/
def showRun {σ H : Type} (shH : H → String) (c : Collider σ H) (r : σ) : String :=
  let with_ := c.ray r true
  let without := c.ray r false
  let hits := " ".intercalate (with_.2.map fun h => "T " ++ shH h)
  let first := match c.first r with
    | none => "F 0"
    | some h => "F 1 " ++ shH h
  s!"{without.1} {with_.1} {hits} {first}"

/-! ### observations: the contract predicate -/

def ratOfHex (s : String) : Option Q := (parseHex s).bind fun n => ratOfBits n.toUInt64

def handleObs (ws : List String) : Option String :=
  match ws with
  | _kind :: "fail" :: _ => some "viol:panic-or-timeout"
  | _kind :: n0 :: n1 :: ok :: first :: ts => do
      let n0 ← n0.toNat?
      let n1 ← n1.toNat?
      let okb ← if ok = "1" then some true else if ok = "0" then some false else none
      match ts.mapM ratOfHex with
      | none => some "viol:nonfinite-parameter"
      | some tq =>
        let fq := (ratOfHex first).getD 0
        if okb && (ratOfHex first).isNone then some "viol:nonfinite-first"
        else
          let v := obsVerdict n0 n1 okb fq tq
          some (if v = "ok" then "ok" else "viol:" ++ v)
  | _ => none

/-! ### generic handlers (σ = Rat or Float) -/

section Generic
variable {σ : Type} [Add σ] [Sub σ] [Mul σ] [Div σ] [Neg σ] [LT σ] [LE σ] [DecidableLT σ] [DecidableLE σ]
  [OfNat σ 0] [OfNat σ 1]

def hRect (rd : String → Option σ) (sh : σ → String) (ws : List String) : Option String := do
  let (lo, ws) ← pV3 rd ws
  let (hi, ws) ← pV3 rd ws
  let (o, ws) ← pV3 rd ws
  let (d, ws) ← pV3 rd ws
  if !ws.isEmpty then none
  some (showRun (showHit sh) (rectCollider lo hi) (o, d))

def hTri (sq : σ → σ) (eps : σ) (rd : String → Option σ) (sh : σ → String) (ws : List String) : Option String := do
  let (a, ws) ← pV3 rd ws
  let (b, ws) ← pV3 rd ws
  let (c, ws) ← pV3 rd ws
  let (o, ws) ← pV3 rd ws
  let (d, ws) ← pV3 rd ws
  if !ws.isEmpty then none
  let bary := match triRay sq eps a b c o d with
    | none => "B 0"
    | some s => s!"B 1 {sh s.u} {sh s.v} {sh s.t}"
  some (showRun (showHit sh) (triCollider sq eps a b c) (o, d) ++ " " ++ bary)

def hSeg2 (sq : σ → σ) (eps : σ) (rd : String → Option σ) (sh : σ → String) (ws : List String) : Option String := do
  let (s0, ws) ← pV2 rd ws
  let (s1, ws) ← pV2 rd ws
  let (o, ws) ← pV2 rd ws
  let (d, ws) ← pV2 rd ws
  if !ws.isEmpty then none
  some (showRun (showHit2 sh) (seg2Collider sq eps s0 s1) (o, d))

def hSphere (sq : σ → σ) (rd : String → Option σ) (sh : σ → String) (ws : List String) : Option String := do
  let (c, ws) ← pV3 rd ws
  let (r, ws) ← pScalar rd ws
  let (o, ws) ← pV3 rd ws
  let (d, ws) ← pV3 rd ws
  if !ws.isEmpty then none
  some (showRun (showHit sh) (sphereCollider sq c r) (o, d))

def hPlane (sq : σ → σ) (eps : σ) (rd : String → Option σ) (sh : σ → String) (ws : List String) : Option String := do
  let (n, ws) ← pV3 rd ws
  let (bias, ws) ← pScalar rd ws
  let (o, ws) ← pV3 rd ws
  let (d, ws) ← pV3 rd ws
  if !ws.isEmpty then none
  some (match castPlane sq eps n bias o d with
    | none => "0"
    | some t => s!"1 {sh t}")

def hCircle (sq : σ → σ) (eps : σ) (rd : String → Option σ) (sh : σ → String) (ws : List String) : Option String := do
  let (n, ws) ← pV3 rd ws
  let (c, ws) ← pV3 rd ws
  let (r, ws) ← pScalar rd ws
  let (o, ws) ← pV3 rd ws
  let (d, ws) ← pV3 rd ws
  if !ws.isEmpty then none
  some (match castCircle sq eps n c r o d with
    | none => "0"
    | some h => s!"1 {showHit sh h}")

def hCyl (sq : σ → σ) (eps : σ) (rd : String → Option σ) (sh : σ → String) (ws : List String) : Option String := do
  let (p1, ws) ← pV3 rd ws
  let (p2, ws) ← pV3 rd ws
  let (r, ws) ← pScalar rd ws
  let (o, ws) ← pV3 rd ws
  let (d, ws) ← pV3 rd ws
  if !ws.isEmpty then none
  some (showRun (showHit sh) (cylCollider sq eps p1 p2 r) (o, d))

def hCone (sq : σ → σ) (eps tol : σ) (rd : String → Option σ) (sh : σ → String) (ws : List String) : Option String := do
  let (tip, ws) ← pV3 rd ws
  let (base, ws) ← pV3 rd ws
  let (r, ws) ← pScalar rd ws
  let (o, ws) ← pV3 rd ws
  let (d, ws) ← pV3 rd ws
  if !ws.isEmpty then none
  some (showRun (showHit sh) (coneCollider sq eps tol tip base r) (o, d))

def hCap (sq : σ → σ) (rd : String → Option σ) (sh : σ → String) (ws : List String) : Option String := do
  let (p1, ws) ← pV3 rd ws
  let (p2, ws) ← pV3 rd ws
  let (r, ws) ← pScalar rd ws
  let (o, ws) ← pV3 rd ws
  let (d, ws) ← pV3 rd ws
  if !ws.isEmpty then none
  some (showRun (showHit sh) (capsuleCollider sq p1 p2 r) (o, d) ++ " I " ++
    boolStr (capsuleContains sq p1 p2 r o))

end Generic

/-! ### exact-mode only kinds -/

def ratLt (a b : Q) : Bool := decide (a < b)

/-- canonical order of hits (the BVH decides the traversal order in Go; the harness sorts the same way) -/
def hitLt (a b : Hit Q) : Bool :=
  ratLt a.t b.t || (a.t == b.t && (ratLt a.n.x b.n.x || (a.n.x == b.n.x && (ratLt a.n.y b.n.y ||
    (a.n.y == b.n.y && ratLt a.n.z b.n.z)))))

def pTris : Nat → P Q (List (V3 Q × V3 Q × V3 Q))
  | 0, ws => some ([], ws)
  | n + 1, ws => do
      let (a, ws) ← pV3 parseRat ws
      let (b, ws) ← pV3 parseRat ws
      let (c, ws) ← pV3 parseRat ws
      let (rest, ws) ← pTris n ws
      some ((a, b, c) :: rest, ws)

def pSegs : Nat → P Q (List (V2 Q × V2 Q))
  | 0, ws => some ([], ws)
  | n + 1, ws => do
      let (a, ws) ← pV2 parseRat ws
      let (b, ws) ← pV2 parseRat ws
      let (rest, ws) ← pSegs n ws
      some ((a, b) :: rest, ws)

/-- `cylx`: a ray exactly along the axis of a cylinder (`d = v·k` for the unit axis `v = (P2-P1).Normalize()`, checked
here): the answer is the specification `cylAxisSpec` (`M3d.C07.cylinder_axis_rays`: it is what `Cylinder.RayCollisions`
computes, its parameters are exactly the `t ≥ 0` with the ray point on the surface, and the count is odd iff the origin
is inside), refused if the transcription `cylHits` of `Cylinder.RayCollisions` at `Rat` differs; then
`Cylinder.Contains(origin)` (`M3d.C07.cylinder_contains_iff`). -/
def hCylAxis (ws : List String) : Option String := do
  let (p1, ws) ← pV3 parseRat ws
  let (p2, ws) ← pV3 parseRat ws
  let (r, ws) ← pScalar parseRat ws
  let (o, ws) ← pV3 parseRat ws
  let (d, ws) ← pV3 parseRat ws
  if !ws.isEmpty then none
  let v := (p2.sub p1).normalize sqrtQ
  let len := (p2.sub p1).norm sqrtQ
  let k := d.dot v
  let dk := v.scale k
  -- the hypotheses of the theorem: unit axis, radius > 0, direction exactly `v·k`, `k ≠ 0`
  if v.dot v != 1 || r ≤ 0 || k == 0 || dk.x != d.x || dk.y != d.y || dk.z != d.z then none
  let spec := cylAxisSpec p1 v len r o k
  let model := cylHits sqrtQ epsQ p1 p2 r o d
  let col : Collider (V3 Q × V3 Q) (Hit Q) := ofHits (fun _ => spec) (fun _ => minFirst Hit.t spec none)
  some (if spec.map (showHit showRat) != model.map (showHit showRat) then
      s!"MODEL-NE-SPEC spec={spec.map (showHit showRat)} model={model.map (showHit showRat)}"
    else showRun (showHit showRat) col (o, d) ++ " I " ++ boolStr (cylContains sqrtQ p1 p2 r o))

/-- soup of triangles: the joined collider with an always-admitting prefilter is the brute-force answer
(`joined_contract`: concatenation, sum, minimum); callbacks are printed in canonical order. -/
def hJoin (ws : List String) : Option String := do
  let (n, ws) ← pNat ws
  let (tris, ws) ← pTris n ws
  let (o, ws) ← pV3 parseRat ws
  let (d, ws) ← pV3 parseRat ws
  if !ws.isEmpty then none
  let parts := tris.map fun (a, b, c) => triCollider sqrtQ epsQ a b c
  let j : Collider (V3 Q × V3 Q) (Hit Q) := joined Hit.t (fun _ => true) parts
  let with_ := j.ray (o, d) true
  let without := j.ray (o, d) false
  let hits := " ".intercalate ((sortBy hitLt with_.2).map fun h => "T " ++ showHit showRat h)
  -- the first collision: only the parameter is canonical when several triangles tie
  let first := match j.first (o, d) with
    | none => "F 0"
    | some h => "F 1 " ++ showRat h.t
  some s!"{without.1} {with_.1} {hits} {first}"

/-- the fixed direction of `model2d.ColliderContains` -/
def containsDir2 : V2 Q :=
  ⟨(ratOfBits 0x3fe0b83b6b5b6586).getD 0, (ratOfBits 0x3fbadda91d7b7320).getD 0⟩

/-- `Solid2D = model2d.NewColliderSolid(coll2d)`: in bounds and an odd number of crossings along the fixed direction -/
def solid2Of (segs : List (V2 Q × V2 Q)) : V2 Q → Bool :=
  let ray2 : V2 Q → V2 Q → List (Hit2 Q) := fun o2 d2 =>
    segs.flatMap fun (s0, s1) => seg2Hits sqrtQ epsQ s0 s1 o2 d2
  let lo : V2 Q := segs.foldl (fun m (a, b) => ⟨min m.x (min a.x b.x), min m.y (min a.y b.y)⟩)
    (match segs with | (a, _) :: _ => a | [] => ⟨0, 0⟩)
  let hi : V2 Q := segs.foldl (fun m (a, b) => ⟨max m.x (max a.x b.x), max m.y (max a.y b.y)⟩)
    (match segs with | (a, _) :: _ => a | [] => ⟨0, 0⟩)
  fun p =>
    decide (lo.x ≤ p.x) && decide (p.x ≤ hi.x) && decide (lo.y ≤ p.y) && decide (p.y ≤ hi.y) &&
      ((ray2 p containsDir2).length % 2 == 1)

/-- `profballx`: `ProfileCollider(mesh2d, minZ, maxZ).SphereCollision(c, r)`: the square-root-free form `profBallSpec`
(`M3d.C07.profile_ball_touches_iff`: the open ball meets the walls or a face of the extrusion), refused if the faithful
model `profSphere` (with the square root) differs. -/
def hProfBall (ws : List String) : Option String := do
  let (n, ws) ← pNat ws
  let (segs, ws) ← pSegs n ws
  let (minZ, ws) ← pScalar parseRat ws
  let (maxZ, ws) ← pScalar parseRat ws
  let (c, ws) ← pV3 parseRat ws
  let (r, ws) ← pScalar parseRat ws
  let nondeg := segs.all fun (a, b) => (b.sub a).dot (b.sub a) != 0
  if !ws.isEmpty || !nondeg || r < 0 || maxZ < minZ then none
  let solid2 := solid2Of segs
  let spec := profBallSpec (fun q qq => segs.any fun (a, b) => seg2BallSpec a b q qq) solid2 minZ maxZ c r
  let model := profSphere sqrtQ (fun q rho => segs.any fun (a, b) => seg2Circle sqrtQ a b q rho) solid2 minZ maxZ c r
  some (if spec == model then boolStr spec else s!"MODEL-NE-SPEC spec={boolStr spec} model={boolStr model}")

def hProf (ws : List String) : Option String := do
  let (n, ws) ← pNat ws
  let (segs, ws) ← pSegs n ws
  let (minZ, ws) ← pScalar parseRat ws
  let (maxZ, ws) ← pScalar parseRat ws
  let (o, ws) ← pV3 parseRat ws
  let (d, ws) ← pV3 parseRat ws
  if !ws.isEmpty then none
  let ray2 : V2 Q → V2 Q → List (Hit2 Q) := fun o2 d2 =>
    segs.flatMap fun (s0, s1) => seg2Hits sqrtQ epsQ s0 s1 o2 d2
  let solid2 := solid2Of segs
  let c := profileCollider ray2 solid2 minZ maxZ
  let with_ := c.ray (o, d) true
  let without := c.ray (o, d) false
  let hits := " ".intercalate ((sortBy hitLt with_.2).map fun h => "T " ++ showHit showRat h)
  let first := match c.first (o, d) with
    | none => "F 0"
    | some h => "F 1 " ++ showRat h.t
  some s!"{without.1} {with_.1} {hits} {first}"

/-- `Triangle.SphereCollision`: the answer the property demands (some point of the triangle at squared
distance `< r²`), refused if the faithful model of the Go method disagrees with it. -/
def hBall (ws : List String) : Option String := do
  let (a, ws) ← pV3 parseRat ws
  let (b, ws) ← pV3 parseRat ws
  let (c, ws) ← pV3 parseRat ws
  let (ctr, ws) ← pV3 parseRat ws
  let (r, ws) ← pScalar parseRat ws
  if !ws.isEmpty then none
  let spec := triBallSpec a b c ctr (r * r)
  let model := triSphere sqrtQ epsQ a b c ctr r
  some (if spec == model then boolStr spec else s!"MODEL-NE-SPEC spec={boolStr spec} model={boolStr model}")

def hCirc (ws : List String) : Option String := do
  let (s0, ws) ← pV2 parseRat ws
  let (s1, ws) ← pV2 parseRat ws
  let (ctr, ws) ← pV2 parseRat ws
  let (r, ws) ← pScalar parseRat ws
  if !ws.isEmpty then none
  let spec := seg2BallSpec s0 s1 ctr (r * r)
  let model := seg2Circle sqrtQ s0 s1 ctr r
  some (if spec == model then boolStr spec else s!"MODEL-NE-SPEC spec={boolStr spec} model={boolStr model}")

def hSegx (ws : List String) : Option String := do
  let (a, ws) ← pV3 parseRat ws
  let (b, ws) ← pV3 parseRat ws
  let (c, ws) ← pV3 parseRat ws
  let (s0, ws) ← pV3 parseRat ws
  let (s1, ws) ← pV3 parseRat ws
  if !ws.isEmpty then none
  some (boolStr (triSegment sqrtQ epsQ a b c s0 s1))

/-! ### ball queries against transformed colliders

The answer printed is what the property demands — "the image surface meets the ball", evaluated sqrt-free on
the image triangles / segments / the image sphere — and the line is refused (`MODEL-NE-SPEC`) if the faithful
model of `transformedCollider.SphereCollision` (`tSphere`: centre through `t.Inverse()`, radius through
`t.Inverse().ApplyDistance`, then the wrapped collider's own method) answers differently.  That the two agree
for every similarity transform is `M3d.C07.transformed_ball_touches_iff_triangle`, `…_segment2d`, `…_sphere`,
`…_circle2d`; the hypotheses of those theorems (`DistValid`, non-degenerate shapes, `r ≥ 0`) are checked here. -/

mutual
partial def pXf3 : List String → Option (Tf.Xf Q × List String)
  | "T" :: ws => do let (v, ws) ← pV3 parseRat ws; some (.translate v.toTf, ws)
  | "S" :: ws => do let (s, ws) ← pScalar parseRat ws; some (.scale s, ws)
  | "O" :: ws => do
      let (r0, ws) ← pV3 parseRat ws
      let (r1, ws) ← pV3 parseRat ws
      let (r2, ws) ← pV3 parseRat ws
      some (.ortho ⟨r0.x, r0.y, r0.z, r1.x, r1.y, r1.z, r2.x, r2.y, r2.z⟩, ws)
  | "J" :: ws => do let (n, ws) ← pNat ws; pJoin3 n ws
  | _ => none
partial def pJoin3 : Nat → List String → Option (Tf.Xf Q × List String)
  | 0, ws => some (.jnil, ws)
  | n + 1, ws => do
      let (t, ws) ← pXf3 ws
      let (r, ws) ← pJoin3 n ws
      some (.jcons t r, ws)
end

mutual
partial def pXf2 : List String → Option (Tf.Xf2 Q × List String)
  | "T" :: ws => do let (v, ws) ← pV2 parseRat ws; some (.translate v.toTf, ws)
  | "S" :: ws => do let (s, ws) ← pScalar parseRat ws; some (.scale s, ws)
  | "O" :: ws => do
      let (r0, ws) ← pV2 parseRat ws
      let (r1, ws) ← pV2 parseRat ws
      some (.ortho ⟨r0.x, r0.y, r1.x, r1.y⟩, ws)
  | "J" :: ws => do let (n, ws) ← pNat ws; pJoin2 n ws
  | _ => none
partial def pJoin2 : Nat → List String → Option (Tf.Xf2 Q × List String)
  | 0, ws => some (.jnil, ws)
  | n + 1, ws => do
      let (t, ws) ← pXf2 ws
      let (r, ws) ← pJoin2 n ws
      some (.jcons t r, ws)
end

/-- the decidable form of `Tf.Xf.DistValid` (non-zero scales, `MᵀM = 1`) -/
def xfOK3 : Tf.Xf Q → Bool
  | .translate _ => true
  | .scale s => s != 0
  | .ortho m => m.transpose.mul m == Tf.M3.one
  | .jnil => true
  | .jcons t r => xfOK3 t && xfOK3 r
  | _ => false

def xfOK2 : Tf.Xf2 Q → Bool
  | .translate _ => true
  | .scale s => s != 0
  | .ortho m => m.transpose.mul m == Tf.M2.one
  | .jnil => true
  | .jcons t r => xfOK2 t && xfOK2 r
  | _ => false

def verdict (spec model : Bool) : String :=
  if spec == model then boolStr spec else s!"MODEL-NE-SPEC spec={boolStr spec} model={boolStr model}"

def hTBall (ws : List String) : Option String := do
  let (t, ws) ← pXf3 ws
  let (n, ws) ← pNat ws
  let (tris, ws) ← pTris n ws
  let (ctr, ws) ← pV3 parseRat ws
  let (r, ws) ← pScalar parseRat ws
  let nondeg := tris.all fun (a, b, c) =>
    let nrm := (b.sub a).cross (c.sub a)
    nrm.dot nrm != 0
  if !ws.isEmpty || !xfOK3 t || r < 0 || !nondeg then none
  let spec := tris.any fun (a, b, c) => triBallSpec (xfApply t a) (xfApply t b) (xfApply t c) ctr (r * r)
  let model := tSphere t (fun q rho => tris.any fun (a, b, c) => triSphere sqrtQ epsQ a b c q rho) ctr r
  some (verdict spec model)

def hTSph (ws : List String) : Option String := do
  let (t, ws) ← pXf3 ws
  let (center, ws) ← pV3 parseRat ws
  let (bigR, ws) ← pScalar parseRat ws
  let (ctr, ws) ← pV3 parseRat ws
  let (r, ws) ← pScalar parseRat ws
  if !ws.isEmpty || !xfOK3 t || r < 0 || bigR < 0 then none
  let spec := ballSphereSpec (ctr.distSq (xfApply t center)) (t.applyDistance bigR) r
  let model := tSphere t (sphereBall sqrtQ center bigR) ctr r
  some (verdict spec model)

def hTCirc (ws : List String) : Option String := do
  let (t, ws) ← pXf2 ws
  let (n, ws) ← pNat ws
  let (segs, ws) ← pSegs n ws
  let (ctr, ws) ← pV2 parseRat ws
  let (r, ws) ← pScalar parseRat ws
  let nondeg := segs.all fun (a, b) => (b.sub a).dot (b.sub a) != 0
  if !ws.isEmpty || !xfOK2 t || r < 0 || !nondeg then none
  let spec := segs.any fun (a, b) => seg2BallSpec (xf2Apply t a) (xf2Apply t b) ctr (r * r)
  let model := tCircle t (fun q rho => segs.any fun (a, b) => seg2Circle sqrtQ a b q rho) ctr r
  some (verdict spec model)

def hTCirc2 (ws : List String) : Option String := do
  let (t, ws) ← pXf2 ws
  let (center, ws) ← pV2 parseRat ws
  let (bigR, ws) ← pScalar parseRat ws
  let (ctr, ws) ← pV2 parseRat ws
  let (r, ws) ← pScalar parseRat ws
  if !ws.isEmpty || !xfOK2 t || r < 0 || bigR < 0 then none
  let spec := ballSphereSpec (ctr.distSq (xf2Apply t center)) (t.applyDistance bigR) r
  let model := tCircle t (circleBall sqrtQ center bigR) ctr r
  some (verdict spec model)

/-- the fixed direction of `model3d.ColliderContains` -/
def containsDir3 : V3 Q :=
  ⟨(ratOfBits 0x3fe0b83b6b5b6586).getD 0, (ratOfBits 0x3fbadda91d7b7320).getD 0, (ratOfBits 0x3fdbe0b24c2fbce8).getD 0⟩

/-- `ColliderContains(mesh collider, o, margin)`: even-odd containment over the brute-force joined collider
(count = sum over the triangles) and the soup's ball query -/
def hContain (ws : List String) : Option String := do
  let (n, ws) ← pNat ws
  let (tris, ws) ← pTris n ws
  let (o, ws) ← pV3 parseRat ws
  let (margin, ws) ← pScalar parseRat ws
  if !ws.isEmpty then none
  let parts := tris.map fun (a, b, c) => triCollider sqrtQ epsQ a b c
  let j : Collider (V3 Q × V3 Q) (Hit Q) := joined Hit.t (fun _ => true) parts
  let sphere : V3 Q → Q → Bool := fun q rho => tris.any fun (a, b, c) => triSphere sqrtQ epsQ a b c q rho
  let cnt := (j.ray (o, containsDir3) false).1
  some s!"{boolStr (colliderContains j.ray sphere containsDir3 o margin)} {cnt % 2}"

/-! ### box and triangle queries (`M3d/Model/CollideQuery.lean`)

`rect2x`: the answer printed is what the property demands — some segment of the mesh has a point in the closed box,
`seg2RectSpec` (`M3d.C07.rect_touches_iff_segment2d_spec`) — and the line is refused (`MODEL-NE-SPEC`) if the
faithful model of `Segment.RectCollision` on some segment (`seg2Rect`, `M3d.C07.rect_touches_iff_segment2d`), or —
mode `G` — the faithful model of the hierarchy `GroupedSegmentsToCollider` builds in the order given, with the
bounds test of `joinedMultiCollider.RectCollision` at every node (`meshRect2`, `M3d.C07.mesh_rect_touches_iff`),
answers differently.  `tritrix` / `mtritrix`: `triTri` is the model of `Triangle.TriangleCollisions`
(`M3d.C07.triangle_collisions_iff`: it reports a segment iff the triangles have more than one common point, and
then the segment is their intersection); for a mesh the number of segments is the number of triangles that
report one (`M3d.C07.mesh_triangle_collisions`), in mode `G` checked against the faithful hierarchy. -/

/-! ### hand-built BVHs with branches of any width (`M3d/Model/CollideBVH.lean`)

Mode `W` of `rect2x / mseg2x / msegx / mtritrix`: the collider is `BVHToCollider(b)` for a `BVH` built by the harness
(branches with 2..6 children, random partitions, flattened `NewBVHAreaDensity` trees).  The answer printed is the
specification — what ALL stored primitives answer (`M3d.C07.bvh_rect_touches_iff`, `bvh_segment_touches_iff`,
`bvh_segment_touches_iff_2d`, `bvh_triangle_collisions`) — and the faithful n-ary hierarchy is run next to it. -/

/-- `m tok…`: `L` = a leaf child, `B k` = a branch with `k` children -/
def pShape (ws : List String) : Option (List (Option Nat) × List String) := do
  let (m, ws) ← pNat ws
  if ws.length < m then none
  let rec go : Nat → List String → Option (List (Option Nat))
    | _, [] => some []
    | 0, _ => none
    | f + 1, "L" :: r => (go f r).map (none :: ·)
    | f + 1, "B" :: k :: r => k.toNat?.bind fun k => (go f r).map (some k :: ·)
    | _ + 1, _ => none
  let shape ← go (m + 1) (ws.take m)
  some (shape, ws.drop m)

/-- the BVH of a shape over the primitives in leaf order: a single leaf, or the children of the root branch -/
def bvhOfShape {L : Type} (shape : List (Option Nat)) (prims : List L) : Option (Sum L (WTree L)) :=
  match shape, prims with
  | [none], [p] => some (.inl p)
  | some k :: toks, prims =>
    if k == 0 then none else
    match parseKids (shape.length + 2) k toks prims with
    | some (t, [], []) => some (.inr t)
    | _ => none
  | _, _ => none

/-- mode token, and for `W` the shape -/
def pMode (ws : List String) : Option (String × Option (List (Option Nat)) × List String) :=
  match ws with
  | "W" :: ws => (pShape ws).map fun (sh, ws) => ("W", some sh, ws)
  | m :: ws => some (m, none, ws)
  | [] => none

def hRect2 (ws : List String) : Option String := do
  let (mode, shape, ws) ← pMode ws
  let (n, ws) ← pNat ws
  let (segs, ws) ← pSegs n ws
  let (lo, ws) ← pV2 parseRat ws
  let (hi, ws) ← pV2 parseRat ws
  let nondeg := segs.all fun (a, b) => (b.sub a).dot (b.sub a) != 0
  if !ws.isEmpty || !nondeg || !(lo.x < hi.x) || !(lo.y < hi.y) then none
  let spec := segs.any fun (a, b) => seg2RectSpec a b lo hi
  let leaves := segs.any fun (a, b) => seg2Rect sqrtQ epsQ a b lo hi
  if spec != leaves then some s!"MODEL-NE-SPEC spec={boolStr spec} segments={boolStr leaves}"
  else if mode == "G" then
    match groupedTree (n + 1) segs with
    | none => if n == 0 then some (boolStr spec) else none
    | some t => some (verdict spec (meshRect2 sqrtQ epsQ t lo hi))
  else if mode == "A" then some (boolStr spec)
  else if mode == "W" then
    match ← bvhOfShape (← shape) segs with
    | .inl _ => some (boolStr spec)
    | .inr t => some (verdict spec (bvhRect2 sqrtQ epsQ t lo hi))
  else none

def pTri3 : P Q (Tri3 Q) := fun ws => do
  let (a, ws) ← pV3 parseRat ws
  let (b, ws) ← pV3 parseRat ws
  let (c, ws) ← pV3 parseRat ws
  some ((a, b, c), ws)

def hTriTri (ws : List String) : Option String := do
  let (t, ws) ← pTri3 ws
  let (t1, ws) ← pTri3 ws
  if !ws.isEmpty then none
  some (match triTri sqrtQ epsQ t t1 with | none => "0" | some _ => "1")

def hMeshTriTri (ws : List String) : Option String := do
  let (mode, shape, ws) ← pMode ws
  let (n, ws) ← pNat ws
  let (tris, ws) ← pTris n ws
  let (q, ws) ← pTri3 ws
  if !ws.isEmpty then none
  let spec := (tris.filter fun l => (triTri sqrtQ epsQ l q).isSome).length
  if mode == "G" then
    match groupedTree (n + 1) tris with
    | none => if n == 0 then some (toString spec) else none
    | some t =>
      let model := (meshTriTri sqrtQ epsQ t q).length
      some (if model == spec then toString spec else s!"MODEL-NE-SPEC spec={spec} model={model}")
  else if mode == "A" then some (toString spec)
  else if mode == "W" then
    match ← bvhOfShape (← shape) tris with
    | .inl _ => some (toString spec)
    | .inr t =>
      let model := (bvhTriTri sqrtQ epsQ t q).length
      some (if model == spec then toString spec else s!"MODEL-NE-SPEC spec={spec} model={model}")
  else none

/-- `msegx`: 3-D mesh collider `.SegmentCollision(s0, s1)` = some triangle's `Triangle.SegmentCollision`
(`M3d.C07.mesh_segment_touches_iff`, `segment_touches_iff_triangle`); mode `G` also runs the faithful hierarchy with
the `rayCollisionWithBounds` test at every node. -/
def hMeshSeg3 (ws : List String) : Option String := do
  let (mode, shape, ws) ← pMode ws
  let (n, ws) ← pNat ws
  let (tris, ws) ← pTris n ws
  let (s0, ws) ← pV3 parseRat ws
  let (s1, ws) ← pV3 parseRat ws
  if !ws.isEmpty then none
  let spec := tris.any fun (a, b, c) => triSegment sqrtQ epsQ a b c s0 s1
  if mode == "G" then
    match groupedTree (n + 1) tris with
    | none => if n == 0 then some (boolStr spec) else none
    | some t => some (verdict spec (meshSegment3 sqrtQ epsQ t s0 s1))
  else if mode == "A" then some (boolStr spec)
  else if mode == "W" then
    match ← bvhOfShape (← shape) tris with
    | .inl _ => some (boolStr spec)
    | .inr t => some (verdict spec (bvhSegment3 sqrtQ epsQ t s0 s1))
  else none

/-- `mseg2x`: 2-D mesh collider `.SegmentCollision(q)` (`M3d.C07.mesh_segment_touches_iff_2d`,
`segment_touches_iff_segment2d`) -/
def hMeshSeg2 (ws : List String) : Option String := do
  let (mode, shape, ws) ← pMode ws
  let (n, ws) ← pNat ws
  let (segs, ws) ← pSegs n ws
  let (q0, ws) ← pV2 parseRat ws
  let (q1, ws) ← pV2 parseRat ws
  let nondeg := segs.all fun (a, b) => (b.sub a).dot (b.sub a) != 0
  if !ws.isEmpty || !nondeg || (q1.sub q0).dot (q1.sub q0) == 0 then none
  let spec := segs.any fun (a, b) => seg2Segment sqrtQ epsQ a b q0 q1
  if mode == "G" then
    match groupedTree (n + 1) segs with
    | none => if n == 0 then some (boolStr spec) else none
    | some t => some (verdict spec (meshSegment2 sqrtQ epsQ t q0 q1))
  else if mode == "A" then some (boolStr spec)
  else if mode == "W" then
    match ← bvhOfShape (← shape) segs with
    | .inl _ => some (boolStr spec)
    | .inr t => some (verdict spec (bvhSegment2 sqrtQ epsQ t q0 q1))
  else none

/-! ### re-entrant callbacks, scaled directions (`M3d/Model/CollideScale.lean`) -/

def takeN (n : Nat) (ws : List String) : Option (List String × List String) :=
  if ws.length < n then none else some (ws.take n, ws.drop n)

/-- `tag m tok…` -/
def pToks (tag : String) : List String → Option (List String × List String)
  | t :: m :: ws => if t == tag then m.toNat?.bind fun m => takeN m ws else none
  | _ => none

/-- `tag n m tok…` -/
def pCountToks (tag : String) : List String → Option (Nat × List String × List String)
  | t :: n :: ws => if t == tag then do
      let n ← n.toNat?
      let (toks, ws) ← pToks tag (tag :: ws)
      some (n, toks, ws)
    else none
  | _ => none

/-- The collisions are compared as the bit patterns the harness printed (`t:nx:ny:nz` in hex): `reentVerdict` at the
hit type `String`.  That the verdict is `ok` for every collider that is a function of the ray alone, whatever the
callback does, is `M3d.C07.reent_obs`. -/
def handleReent (ws : List String) : Option String :=
  match ws with
  | _kind :: "fail" :: _ => some "viol:panic-or-timeout"
  | _kind :: ws => do
      let (nP, p, ws) ← pCountToks "P" ws
      let (nA, a, ws) ← pCountToks "A" ws
      let (ni, ws) ← pToks "I" ws
      let (no, ws) ← pToks "O" ws
      if !ws.isEmpty then none
      let v := reentVerdict nP p nA a ni no
      some (if v = "ok" then "ok" else "viol:" ++ v)
  | _ => none

/-- the run `n0 n1 (T t n…)… F (0 | 1 t n…)` of the ray `(o, d)` with every parameter divided by `k`:
`scaledRun (Hit.scaleT k)` on the printed form (`M3d.C07.ray_scale_invariant_*`) -/
def scaleToks (k : Float) : List String → Option (List String)
  | [] => some []
  | "T" :: t :: rest => do
      let x ← floatOfHex t
      let r ← scaleToks k rest
      some ("T" :: hexOfFloat (scaleParam k x) :: r)
  | "F" :: "1" :: t :: rest => do
      let x ← floatOfHex t
      let r ← scaleToks k rest
      some ("F" :: "1" :: hexOfFloat (scaleParam k x) :: r)
  | w :: rest => (scaleToks k rest).map (w :: ·)

def handleScale (ws : List String) : Option String :=
  match ws with
  | _kind :: k :: run => do
      let k ← floatOfHex k
      if !(0 < k) then none
      let r ← scaleToks k run
      some (" ".intercalate r)
  | _ => none

def handleAll (ws : List String) : Option String :=
  match ws with
  | "reent3" :: rest => handleReent rest
  | "reent2" :: rest => handleReent rest
  | "scale3" :: rest => handleScale rest
  | "scale2" :: rest => handleScale rest
  | "profrx" :: rest => hProf rest
  | "joinrx" :: rest => hJoin rest
  | "profballx" :: rest => hProfBall rest
  | "msegx" :: rest => hMeshSeg3 rest
  | "mseg2x" :: rest => hMeshSeg2 rest
  | "rect2x" :: rest => hRect2 rest
  | "tritrix" :: rest => hTriTri rest
  | "mtritrix" :: rest => hMeshTriTri rest
  | "obs3" :: rest => handleObs rest
  | "obs2" :: rest => handleObs rest
  | "rectx" :: rest => hRect parseRat showRat rest
  | "trix" :: rest => hTri sqrtQ epsQ parseRat showRat rest
  | "seg2x" :: rest => hSeg2 sqrtQ epsQ parseRat showRat rest
  | "joinx" :: rest => hJoin rest
  | "profx" :: rest => hProf rest
  | "ballx" :: rest => hBall rest
  | "circx" :: rest => hCirc rest
  | "segx" :: rest => hSegx rest
  | "containx" :: rest => hContain rest
  | "tballx" :: rest => hTBall rest
  | "tsphx" :: rest => hTSph rest
  | "tcircx" :: rest => hTCirc rest
  | "tcirc2x" :: rest => hTCirc2 rest
  | "rectb" :: rest => hRect floatOfHex hexOfFloat rest
  | "trib" :: rest => hTri Float.sqrt epsF floatOfHex hexOfFloat rest
  | "seg2b" :: rest => hSeg2 Float.sqrt epsF floatOfHex hexOfFloat rest
  | "sphereb" :: rest => hSphere Float.sqrt floatOfHex hexOfFloat rest
  | "planeb" :: rest => hPlane Float.sqrt epsF floatOfHex hexOfFloat rest
  | "circleb" :: rest => hCircle Float.sqrt epsF floatOfHex hexOfFloat rest
  | "cylb" :: rest => hCyl Float.sqrt epsF floatOfHex hexOfFloat rest
  | "cylx" :: rest => hCylAxis rest
  | "capb" :: rest => hCap Float.sqrt floatOfHex hexOfFloat rest
  | "coneb" :: rest => hCone Float.sqrt epsF tolF floatOfHex hexOfFloat rest
  | _ => none

end M3d.Drv.C07
