import M3d.Basic
import M3d.Model.RenderSampling
import M3d.Model.LightTree
import M3d.Gen.ReflectAmount
/-!
Line-protocol handler for C19.  Core-only.

Every kind evaluates the executable model of `M3d/Model/RenderSampling.lean` on the arguments of
the line: at `Float` (arguments are 16-hex-digit IEEE bit patterns; the answer must agree with the
Go code bit for bit) or, for the kinds ending in `Q`, at `Rat` (exact).
-/
namespace M3d.Drv.C19
open M3d M3d.RS

/-! ### token parser -/

abbrev P := StateT (List String) Option

def tok : P String := fun s => match s with
  | [] => none
  | t :: r => some (t, r)

def nanF : Float := (0.0 : Float) / 0.0

def pf (t : String) : Option Float := if t = "nan" then some nanF else floatOfHex t
def sf (x : Float) : String := if x.isNaN then "nan" else hexOfFloat x

def fl : P Float := do
  let t ← tok
  match pf t with
  | some x => pure x
  | none => failure

def rat : P Rat := do
  let t ← tok
  match parseRat t with
  | some x => pure x
  | none => failure

def nat : P Nat := do
  let t ← tok
  match t.toNat? with
  | some x => pure x
  | none => failure

def bool : P Bool := do
  let n ← nat
  pure (n != 0)

def v3 : P (V3 Float) := do
  let x ← fl; let y ← fl; let z ← fl
  pure ⟨x, y, z⟩

def many {β} : Nat → P β → P (List β)
  | 0, _ => pure []
  | n + 1, p => do
    let a ← p
    let r ← many n p
    pure (a :: r)

def consts : P (Consts Float) := do
  let eps ← fl; let ome ← fl; let toe ← fl; let pi ← fl; let hgEps ← fl; let hgMax ← fl
  pure ⟨eps, ome, toe, pi, hgEps, hgMax⟩

def tri : P (Tri Float) := do
  let a ← v3; let b ← v3; let c ← v3
  pure ⟨a, b, c⟩

def done : P Unit := fun s => match s with
  | [] => some ((), [])
  | _ => none

def ov (v : V3 Float) : String := s!"{sf v.x},{sf v.y},{sf v.z}"

/-! ### kinds -/

def kSchlick : P String := do
  let ior ← fl; let n ← v3; let s ← v3; done
  pure (sf (reflectAmount ior n s))

/-- The definition regenerated from the Go source, on the same inputs (cross-checks the translator). -/
def kSchlickGen : P String := do
  let ior ← fl; let n ← v3; let s ← v3; done
  pure (sf (M3d.Gen.ReflectAmount.reflectAmount ior n s))

def kRefr : P String := do
  let ior ← fl; let n ← v3; let s ← v3; done
  pure (ov (refract ior n s))

def kRSamp (dest : Bool) : P String := do
  let ior ← fl; let hs ← bool; let n ← v3; let d ← v3; let u ← fl; done
  pure (ov (if dest then refractSampleDest ior hs n d u else refractSampleSource ior hs n d u))

def kRDens (dest : Bool) : P String := do
  let k ← consts; let ior ← fl; let hs ← bool; let n ← v3; let s ← v3; let d ← v3; done
  pure (sf (if dest then refractDestDensity k ior hs n s d else refractSourceDensity k ior hs n s d))

def kRBsdf : P String := do
  let k ← consts; let ior ← fl; let hs ← bool; let rc ← v3; let sc ← v3
  let n ← v3; let s ← v3; let d ← v3; done
  pure (ov (refractMatBSDF k ior hs rc sc n s d))

def kLSamp (dest : Bool) : P String := do
  let n ← v3; let u ← fl; let c ← fl; let s ← fl; done
  let r := lambertSample n u c s
  pure (ov (if dest then r.neg else r))

def kLDens (dest : Bool) : P String := do
  let n ← v3; let s ← v3; done
  pure (sf (lambertDensity n (if dest then s.neg else s)))

def kLBsdf : P String := do
  let df ← v3; let n ← v3; let s ← v3; let d ← v3; done
  pure (ov (lambertBSDF df n s d))

def kAdSamp : P String := do
  let dir ← v3; let cl ← fl; let c ← fl; let s ← fl; done
  pure (ov (aroundDirSample dir cl c s))

def kAdDens : P String := do
  let alpha ← fl; let dir ← v3; let smp ← v3; let p2 ← fl; done
  pure (sf (aroundDirDensity alpha dir smp p2))

def kPSamp : P String := do
  let hd ← bool; let bit ← nat; let n ← v3; let dest ← v3
  let cl ← fl; let u ← fl; let c ← fl; let s ← fl; done
  pure (ov (phongSampleSource hd bit n dest cl u c s))

def kPDens : P String := do
  let hd ← bool; let alpha ← fl; let n ← v3; let sv ← v3; let dest ← v3; let p2 ← fl; done
  let spec := aroundDirDensity alpha (reflectNeg n dest) sv p2
  pure (sf (phongSourceDensity hd spec n sv))

def kPBsdf : P String := do
  let k ← consts; let alpha ← fl; let nf ← bool; let hd ← bool; let sp ← v3; let df ← v3
  let n ← v3; let sv ← v3; let dest ← v3; let pr ← fl; done
  pure (ov (phongBSDF k alpha nf hd sp df n sv dest pr))

def kMaxCos : P String := do
  let k ← consts; let a ← fl; let b ← fl; done
  pure (sf (maximumCosine k a b))

def kHgSamp : P String := do
  let k ← consts; let g ← fl; let dest ← v3; let u ← fl; let c ← fl; let s ← fl; done
  pure (ov (hgSample k g dest u c s))

def kHgNum : P String := do
  let k ← consts; let g ← fl; done
  pure (sf (hgNumericalG k g))

def kHgDens : P String := do
  let k ← consts; let g ← fl; let sv ← v3; let dest ← v3; let p ← fl; done
  let g' := hgNumericalG k g
  let dv := hgDivisor g' (sv.dot dest)
  pure s!"{sf dv} {sf (hgCosDensity g' p)}"

def kJSel : P String := do
  let n ← nat; let ps ← many n fl; let u ← fl; done
  let i := joinSelect ps u
  pure s!"{i} {i}"

def kJSelQ : P String := do
  let n ← nat; let ps ← many n rat; let u ← rat; done
  let i := joinSelect ps u
  pure s!"{i} {i}"

def kJDens : P String := do
  let n ← nat; let ps ← many n fl; let ds ← many n fl; let dd ← many n fl; done
  pure s!"{sf (joinDensity ps ds)} {sf (joinDensity ps dd)}"

def kJDensQ : P String := do
  let n ← nat; let ps ← many n rat; let ds ← many n rat; let dd ← many n rat; done
  pure s!"{showRat (joinDensity ps ds)} {showRat (joinDensity ps dd)}"

def kFInfo : P String := do
  let ce ← v3; let r ← fl; let p ← v3; done
  let fi := focusInfo ce r p
  pure s!"{sf fi.1} {ov fi.2}"

def kAuSamp : P String := do
  let mc ← fl; let u ← fl; let dir ← v3; let cl ← fl; let sl ← fl; let c ← fl; let s ← fl; done
  pure s!"{sf (capCos mc u)} {ov (aroundUniformSample dir cl sl c s)}"

def kAuDens : P String := do
  let mc ← fl; let dir ← v3; let sv ← v3; done
  pure (sf (aroundUniformDensity mc dir sv))

def kFDens : P String := do
  let ce ← v3; let r ← fl; let p ← v3; let fo ← bool; let n ← v3; let sv ← v3; done
  pure (sf (sphereFocusDensity ce r p fo (lambertDensity n sv) sv))

def kFSamp : P String := do
  let ce ← v3; let r ← fl; let p ← v3; let fo ← bool; let n ← v3; let u ← fl
  let cl ← fl; let sl ← fl; let c ← fl; let s ← fl; done
  pure (ov (sphereFocusSample ce r p fo (lambertSample n u c s) cl sl c s))

def sameV (a b : V3 Float) : Bool := a.x == b.x && a.y == b.y && a.z == b.z

def kPFDens : P String := do
  let tg ← v3; let p ← v3; let fo ← bool; let alpha ← fl; let n ← v3; let sv ← v3; let p2 ← fl; done
  pure (sf (phongFocusDensity tg p (sameV tg p) fo alpha (lambertDensity n sv) sv p2))

def kPFSamp : P String := do
  let tg ← v3; let p ← v3; let fo ← bool; let n ← v3
  let uL ← fl; let cL ← fl; let sL ← fl; let cosLat ← fl; let cD ← fl; let sD ← fl; done
  pure (ov (phongFocusSample tg p (sameV tg p) fo (lambertSample n uL cL sL) cosLat cD sD))

def kHgBsdf : P String := do
  let k ← consts; let g ← fl; let sc ← v3; let ign ← bool; let n ← v3; let sv ← v3; let _dest ← v3; let p ← fl; done
  let g' := hgNumericalG k g
  pure (ov (hgBSDF k sc ign n sv (hgCosDensity g' p)))

def kJBsdf : P String := do
  let n ← nat; let bs ← many n v3; done
  pure (ov (joinBSDF bs))

def kSphere : P String := do
  let lo ← fl; let hi ← fl; let k ← consts; let ce ← v3; let r ← fl; let em ← v3
  let t ← nat; let gs ← many t v3; done
  match gs.find? (sphereAccept lo hi) with
  | none => failure
  | some g =>
    let pn := sphereSample ce r g
    pure s!"{ov pn.1} {ov pn.2} {ov em} {sf (sphereTotalEmission k em r)}"

def kCyl : P String := do
  let k ← consts; let p1 ← v3; let p2 ← v3; let r ← fl; let em ← v3
  let c ← fl; let s ← fl; let u2 ← fl; let u3 ← fl; done
  let pn := cylSample k p1 p2 r c s u2 u3
  pure s!"{ov pn.1} {ov pn.2} {ov em} {sf (cylTotalEmission k em p1 p2 r)}"

def kMesh : P String := do
  let n ← nat; let ts ← many n tri; let em ← v3; let u1 ← fl; let u2 ← fl; let u3 ← fl; done
  match meshSample ts u1 u2 u3 with
  | none => pure "panic"
  | some (_, p, nm) => pure s!"{ov p} {ov nm} {ov em} {sf (meshTotalEmission ts em)}"

def kJoin : P String := do
  let n ← nat; let ws ← many n fl; let u ← fl; done
  pure s!"{selectIdx ws u} {sf (total ws)}"

def kSelGrid : P String := do
  let n ← nat; let ws ← many n fl; let g ← nat; done
  let counts := (List.range g).foldl (fun (acc : List Nat) i =>
    let u := Float.ofNat i / Float.ofNat g
    let j := selectIdx ws u
    acc.mapIdx fun idx cnt => if idx = j then cnt + 1 else cnt) (List.replicate n 0)
  pure (",".intercalate (counts.map toString))

/-- A tree of joined lights: `L <hex weight>` or `J <k>` followed by `k` subtrees. -/
partial def ltree : P (LTree Float) := do
  let t ← tok
  if t = "L" then do
    let w ← fl
    pure (.leaf w)
  else if t = "J" then do
    let k ← nat
    let ts ← many k ltree
    pure (.join ts)
  else failure

/-- Nested `JoinAreaLights` with the structure the object really has: the primitive light reached
by the draws (index into the leaves, left to right) and `TotalEmission`. -/
def kJNest : P String := do
  let _built ← tok; let t ← ltree; let d ← nat; let us ← many d fl; done
  match t.select us with
  | none => pure s!"none {sf t.total}"
  | some i => pure s!"{i} {sf t.total}"

/-- A tree of joined lights with integer weights: `L <m>` or `J <k>` followed by `k` subtrees
(as a weight list per node: `(total, leaves, ok)` where `ok` = every join below has a positive
total dividing `g`, the hypothesis `LTree.gridOK` of `M3d.C19.nested_join_grid_exact`). -/
partial def ntree (g : Nat) : P (Nat × List Nat × Bool) := do
  let t ← tok
  if t = "L" then do
    let m ← nat
    pure (m, [m], true)
  else if t = "J" then do
    let k ← nat
    let ts ← many k (ntree g)
    let tot := ts.foldl (fun a x => a + x.1) 0
    let ok := ts.all (fun x => x.2.2) && decide (0 < tot) && g % tot == 0
    pure (tot, (ts.map fun x => x.2.1).flatten, ok)
  else failure

/-- The law itself on the full midpoint grid of `N^d` draws (integer weights, every join's total
positive and dividing `N`): light `l` must be reached by exactly `N^d·m_l/T` draws
(`M3d.C19.nested_join_grid_exact`) and `TotalEmission` is `T·unit` — independent of how the join is
structured. -/
def kJNestGrid : P String := do
  let _shape ← tok; let unit ← fl; let g ← nat; let d ← nat; let (t, ms, ok) ← ntree g; done
  if !ok then failure
  let counts := ms.map fun m => g ^ d * m / t
  pure s!"{",".intercalate (counts.map toString)} {sf (Float.ofNat t * unit)}"

def kinds : List (String × P String) := [
  ("schlick", kSchlick), ("schlickg", kSchlickGen), ("refr", kRefr), ("rsamp", kRSamp false), ("rsampd", kRSamp true),
  ("rdens", kRDens false), ("rddens", kRDens true), ("rbsdf", kRBsdf),
  ("lsamp", kLSamp false), ("lsampd", kLSamp true), ("ldens", kLDens false), ("lddens", kLDens true),
  ("lbsdf", kLBsdf), ("adsamp", kAdSamp), ("addens", kAdDens), ("psamp", kPSamp), ("pdens", kPDens),
  ("pbsdf", kPBsdf), ("maxcos", kMaxCos), ("hgsamp", kHgSamp), ("hgnum", kHgNum), ("hgdens", kHgDens),
  ("jsel", kJSel), ("jselQ", kJSelQ), ("jdens", kJDens), ("jdensQ", kJDensQ),
  ("finfo", kFInfo), ("ausamp", kAuSamp), ("audens", kAuDens), ("fdens", kFDens), ("fsamp", kFSamp),
  ("pfdens", kPFDens), ("pfsamp", kPFSamp), ("hgbsdf", kHgBsdf), ("jbsdf", kJBsdf),
  ("sphere", kSphere), ("cyl", kCyl), ("mesh", kMesh), ("join", kJoin), ("selgrid", kSelGrid),
  ("jnest", kJNest), ("jnestgrid", kJNestGrid)]

def handleAll (ws : List String) : Option String :=
  match ws with
  | [] => none
  | kind :: rest =>
    match kinds.lookup kind with
    | none => none
    | some p => (p.run rest).map (·.1)

end M3d.Drv.C19
