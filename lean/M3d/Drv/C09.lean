import M3d.Basic
import M3d.Model.FastMap
import M3d.Model.Mesh
import M3d.Model.MeshIter
import M3d.Model.MeshObj
import M3d.Model.MeshBounds
/-! Line-protocol handler for C09 (map histories; mesh histories are added below). Core-only. -/
namespace M3d.Drv.C09
open M3d M3d.FastMap

def showInts (xs : List Int) : String :=
  if xs.isEmpty then "[]" else ",".intercalate (xs.map toString)

def parseIntsComma (s : String) : Option (List Int) :=
  if s = "[]" then some [] else (s.splitOn ",").mapM (·.toInt?)

/-- `slice` histories: V = List Int; ops `s k vs | a k x | d k | l k | n | K`. -/
partial def runSlice (h : Nat → UInt64) (m : FM Nat (List Int)) : List String → List String → Option (List String)
  | [], acc => some acc.reverse
  | "s" :: k :: vs :: rest, acc => do
      let k ← k.toNat?; let vs ← parseIntsComma vs
      runSlice h (store h m k vs) rest acc
  | "a" :: k :: x :: rest, acc => do
      let k ← k.toNat?; let x ← x.toInt?
      runSlice h (append h m k x) rest acc
  | "d" :: k :: rest, acc => do
      let k ← k.toNat?
      runSlice h (delete h m k) rest acc
  | "l" :: k :: rest, acc => do
      let k ← k.toNat?
      let o := match load h m k with | none => "-" | some vs => showInts vs
      runSlice h m rest (o :: acc)
  | "n" :: rest, acc => runSlice h m rest (toString (len m) :: acc)
  | "K" :: rest, acc =>
      let ks := sortBy (· < ·) (keys m)
      runSlice h m rest (("{" ++ ",".intercalate (ks.map toString) ++ "}") :: acc)
  | _, _ => none

/-- `num` histories: V = Int; ops `s k v | p k x | d k | l k | n | K`. -/
partial def runNum (h : Nat → UInt64) (m : FM Nat Int) : List String → List String → Option (List String)
  | [], acc => some acc.reverse
  | "s" :: k :: v :: rest, acc => do
      let k ← k.toNat?; let v ← v.toInt?
      runNum h (store h m k v) rest acc
  | "p" :: k :: x :: rest, acc => do
      let k ← k.toNat?; let x ← x.toInt?
      runNum h (addTo 0 h m k x) rest acc
  | "d" :: k :: rest, acc => do
      let k ← k.toNat?
      runNum h (delete h m k) rest acc
  | "l" :: k :: rest, acc => do
      let k ← k.toNat?
      let o := match load h m k with | none => "-" | some v => toString v
      runNum h m rest (o :: acc)
  | "n" :: rest, acc => runNum h m rest (toString (len m) :: acc)
  | "K" :: rest, acc =>
      let ks := sortBy (· < ·) (keys m)
      runNum h m rest (("{" ++ ",".intercalate (ks.map toString) ++ "}") :: acc)
  | _, _ => none

/-- `<kind> <nkeys> <hash hex>… <ops>…` -/
def handleMap (kind : String) (ws : List String) : Option String := do
  let n ← (← ws.head?).toNat?
  let hs ← ((ws.drop 1).take n).mapM parseHex
  if hs.length ≠ n then none
  let h : Nat → UInt64 := fun k => (hs.getD k 0).toUInt64
  let ops := ws.drop (1 + n)
  let outs ← if kind = "num" then runNum h empty ops [] else runSlice h empty ops []
  some (" ".intercalate outs)

def handle (ws : List String) : Option String :=
  match ws with
  | "slice" :: rest => handleMap "slice" rest
  | "num" :: rest => handleMap "num" rest
  | _ => none

end M3d.Drv.C09

/-! ### Mesh histories -/
namespace M3d.Drv.C09
open M3d M3d.FastMap M3d.Mesh

def parseTri (s : String) : Option Tri :=
  match (s.splitOn ",").mapM (·.toNat?) with
  | some [a, b, c] => some (a, b, c)
  | _ => none

def showTri (t : Tri) : String := s!"{t.1},{t.2.1},{t.2.2}"

def triLt (a b : Tri) : Bool :=
  a.1 < b.1 || (a.1 == b.1 && (a.2.1 < b.2.1 || (a.2.1 == b.2.1 && a.2.2 < b.2.2)))

def showSet (xs : List Nat) : String :=
  "{" ++ ",".intercalate ((sortBy (· < ·) xs).map toString) ++ "}"

def showTris (ts : List Tri) : String :=
  "{" ++ ";".intercalate ((sortBy triLt ts).map showTri) ++ "}"


/-- Callback script `-` or `k:a:f/k:r:f/…`: during its `k`-th invocation the callback adds /
removes face `f` (entries with the same `k` in the listed order). -/
def parseScript (s : String) : Option (Nat → List IterAct) :=
  if s = "-" then some (fun _ => []) else do
    let es ← (s.splitOn "/").mapM fun e =>
      match e.splitOn ":" with
      | [k, "a", f] => do some ((← k.toNat?), IterAct.add (← f.toNat?))
      | [k, "r", f] => do some ((← k.toNat?), IterAct.rem (← f.toNat?))
      | _ => none
    some fun k => es.filterMap fun (k', a) => if k' = k then some a else none

def parseNatsComma (s : String) : Option (List Nat) :=
  if s = "[]" then some [] else (s.splitOn ",").mapM (·.toNat?)

def showSeq (xs : List Nat) : String := "[" ++ ",".intercalate (xs.map toString) ++ "]"

def isPermOf (a b : List Nat) : Bool :=
  a.length == b.length && a.eraseDups.length == a.length && a.all (b.contains ·)

/-- Two mesh handles: ops act on `m`; `cp` makes `o` a `Copy()` of `m`, `sw` swaps the handles,
`am` is `m.AddMesh(o)`.  A copy shares face pointers (ids) with its source and nothing else. -/
partial def runMeshO (h : Nat → UInt64) (tri : Nat → Tri) (m o : Mesh.Mesh) :
    List String → List String → Option (List String)
  | [], acc => some acc.reverse
  | "cp" :: rest, acc => runMeshO h tri m { faces := m.faces, index := none } rest acc
  | "sw" :: rest, acc => runMeshO h tri o m rest acc
  | "am" :: rest, acc => runMeshO h tri (o.faces.foldl (fun mm f => mm.add h tri f) m) o rest acc
  | "add" :: f :: rest, acc => do
      let f ← f.toNat?
      runMeshO h tri (m.add h tri f) o rest acc
  | "rem" :: f :: rest, acc => do
      let f ← f.toNat?
      runMeshO h tri (m.remove h tri f) o rest acc
  | "has" :: f :: rest, acc => do
      let f ← f.toNat?
      runMeshO h tri m o rest (boolStr (m.contains f) :: acc)
  | "num" :: rest, acc => runMeshO h tri m o rest (toString m.num :: acc)
  | "faces" :: rest, acc => runMeshO h tri m o rest (showSet m.faces :: acc)
  | "find1" :: a :: rest, acc => do
      let a ← a.toNat?
      let (m', r) := m.find h tri [a]
      runMeshO h tri m' o rest (showSet r :: acc)
  | "find2" :: a :: b :: rest, acc => do
      let a ← a.toNat?; let b ← b.toNat?
      let (m', r) := m.find h tri [a, b]
      runMeshO h tri m' o rest (showSet r :: acc)
  | "find3" :: a :: b :: c :: rest, acc => do
      let a ← a.toNat?; let b ← b.toNat?; let c ← c.toNat?
      let (m', r) := m.find h tri [a, b, c]
      runMeshO h tri m' o rest (showSet r :: acc)
  | "nbr" :: f :: rest, acc => do
      let f ← f.toNat?
      let (m', r) := m.neighbors h tri f
      runMeshO h tri m' o rest (showSet r :: acc)
  | "nbr2" :: f :: rest, acc => do
      let f ← f.toNat?
      let (m', r) := m.neighbors2 h tri f
      runMeshO h tri m' o rest (showSet r :: acc)
  | "verts" :: rest, acc =>
      let (m', r) := m.vertexSlice h tri
      runMeshO h tri m' o rest (showSet r :: acc)
  -- IterateSorted(f, cmp) with cmp = "position in ord" and a callback that adds/removes faces:
  -- the visit sequence is deterministic (theorems iterate_sorted_snapshot,
  -- iterate_visits_current_members)
  | "its" :: ord :: sc :: rest, acc => do
      let ord ← parseNatsComma ord; let script ← parseScript sc
      let (m', vs) := m.iterate h tri script (sortedSnap ord m.faces)
      runMeshO h tri m' o rest (showSeq vs :: acc)
  -- Iterate(f) (Go map order): the harness reports the visit sequence it saw; the model is run on
  -- a snapshot order that explains it (if there is one, the outputs agree; see Model/MeshIter)
  | "it" :: sc :: vseq :: rest, acc => do
      let script ← parseScript sc; let V ← parseNatsComma vseq
      let snap := explainSnap (fun (m : Mesh.Mesh) x => decide (x ∈ m.faces))
        (fun m k => applyActs h tri m (script k)) m m.faces V
      let (m', vs) := m.iterate h tri script snap
      let out := if isPermOf snap m.faces then showSeq vs else "visits-not-explained-by-any-snapshot-of-the-faces"
      runMeshO h tri m' o rest (out :: acc)
  | "itv" :: sc :: vseq :: rest, acc => do
      let script ← parseScript sc; let V ← parseNatsComma vseq
      let (m0, ix) := m.withIndex h tri
      let snap := explainSnap (fun (m : Mesh.Mesh) p => m.hasVertex h p)
        (fun m k => applyActs h tri m (script k)) m0 (keys ix) V
      let (m', vs) := m.iterateVerts h tri script snap
      let out := if isPermOf snap (keys ix) then showSeq vs else "visits-not-explained-by-any-snapshot-of-the-vertices"
      runMeshO h tri m' o rest (out :: acc)
  -- derived meshes are specified directly from the current set of faces
  | "copy" :: rest, acc => runMeshO h tri m o rest (showSet m.faces :: acc)
  | "deep" :: rest, acc => runMeshO h tri m o rest (showTris (m.faces.map tri) :: acc)
  | "inv" :: rest, acc => runMeshO h tri m o rest (showTris (specInvert (m.faces.map tri)) :: acc)
  | "map" :: perm :: rest, acc => do
      let π ← (perm.splitOn ",").mapM (·.toNat?)
      let f := fun k => π.getD k k
      let ts := (m.faces.map tri).map fun (a, b, c) => (f a, f b, f c)
      runMeshO h tri m o rest (showTris ts :: acc)
  | _, _ => none

/-- `mesh <nkeys> <hash>… <ntris> <a,b,c>… <ops>…` -/
def handleMesh (ws : List String) : Option String := do
  let n ← (← ws.head?).toNat?
  let hs ← ((ws.drop 1).take n).mapM parseHex
  if hs.length ≠ n then none
  let h : Nat → UInt64 := fun k => (hs.getD k 0).toUInt64
  let ws := ws.drop (1 + n)
  let nt ← (← ws.head?).toNat?
  let ts ← ((ws.drop 1).take nt).mapM parseTri
  if ts.length ≠ nt then none
  let tri : Nat → Tri := fun f => ts.getD f (0, 0, 0)
  let outs ← runMeshO h tri Mesh.new Mesh.new (ws.drop (1 + nt)) []
  some (" ".intercalate outs)

def handleAll0 (ws : List String) : Option String :=
  match ws with
  | "mesh" :: rest => handleMesh rest
  -- the specification of a mesh returned by one of the library's in-place editors: it answers
  -- every query as a fresh mesh of its faces (theorem query_eq_fresh); the comparison itself is
  -- done in the harness against a freshly built real mesh.
  | ["fresh", _] => some "same-as-fresh"
  | _ => handle ws

end M3d.Drv.C09

/-! ### Programs over several mesh variables (derived meshes are NEW objects) -/
namespace M3d.Drv.C09
open M3d M3d.FastMap M3d.Mesh M3d.MeshObj M3d.MeshBounds

/-- `-` (identity) or `a>b,c>d,…`: the coordinate map on key ids. -/
def parseKeyMap (s : String) : Option (Nat → Nat) :=
  if s = "-" then some id else do
    let ps ← (s.splitOn ",").mapM fun e =>
      match e.splitOn ">" with
      | [a, b] => do some ((← a.toNat?), (← b.toNat?))
      | _ => none
    some fun k => match ps.find? (·.1 = k) with
      | some (_, b) => b
      | none => k

def showP3 (p : P3 Rat) : String := s!"{showRat p.x},{showRat p.y},{showRat p.z}"

/-- key token `hash;x;y;z` (hash hex, coordinates `num/den`). -/
def parseKeyTok (s : String) : Option (Nat × P3 Rat) :=
  match s.splitOn ";" with
  | [hh, x, y, z] => do some ((← parseHex hh), ⟨← parseRat x, ← parseRat y, ← parseRat z⟩)
  | _ => none

def sortTris (ts : List Tri) : List Tri := sortBy triLt ts

/-- The values the faces of a derived mesh must have (`dim = 2`: a segment `(a,b)` is the triple
`(a,b,b)`). -/
def expectDerived (dim : Nat) (method : String) (g : Nat → Nat) (tri : Nat → Tri) (src : List Nat) :
    List Tri :=
  if method = "InvertNormals" then
    if dim = 2 then src.map fun f => ((tri f).2.1, (tri f).1, (tri f).1)
    else specInvert (src.map tri)
  else specMapped tri g src

/-- The program runs in the VALUE semantics (`stepVal`): by `derived_meshes_are_new_objects` that
is what the Go program over `*Mesh` objects computes as long as every derived mesh is a new object. -/
partial def runObjs (dim : Nat) (h : Nat → UInt64) (tri : Nat → Tri) (coord : Nat → P3 Rat)
    (vals : List Mesh.Mesh) :
    List String → List String → Option (List String)
  | [], acc => some acc.reverse
  | "add" :: v :: f :: rest, acc => do
      let v ← v.toNat?; let f ← f.toNat?
      runObjs dim h tri coord (stepVal h tri vals (.add v f)) rest acc
  | "rem" :: v :: f :: rest, acc => do
      let v ← v.toNat?; let f ← f.toNat?
      runObjs dim h tri coord (stepVal h tri vals (.remove v f)) rest acc
  | "am" :: v :: w :: rest, acc => do
      let v ← v.toNat?; let w ← w.toNat?
      runObjs dim h tri coord (stepVal h tri vals (.addMesh v w)) rest acc
  | "has" :: v :: f :: rest, acc => do
      let v ← v.toNat?; let f ← f.toNat?
      runObjs dim h tri coord vals rest (boolStr ((vals.getD v Mesh.new).contains f) :: acc)
  | "num" :: v :: rest, acc => do
      let v ← v.toNat?
      runObjs dim h tri coord vals rest (toString (vals.getD v Mesh.new).num :: acc)
  | "faces" :: v :: rest, acc => do
      let v ← v.toNat?
      runObjs dim h tri coord vals rest (showSet (vals.getD v Mesh.new).faces :: acc)
  | "find1" :: v :: a :: rest, acc => do
      let v ← v.toNat?; let a ← a.toNat?
      let (m', r) := (vals.getD v Mesh.new).find h tri [a]
      runObjs dim h tri coord (vals.set v m') rest (showSet r :: acc)
  | "find2" :: v :: a :: b :: rest, acc => do
      let v ← v.toNat?; let a ← a.toNat?; let b ← b.toNat?
      let (m', r) := (vals.getD v Mesh.new).find h tri [a, b]
      runObjs dim h tri coord (vals.set v m') rest (showSet r :: acc)
  | "nbr" :: v :: f :: rest, acc => do
      let v ← v.toNat?; let f ← f.toNat?
      let (m', r) := if dim = 2 then (vals.getD v Mesh.new).neighbors2 h tri f
        else (vals.getD v Mesh.new).neighbors h tri f
      runObjs dim h tri coord (vals.set v m') rest (showSet r :: acc)
  | "verts" :: v :: rest, acc => do
      let v ← v.toNat?
      let (m', r) := (vals.getD v Mesh.new).vertexSlice h tri
      runObjs dim h tri coord (vals.set v m') rest (showSet r :: acc)
  -- Min() / Max(): the fold over the corners of the current faces (theorem bounds_eq_fresh: the
  -- enumeration order is irrelevant)
  | "min" :: v :: rest, acc => do
      let v ← v.toNat?
      let r := meshMin ⟨0, 0, 0⟩ (cornerCoords tri coord (vals.getD v Mesh.new).faces)
      runObjs dim h tri coord vals rest (showP3 r :: acc)
  | "max" :: v :: rest, acc => do
      let v ← v.toNat?
      let r := meshMax ⟨0, 0, 0⟩ (cornerCoords tri coord (vals.getD v Mesh.new).faces)
      runObjs dim h tri coord vals rest (showP3 r :: acc)
  -- vars[dst] = vars[src].<method>(…): the result is a new object built from the faces `ids`
  -- (the pointers the harness found in it), which must carry exactly the mapped values
  | "dv" :: dst :: src :: method :: km :: ids :: rest, acc => do
      let dst ← dst.toNat?; let src ← src.toNat?; let g ← parseKeyMap km
      let ids ← parseNatsComma ids
      let sf := (vals.getD src Mesh.new).faces
      let vals' := stepVal h tri vals (.derive dst ids)
      if method = "Copy" then
        -- documented: "all of the triangles are the same exact pointers"
        runObjs dim h tri coord vals' rest (showSet sf :: acc)
      else
        let want := expectDerived dim method g tri sf
        let ok := ids.eraseDups.length == ids.length && sortTris (ids.map tri) == sortTris want
        -- DeepCopy is documented to copy every triangle individually: none of the source's pointers
        let copied := method != "DeepCopy" || ids.all fun i => !sf.contains i
        let out := showTris want ++ (if ok then "" else "/faces-found-do-not-carry-these-values")
          ++ (if copied then "" else "/deep-copy-shares-face-pointers-with-its-source")
        runObjs dim h tri coord vals' rest (out :: acc)
  | _, _ => none

/-- `mesho <dim> <nkeys> <hash;x;y;z>… <ntris> <a,b,c>… <nvars> <ops>…` -/
def handleMeshObjs (ws : List String) : Option String := do
  let dim ← (← ws.head?).toNat?
  let ws := ws.drop 1
  let n ← (← ws.head?).toNat?
  let ks ← ((ws.drop 1).take n).mapM parseKeyTok
  if ks.length ≠ n then none
  let h : Nat → UInt64 := fun k => ((ks.getD k (0, ⟨0, 0, 0⟩)).1).toUInt64
  let coord : Nat → P3 Rat := fun k => (ks.getD k (0, ⟨0, 0, 0⟩)).2
  let ws := ws.drop (1 + n)
  let nt ← (← ws.head?).toNat?
  let ts ← ((ws.drop 1).take nt).mapM parseTri
  if ts.length ≠ nt then none
  let tri : Nat → Tri := fun f => ts.getD f (0, 0, 0)
  let ws := ws.drop (1 + nt)
  let nv ← (← ws.head?).toNat?
  let outs ← runObjs dim h tri coord (List.replicate nv Mesh.new) (ws.drop 1) []
  some (" ".intercalate outs)

end M3d.Drv.C09

namespace M3d.Drv.C09
def handleAll (ws : List String) : Option String :=
  match ws with
  | "mesho" :: rest => handleMeshObjs rest
  | _ => handleAll0 ws
end M3d.Drv.C09
