import M3d.Basic
import M3d.Model.Surface
import M3d.Model.MeshOps
import M3d.Model.BlurIter
import M3d.Model.DeformTargets
import M3d.Model.ArapOp
import M3d.Model.ArapLoop
import M3d.Drv.C10Lin
import M3d.Drv.C10Rot
/-!
Line-protocol handler for C10.  Core-only.

One line = one REAL operation of a chain:

    <kind> P <np> <params…> I <n> <a,b,c>… O <m> <a,b,c>… | O timeout | O panic:… K <k> <ids…> [C <c> <id x y z>…]

`I`/`O` are the input and the real output mesh as id soups (ids = distinct coordinates), `K`
the vertices the keep-filter protects, `C` exact rational coordinates (only in exact mode).
The answer is `ok` iff the output satisfies what the property demands of that operation, as
judged by the proved deciders of `M3d.Surface` (closed manifold, Euler characteristic) and by
the models of `M3d.MeshOps` (vertex placement, volume/area) — otherwise `FAIL <failed checks>`.
The harness's expected column is the constant `ok`.
-/
namespace M3d.Drv.C10
open M3d M3d.Surface M3d.MeshOps

abbrev P3 := V3 Rat
abbrev P2 := V2 Rat

structure Line where
  kind : String
  params : List String
  inp : List String
  out : List String          -- tokens, or a single status token
  status : String            -- "ok" | "timeout" | "panic:…"
  keep : List Nat
  after : Option (List String)   -- section `A`: the INPUT object re-encoded after the call
  coords : List String

def takeSection (marker : String) (ws : List String) : Option (List String × List String) :=
  match ws with
  | m :: n :: rest =>
    if m ≠ marker then none else
    match n.toNat? with
    | some k => if rest.length < k then none else some (rest.take k, rest.drop k)
    | none => none
  | _ => none

def parseLine (ws : List String) : Option Line := do
  let kind ← ws.head?
  let (params, r) ← takeSection "P" ws.tail
  let (inp, r) ← takeSection "I" r
  match r with
  | "O" :: tok :: r2 =>
    let (out, status, r3) ←
      match tok.toNat? with
      | some k => if r2.length < k then none else some (r2.take k, "ok", r2.drop k)
      | none => some ([], tok, r2)
    let (keep, r4) ← takeSection "K" r3
    let keep ← keep.mapM (·.toNat?)
    let (after, r4) := match takeSection "A" r4 with
      | some (a, r5) => (some a, r5)
      | none => (none, r4)
    let coords := match r4 with
      | "C" :: n :: rest => match n.toNat? with
        | some _ => rest
        | none => []
      | _ => []
    some { kind, params, inp, out, status, keep, after, coords }
  | _ => none

def parseTri (s : String) : Option Tri :=
  match (s.splitOn ",").mapM (·.toNat?) with
  | some [a, b, c] => some (a, b, c)
  | _ => none

def parseSeg (s : String) : Option Seg :=
  match (s.splitOn ",").mapM (·.toNat?) with
  | some [a, b] => some (a, b)
  | _ => none

def verdict (checks : List (String × Bool)) : String :=
  let bad := checks.filter (fun c => !c.2)
  if bad.isEmpty then "ok" else "FAIL " ++ " ".intercalate (bad.map fun c => c.1 ++ "=0")

def subset (xs ys : List Nat) : Bool := xs.all ys.contains

/-! ### coordinates -/

partial def parseCoords3 (ws : List String) (acc : Array (Option P3)) : Option (Array (Option P3)) :=
  match ws with
  | [] => some acc
  | id :: x :: y :: z :: rest => do
    let id ← id.toNat?
    let x ← parseRat x; let y ← parseRat y; let z ← parseRat z
    let acc := if acc.size ≤ id then acc ++ Array.replicate (id + 1 - acc.size) none else acc
    parseCoords3 rest (acc.set! id (some ⟨x, y, z⟩))
  | _ => none

partial def parseCoords2 (ws : List String) (acc : Array (Option P2)) : Option (Array (Option P2)) :=
  match ws with
  | [] => some acc
  | id :: x :: y :: rest => do
    let id ← id.toNat?
    let x ← parseRat x; let y ← parseRat y
    let acc := if acc.size ≤ id then acc ++ Array.replicate (id + 1 - acc.size) none else acc
    parseCoords2 rest (acc.set! id (some ⟨x, y⟩))
  | _ => none

def z3 : P3 := ⟨0, 0, 0⟩
def z2 : P2 := ⟨0, 0⟩
def at3 (cs : Array (Option P3)) (i : Nat) : P3 := (cs.getD i none).getD z3
def at2 (cs : Array (Option P2)) (i : Nat) : P2 := (cs.getD i none).getD z2

def lt3 (a b : P3) : Bool := a.x < b.x || (a.x == b.x && (a.y < b.y || (a.y == b.y && a.z < b.z)))
def lt2 (a b : P2) : Bool := a.x < b.x || (a.x == b.x && a.y < b.y)

abbrev CTri := P3 × P3 × P3
abbrev CSeg := P2 × P2

def ltTri (s t : CTri) : Bool :=
  lt3 s.1 t.1 || (s.1 == t.1 && (lt3 s.2.1 t.2.1 || (s.2.1 == t.2.1 && lt3 s.2.2 t.2.2)))

/-- The lexicographically smallest of the three rotations (orientation kept; well defined also
for triangles with coinciding corners). -/
def canonTri (t : CTri) : CTri :=
  let (a, b, c) := t
  let r1 : CTri := (b, c, a)
  let r2 : CTri := (c, a, b)
  let m := if ltTri r1 t then r1 else t
  if ltTri r2 m then r2 else m

def ltSeg (s t : CSeg) : Bool := lt2 s.1 t.1 || (s.1 == t.1 && lt2 s.2 t.2)

def sameTris (xs ys : List CTri) : Bool :=
  let a := (xs.map canonTri).toArray.qsort ltTri
  let b := (ys.map canonTri).toArray.qsort ltTri
  a == b

def sameSegs (xs ys : List CSeg) : Bool :=
  xs.toArray.qsort ltSeg == ys.toArray.qsort ltSeg

def toC3 (cs : Array (Option P3)) (ts : List Tri) : List CTri :=
  ts.map fun t => (at3 cs t.1, at3 cs t.2.1, at3 cs t.2.2)

def toC2 (cs : Array (Option P2)) (ss : List Seg) : List CSeg :=
  ss.map fun s => (at2 cs s.1, at2 cs s.2)

/-- Distinct neighbours of `v` in a triangle soup. -/
def nbrs3 (ts : List Tri) (v : Nat) : List Nat :=
  ((ts.filter fun t => (triVerts t).contains v).flatMap triVerts).eraseDups.filter (· != v)

/-- The two corners opposite to the undirected edge `a b`. -/
def opposite (ts : List Tri) (a b : Nat) : List Nat :=
  (ts.filter fun t => (triVerts t).contains a && (triVerts t).contains b).flatMap fun t =>
    (triVerts t).filter fun c => c != a && c != b

/-- The model's Loop subdivision of a coordinate mesh (exact arithmetic). -/
def loopModel (cs : Array (Option P3)) (ts : List Tri) : List CTri :=
  let corner := fun v => loopCorner (at3 cs v) ((nbrs3 ts v).map (at3 cs))
  let edge := fun a b =>
    match opposite ts a b with
    | [o1, o2] => loopEdge (at3 cs a) (at3 cs b) (at3 cs o1) (at3 cs o2)
    | _ => z3
  ts.flatMap fun (a, b, c) =>
    let c1 := corner a; let c2 := corner b; let c3 := corner c
    let m1 := edge a b; let m2 := edge b c; let m3 := edge c a
    [(m1, m2, m3), (c1, m1, m3), (m1, c2, m2), (m3, m2, c3)]

/-- Re-index a coordinate mesh: ids = positions in the list of distinct points. -/
def reindex3 (ts : List CTri) : Array (Option P3) × List Tri :=
  let pts := (ts.flatMap fun t => [t.1, t.2.1, t.2.2]).eraseDups
  (pts.toArray.map some, ts.map fun t => (pts.idxOf t.1, pts.idxOf t.2.1, pts.idxOf t.2.2))

/-- `LoopSubdivision(m, iters)`: `loopSubdivision` applied `iters` times, each time on the mesh the
previous iteration returned (vertices = distinct points). -/
def loopIter : Nat → List CTri → List CTri
  | 0, ts => ts
  | n + 1, ts => let (cs, ids) := reindex3 ts; loopIter n (loopModel cs ids)

/-- `Blur(rates...)` / `BlurFiltered(f, rates...)` on a coordinate mesh: the vertices are indexed
(position in `verts ts`), `nb v` are the neighbours of vertex id `v`, and `M3d.MeshOps.blurRates`
(`M3d.C10.blur_rates_are_successive_iterations`) runs one iteration per rate in exact arithmetic. -/
def blurRatesModel (rates : List Rat) (nb : Nat → List Nat) (cs : Array (Option P3)) (ts : List Tri) : List CTri :=
  let vs := verts ts
  let idx := fun v => vs.idxOf v
  let table := vs.map fun v => (nb v).map idx
  let res := blurRates (fun i => table.getD i []) z3 rates (vs.map (at3 cs))
  let pt := fun v => res.getD (idx v) z3
  ts.map fun (a, b, c) => (pt a, pt b, pt c)

/-- The rates of a `geom r1 r2 …` parameter list. -/
def ratesOf (ps : List String) : List Rat := ((ps.drop 1).takeWhile fun s => (parseRat s).isSome).filterMap parseRat

/-- `v>a,b,c` tokens: explicit neighbour lists (BlurFiltered) or `k>t` constraint pairs (ARAP). -/
def parseArrow (s : String) : Option (Nat × List Nat) :=
  match s.splitOn ">" with
  | [v, rest] => do
    let v ← v.toNat?
    let xs ← (if rest = "" then some [] else (rest.splitOn ",").mapM (·.toNat?))
    some (v, xs)
  | _ => none

def arrows (ps : List String) : List (Nat × List Nat) := ps.filterMap parseArrow

/-! ### `arapop3`: the real `newARAPOperator` / `Update` / `Squeeze` / `Unsqueeze` against `M3d.ArapOp` -/

def tagged (tag : String) (ps : List String) : List String :=
  ps.filterMap fun s => match s.splitOn ":" with
    | [t, r] => if t == tag then some r else none
    | _ => none

def natList (s : String) : Option (List Nat) :=
  if s == "" then some [] else (s.splitOn ",").mapM (·.toNat?)

def optNatList (s : String) : Option (List (Option Nat)) :=
  if s == "" then some [] else (s.splitOn ",").mapM fun t => if t == "-1" then some none else t.toNat?.map some

def consList (s : String) : Option (List (Nat × Nat)) :=
  if s == "" then some [] else (s.splitOn ",").mapM fun t => match t.splitOn "=" with
    | [i, v] => do some ((← i.toNat?), (← v.toNat?))
    | _ => none

def keyVal (key : String) (ps : List String) : Option Nat :=
  ps.findSome? fun s => match s.splitOn "=" with
    | [k, v] => if k == key then v.toNat? else none
    | _ => none

/-- Runs the model of `SeqDeformer`'s operator (`seqOp update`) over the frames and compares, per
frame, the index maps and `Unsqueeze(Squeeze(x))` with what the real code produced; by
`M3d.C10.arap_update_is_fresh_operator` the maps are those of a fresh `newARAPOperator`, by
`arap_seq_deformer_meets_constraints` every constrained index carries its target. -/
def arapOpCheck (n z : Nat) (x : List Nat) :
    Option (ArapOp.Op Nat) → List (List (Nat × Nat) × List (Option Nat) × List Nat × List Nat) → Bool × Bool × Bool
  | _, [] => (true, true, true)
  | prev, (cons, m, s, u) :: rest =>
    let op := ArapOp.seqOp ArapOp.update n prev cons
    let fresh := ArapOp.newOp n cons
    let maps := op.f2s == m && op.s2f == s && fresh.f2s == m && fresh.s2f == s
    let uns := ArapOp.unsqueeze op z (ArapOp.squeeze op z x) == u
    let met := cons.all fun kv => kv.1 < n && u[kv.1]? == some kv.2
    let r := arapOpCheck n z x (some op) rest
    (maps && r.1, uns && r.2.1, met && r.2.2)

def handleArapOp (l : Line) : Option String := do
  if l.status ≠ "ok" then
    return (if l.status = "timeout" then "FAIL terminates=0" else "FAIL no-panic=0")
  let n ← keyVal "n" l.params
  let z ← keyVal "z" l.params
  let x ← natList (← (tagged "x" l.params).head?)
  let cs ← (tagged "c" l.params).mapM consList
  let ms ← (tagged "m" l.params).mapM optNatList
  let ss ← (tagged "s" l.params).mapM natList
  let us ← (tagged "u" l.params).mapM natList
  if cs.length ≠ ms.length || cs.length ≠ ss.length || cs.length ≠ us.length || x.length ≠ n then none
  let frames := (cs.zip (ms.zip (ss.zip us)))
  let r := arapOpCheck n z x none frames
  some (verdict [("index-maps", r.1), ("unsqueeze", r.2.1), ("constraints-in-unsqueeze", r.2.2)])

/-! ### `araploop3`: the real control loop of `ARAP.deformMap` against `M3d.ArapLoop` -/

def keyStr (key : String) (ps : List String) : Option String :=
  ps.findSome? fun s => match s.splitOn "=" with
    | [k, v] => if k == key then some v else none
    | _ => none

/-- The real `deformMap` returned the iterate(s) number `match:` of the step-by-step repetition with
the real `Targets` / `LinSolve` / `rotations` / `energy` on the same operator; `E:` are the real
energies `E_0 … E_max` (bits).  `stops-only-when-converged` fails iff NO matching `n` is an allowed
stop (`M3d.ArapLoop.allowedStop` at `Float`: the Go test `1 - E_n/E_{n-1} < tol` on the same bits;
`M3d.C10.arap_loop_stops_by_the_relative_rule`: the loop as it is always stops at an allowed `n`)
AND the real energies were still dropping there (`stillDropping` evaluated EXACTLY, at `Rat`, on the
real energies; `guard` > 0 keeps traces at rounding-noise level out) — which by
`M3d.C10.arap_no_early_stop_while_energy_drops` no allowed stop does. -/
def handleArapLoop (l : Line) : Option String := do
  if l.status ≠ "ok" then
    return (if l.status = "timeout" then "FAIL terminates=0" else "FAIL no-panic=0")
  let mn ← keyVal "min" l.params
  let mx ← keyVal "max" l.params
  let tol ← floatOfHex (← keyStr "tol" l.params)
  let guard ← floatOfHex (← keyStr "guard" l.params)
  let es ← (if let some e := (tagged "E" l.params).head? then (if e == "" then some [] else (e.splitOn ",").mapM floatOfHex) else none)
  let ms ← natList (← (tagged "match" l.params).head?)
  let E : Nat → Float := fun k => es.getD k 0
  -- exact evaluation of "still dropping" (not judged when an energy is not a finite number)
  let dropping : Nat → Bool := fun n =>
    match es.mapM (fun e => ratOfBits e.toBits), ratOfBits tol.toBits, ratOfBits guard.toBits with
    | some qs, some t, some g =>
      decide (t < 1) && decide (0 < g) && n + 1 < qs.length && ArapLoop.stillDropping t g (fun k => qs.getD k 0) n
    | _, _, _ => false
  some (verdict [("energies-E0..Emax", es.length == mx + 1),
    ("output-is-an-iterate(bitwise)", !ms.isEmpty),
    ("stops-only-when-converged", ms.isEmpty || ms.any fun n => ArapLoop.allowedStop tol mn mx E n || !dropping n)])

/-! ### 3-D kinds -/

def handle3 (l : Line) : Option String := do
  if l.kind == "arapop3" then return (← handleArapOp l)
  if l.kind == "araploop3" then return (← handleArapLoop l)
  if l.kind == "araprot3" then
    -- the best-fit rotations of ARAP (`M3d.ArapRot`, `M3d/Drv/C10Rot.lean`)
    if l.status ≠ "ok" then
      return (if l.status = "timeout" then "FAIL terminates=0" else "FAIL no-panic=0")
    return (← C10Rot.handle l.params)
  if l.kind == "araplin3" then
    -- the linear step of ARAP (`M3d.ArapLin`, `M3d/Drv/C10Lin.lean`)
    if l.status ≠ "ok" then
      return (if l.status = "timeout" then "FAIL terminates=0" else "FAIL no-panic=0")
    return (← C10Lin.handle l.params (← l.inp.mapM parseTri))
  let inp ← l.inp.mapM parseTri
  if l.status ≠ "ok" then
    return (if l.status = "timeout" then "FAIL terminates=0" else "FAIL no-panic=0")
  let out ← l.out.mapM parseTri
  let vin := verts inp
  let vout := verts out
  let base : List (String × Bool) :=
    [("edge-balanced", edgeBalanced out), ("fan-connected", fanConnected out), ("no-degenerate-face", noDegenerate out),
     ("simple", noDupFace out), ("same-chi", euler out == euler inp)]
  let cs ← parseCoords3 l.coords #[]
  let hasGeom := l.params.contains "geom"
  match l.kind with
  | "init3" => some (verdict [("closed-manifold", closedManifold inp), ("simple", noDupFace inp)])
  | "decimate3" | "elimcoplanar3" =>
    let vol := if l.params.contains "vol" then
        [("volume-equal", volume6 (toC3 cs out) == volume6 (toC3 cs inp))] else []
    some (verdict (base ++ [("no-new-vertices", subset vout vin), ("keep-filter", subset l.keep vout)] ++ vol))
  | "elimedges3" => some (verdict base)
  | "flip3" =>
    some (verdict (base ++ [("same-vertices", subset vout vin && subset vin vout), ("same-faces", out.length == inp.length)]))
  | "subdivedges3" =>
    let n ← (← l.params.head?).toNat?
    let e := numE inp
    let geom := if hasGeom then
        [("placement", sameTris (subdivideEdges n z3 (toC3 cs inp)) (toC3 cs out)),
         ("volume-equal", volume6 (toC3 cs out) == volume6 (toC3 cs inp))] else []
    some (verdict (base ++ [("faces=n²F", out.length == n * n * inp.length),
      ("verts=V+(n-1)E+F(n-1)(n-2)/2", vout.length == vin.length + (n - 1) * e + inp.length * ((n - 1) * (n - 2) / 2)),
      ("old-vertices-kept", subset vin vout)] ++ geom))
  | "loop3" =>
    let it := (keyVal "iters" l.params).getD 1
    let geom := if hasGeom then [("loop-masks", sameTris (loopIter it (toC3 cs inp)) (toC3 cs out))] else []
    -- (V, E, F) ↦ (V + E, 2E + 3F, 4F) per iteration
    let cnt := (List.range it).foldl (fun (c : Nat × Nat × Nat) _ => (c.1 + c.2.1, 2 * c.2.1 + 3 * c.2.2, 4 * c.2.2))
      (vin.length, numE inp, inp.length)
    if hasGeom && l.params.contains "noninj" then
      -- the published masks (verified exactly) map two new vertices to the same point on this input
      return verdict ([("claimed-noninjective", decide (vout.length < cnt.1))] ++ geom)
    some (verdict (base ++ [("faces=4^k·F", out.length == cnt.2.2), ("verts=V+E(per iteration)", vout.length == cnt.1)] ++ geom))
  | "subdivider3" =>
    let k ← (← l.params.head?).toNat?
    if l.params.contains "noninj" then
      -- the harness saw the caller-supplied midpoint function return a point twice / an old vertex
      return verdict [("claimed-noninjective", decide (vout.length < vin.length + k))]
    some (verdict (base ++ [("faces=F+2L", out.length == inp.length + 2 * k), ("verts=V+L", vout.length == vin.length + k),
      ("old-vertices-kept", subset vin vout)]))
  | "blur3" | "blurf3" =>
    let nb : Nat → List Nat :=
      if l.kind == "blur3" then nbrs3 inp
      else
        let tab := arrows l.params
        fun v => ((tab.find? fun e => e.1 == v).map (·.2)).getD []
    let geom := if hasGeom then
        [("blur-rule", sameTris (blurRatesModel (ratesOf l.params) nb cs inp) (toC3 cs out))]
      else []
    if l.params.contains "noninj" then
      -- hypothesis of relabel_preserves (injective vertex map) fails on this input
      return verdict ([("claimed-noninjective", decide (vout.length < vin.length))] ++ geom)
    some (verdict (base ++ [("same-faces", out.length == inp.length), ("same-vertex-count", vout.length == vin.length)] ++ geom))
  | "arap3" =>
    -- constraints `k>t`: vertex id ↦ id of the target coordinate
    -- (`M3d.C10.arap_constraints_visible_in_output`: necessary for ANY vertex map meeting them)
    let cons := (arrows l.params).filterMap fun e => match e.2 with | [t] => some (e.1, t) | _ => none
    let vis := [("constraint-targets-visible", targetsVisible cons inp out)]
    if l.params.contains "noninj" then
      return verdict ([("claimed-noninjective", decide (vout.length < vin.length))] ++ vis)
    some (verdict (base ++ [("same-faces", out.length == inp.length), ("same-vertex-count", vout.length == vin.length)] ++
      vis ++ [("constraint-stars", starsAgree cons inp out)]))
  | "smooth3" | "flatten3" =>
    if l.params.contains "noninj" then
      return verdict [("claimed-noninjective", decide (vout.length < vin.length))]
    some (verdict (base ++ [("same-faces", out.length == inp.length), ("same-vertex-count", vout.length == vin.length)]))
  | _ => none

/-! ### 2-D kinds -/

/-- Number of closed loops met when following successors (executable helper, not proved). -/
partial def countLoops (ss : List Seg) (todo : List Nat) (seen : List Nat) (n : Nat) : Nat :=
  match todo with
  | [] => n
  | v :: rest =>
    if seen.contains v then countLoops ss rest seen n else
    let rec follow (w : Nat) (seen : List Nat) (fuel : Nat) : List Nat :=
      if fuel = 0 || seen.contains w then seen else
      match succOf ss w with
      | some x => follow x (w :: seen) (fuel - 1)
      | none => w :: seen
    countLoops ss rest (follow v seen (ss.length + 1)) (n + 1)

def loops (ss : List Seg) : Nat := countLoops ss (segVerts ss) [] 0

/-- Exactly colinear with the same direction (what `EliminateColinear` removes when the
coordinates are coarse dyadics). -/
def colinearAt (cs : Array (Option P2)) (ss : List Seg) (v : Nat) : Bool :=
  match prevOf ss v, succOf ss v with
  | some p, some n =>
    let a := at2 cs p; let b := at2 cs v; let c := at2 cs n
    let d1 : P2 := ⟨b.x - a.x, b.y - a.y⟩
    let d2 : P2 := ⟨c.x - b.x, c.y - b.y⟩
    V2.cross d1 d2 == 0 && d1.x * d2.x + d1.y * d2.y > 0
  | _, _ => false

def chaikinModel (cs : Array (Option P2)) (ss : List Seg) : List CSeg :=
  ss.flatMap fun s =>
    let p := at2 cs s.1; let q := at2 cs s.2
    let mp1 := chaikinPoint p q
    let mp2 := chaikinPoint q p
    match succOf ss s.2 with
    | some r => [(mp1, mp2), (mp2, chaikinPoint q (at2 cs r))]
    | none => [(mp1, mp2)]

def iter {α} (f : α → α) : Nat → α → α
  | 0, x => x
  | n + 1, x => iter f n (f x)

/-- Chaikin on coordinate soups directly (for several iterations). -/
def chaikinC (ss : List CSeg) : List CSeg :=
  ss.flatMap fun s =>
    let mp1 := chaikinPoint s.1 s.2
    let mp2 := chaikinPoint s.2 s.1
    match ss.find? (fun t => t.1 == s.2) with
    | some t => [(mp1, mp2), (mp2, chaikinPoint t.1 t.2)]
    | none => [(mp1, mp2)]

/-! ### The documented criterion of `EliminateColinear`, with Go's float operations

`vertexNormalDifference(res, v) = 1 - math.Min(1, n1.Dot(n2))` where `n1`, `n2` are
`Segment.Normal()` of the two segments at `v` (`Coord{-dy, dx}.Scale(1 / math.Sqrt(x*x + y*y))`,
`Sub = Add(Scale(-1))`): only `+ * / sqrt`, performed here in the same order on the same bits,
so this is bit-for-bit the number the Go code compares with `epsilon`. -/

abbrev F2 := Float × Float

def ratToFloat (q : Rat) : Float := Float.ofInt q.num / Float.ofNat q.den

def segNormalF (a b : F2) : F2 :=
  let dx := b.1 + a.1 * (-1)
  let dy := b.2 + a.2 * (-1)
  let vx := -dy
  let vy := dx
  let s := 1 / Float.sqrt (vx * vx + vy * vy)
  (vx * s, vy * s)

/-- `math.Min(1, d)` (NaN propagates). -/
def goMin1 (d : Float) : Float := if d.isNaN then d else if d < 1 then d else 1

def normalDiffF (a v b : F2) : Float :=
  let n1 := segNormalF a v
  let n2 := segNormalF v b
  1 - goMin1 (n1.1 * n2.1 + n1.2 * n2.2)

/-- Every segment of the real output is an input segment or bridges a removed vertex `v` that
meets the criterion between the two end points (`eliminate_colinear_bridges_meet_criterion`:
the LAST vertex removed between `a` and `b` was removed when its neighbours were `a` and `b`). -/
def bridgesMeetCriterion (eps : Float) (cs : Array (Option P2)) (inp out : List Seg) : Bool :=
  let vout := segVerts out
  let removed := (segVerts inp).filter fun v => !vout.contains v
  let pt := fun v => let p := at2 cs v; ((ratToFloat p.x, ratToFloat p.y) : F2)
  let remPts := removed.map pt
  out.all fun s => inp.contains s ||
    (let a := pt s.1; let b := pt s.2
     remPts.any fun v => normalDiffF a v b < eps)

def nbrs2 (ss : List Seg) (v : Nat) : List Nat :=
  (ss.filter fun s => s.1 == v || s.2 == v).flatMap fun s => [s.1, s.2].filter (· != v)

def handle2 (l : Line) : Option String := do
  let inp ← l.inp.mapM parseSeg
  if l.status ≠ "ok" then
    return (if l.status = "timeout" then "FAIL terminates=0" else "FAIL no-panic=0")
  let out ← l.out.mapM parseSeg
  let vin := segVerts inp
  let vout := segVerts out
  let base : List (String × Bool) := [("closed-curves", closedCurves out), ("same-loops", loops out == loops inp)]
  let cs ← parseCoords2 l.coords #[]
  let hasGeom := l.params.contains "geom"
  match l.kind with
  | "init2" => some (verdict [("closed-curves", closedCurves inp)])
  | "decimate2" =>
    let maxV ← (← l.params.head?).toNat?
    some (verdict (base ++ [("no-new-vertices", subset vout vin),
      ("vertex-budget", vout.length ≤ max (maxV + 3 * loops inp) 0 || vout.length == vin.length && vin.length ≤ maxV)]))
  | "elimcolinear2" =>
    let geom := if l.params.contains "area" then
        [("area-equal", area2 (toC2 cs out) == area2 (toC2 cs inp)),
         ("no-colinear-vertex-left", vout.all fun v => !colinearAt cs out v),
         ("only-colinear-removed", vin.all fun v => vout.contains v || colinearAt cs inp v)] else []
    let crit ← if l.params.contains "crit" then do
        let eps ← floatOfHex (← l.params[1]?)
        pure [("bridges-meet-criterion", bridgesMeetCriterion eps cs inp out)]
      else pure []
    some (verdict (base ++ [("no-new-vertices", subset vout vin)] ++ crit ++ geom))
  | "subdivide2" =>
    let it ← (← l.params.head?).toNat?
    let geom := if hasGeom then [("chaikin-masks", sameSegs (iter chaikinC it (toC2 cs inp)) (toC2 cs out))] else []
    some (verdict (base ++ [("segments=2^k·E", out.length == 2 ^ it * inp.length)] ++ geom))
  | "smooth2" | "smoothsq2" =>
    if l.params.contains "noninj" then
      return verdict [("claimed-noninjective", decide (vout.length < vin.length))]
    some (verdict (base ++ [("same-segments", out.length == inp.length), ("same-vertex-count", vout.length == vin.length)]))
  | "blur2" =>
    let geom ← if hasGeom then do
        let rate ← parseRat (← l.params[1]?)
        let pt := fun v => blurPoint2 rate (at2 cs v) ((nbrs2 inp v).map (at2 cs))
        pure [("blur-rule", sameSegs (inp.map fun s => (pt s.1, pt s.2)) (toC2 cs out))]
      else pure []
    if l.params.contains "noninj" then
      return verdict ([("claimed-noninjective", decide (vout.length < vin.length))] ++ geom)
    some (verdict (base ++ [("same-segments", out.length == inp.length), ("same-vertex-count", vout.length == vin.length)] ++ geom))
  | _ => none

/-- `input-unchanged`: every operation judged here is documented to CREATE a new mesh, so the mesh
object the program passed in must still denote the mesh it denoted before the call — a program may
use it again (`M3d.C10.program_on_objects_is_program_on_values`: with operations that write only
to triangles they allocated, a Go program over `*Mesh` objects computes what the same program
computes over mesh values; `eliminate_edges_leaves_every_object_unchanged`).  Section `A` is the
input object re-encoded (same canonical encoding as `I`) after the real call returned. -/
def inputUnchanged (l : Line) : Bool :=
  match l.after with
  | none => true
  | some a => a == l.inp

def withInputCheck (l : Line) (v : String) : String :=
  if inputUnchanged l then v
  else if v == "ok" then "FAIL input-unchanged=0"
  else v ++ " input-unchanged=0"

def handleAll (ws : List String) : Option String := do
  let l ← parseLine ws
  if l.kind.endsWith "3" then (handle3 l).map (withInputCheck l)
  else if l.kind.endsWith "2" then (handle2 l).map (withInputCheck l)
  else none

end M3d.Drv.C10
